/-
  C01 proofs, layer 5c: the section kinds put into the uniform shape `StepRT` of the keyword-loop composition
  (PARAM with its look-ahead, ELEME, CONNE — the sections every written file has — and ROCKS, MOMOP, START, NOVER,
  GENER, LINEQ, SOLVR), and the concrete canonical update / side condition per kind.
-/
import PyTough.Proofs.T2WholeFile
namespace Proofs.T2
open Py Model Model.T2 Proofs
open Gen.Sections (Rec)

theorem mapM_singletons {α : Type} (f : α → Except Exc Str) :
    ∀ (l : List α), (∀ a ∈ l, ∃ x, f a = .ok x) →
      l.mapM f = .ok (l.map (fun a => match f a with | .ok x => [x] | .error _ => [])).flatten := by
  intro l
  induction l with
  | nil => intro _; rfl
  | cons a as ih =>
    intro h
    obtain ⟨x, hx⟩ := h a (by simp)
    have := ih (fun b hb => h b (List.mem_cons_of_mem _ hb))
    simp only [List.mapM_cons, bind, Except.bind, pure, Except.pure, hx, this, List.map_cons, List.flatten_cons,
      List.singleton_append]

theorem mapM_lists {α : Type} (f : α → Except Exc (List Str)) :
    ∀ (l : List α), (∀ a ∈ l, ∃ x, f a = .ok x) →
      l.mapM f = .ok (l.map (fun a => match f a with | .ok x => x | .error _ => [])) := by
  intro l
  induction l with
  | nil => intro _; rfl
  | cons a as ih =>
    intro h
    obtain ⟨x, hx⟩ := h a (by simp)
    have := ih (fun b hb => h b (List.mem_cons_of_mem _ hb))
    simp only [List.mapM_cons, bind, Except.bind, pure, Except.pure, hx, this, List.map_cons]

/-- the canonical blocks / connections read back from the main table -/
def canonBlocks (bs : List Block) : List Block :=
  (bs.map (canonBlock (fieldAt mainTabs c!"blocks" 1) (fieldAt mainTabs c!"blocks" 2) (fieldAt mainTabs c!"blocks" 4)
    (fieldAt mainTabs c!"blocks" 5) (fieldAt mainTabs c!"blocks" 6) (fieldAt mainTabs c!"blocks" 7) (fieldAt mainTabs c!"blocks" 8)
    (fieldAt mainTabs c!"blocks" 9))).foldl addBlock []

def canonConns (cs : List Conn) : List Conn :=
  (cs.map (canonConn (fieldAt mainTabs c!"connections" 2) (fieldAt mainTabs c!"connections" 3) (fieldAt mainTabs c!"connections" 4)
    (fieldAt mainTabs c!"connections" 5) (fieldAt mainTabs c!"connections" 6) (fieldAt mainTabs c!"connections" 7)
    (fieldAt mainTabs c!"connections" 8) (fieldAt mainTabs c!"connections" 9) (fieldAt mainTabs c!"connections" 10))).foldl addConn []

theorem stepRT_plain {d : T2Data} {kw : Str} {d0 d1 : T2Data} (body : List Str)
    (hw : writeSection mainTabs d kw = .ok (nl kw :: body))
    (hr : ∀ line tail, readSection .default none d0 kw line (body ++ tail) = .ok (d1, none, tail))
    (hx : d1.extraPrecision = []) (hk : kw ∈ allSections := by decide +kernel) : StepRT d kw d0 d1 :=
  ⟨⟨nl kw, body, hw, hdrOf_nl (mem_stops_of_section hk), fun line _ tail _ => ⟨none, tail, hr line tail, Or.inl ⟨rfl, rfl⟩⟩⟩, hx⟩

theorem stepRT_ELEME (d d0 : T2Data) (hxp : XpFree d0) (hb : ∀ b ∈ d.blocks, GoodBlock d0.rocks b)
    (hw : ∀ b ∈ d.blocks, ∃ l, writeBlock mainTabs b = .ok l) :
    StepRT d c!"ELEME" d0 { d0 with blocks := canonBlocks d.blocks } := by
  refine stepRT_plain ((d.blocks.map (fun b => match writeBlock mainTabs b with | .ok l => [l] | .error _ => [])).flatten ++ [nl []]) ?_ ?_ hxp
  · show writeBlocks mainTabs d.blocks = _
    unfold writeBlocks
    simp only [mapM_singletons _ _ hw, bind, Except.bind, pure, Except.pure, List.cons_append, List.nil_append]
  · intro line tail
    have h := section_roundtrip_ELEME (block_shape mainTabs (Or.inl rfl)).1 (block_shape mainTabs (Or.inl rfl)).2 d0.rocks d.blocks hb hw tail
    have hc : d0.extraPrecision.contains c!"ELEME" = false := by rw [hxp]; rfl
    have h1 : xpReadable c!"ELEME" = true := by decide
    unfold readSection
    simp only [h1, hc, Bool.and_false, Bool.false_eq_true, if_false]
    simp (config := { decide := true }) only [readGridSection, bind, Except.bind, pure, Except.pure, if_true, if_false,
      List.append_assoc, List.cons_append, List.nil_append]
    erw [h]
    rfl

theorem stepRT_CONNE (d d0 : T2Data) (hxp : XpFree d0) (hc : ∀ c ∈ d.conns, GoodConn d0.blocks c)
    (hw : ∀ c ∈ d.conns, ∃ l, writeConn mainTabs c = .ok l) :
    StepRT d c!"CONNE" d0 { d0 with conns := canonConns d.conns } := by
  refine stepRT_plain ((d.conns.map (fun b => match writeConn mainTabs b with | .ok l => [l] | .error _ => [])).flatten ++ [nl []]) ?_ ?_ hxp
  · show writeConns mainTabs d.conns = _
    unfold writeConns
    simp only [mapM_singletons _ _ hw, bind, Except.bind, pure, Except.pure, List.cons_append, List.nil_append]
  · intro line tail
    have h := section_roundtrip_CONNE (conn_shape mainTabs (Or.inl rfl)).1 (conn_shape mainTabs (Or.inl rfl)).2 d0.blocks d.conns hc hw tail
    have hc : d0.extraPrecision.contains c!"CONNE" = false := by rw [hxp]; rfl
    have h1 : xpReadable c!"CONNE" = true := by decide
    unfold readSection
    simp only [h1, hc, Bool.and_false, Bool.false_eq_true, if_false]
    simp (config := { decide := true }) only [readGridSection, bind, Except.bind, pure, Except.pure, if_true, if_false,
      List.append_assoc, List.cons_append, List.nil_append]
    erw [h]
    rfl

theorem stepRT_START (d d0 : T2Data) (hxp : XpFree d0) (hs : d.start = true) :
    StepRT d c!"START" d0 { d0 with start := true } := by
  refine stepRT_plain [] ?_ ?_ hxp
  · show (Except.ok (if d.start then [nl c!"START"] else []) : Except Exc (List Str)) = _
    rw [hs]; rfl
  · intro line tail
    have h1 : xpReadable c!"START" = false := by decide
    unfold readSection
    simp only [h1, Bool.false_and, Bool.false_eq_true, if_false]
    rfl

theorem stepRT_NOVER (d d0 : T2Data) (hxp : XpFree d0) (hs : d.noversion = true) :
    StepRT d c!"NOVER" d0 { d0 with noversion := true } := by
  refine stepRT_plain [] ?_ ?_ hxp
  · show (Except.ok (if d.noversion then [nl c!"NOVER"] else []) : Except Exc (List Str)) = _
    rw [hs]; rfl
  · intro line tail
    have h1 : xpReadable c!"NOVER" = false := by decide
    unfold readSection
    simp only [h1, Bool.false_and, Bool.false_eq_true, if_false]
    rfl

theorem stepRT_MOMOP (d d0 : T2Data) (hxp : XpFree d0) (hg : GoodOptions 21 d.moreOption)
    (hw : ∃ lines, writeMoreOptions mainTabs d = .ok lines) :
    StepRT d c!"MOMOP" d0 { d0 with moreOption := d.moreOption } := by
  obtain ⟨lines, hw⟩ := hw
  have hs := momop_shape
  obtain ⟨body, rfl, _⟩ := section_roundtrip_MOMOP hs.1 hs.2.1 hs.2.2.1 hs.2.2.2.1 hs.2.2.2.2.1 hs.2.2.2.2.2 d d0 hg hw []
  refine stepRT_plain body hw ?_ hxp
  intro line tail
  obtain ⟨body', hb', h⟩ := section_roundtrip_MOMOP hs.1 hs.2.1 hs.2.2.1 hs.2.2.2.1 hs.2.2.2.2.1 hs.2.2.2.2.2 d d0 hg hw tail
  cases hb'
  have h1 : xpReadable c!"MOMOP" = false := by decide
  unfold readSection
  simp only [h1, Bool.false_and, Bool.false_eq_true, if_false]
  simp (config := { decide := true }) only [h, if_true, if_false]

/-- the PARAM record kinds of an object's flavour in the current main table -/
abbrev pr1 (d : T2Data) : Rec := recOf mainTabs (if d.autough2 then c!"param1_autough2" else c!"param1")
abbrev pr2 : Rec := recOf mainTabs c!"param2"
abbrev pr3 : Rec := recOf mainTabs c!"param3"
abbrev fts : FieldSpec := fieldAt mainTabs c!"timestep" 0
abbrev fdi : FieldSpec := fieldAt mainTabs c!"default_incons" 0

/-- the reader's object after PARAM -/
def canonParam (d d0 : T2Data) : T2Data :=
  { d0 with parameter := paramAfter3 (pr1 d) pr2 pr3 d d0, option := d.option,
            timestep := canonTimesteps (pr1 d) pr2 fts d d0,
            defaultIncons := d.defaultIncons.map (canonV fdi) }

/-- no continuation line of the default initial conditions is blank or begins like a keyword -/
def ParamCont (d : T2Data) : Prop :=
  ∀ dil, (if d.defaultIncons.length > 0 then
            writeChunks (recOf mainTabs c!"default_incons") 4 d.defaultIncons d.defaultIncons.length
              ((d.defaultIncons.length + 3) / 4)
          else .ok [nl []]) = .ok dil →
    ∀ l ∈ dil.drop 1, isBlank (padstring l) = false ∧ paramStops.any (startsWith (padstring l)) = false

theorem stepRT_PARAM (d d0 : T2Data) (hxp : XpFree d0) (hg : GoodParam (pr1 d) pr2 fts fdi d d0)
    (hw : ∃ lines, writeParameters mainTabs d = .ok lines) (hcont : ParamCont d) :
    StepRT d c!"PARAM" d0 (canonParam d d0) := by
  obtain ⟨lines, hw⟩ := hw
  have h := param_recs d
  have ts := chunkRec_of mainTabs c!"timestep" 8 (main_chunks_ok _ (by decide))
  have di := chunkRec_of mainTabs c!"default_incons" 4 (main_chunks_ok _ (by decide))
  have key := fun tail nxt rest hend =>
    section_roundtrip_PARAM d d0 h.1 h.2.2.1 h.2.2.2.2.1 ts.1 di.1 h.2.1 h.2.2.2.1 h.2.2.2.2.2 ts.2 di.2 hg hw hcont tail nxt rest hend
  obtain ⟨body, rfl, _⟩ := key [] none [] KwEnd.eof
  refine ⟨⟨nl c!"PARAM", body, hw, hdrOf_nl (by decide +kernel), ?_⟩, hxp⟩
  intro line _ tail htail
  obtain ⟨l, r, rfl, hend⟩ := kwEnd_of_kwStart htail
  obtain ⟨body', hb', hrd⟩ := key _ _ _ hend
  cases hb'
  refine ⟨some (padstring l), r, ?_, Or.inr ⟨l, r, rfl, rfl, rfl⟩⟩
  have h1 : xpReadable c!"PARAM" = false := by decide
  unfold readSection
  simp only [h1, Bool.false_and, Bool.false_eq_true, if_false]
  simp (config := { decide := true }) only [if_true, if_false]
  exact hrd

def canonRocks (rs : List Rock) : List Rock :=
  (rs.map (canonRock (recOf mainTabs c!"rocks1.1") (fieldAt mainTabs c!"rocks1" 2) (fieldAt mainTabs c!"rocks1" 3)
    (fieldAt mainTabs c!"rocks1" 4) (fieldAt mainTabs c!"rocks1" 5) (fieldAt mainTabs c!"rocks1" 6) (fieldAt mainTabs c!"rocks1" 7)
    (fieldAt mainTabs c!"rocks1" 8) (fieldAt mainTabs c!"rocks1.2" 0) (fieldAt mainTabs c!"rocks1.2" 2))).foldl addRock []

theorem stepRT_ROCKS (d d0 : T2Data) (hxp : XpFree d0) (hg : ∀ rt ∈ d.rocks, GoodRock (fieldAt mainTabs c!"rocks1" 1) rt)
    (hw : ∀ rt ∈ d.rocks, ∃ ls, writeRock mainTabs rt = .ok ls) :
    StepRT d c!"ROCKS" d0 { d0 with rocks := canonRocks d.rocks } := by
  refine stepRT_plain ((d.rocks.map (fun b => match writeRock mainTabs b with | .ok l => l | .error _ => [])).flatten ++ [nl []]) ?_ ?_ hxp
  · show writeRocks mainTabs d.rocks = _
    unfold writeRocks
    simp only [mapM_lists _ _ hw, bind, Except.bind, pure, Except.pure, List.cons_append, List.nil_append]
  · intro line tail
    have hs := rock_shape mainTabs (Or.inl rfl)
    have h := section_roundtrip_ROCKS hs.1 hs.2.1 hs.2.2.1 hs.2.2.2.1 hs.2.2.2.2 d.rocks hg hw tail
    have hc : d0.extraPrecision.contains c!"ROCKS" = false := by rw [hxp]; rfl
    have h1 : xpReadable c!"ROCKS" = true := by decide
    unfold readSection
    simp only [h1, hc, Bool.and_false, Bool.false_eq_true, if_false]
    simp (config := { decide := true }) only [readGridSection, bind, Except.bind, pure, Except.pure, if_true, if_false,
      List.append_assoc, List.cons_append, List.nil_append]
    erw [h]
    rfl

def canonGeners (gs : List Gener) : List Gener :=
  gs.map (canonGener (fun i => fieldAt mainTabs c!"generator" i) (fieldAt mainTabs c!"generation_times" 0)
    (fieldAt mainTabs c!"generation_rates" 0) (fieldAt mainTabs c!"generation_enthalpy" 0))

theorem stepRT_GENER (d d0 : T2Data) (hxp : XpFree d0) (hne : d.gens ≠ [])
    (hg : ∀ g ∈ d.gens, GoodGener (fun i => fieldAt mainTabs c!"generator" i) (fieldAt mainTabs c!"generation_times" 0)
            (fieldAt mainTabs c!"generation_rates" 0) (fieldAt mainTabs c!"generation_enthalpy" 0) g)
    (hw : ∀ g ∈ d.gens, ∃ ls, writeGener mainTabs g = .ok ls) :
    StepRT d c!"GENER" d0 { d0 with gens := canonGeners d.gens } := by
  refine stepRT_plain ((d.gens.map (fun b => match writeGener mainTabs b with | .ok l => l | .error _ => [])).flatten ++ [nl []]) ?_ ?_ hxp
  · show writeGeners mainTabs d.gens = _
    unfold writeGeners
    have hemp : d.gens.isEmpty = false := by cases hd : d.gens with | nil => exact absurd hd hne | cons _ _ => rfl
    simp only [hemp, Bool.false_eq_true, if_false, mapM_lists _ _ hw, bind, Except.bind, pure, Except.pure, List.cons_append, List.nil_append]
  · intro line tail
    have hs := gener_shape mainTabs (Or.inl rfl)
    have h := section_roundtrip_GENER hs.1 hs.2.1 hs.2.2.1 hs.2.2.2.1 hs.2.2.2.2 d.gens hg hw tail
    have hc : d0.extraPrecision.contains c!"GENER" = false := by rw [hxp]; rfl
    have h1 : xpReadable c!"GENER" = true := by decide
    unfold readSection
    simp only [h1, hc, Bool.and_false, Bool.false_eq_true, if_false]
    simp (config := { decide := true }) only [readGridSection, bind, Except.bind, pure, Except.pure, if_true, if_false,
      List.append_assoc, List.cons_append, List.nil_append]
    erw [h]
    rfl

def canonDict (rec : Str) (d d0 : Dict) : Dict :=
  absorb (recOf mainTabs rec).names (canonVals (recOf mainTabs rec) (lineVals (recOf mainTabs rec) d)) d0

theorem stepRT_LINEQ (d d0 : T2Data) (hxp : XpFree d0) (hne : d.lineq ≠ [])
    (hw : ∃ lines, writeDictSection mainTabs c!"LINEQ" c!"lineq" d.lineq = .ok lines) :
    StepRT d c!"LINEQ" d0 { d0 with lineq := canonDict c!"lineq" d.lineq d0.lineq } := by
  obtain ⟨lines, hw⟩ := hw
  have hT : mainTabs.get c!"lineq" = .ok (recOf mainTabs c!"lineq") := by decide +kernel
  have hr : RecWF (recOf mainTabs c!"lineq") := recWFb_spec (by decide +kernel)
  obtain ⟨body, rfl, _⟩ := section_roundtrip_dict c!"LINEQ" c!"lineq" hT hr d.lineq d0.lineq hne hw []
  refine stepRT_plain body hw ?_ hxp
  intro line tail
  obtain ⟨body', hb', h⟩ := section_roundtrip_dict c!"LINEQ" c!"lineq" hT hr d.lineq d0.lineq hne hw tail
  cases hb'
  have h1 : xpReadable c!"LINEQ" = false := by decide
  unfold readSection
  simp only [h1, Bool.false_and, Bool.false_eq_true, if_false]
  simp (config := { decide := true }) only [h, if_true, if_false, bind, Except.bind, pure, Except.pure]
  rfl

theorem stepRT_SOLVR (d d0 : T2Data) (hxp : XpFree d0) (hne : d.solver ≠ [])
    (hw : ∃ lines, writeDictSection mainTabs c!"SOLVR" c!"solver" d.solver = .ok lines) :
    StepRT d c!"SOLVR" d0 { d0 with solver := canonDict c!"solver" d.solver d0.solver } := by
  obtain ⟨lines, hw⟩ := hw
  have hT : mainTabs.get c!"solver" = .ok (recOf mainTabs c!"solver") := by decide +kernel
  have hr : RecWF (recOf mainTabs c!"solver") := recWFb_spec (by decide +kernel)
  obtain ⟨body, rfl, _⟩ := section_roundtrip_dict c!"SOLVR" c!"solver" hT hr d.solver d0.solver hne hw []
  refine stepRT_plain body hw ?_ hxp
  intro line tail
  obtain ⟨body', hb', h⟩ := section_roundtrip_dict c!"SOLVR" c!"solver" hT hr d.solver d0.solver hne hw tail
  cases hb'
  have h1 : xpReadable c!"SOLVR" = false := by decide
  unfold readSection
  simp only [h1, Bool.false_and, Bool.false_eq_true, if_false]
  simp (config := { decide := true }) only [h, if_true, if_false, bind, Except.bind, pure, Except.pure]
  rfl
end Proofs.T2
