/-
  `inv_step`: every operation of the edit alphabet preserves the invariant under `pre`.
-/
import PyTough.Proofs.GridBuild
namespace Proofs.Grid
open Py Model Model.Grid Model.Grid.World

/-- grid addition and embedding (handled separately) -/
def isSum : Op → Bool
  | .addGrid _ _ => true
  | .embed _ _ _ _ => true
  | .embedStandalone _ _ _ _ _ => true
  | _ => false

theorem inv_step_core {w : World} (hI : Grid.Inv w) (op : Op) (hpre : pre w op = true) (hs : isSum op = false) :
    Grid.Inv (step w op).w := by
  cases op with
  | addRocktype nm tag => exact step_addRocktype_inv hI nm tag hpre
  | deleteRocktype nm =>
    simp only [pre, Bool.not_eq_true'] at hpre
    simp only [step, ofR_w]
    exact deleteRocktype_inv hI nm (rockNameInUse_false hpre)
  | renameRocktype a b => simp only [step, ofR_w]; exact renameRocktype_inv hI a b
  | cleanRocktypes => simp only [step, ofR_w]; exact cleanRocktypes_inv hI
  | sortRocktypes => simp only [step, ofR_w]; exact sortRocktypes_inv hI
  | addBlock nm rock vol centre => exact step_addBlock_inv hI nm rock vol centre hpre
  | deleteBlock nm => simp only [step, ofR_w]; exact deleteBlock_inv hI nm
  | demoteBlock nms => simp only [step, ofR_w]; exact demoteBlock_inv hI nms
  | addConnection n0 n1 p => exact step_addConnection_inv hI n0 n1 p hpre
  | deleteConnection n0 n1 => simp only [step, ofR_w]; exact deleteConnection_inv hI (n0, n1)
  | reorder bs cs => simp only [step, ofR_w]; exact reorder_inv hI bs cs hpre
  | renameBlocks m fix => simp only [step, ofR_w]; exact renameBlocks_inv hI m fix hpre
  | minc args =>
    simp only [step]
    have := minc_inv hI args
    split at this
    · rename_i w' cols heq; simp only [heq]; exact this
    · rename_i e w' heq; simp only [heq]; exact this
  | addGrid s l => simp [isSum] at hs
  | embed s h b p => simp [isSum] at hs
  | embedStandalone s h b p v => simp [isSum] at hs
  | addBlockFresh nm rock vol centre => exact stepReuse_inv hI _ hpre
  | readdBlock nm => exact stepReuse_inv hI _ hpre
  | readdRocktype nm => exact stepReuse_inv hI _ hpre
  | readdConnection n0 n1 => exact stepReuse_inv hI _ hpre
  | againBlock nm => exact stepReuse_inv hI _ hpre

/-- **inv_step**, every operation of the alphabet -/
theorem inv_step {w : World} (hI : Grid.Inv w) (op : Op) (hpre : pre w op = true) : Grid.Inv (step w op).w := by
  cases op with
  | addGrid s l => exact step_addGrid_inv hI s l hpre
  | embed s h b p => exact step_embed_inv hI s h b p hpre
  | embedStandalone s h b p v => exact step_embedStandalone_inv hI s h b p v hpre
  | _ => exact inv_step_core hI _ hpre rfl

end Proofs.Grid
