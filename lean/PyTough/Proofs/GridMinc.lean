/-
  Invariant preservation: minc (registry part).  No precondition: the method checks itself that
  the matrix block names are new, and copies rock types only under new names.
-/
import PyTough.Proofs.GridRename
namespace Proofs.Grid
open Py Model Model.Grid Model.Grid.World

/-- overwriting a block record keeping its name and connection record (volume, centre, and a
    registered rock type may change) -/
theorem setBlk_payload_inv {w : World} (hI : Grid.Inv w) (b : Nat) (v : Blk)
    (hname : v.name = (w.bk b).name) (hconn : v.conn = (w.bk b).conn)
    (hrock : b ∈ w.blocklist → v.rock ∈ w.rocktypelist) : Grid.Inv (w.setBlk b v) := by
  have hnm : ∀ x, (w.setBlk b v).bname x = w.bname x := fun x => bname_setBlk_same w b x v hname
  have hconn' : ∀ x, ((w.setBlk b v).bk x).conn = (w.bk x).conn := by
    intro x; rw [bk_setBlk]; split
    · rename_i h; rw [hconn, h.1]
    · rfl
  refine Inv.mk' ?_ ?_ ?_ ?_ ?_
  · exact hI.rockInv.frame rfl rfl (Nat.le_refl _) (fun _ _ => rfl)
  · exact hI.blockInv.frame rfl rfl (by simp) (fun x _ => hnm x)
  · exact hI.conInv.frame rfl rfl (Nat.le_refl _) (fun c h => ⟨(hI.c_ends c h).1, (hI.c_ends c h).2.1⟩) (fun _ _ => rfl) (fun x _ => hnm x)
  · intro x hx
    show ((w.setBlk b v).bk x).rock ∈ w.rocktypelist
    rw [bk_setBlk]; split
    · rename_i h; exact hrock (h.1 ▸ hx)
    · exact hI.b_rock x hx
  · exact hI.connLink.frame hI.conInv rfl rfl (fun _ _ => rfl) (fun x _ => hnm x) (fun x _ => hconn' x)

theorem addRocktype_fresh_ok {w : World} {r : Nat} (hd : dget w.rocktype (w.rname r) = none) :
    addRocktype w r = .ok { w with rocktypelist := w.rocktypelist ++ [r], rocktype := dset w.rocktype (w.rname r) r } := by
  simp only [addRocktype, hd]

/-- `duplicate_rock` -/
theorem duplicateRock_spec {w : World} (hI : Grid.Inv w) (nm : Name) (r : Nat) :
    ∃ w', duplicateRock w nm r = .ok w' ∧ Grid.Inv w' ∧ w'.blocklist = w.blocklist ∧ w'.block = w.block ∧
      w'.blks = w.blks ∧ w'.cons = w.cons ∧ w'.connectionlist = w.connectionlist ∧ w'.connection = w.connection ∧
      (dget w'.rocktype nm).isSome := by
  unfold duplicateRock
  cases hd : dget w.rocktype nm with
  | some x => exact ⟨w, by simp, hI, rfl, rfl, rfl, rfl, rfl, rfl, by simp [hd]⟩
  | none =>
    simp only [Option.isSome_none, Bool.false_eq_true, if_false]
    generalize hv : ({ name := nm, tag := (w.rk r).tag } : Rock) = v
    have hI1 := newRock_inv hI v
    have hname : (w.newRock v).2.rname (w.newRock v).1 = nm := by
      show ((w.newRock v).2.rk w.rocks.length).name = nm
      simp [rk_newRock, ← hv]
    have hd1 : dget (w.newRock v).2.rocktype ((w.newRock v).2.rname (w.newRock v).1) = none := by rw [hname]; exact hd
    refine ⟨_, addRocktype_fresh_ok hd1, ?_, rfl, rfl, rfl, rfl, rfl, rfl, ?_⟩
    · have := addRocktype_inv hI1 (r := (w.newRock v).1) (by simp [World.newRock])
        (fun h => Nat.lt_irrefl _ (hI.rl_lt _ h)) (fun old h => by rw [hd1] at h; cases h)
      rw [addRocktype_fresh_ok hd1] at this
      exact this
    · show (dget (dset _ _ _) nm).isSome = true
      rw [hname]; simp

theorem addBlock_fresh_ok {w : World} {b : Nat} (hd : dget w.block (w.bname b) = none) :
    addBlock w b = .ok { w with blocklist := w.blocklist ++ [b], block := dset w.block (w.bname b) b } := by
  simp only [addBlock, hd]

theorem addConnection_blocklist {w w' : World} {c : Nat} (h : addConnection w c = .ok w') :
    w'.blocklist = w.blocklist := by
  cases hd : dget w.connection (w.ckey c) with
  | none =>
    simp only [addConnection, hd, Except.ok.injEq] at h
    subst h; rfl
  | some old =>
    cases hl : replaceFirst w.connectionlist old c with
    | none => simp only [addConnection, hd, hl] at h; cases h
    | some l =>
      simp only [addConnection, hd, hl, Except.ok.injEq] at h
      subst h; rfl

/-- the loop over the matrix levels of one block -/
theorem mincLevels_inv (args : MincArgs) (blkname : Name) (origVol : Rat) (origRock : Nat) (centre : Option (List Rat))
    (vfs : List Rat) : ∀ (w : World) (m0 lastblk iblk : Nat) (idx : List Nat),
    Grid.Inv w → lastblk ∈ w.blocklist →
    match mincLevels args blkname origVol origRock centre w vfs m0 lastblk iblk idx with
    | .ok (w', _, _) => Grid.Inv w'
    | .error (_, w') => Grid.Inv w' := by
  induction vfs with
  | nil => intro w m0 lastblk iblk idx hI _; simp only [mincLevels]; exact hI
  | cons vf r ih =>
    intro w m0 lastblk iblk idx hI hlast
    simp only [mincLevels]
    obtain ⟨w1, h1, hI1, hbl1, hbd1, hblks1, _, _, _, hsome⟩ := duplicateRock_spec hI (mincRockname (w.rname origRock) (m0 + 1)) origRock
    simp only [h1]
    cases hdb : dget w1.block (matrixBlockname blkname (m0 + 1)) with
    | some x => simp only [Option.isSome_some, if_true]; exact hI1
    | none =>
      simp only [Option.isSome_none, Bool.false_eq_true, if_false]
      obtain ⟨mrock, hmrock⟩ := Option.isSome_iff_exists.mp hsome
      simp only [hmrock]
      have hmr := hI1.rd_sound _ _ hmrock
      generalize hv : ({ name := matrixBlockname blkname (m0 + 1), volume := origVol * vf, rock := mrock, centre := centre, conn := [] } : Blk) = v
      have hI2 := newBlk_inv hI1 v
      have hbk2 : (w1.newBlk v).2.bk (w1.newBlk v).1 = v := by
        show (w1.newBlk v).2.bk w1.blks.length = v; simp [bk_newBlk]
      have hnm2 : (w1.newBlk v).2.bname (w1.newBlk v).1 = matrixBlockname blkname (m0 + 1) := by
        show ((w1.newBlk v).2.bk (w1.newBlk v).1).name = _; rw [hbk2, ← hv]
      have hd2 : dget (w1.newBlk v).2.block ((w1.newBlk v).2.bname (w1.newBlk v).1) = none := by rw [hnm2]; exact hdb
      have hnew2 : (w1.newBlk v).1 ∉ (w1.newBlk v).2.blocklist := fun h => Nat.lt_irrefl _ (hI1.bl_lt _ h)
      have hI3 := addBlock_inv hI2 (b := (w1.newBlk v).1) (by simp [World.newBlk]) hnew2
        (by rw [hbk2, ← hv]) (by rw [hbk2, ← hv]; exact hmr.1) (fun old h => by rw [hd2] at h; cases h)
      obtain ⟨w3, h3, hbl3, hcons3⟩ : ∃ w3, addBlock (w1.newBlk v).2 (w1.newBlk v).1 = .ok w3 ∧
          w3.blocklist = w1.blocklist ++ [w1.blks.length] ∧ w3.cons = w1.cons :=
        ⟨_, addBlock_fresh_ok hd2, rfl, rfl⟩
      rw [h3] at hI3 ⊢
      simp only [worldOf_ok] at hI3 ⊢
      generalize hcv : mincCon args origVol (m0 + 1) lastblk (w1.newBlk v).1 = cv
      have hcv0 : cv.b0 = lastblk := by rw [← hcv]; rfl
      have hcv1 : cv.b1 = w1.blks.length := by rw [← hcv]; rfl
      have hI4 := newCon_inv hI3 cv
      have hcn4 : (w3.newCon cv).2.cn (w3.newCon cv).1 = cv := by
        show (w3.newCon cv).2.cn w3.cons.length = cv; simp [cn_newCon]
      have hlast1 : lastblk ∈ w1.blocklist := hbl1 ▸ hlast
      have hlt : lastblk < w1.blks.length := hI1.bl_lt _ hlast1
      have hI5 := addConnection_inv hI4 (c := (w3.newCon cv).1) (by simp [World.newCon])
        (fun h => Nat.lt_irrefl _ (hI3.cl_lt _ h))
        (by rw [hcn4, hcv0]; show lastblk ∈ w3.blocklist; rw [hbl3]; simp [hlast1])
        (by rw [hcn4, hcv1]; show _ ∈ w3.blocklist; rw [hbl3]; simp)
        (by rw [hcn4, hcv0, hcv1]; exact Nat.ne_of_lt hlt)
      cases h5 : addConnection (w3.newCon cv).2 (w3.newCon cv).1 with
      | error p => obtain ⟨e, w5⟩ := p; rw [h5] at hI5; exact hI5
      | ok w5 =>
        rw [h5] at hI5
        simp only [worldOf_ok] at hI5
        have hbl5 : (w1.newBlk v).1 ∈ w5.blocklist := by
          rw [addConnection_blocklist h5]
          show w1.blks.length ∈ w3.blocklist
          rw [hbl3]; simp
        exact ih w5 (m0 + 1) (w1.newBlk v).1 (iblk + 1) (idx ++ [iblk + 1]) hI5 hbl5

/-- the loop over the selected blocks -/
theorem mincBlocks_inv (args : MincArgs) (vf : List Rat) (blkidict : Dict Name Nat) (blocks : List Name) :
    ∀ (w : World) (iblk : Nat) (cols : List (List Nat)), Grid.Inv w →
    match mincBlocks args vf blkidict w blocks iblk cols with
    | .ok (w', _) => Grid.Inv w'
    | .error (_, w') => Grid.Inv w' := by
  induction blocks with
  | nil => intro w iblk cols hI; simp only [mincBlocks]; exact hI
  | cons blkname r ih =>
    intro w iblk cols hI
    simp only [mincBlocks]
    cases hd : dget w.block blkname with
    | none => exact hI
    | some b =>
      simp only []
      have hb := hI.bd_sound _ _ hd
      by_cases hcond : 0 < (w.bk b).volume ∧ (w.bk b).volume < args.atmosVolume
      · -- the block is processed
        rw [if_pos hcond]
        have hI1 : Grid.Inv (w.setBlk b { w.bk b with volume := (w.bk b).volume * vf.headD 0 }) :=
          setBlk_payload_inv hI b _ rfl rfl (fun h => hI.b_rock b h)
        generalize hw1 : w.setBlk b { w.bk b with volume := (w.bk b).volume * vf.headD 0 } = w1 at *
        have hbl1 : b ∈ w1.blocklist := by subst hw1; exact hb.1
        cases hi0 : dget blkidict blkname with
        | none => exact hI1
        | some i0 =>
          have hL := mincLevels_inv args blkname (w.bk b).volume (w.bk b).rock (w.bk b).centre (vf.drop 1) w1 0 b iblk [] hI1 hbl1
          split at hL
          · rename_i w2 iblk2 idx heq
            simp only [heq]
            obtain ⟨w3, h3, hI3, hbl3, _, _, _, _, _, hsome⟩ := duplicateRock_spec hL (mincRockname (w2.rname (w.bk b).rock) 0) (w.bk b).rock
            simp only [h3]
            obtain ⟨fr, hfr⟩ := Option.isSome_iff_exists.mp hsome
            simp only [hfr]
            have hfr' := hI3.rd_sound _ _ hfr
            exact ih _ iblk2 _ (setBlk_payload_inv hI3 b _ rfl rfl (fun _ => hfr'.1))
          · rename_i e w2 heq
            simp only [heq]; exact hL
      · rw [if_neg hcond]; exact ih w iblk _ hI

/-- `minc(...)`: no precondition -/
theorem minc_inv {w : World} (hI : Grid.Inv w) (args : MincArgs) :
    match minc w args with
    | .ok (w', _) => Grid.Inv w'
    | .error (_, w') => Grid.Inv w' := by
  unfold minc
  by_cases h1 : args.fracs.length < 2
  · rw [if_pos h1]; exact hI
  · rw [if_neg h1]
    simp only []
    by_cases h2 : (if args.blocks.isEmpty = true then w.blocklist.map w.bname else args.blocks).isEmpty = true
    · rw [if_pos h2]; exact hI
    · rw [if_neg h2]; exact mincBlocks_inv args _ _ _ w _ [] hI

end Proofs.Grid
