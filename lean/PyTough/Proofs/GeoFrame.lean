/-
  Heap access lemmas and the frame lemma `SameStructure` for the geometry model: operations that only move
  things (positions, centres, surfaces, elevations) preserve every combinatorial clause of GeoInv.
-/
import PyTough.Model.GeoInv
import PyTough.Proofs.Refine
namespace Proofs.Geo
open Model.Geo Model.Geo.Geo Py Proofs.Refine

/-! ### heap access -/

theorem getElem!_modify_same {α} [Inhabited α] (a : Array α) (i : Nat) (f : α → α) (h : i < a.size) :
    (a.modify i f)[i]! = f a[i]! := by
  simp [h, Array.getElem_modify]

theorem getElem!_modify_other {α} [Inhabited α] (a : Array α) (i j : Nat) (f : α → α) (h : i ≠ j) :
    (a.modify i f)[j]! = a[j]! := by
  by_cases hj : j < a.size
  · simp [hj, Array.getElem_modify, h]
  · simp [hj]

theorem getElem!_modify {α} [Inhabited α] (a : Array α) (i j : Nat) (f : α → α) (h : i < a.size) :
    (a.modify i f)[j]! = if i = j then f a[j]! else a[j]! := by
  split
  · rename_i e; subst e; exact getElem!_modify_same a i f h
  · rename_i e; exact getElem!_modify_other a i j f e

/-- folding `modify` over a duplicate-free list of valid indices applies `f` exactly to those entries -/
theorem foldl_modify_get {α} [Inhabited α] (f : α → α) : ∀ (l : List Nat) (a : Array α), l.Nodup → (∀ i ∈ l, i < a.size) →
    ∀ j, (l.foldl (fun a n => a.modify n f) a)[j]! = if j ∈ l then f a[j]! else a[j]!
  | [], a, _, _, j => by simp
  | n :: t, a, hn, hb, j => by
    have hn' := List.nodup_cons.mp hn
    have ih := foldl_modify_get f t (a.modify n f) hn'.2 (by intro i hi; simpa using hb i (List.mem_cons_of_mem _ hi)) j
    simp only [List.foldl_cons, ih]
    have hnb := hb n (List.mem_cons_self)
    by_cases hjn : j = n
    · subst hjn
      simp [hn'.1, getElem!_modify_same _ _ _ hnb]
    · have : n ≠ j := fun e => hjn e.symm
      simp [hjn, getElem!_modify_other _ _ _ _ this]

theorem foldl_modify_size {α} (f : α → α) : ∀ (l : List Nat) (a : Array α),
    (l.foldl (fun a n => a.modify n f) a).size = a.size
  | [], a => rfl
  | n :: t, a => by simp [foldl_modify_size f t]

/-- `g'` has the same objects, lists, dictionaries, names and cross-references as `g`
    (positions, centres, surfaces, areas, layer counts and elevations may differ) -/
structure SameStructure (g g' : Geo) : Prop where
  convention : g'.convention = g.convention
  atmosType : g'.atmosType = g.atmosType
  nodelist : g'.nodelist = g.nodelist
  nodeD : g'.nodeD = g.nodeD
  columnlist : g'.columnlist = g.columnlist
  columnD : g'.columnD = g.columnD
  connlist : g'.connlist = g.connlist
  connD : g'.connD = g.connD
  layerlist : g'.layerlist = g.layerlist
  layerD : g'.layerD = g.layerD
  welllist : g'.welllist = g.welllist
  wellD : g'.wellD = g.wellD
  K : g'.K = g.K
  Nsize : g'.N.size = g.N.size
  Csize : g'.C.size = g.C.size
  Lsize : g'.L.size = g.L.size
  Wsize : g'.W.size = g.W.size
  nodeName : ∀ i, (g'.node i).name = (g.node i).name
  nodeCols : ∀ i, (g'.node i).cols = (g.node i).cols
  colName : ∀ i, (g'.col i).name = (g.col i).name
  colNodes : ∀ i, (g'.col i).nodes = (g.col i).nodes
  colCons : ∀ i, (g'.col i).cons = (g.col i).cons
  colNbrs : ∀ i, (g'.col i).nbrs = (g.col i).nbrs
  layName : ∀ i, (g'.lay i).name = (g.lay i).name
  wellName : ∀ i, (g'.well i).name = (g.well i).name

variable {g g' : Geo}

theorem SameStructure.con (h : SameStructure g g') (k : Nat) : g'.con k = g.con k := by
  simp only [Geo.con, h.K]

theorem SameStructure.heapOK (h : SameStructure g g') : g'.heapOK = g.heapOK := by
  simp only [Geo.heapOK, h.nodelist, h.columnlist, h.connlist, h.layerlist, h.welllist, h.K, h.Nsize, h.Csize,
    h.Lsize, h.Wsize]

theorem SameStructure.conKey (h : SameStructure g g') (k : Nat) : g'.conKey k = g.conKey k := by
  simp only [Geo.conKey, h.con, h.colName]

theorem SameStructure.registriesOK (h : SameStructure g g') : g'.registriesOK = g.registriesOK := by
  have e1 : (fun i => (g'.node i).name) = fun i => (g.node i).name := funext h.nodeName
  have e2 : (fun i => (g'.col i).name) = fun i => (g.col i).name := funext h.colName
  have e3 : (fun i => (g'.lay i).name) = fun i => (g.lay i).name := funext h.layName
  have e4 : (fun i => (g'.well i).name) = fun i => (g.well i).name := funext h.wellName
  have e5 : g'.conKey = g.conKey := funext h.conKey
  simp only [Geo.registriesOK, h.nodelist, h.nodeD, h.columnlist, h.columnD, h.connlist, h.connD, h.layerlist,
    h.layerD, h.welllist, h.wellD, e1, e2, e3, e4, e5]

theorem SameStructure.nodeColsOK (h : SameStructure g g') : g'.nodeColsOK = g.nodeColsOK := by
  simp only [Geo.nodeColsOK, h.nodelist, h.columnlist, h.colNodes, h.nodeCols]

theorem SameStructure.colConsOK (h : SameStructure g g') : g'.colConsOK = g.colConsOK := by
  simp only [Geo.colConsOK, h.connlist, h.columnlist, h.con, h.colCons]

theorem SameStructure.joined (h : SameStructure g g') (c d : Nat) : g'.joined c d = g.joined c d := by
  simp only [Geo.joined, h.connlist, h.con]

theorem SameStructure.nbrsOK (h : SameStructure g g') : g'.nbrsOK = g.nbrsOK := by
  simp only [Geo.nbrsOK, h.columnlist, h.colNbrs, h.joined]

theorem SameStructure.conNodesOK (h : SameStructure g g') : g'.conNodesOK = g.conNodesOK := by
  simp only [Geo.conNodesOK, h.connlist, h.con, h.colNodes]

theorem SameStructure.meshValid (h : SameStructure g g') : g'.meshValid = g.meshValid := by
  simp only [Geo.meshValid, Geo.noMissing, Geo.noExtra, Geo.noOrphans, Geo.shareSide, h.columnlist, h.connlist,
    h.nodelist, h.colNodes, h.con, h.joined]

end Proofs.Geo
