/-
  Proofs about the model of column_track (continued): a column crossed over more than the clip
  tolerance is listed.
-/
import PyTough.Proofs.LocateTrack2

namespace Proofs.Track
open Model.Locate Model.Track Proofs.Locate

/-! ## 4. a column crossed over more than the clip tolerance is listed -/

theorem roundSqrt_zero : roundSqrt 0 = .ok 0 := by decide +kernel

theorem roundSqrt_pos {D : Rat} {k : Nat} (hD : 1 < D) (h : roundSqrt D = .ok k) : 1 ≤ k := by
  have := (roundSqrt_bounds (by linarith) h).1
  rcases Nat.eq_zero_or_pos k with hz | hp
  · subst hz
    simp only [Nat.cast_zero, zero_add] at this
    linarith
  · exact hp

/-- with exactly two crossings, further apart than the clip tolerance, both are reported, the nearer
    one first -/
theorem lpiT_two {poly : Poly} {a b : Pt} {c1 c2 : Cross} {pts : List Cross}
    (hcs : crossings poly a b = [c1, c2]) (h1 : 0 ≤ c1.t) (h2 : 0 ≤ c2.t) (hS : 0 < maxSideSq poly)
    (hlong : maxSideSq poly / 1000000 < (c2.t - c1.t) * (c2.t - c1.t) * distSq a b)
    (h : linePolygonIntersectionsT poly a b = .ok pts) :
    pts = if c1.t ≤ c2.t then [c1, c2] else [c2, c1] := by
  unfold linePolygonIntersectionsT at h
  rw [hcs] at h
  simp only at h
  have a1 : c1.t.abs = c1.t := Rat.abs_of_nonneg h1
  have a2 : c2.t.abs = c2.t := Rat.abs_of_nonneg h2
  have htm : tMin c1 [c1, c2] = min c1.t c2.t := by
    simp only [tMin, List.map_cons, List.map_nil, List.foldl_cons, List.foldl_nil, a1, a2, min_self]
  rw [htm] at h
  -- the far crossing has (1000 d)² > 1
  have hbig : ∀ (u : Rat), u * u = (c2.t - c1.t) * (c2.t - c1.t) → 1 < u * u * distSq a b / maxSideSq poly * 1000000 := by
    intro u hu
    rw [hu]
    have : maxSideSq poly < (c2.t - c1.t) * (c2.t - c1.t) * distSq a b * 1000000 := by linarith
    have e : (c2.t - c1.t) * (c2.t - c1.t) * distSq a b / maxSideSq poly * 1000000
        = ((c2.t - c1.t) * (c2.t - c1.t) * distSq a b * 1000000) / maxSideSq poly := by ring
    rw [e, lt_div_iff₀ hS]; linarith
  simp only [roundAll] at h
  by_cases hle : c1.t ≤ c2.t
  · rw [if_pos hle]
    have hD1 : nondimSq (distSq a b) (maxSideSq poly) (min c1.t c2.t) c1 = 0 := by
      simp only [nondimSq, if_pos hS, a1, min_eq_left hle, sub_self, zero_mul, zero_div]
    have hD2 : 1 < nondimSq (distSq a b) (maxSideSq poly) (min c1.t c2.t) c2 := by
      simp only [nondimSq, if_pos hS, a2, min_eq_left hle]
      exact hbig _ rfl
    rw [hD1, roundSqrt_zero] at h
    simp only at h
    cases hk2 : roundSqrt (nondimSq (distSq a b) (maxSideSq poly) (min c1.t c2.t) c2) with
    | unstable w => rw [hk2] at h; cases h
    | ok k2 =>
      rw [hk2] at h
      have := roundSqrt_pos hD2 hk2
      simp only at h
      injection h with h; subst h
      have hk' : ¬ k2 = 0 := by omega
      simp [insertUnique, hk']
  · rw [if_neg hle]
    have hlt : c2.t < c1.t := not_le.mp hle
    have hD2 : nondimSq (distSq a b) (maxSideSq poly) (min c1.t c2.t) c2 = 0 := by
      simp only [nondimSq, if_pos hS, a2, min_eq_right hlt.le, sub_self, zero_mul, zero_div]
    have hD1 : 1 < nondimSq (distSq a b) (maxSideSq poly) (min c1.t c2.t) c1 := by
      simp only [nondimSq, if_pos hS, a1, min_eq_right hlt.le]
      exact hbig _ (by ring)
    cases hk1 : roundSqrt (nondimSq (distSq a b) (maxSideSq poly) (min c1.t c2.t) c1) with
    | unstable w => rw [hk1] at h; cases h
    | ok k1 =>
      rw [hk1, hD2, roundSqrt_zero] at h
      have := roundSqrt_pos hD1 hk1
      simp only at h
      injection h with h; subst h
      have hk : 0 < k1 := by omega
      simp [insertUnique, hk]

/-- the hypotheses under which a crossed column must be listed: exactly two crossings (a convex
    column and a line through none of its vertices give exactly two), with parameters inside the
    line, further apart than the clip tolerance 1e-3 × (longest side) -/
structure CrossedLong (g : Geo) (a b : Pt) (ci : Nat) : Prop where
  two : ∃ c1 c2, crossings (g.poly ci) a b = [c1, c2] ∧ 0 ≤ c1.t ∧ c1.t ≤ 1 ∧ 0 ≤ c2.t ∧ c2.t ≤ 1 ∧
    maxSideSq (g.poly ci) / 1000000 < (c2.t - c1.t) * (c2.t - c1.t) * distSq a b
  side : 0 < maxSideSq (g.poly ci)

theorem longEnough_true {poly : Poly} {L2 tin tout : Rat} {r : Bool}
    (h : longEnough poly L2 tin tout = .ok r)
    (hl : maxSideSq poly / 1000000 < (tout.abs - tin.abs) * (tout.abs - tin.abs) * L2) : r = true := by
  unfold longEnough at h
  simp only at h
  split at h
  · cases h
  · injection h with h; subst h; simpa using hl

/-- such a column always contributes an entry, whether it is the start column, the end column or neither -/
theorem colSeg_listed {g : Geo} {a b : Pt} {ci : Nat} (hc : CrossedLong g a b ci) (isS isE : Bool) {r : Option Seg}
    (h : colSeg g a b ci isS isE = .ok r) : ∃ s, r = some s ∧ s.col = ci := by
  obtain ⟨c1, c2, hcs, h10, h11, h20, h21, hlong⟩ := hc.two
  have hL : 0 ≤ distSq a b := distSq_nonneg a b
  unfold colSeg at h
  cases hl : linePolygonIntersectionsT (g.poly ci) a b with
  | unstable w => rw [hl] at h; cases h
  | ok pts =>
    rw [hl] at h
    have hpts := lpiT_two hcs h10 h20 hc.side hlong hl
    -- the nearer and the farther crossing
    obtain ⟨n, f, hnf, hn0, hf1, hnle, hd⟩ : ∃ n f : Cross, pts = [n, f] ∧ 0 ≤ n.t ∧ f.t ≤ 1 ∧ n.t ≤ f.t ∧
        (f.t - n.t) * (f.t - n.t) = (c2.t - c1.t) * (c2.t - c1.t) := by
      by_cases hle : c1.t ≤ c2.t
      · rw [if_pos hle] at hpts; exact ⟨c1, c2, hpts, h10, h21, hle, rfl⟩
      · rw [if_neg hle] at hpts; exact ⟨c2, c1, hpts, h20, h11, (not_le.mp hle).le, by ring⟩
    subst hnf
    simp only [List.getLast?_cons_cons, List.getLast?_singleton, Option.getD_some] at h
    have hf0 : 0 ≤ f.t := le_trans hn0 hnle
    have an : n.t.abs = n.t := Rat.abs_of_nonneg hn0
    have af : f.t.abs = f.t := Rat.abs_of_nonneg hf0
    have a0 : (0 : Rat).abs = 0 := Rat.abs_of_nonneg (le_refl 0)
    have a1 : (1 : Rat).abs = 1 := Rat.abs_of_nonneg (by decide +kernel)
    have key : ∀ (ti tu : Rat), (f.t - n.t) * (f.t - n.t) ≤ (tu.abs - ti.abs) * (tu.abs - ti.abs) →
        maxSideSq (g.poly ci) / 1000000 < (tu.abs - ti.abs) * (tu.abs - ti.abs) * distSq a b := by
      intro ti tu hge
      have : (f.t - n.t) * (f.t - n.t) * distSq a b ≤ (tu.abs - ti.abs) * (tu.abs - ti.abs) * distSq a b :=
        mul_le_mul_of_nonneg_right hge hL
      rw [hd] at this; linarith
    cases isS with
    | true =>
      simp only [if_true] at h
      cases hle : longEnough (g.poly ci) (distSq a b) 0 f.t with
      | unstable w => rw [hle] at h; cases h
      | ok r' =>
        have := longEnough_true hle (key 0 f.t (by rw [a0, af]; nlinarith))
        subst this
        rw [hle] at h
        injection h with h; subst h
        exact ⟨_, rfl, rfl⟩
    | false =>
      cases isE with
      | true =>
        simp only [Bool.false_eq_true, if_false, if_true] at h
        cases hle : longEnough (g.poly ci) (distSq a b) n.t 1 with
        | unstable w => rw [hle] at h; cases h
        | ok r' =>
          have := longEnough_true hle (key n.t 1 (by rw [a1, an]; nlinarith))
          subst this
          rw [hle] at h
          injection h with h; subst h
          exact ⟨_, rfl, rfl⟩
      | false =>
        simp only [Bool.false_eq_true, if_false] at h
        cases hle : longEnough (g.poly ci) (distSq a b) n.t f.t with
        | unstable w => rw [hle] at h; cases h
        | ok r' =>
          have := longEnough_true hle (key n.t f.t (by rw [an, af]))
          subst this
          rw [hle] at h
          injection h with h; subst h
          exact ⟨_, rfl, rfl⟩

theorem trackLoop_mono {g : Geo} {a b : Pt} : ∀ (cis : List Nat) (st st' : TState),
    trackLoop g a b cis st = .ok st' → ∀ s ∈ st.track, s ∈ st'.track := by
  intro cis
  induction cis with
  | nil => intro st st' h; simp only [trackLoop] at h; injection h with h; subst h; exact fun s hs => hs
  | cons ci rest ih =>
    intro st st' h
    simp only [trackLoop] at h
    split at h
    · cases h
    · exact ih st st' h
    · have e1 : (if st.startCol.isNone && g.containsPoint ci a then { st with startCol := some ci } else st).track = st.track := by
        split <;> rfl
      generalize (if st.startCol.isNone && g.containsPoint ci a then { st with startCol := some ci } else st) = st1 at h e1
      have e2 : (if st1.endCol.isNone && g.containsPoint ci b then { st1 with endCol := some ci } else st1).track = st1.track := by
        split <;> rfl
      generalize (if st1.endCol.isNone && g.containsPoint ci b then { st1 with endCol := some ci } else st1) = st2 at h e2
      have e : st2.track = st.track := e2.trans e1
      split at h
      · injection h with h; subst h
        intro s hs; simp only [e]; exact List.mem_append_left _ hs
      · split at h
        · cases h
        · exact fun s hs => ih st2 st' h s (e ▸ hs)
        · exact fun s hs => ih _ st' h s (by simp only [e]; exact List.mem_append_left _ hs)

/-- the loop reaches every column and, when the line does not lie within a single column (no
    `break`), lists each one that passes the bounding-box test and is crossed long enough -/
theorem trackLoop_lists {g : Geo} {a b : Pt} {ci : Nat}
    (hnb : ∀ c, ¬ (g.containsPoint c a = true ∧ g.containsPoint c b = true))
    (hlir : lineIntersectsRectangle (g.bbox ci) a b = some true) (hc : CrossedLong g a b ci) :
    ∀ (cis : List Nat) (st st' : TState), ci ∈ cis →
      (∀ c, st.startCol = some c → g.containsPoint c a = true) → (∀ c, st.endCol = some c → g.containsPoint c b = true) →
      trackLoop g a b cis st = .ok st' → ∃ s ∈ st'.track, s.col = ci := by
  intro cis
  induction cis with
  | nil => intro st st' hm; cases hm
  | cons cj rest ih =>
    intro st st' hm hs he h
    simp only [trackLoop] at h
    by_cases hcj : cj = ci
    · subst hcj
      rw [hlir] at h
      simp only at h
      have hs1 : ∀ c, (if st.startCol.isNone && g.containsPoint cj a then { st with startCol := some cj } else st).startCol = some c →
          g.containsPoint c a = true := by
        split
        · rename_i hcond
          simp only [Bool.and_eq_true] at hcond
          intro c hcc; simp only [Option.some.injEq] at hcc; subst hcc; exact hcond.2
        · exact hs
      have he1 : (if st.startCol.isNone && g.containsPoint cj a then { st with startCol := some cj } else st).endCol = st.endCol := by
        split <;> rfl
      generalize (if st.startCol.isNone && g.containsPoint cj a then { st with startCol := some cj } else st) = st1 at h hs1 he1
      have he2 : ∀ c, (if st1.endCol.isNone && g.containsPoint cj b then { st1 with endCol := some cj } else st1).endCol = some c →
          g.containsPoint c b = true := by
        split
        · rename_i hcond
          simp only [Bool.and_eq_true] at hcond
          intro c hcc; simp only [Option.some.injEq] at hcc; subst hcc; exact hcond.2
        · rw [he1]; exact he
      have hs2 : (if st1.endCol.isNone && g.containsPoint cj b then { st1 with endCol := some cj } else st1).startCol = st1.startCol := by
        split <;> rfl
      generalize (if st1.endCol.isNone && g.containsPoint cj b then { st1 with endCol := some cj } else st1) = st2 at h he2 hs2
      split at h
      · rename_i hbr
        simp only [Bool.and_eq_true, beq_iff_eq] at hbr
        exact absurd ⟨hs1 cj (hs2 ▸ hbr.1), he2 cj hbr.2⟩ (hnb cj)
      · cases hseg : colSeg g a b cj (st2.startCol == some cj) (st2.endCol == some cj) with
        | unstable w => rw [hseg] at h; cases h
        | ok r =>
          obtain ⟨s, rfl, hcol⟩ := colSeg_listed hc _ _ hseg
          rw [hseg] at h
          simp only at h
          exact ⟨s, trackLoop_mono rest _ st' h s (by simp), hcol⟩
    · have hm' : ci ∈ rest := by
        simp only [List.mem_cons] at hm
        rcases hm with hm | hm
        · exact absurd hm.symm hcj
        · exact hm
      split at h
      · cases h
      · exact ih st st' hm' hs he h
      · have hs1 : ∀ c, (if st.startCol.isNone && g.containsPoint cj a then { st with startCol := some cj } else st).startCol = some c →
            g.containsPoint c a = true := by
          split
          · rename_i hcond
            simp only [Bool.and_eq_true] at hcond
            intro c hcc; simp only [Option.some.injEq] at hcc; subst hcc; exact hcond.2
          · exact hs
        have he1 : (if st.startCol.isNone && g.containsPoint cj a then { st with startCol := some cj } else st).endCol = st.endCol := by
          split <;> rfl
        generalize (if st.startCol.isNone && g.containsPoint cj a then { st with startCol := some cj } else st) = st1 at h hs1 he1
        have he2 : ∀ c, (if st1.endCol.isNone && g.containsPoint cj b then { st1 with endCol := some cj } else st1).endCol = some c →
            g.containsPoint c b = true := by
          split
          · rename_i hcond
            simp only [Bool.and_eq_true] at hcond
            intro c hcc; simp only [Option.some.injEq] at hcc; subst hcc; exact hcond.2
          · rw [he1]; exact he
        have hs2 : (if st1.endCol.isNone && g.containsPoint cj b then { st1 with endCol := some cj } else st1).startCol = st1.startCol := by
          split <;> rfl
        generalize (if st1.endCol.isNone && g.containsPoint cj b then { st1 with endCol := some cj } else st1) = st2 at h he2 hs2
        have hs2' : ∀ c, st2.startCol = some c → g.containsPoint c a = true := fun c hcc => hs1 c (hs2 ▸ hcc)
        split at h
        · rename_i hbr
          simp only [Bool.and_eq_true, beq_iff_eq] at hbr
          exact absurd ⟨hs2' cj hbr.1, he2 cj hbr.2⟩ (hnb cj)
        · split at h
          · cases h
          · exact ih st2 st' hm' hs2' he2 h
          · rename_i s _
            exact ih { st2 with track := st2.track ++ [s] } st' hm' (fun c hcc => hs2' c hcc) (fun c hcc => he2 c hcc) h

/-- **(3)** a column that passes the bounding-box test and that the line crosses at exactly two
    points more than the clip tolerance apart is in the track (when the line does not lie within a
    single column) -/
theorem crossed_column_listed {g : Geo} {a b : Pt} {segs : List Seg} {ci : Nat}
    (h : columnTrack g a b = .ok segs) (hci : ci < g.ncols)
    (hnb : ∀ c, ¬ (g.containsPoint c a = true ∧ g.containsPoint c b = true))
    (hlir : lineIntersectsRectangle (g.bbox ci) a b = some true) (hc : CrossedLong g a b ci) :
    ∃ s ∈ segs, s.col = ci := by
  obtain ⟨st, hst, hmem⟩ := columnTrack_mem h
  obtain ⟨s, hs, hcol⟩ := trackLoop_lists hnb hlir hc (List.range g.ncols) {} st (List.mem_range.mpr hci)
    (fun c hcc => nomatch hcc) (fun c hcc => nomatch hcc) hst
  exact ⟨s, (hmem s).mpr hs, hcol⟩

end Proofs.Track
