/-
  C01 proofs, layer 3d: GENER — generators with their time / rate / enthalpy tables.
-/
import PyTough.Proofs.T2DataGrid
namespace Proofs.T2
open Py Model Model.T2 Proofs Proofs.Incon
open Gen.Sections (Rec)

structure GenerShape (r rt rr re : Rec) (f : Nat → FieldSpec) (ftime frate fenth : FieldSpec) : Prop where
  names : r.names = [c!"block", c!"name", c!"nseq", c!"nadd", c!"nads", c!"ltab", [], c!"type", c!"itab", c!"gx", c!"ex", c!"hg", c!"fg"]
  fs : r.fs = [f 0, f 1, f 2, f 3, f 4, f 5, f 6, f 7, f 8, f 9, f 10, f 11, f 12]
  fb : NameField (f 0)
  fn : NameField (f 1)
  num : ∀ i ∈ [2, 3, 4, 5, 6, 9, 10, 11, 12], NumericTyp (f i).typ
  str7 : (f 7).typ = 's'
  str8 : (f 8).typ = 's'
  ct : ChunkRec rt 4 ftime
  cr : ChunkRec rr 4 frate
  ce : ChunkRec re 4 fenth

/-- the header values of a generator line -/
def generVals (g : Gener) : List Val :=
  [.str (unfixBlockname g.block), .str (unfixBlockname g.name), g.nseq, g.nadd, g.nads, g.ltab, .none, g.type, g.itab,
   g.gx, g.ex, g.hg, g.fg]

/-- does the generator carry tables, and of how many times -/
def tableLen (g : Gener) : Nat :=
  match tableTimes g.ltab g.type with
  | .ok (some k) => if k ≤ 1 then 0 else k
  | _ => 0

/-- what a generator reads back as -/
def canonGener (f : Nat → FieldSpec) (ftime frate fenth : FieldSpec) (g : Gener) : Gener :=
  { block := cycleName g.block, name := cycleName g.name, nseq := canonV (f 2) g.nseq, nadd := canonV (f 3) g.nadd,
    nads := canonV (f 4) g.nads, ltab := g.ltab, type := g.type, itab := g.itab,
    gx := canonV (f 9) g.gx, ex := canonV (f 10) g.ex, hg := canonV (f 11) g.hg, fg := canonV (f 12) g.fg,
    time := if tableLen g = 0 then [] else g.time.map (canonV ftime),
    rate := if tableLen g = 0 then [] else g.rate.map (canonV frate),
    enthalpy := if tableLen g = 0 then [] else g.enthalpy.map (canonV fenth) }

/-- a generator the GENER writer and reader agree on: good block name, five-character source name, an integer
    LTAB, type and ITAB that survive their own fields, and — for a table generator — `time`, `rate` of LTAB
    entries, `enthalpy` of LTAB entries exactly when ITAB is not blank -/
structure GoodGener (f : Nat → FieldSpec) (ftime frate fenth : FieldSpec) (g : Gener) : Prop where
  block : GoodName g.block
  nameLen : g.name.length = 5
  nameNl : '\n' ∉ unfixBlockname g.name
  ltabInt : g.ltab = .none ∨ ∃ k : Int, g.ltab = .int k
  ltabKeep : canonV (f 5) g.ltab = g.ltab
  typeKeep : canonV (f 7) g.type = g.type
  itabStr : ∃ s, g.itab = .str s
  itabKeep : canonV (f 8) g.itab = g.itab
  timeLen : tableLen g ≠ 0 → g.time.length = tableLen g
  rateLen : tableLen g ≠ 0 → g.rate.length = tableLen g
  enthLen : tableLen g ≠ 0 → (g.enthalpy = [] ∨ g.enthalpy.length = tableLen g)
  enthItab : tableLen g ≠ 0 → ∀ s, g.itab = .str s → (isBlank s = true ↔ g.enthalpy = [])
  present : ∀ x ∈ g.time, canonV ftime x ≠ .none
  presentR : ∀ x ∈ g.rate, canonV frate x ≠ .none
  presentE : ∀ x ∈ g.enthalpy, canonV fenth x ≠ .none

theorem gener_line_vals {r rt rr re : Rec} {f : Nat → FieldSpec} {ftime frate fenth : FieldSpec}
    (hs : GenerShape r rt rr re f ftime frate fenth) (g : Gener) :
    lineVals r [(c!"name", .str (unfixBlockname g.name)), (c!"block", .str (unfixBlockname g.block)),
                (c!"nseq", g.nseq), (c!"nadd", g.nadd), (c!"nads", g.nads), (c!"type", g.type), (c!"ltab", g.ltab),
                (c!"itab", g.itab), (c!"gx", g.gx), (c!"ex", g.ex), (c!"hg", g.hg), (c!"fg", g.fg)] = generVals g := by
  simp only [lineVals, hs.names, List.map_cons, List.map_nil, Dict.get, List.find?, generVals]
  rfl

/-- the header line of a generator read back -/
theorem gener_header {r rt rr re : Rec} {f : Nat → FieldSpec} {ftime frate fenth : FieldSpec}
    (hs : GenerShape r rt rr re f ftime frate fenth) (g : Gener) (hg : GoodGener f ftime frate fenth g)
    {l : Str} (hw : writeValuesLine r (generVals g) = .ok l) :
    isBlank l = false ∧
    readValues .default r l = .ok [.str (unfixBlockname g.block), .str (unfixBlockname g.name), canonV (f 2) g.nseq,
      canonV (f 3) g.nadd, canonV (f 4) g.nads, g.ltab, .none, g.type, g.itab, canonV (f 9) g.gx, canonV (f 10) g.ex,
      canonV (f 11) g.hg, canonV (f 12) g.fg] := by
  have hu := unfix_length hg.block.len
  have hun := unfix_length hg.nameLen
  obtain ⟨tail, hl⟩ := leading_name_line hs.fs hs.fb hu hg.block.nonl (vals := (generVals g).drop 1) (by exact hw)
  refine ⟨by rw [hl]; exact not_blank_append hg.block.vis, ?_⟩
  have hnumall := hs.num
  have hvalid : ∀ x ∈ r.fs, ValidTyp x.typ := by
    rw [hs.fs]; intro x hx
    simp only [List.mem_cons, List.not_mem_nil, or_false] at hx
    rcases hx with rfl | rfl | rfl | rfl | rfl | rfl | rfl | rfl | rfl | rfl | rfl | rfl | rfl
    · unfold ValidTyp; rw [hs.fb.typ]; simp
    · unfold ValidTyp; rw [hs.fn.typ]; simp
    · exact NumericTyp.valid (hnumall 2 (by simp))
    · exact NumericTyp.valid (hnumall 3 (by simp))
    · exact NumericTyp.valid (hnumall 4 (by simp))
    · exact NumericTyp.valid (hnumall 5 (by simp))
    · exact NumericTyp.valid (hnumall 6 (by simp))
    · unfold ValidTyp; rw [hs.str7]; simp
    · unfold ValidTyp; rw [hs.str8]; simp
    · exact NumericTyp.valid (hnumall 9 (by simp))
    · exact NumericTyp.valid (hnumall 10 (by simp))
    · exact NumericTyp.valid (hnumall 11 (by simp))
    · exact NumericTyp.valid (hnumall 12 (by simp))
  have hnum : ∀ x ∈ r.fs.drop (generVals g).length, NumericTyp x.typ := by
    rw [hs.fs]; intro x hx; simp [generVals] at hx
  have hrd := readValues_written r _ hvalid hnum hw [] (by intro c hc; cases hc)
  rw [List.append_nil, hs.fs] at hrd
  simp only [generVals, List.zip_cons_cons, List.zip_nil_right, List.map_cons, List.map_nil, List.length_cons, List.length_nil,
    List.drop_succ_cons, List.drop_nil, List.append_nil, (name_field_write hs.fb hu hg.block.nonl).2,
    (name_field_write hs.fn hun hg.nameNl).2, hg.ltabKeep, hg.typeKeep, hg.itabKeep,
    canonV_none (hnumall 6 (by simp))] at hrd
  exact hrd


theorem tableTimes_total (g : Gener) (hl : g.ltab = .none ∨ ∃ k : Int, g.ltab = .int k) :
    ∃ tt, tableTimes g.ltab g.type = .ok tt ∧
      tableLen g = (match tt with | some k => if k ≤ 1 then 0 else k | none => 0) := by
  rcases hl with hn | ⟨k, hk⟩
  · unfold tableLen tableTimes
    rw [hn]
    exact ⟨none, rfl, rfl⟩
  · unfold tableLen tableTimes
    rw [hk]
    by_cases h : ((Val.int k).truthy && g.type != .str c!"DELV") = true
    · simp only [h, if_true]; exact ⟨_, rfl, rfl⟩
    · simp only [h, Bool.false_eq_true, if_false]; exact ⟨_, rfl, rfl⟩

theorem chunk_count (k : Nat) : (k + 4 - 1) / 4 = (k + 3) / 4 := by
  have : k + 4 - 1 = k + 3 := by omega
  rw [this]

/-- one generator (header line and, for a table generator, its table lines) read back -/
theorem gener_record {T : Tabs} {r rt rr re : Rec} {f : Nat → FieldSpec} {ftime frate fenth : FieldSpec}
    (hT : T.get c!"generator" = .ok r) (hTt : T.get c!"generation_times" = .ok rt)
    (hTr : T.get c!"generation_rates" = .ok rr) (hTe : T.get c!"generation_enthalpy" = .ok re)
    (hs : GenerShape r rt rr re f ftime frate fenth) (g : Gener) (hg : GoodGener f ftime frate fenth g)
    {ls : List Str} (hw : writeGener T g = .ok ls) :
    ∃ l ex, ls = l :: ex ∧ isBlank l = false ∧
      ∀ rest, readGener .default T l (ex ++ rest) = .ok (canonGener f ftime frate fenth g, ex.length) := by
  obtain ⟨tt, htt, hlen⟩ := tableTimes_total g hg.ltabInt
  obtain ⟨it, hit⟩ := hg.itabStr
  unfold writeGener at hw
  simp only [hT, hTt, hTr, hTe, bind, Except.bind, pure, Except.pure, htt] at hw
  unfold writeValueLine at hw
  have hlv := gener_line_vals hs g
  unfold lineVals at hlv
  rw [hlv] at hw
  cases hl1 : writeValuesLine r (generVals g) with
  | error e => rw [hl1] at hw; cases hw
  | ok l1 =>
    rw [hl1] at hw
    simp only at hw
    obtain ⟨hnb, hhead⟩ := gener_header hs g hg hl1
    by_cases hK : tableLen g = 0
    · -- no tables
      have hnt : tt.getD 1 ≤ 1 := by
        rw [hlen] at hK
        cases tt with
        | none => simp
        | some k => simp only [Option.getD_some]; simp only at hK; split at hK <;> omega
      rw [if_pos hnt] at hw
      cases hw
      refine ⟨l1, [], rfl, hnb, fun rest => ?_⟩
      unfold readGener
      simp only [hT, bind, Except.bind, pure, Except.pure, hhead, Val.str?, (cycle_ok hg.block.len).1, (cycle_ok hg.nameLen).1, htt]
      cases tt with
      | none => simp only [canonGener, hK, if_true]; rfl
      | some k =>
        simp only [Option.getD_some] at hnt
        simp only [hnt, if_true, canonGener, hK]; rfl
    · -- time / rate (/ enthalpy) tables of K entries
      obtain ⟨k, rfl, hk1⟩ : ∃ k, tt = some k ∧ ¬ k ≤ 1 := by
        rw [hlen] at hK
        cases tt with
        | none => exact absurd rfl hK
        | some k =>
          refine ⟨k, rfl, ?_⟩
          simp only at hK
          intro hle
          rw [if_pos hle] at hK
          exact hK rfl
      have hKk : tableLen g = k := by rw [hlen]; simp only [hk1, if_false]
      simp only [Option.getD_some, hk1, if_false] at hw
      have htl := hg.timeLen hK
      have hrl := hg.rateLen hK
      rw [hKk] at htl hrl
      cases hwt : writeChunks rt 4 g.time k ((k + 3) / 4) with
      | error e => rw [hwt] at hw; cases hw
      | ok tl =>
        rw [hwt] at hw
        cases hwr : writeChunks rr 4 g.rate k ((k + 3) / 4) with
        | error e => rw [hwr] at hw; cases hw
        | ok rl =>
          rw [hwr] at hw
          simp only at hw
          have hwt' : writeChunks rt 4 g.time g.time.length ((g.time.length + 4 - 1) / 4) = .ok tl := by
            rw [htl, chunk_count]; exact hwt
          have hwr' : writeChunks rr 4 g.rate g.rate.length ((g.rate.length + 4 - 1) / 4) = .ok rl := by
            rw [hrl, chunk_count]; exact hwr
          have htlen : tl.length = (k + 3) / 4 := (chunks_read hs.ct g.time _ 0 tl (by rw [htl]; exact hwt)).1
          have hrlen : rl.length = (k + 3) / 4 := (chunks_read hs.cr g.rate _ 0 rl (by rw [hrl]; exact hwr)).1
          have hEI := hg.enthItab hK it hit
          by_cases hE : g.enthalpy = []
          · -- no enthalpy column
            have hblank : isBlank it = true := hEI.mpr hE
            simp only [hE, List.isEmpty_nil, if_true, List.append_nil] at hw
            cases hw
            refine ⟨l1, tl ++ rl, rfl, hnb, fun rest => ?_⟩
            unfold readGener
            simp only [hT, hTt, hTr, hTe, bind, Except.bind, pure, Except.pure, hhead, Val.str?, (cycle_ok hg.block.len).1,
              (cycle_ok hg.nameLen).1, htt, hk1, if_false, hit, hblank, Bool.not_true, Bool.false_eq_true]
            obtain ⟨v1, hr1, hv1⟩ := chunked_roundtrip_nonNone hs.ct (by decide) g.time hg.present hwt' (rl ++ rest)
            rw [htl, chunk_count] at hr1
            rw [List.append_assoc, hr1]
            obtain ⟨v2, hr2, hv2⟩ := chunked_roundtrip_nonNone hs.cr (by decide) g.rate hg.presentR hwr' rest
            rw [hrl, chunk_count] at hr2
            have hcount : (tl ++ rl).length = 2 * ((k + 3) / 4) := by rw [List.length_append, htlen, hrlen]; omega
            simp only [hr2, hcount]
            rw [hv1, hv2]
            simp only [canonGener, hK, if_false, hE, List.map_nil, hit, nonNone, List.filter_nil]
          · -- with enthalpy column
            have hnblank : isBlank it = false := by
              cases hb : isBlank it with
              | true => exact absurd (hEI.mp hb) hE
              | false => rfl
            have hel : g.enthalpy.length = k := by
              rcases hg.enthLen hK with h | h
              · exact absurd h hE
              · rw [hKk] at h; exact h
            have hne : g.enthalpy.isEmpty = false := by
              cases hh : g.enthalpy with
              | nil => exact absurd hh hE
              | cons _ _ => rfl
            simp only [hne, Bool.false_eq_true, if_false] at hw
            cases hwe : writeChunks re 4 g.enthalpy k ((k + 3) / 4) with
            | error e => rw [hwe] at hw; cases hw
            | ok el =>
              rw [hwe] at hw
              cases hw
              have hwe' : writeChunks re 4 g.enthalpy g.enthalpy.length ((g.enthalpy.length + 4 - 1) / 4) = .ok el := by
                rw [hel, chunk_count]; exact hwe
              have helen : el.length = (k + 3) / 4 := (chunks_read hs.ce g.enthalpy _ 0 el (by rw [hel]; exact hwe)).1
              refine ⟨l1, tl ++ rl ++ el, rfl, hnb, fun rest => ?_⟩
              unfold readGener
              simp only [hT, hTt, hTr, hTe, bind, Except.bind, pure, Except.pure, hhead, Val.str?, (cycle_ok hg.block.len).1,
                (cycle_ok hg.nameLen).1, htt, hk1, if_false, hit, hnblank, Bool.not_false, if_true]
              obtain ⟨v1, hr1, hv1⟩ := chunked_roundtrip_nonNone hs.ct (by decide) g.time hg.present hwt' (rl ++ (el ++ rest))
              rw [htl, chunk_count] at hr1
              rw [List.append_assoc, List.append_assoc, hr1]
              obtain ⟨v2, hr2, hv2⟩ := chunked_roundtrip_nonNone hs.cr (by decide) g.rate hg.presentR hwr' (el ++ rest)
              rw [hrl, chunk_count] at hr2
              obtain ⟨v3, hr3, hv3⟩ := chunked_roundtrip_nonNone hs.ce (by decide) g.enthalpy hg.presentE hwe' rest
              rw [hel, chunk_count] at hr3
              have hcount : (tl ++ rl ++ el).length = 3 * ((k + 3) / 4) := by
                rw [List.length_append, List.length_append, htlen, hrlen, helen]; omega
              simp only [hr2, hr3, hcount]
              rw [hv1, hv2, hv3]
              simp only [canonGener, hK, if_false, hit]

/-- **section_roundtrip_GENER**: generators written by `write_generators` — header line, and for table
    generators of 2..∞ times the time and rate tables in lines of four, with the enthalpy table exactly when
    ITAB is set — read back one for one, in order, with every table entry to the digits of its field -/
theorem section_roundtrip_GENER {T : Tabs} {r rt rr re : Rec} {f : Nat → FieldSpec} {ftime frate fenth : FieldSpec}
    (hT : T.get c!"generator" = .ok r) (hTt : T.get c!"generation_times" = .ok rt)
    (hTr : T.get c!"generation_rates" = .ok rr) (hTe : T.get c!"generation_enthalpy" = .ok re)
    (hs : GenerShape r rt rr re f ftime frate fenth) (gs : List Gener) (hg : ∀ g ∈ gs, GoodGener f ftime frate fenth g)
    (hw : ∀ g ∈ gs, ∃ ls, writeGener T g = .ok ls) (rest : List Str) :
    readGeners .default T ((gs.map (fun g => match writeGener T g with | .ok ls => ls | .error _ => [])).flatten ++ nl [] :: rest) =
      .ok (gs.map (canonGener f ftime frate fenth), rest) := by
  unfold readGeners
  have hrt : ∀ g ∈ gs, RecordRT id (fun _ => false) (readGener .default T)
      (fun g => match writeGener T g with | .ok ls => ls | .error _ => []) (canonGener f ftime frate fenth) g := by
    intro g hgm
    obtain ⟨ls, hls⟩ := hw g hgm
    obtain ⟨l, ex, rfl, hnb, hrd⟩ := gener_record hT hTt hTr hTe hs g (hg g hgm) hls
    exact ⟨l, ex, by simp only [hls], hnb, rfl, fun rest' => hrd rest'⟩
  exact untilBlank_roundtrip id (fun _ => false) _ _ _ gs hrt (nl []) (Or.inl isBlank_nl_nil) rest

end Proofs.T2
