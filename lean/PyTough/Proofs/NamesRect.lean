/-
  `setup_block_name_index` and `rectangular` (C17): duplicate-free name lists, block names that
  determine their layer and column, and the naming error as the only failure.
-/
import PyTough.Proofs.NamesBlocks
set_option linter.unusedSimpArgs false
namespace Proofs.Names
open Py Model.Names

/-! ### `mapM'` -/

theorem mapM'_eq_map {α β} {f : α → Except Exc β} {g : α → β} :
    ∀ {l : List α}, (∀ a ∈ l, f a = .ok (g a)) → mapM' f l = .ok (l.map g) := by
  intro l
  induction l with
  | nil => intro _; rfl
  | cons a r ih =>
    intro h
    have ha := h a (List.mem_cons_self)
    have hr := ih (fun x hx => h x (List.mem_cons_of_mem _ hx))
    simp [mapM', ha, hr]

theorem mapM'_ok {α β} {f : α → Except Exc β} :
    ∀ {l : List α} {bs : List β}, mapM' f l = .ok bs → List.Forall₂ (fun a b => f a = .ok b) l bs := by
  intro l
  induction l with
  | nil => intro bs h; simp [mapM'] at h; subst h; exact List.Forall₂.nil
  | cons a r ih =>
    intro bs h
    unfold mapM' at h
    cases ha : f a with
    | error e => rw [ha] at h; simp at h
    | ok b =>
      rw [ha] at h
      cases hr : mapM' f r with
      | error e => rw [hr] at h; simp at h
      | ok bs' =>
        rw [hr] at h
        simp only [Except.ok.injEq] at h
        subst h
        exact List.Forall₂.cons ha (ih hr)

theorem mapM'_error {α β} {f : α → Except Exc β} :
    ∀ {l : List α} {e : Exc}, mapM' f l = .error e → ∃ a ∈ l, f a = .error e := by
  intro l
  induction l with
  | nil => intro e h; simp [mapM'] at h
  | cons a r ih =>
    intro e h
    unfold mapM' at h
    cases ha : f a with
    | error e' =>
      rw [ha] at h
      simp only [Except.error.injEq] at h
      subst h
      exact ⟨a, List.mem_cons_self, ha⟩
    | ok b =>
      rw [ha] at h
      cases hr : mapM' f r with
      | error e' =>
        rw [hr] at h
        simp only [Except.error.injEq] at h
        subst h
        obtain ⟨x, hx, hfx⟩ := ih hr
        exact ⟨x, List.mem_cons_of_mem _ hx, hfx⟩
      | ok bs' => rw [hr] at h; simp at h

theorem mapM'_total {α β} {f : α → Except Exc β} {l : List α} (h : ∀ a ∈ l, ∃ b, f a = .ok b) :
    ∃ bs, mapM' f l = .ok bs := by
  cases hr : mapM' f l with
  | ok bs => exact ⟨bs, rfl⟩
  | error e =>
    obtain ⟨a, ha, hfa⟩ := mapM'_error hr
    obtain ⟨b, hb⟩ := h a ha
    rw [hb] at hfa; cases hfa

/-- names generated for the numbers `1..N` -/
theorem gen_list_spec {g : Nat → Except Exc Str} {L cap : Nat} {dec : Str → Nat} {okc : Char → Prop}
    (hg : GenSpec g L cap dec okc) {N : Nat} {names : List Str}
    (h : mapM' (fun k => g (k + 1)) (List.range N) = .ok names) :
    names.length = N ∧ names.Nodup ∧ N ≤ cap ∧
    ∀ x ∈ names, x.length = L ∧ (∀ c ∈ x, okc c) ∧ ∃ k, k < N ∧ g (k + 1) = .ok x := by
  have hf := mapM'_ok h
  have hlen : names.length = N := by simpa using hf.length_eq.symm
  have hmem : ∀ x ∈ names, ∃ k, k < N ∧ g (k + 1) = .ok x := by
    intro x hx
    obtain ⟨i, hi, rfl⟩ := List.getElem_of_mem hx
    have := (List.forall₂_iff_get.mp hf).2 i (by simpa using hlen ▸ hi) hi
    simp only [List.get_eq_getElem, List.getElem_range] at this
    exact ⟨i, by omega, this⟩
  have hdecmap : names.map dec = (List.range N).map (· + 1) := by
    apply List.ext_getElem
    · simp [hlen]
    · intro i h1 h2
      have hi : i < names.length := by simpa using h1
      have := (List.forall₂_iff_get.mp hf).2 i (by simpa using hlen ▸ hi) hi
      simp only [List.get_eq_getElem, List.getElem_range] at this
      simp [hg.dec _ _ this]
  have hnd : names.Nodup := by
    apply List.Nodup.of_map dec
    rw [hdecmap]
    exact List.Nodup.map (fun a b e => by simpa using e) List.nodup_range
  have hcap : N ≤ cap := by
    by_cases hN : N = 0
    · omega
    · have hx : N - 1 < N := by omega
      have hi : N - 1 < names.length := by omega
      have hfb := (List.forall₂_iff_get.mp hf).2 (N - 1) (by simpa using hx) hi
      simp only [List.get_eq_getElem, List.getElem_range] at hfb
      rcases hg.ok_or_naming (N - 1 + 1) with ⟨_, _, _, hc⟩ | ⟨he, _⟩
      · omega
      · rw [hfb] at he; cases he
  refine ⟨hlen, hnd, hcap, ?_⟩
  intro x hx
  obtain ⟨k, hk, hgk⟩ := hmem x hx
  rcases hg.ok_or_naming (k + 1) with ⟨n, h1, h2, hc⟩ | ⟨he, _⟩
  · rw [hgk] at h1; cases h1
    obtain ⟨n', e1, _, e3⟩ := hg.ok (k + 1) hc
    rw [hgk] at e1; cases e1
    exact ⟨h2, e3, k, hk, hgk⟩
  · rw [hgk] at he; cases he

theorem gen_list_total {g : Nat → Except Exc Str} {L cap : Nat} {dec : Str → Nat} {okc : Char → Prop}
    (hg : GenSpec g L cap dec okc) {N : Nat} (hN : N ≤ cap) :
    ∃ names, mapM' (fun k => g (k + 1)) (List.range N) = .ok names := by
  apply mapM'_total
  intro k hk
  have := List.mem_range.mp hk
  obtain ⟨n, h1, _⟩ := hg.ok (k + 1) (by omega)
  exact ⟨n, h1⟩

theorem gen_list_error {g : Nat → Except Exc Str} {L cap : Nat} {dec : Str → Nat} {okc : Char → Prop}
    (hg : GenSpec g L cap dec okc) {N : Nat} {e : Exc}
    (h : mapM' (fun k => g (k + 1)) (List.range N) = .error e) : e = .naming ∧ cap < N := by
  obtain ⟨k, hk, hgk⟩ := mapM'_error h
  have := List.mem_range.mp hk
  rcases hg.ok_or_naming (k + 1) with ⟨n, h1, _⟩ | ⟨he, hc⟩
  · rw [hgk] at h1; cases h1
  · rw [hgk] at he; cases he; exact ⟨rfl, by omega⟩

/-! ### `setup_block_name_index` -/

theorem withIndex_snd {α} (l : List α) : (withIndex l).map Prod.snd = l := by
  unfold withIndex
  exact List.map_snd_zip (by simp)

/-- the (layer, column) pairs of the underground blocks, in the order of `block_name_list` -/
def underPairs (below cols : List Str) (present : Nat → Nat → Bool) : List (Str × Str) :=
  (withIndex below).flatMap fun (li, lay) =>
    ((withIndex cols).filter fun (ci, _) => present (li + 1) ci).map fun (_, col) => (lay, col)

theorem mem_underPairs {below cols : List Str} {present : Nat → Nat → Bool} {p : Str × Str}
    (h : p ∈ underPairs below cols present) : p.1 ∈ below ∧ p.2 ∈ cols := by
  unfold underPairs at h
  simp only [List.mem_flatMap, List.mem_map, List.mem_filter, Prod.exists] at h
  obtain ⟨li, lay, hl, ci, col, ⟨hc, _⟩, rfl⟩ := h
  constructor
  · have : (li, lay).2 ∈ (withIndex below).map Prod.snd := List.mem_map_of_mem hl
    rwa [withIndex_snd] at this
  · have : (ci, col).2 ∈ (withIndex cols).map Prod.snd := List.mem_map_of_mem hc
    rwa [withIndex_snd] at this

theorem nodup_underPairs {below cols : List Str} (present : Nat → Nat → Bool)
    (hb : below.Nodup) (hc : cols.Nodup) : (underPairs below cols present).Nodup := by
  unfold underPairs
  rw [List.nodup_flatMap]
  constructor
  · rintro ⟨li, lay⟩ _
    have e : (((withIndex cols).filter fun (x : Nat × Str) => present (li + 1) x.1).map fun (x : Nat × Str) => (lay, x.2)) =
        ((((withIndex cols).filter fun (x : Nat × Str) => present (li + 1) x.1).map Prod.snd).map fun col => (lay, col)) := by
      rw [List.map_map]; rfl
    show (((withIndex cols).filter fun (x : Nat × Str) => present (li + 1) x.1).map fun (x : Nat × Str) => (lay, x.2)).Nodup
    rw [e]
    apply List.Nodup.map (fun a b e => by simpa using e)
    have hs : (((withIndex cols).filter fun (x : Nat × Str) => present (li + 1) x.1).map Prod.snd).Sublist
        ((withIndex cols).map Prod.snd) := List.Sublist.map _ List.filter_sublist
    rw [withIndex_snd] at hs
    exact hc.sublist hs
  · have hp : (withIndex below).Pairwise (fun a b => a.2 ≠ b.2) := by
      have : ((withIndex below).map Prod.snd).Pairwise (· ≠ ·) := by rw [withIndex_snd]; exact hb
      exact List.pairwise_map.mp this
    refine hp.imp ?_
    rintro ⟨li, lay⟩ ⟨li', lay'⟩ hne
    simp only [Function.onFun]
    intro p hp1 hp2
    simp only [List.mem_map, List.mem_filter, Prod.exists] at hp1 hp2
    obtain ⟨_, _, _, rfl⟩ := hp1
    obtain ⟨_, _, _, e⟩ := hp2
    exact hne (by simpa using (congrArg Prod.fst e).symm)

/-- the (layer, column) pairs of the atmosphere blocks -/
def atmPairs (conv atmos : Nat) (top : Str) (cols : List Str) : List (Str × Str) :=
  if atmos = 0 then [(top, atmosphereColumnName conv)]
  else if atmos = 1 then cols.map fun c => (top, c)
  else []

theorem blockNameList_spec {conv : Nat} (hconv : conv < 4) (atmos : Nat) {top : Str} {below cols : List Str}
    (present : Nat → Nat → Bool)
    (hl : ∀ l ∈ top :: below, LaySafe conv l) (hc : ∀ c ∈ cols, ColSafe conv c)
    (hln : (top :: below).Nodup) (hcn : cols.Nodup) :
    blockNameList conv atmos (top :: below) cols present =
      .ok ((atmPairs conv atmos top cols ++ underPairs below cols present).map fun p => rawBlockName conv p.1 p.2) ∧
    ((atmPairs conv atmos top cols ++ underPairs below cols present).map fun p => rawBlockName conv p.1 p.2).Nodup ∧
    ∀ p ∈ atmPairs conv atmos top cols ++ underPairs below cols present,
      p.1 ∈ top :: below ∧ (p.2 ∈ cols ∨ p.2 = atmosphereColumnName conv) ∧ LaySafe conv p.1 ∧ ColSafe conv p.2 := by
  have htop : LaySafe conv top := hl top List.mem_cons_self
  have hatm : ∀ p ∈ atmPairs conv atmos top cols, p.1 = top ∧ (p.2 ∈ cols ∨ p.2 = atmosphereColumnName conv) := by
    intro p hp
    unfold atmPairs at hp
    split at hp
    · simp only [List.mem_singleton] at hp; subst hp; exact ⟨rfl, Or.inr rfl⟩
    · split at hp
      · obtain ⟨c, hc', rfl⟩ := List.mem_map.mp hp; exact ⟨rfl, Or.inl hc'⟩
      · simp at hp
  have hsafe : ∀ p ∈ atmPairs conv atmos top cols ++ underPairs below cols present,
      p.1 ∈ top :: below ∧ (p.2 ∈ cols ∨ p.2 = atmosphereColumnName conv) ∧ LaySafe conv p.1 ∧ ColSafe conv p.2 := by
    intro p hp
    rcases List.mem_append.mp hp with hp | hp
    · obtain ⟨h1, h2⟩ := hatm p hp
      refine ⟨by rw [h1]; exact List.mem_cons_self, h2, by rw [h1]; exact htop, ?_⟩
      rcases h2 with h2 | h2
      · exact hc _ h2
      · rw [h2]; exact atmosphereColumnName_safe hconv
    · obtain ⟨h1, h2⟩ := mem_underPairs hp
      exact ⟨List.mem_cons_of_mem _ h1, Or.inl h2, hl _ (List.mem_cons_of_mem _ h1), hc _ h2⟩
  have hblk : ∀ p ∈ atmPairs conv atmos top cols ++ underPairs below cols present,
      blockName conv p.1 p.2 = .ok (rawBlockName conv p.1 p.2) := fun p hp =>
    (blockName_inv hconv (hsafe p hp).2.2.1 (hsafe p hp).2.2.2).1
  refine ⟨?_, ?_, hsafe⟩
  · -- the computation
    have hatmBlocks : (if atmos = 0 then mapM' (fun c => blockName conv top c) [atmosphereColumnName conv]
          else if atmos = 1 then mapM' (fun c => blockName conv top c) cols else .ok []) =
        .ok ((atmPairs conv atmos top cols).map fun p => rawBlockName conv p.1 p.2) := by
      unfold atmPairs
      by_cases h0 : atmos = 0
      · simp only [h0, if_true]
        have := hblk (top, atmosphereColumnName conv) (List.mem_append_left _ (by simp [atmPairs, h0]))
        simp [mapM', this]
      · by_cases h1 : atmos = 1
        · simp only [h0, h1, if_true, if_false]
          have hm : ∀ c ∈ cols, (top, c) ∈ atmPairs conv atmos top cols ++ underPairs below cols present := by
            intro c hc'
            refine List.mem_append_left _ ?_
            unfold atmPairs
            simp only [h0, h1, if_true, if_false]
            exact List.mem_map.mpr ⟨c, hc', rfl⟩
          have := mapM'_eq_map (f := fun c => blockName conv top c) (g := fun c => rawBlockName conv top c)
            (l := cols) (fun c hc' => hblk (top, c) (hm c hc'))
          rw [this]
          simp [List.map_map, Function.comp_def]
        · simp [h0, h1]
    have hunder : mapM' (fun p : Str × Str => blockName conv p.1 p.2) (underPairs below cols present) =
        .ok ((underPairs below cols present).map fun p => rawBlockName conv p.1 p.2) :=
      mapM'_eq_map (fun p hp => hblk p (List.mem_append_right _ hp))
    unfold blockNameList
    simp only [hatmBlocks]
    change (match mapM' (fun p : Str × Str => blockName conv p.1 p.2) (underPairs below cols present) with
      | Except.error e => Except.error e
      | Except.ok under => Except.ok ((List.map (fun p : Str × Str => rawBlockName conv p.1 p.2) (atmPairs conv atmos top cols)) ++ under)) = _
    rw [hunder]
    simp
  · -- distinctness
    apply List.Nodup.map_on
    · intro p hp q hq e
      obtain ⟨_, _, a1, a2⟩ := hsafe p hp
      obtain ⟨_, _, b1, b2⟩ := hsafe q hq
      have := rawBlockName_inj hconv a1 a2 b1 b2 e
      exact Prod.ext this.1 this.2
    · have hnt : top ∉ below := (List.nodup_cons.mp hln).1
      rw [List.nodup_append]
      refine ⟨?_, nodup_underPairs present (List.nodup_cons.mp hln).2 hcn, ?_⟩
      · unfold atmPairs
        split
        · simp
        · split
          · exact List.Nodup.map (fun a b e => by simpa using e) hcn
          · simp
      · intro p hp q hq e
        have := (hatm p hp).1
        have h2 := (mem_underPairs hq).1
        rw [← e, this] at h2
        exact hnt h2

end Proofs.Names

namespace Proofs.Names
open Py Model.Names

/-! ### `rectangular` -/

theorem upperChar_clean {c : Char} (h : c ≠ ' ' ∧ isDigit c = false) :
    upperChar c ≠ ' ' ∧ isDigit (upperChar c) = false := by
  unfold upperChar
  split <;> first | exact h | decide

theorem lowerChar_clean {c : Char} (h : c ≠ ' ' ∧ isDigit c = false) :
    lowerChar c ≠ ' ' ∧ isDigit (lowerChar c) = false := by
  unfold lowerChar
  split <;> first | exact h | decide

/-- `case = 'l'` / `'u'` keeps an alphabet free of blanks and digits -/
theorem applyCase_clean (case : Option Bool) {chars : Str} (h : ∀ c ∈ chars, c ≠ ' ' ∧ isDigit c = false) :
    ∀ c ∈ applyCase case chars, c ≠ ' ' ∧ isDigit c = false := by
  intro c hc
  unfold applyCase at hc
  match case, hc with
  | none, hc => exact h c hc
  | some true, hc =>
    obtain ⟨d, hd, rfl⟩ := List.mem_map.mp hc
    exact lowerChar_clean (h d hd)
  | some false, hc =>
    obtain ⟨d, hd, rfl⟩ := List.mem_map.mp hc
    exact upperChar_clean (h d hd)

theorem rectangular_eq (nx ny nz conv atmos : Nat) (left : Bool) (case : Option Bool) (chars : Str) (spaces : Bool)
    (present : Nat → Nat → Bool) :
    rectangular nx ny nz conv atmos left case chars spaces present =
      match mapM' (fun k => nodeNameFromNumber conv (k + 1) left (uniqstring (applyCase case chars)) spaces)
          (List.range ((nx + 1) * (ny + 1))) with
      | .error e => .error e
      | .ok nodes =>
        match mapM' (fun k => columnNameFromNumber conv (k + 1) left (uniqstring (applyCase case chars)) spaces)
            (List.range (nx * ny)) with
        | .error e => .error e
        | .ok cols =>
          match addLayers conv nz left (uniqstring (applyCase case chars)) spaces with
          | .error e => .error e
          | .ok layers =>
            match blockNameList conv atmos layers cols present with
            | .error e => .error e
            | .ok blocks => .ok { nodes, cols, layers, blocks } := rfl

/-- what a `rectangular` geometry looks like when it is returned -/
structure RectOK (conv nx ny nz : Nat) (colCap layCap : Nat) (r : RectNames) : Prop where
  nNodes : r.nodes.length = (nx + 1) * (ny + 1)
  nCols : r.cols.length = nx * ny
  nLayers : r.layers.length = nz + 1
  nodesNodup : r.nodes.Nodup
  colsNodup : r.cols.Nodup
  layersNodup : r.layers.Nodup
  blocksNodup : r.blocks.Nodup
  nodeLen : ∀ x ∈ r.nodes, x.length = colnameLength conv
  colLen : ∀ x ∈ r.cols, x.length = colnameLength conv
  layerLen : ∀ x ∈ r.layers, x.length = layernameLength conv
  blocks : ∃ pairs : List (Str × Str), r.blocks = pairs.map (fun p => rawBlockName conv p.1 p.2) ∧
    ∀ p ∈ pairs, p.1 ∈ r.layers ∧ (p.2 ∈ r.cols ∨ p.2 = atmosphereColumnName conv) ∧
      (rawBlockName conv p.1 p.2).length = 5 ∧
      columnName conv (rawBlockName conv p.1 p.2) = some p.2 ∧ layerName conv (rawBlockName conv p.1 p.2) = some p.1
  withinCols : (nx + 1) * (ny + 1) ≤ colCap
  withinLayers : nz ≤ layCap

theorem rectangular_spec {conv : Nat} (hconv : conv < 4) (nx ny nz atmos : Nat) (left : Bool) (case : Option Bool)
    {chars : Str} {spaces : Bool} (present : Nat → Nat → Bool)
    (h : AlphabetOK (uniqstring (applyCase case chars)) spaces) :
    (∀ r, rectangular nx ny nz conv atmos left case chars spaces present = .ok r →
        RectOK conv nx ny nz (columnCapacity conv (uniqstring (applyCase case chars)).length spaces)
          (layerCapacity conv (uniqstring (applyCase case chars)).length spaces) r) ∧
    (∀ e, rectangular nx ny nz conv atmos left case chars spaces present = .error e → e = .naming) ∧
    ((nx + 1) * (ny + 1) ≤ columnCapacity conv (uniqstring (applyCase case chars)).length spaces →
      nz + 1 ≤ layerCapacity conv (uniqstring (applyCase case chars)).length spaces →
      ∃ r, rectangular nx ny nz conv atmos left case chars spaces present = .ok r) := by
  generalize hA : uniqstring (applyCase case chars) = A at h
  have hAA : uniqstring A = A := uniqstring_of_nodup h.nodup
  have h' : AlphabetOK (uniqstring A) spaces := by rw [hAA]; exact h
  have hgc := genSpec_column h conv (colnameLength_pos hconv) left
  have hgn : GenSpec (fun k => nodeNameFromNumber conv k left A spaces) (colnameLength conv)
      (columnCapacity conv A.length spaces) (columnDecode conv A spaces) (NameChar A) := hgc
  have hlay := addLayers_spec hconv nz left h'
  rw [hAA] at hlay
  obtain ⟨hlay1, hlay2, hlay3⟩ := hlay
  -- the block list for any generated columns and layers
  have hblocks : ∀ (cols names : List Str),
      (∀ c ∈ cols, ∃ k, columnNameFromNumber conv k left A spaces = .ok c) → cols.Nodup →
      (surfaceLayerName conv :: names).Nodup →
      (∀ x ∈ names, ∃ k, layerNameFromNumber conv k left A spaces = .ok x) →
      ∃ blocks, blockNameList conv atmos (surfaceLayerName conv :: names) cols present = .ok blocks ∧ blocks.Nodup ∧
        ∃ pairs : List (Str × Str), blocks = pairs.map (fun p => rawBlockName conv p.1 p.2) ∧
          ∀ p ∈ pairs, p.1 ∈ surfaceLayerName conv :: names ∧ (p.2 ∈ cols ∨ p.2 = atmosphereColumnName conv) ∧
            (rawBlockName conv p.1 p.2).length = 5 ∧
            columnName conv (rawBlockName conv p.1 p.2) = some p.2 ∧ layerName conv (rawBlockName conv p.1 p.2) = some p.1 := by
    intro cols names hc hcn hln hl
    have hls : ∀ l ∈ surfaceLayerName conv :: names, LaySafe conv l := by
      intro l hl'
      rcases List.mem_cons.mp hl' with rfl | hl'
      · exact surfaceLayerName_safe hconv
      · obtain ⟨k, hk⟩ := hl l hl'
        exact layer_safe hconv h hk
    have hcs : ∀ c ∈ cols, ColSafe conv c := by
      intro c hc'
      obtain ⟨k, hk⟩ := hc c hc'
      exact column_safe hconv h hk
    obtain ⟨b1, b2, b3⟩ := blockNameList_spec hconv atmos present hls hcs hln hcn
    refine ⟨_, b1, b2, _, rfl, ?_⟩
    intro p hp
    obtain ⟨p1, p2, p3, p4⟩ := b3 p hp
    have := blockName_inv hconv p3 p4
    exact ⟨p1, p2, this.2.1, this.2.2.1, this.2.2.2⟩
  rw [rectangular_eq, hA]
  refine ⟨?_, ?_, ?_⟩
  · intro r hr
    cases hn : mapM' (fun k => nodeNameFromNumber conv (k + 1) left A spaces) (List.range ((nx + 1) * (ny + 1))) with
    | error e => rw [hn] at hr; cases hr
    | ok nodes =>
      rw [hn] at hr
      simp only [] at hr
      cases hc : mapM' (fun k => columnNameFromNumber conv (k + 1) left A spaces) (List.range (nx * ny)) with
      | error e => rw [hc] at hr; cases hr
      | ok cols =>
        rw [hc] at hr
        simp only [] at hr
        obtain ⟨n1, n2, n3, n4⟩ := gen_list_spec hgn hn
        obtain ⟨c1, c2, c3, c4⟩ := gen_list_spec hgc hc
        rcases hlay1 with ⟨names, hl, l1, l2, l3⟩ | hl
        · rw [hl] at hr
          simp only [] at hr
          obtain ⟨blocks, hb, b2, b3⟩ := hblocks cols names
            (fun c hc' => by obtain ⟨_, _, k, _, hk⟩ := c4 c hc'; exact ⟨k + 1, hk⟩) c2 l2
            (fun x hx => (l3 x hx).2.2)
          rw [hb] at hr
          simp only [Except.ok.injEq] at hr
          subst hr
          have hnz : nz ≤ layerCapacity conv A.length spaces := by
            refine Classical.byContradiction fun hno => ?_
            have := hlay3 (by omega)
            rw [hl] at this; cases this
          exact {
            nNodes := n1, nCols := c1, nLayers := by simp [l1],
            nodesNodup := n2, colsNodup := c2, layersNodup := l2, blocksNodup := b2,
            nodeLen := fun x hx => (n4 x hx).1, colLen := fun x hx => (c4 x hx).1,
            layerLen := fun x hx => by
              rcases List.mem_cons.mp hx with rfl | hx
              · exact (surfaceLayerName_safe hconv).1
              · exact (l3 x hx).1,
            blocks := b3, withinCols := n3, withinLayers := hnz }
        · rw [hl] at hr; cases hr
  · intro e he
    cases hn : mapM' (fun k => nodeNameFromNumber conv (k + 1) left A spaces) (List.range ((nx + 1) * (ny + 1))) with
    | error e' =>
      rw [hn] at he
      simp only [Except.error.injEq] at he
      subst he
      exact (gen_list_error hgn hn).1
    | ok nodes =>
      rw [hn] at he
      simp only [] at he
      cases hc : mapM' (fun k => columnNameFromNumber conv (k + 1) left A spaces) (List.range (nx * ny)) with
      | error e' =>
        rw [hc] at he
        simp only [Except.error.injEq] at he
        subst he
        exact (gen_list_error hgc hc).1
      | ok cols =>
        rw [hc] at he
        simp only [] at he
        obtain ⟨c1, c2, c3, c4⟩ := gen_list_spec hgc hc
        rcases hlay1 with ⟨names, hl, l1, l2, l3⟩ | hl
        · rw [hl] at he
          simp only [] at he
          obtain ⟨blocks, hb, _⟩ := hblocks cols names
            (fun c hc' => by obtain ⟨_, _, k, _, hk⟩ := c4 c hc'; exact ⟨k + 1, hk⟩) c2 l2
            (fun x hx => (l3 x hx).2.2)
          rw [hb] at he
          cases he
        · rw [hl] at he
          simp only [Except.error.injEq] at he
          exact he.symm
  · intro hcap hlcap
    obtain ⟨nodes, hn⟩ := gen_list_total hgn hcap
    have hle : nx * ny ≤ (nx + 1) * (ny + 1) := Nat.mul_le_mul (Nat.le_succ nx) (Nat.le_succ ny)
    obtain ⟨cols, hc⟩ := gen_list_total hgc (Nat.le_trans hle hcap)
    obtain ⟨c1, c2, c3, c4⟩ := gen_list_spec hgc hc
    obtain ⟨layers, hl⟩ := hlay2 hlcap
    rcases hlay1 with ⟨names, hl', l1, l2, l3⟩ | hl'
    · obtain ⟨blocks, hb, _⟩ := hblocks cols names
        (fun c hc' => by obtain ⟨_, _, k, _, hk⟩ := c4 c hc'; exact ⟨k + 1, hk⟩) c2 l2
        (fun x hx => (l3 x hx).2.2)
      refine ⟨{ nodes := nodes, cols := cols, layers := surfaceLayerName conv :: names, blocks := blocks }, ?_⟩
      rw [hn]; simp only []; rw [hc]; simp only []; rw [hl']; simp only []; rw [hb]
    · rw [hl] at hl'; cases hl'

end Proofs.Names
