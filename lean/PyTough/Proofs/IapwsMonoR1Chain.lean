/-
  Chaining region-1 boxes in pressure at a fixed temperature: `GpAnti t a b` says `γ_π(t, ·)` is positive and strictly decreasing on
  `[a, b]`; two adjacent intervals combine.
-/
import PyTough.Proofs.IapwsMonoR1
namespace Proofs.Iapws
open Gen.Iapws Model.Thermo Proofs.Thermo

/-- `γ_π` of region 1 is positive and strictly decreasing in pressure on `a ≤ p ≤ b` at temperature `t` -/
def GpAnti (t a b : ℝ) : Prop := ∀ p1 p2, a ≤ p1 → p1 < p2 → p2 ≤ b → 0 < gpi1 t p2 ∧ gpi1 t p2 < gpi1 t p1

theorem GpAnti.union {t a b c : ℝ} (h1 : GpAnti t a b) (h2 : GpAnti t b c) : GpAnti t a c := by
  intro p1 p2 hp1 h12 hp2
  by_cases hA : p2 ≤ b
  · exact h1 p1 p2 hp1 h12 hA
  · by_cases hB : b ≤ p1
    · exact h2 p1 p2 hB h12 hp2
    · have hb2 : b < p2 := not_le.mp hA
      have h1b : p1 < b := not_le.mp hB
      obtain ⟨u, v⟩ := h2 b p2 (le_refl _) hb2 hp2
      obtain ⟨_, w⟩ := h1 p1 b hp1 h1b (le_refl _)
      exact ⟨u, lt_trans v w⟩

theorem gpAnti_box (tlo thi plo phi xl xh yl yh : ℝ) (t : ℝ) (htlo : 0 ≤ tlo)
    (hxl : 0 < xl) (hx1 : xl ≤ 70999 / 10000 - phi / 16530000) (hx2 : 71001 / 10000 - plo / 16530000 ≤ xh)
    (hyl : 0 < yl) (hy1 : yl ≤ 1386 / (thi + 27316 / 100) - 12221 / 10000)
    (hy2 : 1386 / (tlo + 27314 / 100) - 12219 / 10000 ≤ yh)
    (hU2 : sumU2 tbl1 xl xh yl yh < 0) (hU1 : sumU1 tbl1 xl xh yl yh < 0)
    (ht1 : tlo ≤ t) (ht2 : t ≤ thi) : GpAnti t plo phi := by
  intro p1 p2 hp1 h12 hp2
  have ht0 : 0 ≤ t := le_trans htlo ht1
  exact gpi1_anti t p1 p2 xl xh yl yh h12 hxl (r1_x_ge p2 phi xl hp2 hx1) (r1_x_le p1 plo xh hp1 hx2)
    hyl (r1_y_ge t thi yl ht0 ht2 hy1) (r1_y_le t tlo yh htlo ht1 hy2) hU2 hU1

theorem cowat_of_gpAnti (t a b : ℝ) (ht0 : 0 ≤ t) (ht : t ≤ 350) (hb : b ≤ 100000000) (h : GpAnti t a b)
    (p1 p2 : ℝ) (hp1 : a ≤ p1) (h12 : p1 < p2) (hp2 : p2 ≤ b) :
    ∃ d1 u1 d2 u2, cowat t p1 = Ret.pair d1 u1 ∧ cowat t p2 = Ret.pair d2 u2 ∧ 0 < d1 ∧ d1 < d2 :=
  cowat_density_of_gpi t p1 p2 ht0 ht (le_trans hp2 hb) h12 (h p1 p2 hp1 h12 hp2)

end Proofs.Iapws
