import PyTough.Model.Incon
import PyTough.Proofs.FixedRecord
namespace Proofs.Incon
open Py Model Model.Incon Proofs

/-! ### whitespace-only text reads as "nothing" in numeric fields -/

def NumericTyp (typ : Char) : Prop := typ = 'd' ∨ typ = 'e' ∨ typ = 'f' ∨ typ = 'g' ∨ typ = 'x'

theorem read_ws (rf : ReadFn) {typ : Char} (htyp : NumericTyp typ) {s : Str}
    (hall : ∀ c ∈ s, isStrWs c = true) : readField rf typ s = .ok .none := by
  have hf := fortranFloat_blank _ hall
  have hi := fortranInt_blank _ hall
  have hpf : pyFloat s = .error .valueError := by
    cases h : pyFloat s with
    | ok v => rw [fortranFloat_ok h] at hf; cases hf
    | error e => rw [pyFloat_error h]
  have hpi : pyInt s = .error .valueError := by
    cases h : pyInt s with
    | ok v => rw [fortranInt_ok h] at hi; cases hi
    | error e => rw [pyInt_error h]
  rcases htyp with rfl | rfl | rfl | rfl | rfl <;> cases rf <;> simp [readField, hf, hi, hpf, hpi]

theorem mem_slice_tail {a ws : Str} {i j : Nat} (hi : a.length ≤ i) {c : Char}
    (hc : c ∈ slice (a ++ ws) i j) : c ∈ ws := by
  unfold slice at hc
  have h1 := List.mem_of_mem_take hc
  rw [List.drop_append, List.drop_of_length_le hi, List.nil_append] at h1
  exact List.mem_of_mem_drop h1


theorem parse_ws_fields (rf : ReadFn) (a ws : Str) (hws : ∀ c ∈ ws, isStrWs c = true)
    (fs₂ : List FieldSpec) (hnum : ∀ f ∈ fs₂, NumericTyp f.typ) : ∀ pos, a.length ≤ pos →
    (lineSpec.go pos fs₂).mapM (readAt rf (a ++ ws)) = .ok (fs₂.map (fun _ => PVal.none)) := by
  induction fs₂ with
  | nil => intro pos _; rfl
  | cons f r ih =>
    intro pos hpos
    simp only [lineSpec.go, List.mapM_cons, List.map_cons]
    have h1 : readAt rf (a ++ ws) ((pos, pos + f.width), f.typ) = .ok .none := by
      unfold readAt
      exact read_ws rf (hnum f (by simp)) (fun c hc => hws c (mem_slice_tail hpos hc))
    rw [h1, ih (fun g hg => hnum g (List.mem_cons_of_mem _ hg)) _ (by omega)]
    rfl

/-- a record of complete written fields followed only by whitespace (the newline, the padding of
    `padstring`): the written fields parse from their own texts, every later numeric field is `None` -/
theorem parse_written_then_ws (rf : ReadFn) {fs₁ : List FieldSpec} {strs : List Str}
    (hw : All2 (fun (f : FieldSpec) (s : Str) => s.length = f.width) fs₁ strs)
    (fs₂ : List FieldSpec) (hnum : ∀ f ∈ fs₂, NumericTyp f.typ) (ws : Str)
    (hws : ∀ c ∈ ws, isStrWs c = true) :
    parseString rf (fs₁ ++ fs₂) (strs.flatten ++ ws) = (do
      let a ← (fs₁.zip strs).mapM (fun (p : FieldSpec × Str) => readField rf p.1.typ p.2)
      pure (a ++ fs₂.map (fun _ => PVal.none))) := by
  have hlen := flatten_length_of_widths hw
  rw [parseString_eq]
  unfold lineSpec
  rw [lineSpec_go_append, List.mapM_append]
  have ha := parse_go rf hw [] ws
  simp only [List.nil_append, List.length_nil] at ha
  rw [ha, Nat.zero_add, parse_ws_fields rf strs.flatten ws hws fs₂ hnum _ (by omega)]
  cases (fs₁.zip strs).mapM (fun (p : FieldSpec × Str) => readField rf p.1.typ p.2) <;> rfl


/-! ### one written line read back -/

/-- what a value reads back as after `write_values_to_string` put it in field `f`:
    the composition characterised by the C02 theorems `roundtrip_*` -/
def reparse (rf : ReadFn) (f : FieldSpec) (v : Val) : PVal :=
  match writeField f v with
  | .ok s => (match readField rf f.typ s with | .ok p => p | .error _ => .none)
  | .error _ => .none

/-- the written text of the value can be read (true for every value kind of the C02 round trips) -/
def Readable (rf : ReadFn) (f : FieldSpec) (v : Val) : Prop :=
  ∀ s, writeField f v = .ok s → ∃ p, readField rf f.typ s = .ok p

theorem map_snd_zip_take : ∀ (vals : List Val) (fs : List FieldSpec),
    (vals.zip fs).map Prod.snd = fs.take vals.length := by
  intro vals
  induction vals with
  | nil => intro fs; simp
  | cons v vs ih =>
    intro fs
    cases fs with
    | nil => simp
    | cons f fr => simp [ih]

theorem read_written_texts (rf : ReadFn) {l : List (Val × FieldSpec)} {strs : List Str}
    (h : All2 (fun (vf : Val × FieldSpec) s => writeField vf.2 vf.1 = .ok s) l strs)
    (hread : ∀ vf ∈ l, Readable rf vf.2 vf.1) :
    ((l.map Prod.snd).zip strs).mapM (fun (p : FieldSpec × Str) => readField rf p.1.typ p.2) =
      .ok (l.map (fun vf => reparse rf vf.2 vf.1)) := by
  induction h with
  | nil => rfl
  | cons hab t ih =>
    rename_i vf s l' ss
    obtain ⟨p, hp⟩ := hread vf (by simp) s hab
    have hr : reparse rf vf.2 vf.1 = p := by unfold reparse; rw [hab]; simp only; rw [hp]
    simp only [List.map_cons, List.zip_cons_cons, List.mapM_cons, hp, hr]
    rw [ih (fun x hx => hread x (List.mem_cons_of_mem _ hx))]
    rfl

theorem writeLine_ok {fs : List FieldSpec} {vals : List Val} {l : Str} (h : writeLine fs vals = .ok l) :
    ∃ rec, writeValues fs vals = .ok rec ∧ l = rec ++ ['\n'] := by
  unfold writeLine at h
  cases hw : writeValues fs vals with
  | error e => rw [hw] at h; cases h
  | ok rec => rw [hw] at h; cases h; exact ⟨rec, rfl, rfl⟩

/-- **A written line read back**: the values written (one per leading field) come back as their
    `reparse`, all remaining fields of the layout as `None`; any whitespace after the newline (the
    padding `padstring` adds) changes nothing. -/
theorem line_roundtrip (rf : ReadFn) (fs : List FieldSpec) (vals : List Val)
    (hnum : ∀ f ∈ fs.drop vals.length, NumericTyp f.typ)
    (hread : ∀ vf ∈ vals.zip fs, Readable rf vf.2 vf.1)
    {l : Str} (h : writeLine fs vals = .ok l) (pad : Str) (hpad : ∀ c ∈ pad, isStrWs c = true) :
    parseString rf fs (l ++ pad) =
      .ok ((vals.zip fs).map (fun vf => reparse rf vf.2 vf.1) ++ (fs.drop vals.length).map (fun _ => PVal.none)) := by
  obtain ⟨rec, hw, rfl⟩ := writeLine_ok h
  obtain ⟨strs, h1, rfl⟩ := (writeValues_ok_iff _ _ _).mp hw
  have hwid := written_widths _ _ _ h1
  have hsplit : fs = fs.take vals.length ++ fs.drop vals.length := (List.take_append_drop _ _).symm
  have hws : ∀ c ∈ ['\n'] ++ pad, isStrWs c = true := by
    intro c hc
    rcases List.mem_append.mp hc with h' | h'
    · simp at h'; rw [h']; decide
    · exact hpad c h'
  have := parse_written_then_ws rf hwid (fs.drop vals.length) hnum (['\n'] ++ pad) hws
  rw [← hsplit] at this
  rw [List.append_assoc, this, ← map_snd_zip_take, read_written_texts rf h1 hread]
  rfl

theorem zip_take_of_le {vals : List Val} {fs : List FieldSpec} {k : Nat} (hk : vals.length ≤ k) :
    vals.zip (fs.take k) = vals.zip fs := by
  induction vals generalizing fs k with
  | nil => simp
  | cons v vs ih =>
    cases fs with
    | nil => simp
    | cons f fr =>
      cases k with
      | zero => simp at hk
      | succ k => simp only [List.take_succ_cons, List.zip_cons_cons]; rw [ih (by simpa using hk)]

/-- writing with a layout that is a prefix of a longer one (`incon1` vs `incon1_toughreact`) -/
theorem writeLine_prefix {fs : List FieldSpec} {vals : List Val} {k : Nat} (hk : vals.length ≤ k) :
    writeLine (fs.take k) vals = writeLine fs vals := by
  unfold writeLine writeValues
  rw [zip_take_of_le hk]

end Proofs.Incon
