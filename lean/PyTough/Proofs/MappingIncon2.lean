/-
  C19: t2incon.transfer_from — the average, and totality.
-/
import PyTough.Proofs.MappingIncon
namespace Proofs.Mapping
open Py Model.Mapping

/-! ### the averaged atmosphere state -/

theorem foldE_avg (s : Geo) (src : Incon) (cols : List Col) (vss : List (List Rat)) (acc : List Rat)
    (hcols : mapE (atmColVars s src) cols = .ok vss) (hlen : ∀ v ∈ vss, v.length = acc.length) :
    foldE (avgStep s src) acc cols = .ok (vss.foldl (List.zipWith (· + ·)) acc) := by
  induction cols generalizing acc vss with
  | nil => simp [mapE] at hcols; subst hcols; rfl
  | cons c cs ih =>
    obtain ⟨v, vss', rfl, hv, hrest⟩ := mapE_cons_ok hcols
    have hvl : v.length = acc.length := hlen v (by simp)
    have hstep : avgStep s src acc c = .ok (List.zipWith (· + ·) acc v) := by
      unfold avgStep; rw [hv]; simp only [addVec, if_pos hvl]
    unfold foldE
    rw [hstep]
    simp only [List.foldl_cons]
    apply ih vss' _ hrest
    intro w hw
    rw [List.length_zipWith, hvl, Nat.min_self]
    exact hlen w (by simp [hw])

/-- With a state of the same number of variables over every source column, the averaged
    atmosphere state is the componentwise sum divided by the number of columns, and carries
    no porosity (a fresh object). -/
theorem atmAverage_eq (s : Geo) (src : Incon) (first : IncVal) (vss : List (List Rat))
    (hfirst : firstInc src = .ok first) (hcols : mapE (atmColVars s src) s.cols = .ok vss)
    (hlen : ∀ v ∈ vss, v.length = first.vars.length) (hne : s.cols ≠ []) :
    atmAverage s src = .ok ⟨(vss.foldl (List.zipWith (· + ·)) (List.replicate first.vars.length 0)).map
        (· / (s.cols.length : Rat)), none, none⟩ := by
  unfold atmAverage
  rw [hfirst]
  simp only
  rw [foldE_avg s src s.cols vss _ hcols (by simpa using hlen)]
  simp only
  have : s.cols.isEmpty = false := by
    cases hc : s.cols with
    | nil => exact absurd hc hne
    | cons a b => rfl
  simp [this]

/-! ### totality of the transfer with computed mappings (7 of 9 combinations) -/

theorem effectiveMaps_nil (q : List (Rat × Rat) → Rat × Rat → Nat) (s t : Geo) :
    effectiveMaps q s t [] [] = blockMapping q s t := by
  simp [effectiveMaps]

theorem incon_total_partial (q : List (Rat × Rat) → Rat × Rat → Nat) (hq : IsNearest q) (src : Incon) (s t : Geo)
    (hs : srcOK s = true) (ht : tgtOK t = true) (ha : atmOK s t = true)
    (hne : src ≠ [])
    (hcover : ∀ snames, s.blockNameList = .ok snames → ∀ n ∈ snames, ∃ v, dget src n = .ok v) :
    ∃ res tnames, transferFrom q src s t [] [] = .ok res ∧ t.blockNameList = .ok tnames ∧
      ∀ d ∈ tnames, ∃ v, dget res d = .ok v := by
  have hsw := srcWF_of s hs
  have htw := tgtWF_of t ht
  obtain ⟨m, cm, an, un, san, sun, g0, s0, hbm, han, hun, hnames, hsan, hsun, hsnames, hg0, hs0, hcols, hunder, hatm0, hatm1⟩ :=
    blockMapping_main q hq s t hsw htw ha
  obtain ⟨g0', grest, hg⟩ := htw.lays
  have hg0' : g0' = g0 := by rw [hg] at hg0; simpa using hg0
  subst hg0'
  obtain ⟨s0', s1, srest, hsl⟩ := hsw.lays
  have hs0' : s0' = s0 := by rw [hsl] at hs0; simpa using hs0
  subst hs0'
  obtain ⟨an', un', na, han', hun', _, hna, hdrop, hnot, han0⟩ := tgt_names_split t htw g0' grest hg
  rw [han] at han'; cases han'
  rw [hun] at hun'; cases hun'
  obtain ⟨san', hsan', hsan0, hsan1, hsan2⟩ := atmNames_spec s hsw.names s0' (s1 :: srest) hsl
  rw [hsan] at hsan'; cases hsan'
  obtain ⟨un', hun', hunm⟩ := underNames_spec t htw.names htw.dmplex
  rw [hun] at hun'; cases hun'
  have hcov := hcover _ hsnames
  obtain ⟨f, hf⟩ : ∃ f, firstInc src = .ok f := by
    cases src with
    | nil => exact absurd rfl hne
    | cons p ps => exact ⟨p.2, rfl⟩
  have hl0 : t.lay0 = .ok g0' := by unfold Geo.lay0; rw [hg]
  have hsl0 : s.lay0 = .ok s0' := by unfold Geo.lay0; rw [hsl]
  -- the atmosphere part succeeds
  obtain ⟨atmPart, hatmPart⟩ : ∃ atmPart, transferAtm src s t cm = .ok atmPart := by
    unfold transferAtm
    by_cases h0 : t.atm = 0
    · obtain ⟨hsa, _⟩ := hatm0 h0
      simp only [if_pos h0, hl0, tgt_atm_name t htw g0' grest hg _ (List.mem_cons_self ..), if_pos hsa, hf]
      exact ⟨_, rfl⟩
    · by_cases h1 : t.atm = 1
      · simp only [if_neg h0, if_pos h1]
        have hall : ∀ c ∈ t.cols, ∃ b, (if s.atm = 0 then atmBroadcast t src
            else if s.atm = 1 then atmPerColumn s t src cm else atmDefaultCol t) c = .ok b := by
          intro c hc
          have hnm := tgt_atm_name t htw g0' grest hg c.name (List.mem_cons_of_mem _ (List.mem_map.mpr ⟨c, hc, rfl⟩))
          by_cases hs0a : s.atm = 0
          · rw [if_pos hs0a]; unfold atmBroadcast; simp only [hl0, hnm, hf]; exact ⟨_, rfl⟩
          · by_cases hs1a : s.atm = 1
            · rw [if_neg hs0a, if_pos hs1a]
              obtain ⟨C, hC, hget⟩ := hcols c hc
              obtain ⟨old, hold⟩ := blockName_ok s.conv s0'.name C.name
                (hsw.names.layLen s0' (by rw [hsl]; simp)) (hsw.names.colLen C hC.1)
              have hmem : old ∈ san := (hsan1 hs1a old).mpr ⟨C, hC.1, hold⟩
              obtain ⟨v, hv⟩ := hcov old (List.mem_append_left _ hmem)
              unfold atmPerColumn
              simp only [hget, hsl0, hold, hl0, hnm, hv]
              exact ⟨_, rfl⟩
            · rw [if_neg hs0a, if_neg hs1a]; unfold atmDefaultCol; simp only [hl0, hnm]; exact ⟨_, rfl⟩
        obtain ⟨ps, hps⟩ := mapE_ok_of_each _ _ hall
        rw [hps]; exact ⟨_, rfl⟩
      · simp only [if_neg h0, if_neg h1]; exact ⟨_, rfl⟩
  -- the underground part succeeds
  have hU : ∀ d ∈ un, ∃ b, incUnder src m d = .ok b := by
    intro d hd
    obtain ⟨p, hp, hn⟩ := (hunm d).mp hd
    rw [tgt_under_name t htw p.1 p.2 hp] at hn; cases hn
    obtain ⟨C, S, L', v, _, _, _, _, _, _, hv, hget⟩ := hunder p.1 p.2 hp
    obtain ⟨w, hw⟩ := hcov v (List.mem_append_right _ hv)
    unfold incUnder
    simp only [hget, hw]
    exact ⟨_, rfl⟩
  obtain ⟨ps, hps⟩ := mapE_ok_of_each _ _ hU
  have hres : transferFrom q src s t [] [] = .ok (ps.foldl (fun d p => dset d p.1 p.2) atmPart) := by
    unfold transferFrom
    rw [effectiveMaps_nil, hbm]
    simp only [hatmPart, hnames, hna, hdrop, hps]
  refine ⟨_, an ++ un, hres, hnames, ?_⟩
  intro d hd
  by_cases hdu : d ∈ un
  · obtain ⟨_, _, names, na', _, hn', hna', hall⟩ := incon_underground q src s t [] [] _ hres
    rw [hnames] at hn'; cases hn'
    rw [hna] at hna'; cases hna'
    rw [hdrop] at hall
    obtain ⟨_, v, _, _, hv⟩ := hall d hdu
    exact ⟨v, hv⟩
  · have hda : d ∈ an := by
      rcases List.mem_append.mp hd with h | h
      · exact h
      · exact absurd h hdu
    by_cases h0 : t.atm = 0
    · obtain ⟨atmblk, hab, c0, _, _⟩ := incon_atm_single q src s t [] [] _ ht h0 hres
      rw [han] at hab; cases hab
      simp only [List.mem_singleton] at hda; subst hda
      obtain ⟨hsa, _⟩ := hatm0 h0
      obtain ⟨v, _, hv⟩ := c0 hsa
      exact ⟨v, hv⟩
    · by_cases h1 : t.atm = 1
      · obtain ⟨an', han', _, han1, _⟩ := atmNames_spec t htw.names g0' grest hg
        rw [han] at han'; cases han'
        obtain ⟨c, hc, hn⟩ := (han1 h1 d).mp hda
        obtain ⟨_, _, g0'', _, hl0', hall⟩ := incon_atm_percolumn q src s t [] [] _ ht h1 hres
        rw [hl0] at hl0'; cases hl0'
        obtain ⟨blk, hblk, c0, c1, c2⟩ := hall c hc
        rw [hn] at hblk; cases hblk
        by_cases hs0a : s.atm = 0
        · obtain ⟨v, _, hv⟩ := c0 hs0a; exact ⟨v, hv⟩
        · by_cases hs1a : s.atm = 1
          · obtain ⟨_, _, _, v, _, _, _, _, hv⟩ := c1 hs1a; exact ⟨v, hv⟩
          · exact ⟨_, c2 hs0a hs1a⟩
      · obtain ⟨an', han', _, _, han2⟩ := atmNames_spec t htw.names g0' grest hg
        rw [han] at han'; cases han'
        rw [han2 h0 h1] at hda; cases hda

end Proofs.Mapping
