/-
  Region 1 density monotonicity, boxes (part B): the termwise bounds `sumU2`, `sumU1` of `Proofs/IapwsMonoR1.lean` evaluated on the
  generated table `tbl1` by `norm_num`, one `(x, y)` box per `(t, p)` box (corners rounded outwards to 1e-4).
-/
import PyTough.Proofs.IapwsMonoR1
namespace Proofs.Iapws
open Gen.Iapws Model.Thermo Proofs.Thermo

theorem sumU_r1_box1 : sumU2 tbl1 (5251 / 5000) (71001 / 10000) (3831 / 2500) (683 / 400) < 0 ∧ sumU1 tbl1 (5251 / 5000) (71001 / 10000) (3831 / 2500) (683 / 400) < 0 := by
  unfold sumU2 sumU1 rowU2 rowU1 yMax yMin tbl1
  simp only [zip3, ir1, jr1, nr1, tf_lit, List.zip_cons_cons, List.zip_nil_right, List.map_cons, List.map_nil, List.sum_cons, List.sum_nil]
  norm_num [Int.toNat]

/-- `200 ≤ t ≤ 230` degC, `0` Pa `≤ p1 < p2 ≤ 100 MPa` -/
theorem cowat_mono_box1 (t p1 p2 : ℝ) (ht1 : 200 ≤ t) (ht2 : t ≤ 230) (hp1 : 0 ≤ p1) (h12 : p1 < p2) (hp2 : p2 ≤ 100000000) :
    ∃ d1 u1 d2 u2, cowat t p1 = Ret.pair d1 u1 ∧ cowat t p2 = Ret.pair d2 u2 ∧ 0 < d1 ∧ d1 < d2 :=
  cowat_density_mono_box 200 230 0 100000000 (5251 / 5000) (71001 / 10000) (3831 / 2500) (683 / 400) t p1 p2
    (by norm_num) (by norm_num) (by norm_num) (by norm_num) (by norm_num) (by norm_num) (by norm_num) (by norm_num) (by norm_num)
    sumU_r1_box1.1 sumU_r1_box1.2 ht1 ht2 hp1 h12 hp2

theorem sumU_r1_box4 : sumU2 tbl1 (5251 / 5000) (6223 / 1000) (6887 / 5000) (571 / 400) < 0 ∧ sumU1 tbl1 (5251 / 5000) (6223 / 1000) (6887 / 5000) (571 / 400) < 0 := by
  unfold sumU2 sumU1 rowU2 rowU1 yMax yMin tbl1
  simp only [zip3, ir1, jr1, nr1, tf_lit, List.zip_cons_cons, List.zip_nil_right, List.map_cons, List.map_nil, List.sum_cons, List.sum_nil]
  norm_num [Int.toNat]

/-- `250 ≤ t ≤ 260` degC, `14500000` Pa `≤ p1 < p2 ≤ 100 MPa` -/
theorem cowat_mono_box4 (t p1 p2 : ℝ) (ht1 : 250 ≤ t) (ht2 : t ≤ 260) (hp1 : 14500000 ≤ p1) (h12 : p1 < p2) (hp2 : p2 ≤ 100000000) :
    ∃ d1 u1 d2 u2, cowat t p1 = Ret.pair d1 u1 ∧ cowat t p2 = Ret.pair d2 u2 ∧ 0 < d1 ∧ d1 < d2 :=
  cowat_density_mono_box 250 260 14500000 100000000 (5251 / 5000) (6223 / 1000) (6887 / 5000) (571 / 400) t p1 p2
    (by norm_num) (by norm_num) (by norm_num) (by norm_num) (by norm_num) (by norm_num) (by norm_num) (by norm_num) (by norm_num)
    sumU_r1_box4.1 sumU_r1_box4.2 ht1 ht2 hp1 h12 hp2

theorem sumU_r1_box7 : sumU2 tbl1 (5251 / 5000) (54063 / 10000) (1239 / 1000) (6419 / 5000) < 0 ∧ sumU1 tbl1 (5251 / 5000) (54063 / 10000) (1239 / 1000) (6419 / 5000) < 0 := by
  unfold sumU2 sumU1 rowU2 rowU1 yMax yMin tbl1
  simp only [zip3, ir1, jr1, nr1, tf_lit, List.zip_cons_cons, List.zip_nil_right, List.map_cons, List.map_nil, List.sum_cons, List.sum_nil]
  norm_num [Int.toNat]

/-- `280 ≤ t ≤ 290` degC, `28000000` Pa `≤ p1 < p2 ≤ 100 MPa` -/
theorem cowat_mono_box7 (t p1 p2 : ℝ) (ht1 : 280 ≤ t) (ht2 : t ≤ 290) (hp1 : 28000000 ≤ p1) (h12 : p1 < p2) (hp2 : p2 ≤ 100000000) :
    ∃ d1 u1 d2 u2, cowat t p1 = Ret.pair d1 u1 ∧ cowat t p2 = Ret.pair d2 u2 ∧ 0 < d1 ∧ d1 < d2 :=
  cowat_density_mono_box 280 290 28000000 100000000 (5251 / 5000) (54063 / 10000) (1239 / 1000) (6419 / 5000) t p1 p2
    (by norm_num) (by norm_num) (by norm_num) (by norm_num) (by norm_num) (by norm_num) (by norm_num) (by norm_num) (by norm_num)
    sumU_r1_box7.1 sumU_r1_box7.2 ht1 ht2 hp1 h12 hp2

theorem sumU_r1_box10 : sumU2 tbl1 (5251 / 5000) (46803 / 10000) (2229 / 2000) (11549 / 10000) < 0 ∧ sumU1 tbl1 (5251 / 5000) (46803 / 10000) (2229 / 2000) (11549 / 10000) < 0 := by
  unfold sumU2 sumU1 rowU2 rowU1 yMax yMin tbl1
  simp only [zip3, ir1, jr1, nr1, tf_lit, List.zip_cons_cons, List.zip_nil_right, List.map_cons, List.map_nil, List.sum_cons, List.sum_nil]
  norm_num [Int.toNat]

/-- `310 ≤ t ≤ 320` degC, `40000000` Pa `≤ p1 < p2 ≤ 100 MPa` -/
theorem cowat_mono_box10 (t p1 p2 : ℝ) (ht1 : 310 ≤ t) (ht2 : t ≤ 320) (hp1 : 40000000 ≤ p1) (h12 : p1 < p2) (hp2 : p2 ≤ 100000000) :
    ∃ d1 u1 d2 u2, cowat t p1 = Ret.pair d1 u1 ∧ cowat t p2 = Ret.pair d2 u2 ∧ 0 < d1 ∧ d1 < d2 :=
  cowat_density_mono_box 310 320 40000000 100000000 (5251 / 5000) (46803 / 10000) (2229 / 2000) (11549 / 10000) t p1 p2
    (by norm_num) (by norm_num) (by norm_num) (by norm_num) (by norm_num) (by norm_num) (by norm_num) (by norm_num) (by norm_num)
    sumU_r1_box10.1 sumU_r1_box10.2 ht1 ht2 hp1 h12 hp2

theorem sumU_r1_box13 : sumU2 tbl1 (5251 / 5000) (40753 / 10000) (501 / 500) (5193 / 5000) < 0 ∧ sumU1 tbl1 (5251 / 5000) (40753 / 10000) (501 / 500) (5193 / 5000) < 0 := by
  unfold sumU2 sumU1 rowU2 rowU1 yMax yMin tbl1
  simp only [zip3, ir1, jr1, nr1, tf_lit, List.zip_cons_cons, List.zip_nil_right, List.map_cons, List.map_nil, List.sum_cons, List.sum_nil]
  norm_num [Int.toNat]

/-- `340 ≤ t ≤ 350` degC, `50000000` Pa `≤ p1 < p2 ≤ 100 MPa` -/
theorem cowat_mono_box13 (t p1 p2 : ℝ) (ht1 : 340 ≤ t) (ht2 : t ≤ 350) (hp1 : 50000000 ≤ p1) (h12 : p1 < p2) (hp2 : p2 ≤ 100000000) :
    ∃ d1 u1 d2 u2, cowat t p1 = Ret.pair d1 u1 ∧ cowat t p2 = Ret.pair d2 u2 ∧ 0 < d1 ∧ d1 < d2 :=
  cowat_density_mono_box 340 350 50000000 100000000 (5251 / 5000) (40753 / 10000) (501 / 500) (5193 / 5000) t p1 p2
    (by norm_num) (by norm_num) (by norm_num) (by norm_num) (by norm_num) (by norm_num) (by norm_num) (by norm_num) (by norm_num)
    sumU_r1_box13.1 sumU_r1_box13.2 ht1 ht2 hp1 h12 hp2

end Proofs.Iapws
