/-
  Density rises with pressure at fixed temperature in region 1 (`cowat`), on boxes of `(t, p)`:
  `ρ = p* / (R T γ_π)` with `γ_π = −Σ nᵢ Iᵢ x^(Iᵢ−1) y^Jᵢ`, `x = 7.1 − π`, `y = τ − 1.222` (both positive).
  On a box `xl ≤ x ≤ xh`, `yl ≤ y ≤ yh` every term of the sum and of its difference quotient in `x` is bounded by its
  value at the corner chosen by the sign of `nᵢ` and of `Jᵢ` (`rowU1`, `rowU2`); if both termwise upper bounds are negative,
  `γ_π > 0` and `γ_π` strictly decreases with pressure (i.e. `γ_ππ < 0` without calculus: the difference quotient of
  `x^k` lies between `k xl^(k−1)` and `k xh^(k−1)`).
-/
import PyTough.Proofs.ThermoMono
namespace Proofs.Iapws
open Gen.Iapws Model.Thermo Proofs.Thermo

/-- lower companion of `pow_diff_le` -/
theorem pow_diff_ge (L : ℝ) (hL : 0 ≤ L) : ∀ (k : ℕ) (a b : ℝ), L ≤ a → a ≤ b →
    (k : ℝ) * L ^ (k - 1) * (b - a) ≤ b ^ k - a ^ k := by
  intro k
  induction k with
  | zero => intro a b _ _; simp
  | succ k ih =>
    intro a b ha hab
    have i2 := ih a b ha hab
    have ha0 : 0 ≤ a := le_trans hL ha
    have hb : 0 ≤ b := le_trans ha0 hab
    have hLb : L ≤ b := le_trans ha hab
    have e : b ^ (k + 1) - a ^ (k + 1) = b * (b ^ k - a ^ k) + (b - a) * a ^ k := by ring
    have hak : L ^ k ≤ a ^ k := pow_le_pow_left₀ hL ha k
    have hd : 0 ≤ b - a := by linarith
    have h3 : (b - a) * L ^ k ≤ (b - a) * a ^ k := mul_le_mul_of_nonneg_left hak hd
    have h4 : (k : ℝ) * L ^ k * (b - a) ≤ b * (b ^ k - a ^ k) := by
      rcases Nat.eq_zero_or_pos k with hk | hk
      · subst hk; simp
      · have hPk : L * L ^ (k - 1) = L ^ k := by rw [← pow_succ']; congr 1; omega
        have hnn : 0 ≤ (k : ℝ) * L ^ (k - 1) * (b - a) :=
          mul_nonneg (mul_nonneg (Nat.cast_nonneg k) (pow_nonneg hL _)) hd
        calc (k : ℝ) * L ^ k * (b - a) = L * ((k : ℝ) * L ^ (k - 1) * (b - a)) := by rw [← hPk]; ring
          _ ≤ b * ((k : ℝ) * L ^ (k - 1) * (b - a)) := mul_le_mul_of_nonneg_right hLb hnn
          _ ≤ b * (b ^ k - a ^ k) := mul_le_mul_of_nonneg_left i2 hb
    rw [e]
    simp only [Nat.add_sub_cancel, Nat.cast_add, Nat.cast_one]
    nlinarith

/-- the larger / smaller of `y ^ J` over `yl ≤ y ≤ yh` (the corner depends on the sign of `J`) -/
noncomputable def yMax (J : Int) (yl yh : ℝ) : ℝ := if 0 ≤ J then yh ^ J.toNat else (yl ^ (-J).toNat)⁻¹
noncomputable def yMin (J : Int) (yl yh : ℝ) : ℝ := if 0 ≤ J then yl ^ J.toNat else (yh ^ (-J).toNat)⁻¹

theorem y_bounds (J : Int) (yl yh y : ℝ) (h0 : 0 < yl) (h1 : yl ≤ y) (h2 : y ≤ yh) :
    0 ≤ yMin J yl yh ∧ yMin J yl yh ≤ y ^ J ∧ y ^ J ≤ yMax J yl yh := by
  have hy : 0 < y := lt_of_lt_of_le h0 h1
  have hyh : 0 < yh := lt_of_lt_of_le hy h2
  unfold yMin yMax
  by_cases hJ : 0 ≤ J
  · rw [if_pos hJ, if_pos hJ]
    have e : y ^ J = y ^ J.toNat := by
      conv_lhs => rw [← Int.toNat_of_nonneg hJ]
      exact zpow_natCast y _
    rw [e]
    exact ⟨pow_nonneg (le_of_lt h0) _, pow_le_pow_left₀ (le_of_lt h0) h1 _, pow_le_pow_left₀ (le_of_lt hy) h2 _⟩
  · rw [if_neg hJ, if_neg hJ]
    have hJ' : 0 ≤ -J := by omega
    have e : y ^ J = (y ^ (-J).toNat)⁻¹ := by
      have : J = -(((-J).toNat : ℕ) : ℤ) := by rw [Int.toNat_of_nonneg hJ']; ring
      conv_lhs => rw [this]
      rw [zpow_neg, zpow_natCast]
    rw [e]
    refine ⟨le_of_lt (inv_pos.mpr (pow_pos hyh _)), ?_, ?_⟩
    · exact inv_anti₀ (pow_pos hy _) (pow_le_pow_left₀ (le_of_lt hy) h2 _)
    · exact inv_anti₀ (pow_pos h0 _) (pow_le_pow_left₀ (le_of_lt h0) h1 _)

/-- `n · A ≤` the corner value chosen by the sign of `n` -/
theorem signed_le (n A lo hi : ℝ) (h1 : lo ≤ A) (h2 : A ≤ hi) : n * A ≤ if 0 ≤ n then n * hi else n * lo := by
  by_cases hn : 0 ≤ n
  · rw [if_pos hn]; exact mul_le_mul_of_nonneg_left h2 hn
  · rw [if_neg hn]; exact mul_le_mul_of_nonpos_left h1 (le_of_lt (not_le.mp hn))

/-- termwise upper bound of a row of `laurentDx` and of its difference quotient in `x` -/
noncomputable def rowU1 (r : Int × Int × ℝ) (xl xh yl yh : ℝ) : ℝ :=
  if 0 ≤ r.2.2 then r.2.2 * ((r.1 : ℝ) * xh ^ (r.1 - 1).toNat * yMax r.2.1 yl yh)
  else r.2.2 * ((r.1 : ℝ) * xl ^ (r.1 - 1).toNat * yMin r.2.1 yl yh)
noncomputable def rowU2 (r : Int × Int × ℝ) (xl xh yl yh : ℝ) : ℝ :=
  if 0 ≤ r.2.2 then r.2.2 * ((r.1 : ℝ) * ((((r.1 - 1).toNat : ℕ) : ℝ) * xh ^ ((r.1 - 1).toNat - 1)) * yMax r.2.1 yl yh)
  else r.2.2 * ((r.1 : ℝ) * ((((r.1 - 1).toNat : ℕ) : ℝ) * xl ^ ((r.1 - 1).toNat - 1)) * yMin r.2.1 yl yh)
noncomputable def sumU1 (tbl : List (Int × Int × ℝ)) (xl xh yl yh : ℝ) : ℝ := (tbl.map fun r => rowU1 r xl xh yl yh).sum
noncomputable def sumU2 (tbl : List (Int × Int × ℝ)) (xl xh yl yh : ℝ) : ℝ := (tbl.map fun r => rowU2 r xl xh yl yh).sum

theorem row_upper (r : Int × Int × ℝ) (hi : 0 ≤ r.1) (xl xh yl yh xa xb y : ℝ)
    (hxl : 0 < xl) (h1 : xl ≤ xa) (h12 : xa ≤ xb) (h2 : xb ≤ xh) (hyl : 0 < yl) (y1 : yl ≤ y) (y2 : y ≤ yh) :
    r.2.2 * ((r.1 : ℝ) * xb ^ (r.1 - 1)) * y ^ r.2.1 - r.2.2 * ((r.1 : ℝ) * xa ^ (r.1 - 1)) * y ^ r.2.1
      ≤ rowU2 r xl xh yl yh * (xb - xa) ∧
    r.2.2 * ((r.1 : ℝ) * xb ^ (r.1 - 1)) * y ^ r.2.1 ≤ rowU1 r xl xh yl yh := by
  obtain ⟨i, j, n⟩ := r
  simp only at hi ⊢
  unfold rowU1 rowU2
  simp only
  obtain ⟨ym0, ym1, ym2⟩ := y_bounds j yl yh y hyl y1 y2
  have hxa : 0 < xa := lt_of_lt_of_le hxl h1
  have hxb : 0 < xb := lt_of_lt_of_le hxa h12
  have hd : 0 ≤ xb - xa := by linarith
  rcases eq_or_lt_of_le hi with h0 | hpos
  · subst h0
    simp
  · have ek : (i - 1 : ℤ) = ((i - 1).toNat : ℤ) := (Int.toNat_of_nonneg (by omega)).symm
    set k := (i - 1).toNat
    rw [ek, zpow_natCast, zpow_natCast]
    have hi0 : (0 : ℝ) ≤ (i : ℝ) := by exact_mod_cast hi
    have yj0 : 0 ≤ y ^ j := le_trans ym0 ym1
    have hxh : 0 ≤ xh := le_trans (le_of_lt hxb) h2
    obtain ⟨d0, d1⟩ := pow_diff_le xh k xa xb (le_of_lt hxa) h12 h2
    have d2 := pow_diff_ge xl (le_of_lt hxl) k xa xb h1 h12
    have xbk : xb ^ k ≤ xh ^ k := pow_le_pow_left₀ (le_of_lt hxb) h2 k
    have xbk' : xl ^ k ≤ xb ^ k := pow_le_pow_left₀ (le_of_lt hxl) (le_trans h1 h12) k
    have xlk0 : 0 ≤ xl ^ k := pow_nonneg (le_of_lt hxl) k
    have kl0 : 0 ≤ (k : ℝ) * xl ^ (k - 1) := mul_nonneg (Nat.cast_nonneg k) (pow_nonneg (le_of_lt hxl) _)
    have kh0 : 0 ≤ (k : ℝ) * xh ^ (k - 1) := mul_nonneg (Nat.cast_nonneg k) (pow_nonneg hxh _)
    constructor
    · have e : n * ((i : ℝ) * xb ^ k) * y ^ j - n * ((i : ℝ) * xa ^ k) * y ^ j = n * ((i : ℝ) * (xb ^ k - xa ^ k) * y ^ j) := by ring
      rw [e]
      have lo : (i : ℝ) * ((k : ℝ) * xl ^ (k - 1)) * yMin j yl yh * (xb - xa) ≤ (i : ℝ) * (xb ^ k - xa ^ k) * y ^ j := by
        have a1 : (i : ℝ) * ((k : ℝ) * xl ^ (k - 1) * (xb - xa)) ≤ (i : ℝ) * (xb ^ k - xa ^ k) := mul_le_mul_of_nonneg_left d2 hi0
        have a2 := mul_le_mul a1 ym1 ym0 (mul_nonneg hi0 d0)
        calc (i : ℝ) * ((k : ℝ) * xl ^ (k - 1)) * yMin j yl yh * (xb - xa)
            = (i : ℝ) * ((k : ℝ) * xl ^ (k - 1) * (xb - xa)) * yMin j yl yh := by ring
          _ ≤ _ := a2
      have hi' : (i : ℝ) * (xb ^ k - xa ^ k) * y ^ j ≤ (i : ℝ) * ((k : ℝ) * xh ^ (k - 1)) * yMax j yl yh * (xb - xa) := by
        have a1 : (i : ℝ) * (xb ^ k - xa ^ k) ≤ (i : ℝ) * ((k : ℝ) * xh ^ (k - 1) * (xb - xa)) := mul_le_mul_of_nonneg_left d1 hi0
        have a2 := mul_le_mul a1 ym2 yj0 (mul_nonneg hi0 (mul_nonneg kh0 hd))
        calc (i : ℝ) * (xb ^ k - xa ^ k) * y ^ j ≤ (i : ℝ) * ((k : ℝ) * xh ^ (k - 1) * (xb - xa)) * yMax j yl yh := a2
          _ = _ := by ring
      have := signed_le n _ _ _ lo hi'
      refine le_trans this (le_of_eq ?_)
      split_ifs <;> ring
    · have e : n * ((i : ℝ) * xb ^ k) * y ^ j = n * ((i : ℝ) * xb ^ k * y ^ j) := by ring
      rw [e]
      have lo : (i : ℝ) * xl ^ k * yMin j yl yh ≤ (i : ℝ) * xb ^ k * y ^ j :=
        mul_le_mul (mul_le_mul_of_nonneg_left xbk' hi0) ym1 ym0 (mul_nonneg hi0 (pow_nonneg (le_of_lt hxb) _))
      have hi' : (i : ℝ) * xb ^ k * y ^ j ≤ (i : ℝ) * xh ^ k * yMax j yl yh :=
        mul_le_mul (mul_le_mul_of_nonneg_left xbk hi0) ym2 yj0 (mul_nonneg hi0 (pow_nonneg hxh _))
      exact signed_le n _ _ _ lo hi'

theorem dx_upper (tbl : List (Int × Int × ℝ)) (hrows : ∀ r ∈ tbl, 0 ≤ r.1) (xl xh yl yh xa xb y : ℝ)
    (hxl : 0 < xl) (h1 : xl ≤ xa) (h12 : xa ≤ xb) (h2 : xb ≤ xh) (hyl : 0 < yl) (y1 : yl ≤ y) (y2 : y ≤ yh) :
    laurentDx tbl xb y - laurentDx tbl xa y ≤ sumU2 tbl xl xh yl yh * (xb - xa) ∧
    laurentDx tbl xb y ≤ sumU1 tbl xl xh yl yh := by
  unfold laurentDx sumU2 sumU1
  induction tbl with
  | nil => simp
  | cons r tbl ih =>
    obtain ⟨a, b⟩ := ih (fun q hq => hrows q (List.mem_cons_of_mem _ hq))
    obtain ⟨c, d⟩ := row_upper r (hrows r (by simp)) xl xh yl yh xa xb y hxl h1 h12 h2 hyl y1 y2
    simp only [List.map_cons, List.sum_cons]
    constructor
    · have e : ∀ (u v s t : ℝ), u + s - (v + t) = (u - v) + (s - t) := by intros; ring
      rw [e, add_mul]
      exact add_le_add c a
    · exact add_le_add d b

theorem tbl1_rows : ∀ q ∈ List.zip ir1 jr1, 0 ≤ q.1 := by decide

theorem pstar1_pos : (0 : ℝ) < pstar1 := by unfold pstar1; rw [tf_lit]; norm_num

/-- `γ_π` of region 1 at the state `(t, p)` as `cowat` computes it -/
noncomputable def gpi1 (t p : ℝ) : ℝ := -(laurentDx tbl1 (c71 - pi1 p) (tau1 t - c1222))

/-- generic box: if both termwise upper bounds are negative on `xl ≤ 7.1 − π ≤ xh`, `yl ≤ τ − 1.222 ≤ yh`, then `γ_π > 0`
    there and strictly decreases with pressure -/
theorem gpi1_anti (t p1 p2 xl xh yl yh : ℝ) (h12 : p1 < p2)
    (hxl : 0 < xl) (hx1 : xl ≤ c71 - pi1 p2) (hx2 : c71 - pi1 p1 ≤ xh)
    (hyl : 0 < yl) (hy1 : yl ≤ tau1 t - c1222) (hy2 : tau1 t - c1222 ≤ yh)
    (hU2 : sumU2 tbl1 xl xh yl yh < 0) (hU1 : sumU1 tbl1 xl xh yl yh < 0) :
    0 < gpi1 t p2 ∧ gpi1 t p2 < gpi1 t p1 := by
  have hps := pstar1_pos
  have x12 : c71 - pi1 p2 < c71 - pi1 p1 := by
    have : pi1 p1 < pi1 p2 := by unfold pi1; exact div_lt_div_of_pos_right h12 hps
    linarith
  have hrows : ∀ r ∈ tbl1, 0 ≤ r.1 := fun r hr => tbl1_rows _ (mem_zip3_ints _ _ _ r hr)
  obtain ⟨a, _⟩ := dx_upper tbl1 hrows xl xh yl yh (c71 - pi1 p2) (c71 - pi1 p1) (tau1 t - c1222) hxl hx1 (le_of_lt x12) hx2 hyl hy1 hy2
  obtain ⟨_, b⟩ := dx_upper tbl1 hrows xl xh yl yh (c71 - pi1 p2) (c71 - pi1 p2) (tau1 t - c1222) hxl hx1 (le_refl _)
    (le_trans (le_of_lt x12) hx2) hyl hy1 hy2
  unfold gpi1
  have : sumU2 tbl1 xl xh yl yh * (c71 - pi1 p1 - (c71 - pi1 p2)) < 0 := mul_neg_of_neg_of_pos hU2 (by linarith)
  constructor <;> linarith

/-- from `γ_π` to the density returned by `cowat` -/
theorem cowat_density_of_gpi (t p1 p2 : ℝ) (ht0 : 0 ≤ t) (ht : t ≤ 350) (hp : p2 ≤ 100000000) (h12 : p1 < p2)
    (h : 0 < gpi1 t p2 ∧ gpi1 t p2 < gpi1 t p1) :
    ∃ d1 u1 d2 u2, cowat t p1 = Ret.pair d1 u1 ∧ cowat t p2 = Ret.pair d2 u2 ∧ 0 < d1 ∧ d1 < d2 := by
  have e1 := cowat_eq t p1 ht0 ht (by linarith)
  have e2 := cowat_eq t p2 ht0 ht hp
  have hRT : 0 < rconst * (t + tc_k) := mul_pos rconst_pos (tk_pos t ht0)
  obtain ⟨g2, g12⟩ := h
  unfold gpi1 at g2 g12
  refine ⟨_, _, _, _, e1, e2, ?_, ?_⟩
  · exact div_pos pstar1_pos (mul_pos hRT (lt_trans g2 g12))
  · apply div_lt_div_of_pos_left pstar1_pos (mul_pos hRT g2)
    exact mul_lt_mul_of_pos_left g12 hRT

/-! ### from `(t, p)` boxes to `(x, y)` boxes: crude enclosures of the three double constants -/

theorem r1_x_ge (p Pmax xl : ℝ) (h : p ≤ Pmax) (hx : xl ≤ 70999 / 10000 - Pmax / 16530000) : xl ≤ c71 - pi1 p := by
  unfold c71 pi1 pstar1; rw [tf_lit]
  have : p / 16530000 ≤ Pmax / 16530000 := div_le_div_of_nonneg_right h (by norm_num)
  norm_num at this hx ⊢; linarith

theorem r1_x_le (p Pmin xh : ℝ) (h : Pmin ≤ p) (hx : 71001 / 10000 - Pmin / 16530000 ≤ xh) : c71 - pi1 p ≤ xh := by
  unfold c71 pi1 pstar1; rw [tf_lit]
  have : Pmin / 16530000 ≤ p / 16530000 := div_le_div_of_nonneg_right h (by norm_num)
  norm_num at this hx ⊢; linarith

theorem r1_y_ge (t thi yl : ℝ) (ht0 : 0 ≤ t) (h : t ≤ thi) (hy : yl ≤ 1386 / (thi + 27316 / 100) - 12221 / 10000) :
    yl ≤ tau1 t - c1222 := by
  have hk : tc_k < (27316 / 100 : ℝ) := by unfold tc_k; rw [tf_lit]; norm_num
  have hT := tk_pos t ht0
  have h1 : (1386 : ℝ) / (thi + 27316 / 100) ≤ 1386 / (t + tc_k) :=
    div_le_div_of_nonneg_left (by norm_num) hT (by linarith)
  unfold tau1 tstar1 c1222; rw [tf_lit]; norm_num at h1 hy ⊢; linarith

theorem r1_y_le (t tlo yh : ℝ) (ht0 : 0 ≤ tlo) (h : tlo ≤ t) (hy : 1386 / (tlo + 27314 / 100) - 12219 / 10000 ≤ yh) :
    tau1 t - c1222 ≤ yh := by
  have hk : (27314 / 100 : ℝ) < tc_k := by unfold tc_k; rw [tf_lit]; norm_num
  have h1 : (1386 : ℝ) / (t + tc_k) ≤ 1386 / (tlo + 27314 / 100) :=
    div_le_div_of_nonneg_left (by norm_num) (by linarith) (by linarith)
  unfold tau1 tstar1 c1222; rw [tf_lit]; norm_num at h1 hy ⊢; linarith

/-- a `(t, p)` box `tlo ≤ t ≤ thi`, `plo ≤ p ≤ phi` inside an `(x, y)` box with negative termwise bounds -/
theorem cowat_density_mono_box (tlo thi plo phi xl xh yl yh : ℝ) (t p1 p2 : ℝ)
    (htlo : 0 ≤ tlo) (hthi : thi ≤ 350) (hphi : phi ≤ 100000000)
    (hxl : 0 < xl) (hx1 : xl ≤ 70999 / 10000 - phi / 16530000) (hx2 : 71001 / 10000 - plo / 16530000 ≤ xh)
    (hyl : 0 < yl) (hy1 : yl ≤ 1386 / (thi + 27316 / 100) - 12221 / 10000)
    (hy2 : 1386 / (tlo + 27314 / 100) - 12219 / 10000 ≤ yh)
    (hU2 : sumU2 tbl1 xl xh yl yh < 0) (hU1 : sumU1 tbl1 xl xh yl yh < 0)
    (ht1 : tlo ≤ t) (ht2 : t ≤ thi) (hp1 : plo ≤ p1) (h12 : p1 < p2) (hp2 : p2 ≤ phi) :
    ∃ d1 u1 d2 u2, cowat t p1 = Ret.pair d1 u1 ∧ cowat t p2 = Ret.pair d2 u2 ∧ 0 < d1 ∧ d1 < d2 := by
  have ht0 : 0 ≤ t := le_trans htlo ht1
  apply cowat_density_of_gpi t p1 p2 ht0 (le_trans ht2 hthi) (le_trans hp2 hphi) h12
  exact gpi1_anti t p1 p2 xl xh yl yh h12 hxl (r1_x_ge p2 phi xl hp2 hx1) (r1_x_le p1 plo xh hp1 hx2)
    hyl (r1_y_ge t thi yl ht0 ht2 hy1) (r1_y_le t tlo yh htlo ht1 hy2) hU2 hU1

end Proofs.Iapws
