/-
  Viscosity is positive; the two forms of the region 2/3 boundary are inverse to within 1e-9 K.
-/
import PyTough.Proofs.ThermoIapws
namespace Proofs.Iapws
open Gen.Iapws Model.Thermo Proofs.Thermo

/-! ### viscosity -/

/-- the array `power_array(x, ticv)` written out -/
theorem ticv_array (x : ℝ) : ∃ last, powerArray x ticv = [1, x, x * x, x * x * x, last] := by
  refine ⟨if le x (ofInt 0 : ℝ) && le (ofInt 0 : ℝ) x then (ofInt 1 : ℝ) / ofInt 0 else ofInt 1 / x, ?_⟩
  simp [powerArray, ticv, chainNpos, chainNneg, chainStep, PArr.set, PArr.get, pyPos, tf_ofInt, tf_mul,
    List.replicate]

/-- the dilute-gas sum `Σ h⁰ᵢ xⁱ` of `visc`, `x = T_c / T` -/
theorem visc_s0 (x : ℝ) : pyDot (h0v : List ℝ) (PArr.slice (powerArray x ticv) 0 4) =
    (3777439223453277 / 2251799813685248 : ℝ) * 1 + (4964362905246771 / 2251799813685248 : ℝ) * x
      + (5734491051606083 / 9007199254740992 : ℝ) * (x * x) + (-(8704737503766789 : ℝ) / 36028797018963968) * (x * x * x) := by
  obtain ⟨last, h⟩ := ticv_array x
  rw [h]
  simp [pyDot, PArr.slice, h0v, tf_lit, tf_mul, tf_add, tf_fma]
  ring

theorem visc_s0_pos (x : ℝ) (h0 : 0 < x) (h1 : x ≤ 13 / 5) :
    0 < (3777439223453277 / 2251799813685248 : ℝ) * 1 + (4964362905246771 / 2251799813685248 : ℝ) * x
      + (5734491051606083 / 9007199254740992 : ℝ) * (x * x) + (-(8704737503766789 : ℝ) / 36028797018963968) * (x * x * x) := by
  have a : 0 ≤ (5734491051606083 / 9007199254740992 : ℝ) + (-(8704737503766789 : ℝ) / 36028797018963968) * x := by linarith
  have b : 0 ≤ x * x * ((5734491051606083 / 9007199254740992 : ℝ) + (-(8704737503766789 : ℝ) / 36028797018963968) * x) :=
    mul_nonneg (mul_nonneg (le_of_lt h0) (le_of_lt h0)) a
  nlinarith

theorem visc_pos (d t : ℝ) (ht0 : 0 ≤ t) : ∃ μ, visc d t = Ret.num μ ∧ 0 < μ := by
  have hT := tk_pos t ht0
  have hTc : (0 : ℝ) < tcriticalk := by unfold tcriticalk; rw [tf_lit]; norm_num
  have htau : 0 < (t + tc_k) / tcriticalk := div_pos hT hTc
  set x : ℝ := 1 / ((t + tc_k) / tcriticalk) with hx
  have hx0 : 0 < x := by rw [hx]; exact one_div_pos.mpr htau
  have hx1 : x ≤ 13 / 5 := by
    rw [hx, one_div_div]
    have h273 : (273 : ℝ) ≤ t + tc_k := by
      unfold tc_k; rw [tf_lit]
      have : (273 : ℝ) ≤ ((2402652809016115 : ℤ) : ℝ) / ((8796093022208 : ℕ) : ℝ) := by norm_num
      linarith
    have h648 : (tcriticalk : ℝ) ≤ 648 := by unfold tcriticalk; rw [tf_lit]; norm_num
    rw [div_le_iff₀ hT]
    nlinarith
  have hmu : (0 : ℝ) < mustar := by unfold mustar; rw [tf_lit]; norm_num
  refine ⟨_, rfl, ?_⟩
  simp only [tf_add, tf_sub, tf_mul, tf_div, tf_exp, tf_sqrt, tf_lit]
  norm_num only []
  rw [← hx, visc_s0]
  have hs0 := visc_s0_pos x hx0 hx1
  have hsq : 0 < Real.sqrt ((t + tc_k) / tcriticalk) := Real.sqrt_pos.mpr htau
  exact mul_pos (mul_pos hmu (div_pos (mul_pos (by norm_num) hsq) hs0)) (Real.exp_pos _)

/-! ### the B23 boundary -/

theorem b23p_eq (t : ℝ) : b23p t = Ret.num (1000000 * (nr23_0 + (t + tc_k) * (nr23_1 + (t + tc_k) * nr23_2))) := by
  unfold b23p
  simp only [tf_add, tf_mul, tf_lit]
  norm_num only []

theorem b23t_eq (p : ℝ) : b23t p = Ret.num (nr23_3 + Real.sqrt ((p / 1000000 - nr23_4) / nr23_2) - tc_k) := by
  unfold b23t
  simp only [tf_add, tf_sub, tf_div, tf_sqrt, tf_lit]
  norm_num only []

/-- **The two forms of the region 2/3 boundary are inverse to within 1e-9 K** over the whole
    350..590 degC boundary (they are not exactly inverse: the published coefficients satisfy
    `n₂/n₃ = −2 n₄`, `(n₁ − n₅)/n₃ = n₄²` only to 11 digits). -/
theorem b23_near_inverse (t : ℝ) (h0 : 350 ≤ t) (h1 : t ≤ 590) :
    ∃ p t', b23p t = Ret.num p ∧ b23t p = Ret.num t' ∧ 0 ≤ t' - t ∧ t' - t ≤ 1 / 1000000000 := by
  refine ⟨_, _, b23p_eq t, b23t_eq _, ?_⟩
  set T := t + tc_k with hT
  have hTlo : (623 : ℝ) ≤ T := by
    rw [hT]; unfold tc_k; rw [tf_lit]
    have : (273 : ℝ) ≤ ((2402652809016115 : ℤ) : ℝ) / ((8796093022208 : ℕ) : ℝ) := by norm_num
    linarith
  have hThi : T ≤ 864 := by
    rw [hT]; have := tk_le t 590 h1; linarith
  have hn2 : (0 : ℝ) < nr23_2 := by unfold nr23_2; rw [tf_lit]; norm_num
  -- the argument of the square root is (T - n3)^2 + δ with 0 ≤ δ ≤ 3e-8
  have hq : (1000000 * (nr23_0 + T * (nr23_1 + T * nr23_2)) / 1000000 - nr23_4) / nr23_2
      = (T - nr23_3) ^ 2 + ((nr23_1 / nr23_2 + 2 * nr23_3) * T + ((nr23_0 - nr23_4) / nr23_2 - nr23_3 ^ 2)) := by
    field_simp; ring
  have hA0 : (0 : ℝ) ≤ nr23_1 / nr23_2 + 2 * nr23_3 := by
    unfold nr23_1 nr23_2 nr23_3; simp only [tf_lit]; norm_num
  have hA1 : (nr23_1 / nr23_2 + 2 * nr23_3 : ℝ) ≤ 3 / 100000000000 := by
    unfold nr23_1 nr23_2 nr23_3; simp only [tf_lit]; norm_num
  have hB0 : (0 : ℝ) ≤ (nr23_0 - nr23_4) / nr23_2 - nr23_3 ^ 2 := by
    unfold nr23_0 nr23_4 nr23_2 nr23_3; simp only [tf_lit]; norm_num
  have hB1 : ((nr23_0 - nr23_4) / nr23_2 - nr23_3 ^ 2 : ℝ) ≤ 1 / 1000000000 := by
    unfold nr23_0 nr23_4 nr23_2 nr23_3; simp only [tf_lit]; norm_num
  have hn3 : (nr23_3 : ℝ) ≤ 573 := by unfold nr23_3; rw [tf_lit]; norm_num
  set δ := (nr23_1 / nr23_2 + 2 * nr23_3) * T + ((nr23_0 - nr23_4) / nr23_2 - nr23_3 ^ 2) with hδ
  have hδ0 : 0 ≤ δ := by rw [hδ]; have := mul_nonneg hA0 (by linarith : (0:ℝ) ≤ T); linarith
  have hδ1 : δ ≤ 3 / 100000000 := by
    rw [hδ]
    have : (nr23_1 / nr23_2 + 2 * nr23_3) * T ≤ 3 / 100000000000 * 864 :=
      mul_le_mul hA1 hThi (by linarith) (by norm_num)
    linarith
  set w := T - nr23_3 with hw
  have hw50 : 50 ≤ w := by rw [hw]; linarith
  rw [hq]
  have e : nr23_3 + Real.sqrt (w ^ 2 + δ) - tc_k - t = Real.sqrt (w ^ 2 + δ) - w := by rw [hw, hT]; ring
  rw [e]
  constructor
  · have : w ≤ Real.sqrt (w ^ 2 + δ) := Real.le_sqrt_of_sq_le (by linarith)
    linarith
  · have : Real.sqrt (w ^ 2 + δ) ≤ w + 1 / 1000000000 := by
      rw [Real.sqrt_le_left (by linarith)]
      nlinarith
    linarith
/-- the pressure form: `b23p (b23t p)` differs from `p` by at most 1e-4 Pa over `16.5 MPa ≤ p ≤ 100 MPa`
    (⊇ the whole boundary `b23p 350 … 100 MPa`) -/
theorem b23_near_inverse_p (p : ℝ) (h0 : 16500000 ≤ p) (h1 : p ≤ 100000000) :
    ∃ t p', b23t p = Ret.num t ∧ b23p t = Ret.num p' ∧ |p' - p| ≤ 1 / 10000 := by
  refine ⟨_, _, b23t_eq p, b23p_eq _, ?_⟩
  have hn2 : (0 : ℝ) < nr23_2 := by unfold nr23_2; rw [tf_lit]; norm_num
  set q := (p / 1000000 - nr23_4) / nr23_2 with hq
  have hq0 : 0 ≤ q := by
    rw [hq]; apply div_nonneg _ (le_of_lt hn2)
    have : (nr23_4 : ℝ) ≤ 14 := by unfold nr23_4; rw [tf_lit]; norm_num
    have : (16.5 : ℝ) ≤ p / 1000000 := by rw [le_div_iff₀ (by norm_num)]; linarith
    linarith
  have hq1 : q ≤ 90000 := by
    rw [hq, div_le_iff₀ hn2]
    have h4 : (13 : ℝ) ≤ nr23_4 := by unfold nr23_4; rw [tf_lit]; norm_num
    have h2 : (1 / 1000 : ℝ) ≤ nr23_2 := by unfold nr23_2; rw [tf_lit]; norm_num
    have : p / 1000000 ≤ 100 := by rw [div_le_iff₀ (by norm_num)]; linarith
    nlinarith
  set s := Real.sqrt q with hs
  have hss : s * s = q := Real.mul_self_sqrt hq0
  have hs0 : 0 ≤ s := Real.sqrt_nonneg q
  have hs1 : s ≤ 300 := by
    rw [hs, Real.sqrt_le_left (by norm_num)]; linarith
  -- the value is p + 1e6 (c0 + c1 s)
  have hn2q : nr23_2 * (s * s) = p / 1000000 - nr23_4 := by rw [hss, hq]; field_simp
  have e : 1000000 * (nr23_0 + (nr23_3 + s - tc_k + tc_k) * (nr23_1 + (nr23_3 + s - tc_k + tc_k) * nr23_2)) - p
      = 1000000 * ((nr23_0 + nr23_1 * nr23_3 + nr23_2 * nr23_3 ^ 2 - nr23_4) + (nr23_1 + 2 * nr23_2 * nr23_3) * s) := by
    linear_combination (1000000 : ℝ) * hn2q
  rw [e]
  have c0a : (0 : ℝ) ≤ nr23_0 + nr23_1 * nr23_3 + nr23_2 * nr23_3 ^ 2 - nr23_4 := by
    unfold nr23_0 nr23_1 nr23_2 nr23_3 nr23_4; simp only [tf_lit]; norm_num
  have c0b : (nr23_0 + nr23_1 * nr23_3 + nr23_2 * nr23_3 ^ 2 - nr23_4 : ℝ) ≤ 2 / 100000000000 := by
    unfold nr23_0 nr23_1 nr23_2 nr23_3 nr23_4; simp only [tf_lit]; norm_num
  have c1a : (0 : ℝ) ≤ nr23_1 + 2 * nr23_2 * nr23_3 := by
    unfold nr23_1 nr23_2 nr23_3; simp only [tf_lit]; norm_num
  have c1b : (nr23_1 + 2 * nr23_2 * nr23_3 : ℝ) ≤ 1 / 10000000000000 := by
    unfold nr23_1 nr23_2 nr23_3; simp only [tf_lit]; norm_num
  have m0 : 0 ≤ (nr23_1 + 2 * nr23_2 * nr23_3) * s := mul_nonneg c1a hs0
  have m1 : (nr23_1 + 2 * nr23_2 * nr23_3) * s ≤ 1 / 10000000000000 * 300 := mul_le_mul c1b hs1 hs0 (by norm_num)
  rw [abs_le]
  constructor <;> nlinarith

end Proofs.Iapws
