/-
  C01 proofs, layer 3: section writers read back by their section readers.
-/
import PyTough.Proofs.T2DataCombinators
import PyTough.Proofs.NamesFix
namespace Proofs.T2
open Py Model Model.T2 Proofs Proofs.Incon
open Gen.Sections (Rec)

/-! ### blank lines -/

theorem not_blank_of_mem {s : Str} {c : Char} (hc : c ∈ s) (hw : isStrWs c = false) : isBlank s = false := by
  unfold isBlank strip
  have : c ∈ stripBy isStrWs s := mem_stripBy_of_not hc hw
  cases h : stripBy isStrWs s with
  | nil => rw [h] at this; cases this
  | cons x r => rfl

theorem isBlank_nl_nil : isBlank (nl []) = true := by decide

/-- a string with a non-blank character stays non-blank with anything appended / padded -/
theorem not_blank_append {s t : Str} (h : isBlank s = false) : isBlank (s ++ t) = false := by
  unfold isBlank strip at h
  cases hs : stripBy isStrWs s with
  | nil => rw [hs] at h; cases h
  | cons c r =>
    have hc : c ∈ stripBy isStrWs s := by rw [hs]; simp
    have hcs : c ∈ s := mem_of_mem_stripBy hc
    have hw : isStrWs c = false := by
      have := stripBy_head isStrWs s c r hs
      exact this
    exact not_blank_of_mem (List.mem_append_left _ hcs) hw

theorem not_blank_padstring {s : Str} (h : isBlank s = false) : isBlank (padstring s) = false := by
  unfold padstring ljust; exact not_blank_append h

theorem padstring_eq (s : Str) : padstring s = s ++ List.replicate (80 - s.length) ' ' := rfl

theorem spaces_ws (n : Nat) : ∀ c ∈ List.replicate n ' ', isStrWs c = true := by
  intro c hc; rw [(List.mem_replicate.mp hc).2]; decide

/-! ### dictionary lines (`write_value_line` / `read_value_line`) -/

/-- `read_value_line`'s update of the dictionary: null values are ignored -/
def absorb (names : List Str) (vs : List Val) (d : Dict) : Dict :=
  (names.zip vs).foldl (fun d (p : Str × Val) => if p.2 == .none then d else d.set p.1 p.2) d

/-- the values `write_value_line` puts in the record: missing keys are `None` -/
def lineVals (r : Rec) (d : Dict) : List Val := r.names.map fun n => (d.get n).getD .none

/-- every value of a record read back from its own field -/
def canonVals (r : Rec) (vals : List Val) : List Val := (vals.zip r.fs).map (fun vf => canonV vf.2 vf.1)

structure RecWF (r : Rec) : Prop where
  len : r.names.length = r.fs.length
  valid : ∀ f ∈ r.fs, ValidTyp f.typ

theorem canonVals_length (r : Rec) (vals : List Val) (h : vals.length = r.fs.length) :
    (canonVals r vals).length = r.fs.length := by
  simp [canonVals, h]

/-- a full record (one value per field) read back -/
theorem fullRecord_roundtrip {r : Rec} (hr : RecWF r) (vals : List Val) (hl : vals.length = r.fs.length)
    {l : Str} (h : writeValuesLine r vals = .ok l) (pad : Str) (hpad : ∀ c ∈ pad, isStrWs c = true) :
    readValues .default r (l ++ pad) = .ok (canonVals r vals) := by
  have hnum : ∀ f ∈ r.fs.drop vals.length, NumericTyp f.typ := by
    rw [hl, List.drop_length]; intro f hf; cases hf
  rw [readValues_written r vals hr.valid hnum h pad hpad, hl, List.drop_length]
  simp [canonVals]

/-- **a dictionary line read back**: every entry that is present comes back (to the digits of its field)
    under its own name; an absent entry leaves the reader's dictionary untouched -/
theorem valueLine_roundtrip {r : Rec} (hr : RecWF r) (d d0 : Dict) {l : Str}
    (h : writeValueLine r d = .ok l) (pad : Str) (hpad : ∀ c ∈ pad, isStrWs c = true) :
    readValueLine .default r d0 (l ++ pad) = .ok (absorb r.names (canonVals r (lineVals r d)) d0) := by
  unfold writeValueLine at h
  have hl : (lineVals r d).length = r.fs.length := by simp [lineVals, hr.len]
  unfold readValueLine
  rw [fullRecord_roundtrip hr _ hl h pad hpad]
  rfl

/-! ### TIMES -/

theorem ceilDiv_nat (n k : Nat) : ceilDiv (.int (Int.ofNat n)) k = .ok ((n + k - 1) / k) := by
  show Except.ok (if Int.ofNat n ≤ 0 then 0 else ((Int.ofNat n).toNat + k - 1) / k) = _
  by_cases h : n = 0
  · subst h
    rw [if_pos (by decide)]
    cases k with
    | zero => simp
    | succ k => congr 1; exact (Nat.div_eq_of_lt (by omega)).symm
  · have : ¬ (Int.ofNat n ≤ 0) := by
      intro h'; apply h; exact Int.ofNat_eq_zero.mp (Int.le_antisymm h' (Int.natCast_nonneg n))
    rw [if_neg this]
    rfl

/-- **section_roundtrip_TIMES**: the TIMES section written for an object whose `num_times_specified` is the
    length of its `time` list (any length: 0, 1, …, 8, 9, … — every line boundary) reads back as the same
    dictionary entries and the same times, each to the digits of its field -/
theorem section_roundtrip_TIMES (T : Tabs) {r1 r2 : Rec} {f0 : FieldSpec}
    (hT1 : T.get c!"output_times1" = .ok r1) (hT2 : T.get c!"output_times2" = .ok r2)
    (hr1 : RecWF r1) (hr2 : ChunkRec r2 8 f0)
    (o o0 : OutputTimes) (ts : List Val) (htime : o.time = some ts)
    (hn : o.d.get c!"num_times_specified" = some (.int (Int.ofNat ts.length)))
    -- the count survives its own field (true for any I-field wide enough: C02 `roundtrip_int`)
    (hkeep : (absorb r1.names (canonVals r1 (lineVals r1 o.d)) o0.d).get c!"num_times_specified"
                = some (.int (Int.ofNat ts.length)))
    (hx : ∀ x ∈ ts, canonV f0 x ≠ Val.none)
    {lines : List Str} (hw : writeTimes T o = .ok lines) (rest : List Str) :
    ∃ kwline body, lines = kwline :: body ∧
      readTimes .default T o0 (body ++ rest) =
        .ok ({ d := absorb r1.names (canonVals r1 (lineVals r1 o.d)) o0.d, time := some (ts.map (canonV f0)) }, rest) := by
  have hne : o.isEmpty = false := by simp [OutputTimes.isEmpty, htime]
  unfold writeTimes at hw
  simp only [hne, Bool.false_eq_true, if_false, hT1, hT2, hn, bind, Except.bind, pure, Except.pure, ceilDiv_nat] at hw
  cases hl1 : writeValueLine r1 o.d with
  | error e => rw [hl1] at hw; cases hw
  | ok l1 =>
    rw [hl1] at hw
    simp only [htime] at hw
    cases hch : writeChunks r2 8 ts ts.length ((ts.length + 8 - 1) / 8) with
    | error e => rw [hch] at hw; cases hw
    | ok ls =>
      rw [hch] at hw
      cases hw
      refine ⟨nl c!"TIMES", l1 :: ls, rfl, ?_⟩
      show readTimes .default T o0 (l1 :: (ls ++ rest)) = _
      unfold readTimes
      simp only [readline, hT1, hT2, bind, Except.bind, pure, Except.pure]
      have := valueLine_roundtrip hr1 o.d o0.d hl1 [] (by intro c hc; cases hc)
      rw [List.append_nil] at this
      rw [this]
      simp only [hkeep, ceilDiv_nat]
      obtain ⟨vs, hrd, hvs⟩ := chunked_roundtrip_nonNone hr2 (by decide) ts hx hch rest
      rw [hrd]
      simp only [hvs]

end Proofs.T2
