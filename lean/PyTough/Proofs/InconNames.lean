import PyTough.Model.Incon
import PyTough.Proofs.NamesFix
namespace Proofs.Incon
open Py Model Model.Names Proofs.Names

/-- an in-memory block name that the file format can carry: not of the form "digit, blank, digit"
    in the last three places (that is the *file* form of `dd0d`), and not "non-digit, `0`, digit"
    (a zero-padded number after a letter, which the simulator would print with a blank) -/
def Canonical : Str → Prop
  | [_, _, c, d, e] =>
    ¬ (isDigit c = true ∧ isDigit e = true ∧ d = ' ') ∧ ¬ (isDigit c = false ∧ d = '0' ∧ isDigit e = true)
  | _ => False

instance : DecidablePred Canonical := fun n =>
  match n with
  | [_, _, _, _, _] => by unfold Canonical; exact inferInstance
  | [] | [_] | [_, _] | [_, _, _] | [_, _, _, _] | _ :: _ :: _ :: _ :: _ :: _ :: _ => by
    unfold Canonical; exact inferInstance

/-- memory → file → memory: a canonical name written with `unfix_blockname` and read back with
    `fix_blockname` is unchanged -/
theorem fix_unfix_canonical (n : Str) (h : Canonical n) : fixBlockname (unfixBlockname n) = .ok n := by
  match n, h with
  | [a, b, c, d, e], h =>
    obtain ⟨h1, h2⟩ := h
    rw [unfix5]
    by_cases hz : d = '0' ∧ isDigit e = true
    · rw [if_pos hz, fix5]
      have hc : isDigit c = true := by
        cases hcc : isDigit c with
        | true => rfl
        | false => exact absurd ⟨hcc, hz.1, hz.2⟩ h2
      rw [if_pos ⟨hc, hz.2, rfl⟩, hz.1]
    · rw [if_neg hz, fix5, if_neg h1]

/-- file → memory → file: a name as the simulator prints it (`unfix` leaves it alone) that is read
    with `fix_blockname` is written back identically -/
theorem unfix_fix_fileform (m : Str) (hlen : m.length = 5) (h : unfixBlockname m = m) :
    ∃ n, fixBlockname m = .ok n ∧ unfixBlockname n = m ∧ n.length = 5 := by
  obtain ⟨a, b, c, d, e, rfl⟩ := len5 hlen
  rw [unfix5] at h
  rw [fix5]
  by_cases hf : isDigit c = true ∧ isDigit e = true ∧ d = ' '
  · refine ⟨[a, b, c, '0', e], by rw [if_pos hf], ?_, rfl⟩
    rw [unfix5, if_pos ⟨rfl, hf.2.1⟩, hf.2.2]
  · refine ⟨[a, b, c, d, e], by rw [if_neg hf], ?_, rfl⟩
    rw [unfix5]; exact h

/-- what `fix_blockname` returns is never of the "digit, blank, digit" form -/
theorem fix_result_no_blank (m : Str) (hlen : m.length = 5) :
    ∃ a b c d e, fixBlockname m = .ok [a, b, c, d, e] ∧ ¬ (isDigit c = true ∧ isDigit e = true ∧ d = ' ') := by
  obtain ⟨a, b, c, d, e, rfl⟩ := len5 hlen
  rw [fix5]
  by_cases hf : isDigit c = true ∧ isDigit e = true ∧ d = ' '
  · exact ⟨a, b, c, '0', e, by rw [if_pos hf], fun h => absurd h.2.2 (by decide)⟩
  · exact ⟨a, b, c, d, e, by rw [if_neg hf], hf⟩

-- the two excluded shapes, replayed on the model (and on the real code by the harness)
example : fixBlockname (unfixBlockname "abc07".toList) = .ok "abc 7".toList := by decide
example : fixBlockname (unfixBlockname "ab1 7".toList) = .ok "ab107".toList := by decide
example : Canonical "ab107".toList ∧ Canonical "  a 1".toList ∧ Canonical " a100".toList ∧ Canonical "ATM 0".toList := by decide

end Proofs.Incon
