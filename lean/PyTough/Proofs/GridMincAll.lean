/-
  MINC as a whole: `minc` applies the level loop to every selected block with 0 < V < atmos_volume,
  leaves the other blocks alone, and returns the positions.
-/
import PyTough.Proofs.GridMincSpec
namespace Proofs.Grid
open Py Model Model.Grid Model.Grid.World

/-- the body of the loop `for blk_index, blkname in enumerate(blocks)` for a block `b` that is processed -/
def mincOne (args : MincArgs) (vf : List Rat) (w : World) (blkname : Name) (b i0 iblk : Nat) :
    Except (Exc × World) (World × Nat × List Nat) :=
  match mincLevels args blkname (w.bk b).volume (w.bk b).rock (w.bk b).centre
      (w.setBlk b { w.bk b with volume := (w.bk b).volume * vf.headD 0 }) (vf.drop 1) 0 b iblk [] with
  | .error e => .error e
  | .ok (w2, iblk2, idx) =>
    match duplicateRock w2 (mincRockname (w2.rname (w.bk b).rock) 0) (w.bk b).rock with
    | .error e => .error e
    | .ok w3 =>
      match dget w3.rocktype (mincRockname (w2.rname (w.bk b).rock) 0) with
      | none => .error (.keyError, w3)
      | some fr => .ok (w3.setBlk b { w3.bk b with rock := fr }, iblk2, i0 :: idx)

theorem mincBlocks_cons (args : MincArgs) (vf : List Rat) (D : Dict Name Nat) (w : World) (n : Name) (r : List Name)
    (iblk : Nat) (cols : List (List Nat)) :
    mincBlocks args vf D w (n :: r) iblk cols =
      match dget w.block n with
      | none => .error (.keyError, w)
      | some b =>
        if 0 < (w.bk b).volume ∧ (w.bk b).volume < args.atmosVolume then
          match dget D n with
          | none => .error (.keyError, w.setBlk b { w.bk b with volume := (w.bk b).volume * vf.headD 0 })
          | some i0 =>
            match mincOne args vf w n b i0 iblk with
            | .error e => .error e
            | .ok (w4, iblk2, col) => mincBlocks args vf D w4 r iblk2 (cols ++ [col])
        else mincBlocks args vf D w r iblk (cols ++ [List.replicate vf.length 0]) := by
  simp only [mincBlocks, mincOne]
  cases dget w.block n with
  | none => rfl
  | some b =>
    simp only []
    split
    · cases dget D n with
      | none => rfl
      | some i0 =>
        simp only []
        split
        · rename_i heq; simp only [heq]
        · rename_i w2 iblk2 idx heq
          simp only [heq]
          split
          · rename_i heq2; simp only [heq2]
          · rename_i w3 heq2
            simp only [heq2]
            split
            · rename_i heq3; simp only [heq3]
            · rename_i fr heq3; simp only [heq3]
    · rfl

/-- what processing one block does -/
theorem mincOne_spec (args : MincArgs) (vf : List Rat) {w : World} (hI : Grid.Inv w) (blkname : Name) {b : Nat}
    (hb : b ∈ w.blocklist) (i0 iblk : Nat) {w4 : World} {iblk2 : Nat} {col : List Nat}
    (hok : mincOne args vf w blkname b i0 iblk = .ok (w4, iblk2, col)) :
    Grid.Inv w4 ∧
    w4.blocklist = w.blocklist ++ List.range' w.blks.length (vf.drop 1).length ∧
    w4.blks.length = w.blks.length + (vf.drop 1).length ∧
    (∀ x, x < w.blks.length → (w4.bk x).name = (w.bk x).name ∧ (x ≠ b → (w4.bk x).volume = (w.bk x).volume)) ∧
    (w4.bk b).volume = (w.bk b).volume * vf.headD 0 ∧
    (∀ i (hi : i < (vf.drop 1).length), (w4.bk (w.blks.length + i)).volume = (w.bk b).volume * (vf.drop 1)[i]) ∧
    w4.connectionlist = w.connectionlist ++ List.range' w.cons.length (vf.drop 1).length ∧
    w4.cons = w.cons ++ mincChain args (w.bk b).volume 0 b w.blks.length (vf.drop 1) ∧
    iblk2 = iblk + (vf.drop 1).length ∧ col = i0 :: List.range' (iblk + 1) (vf.drop 1).length := by
  unfold mincOne at hok
  have hlt := hI.bl_lt b hb
  generalize hV : (w.bk b).volume = V at *
  generalize hw1 : w.setBlk b { w.bk b with volume := V * vf.headD 0 } = w1 at hok
  have hI1 : Grid.Inv w1 := by
    rw [← hw1]; exact setBlk_payload_inv hI b _ rfl rfl (fun h => hI.b_rock b h)
  have e_bl : w1.blocklist = w.blocklist := by rw [← hw1]; rfl
  have e_len : w1.blks.length = w.blks.length := by rw [← hw1]; simp
  have e_cl : w1.connectionlist = w.connectionlist := by rw [← hw1]; rfl
  have e_cons : w1.cons = w.cons := by rw [← hw1]; rfl
  have e_bk : ∀ x, w1.bk x = if b = x then { w.bk b with volume := V * vf.headD 0 } else w.bk x := by
    intro x; rw [← hw1, bk_setBlk]; simp [hlt]
  cases hL : mincLevels args blkname V (w.bk b).rock (w.bk b).centre w1 (vf.drop 1) 0 b iblk [] with
  | error e => rw [hL] at hok; cases hok
  | ok p =>
    obtain ⟨w2, iblk2', idx⟩ := p
    rw [hL] at hok
    simp only [] at hok
    obtain ⟨t1, t2, t3, t4, t5, t6, t7, t8, t9⟩ :=
      mincLevels_spec args blkname V (w.bk b).rock (w.bk b).centre (vf.drop 1) 0 iblk [] hI1 (e_bl ▸ hb) hL
    obtain ⟨w3, h3, hI3, d_bl, _, d_blks, d_cons, d_cl, _, hsome⟩ :=
      duplicateRock_spec t1 (mincRockname (w2.rname (w.bk b).rock) 0) (w.bk b).rock
    rw [h3] at hok
    simp only [] at hok
    obtain ⟨fr, hfr⟩ := Option.isSome_iff_exists.mp hsome
    rw [hfr] at hok
    simp only [Except.ok.injEq, Prod.mk.injEq] at hok
    obtain ⟨hw4, hi2, hcol⟩ := hok
    have hfr' := hI3.rd_sound _ _ hfr
    have hI4 : Grid.Inv w4 := by rw [← hw4]; exact setBlk_payload_inv hI3 b _ rfl rfl (fun _ => hfr'.1)
    have hlt3 : b < w3.blks.length := by rw [d_blks, t3, e_len]; omega
    have f_bk : ∀ x, (w4.bk x).volume = (w2.bk x).volume ∧ (w4.bk x).name = (w2.bk x).name := by
      intro x; rw [← hw4, bk_setBlk]
      have e32 : w3.bk x = w2.bk x := by simp only [World.bk, d_blks]
      split
      · rename_i h
        have e32b : w3.bk b = w2.bk b := by simp only [World.bk, d_blks]
        rw [← h.1]
        show (w3.bk b).volume = (w2.bk b).volume ∧ (w3.bk b).name = (w2.bk b).name
        rw [e32b]; exact ⟨rfl, rfl⟩
      · rw [e32]; exact ⟨rfl, rfl⟩
    refine ⟨hI4, ?_, ?_, ?_, ?_, ?_, ?_, ?_, ?_, ?_⟩
    · rw [← hw4]; show w3.blocklist = _; rw [d_bl, t2, e_bl, e_len]
    · rw [← hw4]; simp only [setBlk_blks_length]; rw [d_blks, t3, e_len]
    · intro x hx
      have a := t4 x (by rw [e_len]; exact hx)
      refine ⟨(f_bk x).2.trans (a.2.trans ?_), fun hne => (f_bk x).1.trans (a.1.trans ?_)⟩
      · rw [e_bk]; split
        · rename_i h; rw [← h]
        · rfl
      · rw [e_bk]; simp [Ne.symm hne]
    · have a := t4 b (by rw [e_len]; exact hlt)
      rw [(f_bk b).1, a.1, e_bk]; simp
    · intro i hi
      have a := t5 i hi
      rw [e_len] at a
      rw [(f_bk _).1]; exact a.1
    · rw [← hw4]; show w3.connectionlist = _; rw [d_cl, t6, e_cl, e_cons]
    · rw [← hw4]; show w3.cons = _; rw [d_cons, t7, e_cons, e_len]
    · rw [← hi2, t8]
    · rw [← hcol, t9]; simp

theorem length_mincChain (args : MincArgs) (V : Rat) (l : List Rat) : ∀ m0 last base,
    (mincChain args V m0 last base l).length = l.length := by
  induction l with
  | nil => intro _ _ _; rfl
  | cons x r ih => intro m0 last base; simp [mincChain, ih]

/-- a later part of the run keeps an earlier group -/
theorem _root_.Model.Grid.MincGroup.persist {args : MincArgs} {vf : List Rat} {N0 : Nat} {w w' : World} {V : Rat} {b : Nat} {row : List Nat}
    (h : MincGroup args vf N0 w V b row)
    (hbl : ∃ ext, w'.blocklist = w.blocklist ++ ext) (hcl : ∃ ext, w'.connectionlist = w.connectionlist ++ ext)
    (hcons : ∃ ext, w'.cons = w.cons ++ ext) (hlen : w.blks.length ≤ w'.blks.length)
    (hvb : (w'.bk b).volume = (w.bk b).volume)
    (hvn : ∀ x, N0 ≤ x → x < w.blks.length → (w'.bk x).volume = (w.bk x).volume) :
    MincGroup args vf N0 w' V b row := by
  obtain ⟨base, cbase, pos0, p, h1, h2, h3, h4, h5, h6, h7, h8, h9, h10⟩ := h
  obtain ⟨e1, he1⟩ := hbl
  obtain ⟨e2, he2⟩ := hcl
  obtain ⟨e3, he3⟩ := hcons
  have pre? : ∀ {α} (l e : List α) (i : Nat) (v : α), l[i]? = some v → (l ++ e)[i]? = some v := by
    intro α l e i v hv
    have hi : i < l.length := by
      by_cases hi : i < l.length
      · exact hi
      · rw [List.getElem?_eq_none (Nat.le_of_not_lt hi)] at hv; cases hv
    rw [List.getElem?_append_left hi]; exact hv
  refine ⟨base, cbase, pos0, p, h1, by rw [he1]; exact pre? _ _ _ _ h2, fun k hk => by rw [he1]; exact pre? _ _ _ _ (h3 k hk),
          by rw [hvb]; exact h4, fun k hk => ?_, fun k hk => by rw [he2]; exact List.mem_append_left _ (h6 k hk), fun k hk => ?_,
          h8, Nat.le_trans h9 hlen, by rw [he3]; simp only [List.length_append]; omega⟩
  · rw [hvn (base + k) (by omega) (by omega)]; exact h5 k hk
  · rw [he3, List.getElem?_append_left (by omega)]; exact h7 k hk

theorem getElem?_lt {α} {l : List α} {i : Nat} {v : α} (h : l[i]? = some v) : i < l.length := by
  by_cases hi : i < l.length
  · exact hi
  · rw [List.getElem?_eq_none (Nat.le_of_not_lt hi)] at h; cases h

theorem range'_getElem? (s n k : Nat) (h : k < n) : (List.range' s n)[k]? = some (s + k) := by
  induction n generalizing s k with
  | zero => omega
  | succ m ih =>
    cases k with
    | zero => simp [List.range'_succ]
    | succ j =>
      simp only [List.range'_succ, List.getElem?_cons_succ]
      rw [ih (s + 1) j (by omega)]; congr 1; omega

theorem mem_range'_add (s n k : Nat) (h : k < n) : s + k ∈ List.range' s n :=
  List.mem_of_getElem? (range'_getElem? s n k h)

/-- the loop over the selected blocks -/
theorem mincBlocks_spec (args : MincArgs) (vf : List Rat) (D : Dict Name Nat) (N0 : Nat) (names : List Name) :
    ∀ (w : World) (iblk : Nat) (cols : List (List Nat)) (w' : World) (cols' : List (List Nat)),
    Grid.Inv w → N0 ≤ w.blks.length → names.Nodup →
    (∀ n ∈ names, ∃ b, dget w.block n = some b ∧ b < N0 ∧ ∃ i0, dget D n = some i0 ∧ w.blocklist[i0]? = some b) →
    iblk + 1 = w.blocklist.length →
    mincBlocks args vf D w names iblk cols = .ok (w', cols') →
    Grid.Inv w' ∧ (∃ ext, w'.blocklist = w.blocklist ++ ext) ∧ (∃ ext, w'.connectionlist = w.connectionlist ++ ext) ∧
    (∃ ext, w'.cons = w.cons ++ ext) ∧ w.blks.length ≤ w'.blks.length ∧
    (∀ x, x < w.blks.length → (w'.bk x).name = (w.bk x).name ∧
        ((∀ n ∈ names, dget w.block n = some x → ¬ (0 < (w.bk x).volume ∧ (w.bk x).volume < args.atmosVolume)) →
          (w'.bk x).volume = (w.bk x).volume)) ∧
    ∃ newcols, cols' = cols ++ newcols ∧ newcols.length = names.length ∧
      ∀ i (hi : i < names.length) b, dget w.block names[i] = some b →
        ∃ row, newcols[i]? = some row ∧
          (if 0 < (w.bk b).volume ∧ (w.bk b).volume < args.atmosVolume
           then MincGroup args vf N0 w' (w.bk b).volume b row else row = List.replicate vf.length 0) := by
  induction names with
  | nil =>
    intro w iblk cols w' cols' hI _ _ _ _ hok
    simp only [mincBlocks, Except.ok.injEq, Prod.mk.injEq] at hok
    obtain ⟨rfl, rfl⟩ := hok
    exact ⟨hI, ⟨[], by simp⟩, ⟨[], by simp⟩, ⟨[], by simp⟩, Nat.le_refl _, fun x _ => ⟨rfl, fun _ => rfl⟩,
           [], by simp, rfl, fun i hi => absurd hi (Nat.not_lt_zero _)⟩
  | cons n r ih =>
    intro w iblk cols w' cols' hI hN hnd hnames hiblk hok
    have ⟨hnr, hr⟩ := List.nodup_cons.mp hnd
    obtain ⟨b, hdb, hbN, i0, hD, hpos⟩ := hnames n List.mem_cons_self
    have hb := hI.bd_sound _ _ hdb
    rw [mincBlocks_cons, hdb] at hok
    simp only [] at hok
    by_cases hcond : 0 < (w.bk b).volume ∧ (w.bk b).volume < args.atmosVolume
    · -- the block is processed
      rw [if_pos hcond, hD] at hok
      simp only [] at hok
      cases h1 : mincOne args vf w n b i0 iblk with
      | error e => rw [h1] at hok; cases hok
      | ok q =>
        obtain ⟨w4, iblk2, col⟩ := q
        rw [h1] at hok
        simp only [] at hok
        obtain ⟨a1, a2, a3, a4, a5, a6, a7, a8, a9, a10⟩ := mincOne_spec args vf hI n hb.1 i0 iblk h1
        -- the remaining names, seen from w4
        have hnames4 : ∀ n' ∈ r, ∃ b', dget w4.block n' = some b' ∧ b' < N0 ∧ ∃ i0', dget D n' = some i0' ∧ w4.blocklist[i0']? = some b' := by
          intro n' hn'
          obtain ⟨b', hd', hb'N, i0', hD', hpos'⟩ := hnames n' (List.mem_cons_of_mem _ hn')
          have hb' := hI.bd_sound _ _ hd'
          have hin : b' ∈ w4.blocklist := by rw [a2]; exact List.mem_append_left _ hb'.1
          have hnm : w4.bname b' = n' := by
            show (w4.bk b').name = n'; rw [(a4 b' (Nat.lt_of_lt_of_le hb'N hN)).1]; exact hb'.2
          refine ⟨b', by rw [← hnm]; exact a1.bd_complete b' hin, hb'N, i0', hD', ?_⟩
          rw [a2, List.getElem?_append_left (getElem?_lt hpos')]; exact hpos'
        have hlook : ∀ n' ∈ r, ∀ x, dget w4.block n' = some x ↔ dget w.block n' = some x := by
          intro n' hn' x
          obtain ⟨b', hd', _⟩ := hnames n' (List.mem_cons_of_mem _ hn')
          obtain ⟨b'', hd'', _⟩ := hnames4 n' hn'
          have hb' := hI.bd_sound _ _ hd'
          have hin : b' ∈ w4.blocklist := by rw [a2]; exact List.mem_append_left _ hb'.1
          have hnm : w4.bname b' = n' := by
            show (w4.bk b').name = n'; rw [(a4 b' (hI.bl_lt b' hb'.1)).1]; exact hb'.2
          have : dget w4.block n' = some b' := by rw [← hnm]; exact a1.bd_complete b' hin
          rw [this, hd']
        have hne_of : ∀ n' ∈ r, ∀ x, dget w.block n' = some x → x ≠ b := by
          intro n' hn' x hx e
          subst e
          have := (hI.bd_sound _ _ hx).2
          rw [hb.2] at this
          exact hnr (this ▸ hn')
        obtain ⟨c1, ⟨e1, c2⟩, ⟨e2, c3⟩, ⟨e3, c4⟩, c5, c6, newcols, c7, c8, c9⟩ :=
          ih w4 iblk2 (cols ++ [col]) w' cols' a1 (by rw [a3]; omega) hr hnames4
            (by rw [a9, a2]; simp only [List.length_append, List.length_range']; omega) hok
        refine ⟨c1, ⟨_, by rw [c2, a2, List.append_assoc]⟩, ⟨_, by rw [c3, a7, List.append_assoc]⟩,
                ⟨_, by rw [c4, a8, List.append_assoc]⟩, by rw [a3] at c5; omega, ?_, col :: newcols, by rw [c7]; simp, by simp [c8], ?_⟩
        · intro x hx
          have hx4 : x < w4.blks.length := by rw [a3]; omega
          refine ⟨(c6 x hx4).1.trans (a4 x hx).1, fun hno => ?_⟩
          have hxb : x ≠ b := fun e => hno n List.mem_cons_self (e ▸ hdb) (e ▸ hcond)
          rw [← (a4 x hx).2 hxb]
          apply (c6 x hx4).2
          intro n' hn' hd'
          rw [(a4 x hx).2 hxb]
          exact hno n' (List.mem_cons_of_mem _ hn') ((hlook n' hn' x).mp hd')
        · intro i hi b' hd'
          cases i with
          | zero =>
            simp only [List.getElem_cons_zero] at hd'
            rw [hdb] at hd'; cases hd'
            refine ⟨col, by simp, ?_⟩
            rw [if_pos hcond]
            -- the group as it stands in w4, then kept by the rest of the run
            have g4 : MincGroup args vf N0 w4 (w.bk b).volume b col := by
              refine ⟨w.blks.length, w.cons.length, i0, iblk + 1, a10, ?_, ?_, a5, a6, ?_, ?_, hN, by rw [a3]; omega, ?_⟩
              · rw [a2, List.getElem?_append_left (getElem?_lt hpos)]; exact hpos
              · intro k hk
                rw [a2, hiblk, List.getElem?_append_right (by omega)]
                have : w.blocklist.length + k - w.blocklist.length = k := by omega
                rw [this]; exact range'_getElem? _ _ k hk
              · intro k hk; rw [a7]; exact List.mem_append_right _ (mem_range'_add _ _ k hk)
              · intro k hk
                rw [a8, List.getElem?_append_right (by omega)]
                simp
              · rw [a8]; simp [length_mincChain]
            refine g4.persist ⟨e1, c2⟩ ⟨e2, c3⟩ ⟨e3, c4⟩ c5 ?_ ?_
            · apply (c6 b (by rw [a3]; omega)).2
              intro n' hn' hd''
              exact absurd rfl (hne_of n' hn' b ((hlook n' hn' b).mp hd''))
            · intro x hxN hx4
              apply (c6 x hx4).2
              intro n' hn' hd''
              obtain ⟨b'', hd3, hb3, _⟩ := hnames4 n' hn'
              rw [hd3] at hd''; cases hd''
              omega
          | succ j =>
            simp only [List.getElem_cons_succ] at hd'
            have hj : j < r.length := by simp only [List.length_cons] at hi; omega
            have hn' : r[j] ∈ r := List.getElem_mem hj
            have hd4 : dget w4.block r[j] = some b' := (hlook _ hn' b').mpr hd'
            obtain ⟨row, hrow, hrest⟩ := c9 j hj b' hd4
            have hb'lt : b' < w.blks.length := hI.bl_lt b' (hI.bd_sound _ _ hd').1
            have hv : (w4.bk b').volume = (w.bk b').volume := (a4 b' hb'lt).2 (hne_of _ hn' b' hd')
            rw [hv] at hrest
            exact ⟨row, by simpa using hrow, hrest⟩
    · -- boundary or empty block: skipped
      rw [if_neg hcond] at hok
      have hnames' : ∀ n' ∈ r, ∃ b', dget w.block n' = some b' ∧ b' < N0 ∧ ∃ i0', dget D n' = some i0' ∧ w.blocklist[i0']? = some b' :=
        fun n' hn' => hnames n' (List.mem_cons_of_mem _ hn')
      obtain ⟨c1, c2, c3, c4, c5, c6, newcols, c7, c8, c9⟩ :=
        ih w iblk (cols ++ [List.replicate vf.length 0]) w' cols' hI hN hr hnames' hiblk hok
      refine ⟨c1, c2, c3, c4, c5, ?_, List.replicate vf.length 0 :: newcols, by rw [c7]; simp, by simp [c8], ?_⟩
      · intro x hx
        refine ⟨(c6 x hx).1, fun hno => (c6 x hx).2 (fun n' hn' => hno n' (List.mem_cons_of_mem _ hn'))⟩
      · intro i hi b' hd'
        cases i with
        | zero =>
          simp only [List.getElem_cons_zero] at hd'
          rw [hdb] at hd'; cases hd'
          exact ⟨List.replicate vf.length 0, by simp, by rw [if_neg hcond]⟩
        | succ j =>
          simp only [List.getElem_cons_succ] at hd'
          have hj : j < r.length := by simp only [List.length_cons] at hi; omega
          obtain ⟨row, hrow, hrest⟩ := c9 j hj b' hd'
          exact ⟨row, by simpa using hrow, hrest⟩

/-! ### the index dictionary and the top level -/

theorem dget_buildPairs {κ : Type} [DecidableEq κ] (key : Nat → κ) (l : List (Nat × Nat)) (d0 : Dict κ Nat)
    (hinj : ∀ p ∈ l, ∀ q ∈ l, key p.1 = key q.1 → p = q) (p : Nat × Nat) (hp : p ∈ l) :
    dget (l.foldl (fun d q => dset d (key q.1) q.2) d0) (key p.1) = some p.2 := by
  induction l generalizing d0 with
  | nil => cases hp
  | cons a r ih =>
    simp only [List.foldl_cons]
    by_cases hr : p ∈ r
    · exact ih _ (fun x hx y hy => hinj x (List.mem_cons_of_mem _ hx) y (List.mem_cons_of_mem _ hy)) hr
    · have hpa : p = a := by
        rcases List.mem_cons.mp hp with h | h
        · exact h
        · exact absurd h hr
      subst hpa
      -- no later pair has the same key: the entry survives
      have : ∀ (l' : List (Nat × Nat)) (d : Dict κ Nat), (∀ q ∈ l', key q.1 ≠ key p.1) → dget d (key p.1) = some p.2 →
          dget (l'.foldl (fun d q => dset d (key q.1) q.2) d) (key p.1) = some p.2 := by
        intro l'
        induction l' with
        | nil => intro d _ h; exact h
        | cons b t iht =>
          intro d hne h
          simp only [List.foldl_cons]
          apply iht _ (fun q hq => hne q (List.mem_cons_of_mem _ hq))
          rw [dget_dset_ne _ _ (hne b List.mem_cons_self)]; exact h
      apply this r _ ?_ (by simp)
      intro q hq e
      exact hr (hinj q (List.mem_cons_of_mem _ hq) p List.mem_cons_self e ▸ hq)

theorem blockIndexDict_spec {w : World} (hI : Grid.Inv w) {b i : Nat} (h : w.blocklist[i]? = some b) :
    dget (blockIndexDict w) (w.bname b) = some i := by
  unfold blockIndexDict
  have hmem : (b, i) ∈ w.blocklist.zipIdx := List.mem_zipIdx_iff_getElem?.mpr h
  refine dget_buildPairs w.bname _ [] ?_ (b, i) hmem
  intro p hp q hq e
  have hp' := List.mem_zipIdx_iff_getElem?.mp hp
  have hq' := List.mem_zipIdx_iff_getElem?.mp hq
  have e1 : p.1 = q.1 := hI.blockInv.name_inj (List.mem_of_getElem? hp') (List.mem_of_getElem? hq') e
  have e2 : p.2 = q.2 := by
    rw [e1] at hp'
    exact (List.getElem?_inj (getElem?_lt hp') hI.bl_nodup).mp (hp'.trans hq'.symm)
  exact Prod.ext e1 e2

theorem nodup_block_names {w : World} (hI : Grid.Inv w) : (w.blocklist.map w.bname).Nodup := by
  refine List.pairwise_map.mpr (List.Pairwise.imp_of_mem ?_ hI.bl_nodup)
  intro a b ha hb hne e
  exact hne (hI.blockInv.name_inj ha hb e)

/-- **minc as a whole** (the names selected are distinct block names of the grid) -/
theorem minc_spec {w : World} (hI : Grid.Inv w) (args : MincArgs) {w' : World} {cols : List (List Nat)}
    (hok : minc w args = .ok (w', cols))
    (hnd : (if args.blocks.isEmpty then w.blocklist.map w.bname else args.blocks).Nodup)
    (hall : ∀ n ∈ (if args.blocks.isEmpty then w.blocklist.map w.bname else args.blocks), (dget w.block n).isSome) :
    let vf := normFracs args.fracs
    let sel := if args.blocks.isEmpty then w.blocklist.map w.bname else args.blocks
    Grid.Inv w' ∧ cols.length = sel.length ∧
    (∀ x, x < w.blks.length → (w'.bk x).name = (w.bk x).name) ∧
    (∀ b ∈ w.blocklist, (w.bname b ∉ sel ∨ ¬ (0 < (w.bk b).volume ∧ (w.bk b).volume < args.atmosVolume)) →
        (w'.bk b).volume = (w.bk b).volume) ∧
    (∀ i (hi : i < sel.length) b, dget w.block sel[i] = some b →
        0 < (w.bk b).volume → (w.bk b).volume < args.atmosVolume →
        ∃ row, cols[i]? = some row ∧ MincGroup args vf w.blks.length w' (w.bk b).volume b row) := by
  intro vf sel
  unfold minc at hok
  by_cases h1 : args.fracs.length < 2
  · rw [if_pos h1] at hok; cases hok
  rw [if_neg h1] at hok
  simp only [] at hok
  by_cases h2 : sel.isEmpty = true
  · rw [if_pos h2] at hok; cases hok
  rw [if_neg h2] at hok
  have hnames : ∀ n ∈ sel, ∃ b, dget w.block n = some b ∧ b < w.blks.length ∧
      ∃ i0, dget (blockIndexDict w) n = some i0 ∧ w.blocklist[i0]? = some b := by
    intro n hn
    obtain ⟨b, hb⟩ := Option.isSome_iff_exists.mp (hall n hn)
    have hb' := hI.bd_sound _ _ hb
    obtain ⟨i, hi, hget⟩ := List.getElem_of_mem hb'.1
    have hpos : w.blocklist[i]? = some b := by rw [List.getElem?_eq_getElem hi, hget]
    exact ⟨b, hb, hI.bl_lt b hb'.1, i, by rw [← hb'.2]; exact blockIndexDict_spec hI hpos, hpos⟩
  have hne : w.blocklist ≠ [] := by
    intro e
    cases hs : sel with
    | nil => simp [hs] at h2
    | cons n r =>
      obtain ⟨b, hb, _⟩ := hnames n (by rw [hs]; exact List.mem_cons_self)
      have := (hI.bd_sound _ _ hb).1
      rw [e] at this; cases this
  have hiblk : w.blocklist.length - 1 + 1 = w.blocklist.length := by
    have : 0 < w.blocklist.length := List.length_pos_iff.mpr hne
    omega
  obtain ⟨c1, _, _, _, _, c6, newcols, c7, c8, c9⟩ :=
    mincBlocks_spec args vf (blockIndexDict w) w.blks.length sel w _ [] w' cols hI (Nat.le_refl _) hnd hnames hiblk hok
  simp only [List.nil_append] at c7
  subst c7
  refine ⟨c1, c8, fun x hx => (c6 x hx).1, ?_, ?_⟩
  · intro b hb hcase
    apply (c6 b (hI.bl_lt b hb)).2
    intro n hn hd
    have := (hI.bd_sound _ _ hd).2
    rcases hcase with h | h
    · exact absurd (this ▸ hn) h
    · exact h
  · intro i hi b hd hpos hlt
    obtain ⟨row, hrow, hrest⟩ := c9 i hi b hd
    rw [if_pos ⟨hpos, hlt⟩] at hrest
    exact ⟨row, hrow, hrest⟩

/-- the continua of one processed block add up to its original volume -/
theorem _root_.Model.Grid.MincGroup.total {args : MincArgs} {fracs : List Rat} {N0 : Nat} {w' : World} {V : Rat} {b : Nat} {row : List Nat}
    (h : MincGroup args (normFracs fracs) N0 w' V b row) (hne : fracs ≠ []) (hs : sumRat fracs ≠ 0) :
    ∃ base, (w'.bk b).volume +
      sumRat ((List.range ((normFracs fracs).drop 1).length).map fun k => (w'.bk (base + k)).volume) = V := by
  obtain ⟨base, cbase, pos0, p, _, _, _, h4, h5, _⟩ := h
  refine ⟨base, ?_⟩
  have hl : (List.range ((normFracs fracs).drop 1).length).map (fun k => (w'.bk (base + k)).volume) =
      ((normFracs fracs).drop 1).map (V * ·) := by
    apply List.ext_getElem
    · simp
    · intro k hk1 hk2
      simp only [List.getElem_map, List.getElem_range]
      simp only [List.length_map, List.length_range] at hk1
      exact h5 k hk1
  rw [hl, h4, sumRat_map_mul]
  have hne' : normFracs fracs ≠ [] := by
    unfold normFracs; intro hh; exact hne (List.map_eq_nil_iff.mp hh)
  have e1 := headD_add_sum_drop (normFracs fracs) hne'
  have e2 := sumRat_normFracs fracs hs
  rw [e2] at e1
  grind

end Proofs.Grid
