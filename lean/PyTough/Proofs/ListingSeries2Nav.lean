/-
  Every navigation action is `index = k` for an index `k` the action computes (Model/ListingNav.lean): first → 0,
  last → n-1, next → i+1, prev → i-1, index = j → j (j + n when negative), time = t / step = s → the nearest-selection
  index, spelled out (`NearestSel`).  next at the last and prev at the first index report False and change nothing.
  Core Lean only.
-/
import PyTough.Model.ListingNav
import PyTough.Proofs.ListingNav
namespace Proofs.Series2Nav
open Py Model.Nav Proofs.Nav

variable {V E T : Type}

/-- **What `set_time(t)` / `set_step(s)` select**, as a non-negative index `k` into the result values `vals`
    (`fulltimes` / `fullsteps`):
    * `t` below the first value: `k = 0`;
    * otherwise `t` above the last value: `k = len - 1` (the code assigns `-1`);
    * otherwise `k` is the FIRST index whose value is at minimal distance from `t` (`numpy.argmin(abs(vals - t))`):
      no value is strictly nearer, and every earlier value is strictly farther. -/
def NearestSel (lt : T → T → Bool) (dist : T → T → T) (vals : List T) (t : T) (k : Nat) : Prop :=
  ∃ v0 vl, vals[0]? = some v0 ∧ vals[vals.length - 1]? = some vl ∧
    ((lt t v0 = true ∧ k = 0) ∨
     (lt t v0 = false ∧ lt vl t = true ∧ k = vals.length - 1) ∨
     (lt t v0 = false ∧ lt vl t = false ∧ ∃ vk, vals[k]? = some vk ∧
        (∀ (j : Nat) (vj : T), vals[j]? = some vj → lt (dist vj t) (dist vk t) = false) ∧
        (∀ (j : Nat) (vj : T), j < k → vals[j]? = some vj → lt (dist vk t) (dist vj t) = true)))

/-- **The index `k` (0 ≤ k < n) an action computes** from the current index `i`, the number `n` of results and the
    result times / steps.  (`next` at the last index, `prev` at the first and `history` compute none.) -/
def ActionIndex (lt : T → T → Bool) (dist : T → T → T) (times : List T) (steps : List Int) (n : Nat) (i : Int) :
    Op T → Nat → Prop
  | .first, k => k = 0
  | .last, k => k + 1 = n
  | .next, k => i + 1 < n ∧ (k : Int) = i + 1
  | .prev, k => 0 < i ∧ (k : Int) = i - 1
  | .index j, k => (0 ≤ j ∧ (k : Int) = j) ∨ (j < 0 ∧ (k : Int) = j + n)
  | .time t, k => NearestSel lt dist times t k
  | .step x, k => NearestSel (fun a b => decide (a < b)) distInt steps x k
  | .history, _ => False

/-- the index `nearestIndex` returns (possibly `-1`), normalised, is the nearest-selection index -/
theorem nearestIndex_sel (lt : T → T → Bool) (dist : T → T → T) (hlt : StrictWeak lt) (vals : List T) (t : T) (i : Int)
    (h : nearestIndex lt dist vals t = some i) :
    NearestSel lt dist vals t (if i < 0 then i + (vals.length : Int) else i).toNat := by
  unfold nearestIndex at h
  split at h
  · rename_i v0 vl hhead hvl
    have h0 : vals[0]? = some v0 := by rw [← head?_eq_getElem?]; exact hhead
    have hl : vals[vals.length - 1]? = some vl := by rw [← getLast?_eq_getElem?]; exact hvl
    have hpos : 0 < vals.length := by
      rcases Nat.eq_zero_or_pos vals.length with h1 | h1
      · rw [List.getElem?_eq_none (by omega)] at h0; cases h0
      · exact h1
    split at h
    · rename_i hlow
      injection h with h; subst h
      exact ⟨v0, vl, h0, hl, Or.inl ⟨hlow, by simp⟩⟩
    · rename_i hlow
      have hlow' : lt t v0 = false := by cases hx : lt t v0 <;> simp_all
      split at h
      · rename_i hhigh
        injection h with h; subst h
        refine ⟨v0, vl, h0, hl, Or.inr (Or.inl ⟨hlow', hhigh, ?_⟩)⟩
        have : ((-1 : Int) < 0) := by omega
        rw [if_pos this]; omega
      · rename_i hhigh
        have hhigh' : lt vl t = false := by cases hx : lt vl t <;> simp_all
        injection h with h; subst h
        have hne : vals.map (fun v => dist v t) ≠ [] := by
          intro hc
          have : (vals.map (fun v => dist v t)).length = 0 := by rw [hc]; rfl
          rw [List.length_map] at this; omega
        obtain ⟨dj, hdj, hmin, hfirst⟩ := argmin_spec lt hlt _ hne
        generalize argmin lt (vals.map fun v => dist v t) = a at hdj hfirst ⊢
        have ha : a < vals.length := by
          rcases Nat.lt_or_ge a vals.length with h1 | h1
          · exact h1
          · rw [List.getElem?_eq_none (by simpa using h1)] at hdj; cases hdj
        have hnorm : (if (a : Int) < 0 then (a : Int) + (vals.length : Int) else (a : Int)).toNat = a := by split <;> omega
        rw [hnorm]
        have hdj' : dj = dist vals[a] t := by
          rw [List.getElem?_map, List.getElem?_eq_getElem ha] at hdj; simp at hdj; exact hdj.symm
        refine ⟨v0, vl, h0, hl, Or.inr (Or.inr ⟨hlow', hhigh', vals[a], List.getElem?_eq_getElem ha, ?_, ?_⟩)⟩
        · intro j vj hj
          rw [← hdj']
          apply hmin j
          rw [List.getElem?_map, hj]; rfl
        · intro j vj hja hj
          rw [← hdj']
          apply hfirst j _ hja
          rw [List.getElem?_map, hj]; rfl
  · cases h

/-- a successful `index = i` is `index = k` for the normalised `k`, which is `load k` -/
theorem setIndex_norm {N : Nav V E} {i : Int} {v s : V} (h : setIndex N i v = .ok s) :
    ∃ k : Nat, k < N.n ∧ (k : Int) = (if i < 0 then i + (N.n : Int) else i) ∧
      setIndex N (k : Int) v = .ok s ∧ N.load k v = .ok s := by
  obtain ⟨h1, h2, h3⟩ := setIndex_ok h
  refine ⟨(if i < 0 then i + (N.n : Int) else i).toNat, by split <;> omega, by split <;> omega, ?_, h3⟩
  generalize hk : (if i < 0 then i + (N.n : Int) else i).toNat = k at h3 ⊢
  have hkn : k < N.n := by rw [← hk]; split <;> omega
  unfold setIndex
  simp only
  rw [if_neg (by omega)]
  have : (if (k : Int) < 0 then (k : Int) + (N.n : Int) else (k : Int)).toNat = k := by split <;> omega
  rw [this]; exact h3

theorem map_true_ok {x : Except E V} {b : Bool} {s : V} (hx : ((fun v' => (true, v')) <$> x) = .ok (b, s)) :
    b = true ∧ x = .ok s := by
  cases x with
  | error e => cases hx
  | ok a => injection hx with hx; injection hx with h1 h2; subst h1; subst h2; exact ⟨rfl, rfl⟩

/-- **Every action is `index = k`.**  For any reader `N` showing an index in range: a successful action either is `next` at
    the last index / `prev` at the first (reports False, state unchanged), or a returning `history` (state unchanged), or leaves
    exactly the state that `index = k` leaves, for the `k < n` the action computes (`ActionIndex`) — and that is `load k`. -/
theorem action_is_set_index (N : Nav V E) (lt : T → T → Bool) (dist : T → T → T) (hlt : StrictWeak lt)
    (times : List T) (steps : List Int) (hnt : times.length = N.n) (hns : steps.length = N.n)
    (op : Op T) (v s : V) (b : Bool) (hv : 0 ≤ N.idx v ∧ N.idx v < N.n)
    (h : apply N lt dist times steps op v = .ok (b, s)) :
    (b = false ∧ s = v ∧ ((op = .next ∧ N.idx v = (N.n : Int) - 1) ∨ (op = .prev ∧ N.idx v = 0))) ∨
    (b = true ∧ s = v ∧ op = .history) ∨
    (b = true ∧ ∃ k : Nat, k < N.n ∧ ActionIndex lt dist times steps N.n (N.idx v) op k ∧
      setIndex N (k : Int) v = .ok s ∧ N.load k v = .ok s) := by
  cases op with
  | first =>
    obtain ⟨hb, hx⟩ := map_true_ok h
    obtain ⟨k, hk, hki, hs, hload⟩ := setIndex_norm hx
    refine .inr (.inr ⟨hb, k, hk, ?_, hs, hload⟩)
    simp only [ActionIndex]; simp at hki; omega
  | last =>
    obtain ⟨hb, hx⟩ := map_true_ok h
    obtain ⟨k, hk, hki, hs, hload⟩ := setIndex_norm hx
    refine .inr (.inr ⟨hb, k, hk, ?_, hs, hload⟩)
    simp only [ActionIndex]
    have : ((-1 : Int) < 0) := by omega
    rw [if_pos this] at hki; omega
  | index j =>
    obtain ⟨hb, hx⟩ := map_true_ok h
    obtain ⟨k, hk, hki, hs, hload⟩ := setIndex_norm hx
    refine .inr (.inr ⟨hb, k, hk, ?_, hs, hload⟩)
    simp only [ActionIndex]
    split at hki
    · exact .inr ⟨by omega, hki⟩
    · exact .inl ⟨by omega, hki⟩
  | next =>
    simp only [apply, next] at h
    split at h
    · rename_i hlt'
      obtain ⟨hb, hx⟩ := map_true_ok h
      obtain ⟨k, hk, hki, hs, hload⟩ := setIndex_norm hx
      refine .inr (.inr ⟨hb, k, hk, ?_, ?_, hload⟩)
      · simp only [ActionIndex]
        rw [if_neg (by omega)] at hki
        exact ⟨by omega, hki⟩
      · rw [if_neg (by omega)] at hki
        rw [hki]; exact hx
    · rename_i hge
      injection h with h; injection h with h1 h2
      exact .inl ⟨h1.symm, h2.symm, .inl ⟨rfl, by omega⟩⟩
  | prev =>
    simp only [apply, prev] at h
    split at h
    · rename_i hgt
      obtain ⟨hb, hx⟩ := map_true_ok h
      obtain ⟨k, hk, hki, hs, hload⟩ := setIndex_norm hx
      refine .inr (.inr ⟨hb, k, hk, ?_, ?_, hload⟩)
      · simp only [ActionIndex]
        rw [if_neg (by omega)] at hki
        exact ⟨by omega, hki⟩
      · rw [if_neg (by omega)] at hki
        rw [hki]; exact hx
    · rename_i hle
      injection h with h; injection h with h1 h2
      exact .inl ⟨h1.symm, h2.symm, .inr ⟨rfl, by omega⟩⟩
  | time t =>
    simp only [apply, setNearest] at h
    split at h
    · rename_i i hi
      obtain ⟨hb, hx⟩ := map_true_ok h
      obtain ⟨k, hk, hki, hs, hload⟩ := setIndex_norm hx
      refine .inr (.inr ⟨hb, k, hk, ?_, hs, hload⟩)
      simp only [ActionIndex]
      have := nearestIndex_sel lt dist hlt times t i hi
      rw [hnt, ← hki] at this
      simpa using this
    · obtain ⟨_, hx⟩ := map_true_ok h; cases hx
  | step x =>
    simp only [apply, setNearest] at h
    split at h
    · rename_i i hi
      obtain ⟨hb, hx⟩ := map_true_ok h
      obtain ⟨k, hk, hki, hs, hload⟩ := setIndex_norm hx
      refine .inr (.inr ⟨hb, k, hk, ?_, hs, hload⟩)
      simp only [ActionIndex]
      have := nearestIndex_sel _ distInt nearestOrder_int.sw steps x i hi
      rw [hns, ← hki] at this
      simpa using this
    · obtain ⟨_, hx⟩ := map_true_ok h; cases hx
  | history =>
    simp only [apply] at h
    injection h with h; injection h with h1 h2
    exact .inr (.inl ⟨h1.symm, h2.symm, rfl⟩)

/-- `next()` at (or beyond) the last index returns False and changes nothing -/
theorem next_at_last (N : Nav V E) (v : V) (h : N.idx v ≥ (N.n : Int) - 1) : next N v = .ok (false, v) := by
  unfold next; rw [if_neg (by omega)]

/-- `prev()` at (or before) the first index returns False and changes nothing -/
theorem prev_at_first (N : Nav V E) (v : V) (h : N.idx v ≤ 0) : prev N v = .ok (false, v) := by
  unfold prev; rw [if_neg (by omega)]

end Proofs.Series2Nav
