/-
  C03 proofs, part 11: rounding is idempotent, so writing the re-read geometry reproduces the file.
-/
import PyTough.Proofs.GeoFileRead
namespace Proofs.GeoFile
open Py Model Model.GeoFile Proofs

/-! ### a decimal with `p` places prints as itself -/

theorem roundHalfEven_exact (M d : Nat) (hd : 0 < d) : roundHalfEven (M * d) d = M := by
  unfold roundHalfEven
  simp only [Nat.mul_div_cancel _ hd, Nat.mul_mod_left]
  rw [if_pos (by omega)]

/-- numerator and denominator of the reduced fraction `±M / 10^p` -/
theorem mkRat_parts (a : Int) (b : Nat) (hb : b ≠ 0) :
    ∃ m : Nat, m ≠ 0 ∧ a = (mkRat a b).num * m ∧ b = (mkRat a b).den * m := by
  have h : mkRat a b = ⟨(mkRat a b).num, (mkRat a b).den, (mkRat a b).den_nz, (mkRat a b).reduced⟩ := rfl
  exact Rat.mkRat_num_den hb h

theorem scale10_neg (a : Int) (p : Nat) (hp : 0 < p) : scale10 a (-(p : Int)) = mkRat a (10 ^ p) := by
  unfold scale10
  rw [if_neg (by omega)]
  simp

theorem scale10_eq (a : Int) (p : Nat) (hp : 0 < p) : scale10 a (-(p : Int)) = mkRat a (10 ^ p) := scale10_neg a p hp

theorem rat_neg_iff (r : Rat) : r < 0 ↔ r.num < 0 := by
  rw [Rat.lt_iff]
  simp

/-- the three things `'%.pf'` looks at, for the value `±M·10^-p` with `M ≠ 0` -/
theorem dec_parts (neg : Bool) (M p : Nat) (hp : 0 < p) (hM : M ≠ 0) :
    let r := scale10 (if neg then -(M : Int) else (M : Int)) (-(p : Int))
    decide (r < 0) = neg ∧ roundHalfEven (r.num.natAbs * 10 ^ p) r.den = M := by
  intro r
  have hr : r = mkRat (if neg then -(M : Int) else (M : Int)) (10 ^ p) := scale10_eq _ _ hp
  have h10 : (10 ^ p : Nat) ≠ 0 := by have := pow10_pos p; omega
  obtain ⟨m, hm0, ha, hb⟩ := mkRat_parts (if neg then -(M : Int) else (M : Int)) (10 ^ p) h10
  rw [← hr] at ha hb
  have hmpos : (0 : Int) < m := by omega
  have hMpos : (0 : Int) < M := by omega
  constructor
  · cases neg with
    | true =>
      simp only [if_true] at ha
      apply decide_eq_true
      rw [rat_neg_iff]
      by_cases h : r.num < 0
      · exact h
      · have : 0 ≤ r.num * (m : Int) := Int.mul_nonneg (by omega) (by omega)
        omega
    | false =>
      simp only [Bool.false_eq_true, if_false] at ha
      apply decide_eq_false
      rw [rat_neg_iff]
      intro hlt
      have : r.num * (m : Int) < 0 := Int.mul_neg_of_neg_of_pos hlt hmpos
      omega
  · have habs : M = r.num.natAbs * m := by
      have := congrArg Int.natAbs ha
      cases neg
      · simpa [Int.natAbs_mul] using this
      · simpa [Int.natAbs_mul] using this
    have e : r.num.natAbs * 10 ^ p = M * r.den := by
      rw [hb, habs]
      simp only [Nat.mul_assoc, Nat.mul_comm, Nat.mul_left_comm]
    rw [e]
    exact roundHalfEven_exact M r.den r.den_pos

/-- sign and rounded digits of `roundF p y` are those of `y` -/
theorem roundF_parts (p : Nat) (hp : 0 < p) (y : Flt) :
    (roundF p y).isNeg = y.isNeg ∧
    roundHalfEven ((roundF p y).absNum * 10 ^ p) (roundF p y).den = roundHalfEven (y.absNum * 10 ^ p) y.den := by
  unfold roundF ofDec
  by_cases hm : roundHalfEven (y.absNum * 10 ^ p) y.den = 0
  · rw [if_pos hm, hm]
    cases hn : y.isNeg with
    | true =>
      refine ⟨rfl, ?_⟩
      show roundHalfEven (0 * 10 ^ p) 1 = 0
      simp [roundHalfEven]
    | false =>
      refine ⟨by decide, ?_⟩
      show roundHalfEven (0 * 10 ^ p) 1 = 0
      simp [roundHalfEven]
  · rw [if_neg hm]
    exact dec_parts y.isNeg _ p hp hm

theorem textF_roundF (w p : Nat) (hp : 0 < p) (y : Flt) : textF w p (roundF p y) = textF w p y := by
  unfold textF fmtFBody
  obtain ⟨h1, h2⟩ := roundF_parts p hp y
  rw [h1, h2]

theorem roundF_idem (p : Nat) (hp : 0 < p) (y : Flt) : roundF p (roundF p y) = roundF p y := by
  obtain ⟨h1, h2⟩ := roundF_parts p hp y
  have : roundF p (roundF p y) = ofDec (roundF p y).isNeg
      (roundHalfEven ((roundF p y).absNum * 10 ^ p) (roundF p y).den) (-(p : Int)) := rfl
  rw [this, h1, h2]
  rfl

/-- the written field is the same for a value and for its rounded form -/
theorem writeField_roundF {p : Nat} (hp : 0 < p) {y : Flt} (h : fitsB (fF p) y.toVal = true) :
    writeField (fF p) (roundF p y).toVal = writeField (fF p) y.toVal ∧ fitsB (fF p) (roundF p y).toVal = true := by
  have h1 := fieldRT_f p y h
  have hf : fmtVal (fF p) (roundF p y).toVal = .ok (textF 10 p y) := by
    rw [fmtVal_f_flt (f := fF p) rfl, ← textF_roundF 10 p hp y]
    rfl
  have hl : (textF 10 p y).length ≤ (fF p).width := by rw [h1.len]; exact Nat.le_refl _
  constructor
  · rw [h1.w]
    exact writeField_of_fits (toVal_ne_none _) (by simp [fF]) hf hl
  · unfold fitsB
    rw [hf]
    simpa using hl

theorem unitScale_cases {u : Str} {s : Rat} (h : unitScale u = .ok s) :
    (u = [] ∧ s = 1) ∨ (u = feet ∧ s = mkRat 381 1250) := by
  unfold unitScale at h
  simp only [Gen.GeoTables.unitScale, List.find?_cons, List.find?_nil] at h
  by_cases h1 : u = []
  · subst h1
    simp only [decide_true] at h
    cases h
    exact Or.inl ⟨rfl, by decide⟩
  · have e1 : decide (([] : List Char) = u) = false := by simpa using h1
    simp only [e1] at h
    by_cases h2 : u = feet
    · subst h2
      have e2 : decide (['F', 'E', 'E', 'T', ' '] = feet) = true := by decide
      simp only [e2] at h
      cases h
      exact Or.inr ⟨rfl, rfl⟩
    · have e2 : decide (['F', 'E', 'E', 'T', ' '] = u) = false := by simpa [feet, eq_comm] using h2
      simp only [e2] at h
      cases h

theorem scale_ne_zero {u : Str} {s : Rat} (h : unitScale u = .ok s) : s ≠ 0 := by
  rcases unitScale_cases h with ⟨_, rfl⟩ | ⟨_, rfl⟩ <;> decide

theorem mul_div_flt (x : Flt) {s : Rat} (hs : s ≠ 0) : (x.mul s).div s = x := by
  cases x with
  | q r => simp only [Flt.mul, Flt.div]; rw [Rat.mul_div_cancel hs]
  | negZero => rfl

theorem canonC_div (p : Nat) {s : Rat} (hs : s ≠ 0) (x : Flt) : (canonC p s x).div s = roundF p (x.div s) :=
  mul_div_flt _ hs

theorem canonC_idem (p : Nat) (hp : 0 < p) {s : Rat} (hs : s ≠ 0) (x : Flt) : canonC p s (canonC p s x) = canonC p s x := by
  unfold canonC
  rw [mul_div_flt _ hs, roundF_idem p hp]

/-- **key**: a coordinate and its canonical form are written identically -/
theorem writeField_canonC {p : Nat} (hp : 0 < p) {s : Rat} (hs : s ≠ 0) {x : Flt} (h : fitsC p s x = true) :
    writeField (fF p) ((canonC p s x).div s).toVal = writeField (fF p) (x.div s).toVal := by
  rw [canonC_div p hs]
  exact (writeField_roundF hp h).1

theorem fitsC_canonC {p : Nat} (hp : 0 < p) {s : Rat} (hs : s ≠ 0) {x : Flt} (h : fitsC p s x = true) :
    fitsC p s (canonC p s x) = true := by
  unfold fitsC
  rw [canonC_div p hs]
  exact (writeField_roundF hp h).2

/-! ### the two writes agree line by line -/

theorem mapM_congr' {α β : Type} {f g : α → Except Exc β} : ∀ (l : List α), (∀ a ∈ l, f a = g a) → l.mapM f = l.mapM g := by
  intro l
  induction l with
  | nil => intro _; rfl
  | cons a r ih =>
    intro h
    rw [List.mapM_cons, List.mapM_cons, h a (by simp), ih (fun x hx => h x (List.mem_cons_of_mem _ hx))]

theorem mapM_map' {α β γ : Type} (h : α → β) (f : β → Except Exc γ) : ∀ (l : List α), (l.map h).mapM f = l.mapM (fun a => f (h a)) := by
  intro l
  induction l with
  | nil => rfl
  | cons a r ih => rw [List.map_cons, List.mapM_cons, List.mapM_cons, ih]

/-- records whose fields are written identically are written identically -/
theorem writeValues_congr : ∀ (l : List (FieldSpec × Val × Val)), (∀ t ∈ l, writeField t.1 t.2.1 = writeField t.1 t.2.2) →
    writeValues (l.map (·.1)) (l.map (·.2.1)) = writeValues (l.map (·.1)) (l.map (·.2.2)) := by
  intro l h
  unfold writeValues
  have : ((l.map (·.2.1)).zip (l.map (·.1))).mapM (fun x => match x with | (v, f) => writeField f v)
      = ((l.map (·.2.2)).zip (l.map (·.1))).mapM (fun x => match x with | (v, f) => writeField f v) := by
    induction l with
    | nil => rfl
    | cons t r ih =>
      simp only [List.map_cons, List.zip_cons_cons, List.mapM_cons]
      rw [h t (by simp), ih (fun x hx => h x (List.mem_cons_of_mem _ hx))]
  rw [this]

theorem lineOf_congr (l : List (FieldSpec × Val × Val)) (h : ∀ t ∈ l, writeField t.1 t.2.1 = writeField t.1 t.2.2) :
    lineOf (l.map (·.1)) (l.map (·.2.1)) = lineOf (l.map (·.1)) (l.map (·.2.2)) := by
  unfold lineOf
  rw [writeValues_congr l h]

theorem nodeLine_canon {L : Nat} {s : Rat} (hs : s ≠ 0) {n : GNode} (h : NodeOK L s n) :
    nodeLine SP s (canonNode s n) = nodeLine SP s n := by
  have := lineOf_congr [(fS 3, .str (ljust n.name 3), .str (ljust n.name 3)),
      (fF 2, ((canonC 2 s n.x).div s).toVal, (n.x.div s).toVal),
      (fF 2, ((canonC 2 s n.y).div s).toVal, (n.y.div s).toVal)] (by
    intro t ht
    simp only [List.mem_cons, List.not_mem_nil, or_false] at ht
    rcases ht with rfl | rfl | rfl
    · rfl
    · exact writeField_canonC (by decide) hs h.x
    · exact writeField_canonC (by decide) hs h.y)
  exact this

theorem layerLine_canon {LL : Nat} {s : Rat} (hs : s ≠ 0) {l : GLayer} (h : LayerOK LL s l) (t : Flt) :
    layerLine SP s { canonLayer s l with top := t } = layerLine SP s l := by
  have := lineOf_congr [(fS 3, .str (ljust l.name 3), .str (ljust l.name 3)),
      (fF 2, ((canonC 2 s l.bottom).div s).toVal, (l.bottom.div s).toVal),
      (fF 2, ((canonC 2 s l.centre).div s).toVal, (l.centre.div s).toVal)] (by
    intro t ht
    simp only [List.mem_cons, List.not_mem_nil, or_false] at ht
    rcases ht with rfl | rfl | rfl
    · rfl
    · exact writeField_canonC (by decide) hs h.b
    · exact writeField_canonC (by decide) hs h.c)
  exact this

theorem writeField_rjust5 {name : Str} (hn : name.length ≤ 5) :
    writeField (fS 5) (.str (rjust name 5)) = writeField (fS 5) (.str name) := by
  have h1 : fmtVal (fS 5) (.str name) = .ok (rjust name 5) := by rw [fmtVal_s_str (f := fS 5) rfl]; rfl
  have hl : (rjust name 5).length = 5 := by unfold rjust; simp; omega
  have h2 : fmtVal (fS 5) (.str (rjust name 5)) = .ok (rjust name 5) := by
    rw [fmtVal_s_str (f := fS 5) rfl]
    simp [fS, strTrunc, pad, rjust, hl]
    omega
  rw [writeField_of_fits (by simp) (by simp [fS]) h1 (by rw [hl]; exact Nat.le_refl _),
    writeField_of_fits (by simp) (by simp [fS]) h2 (by rw [hl]; exact Nat.le_refl _)]

theorem wellLine_canon {s : Rat} (hs : s ≠ 0) {name : Str} (hn : name.length ≤ 5) {p : Flt × Flt × Flt} (h : PosOK s p) :
    wellLine SP s (rjust name 5) (canonPos s p) = wellLine SP s name p := by
  have := lineOf_congr [(fS 5, .str (rjust name 5), .str name),
      (fF 1, ((canonC 1 s p.1).div s).toVal, (p.1.div s).toVal),
      (fF 1, ((canonC 1 s p.2.1).div s).toVal, (p.2.1.div s).toVal),
      (fF 1, ((canonC 1 s p.2.2).div s).toVal, (p.2.2.div s).toVal)] (by
    intro t ht
    simp only [List.mem_cons, List.not_mem_nil, or_false] at ht
    rcases ht with rfl | rfl | rfl | rfl
    · exact writeField_rjust5 hn
    · exact writeField_canonC (by decide) hs h.x
    · exact writeField_canonC (by decide) hs h.y
    · exact writeField_canonC (by decide) hs h.z)
  exact this

theorem surfaceLine_canon {s : Rat} (hs : s ≠ 0) (nodes' : List GNode) (layers' : List GLayer) {c : GColumn}
    (hd : c.defaultSurface = false) {z : Flt} (hz : c.surface = some z) (hf : fitsC 2 s z = true) :
    surfaceLine SP s (canonColumn s nodes' layers' c) = surfaceLine SP s c := by
  have h1 : (canonColumn s nodes' layers' c).surface = some (canonC 2 s z) := by
    unfold canonColumn; simp [hd, hz]
  have h2 : (canonColumn s nodes' layers' c).name = c.name := rfl
  unfold surfaceLine
  rw [h1, hz, h2]
  have := lineOf_congr [(fS 3, .str (ljust c.name 3), .str (ljust c.name 3)),
      (fF 2, ((canonC 2 s z).div s).toVal, (z.div s).toVal)] (by
    intro t ht
    simp only [List.mem_cons, List.not_mem_nil, or_false] at ht
    rcases ht with rfl | rfl
    · rfl
    · exact writeField_canonC (by decide) hs hf)
  exact this

theorem columnLines_canon {L : Nat} {s : Rat} (hs : s ≠ 0) (nodes' nodes'' : List GNode) (layers' : List GLayer) {c : GColumn}
    (h : ColOK L s nodes'' c) :
    columnLines SP s (canonColumn s nodes' layers' c) = columnLines SP s c := by
  have hn : (canonColumn s nodes' layers' c).name = c.name := rfl
  have hnodes : (canonColumn s nodes' layers' c).nodes = c.nodes := rfl
  have hcs : (canonColumn s nodes' layers' c).centreSpecified = c.centreSpecified := rfl
  unfold columnLines
  rw [hn, hnodes, hcs]
  rcases h.centre with h0 | ⟨h1, x, y, hc, hx, hy⟩
  · simp only [h0, bne_self_eq_false, Bool.false_eq_true, if_false]
  · have hb : ((1 : Int) != 0) = true := by decide
    have hcen : (canonColumn s nodes' layers' c).centre = .at (canonC 2 s x) (canonC 2 s y) := by
      unfold canonColumn; simp [h1, hc]
    simp only [h1, hb, if_true, hcen, hc, bind, Except.bind, pure, Except.pure]
    have := lineOf_congr [(fS 3, .str (ljust c.name 3), .str (ljust c.name 3)), (fD 1, .int 1, .int 1),
        (fD 2, .int c.nodes.length, .int c.nodes.length),
        (fF 2, ((canonC 2 s x).div s).toVal, (x.div s).toVal),
        (fF 2, ((canonC 2 s y).div s).toVal, (y.div s).toVal)] (by
      intro t ht
      simp only [List.mem_cons, List.not_mem_nil, or_false] at ht
      rcases ht with rfl | rfl | rfl | rfl | rfl
      · rfl
      · rfl
      · rfl
      · exact writeField_canonC (by decide) hs hx
      · exact writeField_canonC (by decide) hs hy)
    have e : lineOf SP.column ([Val.str (ljust c.name 3), Val.int 1, Val.int ↑c.nodes.length] ++
        [((canonC 2 s x).div s).toVal, ((canonC 2 s y).div s).toVal])
        = lineOf SP.column ([Val.str (ljust c.name 3), Val.int 1, Val.int ↑c.nodes.length] ++
        [(x.div s).toVal, (y.div s).toVal]) := this
    rw [e]

end Proofs.GeoFile
