/-
  Lemmas about `fix_blockname` / `unfix_blockname` on five-character names (C17).
-/
import PyTough.Model.Names
import PyTough.Proofs.StrLemmas
set_option linter.unusedSimpArgs false
namespace Proofs.Names
open Py Model.Names

/-- closed form of `fix_blockname` on a five-character name -/
theorem fix5 (a b c d e : Char) :
    fixBlockname [a, b, c, d, e] =
      .ok (if isDigit c = true ∧ isDigit e = true ∧ d = ' ' then [a, b, c, '0', e] else [a, b, c, d, e]) := by
  by_cases hc : isDigit c = true <;> by_cases he : isDigit e = true <;> by_cases hd : d = ' ' <;>
    simp [fixBlockname, getIdx, slice, hc, he, hd]

/-- `"%2d" % int(de)` for two digits -/
theorem fmt_two_digits {d e : Char} (hd : isDigit d = true) (he : isDigit e = true) :
    rjust (natStr (digitsVal [d, e])) 2 = if d = '0' then [' ', e] else [d, e] := by
  refine Py.isDigit_elim hd (P := fun d => rjust (natStr (digitsVal [d, e])) 2 = if d = '0' then [' ', e] else [d, e]) ?_
  refine Py.isDigit_elim he (P := fun e => ∀ d ∈ ['0','1','2','3','4','5','6','7','8','9'],
      rjust (natStr (digitsVal [d, e])) 2 = if d = '0' then [' ', e] else [d, e]) ?_
  decide

theorem fmt_one_digit {e : Char} (he : isDigit e = true) :
    rjust (natStr (digitsVal [e])) 2 = [' ', e] := by
  refine Py.isDigit_elim he (P := fun e => rjust (natStr (digitsVal [e])) 2 = [' ', e]) ?_
  decide

/-- closed form of `unfix_blockname` on a five-character name: only a name ending in `0` + digit changes -/
theorem unfix5 (a b c d e : Char) :
    unfixBlockname [a, b, c, d, e] =
      if d = '0' ∧ isDigit e = true then [a, b, c, ' ', e] else [a, b, c, d, e] := by
  have hs3 : slice [a, b, c, d, e] 3 5 = [d, e] := rfl
  have hs0 : rjust (slice [a, b, c, d, e] 0 3) 3 = [a, b, c] := rfl
  unfold unfixBlockname
  simp only [hs3, hs0]
  by_cases hd : isDigit d = true <;> by_cases he : isDigit e = true
  · have hsd : strIsDigit [d, e] = true := by simp [strIsDigit, hd, he]
    rw [if_pos hsd, fmt_two_digits hd he]
    by_cases h0 : d = '0' <;> simp [h0, he]
  · have hsd : strIsDigit [d, e] = false := by simp [strIsDigit, hd, he]
    simp [hsd, he]
  · have h0 : d ≠ '0' := by rintro rfl; exact hd (by decide)
    have hsd : strIsDigit [d, e] = false := by simp [strIsDigit, hd, he]
    simp [hsd, h0]
  · have h0 : d ≠ '0' := by rintro rfl; exact hd (by decide)
    have hsd : strIsDigit [d, e] = false := by simp [strIsDigit, hd, he]
    simp [hsd, h0]

theorem len5 {n : Str} (h : n.length = 5) : ∃ a b c d e, n = [a, b, c, d, e] := by
  match n, h with
  | [a, b, c, d, e], _ => exact ⟨a, b, c, d, e, rfl⟩


theorem fix_idem5 (a b c d e : Char) :
    ∃ m, fixBlockname [a, b, c, d, e] = .ok m ∧ fixBlockname m = .ok m ∧ m.length = 5 := by
  rw [fix5]
  by_cases h : isDigit c = true ∧ isDigit e = true ∧ d = ' '
  · refine ⟨[a, b, c, '0', e], by simp [h], ?_, rfl⟩
    rw [fix5]; simp
  · refine ⟨[a, b, c, d, e], by simp [h], ?_, rfl⟩
    rw [fix5]; simp [h]

/-- one write (`unfix`) / read (`fix`) cycle reaches a fixed point of the cycle, and the written
    form is already stable -/
theorem cycle5 (a b c d e : Char) :
    ∃ c1, fixBlockname (unfixBlockname [a, b, c, d, e]) = .ok c1 ∧ c1.length = 5 ∧
      fixBlockname (unfixBlockname c1) = .ok c1 ∧
      unfixBlockname c1 = unfixBlockname [a, b, c, d, e] := by
  have hb : isDigit ' ' = false := by decide
  have h0 : isDigit '0' = true := by decide
  have h0b : ('0' : Char) ≠ ' ' := by decide
  have hb0 : (' ' : Char) ≠ '0' := by decide
  rw [unfix5]
  by_cases hd0 : d = '0' <;> by_cases he : isDigit e = true <;> by_cases hc : isDigit c = true <;>
    by_cases hdb : d = ' '
  all_goals first
    | (subst hd0; exact absurd hdb h0b)
    | skip
  all_goals
    simp only [hd0, he, hc, hdb, and_self, and_true, true_and, if_true, if_false, false_and, and_false,
      fix5, unfix5, h0, hb, h0b, hb0, not_true_eq_false, not_false_eq_true, reduceCtorEq]
  all_goals first
    | exact ⟨_, rfl, rfl, by simp [fix5, unfix5, hd0, he, hc, hdb, h0, hb, h0b, hb0], by simp [fix5, unfix5, hd0, he, hc, hdb, h0, hb, h0b, hb0]⟩
    | skip


/-- The text a simulator prints for a name that it holds as (A3, I2): three characters and a
    two-digit integer field.  A five-character name whose last two characters read as an integer
    (two digits, or a blank and a digit) is printed as its first three characters followed by the
    integer right-justified in two columns; any other name is not of that form and is kept. -/
def simForm : Str → Str
  | [a, b, c, d, e] =>
    if isDigit e = true ∧ (isDigit d = true ∨ d = ' ') then
      [a, b, c] ++ rjust (natStr (digitsVal ([d, e].filter (· != ' ')))) 2
    else [a, b, c, d, e]
  | n => n

theorem unfix_simForm5 (a b c d e : Char) : unfixBlockname [a, b, c, d, e] = simForm [a, b, c, d, e] := by
  have hb : isDigit ' ' = false := by decide
  rw [unfix5]
  unfold simForm
  by_cases he : isDigit e = true
  · have hne : e ≠ ' ' := by rintro rfl; rw [hb] at he; cases he
    by_cases hd : isDigit d = true
    · have hnd : d ≠ ' ' := by rintro rfl; rw [hb] at hd; cases hd
      have hf : [d, e].filter (· != ' ') = [d, e] := by simp [hnd, hne]
      simp only [he, hd, true_or, and_self, if_true, hf, fmt_two_digits hd he, and_true]
      by_cases h0 : d = '0' <;> simp [h0]
    · have h0 : d ≠ '0' := by rintro rfl; exact hd (by decide)
      by_cases hdb : d = ' '
      · subst hdb
        have hf : [' ', e].filter (· != ' ') = [e] := by simp [hne]
        simp only [he, hf, fmt_one_digit he, h0]
        simp
      · simp [he, hd, hdb, h0]
  · simp [he]

end Proofs.Names
