/-
  C03 proofs, part 1: the format table, single fields and single records.
  (core Lean only; builds on the record-layer lemmas of C02: Proofs/FixedRecord.lean)
-/
import PyTough.Model.GeoFile
import PyTough.Proofs.FixedRecord
namespace Proofs.GeoFile
open Py Model Model.GeoFile Proofs

/-- **Tie to /repo**: the table regenerated from the current `mulgrid_format_specification`
    (header names included) is the one all theorems below are proved for.  Re-evaluated on every build. -/
theorem specs_eq : specs = .ok SP := by decide

/-! ### one field: text written, its width, value read back -/

/-- field `f` holding `v` is written as `t` (exactly the field's width, no newline) and `t` reads back as `pv` -/
structure FieldRT (f : FieldSpec) (v : Val) (t : Str) (pv : PVal) : Prop where
  w : writeField f v = .ok t
  len : t.length = f.width
  r : ∀ rf, readField rf f.typ t = .ok pv
  nonl : '\n' ∉ t

theorem writeField_of_fits {f : FieldSpec} {v : Val} {s : Str} (hv : v ≠ .none) (hx : f.typ ≠ 'x')
    (hf : fmtVal f v = .ok s) (hl : s.length ≤ f.width) : writeField f v = .ok s := by
  unfold writeField
  rw [if_pos ⟨hv, hx⟩, hf]
  simp only
  rw [if_neg (by omega)]

theorem fitsB_iff {f : FieldSpec} {v : Val} (h : fitsB f v = true) :
    ∃ s, fmtVal f v = .ok s ∧ s.length ≤ f.width := by
  unfold fitsB at h
  cases hf : fmtVal f v with
  | error e => rw [hf] at h; cases h
  | ok s => rw [hf] at h; exact ⟨s, rfl, by simpa using h⟩

/-- the text of `'%w.pf' % x` -/
def textF (w p : Nat) (x : Flt) : Str := pad false w (signChars x.isNeg ++ fmtFBody p x.absNum x.den)
def textE (w p : Nat) (x : Flt) : Str := pad false w (signChars x.isNeg ++ fmtEBody p x.absNum x.den)

theorem Flt.den_pos (x : Flt) : 0 < x.den := by
  cases x with
  | q r => exact r.den_pos
  | negZero => decide

theorem fmtVal_f_flt {f : FieldSpec} (h : f.typ = 'f') (x : Flt) :
    fmtVal f x.toVal = .ok (pad f.left f.width (signChars x.isNeg ++ fmtFBody (f.prec.getD 6) x.absNum x.den)) := by
  cases x with
  | q r => exact fmtVal_f_real h r
  | negZero =>
    unfold fmtVal signChars
    simp [h, Flt.toVal, Flt.isNeg, Flt.absNum, Flt.den]

theorem fmtVal_e_flt {f : FieldSpec} (h : f.typ = 'e') (x : Flt) :
    fmtVal f x.toVal = .ok (pad f.left f.width (signChars x.isNeg ++ fmtEBody (f.prec.getD 6) x.absNum x.den)) := by
  cases x with
  | q r => exact fmtVal_e_real h r
  | negZero =>
    unfold fmtVal signChars
    simp [h, Flt.toVal, Flt.isNeg, Flt.absNum, Flt.den]

theorem toVal_ne_none (x : Flt) : x.toVal ≠ .none := by cases x <;> simp [Flt.toVal]

theorem mem_replicate_blank {k : Nat} {c : Char} (h : c ∈ List.replicate k ' ') : c = ' ' :=
  (List.mem_replicate.mp h).2

theorem pad_no_newline {left : Bool} {w : Nat} {s : Str} (h : '\n' ∉ s) : '\n' ∉ pad left w s := by
  unfold pad ljust rjust
  cases left <;> simp only [Bool.false_eq_true, if_false, if_true, List.mem_append, not_or]
  · exact ⟨fun hc => by have := mem_replicate_blank hc; revert this; decide, h⟩
  · exact ⟨h, fun hc => by have := mem_replicate_blank hc; revert this; decide⟩

theorem digit_ne_newline {c : Char} (h : isDigit c = true) : c ≠ '\n' :=
  isDigit_elim h (P := fun d => d ≠ '\n') (by decide)

theorem signChars_no_newline (neg : Bool) : '\n' ∉ signChars neg := by
  cases neg <;> simp [signChars]

theorem fmtFBody_no_newline (p n d : Nat) : '\n' ∉ fmtFBody p n d := by
  unfold fmtFBody
  intro h
  by_cases hp : p = 0
  · simp only [hp, if_true] at h
    exact digit_ne_newline (natDigits_isDigit _ _ h) rfl
  · simp only [if_neg hp, List.mem_append, List.mem_cons] at h
    rcases h with h | h | h
    · exact digit_ne_newline (natDigits_isDigit _ _ h) rfl
    · revert h; decide
    · exact digit_ne_newline (zfill_isDigit _ _ _ h) rfl

/-- a float in a `%w.pf` field that it fits -/
theorem fieldRT_f (p : Nat) (x : Flt) (h : fitsB (fF p) x.toVal = true) :
    FieldRT (fF p) x.toVal (textF 10 p x) (.flt (.fin x.isNeg (roundHalfEven (x.absNum * 10 ^ p) x.den) (-(p : Int)))) := by
  obtain ⟨s, hs, hl⟩ := fitsB_iff h
  have hf : fmtVal (fF p) x.toVal = .ok (textF 10 p x) := fmtVal_f_flt (f := fF p) rfl x
  rw [hf] at hs; cases hs
  have hlen : (textF 10 p x).length = 10 := pad_of_length_le hl
  refine ⟨writeField_of_fits (toVal_ne_none x) (by simp [fF]) hf hl, hlen, ?_, ?_⟩
  · intro rf; exact read_fText rf false 10 x.isNeg p x.absNum x.den
  · apply pad_no_newline
    simp only [List.mem_append, not_or]
    exact ⟨signChars_no_newline _, fmtFBody_no_newline _ _ _⟩

theorem fmtEBody_no_newline (p n d : Nat) : '\n' ∉ fmtEBody p n d := by
  unfold fmtEBody
  intro h
  simp only [List.mem_append, List.mem_cons, List.not_mem_nil, or_false] at h
  rcases h with (h | h | h) | h
  · -- mantissa
    generalize hz : zfill (p + 1) (fmtEParts p n d).1 = ds at h
    have hd : ∀ c ∈ ds, isDigit c = true := by rw [← hz]; exact zfill_isDigit _ _
    cases ds with
    | nil => simp at h
    | cons c r =>
      simp only at h
      by_cases hp : p = 0
      · simp only [hp, if_true, List.mem_cons, List.not_mem_nil, or_false] at h
        exact digit_ne_newline (hd c (by simp)) h.symm
      · simp only [if_neg hp, List.mem_cons] at h
        rcases h with h | h | h
        · exact digit_ne_newline (hd c (by simp)) h.symm
        · revert h; decide
        · exact digit_ne_newline (hd _ (List.mem_cons_of_mem _ h)) rfl
  · revert h; decide
  · split at h <;> revert h <;> decide
  · exact digit_ne_newline (zfill_isDigit _ _ _ h) rfl

theorem fieldRT_e (x : Flt) (h : fitsB fE x.toVal = true) :
    FieldRT fE x.toVal (textE 10 2 x)
      (.flt (.fin x.isNeg (fmtEParts 2 x.absNum x.den).1 ((fmtEParts 2 x.absNum x.den).2 - 2))) := by
  obtain ⟨s, hs, hl⟩ := fitsB_iff h
  have hf : fmtVal fE x.toVal = .ok (textE 10 2 x) := fmtVal_e_flt (f := fE) rfl x
  rw [hf] at hs; cases hs
  have hlen : (textE 10 2 x).length = 10 := pad_of_length_le hl
  refine ⟨writeField_of_fits (toVal_ne_none x) (by decide) hf hl, hlen, ?_, ?_⟩
  · intro rf; exact read_eText rf false 10 x.isNeg 2 x.absNum x.den (Flt.den_pos x)
  · apply pad_no_newline
    simp only [List.mem_append, not_or]
    exact ⟨signChars_no_newline _, fmtEBody_no_newline _ _ _⟩

/-- an absent value in a numeric field: blanks, read back as nothing -/
theorem fieldRT_none (f : FieldSpec) (ht : f.typ = 'd' ∨ f.typ = 'e' ∨ f.typ = 'f') :
    FieldRT f .none (List.replicate f.width ' ') .none := by
  have h := fun rf => roundtrip_absent rf (f := f) (v := .none) (Or.inl rfl)
  refine ⟨(h .default).1, List.length_replicate .., ?_, ?_⟩
  · intro rf
    exact (h rf).2 (by rcases ht with h | h | h <;> simp [h])
  · intro hc; have := mem_replicate_blank hc; revert this; decide

/-- a small non-negative integer in a `%wd` field -/
theorem fieldRT_d (w : Nat) (i : Int) (h : fitsB (fD w) (.int i) = true) :
    FieldRT (fD w) (.int i) (pad false w (signChars (decide (i < 0)) ++ natDigits i.natAbs)) (.int i) := by
  obtain ⟨s, hs, hl⟩ := fitsB_iff h
  have hf : fmtVal (fD w) (.int i) = .ok (pad false w (signChars (decide (i < 0)) ++ natDigits i.natAbs)) :=
    fmtVal_d_int (f := fD w) rfl i
  rw [hf] at hs; cases hs
  have hw := writeField_of_fits (f := fD w) (v := .int i) (by simp) (by simp [fD]) hf hl
  refine ⟨hw, pad_of_length_le hl, ?_, ?_⟩
  · intro rf; exact roundtrip_d_int rf (f := fD w) rfl i hw
  · apply pad_no_newline
    simp only [List.mem_append, not_or]
    exact ⟨signChars_no_newline _, fun hc => digit_ne_newline (natDigits_isDigit _ _ hc) rfl⟩

/-- a name of exactly the field's width -/
theorem fieldRT_s (w : Nat) (nm : Str) (hl : nm.length = w) (hn : '\n' ∉ nm) :
    FieldRT (fS w) (.str nm) nm (.str nm) := by
  have hf : fmtVal (fS w) (.str nm) = .ok nm := by
    rw [fmtVal_s_str (f := fS w) rfl]
    simp [fS, strTrunc, pad, rjust, hl]
  refine ⟨writeField_of_fits (by simp) (by simp [fS]) hf (by simp [fS, hl]), by simp [fS, hl], ?_, hn⟩
  intro rf
  rw [show (fS w).typ = 's' from rfl, read_name]
  congr 2
  apply rstripNewline_of_last
  intro c hc e
  subst e
  exact hn (List.mem_of_getLast? hc)

/-! ### one record -/

abbrev Item := FieldSpec × Val × Str × PVal

def ItemsOK (items : List Item) : Prop := ∀ it ∈ items, FieldRT it.1 it.2.1 it.2.2.1 it.2.2.2

theorem itemsOK_cons {it : Item} {items : List Item} (h : FieldRT it.1 it.2.1 it.2.2.1 it.2.2.2)
    (t : ItemsOK items) : ItemsOK (it :: items) := by
  intro x hx
  rcases List.mem_cons.mp hx with rfl | hx
  · exact h
  · exact t x hx

theorem itemsOK_nil : ItemsOK [] := by intro x hx; cases hx

def recText (items : List Item) : Str := (items.map (·.2.2.1)).flatten

theorem writeValues_items (items : List Item) (h : ItemsOK items) :
    writeValues (items.map (·.1)) (items.map (·.2.1)) = .ok (recText items) := by
  rw [writeValues_ok_iff]
  refine ⟨items.map (·.2.2.1), ?_, rfl⟩
  induction items with
  | nil => exact .nil
  | cons it r ih =>
    simp only [List.map_cons, List.zip_cons_cons]
    exact .cons (h it (by simp)).w (ih (fun x hx => h x (List.mem_cons_of_mem _ hx)))

theorem parse_items (rf : ReadFn) (items : List Item) (h : ItemsOK items) (tail : Str) :
    parseString rf (items.map (·.1)) (recText items ++ tail) = .ok (items.map (·.2.2.2)) := by
  have hw : All2 (fun (f : FieldSpec) (s : Str) => s.length = f.width) (items.map (·.1)) (items.map (·.2.2.1)) := by
    induction items with
    | nil => exact .nil
    | cons it r ih =>
      exact .cons (h it (by simp)).len (ih (fun x hx => h x (List.mem_cons_of_mem _ hx)))
  unfold recText
  rw [parse_complete hw tail]
  clear hw
  induction items with
  | nil => rfl
  | cons it r ih =>
    simp only [List.map_cons, List.zip_cons_cons, List.mapM_cons]
    rw [(h it (by simp)).r rf, ih (fun x hx => h x (List.mem_cons_of_mem _ hx))]
    rfl

theorem recText_no_newline (items : List Item) (h : ItemsOK items) : '\n' ∉ recText items := by
  unfold recText
  intro hc
  obtain ⟨t, ht, hct⟩ := List.mem_flatten.mp hc
  obtain ⟨it, hit, rfl⟩ := List.mem_map.mp ht
  exact (h it hit).nonl hct

/-- a record written with `lineOf` -/
theorem lineOf_items (items : List Item) (h : ItemsOK items) :
    lineOf (items.map (·.1)) (items.map (·.2.1)) = .ok (recText items ++ ['\n']) := by
  unfold lineOf
  rw [writeValues_items items h]
  rfl

end Proofs.GeoFile
