/-
  Proofs for C04, part 5: fromgeo returns on every well-formed geometry.
-/
import PyTough.Proofs.FromGeoOrigin3
import PyTough.Proofs.FromGeoConn
namespace Proofs.FromGeo
open Py Model.FromGeo

/-! ### `fromgeo` returns on every well-formed geometry -/

theorem blockCentre_some (g : Geo) (lay : Layer) (col : Column) (hn : lay.name ≠ g.layer0.name)
    (hb : lay.bottom < col.surface) : ∃ c, blockCentre g lay col = some c := by
  unfold blockCentre
  simp only [hn, if_false, hb, true_and]
  by_cases h1 : col.surface ≤ lay.top
  · simp [h1]
  · have h2 : ¬ col.surface ≤ lay.bottom := not_le.2 hb
    simp [h1, h2]

theorem blockSurface_some (g : Geo) (lay : Layer) (col : Column) (hn : lay.name ≠ g.layer0.name)
    (hb : lay.bottom < col.surface) : ∃ s, blockSurface g lay col = some s := by
  unfold blockSurface
  simp only [hn, if_false]
  by_cases h1 : col.surface < lay.top
  · simp [h1, hb]
  · simp only [h1, if_false]
    by_cases h2 : col.surface > g.layer0.top
    · simp only [h2, if_true]
      cases g.layers with
      | nil => simp
      | cons l1 _ =>
        by_cases h3 : lay.name = l1.name
        · simp [h3]
        · simp [h3]
    · simp [h2]

theorem layer_name_ne0 (g : Geo) (lay : Layer) (hwf : LayersWF g) (hl : lay ∈ g.layers) :
    lay.name ≠ g.layer0.name := by
  have hnd := hwf.2.2
  simp only [Geo.layerlist, List.map_cons, List.nodup_cons, List.mem_map, not_exists, not_and] at hnd
  exact fun h => hnd.1 lay hl h

theorem addAtmColumns_ok (g : Geo) (m : BlockMap) :
    ∀ (cols : List Column) (ns : List Str), layerBlockNames g.convention g.layer0 cols = .ok ns →
      ∀ bs, ∃ bs', addAtmColumns g m bs cols = .ok bs' := by
  intro cols
  induction cols with
  | nil => intro ns _ bs; exact ⟨bs, rfl⟩
  | cons c cs ih =>
    intro ns h bs
    simp only [layerBlockNames] at h
    split at h
    · cases h
    · rename_i n hn
      split at h
      · cases h
      · rename_i ns' hns
        simp only [addAtmColumns, blockName_map_ok m hn]
        exact ih ns' hns _

theorem addUnderground_ok (g : Geo) (m : BlockMap) :
    ∀ (rest : List Str), (∀ nm ∈ rest, ∃ b, underBlock g m nm = .ok b) →
      ∀ bs, ∃ bs', addUnderground g m bs rest = .ok bs' := by
  intro rest
  induction rest with
  | nil => intro _ bs; exact ⟨bs, rfl⟩
  | cons nm rest ih =>
    intro h bs
    obtain ⟨b, hb⟩ := h nm List.mem_cons_self
    rw [addUnderground_cons, hb]
    exact ih (fun x hx => h x (List.mem_cons_of_mem _ hx)) _

theorem addBlocks_ok (g : Geo) (m : BlockMap) (hf : Fresh g) (hp : parseOk g = true) (hatm : g.atmType ≤ 2) :
    ∃ bs, addBlocks g m = .ok bs := by
  obtain ⟨a, u, ha, hau, _, m2⟩ := fresh_structure g hf
  have hA : ∃ bs0, addAtmosphereBlocks g m [] = .ok bs0 := by
    unfold addAtmosphereBlocks
    unfold atmNames at ha
    by_cases h0 : g.atmType = 0
    · simp only [h0, if_true] at ha ⊢
      split at ha
      · rename_i n0 hn0
        rw [blockName_map_ok m hn0]
        exact ⟨_, rfl⟩
      · cases ha
    · by_cases h1 : g.atmType = 1
      · simp only [h1, if_true, if_false, Nat.one_ne_zero] at ha ⊢
        exact addAtmColumns_ok g m _ _ ha _
      · simp only [h0, h1, if_false]
        exact ⟨_, rfl⟩
  obtain ⟨bs0, hb0⟩ := hA
  have hN : ∃ n, numAtmBlocks g = .ok n := by
    unfold numAtmBlocks
    by_cases h0 : g.atmType = 0
    · simp [h0]
    · by_cases h1 : g.atmType = 1
      · simp [h1]
      · have h2 : g.atmType = 2 := by omega
        simp [h2]
  obtain ⟨n, hn⟩ := hN
  obtain ⟨_, hlen⟩ := atm_part g m a bs0 n ha hb0 hn
  unfold addBlocks
  rw [hb0, hn]
  simp only
  rw [hau, hlen, List.drop_left]
  apply addUnderground_ok
  intro nm hnm
  obtain ⟨lay, hlay, c, hc, hbn⟩ := m2 nm hnm
  obtain ⟨nm', hnm', hl, hcol⟩ := parseOk_spec g hp lay hlay c (layerCols_sub g lay c hc).1
  have : nm' = nm := by rw [hbn] at hnm'; exact (Except.ok.inj hnm').symm
  subst this
  unfold underBlock
  rw [hl, hcol]
  exact ⟨_, rfl⟩

theorem addVertical_ok (g : Geo) (m : BlockMap) (bs : List Block) (first : Bool) (above lay : Layer) :
    ∀ (cols : List Column), (∀ col ∈ cols, ∃ o, vertConn g m bs first above lay col = .ok o) →
      ∀ cs, ∃ cs', addVertical g m bs first above lay cs cols = .ok cs' := by
  intro cols
  induction cols with
  | nil => intro _ cs; exact ⟨cs, rfl⟩
  | cons col rest ih =>
    intro h cs
    obtain ⟨o, ho⟩ := h col List.mem_cons_self
    simp only [addVertical, ho]
    cases o with
    | none => exact ih (fun x hx => h x (List.mem_cons_of_mem _ hx)) _
    | some c => exact ih (fun x hx => h x (List.mem_cons_of_mem _ hx)) _

theorem addHorizontal_ok (g : Geo) (m : BlockMap) (bs : List Block) (lay : Layer) :
    ∀ (ks : List Conn), (∀ k ∈ ks, ∃ c, horizConn g m bs lay k = .ok c) →
      ∀ cs, ∃ cs', addHorizontal g m bs lay cs ks = .ok cs' := by
  intro ks
  induction ks with
  | nil => intro _ cs; exact ⟨cs, rfl⟩
  | cons k rest ih =>
    intro h cs
    obtain ⟨c, hc⟩ := h k List.mem_cons_self
    simp only [addHorizontal, hc]
    exact ih (fun x hx => h x (List.mem_cons_of_mem _ hx)) _

end Proofs.FromGeo

namespace Proofs.FromGeo
open Py Model.FromGeo

theorem mem_layerCols (g : Geo) (lay : Layer) (c : Column) (hc : c ∈ g.columns) (hb : lay.bottom < c.surface) :
    c ∈ layerCols g lay := by
  unfold layerCols
  rw [List.mem_filter]
  exact ⟨hc, by simpa using hb⟩

theorem vertConn_ok (g : Geo) (m : BlockMap) (bs : List Block) (hf : Fresh g)
    (hn : (g.blockNames.map (applyMap m)).Nodup) (hp : parseOk g = true) (hwf : LayersWF g)
    (hbs : addBlocks g m = .ok bs) (pre : List Layer) (above lay : Layer) (post : List Layer)
    (hll : g.layerlist = pre ++ above :: lay :: post) (col : Column) (hc : col ∈ layerCols g lay) :
    ∃ o, vertConn g m bs (decide (pre = [])) above lay col = .ok o := by
  obtain ⟨hadj, hpos, hlay⟩ := chain_adjacent g.layers g.layer0 hwf.2.1 pre above lay post (by simpa [Geo.layerlist] using hll)
  obtain ⟨hcm, hcb⟩ := layerCols_sub g lay col hc
  obtain ⟨nm, hnm, _, _⟩ := parseOk_spec g hp lay hlay col hcm
  have hfb := addBlocks_data g m bs hf hn hp hbs lay hlay col hc nm hnm
  have hn0 := layer_name_ne0 g lay hwf hlay
  obtain ⟨cz, hcz⟩ := blockCentre_some g lay col hn0 hcb
  unfold vertConn
  rw [blockName_map_ok m hnm]
  simp only
  rw [hfb]
  simp only
  by_cases hcond : (decide (pre = []) = true ∨ col.surface ≤ lay.top)
  · simp only [hcond, if_true, centreZ, hcz]
    by_cases h0 : g.atmType = 0
    · simp only [h0, if_true]
      have hmem := findBlock_mem hfb
      cases bs with
      | nil => cases hmem
      | cons b0 _ => exact ⟨_, rfl⟩
    · by_cases h1 : g.atmType = 1
      · simp only [h1, if_true, if_false, Nat.one_ne_zero]
        obtain ⟨a, u, ha, hau, _, _⟩ := fresh_structure g hf
        unfold atmNames at ha
        simp only [h1, if_true, if_false, Nat.one_ne_zero] at ha
        obtain ⟨n, hna, hbn⟩ := (layerBlockNames_mem g.convention g.layer0 _ _ ha).1 col hcm
        rw [blockName_map_ok m hbn]
        simp only
        have hnames := addBlocks_names g m bs hf hn hbs
        obtain ⟨b, hb⟩ := findBlock_of_mem_names (bs := bs) (n := applyMap m n)
          (by rw [hnames, hau]; exact List.mem_map.2 ⟨n, List.mem_append_left _ hna, rfl⟩)
        rw [hb]
        exact ⟨_, rfl⟩
      · simp only [h0, h1, if_false]
        exact ⟨_, rfl⟩
  · simp only [hcond, if_false]
    have hne : pre ≠ [] := by
      intro h; apply hcond; left; simp [h]
    have htop : lay.top < col.surface := not_le.1 (fun h => hcond (Or.inr h))
    have habove : above ∈ g.layers := by
      cases pre with
      | nil => exact absurd rfl hne
      | cons p pre' =>
        simp only [Geo.layerlist, List.cons_append, List.cons.injEq] at hll
        rw [hll.2]; simp
    have hca : col ∈ layerCols g above := mem_layerCols g above col hcm (by rw [← hadj]; exact htop)
    obtain ⟨nm2, hnm2, _, _⟩ := parseOk_spec g hp above habove col hcm
    have hfb2 := addBlocks_data g m bs hf hn hp hbs above habove col hca nm2 hnm2
    obtain ⟨cz2, hcz2⟩ := blockCentre_some g above col (layer_name_ne0 g above hwf habove) (layerCols_sub g above col hca).2
    rw [blockName_map_ok m hnm2]
    simp only
    rw [hfb2]
    simp only [centreZ, hcz2]
    exact ⟨_, rfl⟩

theorem horizConn_ok (g : Geo) (m : BlockMap) (bs : List Block) (hf : Fresh g)
    (hn : (g.blockNames.map (applyMap m)).Nodup) (hp : parseOk g = true) (hwf : LayersWF g)
    (hbs : addBlocks g m = .ok bs) (lay : Layer) (hlay : lay ∈ g.layers) (k : Conn)
    (hk : k ∈ layerConns g (layerCols g lay)) :
    ∃ c, horizConn g m bs lay k = .ok c := by
  unfold layerConns at hk
  rw [List.mem_filter] at hk
  have hk0 : k.col0 ∈ layerCols g lay := by
    have := hk.2; simp only [Bool.and_eq_true, List.contains_iff_mem] at this; exact this.1
  have hk1 : k.col1 ∈ layerCols g lay := by
    have := hk.2; simp only [Bool.and_eq_true, List.contains_iff_mem] at this; exact this.2
  have hn0 := layer_name_ne0 g lay hwf hlay
  obtain ⟨nm0, hnm0, _, _⟩ := parseOk_spec g hp lay hlay k.col0 (layerCols_sub g lay _ hk0).1
  obtain ⟨nm1, hnm1, _, _⟩ := parseOk_spec g hp lay hlay k.col1 (layerCols_sub g lay _ hk1).1
  have hf0 := addBlocks_data g m bs hf hn hp hbs lay hlay k.col0 hk0 nm0 hnm0
  have hf1 := addBlocks_data g m bs hf hn hp hbs lay hlay k.col1 hk1 nm1 hnm1
  obtain ⟨c0, hc0⟩ := blockCentre_some g lay k.col0 hn0 (layerCols_sub g lay _ hk0).2
  obtain ⟨c1, hc1⟩ := blockCentre_some g lay k.col1 hn0 (layerCols_sub g lay _ hk1).2
  obtain ⟨s0, hs0⟩ := blockSurface_some g lay k.col0 hn0 (layerCols_sub g lay _ hk0).2
  obtain ⟨s1, hs1⟩ := blockSurface_some g lay k.col1 hn0 (layerCols_sub g lay _ hk1).2
  unfold horizConn
  rw [blockName_map_ok m hnm0]
  simp only
  rw [hf0]
  simp only
  rw [blockName_map_ok m hnm1]
  simp only
  rw [hf1]
  simp only [connectionParams, hs0, hs1, centre3, hc0, hc1]
  exact ⟨_, rfl⟩

theorem addConnsFrom_ok (g : Geo) (m : BlockMap) (bs : List Block) (hf : Fresh g)
    (hn : (g.blockNames.map (applyMap m)).Nodup) (hp : parseOk g = true) (hwf : LayersWF g)
    (hbs : addBlocks g m = .ok bs) :
    ∀ (ls : List Layer) (first : Bool) (above : Layer) (cs : List TConn) (pre : List Layer),
      g.layerlist = pre ++ above :: ls → first = decide (pre = []) →
      ∃ cs', addConnsFrom g m bs first above cs ls = .ok cs' := by
  intro ls
  induction ls with
  | nil => intro first above cs pre _ _; exact ⟨cs, rfl⟩
  | cons lay ls ih =>
    intro first above cs pre hll hfirst
    simp only [addConnsFrom]
    have hlay : lay ∈ g.layers :=
      (chain_adjacent g.layers g.layer0 hwf.2.1 pre above lay ls (by simpa [Geo.layerlist] using hll)).2.2
    obtain ⟨cs1, h1⟩ := addVertical_ok g m bs first above lay (layerCols g lay)
      (fun col hc => by rw [hfirst]; exact vertConn_ok g m bs hf hn hp hwf hbs pre above lay ls hll col hc) cs
    rw [h1]
    simp only
    obtain ⟨cs2, h2⟩ := addHorizontal_ok g m bs lay (layerConns g (layerCols g lay))
      (fun k hk => horizConn_ok g m bs hf hn hp hwf hbs lay hlay k hk) cs1
    rw [h2]
    simp only
    exact ih false lay cs2 (pre ++ [above]) (by rw [hll]; simp) (by simp)

/-- on a well-formed geometry `fromgeo` returns a grid (no `KeyError`, `IndexError`, `TypeError`) -/
theorem fromgeo_ok (g : Geo) (m : BlockMap) (hf : Fresh g) (hn : (g.blockNames.map (applyMap m)).Nodup)
    (hp : parseOk g = true) (hwf : LayersWF g) (hatm : g.atmType ≤ 2) : ∃ T, fromgeo g m = .ok T := by
  obtain ⟨bs, hbs⟩ := addBlocks_ok g m hf hp hatm
  obtain ⟨cs, hcs⟩ := addConnsFrom_ok g m bs hf hn hp hwf hbs g.layers true g.layer0 [] [] rfl (by simp)
  unfold fromgeo
  rw [hbs]
  simp only
  rw [hcs]
  exact ⟨_, rfl⟩

end Proofs.FromGeo

namespace Proofs.FromGeo
open Py Model.FromGeo

/-- the first block of a vertical connection is the block of (lay, col) -/
theorem vertConn_lower_name (g : Geo) (m : BlockMap) (bs : List Block) (first : Bool) (above lay : Layer)
    (col : Column) (c : TConn) (nm : Str) (h : vertConn g m bs first above lay col = .ok (some c))
    (hnm : blockName g.convention lay.name col.name = .ok nm) : c.b0 = applyMap m nm := by
  unfold vertConn at h
  rw [blockName_map_ok m hnm] at h
  simp only at h
  cases hfb : findBlock bs (applyMap m nm) with
  | error e => rw [hfb] at h; cases h
  | ok thisblk =>
    rw [hfb] at h
    simp only at h
    have hname := findBlock_name hfb
    split at h
    · split at h
      · cases h
      · split at h
        · split at h
          · cases h
          · cases h; exact hname
        · split at h
          · split at h
            · cases h
            · split at h
              · cases h
              · cases h; exact hname
          · cases h
    · split at h
      · cases h
      · split at h
        · cases h
        · split at h
          · cases h
          · cases h; exact hname

/-- the second block of an interior vertical connection is the block of (above, col) -/
theorem vertConn_upper_name (g : Geo) (m : BlockMap) (bs : List Block) (first : Bool) (above lay : Layer)
    (col : Column) (c : TConn) (nm : Str) (h : vertConn g m bs first above lay col = .ok (some c))
    (hc : ¬ (first = true ∨ col.surface ≤ lay.top))
    (hnm : blockName g.convention above.name col.name = .ok nm) : c.b1 = applyMap m nm := by
  unfold vertConn at h
  split at h
  · cases h
  · split at h
    · cases h
    · simp only [hc, if_false] at h
      rw [blockName_map_ok m hnm] at h
      simp only at h
      cases hfb : findBlock bs (applyMap m nm) with
      | error e => rw [hfb] at h; cases h
      | ok ab =>
        rw [hfb] at h
        simp only at h
        split at h
        · cases h
        · cases h; exact findBlock_name hfb

end Proofs.FromGeo
