/-
  C19: the heap model of t2incon.transfer_from computes the same states as the functional
  model (so the theorems about the latter describe what the former files in the heap).
-/
import PyTough.Proofs.MappingHeap
namespace Proofs.Mapping
open Py Model.Mapping

theorem dset_map {β γ : Type} (g : β → γ) (d : Dict β) (k : Str) (v : β) :
    (dset d k v).map (fun p => (p.1, g p.2)) = dset (d.map (fun p => (p.1, g p.2))) k (g v) := by
  unfold dset
  have hany : (d.map (fun p => (p.1, g p.2))).any (fun p => p.1 == k) = d.any (fun p => p.1 == k) := by
    rw [List.any_map]; rfl
  rw [hany]
  split
  · rw [List.map_map, List.map_map]
    apply List.map_congr_left
    intro p _
    simp only [Function.comp_apply]
    split <;> rfl
  · simp

theorem dget_viewD (h : Heap) (d : InconH) (k : Str) :
    dget (viewD h d) k = (match dget d k with | .ok id => .ok (valAt h id) | .error e => .error e) := by
  unfold dget viewD
  rw [List.find?_map]
  cases hf : d.find? ((fun (p : Str × IncVal) => p.1 == k) ∘ fun p => (p.1, valAt h p.2)) with
  | none =>
    have : d.find? (fun p => p.1 == k) = none := by
      rw [List.find?_eq_none] at hf ⊢
      intro p hp; simpa using hf p hp
    simp [this]
  | some p =>
    have : d.find? (fun p => p.1 == k) = some p := by
      rw [← hf]; rfl
    simp [this]

/-- the loop invariant: below `n` the heap is `hb`; every id in the dict is allocated -/
def Inv (n : Nat) (hb : Heap) (st : Heap × InconH) : Prop :=
  n ≤ st.1.length ∧ (∀ i, i < n → st.1[i]? = hb[i]?) ∧ ∀ p ∈ st.2, p.2 < st.1.length

theorem valAt_congr (h h' : Heap) (id : Nat) (he : h'[id]? = h[id]?) : valAt h' id = valAt h id := by
  unfold valAt; rw [he]

/-- `self[key] = <a new object with state v>` : the view gets `key ↦ v` -/
theorem setItem_new_view (n : Nat) (hb : Heap) (st : Heap × InconH) (o : Obj) (key : Str)
    (hinv : Inv n hb st) :
    Inv n hb (setItem (st.1 ++ [o], st.2) key st.1.length) ∧
      viewD (setItem (st.1 ++ [o], st.2) key st.1.length).1 (setItem (st.1 ++ [o], st.2) key st.1.length).2
        = dset (viewD st.1 st.2) key o.val := by
  obtain ⟨h1, h2, h3⟩ := hinv
  have hlen : (modifyAt (st.1 ++ [o]) st.1.length (fun o => if o.block != key then { o with block := key } else o)).length
      = st.1.length + 1 := by simp [modifyAt_length]
  refine ⟨⟨?_, ?_, ?_⟩, ?_⟩
  · simp only [setItem]; omega
  · intro i hi
    simp only [setItem]
    rw [modifyAt_get_ne _ _ _ _ (by omega), List.getElem?_append_left (by omega)]
    exact h2 i hi
  · intro p hp
    simp only [setItem] at hp ⊢
    rw [hlen]
    rcases mem_dset st.2 key st.1.length p hp with hp | hp
    · have := h3 p hp; omega
    · rw [hp]; simp
  · simp only [setItem, viewD]
    rw [dset_map]
    congr 1
    · apply List.map_congr_left
      intro p hp
      have hlt := h3 p hp
      congr 1
      apply valAt_congr
      rw [modifyAt_get_ne _ _ _ _ (by omega), List.getElem?_append_left hlt]
    · -- the new object
      unfold valAt
      have : (modifyAt (st.1 ++ [o]) st.1.length (fun o => if o.block != key then { o with block := key } else o))[st.1.length]?
          = some (if o.block != key then { o with block := key } else o) := by
        clear h1 h2 h3 hlen
        generalize st.1 = l
        induction l with
        | nil => rfl
        | cons a r ih => simpa [modifyAt] using ih
      rw [this]
      simp only
      split <;> rfl

theorem assignCopy_view (n : Nat) (hb : Heap) (st : Heap × InconH) (key : Str) (id : Nat) (o : Obj)
    (hinv : Inv n hb st) (hid : id < n) (ho : hb[id]? = some o) :
    ∃ st', assignCopy st key id = .ok st' ∧ Inv n hb st' ∧ viewD st'.1 st'.2 = dset (viewD st.1 st.2) key o.val := by
  have hget : st.1[id]? = some o := by rw [hinv.2.1 id hid, ho]
  unfold assignCopy
  simp only [hget, Heap.alloc]
  obtain ⟨h1, h2⟩ := setItem_new_view n hb st o key hinv
  exact ⟨_, rfl, h1, h2⟩

theorem assignNew_view (n : Nat) (hb : Heap) (st : Heap × InconH) (key : Str) (v : IncVal) (hinv : Inv n hb st) :
    Inv n hb (assignNew st key v) ∧ viewD (assignNew st key v).1 (assignNew st key v).2 = dset (viewD st.1 st.2) key v := by
  simp only [assignNew, Heap.alloc]
  exact setItem_new_view n hb st ⟨[], v⟩ key hinv

/-- a loop of assignments on the heap against `mapE` + successive `dset` in the functional model -/
theorem foldE_refines {α : Type} (n : Nat) (hb : Heap) (step : Heap × InconH → α → Except Exc (Heap × InconH))
    (pairF : α → Except Exc (Str × IncVal))
    (hstep : ∀ st a, Inv n hb st →
      match pairF a with
      | .ok p => ∃ st', step st a = .ok st' ∧ Inv n hb st' ∧ viewD st'.1 st'.2 = dset (viewD st.1 st.2) p.1 p.2
      | .error e => step st a = .error e)
    (l : List α) (st : Heap × InconH) (hinv : Inv n hb st) :
    match mapE pairF l with
    | .ok ps => ∃ st', foldE step st l = .ok st' ∧ Inv n hb st' ∧
        viewD st'.1 st'.2 = ps.foldl (fun d p => dset d p.1 p.2) (viewD st.1 st.2)
    | .error e => foldE step st l = .error e := by
  induction l generalizing st with
  | nil => exact ⟨st, rfl, hinv, rfl⟩
  | cons a as ih =>
    have hs := hstep st a hinv
    unfold mapE foldE
    cases hp : pairF a with
    | error e => rw [hp] at hs; simp only [hs]
    | ok p =>
      rw [hp] at hs
      obtain ⟨st1, h1, h2, h3⟩ := hs
      simp only [h1]
      have := ih st1 h2
      cases hm : mapE pairF as with
      | error e => rw [hm] at this; simpa using this
      | ok ps =>
        rw [hm] at this
        obtain ⟨st', e1, e2, e3⟩ := this
        refine ⟨st', e1, e2, ?_⟩
        rw [e3, h3]
        rfl

end Proofs.Mapping
