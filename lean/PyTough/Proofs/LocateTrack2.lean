/-
  Proofs about the model of column_track (continued): the repaired duplicate-merging rule of
  line_polygon_intersections, independence of the line's direction, completeness of the track.
-/
import PyTough.Proofs.LocateTrack
import Mathlib.Tactic.Linarith
import Mathlib.Tactic.Ring
import Mathlib.Algebra.Order.Field.Basic
import Mathlib.Data.Nat.Basic

namespace Proofs.Track
open Model.Locate Model.Track Proofs.Locate

/-! ## 3. the repaired duplicate-merging rule; independence of the line's direction -/

/-- `roundSqrt D = k` puts `√D` in `[k − ½, k + ½]` -/
theorem roundSqrt_bounds {D : Rat} {k : Nat} (hD : 0 ≤ D) (h : roundSqrt D = .ok k) :
    D ≤ ((k : Rat) + 1 / 2) * ((k : Rat) + 1 / 2) ∧ (k = 0 ∨ ((k : Rat) - 1 / 2) * ((k : Rat) - 1 / 2) ≤ D) := by
  have hfl : (0 : Int) ≤ D.floor := Rat.le_floor_iff.mpr (by simpa using hD)
  have hn : ((D.floor.toNat : Nat) : Int) = D.floor := Int.toNat_of_nonneg hfl
  have h1 : ((D.floor.toNat : Nat) : Rat) ≤ D := by
    have := Rat.floor_le D
    rw [← hn] at this
    exact_mod_cast this
  have h2 : D < ((D.floor.toNat : Nat) : Rat) + 1 := by
    have := Rat.lt_floor_add_one D
    rw [← hn] at this
    exact_mod_cast this
  have s1 := Nat.sqrt_le' D.floor.toNat
  have s2 := Nat.lt_succ_sqrt' D.floor.toNat
  unfold roundSqrt at h
  simp only at h
  generalize D.floor.toNat = n at h1 h2 s1 s2 h
  generalize hm : Nat.sqrt n = m at h s1 s2
  have c1 : (m : Rat) * m ≤ n := by
    have : m ^ 2 ≤ n := s1
    have : ((m ^ 2 : Nat) : Rat) ≤ (n : Rat) := by exact_mod_cast this
    simpa [pow_two] using this
  have c2 : (n : Rat) + 1 ≤ ((m : Rat) + 1) * ((m : Rat) + 1) := by
    have : n + 1 ≤ (m + 1) ^ 2 := s2
    have : ((n + 1 : Nat) : Rat) ≤ (((m + 1) ^ 2 : Nat) : Rat) := by exact_mod_cast this
    simpa [pow_two] using this
  have hm0 : (0 : Rat) ≤ m := by exact_mod_cast Nat.zero_le m
  split at h
  · cases h
  · split at h
    · rename_i hlt
      injection h with h; subst h
      refine ⟨hlt.le, ?_⟩
      by_cases hz : m = 0
      · exact Or.inl hz
      · right
        have : (1 : Rat) ≤ m := by exact_mod_cast Nat.one_le_iff_ne_zero.mpr hz
        nlinarith
    · rename_i hge
      injection h with h; subst h
      push_cast
      refine ⟨by nlinarith, Or.inr ?_⟩
      have := not_lt.mp hge
      nlinarith

/-- two values in the same bucket differ by at most 1 (in units of the bucket width) -/
theorem same_bucket_close {u1 u2 Q : Rat} {k : Nat} (h1 : 0 ≤ u1) (h2 : 0 ≤ u2) (hQ : 0 ≤ Q)
    (r1 : roundSqrt (u1 * u1 * Q) = .ok k) (r2 : roundSqrt (u2 * u2 * Q) = .ok k) :
    (u1 - u2) * (u1 - u2) * Q ≤ 1 := by
  -- by symmetry assume u2 ≤ u1
  suffices H : ∀ (v1 v2 : Rat), 0 ≤ v2 → v2 ≤ v1 → roundSqrt (v1 * v1 * Q) = .ok k → roundSqrt (v2 * v2 * Q) = .ok k →
      (v1 - v2) * (v1 - v2) * Q ≤ 1 by
    rcases le_total u2 u1 with hle | hle
    · exact H u1 u2 h2 hle r1 r2
    · have := H u2 u1 h1 hle r2 r1
      have e : (u1 - u2) * (u1 - u2) = (u2 - u1) * (u2 - u1) := by ring
      rw [e]; exact this
  intro v1 v2 hv2 hle q1 q2
  have hv1 : 0 ≤ v1 := le_trans hv2 hle
  have b1 := roundSqrt_bounds (mul_nonneg (mul_nonneg hv1 hv1) hQ) q1
  have b2 := roundSqrt_bounds (mul_nonneg (mul_nonneg hv2 hv2) hQ) q2
  by_contra hcon
  have hcon : 1 < (v1 - v2) * (v1 - v2) * Q := not_le.mp hcon
  have hd : 0 ≤ v1 - v2 := by linarith
  rcases b2.2 with hk | hlow
  · -- bucket 0: everything is at most 1/4
    subst hk
    have hup := b1.1
    simp only [Nat.cast_zero, zero_add] at hup
    have : (v1 - v2) * (v1 - v2) * Q ≤ v1 * v1 * Q := by
      apply mul_le_mul_of_nonneg_right _ hQ
      nlinarith
    linarith
  · have hk1 : (1 : Rat) ≤ k := by
      rcases Nat.eq_zero_or_pos k with hz | hp
      · subst hz
        -- then (0 - 1/2)² ≤ v2² Q ≤ 1/4 : fine, but 1 < (v1-v2)² Q ≤ v1² Q ≤ 1/4 is impossible
        have hup := b1.1
        simp only [Nat.cast_zero, zero_add] at hup
        have : (v1 - v2) * (v1 - v2) * Q ≤ v1 * v1 * Q := by
          apply mul_le_mul_of_nonneg_right _ hQ
          nlinarith
        linarith
      · exact_mod_cast hp
    set A : Rat := (k : Rat) - 1 / 2 with hA
    have hApos : 0 < A := by rw [hA]; linarith
    have hup : v1 * v1 * Q ≤ (A + 1) * (A + 1) := by
      have := b1.1
      have e : (k : Rat) + 1 / 2 = A + 1 := by rw [hA]; ring
      rw [e] at this; exact this
    -- x = v2 (v1 - v2) Q
    set x : Rat := v2 * (v1 - v2) * Q with hx
    have hx0 : 0 ≤ x := mul_nonneg (mul_nonneg hv2 hd) hQ
    have hxx : A * A < x * x := by
      have e : x * x = (v2 * v2 * Q) * ((v1 - v2) * (v1 - v2) * Q) := by rw [hx]; ring
      rw [e]
      have hD2 : 0 < v2 * v2 * Q := lt_of_lt_of_le (mul_pos hApos hApos) hlow
      nlinarith
    have hxA : A < x := by
      by_contra hle'
      have hle' : x ≤ A := not_lt.mp hle'
      nlinarith
    have e : v1 * v1 * Q = v2 * v2 * Q + 2 * x + (v1 - v2) * (v1 - v2) * Q := by rw [hx]; ring
    nlinarith


theorem tMin_le (c0 : Cross) (cs : List Cross) : ∀ c ∈ c0 :: cs, tMin c0 (c0 :: cs) ≤ c.t.abs := by
  intro c hc
  unfold tMin
  have := foldl_min_le ((c0 :: cs).map fun c => c.t.abs) c0.t.abs
  exact this.2 _ (List.mem_map_of_mem hc)

theorem distSq_nonneg (a b : Pt) : 0 ≤ distSq a b := by
  unfold distSq; nlinarith [mul_self_nonneg (a.1 - b.1), mul_self_nonneg (a.2 - b.2)]

/-- two crossings that are rounded to the same value are closer than 1e-3 × (longest side):
    `(|t| − |t'|)²·‖line‖² ≤ 10⁻⁶·(longest side)²` -/
theorem same_rounding_close {L2 S2 tmin : Rat} {c c' : Cross} {k : Nat} (hL : 0 ≤ L2) (hS : 0 < S2)
    (hc : tmin ≤ c.t.abs) (hc' : tmin ≤ c'.t.abs)
    (r : roundSqrt (nondimSq L2 S2 tmin c) = .ok k) (r' : roundSqrt (nondimSq L2 S2 tmin c') = .ok k) :
    (c.t.abs - c'.t.abs) * (c.t.abs - c'.t.abs) * L2 * 1000000 ≤ S2 := by
  unfold nondimSq at r r'
  rw [if_pos hS] at r r'
  have hQ : 0 ≤ L2 / S2 * 1000000 := by positivity
  have e1 : (c.t.abs - tmin) * (c.t.abs - tmin) * L2 / S2 * 1000000 = (c.t.abs - tmin) * (c.t.abs - tmin) * (L2 / S2 * 1000000) := by ring
  have e2 : (c'.t.abs - tmin) * (c'.t.abs - tmin) * L2 / S2 * 1000000 = (c'.t.abs - tmin) * (c'.t.abs - tmin) * (L2 / S2 * 1000000) := by ring
  rw [e1] at r; rw [e2] at r'
  have := same_bucket_close (by linarith) (by linarith) hQ r r'
  have e3 : c.t.abs - tmin - (c'.t.abs - tmin) = c.t.abs - c'.t.abs := by ring
  rw [e3] at this
  have e4 : (c.t.abs - c'.t.abs) * (c.t.abs - c'.t.abs) * (L2 / S2 * 1000000)
      = ((c.t.abs - c'.t.abs) * (c.t.abs - c'.t.abs) * L2 * 1000000) / S2 := by ring
  rw [e4, div_le_one hS] at this
  exact this

/-! ### `np.unique` keeps one representative of every rounded value -/

theorem mem_insertUnique {k i : Nat} : ∀ (l : List (Nat × Nat)) (x : Nat × Nat),
    x ∈ insertUnique k i l → x ∈ l ∨ x = (k, i) := by
  intro l
  induction l with
  | nil => intro x h; simp only [insertUnique, List.mem_singleton] at h; exact Or.inr h
  | cons y t ih =>
    intro x h
    obtain ⟨k', i'⟩ := y
    simp only [insertUnique] at h
    split at h
    · simp only [List.mem_cons] at h
      rcases h with h | h | h
      · exact Or.inr h
      · exact Or.inl (h ▸ List.mem_cons_self)
      · exact Or.inl (List.mem_cons_of_mem _ h)
    · split at h
      · exact Or.inl h
      · simp only [List.mem_cons] at h
        rcases h with h | h
        · exact Or.inl (h ▸ List.mem_cons_self)
        · rcases ih x h with h | h
          · exact Or.inl (List.mem_cons_of_mem _ h)
          · exact Or.inr h

theorem subset_insertUnique {k i : Nat} : ∀ (l : List (Nat × Nat)) (x : Nat × Nat),
    x ∈ l → x ∈ insertUnique k i l := by
  intro l
  induction l with
  | nil => intro x h; cases h
  | cons y t ih =>
    intro x h
    obtain ⟨k', i'⟩ := y
    simp only [insertUnique]
    split
    · exact List.mem_cons_of_mem _ h
    · split
      · exact h
      · simp only [List.mem_cons] at h ⊢
        rcases h with h | h
        · exact Or.inl h
        · exact Or.inr (ih x h)

theorem key_insertUnique {k i : Nat} : ∀ (l : List (Nat × Nat)), ∃ x ∈ insertUnique k i l, x.1 = k := by
  intro l
  induction l with
  | nil => exact ⟨(k, i), by simp [insertUnique], rfl⟩
  | cons y t ih =>
    obtain ⟨k', i'⟩ := y
    simp only [insertUnique]
    split
    · exact ⟨(k, i), List.mem_cons_self, rfl⟩
    · split
      · rename_i h; exact ⟨(k', i'), List.mem_cons_self, h.symm⟩
      · obtain ⟨x, hx, hk⟩ := ih
        exact ⟨x, List.mem_cons_of_mem _ hx, hk⟩

/-- invariant of `roundAll` over the crossings `cs`: every entry of `acc` points to a crossing with
    that rounded value, and every crossing already seen has its rounded value in `acc` -/
def RInv (D : Cross → Rat) (cs : List Cross) (i : Nat) (acc : List (Nat × Nat)) : Prop :=
  (∀ x ∈ acc, ∃ c, cs[x.2]? = some c ∧ roundSqrt (D c) = .ok x.1) ∧
  (∀ j, j < i → ∀ c, cs[j]? = some c → ∃ x ∈ acc, roundSqrt (D c) = .ok x.1)

theorem roundAll_inv {D : Cross → Rat} {cs : List Cross} : ∀ (l : List Cross) (i : Nat) (acc uniq : List (Nat × Nat)),
    l = cs.drop i → RInv D cs i acc → roundAll D i l acc = .ok uniq → RInv D cs cs.length uniq := by
  intro l
  induction l with
  | nil =>
    intro i acc uniq hl hinv h
    simp only [roundAll] at h
    injection h with h; subst h
    have hi : cs.length ≤ i := by
      have := congrArg List.length hl
      simp only [List.length_nil, List.length_drop] at this
      omega
    exact ⟨hinv.1, fun j hj c hc => by
      have : j < cs.length := (List.getElem?_eq_some_iff.mp hc).1
      exact hinv.2 j (by omega) c hc⟩
  | cons c r ih =>
    intro i acc uniq hl hinv h
    simp only [roundAll] at h
    split at h
    · rename_i k hk
      have hci : cs[i]? = some c := by
        have := congrArg (fun l => l[0]?) hl
        simp only [List.getElem?_cons_zero, List.getElem?_drop, Nat.add_zero] at this
        exact this.symm
      have hr : r = cs.drop (i + 1) := by
        have := congrArg List.tail hl
        simp only [List.tail_cons, List.tail_drop] at this
        exact this
      apply ih (i + 1) _ uniq hr _ h
      constructor
      · intro x hx
        rcases mem_insertUnique _ _ hx with hx | rfl
        · exact hinv.1 x hx
        · exact ⟨c, hci, hk⟩
      · intro j hj c' hc'
        by_cases hji : j = i
        · subst hji
          rw [hci] at hc'; injection hc' with hc'; subst hc'
          obtain ⟨x, hx, hxk⟩ := key_insertUnique (k := k) (i := j) acc
          exact ⟨x, hx, by rw [hxk]; exact hk⟩
        · obtain ⟨x, hx, hxr⟩ := hinv.2 j (by omega) c' hc'
          exact ⟨x, subset_insertUnique _ _ hx, hxr⟩
    · cases h

/-- **(4a) the repaired rule**: every crossing of the line with a polygon (longest side > 0) is
    either reported by `line_polygon_intersections` or lies within 1e-3 × (longest side) of a
    reported one — measured along the line: `(|t| − |t'|)²·‖line‖²·10⁶ ≤ (longest side)²`.
    Merging no longer depends on how far from the line start the crossing is. -/
theorem every_crossing_represented {poly : Poly} {a b : Pt} {pts : List Cross}
    (hS : 0 < maxSideSq poly) (h : linePolygonIntersectionsT poly a b = .ok pts) :
    ∀ c ∈ crossings poly a b, ∃ c' ∈ pts,
      (c.t.abs - c'.t.abs) * (c.t.abs - c'.t.abs) * distSq a b * 1000000 ≤ maxSideSq poly := by
  unfold linePolygonIntersectionsT at h
  split at h
  · rename_i hcs; intro c hc; rw [hcs] at hc; cases hc
  · rename_i c0 cs hcs
    split at h
    · cases h
    · rename_i uniq hu
      injection h with h; subst h
      have inv := roundAll_inv (cs := c0 :: cs) (c0 :: cs) 0 [] uniq (by simp)
        ⟨(fun x hx => nomatch hx), fun j hj => (by omega)⟩ hu
      intro c hc
      rw [hcs] at hc
      obtain ⟨j, hj⟩ := List.mem_iff_getElem?.mp hc
      have hjlt : j < (c0 :: cs).length := (List.getElem?_eq_some_iff.mp hj).1
      obtain ⟨x, hx, hxr⟩ := inv.2 j hjlt c hj
      obtain ⟨c', hc', hr'⟩ := inv.1 x hx
      refine ⟨c', List.mem_filterMap.mpr ⟨x, hx, hc'⟩, ?_⟩
      exact same_rounding_close (distSq_nonneg a b) hS (tMin_le c0 cs c hc)
        (tMin_le c0 cs c' (List.mem_of_getElem? hc')) hxr hr'


/-! ### reversing the line -/

/-- the same crossing seen from the other end of the line -/
def Cross.rev (c : Model.Track.Cross) : Model.Track.Cross := ⟨c.pt, 1 - c.t⟩

theorem solve2_reverse_line (u a b p : Pt) :
    solve2 u (Pt.sub b a) (Pt.sub b p) = (solve2 u (Pt.sub a b) (Pt.sub a p)).map fun x => (x.1, 1 - x.2) := by
  have hdet : det2 u (Pt.sub b a) = - det2 u (Pt.sub a b) := by simp only [det2, Pt.sub]; ring
  by_cases h : det2 u (Pt.sub a b) = 0
  · rw [solve2_none h, solve2_none (by rw [hdet, h, neg_zero])]; rfl
  · have h' : det2 u (Pt.sub b a) ≠ 0 := by rw [hdet]; exact neg_ne_zero.mpr h
    rw [solve2_some h, solve2_some h']
    simp only [Option.map_some, Option.some.injEq, Prod.mk.injEq]
    constructor
    · rw [div_eq_div_iff h' h]; simp only [det2, Pt.sub]; ring
    · rw [div_eq_iff h', sub_mul, one_mul, div_mul_eq_mul_div, hdet, mul_neg, neg_div, mul_div_assoc, div_self h, mul_one]
      simp only [det2, Pt.sub]; ring

theorem edgeCross_reverse_line (a b : Pt) (e : Pt × Pt) :
    edgeCross b a e = (edgeCross a b e).map Cross.rev := by
  unfold edgeCross
  simp only
  rw [solve2_reverse_line]
  cases solve2 (Pt.sub e.2 e.1) (Pt.sub a b) (Pt.sub a e.1) with
  | none => rfl
  | some x =>
    obtain ⟨x0, x1⟩ := x
    simp only [Option.map_some]
    have hc : ((decide (-lpiTol ≤ x0) && decide (x0 ≤ 1 + lpiTol)) && (decide (-lpiTol ≤ 1 - x1) && decide (1 - x1 ≤ 1 + lpiTol)))
        = ((decide (-lpiTol ≤ x0) && decide (x0 ≤ 1 + lpiTol)) && (decide (-lpiTol ≤ x1) && decide (x1 ≤ 1 + lpiTol))) := by
      have d1 : decide (-lpiTol ≤ 1 - x1) = decide (x1 ≤ 1 + lpiTol) := decide_eq_decide.mpr ⟨fun h => by linarith, fun h => by linarith⟩
      have d2 : decide (1 - x1 ≤ 1 + lpiTol) = decide (-lpiTol ≤ x1) := decide_eq_decide.mpr ⟨fun h => by linarith, fun h => by linarith⟩
      rw [d1, d2, Bool.and_comm (decide (x1 ≤ 1 + lpiTol))]
    rw [hc]
    split
    · rfl
    · rfl

theorem crossStep_reverse (a b : Pt) (acc : List Cross) (e : Pt × Pt) :
    crossStep b a (acc.map Cross.rev) e = (crossStep a b acc e).map Cross.rev := by
  unfold crossStep
  rw [edgeCross_reverse_line]
  cases edgeCross a b e with
  | none => rfl
  | some c =>
    simp only [Option.map_some]
    have : (acc.map Cross.rev).any (fun x => x.pt == (Cross.rev c).pt) = acc.any (fun x => x.pt == c.pt) := by
      rw [List.any_map]; rfl
    rw [this]
    split
    · rfl
    · simp [List.map_append]

/-- **(4b)** the crossings of the reversed line with a polygon are the same points, in the same
    order, with parameters `1 − t` -/
theorem crossings_reverse (poly : Poly) (a b : Pt) :
    crossings poly b a = (crossings poly a b).map Cross.rev := by
  unfold crossings
  have : ∀ (es : List (Pt × Pt)) (acc : List Cross),
      es.foldl (crossStep b a) (acc.map Cross.rev) = (es.foldl (crossStep a b) acc).map Cross.rev := by
    intro es
    induction es with
    | nil => intro acc; rfl
    | cons e t ih =>
      intro acc
      simp only [List.foldl_cons]
      rw [crossStep_reverse, ih]
  exact this (edges poly) []

end Proofs.Track
