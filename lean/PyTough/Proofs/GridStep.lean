/-
  From the method-level lemmas to `step`: object construction, and the preconditions `pre`
  unfolded per operation.
-/
import PyTough.Proofs.GridOpsCon
namespace Proofs.Grid
open Py Model Model.Grid Model.Grid.World

/-! ### constructing objects does not disturb the grid -/

theorem newRock_inv {w : World} (hI : Grid.Inv w) (v : Rock) : Grid.Inv (w.newRock v).2 := by
  have hlt : ∀ r ∈ w.rocktypelist, (w.newRock v).2.rname r = w.rname r := by
    intro r hr; simp only [World.rname, rk_newRock, hI.rl_lt r hr, if_true]
  refine Inv.mk' ?_ ?_ ?_ ?_ ?_
  · exact hI.rockInv.frame rfl rfl (by simp [World.newRock]) hlt
  · exact hI.blockInv.frame rfl rfl (Nat.le_refl _) (fun _ _ => rfl)
  · exact hI.conInv.frame rfl rfl (Nat.le_refl _) (fun c h => ⟨(hI.c_ends c h).1, (hI.c_ends c h).2.1⟩) (fun _ _ => rfl) (fun _ _ => rfl)
  · exact hI.rockLink.frame rfl (fun _ h => h) (fun _ _ => rfl)
  · exact hI.connLink.frame hI.conInv rfl rfl (fun _ _ => rfl) (fun _ _ => rfl) (fun _ _ => rfl)

theorem bk_newBlk_old {w : World} (v : Blk) {b : Nat} (hb : b < w.blks.length) : (w.newBlk v).2.bk b = w.bk b := by
  simp only [bk_newBlk, hb, if_true]

theorem newBlk_inv {w : World} (hI : Grid.Inv w) (v : Blk) : Grid.Inv (w.newBlk v).2 := by
  have hbk : ∀ b ∈ w.blocklist, (w.newBlk v).2.bk b = w.bk b := fun b hb => bk_newBlk_old v (hI.bl_lt b hb)
  have hnm : ∀ b ∈ w.blocklist, (w.newBlk v).2.bname b = w.bname b := fun b hb => by simp only [World.bname, hbk b hb]
  refine Inv.mk' ?_ ?_ ?_ ?_ ?_
  · exact hI.rockInv.frame rfl rfl (Nat.le_refl _) (fun _ _ => rfl)
  · exact hI.blockInv.frame rfl rfl (by simp [World.newBlk]) hnm
  · exact hI.conInv.frame rfl rfl (Nat.le_refl _) (fun c h => ⟨(hI.c_ends c h).1, (hI.c_ends c h).2.1⟩) (fun _ _ => rfl) hnm
  · exact hI.rockLink.frame rfl (fun _ h => h) (fun b hb => by rw [hbk b hb])
  · exact hI.connLink.frame hI.conInv rfl rfl (fun _ _ => rfl) hnm (fun b hb => by rw [hbk b hb])

theorem cn_newCon_old {w : World} (v : Con) {c : Nat} (hc : c < w.cons.length) : (w.newCon v).2.cn c = w.cn c := by
  simp only [cn_newCon, hc, if_true]

theorem newCon_inv {w : World} (hI : Grid.Inv w) (v : Con) : Grid.Inv (w.newCon v).2 := by
  have hcn : ∀ c ∈ w.connectionlist, (w.newCon v).2.cn c = w.cn c := fun c hc => cn_newCon_old v (hI.cl_lt c hc)
  refine Inv.mk' ?_ ?_ ?_ ?_ ?_
  · exact hI.rockInv.frame rfl rfl (Nat.le_refl _) (fun _ _ => rfl)
  · exact hI.blockInv.frame rfl rfl (Nat.le_refl _) (fun _ _ => rfl)
  · exact hI.conInv.frame rfl rfl (by simp [World.newCon]) (fun c h => ⟨(hI.c_ends c h).1, (hI.c_ends c h).2.1⟩) hcn (fun _ _ => rfl)
  · exact hI.rockLink.frame rfl (fun _ h => h) (fun _ _ => rfl)
  · exact hI.connLink.frame hI.conInv rfl rfl hcn (fun _ _ => rfl) (fun _ _ => rfl)

/-! ### the preconditions, unfolded -/

theorem rockInUse_false {w : World} {r : Nat} (h : rockInUse w r = false) : ∀ b ∈ w.blocklist, (w.bk b).rock ≠ r := by
  intro b hb e
  have : rockInUse w r = true := by
    unfold rockInUse; rw [List.any_eq_true]; exact ⟨b, hb, by simp [e]⟩
  rw [h] at this; cases this

theorem rockNameInUse_false {w : World} {nm : Name} (h : rockNameInUse w nm = false) :
    ∀ old, dget w.rocktype nm = some old → ∀ b ∈ w.blocklist, (w.bk b).rock ≠ old := by
  intro old hd
  unfold rockNameInUse at h; rw [hd] at h
  exact rockInUse_false h

theorem blockNameConnected_false {w : World} {nm : Name} (h : blockNameConnected w nm = false) :
    ∀ old, dget w.block nm = some old → (w.bk old).conn = [] := by
  intro old hd
  unfold blockNameConnected at h; rw [hd] at h
  simpa using h

/-! ### step, operation by operation -/

theorem step_addRocktype_inv {w : World} (hI : Grid.Inv w) (nm : Name) (tag : Nat)
    (hpre : preBasic w (.addRocktype nm tag) = true) : Grid.Inv (stepAddRocktype w nm tag).w := by
  simp only [preBasic, Bool.not_eq_true'] at hpre
  simp only [stepAddRocktype, ofR_w]
  have hI1 := newRock_inv hI { name := nm, tag := tag }
  have hname : (w.newRock { name := nm, tag := tag }).2.rname w.rocks.length = nm := by
    simp [World.rname, rk_newRock]
  refine addRocktype_inv hI1 (by simp [World.newRock]) ?_ ?_
  · intro h; exact Nat.lt_irrefl _ (hI.rl_lt _ h)
  · intro old hd b hb
    rw [show (w.newRock { name := nm, tag := tag }).2.rname (w.newRock { name := nm, tag := tag }).1 = nm from hname] at hd
    have := rockNameInUse_false hpre old hd b hb
    rwa [show (w.newRock { name := nm, tag := tag }).2.bk b = w.bk b from rfl]

theorem step_addBlock_inv {w : World} (hI : Grid.Inv w) (nm rock : Name) (vol : Rat) (centre : Option (List Rat))
    (hpre : preBasic w (.addBlock nm rock vol centre) = true) : Grid.Inv (stepAddBlock w nm rock vol centre).w := by
  simp only [preBasic, Bool.and_eq_true, Bool.not_eq_true', Option.isSome_iff_exists] at hpre
  obtain ⟨⟨rt, hrt⟩, hfree⟩ := hpre
  simp only [stepAddBlock, hrt, ofR_w]
  have hrt' := hI.rd_sound _ _ hrt
  generalize hv : ({ name := nm, volume := vol, rock := rt, centre := centre, conn := [] } : Blk) = v
  have hI1 := newBlk_inv hI v
  have hbk : (w.newBlk v).2.bk w.blks.length = v := by simp [bk_newBlk]
  refine addBlock_inv hI1 (by simp [World.newBlk]) ?_ ?_ ?_ ?_
  · intro h; exact Nat.lt_irrefl _ (hI.bl_lt _ h)
  · show ((w.newBlk v).2.bk w.blks.length).conn = []; rw [hbk, ← hv]
  · show ((w.newBlk v).2.bk w.blks.length).rock ∈ w.rocktypelist; rw [hbk, ← hv]; exact hrt'.1
  · intro old hd
    have hnm : (w.newBlk v).2.bname (w.newBlk v).1 = nm := by
      show ((w.newBlk v).2.bk w.blks.length).name = nm; rw [hbk, ← hv]
    rw [hnm] at hd
    have hold := hI.bd_sound _ _ hd
    rw [bk_newBlk_old v (hI.bl_lt _ hold.1)]
    exact blockNameConnected_false hfree old hd

theorem step_addConnection_inv {w : World} (hI : Grid.Inv w) (n0 n1 : Name) (p : ConPay)
    (hpre : preBasic w (.addConnection n0 n1 p) = true) : Grid.Inv (stepAddConnection w n0 n1 p).w := by
  simp only [preBasic, Bool.and_eq_true, Option.isSome_iff_exists, bne_iff_ne, ne_eq] at hpre
  obtain ⟨⟨⟨b0, h0⟩, ⟨b1, h1⟩⟩, hne⟩ := hpre
  simp only [stepAddConnection, World.blockOrFresh, h0, h1, ofR_w]
  have hb0 := hI.bd_sound _ _ h0
  have hb1 := hI.bd_sound _ _ h1
  generalize hv : mkCon b0 b1 p = v
  have hv0 : v.b0 = b0 := by rw [← hv]; rfl
  have hv1 : v.b1 = b1 := by rw [← hv]; rfl
  have hI1 := newCon_inv hI v
  have hcn : (w.newCon v).2.cn (w.newCon v).1 = v := by
    show (w.newCon v).2.cn w.cons.length = v; simp [cn_newCon]
  refine addConnection_inv hI1 (by simp [World.newCon]) ?_ ?_ ?_ ?_
  · intro h; exact Nat.lt_irrefl _ (hI.cl_lt _ h)
  · rw [hcn, hv0]; exact hb0.1
  · rw [hcn, hv1]; exact hb1.1
  · rw [hcn, hv0, hv1]
    intro e; subst e
    exact hne (hb0.2.symm.trans hb1.2)

/-- the three constructor-and-add calls, as one lemma -/
theorem stepBasic_inv {w : World} (hI : Grid.Inv w) (op : Op) (hpre : preBasic w op = true) :
    Grid.Inv (stepBasic w op).w := by
  cases op with
  | addRocktype nm tag => exact step_addRocktype_inv hI nm tag hpre
  | addBlock nm rock vol centre => exact step_addBlock_inv hI nm rock vol centre hpre
  | addConnection n0 n1 p => exact step_addConnection_inv hI n0 n1 p hpre
  | _ => simp [preBasic] at hpre

theorem runBasic_inv {w : World} (hI : Grid.Inv w) (ops : List Op) (hpre : preAllBasic w ops = true) :
    Grid.Inv (runBasic w ops) := by
  induction ops generalizing w with
  | nil => exact hI
  | cons op r ih =>
    simp only [preAllBasic, Bool.and_eq_true] at hpre
    exact ih (stepBasic_inv hI op hpre.1) hpre.2

end Proofs.Grid
