/-
  `tsat (sat t) = t` on 0.01 .. 373.9 degC without branch hypotheses: the branch conditions are discharged on a cover
  of the saturation interval 273.16 K .. 647.05 K by 85 pieces (ThermoSatCover1..4.lean).
-/
import PyTough.Proofs.ThermoSatCover1
import PyTough.Proofs.ThermoSatCover2
import PyTough.Proofs.ThermoSatCover3
import PyTough.Proofs.ThermoSatCover4
import Mathlib.Topology.Order.IntermediateValue
namespace Proofs.Iapws
open Gen.Iapws Model.Thermo Proofs.Thermo Set

/-- the branch conditions hold on the whole interval 273.15999 K ≤ T ≤ 647.0501 K -/
theorem branch_cover (T : ℝ) (h0 : (27315999 / 100000 : ℝ) ≤ T) (hN : T ≤ (6470501 / 10000 : ℝ)) : Branch (thetaOf T) := by
  by_cases c0 : T ≤ (92021009 / 200000 : ℝ)
  · exact Cover.cover0 T h0 c0
  have g0 := le_of_lt (not_le.mp c0)
  by_cases c1 : T ≤ (31914352527 / 50000000 : ℝ)
  · exact Cover.cover1 T g0 c1
  have g1 := le_of_lt (not_le.mp c1)
  by_cases c2 : T ≤ (64662411843 / 100000000 : ℝ)
  · exact Cover.cover2 T g1 c2
  have g2 := le_of_lt (not_le.mp c2)
  exact Cover.cover3 T g2 hN

/-- **`tsat (sat t) = t` for every `t` with 0.01 ≤ t ≤ 373.9 degC**, exactly, over the reals, with no further hypothesis:
    the range tests of both routines and all branch conditions are proved on this interval. -/
theorem sat_tsat_inverse_on (t : ℝ) (h0 : 1 / 100 ≤ t) (h1 : t ≤ 3739 / 10) : tsat (sat t).toK = Ret.num t := by
  have hk : (27314999 / 100000 : ℝ) < tc_k ∧ (tc_k : ℝ) < 27315001 / 100000 := by unfold tc_k; rw [tf_lit]; norm_num
  have hc : (3739 / 10 : ℝ) < tcritical := by unfold tcritical; rw [tf_lit]; norm_num
  have ht0 : 0 ≤ t := by linarith
  have ht1 : t ≤ tcritical := by linarith
  obtain ⟨b1, b2, b3, b4, b5, b6, b7⟩ := branch_cover (t + tc_k) (by linarith [hk.1]) (by linarith [hk.2])
  have hs : (sat t).toK = pstar4 * (satBeta (thetaOf (t + tc_k)) * satBeta (thetaOf (t + tc_k)))
      * (satBeta (thetaOf (t + tc_k)) * satBeta (thetaOf (t + tc_k))) := by rw [sat_eq t ht0 ht1]; rfl
  exact sat_tsat_inverse t ht0 ht1 b1 b2 b3 b4 b5 (by rw [hs]; exact ⟨b6, b7⟩)

/-- saturation pressure as a real function of the Celsius temperature -/
noncomputable def satK (t : ℝ) : ℝ := (sat t).toK

theorem satK_eq (t : ℝ) (h0 : 1 / 100 ≤ t) (h1 : t ≤ 3739 / 10) :
    sat t = Ret.num (satK t) ∧ satK t = pstar4 * (satBeta (thetaOf (t + tc_k)) * satBeta (thetaOf (t + tc_k)))
      * (satBeta (thetaOf (t + tc_k)) * satBeta (thetaOf (t + tc_k))) := by
  have hc : (3739 / 10 : ℝ) < tcritical := by unfold tcritical; rw [tf_lit]; norm_num
  have e := sat_eq t (by linarith) (by linarith)
  unfold satK; rw [e]; exact ⟨rfl, rfl⟩

theorem in_cover (t : ℝ) (h0 : 1 / 100 ≤ t) (h1 : t ≤ 3739 / 10) : Branch (thetaOf (t + tc_k)) := by
  have hk : (27314999 / 100000 : ℝ) < tc_k ∧ (tc_k : ℝ) < 27315001 / 100000 := by unfold tc_k; rw [tf_lit]; norm_num
  exact branch_cover (t + tc_k) (by linarith [hk.1]) (by linarith [hk.2])

theorem satK_continuousOn : ContinuousOn satK (Icc (1 / 100) (3739 / 10)) := by
  set s : Set ℝ := Icc (1 / 100) (3739 / 10) with hs
  have hk : (tc_k : ℝ) < 27315001 / 100000 := by unfold tc_k; rw [tf_lit]; norm_num
  have hn : (650 : ℝ) < nr4_9 := by unfold nr4_9; rw [tf_lit]; norm_num
  have hT : ContinuousOn (fun t : ℝ => t + tc_k) s := (continuousOn_id).add continuousOn_const
  have hθ : ContinuousOn (fun t : ℝ => thetaOf (t + tc_k)) s := by
    unfold thetaOf
    refine hT.add (continuousOn_const.div (hT.sub continuousOn_const) ?_)
    intro t ht; have := ht.2; apply ne_of_lt; linarith
  have hA : ContinuousOn (fun t : ℝ => satA (thetaOf (t + tc_k))) s := by
    unfold satA; exact ((hθ.mul hθ).add (continuousOn_const.mul hθ)).add continuousOn_const
  have hB : ContinuousOn (fun t : ℝ => satB (thetaOf (t + tc_k))) s := by
    unfold satB; exact ((continuousOn_const.mul (hθ.mul hθ)).add (continuousOn_const.mul hθ)).add continuousOn_const
  have hC : ContinuousOn (fun t : ℝ => satC (thetaOf (t + tc_k))) s := by
    unfold satC; exact ((continuousOn_const.mul (hθ.mul hθ)).add (continuousOn_const.mul hθ)).add continuousOn_const
  have hD : ContinuousOn (fun t : ℝ => satDisc (thetaOf (t + tc_k))) s := by
    unfold satDisc; exact (hB.mul hB).sub ((continuousOn_const.mul hA).mul hC)
  have hden : ContinuousOn (fun t : ℝ => satDen (thetaOf (t + tc_k))) s := by
    unfold satDen; exact hB.neg.add (Real.continuous_sqrt.comp_continuousOn hD)
  have hβ : ContinuousOn (fun t : ℝ => satBeta (thetaOf (t + tc_k))) s := by
    unfold satBeta
    refine (continuousOn_const.mul hC).div hden ?_
    intro t ht; exact (in_cover t ht.1 ht.2).2.1
  have hg : ContinuousOn (fun t : ℝ => pstar4 * (satBeta (thetaOf (t + tc_k)) * satBeta (thetaOf (t + tc_k)))
      * (satBeta (thetaOf (t + tc_k)) * satBeta (thetaOf (t + tc_k)))) s :=
    (continuousOn_const.mul (hβ.mul hβ)).mul (hβ.mul hβ)
  exact hg.congr (fun t ht => (satK_eq t ht.1 ht.2).2)

/-- **`sat (tsat p) = p` for every `p` between `sat(0.01)` and `sat(373.9)`**, exactly, over the reals, with no further
    hypothesis (`sat` is continuous there, so every such `p` is a saturation pressure; then `sat_tsat_inverse_on`). -/
theorem tsat_sat_inverse_on (p : ℝ) (h0 : satK (1 / 100) ≤ p) (h1 : p ≤ satK (3739 / 10)) : sat (tsat p).toK = Ret.num p := by
  obtain ⟨t, ht, rfl⟩ := intermediate_value_Icc (by norm_num : (1 / 100 : ℝ) ≤ 3739 / 10) satK_continuousOn ⟨h0, h1⟩
  have e := sat_tsat_inverse_on t ht.1 ht.2
  unfold satK
  rw [e]
  exact (satK_eq t ht.1 ht.2).1

theorem Piece.betaT (P : Piece) (h : P.ok) (Ta Tb : ℝ) (hb : Tb < nr4_9) (ea : P.a ≤ thetaOf Ta) (eb : thetaOf Tb ≤ P.b)
    (T : ℝ) (h1 : Ta ≤ T) (h2 : T ≤ Tb) : P.βlo ≤ satBeta (thetaOf T) ∧ satBeta (thetaOf T) ≤ P.βhi := by
  obtain ⟨_, _, a, b⟩ := P.beta h _ (le_trans ea (thetaOf_mono _ _ h1 (lt_of_le_of_lt h2 hb))) (le_trans (thetaOf_mono _ _ h2 hb) eb)
  exact ⟨a, b⟩

/-- numeric enclosure of the two ends: `sat(0.01) ≤ 613 Pa`, `sat(373.9) ≥ 22.039 MPa` -/
theorem satK_ends : satK (1 / 100) ≤ 613 ∧ 22039000 ≤ satK (3739 / 10) := by
  have hk : (27314999 / 100000 : ℝ) < tc_k ∧ (tc_k : ℝ) < 27315001 / 100000 := by unfold tc_k; rw [tf_lit]; norm_num
  have hpp := pstar4_pos
  constructor
  · have e := (satK_eq (1 / 100) (le_refl _) (by norm_num)).2
    obtain ⟨lo, hi⟩ := Cover.P0.betaT Cover.P0_ok (27315999 / 100000 : ℝ) (27317520363 / 100000000 : ℝ) (by unfold nr4_9; rw [tf_lit]; norm_num)
      (by unfold Cover.P0 thetaOf nr4_8 nr4_9; simp only [tf_lit]; norm_num)
      (by unfold Cover.P0 thetaOf nr4_8 nr4_9; simp only [tf_lit]; norm_num) (1 / 100 + tc_k) (by linarith [hk.1]) (by linarith [hk.2])
    have b0 : 0 ≤ satBeta (thetaOf (1 / 100 + tc_k)) := (in_cover (1 / 100) (le_refl _) (by norm_num)).2.2.1
    have s2 := mul_self_le_mul_self b0 hi
    have s4 := mul_self_le_mul_self (mul_self_nonneg _) s2
    have := mul_le_mul_of_nonneg_left s4 (le_of_lt hpp)
    have hnum : (pstar4 : ℝ) * ((Cover.P0.βhi * Cover.P0.βhi) * (Cover.P0.βhi * Cover.P0.βhi)) ≤ 613 := by
      unfold Cover.P0 pstar4; simp only [tf_lit]; norm_num
    rw [e]; nlinarith
  · have e := (satK_eq (3739 / 10) (by norm_num) (le_refl _)).2
    obtain ⟨lo, hi⟩ := Cover.P84.betaT Cover.P84_ok (32352124659 / 50000000 : ℝ) (6470501 / 10000 : ℝ) (by unfold nr4_9; rw [tf_lit]; norm_num)
      (by unfold Cover.P84 thetaOf nr4_8 nr4_9; simp only [tf_lit]; norm_num)
      (by unfold Cover.P84 thetaOf nr4_8 nr4_9; simp only [tf_lit]; norm_num) (3739 / 10 + tc_k) (by linarith [hk.1]) (by linarith [hk.2])
    have b0 : 0 < Cover.P84.βlo := by unfold Cover.P84; norm_num
    have s2 := mul_self_le_mul_self (le_of_lt b0) lo
    have s4 := mul_self_le_mul_self (mul_self_nonneg _) s2
    have := mul_le_mul_of_nonneg_left s4 (le_of_lt hpp)
    have hnum : (22039000 : ℝ) ≤ pstar4 * ((Cover.P84.βlo * Cover.P84.βlo) * (Cover.P84.βlo * Cover.P84.βlo)) := by
      unfold Cover.P84 pstar4; simp only [tf_lit]; norm_num
    rw [e]; nlinarith

/-- in particular for every pressure from 613 Pa to 22.039 MPa -/
theorem tsat_sat_inverse_range (p : ℝ) (h0 : 613 ≤ p) (h1 : p ≤ 22039000) : sat (tsat p).toK = Ret.num p :=
  tsat_sat_inverse_on p (le_trans satK_ends.1 h0) (le_trans h1 satK_ends.2)
end Proofs.Iapws
