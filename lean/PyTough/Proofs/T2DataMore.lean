/-
  C01 proofs, layer 3h: INDOM, MOMOP (and the MOP digit strings), SELEC, DIFFU.
-/
import PyTough.Proofs.T2DataParamSection
set_option linter.unusedSimpArgs false
namespace Proofs.T2
open Py Model Model.T2 Proofs Proofs.Incon
open Gen.Sections (Rec)

/-! ### a partially filled line of a uniform numeric record -/

theorem uniform_partial_read {r : Rec} {n : Nat} {f0 : FieldSpec} (hr : ChunkRec r n f0) (vals : List Val) (hl : vals.length ≤ n)
    {l : Str} (hw : writeValuesLine r vals = .ok l) (pad : Str) (hpad : ∀ c ∈ pad, isStrWs c = true) :
    readValues .default r (l ++ pad) = .ok (vals.map (canonV f0) ++ List.replicate (n - vals.length) Val.none) := by
  have hvalid : ∀ f ∈ r.fs, ValidTyp f.typ := fun f hf => by rw [hr.uniform f hf]; exact NumericTyp.valid hr.numeric
  have hnum : ∀ f ∈ r.fs.drop vals.length, NumericTyp f.typ := fun f hf => by
    rw [hr.uniform f (List.mem_of_mem_drop hf)]; exact hr.numeric
  rw [readValues_written r vals hvalid hnum hw pad hpad, hr.fs_eq, map_zip_replicate f0 n vals hl, List.drop_replicate,
    List.map_replicate]

/-! ### INDOM -/

/-- an INDOM entry the writer and reader agree on: a visible five-character rock name and one to four values
    that read back as values -/
structure GoodIndom (f0 : FieldSpec) (e : Str × List Val) : Prop where
  len : e.1.length = 5
  vis : isBlank e.1 = false
  vars : e.2.length ≤ 4
  present : ∀ x ∈ e.2, canonV f0 x ≠ Val.none

theorem indom_record {T : Tabs} {r : Rec} {f0 : FieldSpec} (hT : T.get c!"indom2" = .ok r) (hr : ChunkRec r 4 f0)
    (e : Str × List Val) (hg : GoodIndom f0 e) {l2 : Str} (hw : writeValuesLine r e.2 = .ok l2) :
    isBlank (nl e.1) = false ∧
      ∀ rest, readIndomRec .default T (nl e.1) (l2 :: rest) = .ok ((e.1, e.2.map (canonV f0)), 1) := by
  refine ⟨not_blank_append hg.vis, fun rest => ?_⟩
  unfold readIndomRec
  have h := uniform_partial_read hr e.2 hg.vars hw [] (by intro c hc; cases hc)
  rw [List.append_nil] at h
  simp only [hT, bind, Except.bind, pure, Except.pure, readline, h]
  rw [trim_canon_nones (by
    intro v hv
    obtain ⟨x, hx, rfl⟩ := List.mem_map.mp hv
    exact hg.present x hx)]
  have : slice (nl e.1) 0 5 = e.1 := by
    have := slice_prefix e.1 ['\n']
    rw [hg.len] at this
    exact this
  rw [this]

/-- **section_roundtrip_INDOM**: the rock-specific initial conditions (rock name line, then up to four values at
    14 significant digits) read back one for one, in dictionary order; the closing blank line is consumed -/
theorem section_roundtrip_INDOM {T : Tabs} {r : Rec} {f0 : FieldSpec} (hT : T.get c!"indom2" = .ok r) (hr : ChunkRec r 4 f0)
    (d : Indom) (hg : ∀ e ∈ d, GoodIndom f0 e) (hw : ∀ e ∈ d, ∃ ls, writeIndomEntry T e = .ok ls)
    (d0 : Indom) (rest : List Str) :
    readIndom .default T d0
        ((d.map (fun e => match writeIndomEntry T e with | .ok ls => ls | .error _ => [])).flatten ++ nl [] :: rest) =
      .ok ((d.map (fun e => (e.1, e.2.map (canonV f0)))).foldl setIndom d0, rest) := by
  unfold readIndom
  have hrt : ∀ e ∈ d, RecordRT id (fun _ => false) (readIndomRec .default T)
      (fun e => match writeIndomEntry T e with | .ok ls => ls | .error _ => []) (fun e => (e.1, e.2.map (canonV f0))) e := by
    intro e he
    obtain ⟨ls, hls⟩ := hw e he
    have hls' := hls
    unfold writeIndomEntry at hls'
    simp only [hT, bind, Except.bind, pure, Except.pure] at hls'
    cases hl2 : writeValuesLine r e.2 with
    | error err => rw [hl2] at hls'; cases hls'
    | ok l2 =>
      rw [hl2] at hls'
      cases hls'
      obtain ⟨hnb, hrd⟩ := indom_record hT hr e (hg e he) hl2
      exact ⟨nl e.1, [l2], by simp only [hls], hnb, rfl, fun rest' => hrd rest'⟩
  rw [untilBlank_roundtrip id (fun _ => false) _ _ _ d hrt (nl []) (Or.inl isBlank_nl_nil) rest]
  rfl


/-! ### the MOP digit strings (PARAM's 24 options, MOMOP's 21) -/

def digits10 : List Int := [0, 1, 2, 3, 4, 5, 6, 7, 8, 9]

theorem mop_digit {i : Int} (hi : i ∈ digits10) :
    ∃ ch, intStr i = [ch] ∧ pyInt [ch] = .ok i ∧ isStrWs ch = false ∧ ch ≠ ' ' := by
  unfold digits10 at hi
  simp only [List.mem_cons, List.not_mem_nil, or_false] at hi
  rcases hi with rfl | rfl | rfl | rfl | rfl | rfl | rfl | rfl | rfl | rfl
  · exact ⟨'0', by decide, by decide, by decide, by decide⟩
  · exact ⟨'1', by decide, by decide, by decide, by decide⟩
  · exact ⟨'2', by decide, by decide, by decide, by decide⟩
  · exact ⟨'3', by decide, by decide, by decide, by decide⟩
  · exact ⟨'4', by decide, by decide, by decide, by decide⟩
  · exact ⟨'5', by decide, by decide, by decide, by decide⟩
  · exact ⟨'6', by decide, by decide, by decide, by decide⟩
  · exact ⟨'7', by decide, by decide, by decide, by decide⟩
  · exact ⟨'8', by decide, by decide, by decide, by decide⟩
  · exact ⟨'9', by decide, by decide, by decide, by decide⟩

/-- the digit string of a list of one-digit options: one visible, non-blank character per option, each reading
    back as its option -/
theorem mop_string (ds : List Int) (hd : ∀ i ∈ ds, i ∈ digits10) :
    (ds.flatMap intStr).length = ds.length ∧ (∀ c ∈ ds.flatMap intStr, isStrWs c = false ∧ c ≠ ' ' ∧ c ≠ '\n') ∧
      (ds.flatMap intStr).mapM (fun c => pyInt [c]) = .ok ds := by
  induction ds with
  | nil => exact ⟨rfl, (by intro c hc; cases hc), rfl⟩
  | cons i is ih =>
    obtain ⟨ch, h1, h2, h3, h4⟩ := mop_digit (hd i (by simp))
    obtain ⟨ihl, ihc, ihm⟩ := ih (fun j hj => hd j (List.mem_cons_of_mem _ hj))
    simp only [List.flatMap_cons, h1, List.cons_append, List.nil_append, List.length_cons, ihl, List.mapM_cons, h2, ihm,
      bind, Except.bind, pure, Except.pure, true_and]
    refine ⟨?_, trivial⟩
    intro c hc
    rcases List.mem_cons.mp hc with rfl | hc'
    · refine ⟨h3, h4, ?_⟩
      intro hnl; rw [hnl] at h3; exact absurd h3 (by decide)
    · exact ihc c hc'

theorem rstrip_none {s : Str} (h : ∀ c ∈ s, isStrWs c = false) : rstrip s = s := by
  unfold rstrip rstripBy
  rw [dropWhile_none (fun c hc => h c (List.mem_reverse.mp hc)), List.reverse_reverse]

/-- options: a leading unused entry 0 and `n` one-digit options -/
structure GoodOptions (n : Nat) (opts : List Int) : Prop where
  head : opts.head? = some 0
  len : opts.length = n + 1
  digits : ∀ i ∈ opts.drop 1, i ∈ digits10

/-- **the MOP digits read back**: the string `write_parameters` / `write_more_options` makes of the options decodes
    to the options -/
theorem options_roundtrip {n : Nat} {opts : List Int} (h : GoodOptions n opts) :
    (digitsOfOptions opts).length = n ∧ '\n' ∉ digitsOfOptions opts ∧ optionsOfStr (digitsOfOptions opts) n = .ok opts := by
  obtain ⟨hl, hc, hm⟩ := mop_string (opts.drop 1) h.digits
  have hlen : (digitsOfOptions opts).length = n := by
    unfold digitsOfOptions; rw [hl, List.length_drop, h.len]; omega
  refine ⟨hlen, fun hnl => (hc _ hnl).2.2 rfl, ?_⟩
  unfold optionsOfStr
  have hs : rstrip (digitsOfOptions opts) = digitsOfOptions opts := rstrip_none (fun c hc' => (hc c hc').1)
  have hj : ljust (digitsOfOptions opts) n = digitsOfOptions opts := by
    unfold ljust; rw [hlen, Nat.sub_self]; simp
  have hrp : replaceChar ' ' ['0'] (digitsOfOptions opts) = digitsOfOptions opts :=
    replaceChar_of_not_mem (fun hsp => (hc _ hsp).2.1 rfl)
  simp only [hs, hj, hrp, bind, Except.bind, pure, Except.pure]
  have : (digitsOfOptions opts).mapM (fun c => pyInt [c]) = .ok (opts.drop 1) := hm
  rw [this]
  simp only
  cases ho : opts with
  | nil => rw [ho] at h; have := h.len; simp at this
  | cons a as =>
    have := h.head
    rw [ho] at this
    simp only [List.head?_cons, Option.some.injEq] at this
    rw [this]; rfl

/-! ### MOMOP -/

/-- **section_roundtrip_MOMOP**: the 21 further options written as one digit string read back as the options -/
theorem section_roundtrip_MOMOP {T : Tabs} {r : Rec} {f : FieldSpec} (hT : T.get c!"_more_option_str" = .ok r)
    (hn : r.names = [c!"_more_option_str"]) (hfs : r.fs = [f]) (ht : f.typ = 's') (hp : f.prec = none) (hw21 : f.width = 21)
    (d d0 : T2Data) (hg : GoodOptions 21 d.moreOption) {lines : List Str} (hw : writeMoreOptions T d = .ok lines)
    (rest : List Str) :
    ∃ body, lines = nl c!"MOMOP" :: body ∧
      readMoreOptions .default T d0 (body ++ rest) = .ok ({ d0 with moreOption := d.moreOption }, rest) := by
  obtain ⟨hlen, hnl, hopt⟩ := options_roundtrip hg
  unfold writeMoreOptions at hw
  simp only [hT, bind, Except.bind, pure, Except.pure] at hw
  cases hl : writeValueLine r [(c!"_more_option_str", .str (digitsOfOptions d.moreOption))] with
  | error e => rw [hl] at hw; cases hw
  | ok l =>
    rw [hl] at hw
    cases hw
    refine ⟨[l], rfl, ?_⟩
    have hr : RecWF r := ⟨by rw [hn, hfs]; rfl, by rw [hfs]; intro g hg'; simp at hg'; subst hg'; unfold ValidTyp; rw [ht]; simp⟩
    have e := valueLine_roundtrip hr _ [] hl [] (by intro c hc; cases hc)
    rw [List.append_nil] at e
    have hname := Props.C02.roundtrip_name_full_width .default ht hp (digitsOfOptions d.moreOption) (by rw [hlen, hw21]) hnl
    have hcanon : canonV f (.str (digitsOfOptions d.moreOption)) = .str (digitsOfOptions d.moreOption) := by
      unfold canonV reparse
      rw [hname.1]; simp only; rw [ht, hname.2]; rfl
    unfold readMoreOptions
    simp only [List.cons_append, List.nil_append, readline, hT, bind, Except.bind, pure, Except.pure, e]
    have hget : (absorb r.names (canonVals r (lineVals r [(c!"_more_option_str", .str (digitsOfOptions d.moreOption))])) []).get
        c!"_more_option_str" = some (.str (digitsOfOptions d.moreOption)) := by
      simp [absorb, canonVals, lineVals, hn, hfs, Dict.get, Dict.set, Dict.has, hcanon]
    rw [hget]
    simp only [Val.str?, hopt]


/-! ### SELEC -/

/-- a selection block the writer and reader agree on: up to sixteen integers of which the first is the number of
    lines of reals, that number being what the list of reals needs, and surviving its own field -/
structure GoodSelection (f1 : FieldSpec) (s : Selection) : Prop where
  head : ∃ rest, s.integer = .int (Int.ofNat ((s.float.length + 8 - 1) / 8)) :: rest
  ilen : s.integer.length ≤ 16
  keep : canonV f1 (.int (Int.ofNat ((s.float.length + 8 - 1) / 8))) = .int (Int.ofNat ((s.float.length + 8 - 1) / 8))

/-- **section_roundtrip_SELEC**: the line of sixteen integers and the lines of eight reals it announces read back:
    every integer and real in its position (absent ones `None`), the reals padded with `None` to whole lines -/
theorem section_roundtrip_SELEC {T : Tabs} {r1 r2 : Rec} {f1 f2 : FieldSpec} (hT1 : T.get c!"selec1" = .ok r1)
    (hT2 : T.get c!"selec2" = .ok r2) (hr1 : ChunkRec r1 16 f1) (hr2 : ChunkRec r2 8 f2) (s : Selection)
    (hg : GoodSelection f1 s) {lines : List Str} (hw : writeSelection T (some s) = .ok lines) (rest : List Str) :
    ∃ body, lines = nl c!"SELEC" :: body ∧
      readSelection .default T (body ++ rest) =
        .ok ({ integer := s.integer.map (canonV f1) ++ List.replicate (16 - s.integer.length) Val.none,
               float := s.float.map (canonV f2) ++
                 List.replicate (((s.float.length + 8 - 1) / 8) * 8 - s.float.length) Val.none }, rest) := by
  obtain ⟨irest, hint⟩ := hg.head
  unfold writeSelection at hw
  simp only [hT1, hT2, bind, Except.bind, pure, Except.pure] at hw
  cases hl1 : writeValuesLine r1 s.integer with
  | error e => rw [hl1] at hw; cases hw
  | ok l1 =>
    rw [hl1] at hw
    have hsl : selecLines s.integer.head? = .ok ((s.float.length + 8 - 1) / 8) := by rw [hint]; rfl
    simp only [hsl] at hw
    cases hch : writeChunks r2 8 s.float s.float.length ((s.float.length + 8 - 1) / 8) with
    | error e => rw [hch] at hw; cases hw
    | ok ls =>
      rw [hch] at hw
      cases hw
      refine ⟨l1 :: ls, rfl, ?_⟩
      unfold readSelection
      have e1 := uniform_partial_read hr1 s.integer hg.ilen hl1 [] (by intro c hc; cases hc)
      rw [List.append_nil] at e1
      simp only [List.cons_append, readline, hT1, hT2, bind, Except.bind, pure, Except.pure, e1]
      have hhead : (s.integer.map (canonV f1) ++ List.replicate (16 - s.integer.length) Val.none).head? =
          some (.int (Int.ofNat ((s.float.length + 8 - 1) / 8))) := by
        rw [hint]; simp only [List.map_cons, List.cons_append, List.head?_cons, hg.keep]
      rw [hhead]
      have hsl' : selecLines (some (Val.int (Int.ofNat ((s.float.length + 8 - 1) / 8)))) = .ok ((s.float.length + 8 - 1) / 8) := rfl
      simp only [hsl', chunked_roundtrip hr2 (by decide) s.float hch rest]

/-! ### DIFFU -/

theorem diffusion_rows {r : Rec} {f0 : FieldSpec} (hr : ChunkRec r 8 f0) (np : Nat) :
    ∀ (rows : List (List Val)) (ls : List Str), rows.mapM (writeValuesLine r) = .ok ls →
      (∀ row ∈ rows, row.length = np ∧ np ≤ 8) → ∀ rest,
      readDiffusion.go .default (Int.ofNat np) r rows.length (ls ++ rest) = .ok (rows.map (·.map (canonV f0)), rest) := by
  intro rows
  induction rows with
  | nil => intro ls h _ rest; simp only [List.mapM_nil, pure, Except.pure] at h; cases h; rfl
  | cons row rows ih =>
    intro ls h hrow rest
    simp only [List.mapM_cons, bind, Except.bind, pure, Except.pure] at h
    cases hl : writeValuesLine r row with
    | error e => rw [hl] at h; cases h
    | ok l =>
      rw [hl] at h
      cases hm : rows.mapM (writeValuesLine r) with
      | error e => rw [hm] at h; cases h
      | ok ls' =>
        rw [hm] at h
        cases h
        obtain ⟨hlen, hnp⟩ := hrow row (by simp)
        have e := uniform_partial_read hr row (by omega) hl [] (by intro c hc; cases hc)
        rw [List.append_nil] at e
        simp only [List.length_cons, List.cons_append, readDiffusion.go, readline, e,
          ih ls' hm (fun x hx => hrow x (List.mem_cons_of_mem _ hx)) rest, List.map_cons]
        have hge : (Int.ofNat np) ≥ 0 := Int.natCast_nonneg np
        simp only [hge, if_true]
        rw [List.take_append_of_le_length (by simp [hlen]), List.take_of_length_le (by simp [hlen])]

/-- **section_roundtrip_DIFFU**: one line of diffusivities per component, `num_phases` values each (MULTI read
    before): every row reads back with its values -/
theorem section_roundtrip_DIFFU {T : Tabs} {r : Rec} {f0 : FieldSpec} (hT : T.get c!"diffusion" = .ok r) (hr : ChunkRec r 8 f0)
    (multi : Dict) (rows : List (List Val)) (hne : rows ≠ []) (np : Nat)
    (hnc : multi.get c!"num_components" = some (.int (Int.ofNat rows.length)))
    (hnp : multi.get c!"num_phases" = some (.int (Int.ofNat np)))
    (hrow : ∀ row ∈ rows, row.length = np ∧ np ≤ 8) {lines : List Str} (hw : writeDiffusion T rows = .ok lines)
    (rows0 : List (List Val)) (rest : List Str) :
    ∃ body, lines = nl c!"DIFFU" :: body ∧
      readDiffusion .default T multi rows0 (body ++ rest) = .ok (rows0 ++ rows.map (·.map (canonV f0)), rest) := by
  have he : rows.isEmpty = false := by cases rows with | nil => exact absurd rfl hne | cons _ _ => rfl
  unfold writeDiffusion at hw
  simp only [he, Bool.false_eq_true, if_false, hT, bind, Except.bind, pure, Except.pure] at hw
  cases hm : rows.mapM (writeValuesLine r) with
  | error e => rw [hm] at hw; cases hw
  | ok ls =>
    rw [hm] at hw
    cases hw
    refine ⟨ls, rfl, ?_⟩
    unfold readDiffusion
    simp only [hnc, hnp, hT, bind, Except.bind, pure, Except.pure]
    have hto : (Int.ofNat rows.length).toNat = rows.length := rfl
    rw [hto, diffusion_rows hr np rows ls hm hrow rest]

end Proofs.T2
