/-
  `Covers` restricted to a set of reader states.  `Proofs.Nav.Covers` quantifies over ALL states, which no real file
  satisfies (two arbitrary states need not even belong to the same file).  Here the hypothesis is asked only of states
  satisfying an invariant `P` that every successful re-read preserves — e.g. the finite orbit of the opened reader, for
  which both conditions are a decidable per-file check (`orbitOk`).  Core Lean only.
-/
import PyTough.Model.ListingNav
import PyTough.Proofs.ListingNav
import PyTough.Model.ListingHistory
namespace Proofs.NavOn
open Py Model.Nav Proofs.Nav

variable {V E W : Type}

/-- on states satisfying `P`, what re-reading result `j < n` shows does not depend on what was shown before -/
def CoversOn (P : V → Prop) (N : Nav V E) (view : V → W) : Prop :=
  ∀ j v v', j < N.n → P v → P v' → (N.load j v).map view = (N.load j v').map view

/-- every successful re-read of a result `j < n` keeps `P` -/
def PreservedBy (P : V → Prop) (N : Nav V E) : Prop :=
  ∀ j v v', j < N.n → P v → N.load j v = .ok v' → P v'

/-- the state satisfies `P` and is what loading some result `j < n` from a `P`-state left behind -/
def LoadedOn (P : V → Prop) (N : Nav V E) (s : V) : Prop := P s ∧ ∃ j u, j < N.n ∧ P u ∧ N.load j u = .ok s

theorem setIndex_loadedOn {P : V → Prop} {N : Nav V E} (hp : PreservedBy P N) {i : Int} {v s : V} (hv : P v)
    (h : setIndex N i v = .ok s) : LoadedOn P N s := by
  obtain ⟨h1, h2, h3⟩ := setIndex_ok h
  have hj : (if i < 0 then i + (N.n : Int) else i).toNat < N.n := by split <;> omega
  exact ⟨hp _ _ _ hj hv h3, _, v, hj, hv, h3⟩

theorem apply_loadedOn {T : Type} {P : V → Prop} (N : Nav V E) (hp : PreservedBy P N) (lt : T → T → Bool) (dist : T → T → T)
    (times : List T) (steps : List Int) (op : Op T) (v s : V) (b : Bool) (hv : LoadedOn P N v)
    (h : apply N lt dist times steps op v = .ok (b, s)) : LoadedOn P N s := by
  have key : ∀ (x : Except E V), ((fun v' => (true, v')) <$> x) = .ok (b, s) → x = .ok s := by
    intro x hx
    cases x with
    | error e => cases hx
    | ok a => injection hx with hx; injection hx with _ h2; subst h2; rfl
  cases op with
  | first => exact setIndex_loadedOn hp hv.1 (key _ h)
  | last => exact setIndex_loadedOn hp hv.1 (key _ h)
  | index i => exact setIndex_loadedOn hp hv.1 (key _ h)
  | next =>
    simp only [apply, next] at h
    split at h
    · exact setIndex_loadedOn hp hv.1 (key _ h)
    · injection h with h; injection h with _ h2; subst h2; exact hv
  | prev =>
    simp only [apply, prev] at h
    split at h
    · exact setIndex_loadedOn hp hv.1 (key _ h)
    · injection h with h; injection h with _ h2; subst h2; exact hv
  | time t =>
    simp only [apply, setNearest] at h
    split at h
    · exact setIndex_loadedOn hp hv.1 (key _ h)
    · cases h
  | step st =>
    simp only [apply, setNearest] at h
    split at h
    · exact setIndex_loadedOn hp hv.1 (key _ h)
    · cases h
  | history => simp only [apply] at h; injection h with h; injection h with _ h2; subst h2; exact hv

theorem run_loadedOn {T : Type} {P : V → Prop} (N : Nav V E) (hp : PreservedBy P N) (lt : T → T → Bool) (dist : T → T → T)
    (times : List T) (steps : List Int) (ops : List (Op T)) (v s : V) (hv : LoadedOn P N v)
    (h : run N lt dist times steps ops v = .ok s) : LoadedOn P N s := by
  induction ops generalizing v with
  | nil => simp only [run] at h; injection h with h; subst h; exact hv
  | cons op ops ih =>
    simp only [run] at h
    split at h
    · rename_i b v' hop
      exact ih v' (apply_loadedOn N hp lt dist times steps op v v' b hv hop) h
    · cases h

/-- **`nav_view_eq_fresh` under a hypothesis real files can satisfy.**  `P` holds of the reader before `first()`, every
    successful re-read keeps `P`, and on `P`-states re-reading result `j` shows the same whatever was shown before.  Then after
    any sequence of successful actions the state `s` shows exactly what the opened reader `v0` shows when positioned directly at
    `s`'s index. -/
theorem nav_view_eq_fresh_on {T : Type} (P : V → Prop) (N : Nav V E) (view : V → W) (hp : PreservedBy P N)
    (hcov : CoversOn P N view) (hl : LoadSetsIndex N)
    (lt : T → T → Bool) (dist : T → T → T) (times : List T) (steps : List Int)
    (u v0 s : V) (hu : P u) (hopen : first N u = .ok v0)
    (ops : List (Op T)) (hrun : run N lt dist times steps ops v0 = .ok s) :
    ∃ f, setIndex N (N.idx s) v0 = .ok f ∧ view f = view s ∧ N.idx f = N.idx s := by
  have h0 : LoadedOn P N v0 := setIndex_loadedOn hp hu hopen
  obtain ⟨_, j, w, hj, hw, hload⟩ := run_loadedOn N hp lt dist times steps ops v0 s h0 hrun
  have hidx : N.idx s = (j : Int) := hl _ _ _ hload
  have h1 : (N.load j v0).map view = .ok (view s) := by
    rw [hcov j v0 w hj h0.1 hw]; exact map_ok_eq hload
  obtain ⟨f, hf, hvf⟩ := of_map_eq_ok h1
  refine ⟨f, ?_, hvf, ?_⟩
  · unfold setIndex
    simp only [hidx]
    have : ¬ ((j : Int) < -(N.n : Int) ∨ (j : Int) ≥ (N.n : Int)) := by omega
    rw [if_neg this]
    have : (if (j : Int) < 0 then (j : Int) + (N.n : Int) else (j : Int)).toNat = j := by split <;> omega
    rw [this]; exact hf
  · rw [hl _ _ _ hf, hidx]

/-! ### the finite orbit: both conditions as one decidable check -/

/-- for the finite set `S` of states: re-reading any result `j < n` from a state of `S` lands in `S` again, and shows the same
    from every state of `S` -/
def orbitOk [DecidableEq V] [DecidableEq W] [DecidableEq E] (N : Nav V E) (view : V → W) (S : List V) : Bool :=
  (List.range N.n).all fun j => S.all fun v =>
    (match N.load j v with | .ok v' => S.contains v' | .error _ => true) &&
    S.all fun v' => decide ((N.load j v).map view = (N.load j v').map view)

theorem orbitOk_spec [DecidableEq V] [DecidableEq W] [DecidableEq E] (N : Nav V E) (view : V → W) (S : List V)
    (h : orbitOk N view S = true) : PreservedBy (· ∈ S) N ∧ CoversOn (· ∈ S) N view := by
  simp only [orbitOk, List.all_eq_true, List.mem_range, Bool.and_eq_true, decide_eq_true_eq] at h
  constructor
  · intro j v v' hj hv hload
    have := (h j hj v hv).1
    rw [hload] at this
    simpa using this
  · intro j v v' hj hv hv'
    exact (h j hj v hv).2 v' hv'

end Proofs.NavOn

/-! ### the whole-file reader: states can be compared, and what a reader shows -/

deriving instance DecidableEq for Model.Listing.Pos
deriving instance DecidableEq for Model.Listing.Table
deriving instance DecidableEq for Model.Listing.Rd

namespace Proofs.NavOn
open Py Model Model.Listing

/-- what a listing reader shows: index, time, step and the contents of every table -/
structure FileView where
  index : Int
  time : FVal
  step : Step
  tables : List (String × Array (Array FVal))
  deriving DecidableEq

def fileView (s : Rd) : FileView := ⟨s.index, s.time, s.step, s.tables.map fun nt => (nt.1, nt.2.data)⟩

end Proofs.NavOn
