import PyTough.Proofs.FixedReprint
import PyTough.Proofs.InconLines
namespace Proofs.Incon
open Py Model Model.Incon Proofs

/-! ### a re-read value is written back with the same text (when no precision had to be given up) -/

theorem mkRat_parts (N D : Nat) (hD : 0 < D) :
    ∃ g, 0 < g ∧ N = (mkRat (N : Int) D).num.natAbs * g ∧ D = (mkRat (N : Int) D).den * g := by
  have hg : 0 < D.gcd N := Nat.gcd_pos_of_pos_left _ hD
  refine ⟨D.gcd N, hg, ?_, ?_⟩
  · rw [Rat.num_mkRat, if_neg (by omega)]
    simp only [Int.natAbs_natCast]
    have : ((N : Int) / ((D.gcd N : Nat) : Int)).natAbs = N / D.gcd N := by
      rw [← Int.natCast_ediv]; rfl
    rw [this, Nat.div_mul_cancel (Nat.gcd_dvd_right _ _)]
  · rw [Rat.den_mkRat, if_neg (by omega)]
    simp only [Int.natAbs_natCast]
    rw [Nat.div_mul_cancel (Nat.gcd_dvd_left _ _)]

theorem fmtEBody_congr {p n d n' d' : Nat} (h : fmtEParts p n d = fmtEParts p n' d') :
    fmtEBody p n d = fmtEBody p n' d' := by
  unfold fmtEBody; rw [h]


/-- the exact decimal `m·10^t` as a rational (what `pvalToVal` builds) -/
def decRat (m : Nat) (t : Int) : Rat :=
  if t ≥ 0 then mkRat ((m * 10 ^ t.toNat : Nat) : Int) 1 else mkRat (m : Int) (10 ^ (-t).toNat)

theorem decRat_eq (m : Nat) (t : Int) : decRat m t = mkRat ((decNum m t : Nat) : Int) (decDen t) := by
  unfold decRat decNum decDen; split <;> rfl

theorem decRat_fmt (p m : Nat) (t : Int) :
    fmtEParts p (decRat m t).num.natAbs (decRat m t).den = fmtEParts p (decNum m t) (decDen t) := by
  rw [decRat_eq]
  obtain ⟨g, hg, h1, h2⟩ := mkRat_parts (decNum m t) (decDen t) (decDen_pos t)
  have hden : 0 < (mkRat ((decNum m t : Nat) : Int) (decDen t)).den := Rat.den_pos _
  have := fmtEParts_scale p (mkRat ((decNum m t : Nat) : Int) (decDen t)).num.natAbs
    (mkRat ((decNum m t : Nat) : Int) (decDen t)).den g hden hg
  rw [← h1, ← h2] at this
  exact this.symm

theorem decRat_pos (m : Nat) (t : Int) (hm : 0 < m) : 0 < (decRat m t).num := by
  rw [decRat_eq]
  obtain ⟨g, hg, h1, _⟩ := mkRat_parts (decNum m t) (decDen t) (decDen_pos t)
  have hN : 0 < decNum m t := by
    unfold decNum; split
    · exact Nat.mul_pos hm (pow10_pos _)
    · exact hm
  have hnn : 0 ≤ (mkRat ((decNum m t : Nat) : Int) (decDen t)).num := by
    rw [Rat.num_mkRat, if_neg (by have := decDen_pos t; omega)]
    exact Int.ediv_nonneg (by omega) (by omega)
  have hne : (mkRat ((decNum m t : Nat) : Int) (decDen t)).num.natAbs ≠ 0 := by
    intro e; rw [e, Nat.zero_mul] at h1; omega
  omega

theorem rat_neg_iff (a : Rat) : a < 0 ↔ a.num < 0 := by
  rw [Rat.lt_iff]; simp

/-- **A re-read real is written back identically** when its first write needed no reduction of
    precision: `write_values_to_string` puts the same text in the field for the decimal that
    `parse_string` returned as it did for the original value. -/
theorem rewrite_real_stable (rf : ReadFn) {f : FieldSpec} (ht : f.typ = 'e') (r : Rat) {s : Str}
    (hfull : fmtVal f (.real r) = .ok s) (hfit : s.length ≤ f.width) :
    writeField f (.real r) = .ok s ∧ writeField f (pvalToVal (reparse rf f (.real r))) = .ok s := by
  have hd : 0 < r.den := r.den_pos
  have hw : writeField f (.real r) = .ok s := by
    unfold writeField
    rw [if_pos ⟨by simp, by rw [ht]; decide⟩, hfull]
    simp only
    rw [if_neg (by omega)]
  refine ⟨hw, ?_⟩
  have hs := hfull
  rw [fmtVal_e_real ht] at hs
  have hs' : s = pad f.left f.width (signChars (decide (r < 0)) ++ fmtEBody (f.prec.getD 6) r.num.natAbs r.den) := by
    cases hs; rfl
  have hre : reparse rf f (.real r) = .flt (.fin (decide (r < 0)) (fmtEParts (f.prec.getD 6) r.num.natAbs r.den).1
      ((fmtEParts (f.prec.getD 6) r.num.natAbs r.den).2 - (f.prec.getD 6 : Nat))) := by
    unfold reparse
    rw [hw]; simp only
    rw [ht, hs', read_eText rf _ _ _ _ _ _ hd]
  rw [hre]
  by_cases hr0 : r.num.natAbs = 0
  · -- the value is zero: it is read back as zero
    have hz : r = 0 := Rat.num_eq_zero.mp (by omega)
    subst hz
    have : fmtEParts (f.prec.getD 6) (0 : Rat).num.natAbs (0 : Rat).den = (0, 0) := by
      simp [fmtEParts_zero]
    rw [this]
    simp only [pvalToVal, if_true]
    have : decide ((0 : Rat) < 0) = false := by decide
    rw [this]
    exact hw
  · have hn : 0 < r.num.natAbs := by omega
    obtain ⟨hlo, hhi⟩ := fmtEParts_normalised (f.prec.getD 6) r.num.natAbs r.den hn hd
    generalize hme : fmtEParts (f.prec.getD 6) r.num.natAbs r.den = me at hlo hhi ⊢
    obtain ⟨m, e⟩ := me
    simp only at hlo hhi ⊢
    have hm : 0 < m := by have := pow10_pos (f.prec.getD 6); omega
    have hm0 : ¬ m = 0 := by omega
    have hpv : pvalToVal (.flt (.fin (decide (r < 0)) m (e - (f.prec.getD 6 : Nat)))) =
        .real (if decide (r < 0) = true then -(decRat m (e - (f.prec.getD 6 : Nat))) else decRat m (e - (f.prec.getD 6 : Nat))) := by
      simp only [pvalToVal, hm0, if_false, decRat]
    rw [hpv]
    have hdec := fmtEParts_decimal (f.prec.getD 6) m (e - (f.prec.getD 6 : Nat)) hlo hhi
    have hq := decRat_fmt (f.prec.getD 6) m (e - (f.prec.getD 6 : Nat))
    have hpos := decRat_pos m (e - (f.prec.getD 6 : Nat)) hm
    have hparts : ∀ (q : Rat), (q = decRat m (e - (f.prec.getD 6 : Nat)) ∨ q = -(decRat m (e - (f.prec.getD 6 : Nat)))) →
        fmtEParts (f.prec.getD 6) q.num.natAbs q.den = fmtEParts (f.prec.getD 6) r.num.natAbs r.den := by
      intro q hq'
      have : fmtEParts (f.prec.getD 6) q.num.natAbs q.den =
          fmtEParts (f.prec.getD 6) (decRat m (e - (f.prec.getD 6 : Nat))).num.natAbs (decRat m (e - (f.prec.getD 6 : Nat))).den := by
        rcases hq' with rfl | rfl
        · rfl
        · simp
      rw [this, hq, hdec, hme]
      congr 1
      omega
    have hwr : ∀ (q : Rat), (q = decRat m (e - (f.prec.getD 6 : Nat)) ∨ q = -(decRat m (e - (f.prec.getD 6 : Nat)))) →
        decide (q < 0) = decide (r < 0) → writeField f (.real q) = .ok s := by
      intro q hq' hsign
      have hfq : fmtVal f (.real q) = .ok s := by
        rw [fmtVal_e_real ht, hsign, fmtEBody_congr (hparts q hq'), hs']
      unfold writeField
      rw [if_pos ⟨by simp, by rw [ht]; decide⟩, hfq]
      simp only
      rw [if_neg (by omega)]
    by_cases hneg : r < 0
    · have : decide (r < 0) = true := by simpa using hneg
      rw [this]
      simp only [if_true]
      apply hwr _ (Or.inr rfl)
      rw [this]
      have : -(decRat m (e - (f.prec.getD 6 : Nat))) < 0 := by
        rw [rat_neg_iff]; simp only [Rat.neg_num]; omega
      simpa using this
    · have : decide (r < 0) = false := by simpa using hneg
      rw [this]
      simp only [Bool.false_eq_true, if_false]
      apply hwr _ (Or.inl rfl)
      rw [this]
      have : ¬ decRat m (e - (f.prec.getD 6 : Nat)) < 0 := by
        rw [rat_neg_iff]; omega
      simpa using this

end Proofs.Incon
