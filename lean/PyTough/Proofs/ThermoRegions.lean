import PyTough.Proofs.ThermoIfc67
import PyTough.Proofs.ThermoIapws
open Model.Thermo Proofs.Thermo
namespace Proofs.Ifc67

theorem tmin_eq : Proofs.Iapws.tmin = tmin := rfl

theorem tc1C_gt_350 : (350 : ℝ) < tc1C := by
  unfold tc1C Gen.Ifc67.Tc1_C; rw [tf_lit]; norm_num

/-- **The two classifiers agree** below 350 degC when `p` is not between (or on) the two saturation
    curves, between the IFC-67 critical temperature and 590 degC when `p` is not between (or on) the
    two B23 curves, always above 590 degC, and both return `None` outside the same box. -/
theorem regions_agree (t p : ℝ) :
    (t ≤ 350 → ((p < Proofs.Iapws.satP t ∧ p < sat67 t) ∨ (Proofs.Iapws.satP t < p ∧ sat67 t < p)) →
      Gen.Ifc67.region t p = Gen.Iapws.region t p) ∧
    (tc1C < t → t ≤ 590 → ((p < Proofs.Iapws.b23P t ∧ p < b23p67 t) ∨ (Proofs.Iapws.b23P t < p ∧ b23p67 t < p)) →
      Gen.Ifc67.region t p = Gen.Iapws.region t p) ∧
    (590 < t → Gen.Ifc67.region t p = Gen.Iapws.region t p) ∧
    (¬(tmin ≤ t ∧ t ≤ 800 ∧ 0 ≤ p ∧ p ≤ 100000000) → Gen.Ifc67.region t p = Ret.none ∧ Gen.Iapws.region t p = Ret.none) := by
  rw [region67_unfold, Proofs.Iapws.region_unfold, tmin_eq]
  have h350 := tc1C_gt_350
  refine ⟨?_, ?_, ?_, ?_⟩
  · intro ht hp
    by_cases hb : tmin ≤ t ∧ t ≤ 800 ∧ 0 ≤ p ∧ p ≤ 100000000
    · rw [if_pos hb, if_pos hb, if_pos ht, if_pos ht]
      rcases hp with ⟨a, b⟩ | ⟨a, b⟩
      · rw [if_pos b, if_neg (not_lt.mpr (le_of_lt a))]
      · rw [if_neg (not_lt.mpr (le_of_lt b)), if_pos a]
    · rw [if_neg hb, if_neg hb]
  · intro ht1 ht2 hp
    have ht3 : ¬ t ≤ 350 := not_le.mpr (lt_trans h350 ht1)
    by_cases hb : tmin ≤ t ∧ t ≤ 800 ∧ 0 ≤ p ∧ p ≤ 100000000
    · rw [if_pos hb, if_pos hb, if_neg ht3, if_neg ht3, if_neg (not_le.mpr ht1), if_pos ht2, if_pos ht2]
      rcases hp with ⟨a, b⟩ | ⟨a, b⟩
      · rw [if_pos b, if_neg (not_lt.mpr (le_of_lt a))]
      · rw [if_neg (not_lt.mpr (le_of_lt b)), if_pos a]
    · rw [if_neg hb, if_neg hb]
  · intro ht
    have ht3 : ¬ t ≤ 350 := not_le.mpr (by linarith)
    have ht4 : ¬ t ≤ 590 := not_le.mpr ht
    have ht5 : ¬ t ≤ tc1C := by
      unfold tc1C Gen.Ifc67.Tc1_C; rw [tf_lit]; intro h; norm_num at h; linarith
    by_cases hb : tmin ≤ t ∧ t ≤ 800 ∧ 0 ≤ p ∧ p ≤ 100000000
    · rw [if_pos hb, if_pos hb, if_neg ht3, if_neg ht3, if_neg ht5, if_neg ht4, if_neg ht4]
    · rw [if_neg hb, if_neg hb]
  · intro hb
    rw [if_neg hb, if_neg hb]; exact ⟨rfl, rfl⟩

/-- **Exactly where the two classifiers may differ** inside the box: below 350 degC iff `p` lies between the
    two saturation pressures (half-open as the two comparisons are written: IAPWS-97 tests `p > p_sat`,
    IFC-67 tests `p < p_sat`); between the IFC-67 critical temperature and 590 degC iff `p` lies between the
    two B23 pressures; never above 590 degC. -/
theorem regions_differ_iff (t p : ℝ) (hb : tmin ≤ t ∧ t ≤ 800 ∧ 0 ≤ p ∧ p ≤ 100000000) :
    (t ≤ 350 → (Gen.Ifc67.region t p ≠ Gen.Iapws.region t p ↔
      (Proofs.Iapws.satP t < p ∧ p < sat67 t) ∨ (sat67 t ≤ p ∧ p ≤ Proofs.Iapws.satP t))) ∧
    (tc1C < t → t ≤ 590 → (Gen.Ifc67.region t p ≠ Gen.Iapws.region t p ↔
      (Proofs.Iapws.b23P t < p ∧ p < b23p67 t) ∨ (b23p67 t ≤ p ∧ p ≤ Proofs.Iapws.b23P t))) := by
  rw [region67_unfold, Proofs.Iapws.region_unfold, tmin_eq]
  have h350 := tc1C_gt_350
  constructor
  · intro ht
    rw [if_pos hb, if_pos hb, if_pos ht, if_pos ht]
    by_cases h1 : p < sat67 t <;> by_cases h2 : Proofs.Iapws.satP t < p
    · rw [if_pos h1, if_pos h2]; simp [h1, h2]
    · rw [if_pos h1, if_neg h2]
      simp only [ne_eq, not_true_eq_false, false_iff, not_or, not_and, not_le]
      exact ⟨fun h => absurd h h2, fun h => absurd h1 (not_lt.mpr h)⟩
    · rw [if_neg h1, if_pos h2]
      simp only [ne_eq, not_true_eq_false, false_iff, not_or, not_and, not_le]
      exact ⟨fun _ => h1, fun _ => h2⟩
    · rw [if_neg h1, if_neg h2]
      have a := not_lt.mp h1; have b := not_lt.mp h2
      simp [a, b]
  · intro ht1 ht2
    have ht3 : ¬ t ≤ 350 := not_le.mpr (lt_trans h350 ht1)
    rw [if_pos hb, if_pos hb, if_neg ht3, if_neg ht3, if_neg (not_le.mpr ht1), if_pos ht2, if_pos ht2]
    by_cases h1 : p < b23p67 t <;> by_cases h2 : Proofs.Iapws.b23P t < p
    · rw [if_pos h1, if_pos h2]; simp [h1, h2]
    · rw [if_pos h1, if_neg h2]
      simp only [ne_eq, not_true_eq_false, false_iff, not_or, not_and, not_le]
      exact ⟨fun h => absurd h h2, fun h => absurd h1 (not_lt.mpr h)⟩
    · rw [if_neg h1, if_pos h2]
      simp only [ne_eq, not_true_eq_false, false_iff, not_or, not_and, not_le]
      exact ⟨fun _ => h1, fun _ => h2⟩
    · rw [if_neg h1, if_neg h2]
      have a := not_lt.mp h1; have b := not_lt.mp h2
      simp [a, b]
end Proofs.Ifc67
