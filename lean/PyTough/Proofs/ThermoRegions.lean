import PyTough.Proofs.ThermoIfc67
import PyTough.Proofs.ThermoIapws
open Model.Thermo Proofs.Thermo
namespace Proofs.Ifc67

theorem tmin_eq : Proofs.Iapws.tmin = tmin := rfl

theorem tc1C_gt_350 : (350 : ℝ) < tc1C := by
  unfold tc1C Gen.Ifc67.Tc1_C; rw [tf_lit]; norm_num

/-- **The two classifiers agree** below 350 degC when `p` is not between (or on) the two saturation
    curves, between the IFC-67 critical temperature and 590 degC when `p` is not between (or on) the
    two B23 curves, always above 590 degC, and both return `None` outside the same box. -/
theorem regions_agree (t p : ℝ) :
    (t ≤ 350 → ((p < Proofs.Iapws.satP t ∧ p < sat67 t) ∨ (Proofs.Iapws.satP t < p ∧ sat67 t < p)) →
      Gen.Ifc67.region t p = Gen.Iapws.region t p) ∧
    (tc1C < t → t ≤ 590 → ((p < Proofs.Iapws.b23P t ∧ p < b23p67 t) ∨ (Proofs.Iapws.b23P t < p ∧ b23p67 t < p)) →
      Gen.Ifc67.region t p = Gen.Iapws.region t p) ∧
    (590 < t → Gen.Ifc67.region t p = Gen.Iapws.region t p) ∧
    (¬(tmin ≤ t ∧ t ≤ 800 ∧ 0 ≤ p ∧ p ≤ 100000000) → Gen.Ifc67.region t p = Ret.none ∧ Gen.Iapws.region t p = Ret.none) := by
  rw [region67_unfold, Proofs.Iapws.region_unfold, tmin_eq]
  have h350 := tc1C_gt_350
  refine ⟨?_, ?_, ?_, ?_⟩
  · intro ht hp
    by_cases hb : tmin ≤ t ∧ t ≤ 800 ∧ 0 ≤ p ∧ p ≤ 100000000
    · rw [if_pos hb, if_pos hb, if_pos ht, if_pos ht]
      rcases hp with ⟨a, b⟩ | ⟨a, b⟩
      · rw [if_pos b, if_neg (not_lt.mpr (le_of_lt a))]
      · rw [if_neg (not_lt.mpr (le_of_lt b)), if_pos a]
    · rw [if_neg hb, if_neg hb]
  · intro ht1 ht2 hp
    have ht3 : ¬ t ≤ 350 := not_le.mpr (lt_trans h350 ht1)
    by_cases hb : tmin ≤ t ∧ t ≤ 800 ∧ 0 ≤ p ∧ p ≤ 100000000
    · rw [if_pos hb, if_pos hb, if_neg ht3, if_neg ht3, if_neg (not_le.mpr ht1), if_pos ht2, if_pos ht2]
      rcases hp with ⟨a, b⟩ | ⟨a, b⟩
      · rw [if_pos b, if_neg (not_lt.mpr (le_of_lt a))]
      · rw [if_neg (not_lt.mpr (le_of_lt b)), if_pos a]
    · rw [if_neg hb, if_neg hb]
  · intro ht
    have ht3 : ¬ t ≤ 350 := not_le.mpr (by linarith)
    have ht4 : ¬ t ≤ 590 := not_le.mpr ht
    have ht5 : ¬ t ≤ tc1C := by
      unfold tc1C Gen.Ifc67.Tc1_C; rw [tf_lit]; intro h; norm_num at h; linarith
    by_cases hb : tmin ≤ t ∧ t ≤ 800 ∧ 0 ≤ p ∧ p ≤ 100000000
    · rw [if_pos hb, if_pos hb, if_neg ht3, if_neg ht3, if_neg ht5, if_neg ht4, if_neg ht4]
    · rw [if_neg hb, if_neg hb]
  · intro hb
    rw [if_neg hb, if_neg hb]; exact ⟨rfl, rfl⟩
end Proofs.Ifc67
