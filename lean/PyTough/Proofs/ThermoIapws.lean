import PyTough.Proofs.ThermoPow
import PyTough.Gen.Iapws
import Mathlib.Analysis.Calculus.Deriv.ZPow
import Mathlib.Analysis.SpecialFunctions.Log.Deriv
open Model.Thermo Proofs.Thermo
namespace Proofs.Iapws
open Gen.Iapws

theorem power_chains_wf : ∀ c ∈ allChains, chainWF c = true := by decide

/-- Laurent polynomial `Σ n · x^i · y^j` over a table of rows `(i, j, n)` -/
noncomputable def laurent (tbl : List (Int × Int × ℝ)) (x y : ℝ) : ℝ :=
  (tbl.map fun r => r.2.2 * x ^ r.1 * y ^ r.2.1).sum
noncomputable def laurentDx (tbl : List (Int × Int × ℝ)) (x y : ℝ) : ℝ :=
  (tbl.map fun r => r.2.2 * ((r.1 : ℝ) * x ^ (r.1 - 1)) * y ^ r.2.1).sum
noncomputable def laurentDy (tbl : List (Int × Int × ℝ)) (x y : ℝ) : ℝ :=
  (tbl.map fun r => r.2.2 * x ^ r.1 * ((r.2.1 : ℝ) * y ^ (r.2.1 - 1))).sum

theorem laurent_hasDerivAt_x (tbl : List (Int × Int × ℝ)) (x y : ℝ) (hx : x ≠ 0) :
    HasDerivAt (fun x' => laurent tbl x' y) (laurentDx tbl x y) x := by
  unfold laurent laurentDx
  induction tbl with
  | nil => simpa using hasDerivAt_const x (0 : ℝ)
  | cons r tbl ih =>
    simp only [List.map_cons, List.sum_cons]
    exact (((hasDerivAt_zpow r.1 x (Or.inl hx)).const_mul r.2.2).mul_const (y ^ r.2.1)).add ih

theorem laurent_hasDerivAt_y (tbl : List (Int × Int × ℝ)) (x y : ℝ) (hy : y ≠ 0) :
    HasDerivAt (fun y' => laurent tbl x y') (laurentDy tbl x y) y := by
  unfold laurent laurentDy
  induction tbl with
  | nil => simpa using hasDerivAt_const y (0 : ℝ)
  | cons r tbl ih =>
    simp only [List.map_cons, List.sum_cons]
    exact ((hasDerivAt_zpow r.2.1 y (Or.inl hy)).const_mul (r.2.2 * x ^ r.1)).add ih


theorem mem_zip3_ints : ∀ (a b : List Int) (c : List ℝ) (r : Int × Int × ℝ), r ∈ zip3 a b c → (r.1, r.2.1) ∈ List.zip a b
  | [], _, _, _, h => by simp [zip3] at h
  | _ :: _, [], _, _, h => by simp [zip3] at h
  | _ :: _, _ :: _, [], _, h => by simp [zip3] at h
  | x :: a, y :: b, z :: c, r, h => by
      simp only [zip3, List.zip_cons_cons, List.mem_cons] at h ⊢
      rcases h with rfl | h
      · left; rfl
      · right; exact mem_zip3_ints a b c r (by simpa [zip3] using h)

/-- the first derivative sum of a region routine is `∂/∂x` of the Laurent polynomial, provided the
    power arrays hold the powers at the entries read with a non-zero multiplier -/
theorem sum_dx (tbl : List (Int × Int × ℝ)) (ps ts : List ℝ) (x y : ℝ)
    (h : ∀ r ∈ tbl, (r.1 = 0 ∨ PArr.get ps (r.1 - 1) = x ^ (r.1 - 1)) ∧ PArr.get ts r.2.1 = y ^ r.2.1) :
    pySum (List.map (fun r => r.2.2 * (r.1 : ℝ) * PArr.get ps (r.1 - 1) * PArr.get ts r.2.1) tbl) = laurentDx tbl x y := by
  rw [pySum_eq]; unfold laurentDx
  congr 1
  apply List.map_congr_left
  intro r hr
  obtain ⟨h1, h2⟩ := h r hr
  rw [h2]
  rcases h1 with h1 | h1
  · simp [h1]
  · rw [h1]; ring

theorem sum_dy (tbl : List (Int × Int × ℝ)) (ps ts : List ℝ) (x y : ℝ)
    (h : ∀ r ∈ tbl, PArr.get ps r.1 = x ^ r.1 ∧ (r.2.1 = 0 ∨ PArr.get ts (r.2.1 - 1) = y ^ (r.2.1 - 1))) :
    pySum (List.map (fun r => r.2.2 * PArr.get ps r.1 * (r.2.1 : ℝ) * PArr.get ts (r.2.1 - 1)) tbl) = laurentDy tbl x y := by
  rw [pySum_eq]; unfold laurentDy
  congr 1
  apply List.map_congr_left
  intro r hr
  obtain ⟨h1, h2⟩ := h r hr
  rw [h1]
  rcases h2 with h2 | h2
  · simp [h2]
  · rw [h2]; ring

/-! ### region 1 -/

/-- the two offsets of the region-1 equation as the code has them (the doubles nearest 7.1 and 1.222) -/
noncomputable def c71 : ℝ := 3996944669291315 / 562949953421312
noncomputable def c1222 : ℝ := 2751699372323373 / 2251799813685248
noncomputable def tbl1 : List (Int × Int × ℝ) := zip3 ir1 jr1 nr1
noncomputable def pi1 (p : ℝ) : ℝ := p / pstar1
noncomputable def tau1 (t : ℝ) : ℝ := tstar1 / (t + tc_k)
/-- dimensionless Gibbs free energy of region 1 over the generated tables -/
noncomputable def gamma1 (π τ : ℝ) : ℝ := laurent tbl1 (c71 - π) (τ - c1222)

theorem r1_reads : ∀ q ∈ List.zip ir1 jr1,
    (q.1 = 0 ∨ (q.1 - 1) ∈ chainDefined pc1) ∧ q.2 ∈ chainDefined tc1 ∧ q.1 ∈ chainDefined pc1 ∧
    (q.2 = 0 ∨ (q.2 - 1) ∈ chainDefined tc1) := by decide

theorem r1_base_x (p : ℝ) (hp : p ≤ 100000000) : c71 - pi1 p ≠ 0 := by
  unfold c71 pi1 pstar1
  rw [tf_lit]
  have h3 : p / 16530000 ≤ (100000000 : ℝ) / 16530000 := div_le_div_of_nonneg_right hp (by norm_num)
  intro h
  norm_num at h h3
  linarith

theorem tk_pos (t : ℝ) (ht0 : 0 ≤ t) : 0 < t + tc_k := by
  unfold tc_k; rw [tf_lit]
  have : (0:ℝ) < ((2402652809016115 : ℤ) : ℝ) / ((8796093022208 : ℕ) : ℝ) := by norm_num
  linarith

theorem r1_base_y (t : ℝ) (ht0 : 0 ≤ t) (ht : t ≤ 350) : tau1 t - c1222 ≠ 0 := by
  have hT := tk_pos t ht0
  have hT2 : t + tc_k ≤ 624 := by
    unfold tc_k; rw [tf_lit]
    have : ((2402652809016115 : ℤ) : ℝ) / ((8796093022208 : ℕ) : ℝ) ≤ 274 := by norm_num
    linarith
  unfold tau1 c1222 tstar1
  rw [tf_lit]
  have h1 : (1386 : ℝ) / 624 ≤ 1386 / (t + tc_k) := div_le_div_of_nonneg_left (by norm_num) hT hT2
  intro h
  norm_num at h h1
  linarith

theorem cowat_eq (t p : ℝ) (ht0 : 0 ≤ t) (ht : t ≤ 350) (hp : p ≤ 100000000) :
    cowat t p = Ret.pair (pstar1 / (rconst * (t + tc_k) * (-(laurentDx tbl1 (c71 - pi1 p) (tau1 t - c1222)))))
      (rconst * (t + tc_k) * (tau1 t * laurentDy tbl1 (c71 - pi1 p) (tau1 t - c1222)
        - pi1 p * (-(laurentDx tbl1 (c71 - pi1 p) (tau1 t - c1222))))) := by
  have hx := r1_base_x p hp
  have hy := r1_base_y t ht0 ht
  have hpc := powerArray_eq_zpow pc1 (power_chains_wf pc1 (by simp [allChains])) _ hx
  have htc := powerArray_eq_zpow tc1 (power_chains_wf tc1 (by simp [allChains])) _ hy
  have hrows : ∀ r ∈ tbl1, (r.1 = 0 ∨ (r.1 - 1) ∈ chainDefined pc1) ∧ r.2.1 ∈ chainDefined tc1 ∧ r.1 ∈ chainDefined pc1 ∧
      (r.2.1 = 0 ∨ (r.2.1 - 1) ∈ chainDefined tc1) := fun r hr => r1_reads _ (mem_zip3_ints _ _ _ r hr)
  have s1 := sum_dx tbl1 _ _ (c71 - pi1 p) (tau1 t - c1222) (fun r hr => by
    obtain ⟨a, b, _, _⟩ := hrows r hr
    exact ⟨a.imp id (hpc _), htc _ b⟩)
  have s2 := sum_dy tbl1 _ _ (c71 - pi1 p) (tau1 t - c1222) (fun r hr => by
    obtain ⟨_, _, c, d⟩ := hrows r hr
    exact ⟨hpc _ c, d.imp id (htc _)⟩)
  have g : (decide (t ≤ (350 : ℝ)) && decide (p ≤ (100000000 : ℝ))) = true := by simp [ht, hp]
  unfold cowat
  simp only [tf_add, tf_sub, tf_mul, tf_div, tf_neg, tf_le', tf_ofInt]
  simp only [tf_lit]
  norm_num only [] at *
  rw [if_pos g]
  unfold c71 pi1 tau1 c1222 tbl1 at s1 s2 ⊢
  rw [s1, s2]

/-- **Region 1.**  The density and internal energy returned by `cowat` are
    `p* / (R T γ_π)` and `R T (τ γ_τ − π γ_π)` where `γ_π`, `γ_τ` are the partial derivatives of the
    single potential `gamma1` at `(π, τ) = (p / p*, T* / T)`. -/
theorem single_potential_r1 (t p : ℝ) (ht0 : 0 ≤ t) (ht : t ≤ 350) (hp : p ≤ 100000000) :
    ∃ gπ gτ : ℝ,
      HasDerivAt (fun π' => gamma1 π' (tau1 t)) gπ (pi1 p) ∧
      HasDerivAt (fun τ' => gamma1 (pi1 p) τ') gτ (tau1 t) ∧
      cowat t p = Ret.pair (pstar1 / (rconst * (t + tc_k) * gπ))
        (rconst * (t + tc_k) * (tau1 t * gτ - pi1 p * gπ)) := by
  have hx := r1_base_x p hp
  have hy := r1_base_y t ht0 ht
  refine ⟨-(laurentDx tbl1 (c71 - pi1 p) (tau1 t - c1222)), laurentDy tbl1 (c71 - pi1 p) (tau1 t - c1222), ?_, ?_, cowat_eq t p ht0 ht hp⟩
  · have h1 := laurent_hasDerivAt_x tbl1 (c71 - pi1 p) (tau1 t - c1222) hx
    have h2 : HasDerivAt (fun π' : ℝ => c71 - π') (-1) (pi1 p) := by
      simpa using (hasDerivAt_id (pi1 p)).const_sub c71
    have := h1.comp (pi1 p) h2
    unfold gamma1
    exact this.congr_deriv (by ring)
  · have h1 := laurent_hasDerivAt_y tbl1 (c71 - pi1 p) (tau1 t - c1222) hy
    have h2 : HasDerivAt (fun τ' : ℝ => τ' - c1222) 1 (tau1 t) := by
      simpa using (hasDerivAt_id (tau1 t)).sub_const c1222
    have := h1.comp (tau1 t) h2
    unfold gamma1
    exact this.congr_deriv (by ring)

/-! ### region 2 -/

noncomputable def poly1 (tbl : List (Int × ℝ)) (y : ℝ) : ℝ := (tbl.map fun r => r.2 * y ^ r.1).sum
noncomputable def poly1D (tbl : List (Int × ℝ)) (y : ℝ) : ℝ := (tbl.map fun r => r.2 * ((r.1 : ℝ) * y ^ (r.1 - 1))).sum

theorem poly1_hasDerivAt (tbl : List (Int × ℝ)) (y : ℝ) (hy : y ≠ 0) :
    HasDerivAt (fun y' => poly1 tbl y') (poly1D tbl y) y := by
  unfold poly1 poly1D
  induction tbl with
  | nil => simpa using hasDerivAt_const y (0 : ℝ)
  | cons r tbl ih =>
    simp only [List.map_cons, List.sum_cons]
    exact ((hasDerivAt_zpow r.1 y (Or.inl hy)).const_mul r.2).add ih

theorem sum_d1 (tbl : List (Int × ℝ)) (ts : List ℝ) (y : ℝ)
    (h : ∀ r ∈ tbl, r.1 = 0 ∨ PArr.get ts (r.1 - 1) = y ^ (r.1 - 1)) :
    pySum (List.map (fun r => r.2 * (r.1 : ℝ) * PArr.get ts (r.1 - 1)) tbl) = poly1D tbl y := by
  rw [pySum_eq]; unfold poly1D
  congr 1
  apply List.map_congr_left
  intro r hr
  rcases h r hr with h1 | h1
  · simp [h1]
  · rw [h1]; ring

theorem mem_zip_fst : ∀ (a : List Int) (c : List ℝ) (r : Int × ℝ), r ∈ List.zip a c → r.1 ∈ a
  | [], _, _, h => by simp at h
  | _ :: _, [], _, h => by simp at h
  | x :: a, z :: c, r, h => by
      simp only [List.zip_cons_cons, List.mem_cons] at h ⊢
      rcases h with rfl | h
      · left; rfl
      · right; exact mem_zip_fst a c r h

noncomputable def tbl2 : List (Int × Int × ℝ) := zip3 ir2 jr2 nr2
noncomputable def tbl20 : List (Int × ℝ) := List.zip j0r2 n0r2
noncomputable def pi2 (p : ℝ) : ℝ := p / pstar2
noncomputable def tau2 (t : ℝ) : ℝ := tstar2 / (t + tc_k)
/-- dimensionless Gibbs free energy of region 2: ideal-gas part `ln π + Σ n⁰ τ^J⁰` plus residual part -/
noncomputable def gamma2 (π τ : ℝ) : ℝ := Real.log π + poly1 tbl20 τ + laurent tbl2 π (τ - 1 / 2)

theorem r2_reads : ∀ q ∈ List.zip ir2 jr2,
    (q.1 = 0 ∨ (q.1 - 1) ∈ chainDefined pc2) ∧ q.2 ∈ chainDefined tsc2 ∧ q.1 ∈ chainDefined pc2 ∧
    (q.2 = 0 ∨ (q.2 - 1) ∈ chainDefined tsc2) := by decide
theorem r20_reads : ∀ j ∈ j0r2, j = 0 ∨ (j - 1) ∈ chainDefined tc2 := by decide

theorem tk_le (t b : ℝ) (ht : t ≤ b) : t + tc_k ≤ b + 274 := by
  unfold tc_k; rw [tf_lit]
  have : ((2402652809016115 : ℤ) : ℝ) / ((8796093022208 : ℕ) : ℝ) ≤ 274 := by norm_num
  linarith

theorem r2_tau_pos (t : ℝ) (ht0 : 0 ≤ t) : 0 < tau2 t := by
  unfold tau2 tstar2; rw [tf_lit]
  exact div_pos (by norm_num) (tk_pos t ht0)

theorem r2_base_y (t : ℝ) (ht0 : 0 ≤ t) (ht : t ≤ 800) : tau2 t - 1 / 2 ≠ 0 := by
  have hT := tk_pos t ht0
  have hT2 := tk_le t 800 ht
  unfold tau2 tstar2
  rw [tf_lit]
  have h1 : (540 : ℝ) / (800 + 274) ≤ 540 / (t + tc_k) := div_le_div_of_nonneg_left (by norm_num) hT hT2
  intro h
  norm_num at h h1
  linarith

theorem r2_pi_ne (p : ℝ) (hp0 : 0 < p) : pi2 p ≠ 0 := by
  unfold pi2 pstar2; rw [tf_lit]
  exact ne_of_gt (div_pos hp0 (by norm_num))

theorem supst_eq (t p : ℝ) (ht0 : 0 ≤ t) (ht : t ≤ 800) (hp0 : 0 < p) (hp : p ≤ 100000000) :
    supst t p = Ret.pair (pstar2 / (rconst * (t + tc_k) * (1 / pi2 p + laurentDx tbl2 (pi2 p) (tau2 t - 1 / 2))))
      (rconst * (t + tc_k) * (tau2 t * (poly1D tbl20 (tau2 t) + laurentDy tbl2 (pi2 p) (tau2 t - 1 / 2))
        - pi2 p * (1 / pi2 p + laurentDx tbl2 (pi2 p) (tau2 t - 1 / 2)))) := by
  have hx := r2_pi_ne p hp0
  have hy := r2_base_y t ht0 ht
  have ht' := ne_of_gt (r2_tau_pos t ht0)
  have hpc := powerArray_eq_zpow pc2 (power_chains_wf pc2 (by simp [allChains])) _ hx
  have htc := powerArray_eq_zpow tsc2 (power_chains_wf tsc2 (by simp [allChains])) _ hy
  have htau := powerArray_eq_zpow tc2 (power_chains_wf tc2 (by simp [allChains])) _ ht'
  have hrows : ∀ r ∈ tbl2, (r.1 = 0 ∨ (r.1 - 1) ∈ chainDefined pc2) ∧ r.2.1 ∈ chainDefined tsc2 ∧ r.1 ∈ chainDefined pc2 ∧
      (r.2.1 = 0 ∨ (r.2.1 - 1) ∈ chainDefined tsc2) := fun r hr => r2_reads _ (mem_zip3_ints _ _ _ r hr)
  have s0 := sum_d1 tbl20 _ (tau2 t) (fun r hr => (r20_reads _ (mem_zip_fst _ _ r hr)).imp id (htau _))
  have s1 := sum_dx tbl2 _ _ (pi2 p) (tau2 t - 1 / 2) (fun r hr => by
    obtain ⟨a, b, _, _⟩ := hrows r hr
    exact ⟨a.imp id (hpc _), htc _ b⟩)
  have s2 := sum_dy tbl2 _ _ (pi2 p) (tau2 t - 1 / 2) (fun r hr => by
    obtain ⟨_, _, c, d⟩ := hrows r hr
    exact ⟨hpc _ c, d.imp id (htc _)⟩)
  have g : (decide (t ≤ (1000 : ℝ)) && decide (p ≤ (100000000 : ℝ))) = true := by
    simp only [Bool.and_eq_true, decide_eq_true_eq]; exact ⟨by linarith, hp⟩
  unfold supst
  simp only [tf_add, tf_sub, tf_mul, tf_div, tf_neg, tf_le', tf_ofInt]
  simp only [tf_lit]
  norm_num only [] at *
  rw [if_pos g]
  unfold tau2 tbl20 at s0
  unfold pi2 tau2 tbl2 at s1 s2
  unfold pi2 tau2 tbl2 tbl20
  rw [s0, s1, s2]

/-- **Region 2.** -/
theorem single_potential_r2 (t p : ℝ) (ht0 : 0 ≤ t) (ht : t ≤ 800) (hp0 : 0 < p) (hp : p ≤ 100000000) :
    ∃ gπ gτ : ℝ,
      HasDerivAt (fun π' => gamma2 π' (tau2 t)) gπ (pi2 p) ∧
      HasDerivAt (fun τ' => gamma2 (pi2 p) τ') gτ (tau2 t) ∧
      supst t p = Ret.pair (pstar2 / (rconst * (t + tc_k) * gπ))
        (rconst * (t + tc_k) * (tau2 t * gτ - pi2 p * gπ)) := by
  have hx := r2_pi_ne p hp0
  have hy := r2_base_y t ht0 ht
  have ht' := ne_of_gt (r2_tau_pos t ht0)
  refine ⟨1 / pi2 p + laurentDx tbl2 (pi2 p) (tau2 t - 1 / 2),
    poly1D tbl20 (tau2 t) + laurentDy tbl2 (pi2 p) (tau2 t - 1 / 2), ?_, ?_, supst_eq t p ht0 ht hp0 hp⟩
  · unfold gamma2
    have h1 := laurent_hasDerivAt_x tbl2 (pi2 p) (tau2 t - 1 / 2) hx
    have h0 := ((Real.hasDerivAt_log hx).add_const (poly1 tbl20 (tau2 t))).add h1
    exact h0.congr_deriv (by ring)
  · unfold gamma2
    have h1 := laurent_hasDerivAt_y tbl2 (pi2 p) (tau2 t - 1 / 2) hy
    have h2 : HasDerivAt (fun τ' : ℝ => τ' - 1 / 2) 1 (tau2 t) := by
      simpa using (hasDerivAt_id (tau2 t)).sub_const (1 / 2 : ℝ)
    have h3 := h1.comp (tau2 t) h2
    have h0 := ((poly1_hasDerivAt tbl20 (tau2 t) ht').const_add (Real.log (pi2 p))).add h3
    exact h0.congr_deriv (by ring)

/-! ### region 3 -/

noncomputable def tbl3 : List (Int × Int × ℝ) := zip3 ir3 jr3 nr3
noncomputable def delta3 (d : ℝ) : ℝ := d / dstar3
noncomputable def tau3 (t : ℝ) : ℝ := tstar3 / (t + tc_k)
/-- dimensionless Helmholtz free energy of region 3 -/
noncomputable def phi3 (δ τ : ℝ) : ℝ := nr3_0 * Real.log δ + laurent tbl3 δ τ

theorem r3_reads : ∀ q ∈ List.zip ir3 jr3,
    (q.1 = 0 ∨ (q.1 - 1) ∈ chainDefined dc3) ∧ q.2 ∈ chainDefined tc3 ∧ q.1 ∈ chainDefined dc3 ∧
    (q.2 = 0 ∨ (q.2 - 1) ∈ chainDefined tc3) := by decide

theorem r3_tau_pos (t : ℝ) (ht0 : 0 ≤ t) : 0 < tau3 t := by
  unfold tau3 tstar3; rw [tf_lit]
  exact div_pos (by norm_num) (tk_pos t ht0)

theorem r3_delta_ne (d : ℝ) (hd : d ≠ 0) : delta3 d ≠ 0 := by
  unfold delta3 dstar3; rw [tf_lit]
  exact div_ne_zero hd (by norm_num)

theorem super_eq (d t : ℝ) (hd : d ≠ 0) (ht0 : 0 ≤ t) :
    super_ d t = Ret.pair (d * (rconst * (t + tc_k)) * delta3 d * (nr3_0 * (delta3 d) ^ (-1 : ℤ) + laurentDx tbl3 (delta3 d) (tau3 t)))
      (rconst * (t + tc_k) * tau3 t * laurentDy tbl3 (delta3 d) (tau3 t)) := by
  have hx := r3_delta_ne d hd
  have hy := ne_of_gt (r3_tau_pos t ht0)
  have hpc := powerArray_eq_zpow dc3 (power_chains_wf dc3 (by simp [allChains])) _ hx
  have htc := powerArray_eq_zpow tc3 (power_chains_wf tc3 (by simp [allChains])) _ hy
  have hrows : ∀ r ∈ tbl3, (r.1 = 0 ∨ (r.1 - 1) ∈ chainDefined dc3) ∧ r.2.1 ∈ chainDefined tc3 ∧ r.1 ∈ chainDefined dc3 ∧
      (r.2.1 = 0 ∨ (r.2.1 - 1) ∈ chainDefined tc3) := fun r hr => r3_reads _ (mem_zip3_ints _ _ _ r hr)
  have s1 := sum_dx tbl3 _ _ (delta3 d) (tau3 t) (fun r hr => by
    obtain ⟨a, b, _, _⟩ := hrows r hr
    exact ⟨a.imp id (hpc _), htc _ b⟩)
  have s2 := sum_dy tbl3 _ _ (delta3 d) (tau3 t) (fun r hr => by
    obtain ⟨_, _, c, d⟩ := hrows r hr
    exact ⟨hpc _ c, d.imp id (htc _)⟩)
  have sm := hpc (-1) (by decide)
  unfold super_
  simp only [tf_add, tf_sub, tf_mul, tf_div, tf_neg, tf_le', tf_ofInt]
  unfold delta3 tau3 tbl3 at s1 s2
  unfold delta3 at sm
  unfold delta3 tau3 tbl3
  rw [s1, s2, sm]

/-- **Region 3.** -/
theorem single_potential_r3 (d t : ℝ) (hd : d ≠ 0) (ht0 : 0 ≤ t) :
    ∃ φδ φτ : ℝ,
      HasDerivAt (fun δ' => phi3 δ' (tau3 t)) φδ (delta3 d) ∧
      HasDerivAt (fun τ' => phi3 (delta3 d) τ') φτ (tau3 t) ∧
      super_ d t = Ret.pair (d * (rconst * (t + tc_k)) * delta3 d * φδ) (rconst * (t + tc_k) * tau3 t * φτ) := by
  have hx := r3_delta_ne d hd
  have hy := ne_of_gt (r3_tau_pos t ht0)
  refine ⟨nr3_0 * (delta3 d) ^ (-1 : ℤ) + laurentDx tbl3 (delta3 d) (tau3 t), laurentDy tbl3 (delta3 d) (tau3 t), ?_, ?_,
    super_eq d t hd ht0⟩
  · unfold phi3
    have h0 := ((Real.hasDerivAt_log hx).const_mul (nr3_0 : ℝ)).add (laurent_hasDerivAt_x tbl3 (delta3 d) (tau3 t) hx)
    exact h0.congr_deriv (by rw [zpow_neg_one])
  · unfold phi3
    exact (laurent_hasDerivAt_y tbl3 (delta3 d) (tau3 t) hy).const_add _
/-! ### the region classifier -/

/-- the double nearest 0.01 (lower temperature limit of the classifier) -/
noncomputable def tmin : ℝ := 5764607523034235 / 576460752303423488
/-- saturation pressure / B23 pressure as numbers (`Ret.toK` of the routines' results) -/
noncomputable def satP (t : ℝ) : ℝ := (sat t).toK
noncomputable def b23P (t : ℝ) : ℝ := (b23p t).toK

theorem region_unfold (t p : ℝ) : region t p =
    if tmin ≤ t ∧ t ≤ 800 ∧ 0 ≤ p ∧ p ≤ 100000000 then
      if t ≤ 350 then (if satP t < p then Ret.int 1 else Ret.int 2)
      else if t ≤ 590 then (if b23P t < p then Ret.int 3 else Ret.int 2)
      else Ret.int 2
    else Ret.none := by
  unfold region satP b23P tmin
  simp only [tf_le', tf_lt', tf_lit, Bool.and_eq_true, decide_eq_true_eq]
  norm_num only []
  simp only [and_assoc]

theorem region_one (t p : ℝ) : region t p = Ret.int 1 ↔
    tmin ≤ t ∧ t ≤ 350 ∧ 0 ≤ p ∧ p ≤ 100000000 ∧ satP t < p := by
  rw [region_unfold]
  constructor
  · intro h
    split_ifs at h with h1 h2 h3 h4 h5 <;> cases h
    exact ⟨h1.1, h2, h1.2.2.1, h1.2.2.2, h3⟩
  · rintro ⟨a, b, c, d, e⟩
    rw [if_pos ⟨a, by linarith, c, d⟩, if_pos b, if_pos e]

theorem region_three (t p : ℝ) : region t p = Ret.int 3 ↔
    350 < t ∧ t ≤ 590 ∧ 0 ≤ p ∧ p ≤ 100000000 ∧ b23P t < p := by
  rw [region_unfold]
  constructor
  · intro h
    split_ifs at h with h1 h2 h3 h4 h5 <;> cases h
    exact ⟨not_le.mp h2, h4, h1.2.2.1, h1.2.2.2, h5⟩
  · rintro ⟨a, b, c, d, e⟩
    have : tmin ≤ t := by unfold tmin; linarith
    rw [if_pos ⟨this, by linarith, c, d⟩, if_neg (not_le.mpr a), if_pos b, if_pos e]

theorem region_two (t p : ℝ) : region t p = Ret.int 2 ↔
    tmin ≤ t ∧ t ≤ 800 ∧ 0 ≤ p ∧ p ≤ 100000000 ∧
      ((t ≤ 350 ∧ p ≤ satP t) ∨ (350 < t ∧ t ≤ 590 ∧ p ≤ b23P t) ∨ 590 < t) := by
  rw [region_unfold]
  constructor
  · intro h
    split_ifs at h with h1 h2 h3 h4 h5 <;> cases h
    · exact ⟨h1.1, h1.2.1, h1.2.2.1, h1.2.2.2, Or.inl ⟨h2, not_lt.mp h3⟩⟩
    · exact ⟨h1.1, h1.2.1, h1.2.2.1, h1.2.2.2, Or.inr (Or.inl ⟨not_le.mp h2, h4, not_lt.mp h5⟩)⟩
    · exact ⟨h1.1, h1.2.1, h1.2.2.1, h1.2.2.2, Or.inr (Or.inr (not_le.mp h4))⟩
  · rintro ⟨a, b, c, d, e⟩
    rw [if_pos ⟨a, b, c, d⟩]
    rcases e with ⟨e1, e2⟩ | ⟨e1, e2, e3⟩ | e1
    · rw [if_pos e1, if_neg (not_lt.mpr e2)]
    · rw [if_neg (not_le.mpr e1), if_pos e2, if_neg (not_lt.mpr e3)]
    · rw [if_neg (not_le.mpr (by linarith)), if_neg (not_le.mpr e1)]

theorem region_none (t p : ℝ) : region t p = Ret.none ↔ ¬(tmin ≤ t ∧ t ≤ 800 ∧ 0 ≤ p ∧ p ≤ 100000000) := by
  rw [region_unfold]
  constructor
  · intro h
    split_ifs at h with h1 h2 h3 h4 h5 <;> cases h
    exact h1
  · intro h; rw [if_neg h]

/-- the classifier returns nothing but 1, 2, 3 or `None` -/
theorem region_range (t p : ℝ) : region t p = Ret.int 1 ∨ region t p = Ret.int 2 ∨ region t p = Ret.int 3 ∨ region t p = Ret.none := by
  rw [region_unfold]
  split_ifs <;> simp

/-- inside the classifier's box the call `sat(t)` it makes for `t ≤ 350` returns a number (never `None`) -/
theorem sat_defined (t : ℝ) (h0 : 0 ≤ t) (h1 : t ≤ 350) : ∃ s, sat t = Ret.num s := by
  unfold sat
  have g : (le ((lit 0x0000000000000000 (0) 1 : ℝ)) t && le t (tcritical : ℝ)) = true := by
    simp only [tf_le', tf_lit, Bool.and_eq_true, decide_eq_true_eq]
    unfold tcritical
    rw [tf_lit]
    norm_num
    exact ⟨h0, by linarith⟩
  rw [if_pos g]
  exact ⟨_, rfl⟩

theorem cowat_defined (t p : ℝ) (h1 : t ≤ 350) (h2 : p ≤ 100000000) : ∃ d u, cowat t p = Ret.pair d u := by
  unfold cowat
  have g : (le t (lit 0x4075E00000000000 (350) 1 : ℝ) && le p (lit 0x4197D78400000000 (100000000) 1 : ℝ)) = true := by
    simp only [tf_le', tf_lit, Bool.and_eq_true, decide_eq_true_eq]
    norm_num
    exact ⟨h1, h2⟩
  rw [if_pos g]
  exact ⟨_, _, rfl⟩

theorem supst_defined (t p : ℝ) (h1 : t ≤ 1000) (h2 : p ≤ 100000000) : ∃ d u, supst t p = Ret.pair d u := by
  unfold supst
  have g : (le t (lit 0x408F400000000000 (1000) 1 : ℝ) && le p (lit 0x4197D78400000000 (100000000) 1 : ℝ)) = true := by
    simp only [tf_le', tf_lit, Bool.and_eq_true, decide_eq_true_eq]
    norm_num
    exact ⟨h1, h2⟩
  rw [if_pos g]
  exact ⟨_, _, rfl⟩
end Proofs.Iapws
