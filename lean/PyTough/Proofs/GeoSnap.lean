/-
  Snapping surfaces: only the columns' surfaces and layer counts change; the structure and (after the final
  `setup_*`) the name lists are right.
-/
import PyTough.Proofs.GeoRefineLayers
namespace Proofs.Geo
open Model.Geo Model.Geo.Geo Py

/-- a geometry differing from `g` only in the surface and layer count of its columns -/
structure SurfFrame (g g' : Geo) : Prop where
  eq : ∃ C', g' = { g with C := C' } ∧ C'.size = g.C.size
  colSame : ∀ j, { (g'.col j) with numLayers := 0, surface := none } = { (g.col j) with numLayers := 0, surface := none }

theorem SurfFrame.refl (g : Geo) : SurfFrame g g := ⟨⟨g.C, rfl, rfl⟩, fun _ => rfl⟩

theorem SurfFrame.trans {a b c : Geo} (h1 : SurfFrame a b) (h2 : SurfFrame b c) : SurfFrame a c := by
  obtain ⟨C1, e1, s1⟩ := h1.eq
  obtain ⟨C2, e2, s2⟩ := h2.eq
  refine ⟨⟨C2, ?_, ?_⟩, fun j => (h2.colSame j).trans (h1.colSame j)⟩
  · rw [e2, e1]
  · rw [s2, e1]; exact s1

theorem updCol_surfFrame (g : Geo) (c : Nat) (f : Column → Column)
    (hf : ∀ x, { (f x) with numLayers := 0, surface := none } = { x with numLayers := 0, surface := none }) :
    SurfFrame g (g.updCol c f) := by
  refine ⟨⟨_, rfl, by simp [updCol]⟩, ?_⟩
  intro j
  by_cases hc : c < g.C.size
  · rw [updCol_col _ _ _ _ hc]; split
    · exact hf _
    · rfl
  · simp only [updCol, modify_oob _ _ _ hc]

theorem SurfFrame.keeps_geoInv0 {g g' : Geo} (h : SurfFrame g g') (hi : g.geoInv0 = true) : g'.geoInv0 = true := by
  obtain ⟨C', e, s⟩ := h.eq
  have hc := h.colSame
  subst e
  have hs : SameStructure g { g with C := C' } :=
    { convention := rfl, atmosType := rfl, nodelist := rfl, nodeD := rfl, columnlist := rfl, columnD := rfl,
      connlist := rfl, connD := rfl, layerlist := rfl, layerD := rfl, welllist := rfl, wellD := rfl, K := rfl,
      Nsize := rfl, Csize := s, Lsize := rfl, Wsize := rfl, nodeName := fun _ => rfl, nodeCols := fun _ => rfl,
      colName := fun j => congrArg (·.name) (hc j), colNodes := fun j => congrArg (·.nodes) (hc j),
      colCons := fun j => congrArg (·.cons) (hc j), colNbrs := fun j => congrArg (·.nbrs) (hc j),
      layName := fun _ => rfl, wellName := fun _ => rfl }
  apply geoInv0_congr hs _ hi
  have ho : g.orientOK = true := by simp only [Geo.geoInv0, Bool.and_eq_true] at hi; exact hi.2
  simp only [orientOK, List.all_eq_true, Bool.and_eq_true, decide_eq_true_eq] at ho ⊢
  intro c hcm
  have h1 : (({ g with C := C' } : Geo).col c).nodes = (g.col c).nodes := congrArg (·.nodes) (hc c)
  have h2 : (({ g with C := C' } : Geo).col c).area = (g.col c).area := congrArg (·.area) (hc c)
  rw [h1, h2]
  exact ho c hcm

/-- `snap_columns_to_layers(min_thickness, columns)` keeps the structure and leaves the name lists fresh -/
theorem snapColumnsToLayers_struct (g g' : Geo) (t : Rat) (cols : List Nat) (hs : g.snapColumnsToLayers t cols = .ok g')
    (h : g.geoInv0 = true) : g'.geoInv0 = true := by
  unfold snapColumnsToLayers at hs
  split at hs
  · obtain ⟨g1, h1, h2⟩ := bind_ok hs
    apply setupNames_geoInv0 g1 g' h2
    refine foldlM_inv (fun s : Geo => SurfFrame g s) _ ?_ _ g g1 h1 (SurfFrame.refl g) |>.keeps_geoInv0 h
    intro s c s' hstep hp
    obtain ⟨tl, _, hstep⟩ := bind_ok hstep
    cases hsf : (s.col c).surface with
    | none => rw [hsf] at hstep; cases hstep
    | some z =>
      rw [hsf] at hstep
      simp only at hstep
      split at hstep
      · simp only [pure, Except.pure, Except.ok.injEq] at hstep
        subst hstep
        exact hp.trans (updCol_surfFrame s c _ (fun _ => rfl))
      · simp only [pure, Except.pure, Except.ok.injEq] at hstep
        subst hstep; exact hp
  · simp only [Except.ok.injEq] at hs; subst hs; exact h

theorem snapColumnsToNearestLayers_struct (g g' : Geo) (cols : List Nat)
    (hs : g.snapColumnsToNearestLayers cols = .ok g') (h : g.geoInv0 = true) : g'.geoInv0 = true := by
  unfold snapColumnsToNearestLayers at hs
  obtain ⟨g1, h1, h2⟩ := bind_ok hs
  apply setupNames_geoInv0 g1 g' h2
  refine foldlM_inv (fun s : Geo => SurfFrame g s) _ ?_ _ g g1 h1 (SurfFrame.refl g) |>.keeps_geoInv0 h
  intro s c s' hstep hp
  obtain ⟨tl, _, hstep⟩ := bind_ok hstep
  cases hsf : (s.col c).surface with
  | none => rw [hsf] at hstep; cases hstep
  | some z =>
    rw [hsf] at hstep
    simp only at hstep
    split at hstep
    · simp only [pure, Except.pure, Except.ok.injEq] at hstep
      subst hstep
      exact hp.trans (updCol_surfFrame s c _ (fun _ => rfl))
    · simp only [pure, Except.pure, Except.ok.injEq] at hstep
      subst hstep
      exact hp.trans (updCol_surfFrame s c _ (fun _ => rfl))

end Proofs.Geo

namespace Proofs.Geo
open Model.Geo Model.Geo.Geo Py

theorem modify_id {α} [Inhabited α] (a : Array α) (i : Nat) (f : α → α) (h : i < a.size → f a[i]! = a[i]!) :
    a.modify i f = a := by
  by_cases hi : i < a.size
  · apply Array.ext
    · simp
    · intro j h1 h2
      simp only [Array.getElem_modify]
      split
      · rename_i e; subst e
        have := h hi
        simp only [getElem!_pos, hi] at this
        exact this
      · rfl
  · exact modify_oob a i f hi

theorem setAdd_of_mem (s : List Nat) (x : Nat) (h : x ∈ s) : setAdd s x = s := by
  simp [setAdd, h]

/-- in a consistent geometry `identify_neighbours()` changes nothing: every connection's columns already are
    neighbours (since `add_connection` maintains the sets) -/
theorem identifyNeighbours_eq (g : Geo) (h : g.geoInv0 = true) : g.identifyNeighbours = g := by
  simp only [Geo.geoInv0, Bool.and_eq_true] at h
  obtain ⟨⟨⟨⟨⟨⟨hh, hr⟩, hnc⟩, hcc⟩, hnb⟩, hcn⟩, ho⟩ := h
  have hcc' := (colConsOK_iff g).mp hcc
  have hnb' := (nbrsOK_iff g).mp hnb
  unfold identifyNeighbours
  suffices ∀ (ks : List Nat), (∀ k ∈ ks, k ∈ g.connlist) →
      ks.foldl (fun g k =>
        let c := g.con k
        let g := g.updCol c.c0 fun cl => { cl with nbrs := setAdd cl.nbrs c.c1 }
        g.updCol c.c1 fun cl => { cl with nbrs := setAdd cl.nbrs c.c0 }) g = g from this g.connlist (fun _ hk => hk)
  intro ks
  induction ks with
  | nil => intro _; rfl
  | cons k t ih =>
    intro hin
    simp only [List.foldl_cons]
    have hk := hin k List.mem_cons_self
    have hj : g.joined (g.con k).c0 (g.con k).c1 = true := (joined_iff _ _ _).mpr ⟨k, hk, Or.inl ⟨rfl, rfl⟩⟩
    have hj' : g.joined (g.con k).c1 (g.con k).c0 = true := (joined_iff _ _ _).mpr ⟨k, hk, Or.inr ⟨rfl, rfl⟩⟩
    have m1 : (g.con k).c1 ∈ (g.col (g.con k).c0).nbrs := (hnb' _ (hcc'.1 k hk).1).2 _ (hcc'.1 k hk).2 hj
    have m0 : (g.con k).c0 ∈ (g.col (g.con k).c1).nbrs := (hnb' _ (hcc'.1 k hk).2).2 _ (hcc'.1 k hk).1 hj'
    have e1 : (g.updCol (g.con k).c0 fun cl => { cl with nbrs := setAdd cl.nbrs (g.con k).c1 }) = g := by
      simp only [updCol]
      rw [modify_id]
      intro _
      show { g.col (g.con k).c0 with nbrs := setAdd (g.col (g.con k).c0).nbrs (g.con k).c1 } = g.col (g.con k).c0
      rw [setAdd_of_mem _ _ m1]
    simp only [e1]
    have e2 : (g.updCol (g.con k).c1 fun cl => { cl with nbrs := setAdd cl.nbrs (g.con k).c0 }) = g := by
      simp only [updCol]
      rw [modify_id]
      intro _
      show { g.col (g.con k).c1 with nbrs := setAdd (g.col (g.con k).c1).nbrs (g.con k).c0 } = g.col (g.con k).c1
      rw [setAdd_of_mem _ _ m0]
    rw [e2]
    exact ih (fun k' hk' => hin k' (List.mem_cons_of_mem _ hk'))

end Proofs.Geo
