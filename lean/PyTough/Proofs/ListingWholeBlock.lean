/-
  The walk from one table to the next (next_table_TOUGH2) and the loop of read_tables_TOUGH2 over the tables of one
  result block.  Core Lean only.
-/
import PyTough.Proofs.ListingWholeAut
namespace Proofs.Whole
open Py Model Model.Listing Proofs.Listing

/-! ### cursor-level run lemmas -/

theorem cu_bind_ok {α β : Type} (x : C α) (f : α → C β) (env : Rd) (c c' : Cur) (a : α) (h : x env c = .ok (a, c')) :
    (x >>= f) env c = f a env c' := by
  show (x env c >>= _) = _
  rw [h]; rfl

theorem cu_readUntil_run (stop : Str → Bool) (eof : Bool) (env : Rd) (c : Cur) (l : Str) (p : Pos)
    (h : readUntilL stop eof c.pos.rest c.pos.no = some (l, p)) :
    Cu.readUntil stop eof env c = .ok (l, { c with pos := p }) := by
  unfold Cu.readUntil
  simp only [bind, ReaderT.bind, StateT.bind, get, getThe, MonadStateOf.get, liftM, monadLift,
    MonadLift.monadLift, StateT.get, Except.bind, h, set, StateT.set, pure, Except.pure, ReaderT.pure, StateT.pure]

theorem cu_tell (env : Rd) (c : Cur) : Cu.tell env c = .ok (c.pos, c) := rfl

theorem cu_seek (p : Pos) (env : Rd) (c : Cur) : Cu.seek p env c = .ok ((), { c with pos := p }) := rfl

theorem cu_skipToNonblank_run (env : Rd) (c : Cur) (p : Pos) (h : skipToNonblankL c.pos.rest c.pos.no = some p) :
    Cu.skipToNonblank env c = .ok ((), { c with pos := p }) := by
  unfold Cu.skipToNonblank
  simp only [bind, ReaderT.bind, StateT.bind, get, getThe, MonadStateOf.get, liftM, monadLift,
    MonadLift.monadLift, StateT.get, Except.bind, h, set, StateT.set, pure, Except.pure]

theorem cu_readline_cons (env : Rd) (c : Cur) (l : Str) (r : List Str) (h : c.pos.rest = l :: r) :
    Cu.readline env c = .ok (l, { c with pos := ⟨c.pos.no + 1, r⟩ }) := by
  unfold Cu.readline
  simp only [bind, ReaderT.bind, StateT.bind, get, getThe, MonadStateOf.get, liftM, monadLift,
    MonadLift.monadLift, StateT.get, ReaderT.pure, StateT.pure, pure, Except.bind, Except.pure, h, set, StateT.set]

/-- `self._fullpos[self.index+1]` with Python's index wrap -/
def pastJ (fullpos : Array Pos) (index : Int) : Int :=
  if index + 1 < 0 then index + 1 + (fullpos.size : Int) else index + 1

/-- `pos >= self._fullpos[self.index+1]` when there is a later result block, else `False` -/
def pastP (nfull : Nat) (fullpos : Array Pos) (index : Int) (no : Nat) : Except Exc Bool :=
  if (nfull : Int) > 1 && index < (nfull : Int) - 1 then
    if pastJ fullpos index < 0 ∨ pastJ fullpos index ≥ (fullpos.size : Int) then .error .indexError
    else .ok (decide (no ≥ (fullpos[(pastJ fullpos index).toNat]!).no))
  else .ok false

theorem cu_past (p : Pos) (env : Rd) (c : Cur) (b : Bool)
    (h : pastP env.fulltimes.size env.fullpos c.index p.no = .ok b) :
    Cu.pastThisResult p env c = .ok (b, c) := by
  unfold pastP at h
  unfold Cu.pastThisResult
  simp only [bind, ReaderT.bind, StateT.bind, get, getThe, MonadStateOf.get, liftM, monadLift, read, readThe, MonadReaderOf.read,
    MonadLift.monadLift, StateT.get, StateT.pure, pure, Except.bind, Except.pure, ReaderT.read]
  have hJ : (if c.index + 1 < 0 then c.index + 1 + (env.fullpos.size : Int) else c.index + 1) = pastJ env.fullpos c.index := rfl
  simp only [hJ]
  split at h
  · rename_i hc
    simp only [hc, if_true]
    split at h
    · cases h
    · rename_i hj
      simp only [hj, if_false]
      injection h with h
      rw [← h]; rfl
  · rename_i hc
    simp only [hc]
    injection h with h
    rw [← h]; rfl

/-! ### next_table_TOUGH2 -/

def tableTypeT2P (h : List Str) : Except Exc (Option String) :=
  if h.take 2 = [S "ELEM.", S "INDEX"] || h.take 2 = [S "ELEM.", S "IND."] then
    match h[2]? with
    | none => .error .indexError
    | some x => if x = S "P" then .ok (some "element") else if x = S "X1" then .ok (some "primary") else .ok none
  else if h.take 3 = [S "ELEM1", S "ELEM2", S "INDEX"] then .ok (some "connection")
  else if h.take 3 = [S "ELEMENT", S "SOURCE", S "INDEX"] || h.take 3 = [S "ELEM.", S "SOURCE", S "INDEX"] then .ok (some "generation")
  else .ok none

theorem cu_tableTypeT2 (h : List Str) (env : Rd) (c : Cur) :
    Cu.tableTypeTOUGH2 h env c = match tableTypeT2P h with | .ok r => .ok (r, c) | .error e => .error (.py e) := by
  unfold Cu.tableTypeTOUGH2 tableTypeT2P
  simp only [pure]
  split
  · cases h[2]? with
    | none => rfl
    | some x =>
      simp only
      split
      · rfl
      · split <;> rfl
  · split
    · rfl
    · split <;> rfl

theorem cu_tableType (h : List Str) (env : Rd) (c : Cur) (r : Option String)
    (hb : bound env.fam "table_type" = "table_type_TOUGH2") (hr : tableTypeT2P h = .ok r) :
    Cu.tableType h env c = .ok (r, c) := by
  unfold Cu.tableType
  simp only [bind, ReaderT.bind, StateT.bind, read, readThe, MonadReaderOf.read, ReaderT.read, pure, StateT.pure, Except.pure, Except.bind, hb]
  rw [cu_tableTypeT2, hr]


/-- the line next_table_TOUGH2 looks for: the `KCYC … ITER …` line that precedes every table -/
def isKcyc (l : Str) : Bool := startsWith (strip l) (S "KCYC") && isIn (S "ITER") l

/-- **the walk to the next table (next_table_TOUGH2)**: over lines `X` without a `KCYC` line, the `KCYC` line, blank
    lines `Bl`, it stops at the first non-blank line `hl` (the next table's header, left unread) and names the table
    by its first three words -/
theorem cu_nextTableT2_some (env : Rd) (c : Cur) (X : List Str) (kc : Str) (Bl : List Str) (hl : Str) (rest : List Str)
    (tn' : String) (f : Nat)
    (hb : bound env.fam "table_type" = "table_type_TOUGH2")
    (hrest : c.pos.rest = X ++ kc :: (Bl ++ hl :: rest))
    (hX : ∀ x ∈ X, isKcyc x = false) (hkc : isKcyc kc = true) (hkne : kc ≠ [])
    (hpast : pastP env.fulltimes.size env.fullpos c.index (c.pos.no + X.length + 1) = .ok false)
    (hBl : ∀ x ∈ Bl, isBlank x = true) (hhl : isBlank hl = false)
    (hmass : strip hl ≠ S "MASS FLOW RATES (KG/S) FROM DIFFUSION")
    (htt : tableTypeT2P ((splitWs (strip hl)).take 3) = .ok (some tn')) :
    Cu.nextTableTOUGH2.loop (f + 1) env c
      = .ok (some tn', { c with pos := ⟨c.pos.no + X.length + 1 + Bl.length, hl :: rest⟩ }) := by
  unfold Cu.nextTableTOUGH2.loop
  have h1 := cu_readUntil_run (fun l => startsWith (strip l) (S "KCYC") && isIn (S "ITER") l) true env c kc _
    (by rw [hrest]; exact readUntilL_app _ true X kc _ _ hX hkc)
  rw [cu_bind_ok _ _ _ _ _ _ h1]
  simp only [hkne, if_false]
  rw [cu_bind_ok _ _ _ _ _ _ (cu_tell _ _)]
  rw [cu_bind_ok _ _ _ _ _ _ (cu_past _ _ _ false hpast)]
  simp only [Bool.false_eq_true, if_false]
  rw [cu_bind_ok _ _ _ _ _ _ (cu_skipToNonblank_run _ _ _ (skipToNonblankL_app Bl hl rest _ hBl hhl))]
  rw [cu_bind_ok _ _ _ _ _ _ (cu_tell _ _)]
  rw [cu_bind_ok _ _ _ _ _ _ (cu_readline_cons _ _ hl rest rfl)]
  simp only [hmass, if_false]
  rw [cu_bind_ok _ _ _ _ _ _ (cu_seek _ _ _)]
  exact cu_tableType _ _ _ _ hb htt


theorem readUntilL_eof (stop : Str → Bool) (E : List Str) (n : Nat) (hE : ∀ x ∈ E, stop x = false) :
    readUntilL stop true E n = some ([], ⟨n + E.length, []⟩) := by
  induction E generalizing n with
  | nil => simp [readUntilL]
  | cons a E' ih =>
    simp only [readUntilL, hE a List.mem_cons_self, Bool.false_eq_true, if_false]
    rw [ih (n + 1) (fun x hx => hE x (List.mem_cons_of_mem _ hx))]
    simp only [List.length_cons]
    congr 3; omega

/-- no further `KCYC` line up to the end of the file: there is no next table -/
theorem cu_nextTableT2_eof (env : Rd) (c : Cur) (f : Nat) (hE : ∀ x ∈ c.pos.rest, isKcyc x = false) :
    Cu.nextTableTOUGH2.loop (f + 1) env c = .ok (none, { c with pos := ⟨c.pos.no + c.pos.rest.length, []⟩ }) := by
  unfold Cu.nextTableTOUGH2.loop
  have h1 := cu_readUntil_run (fun l => startsWith (strip l) (S "KCYC") && isIn (S "ITER") l) true env c [] _
    (readUntilL_eof _ c.pos.rest c.pos.no hE)
  rw [cu_bind_ok _ _ _ _ _ _ h1]
  simp only [if_true]
  rfl

/-- the next `KCYC` line lies in the next result block: there is no next table in this one -/
theorem cu_nextTableT2_past (env : Rd) (c : Cur) (X : List Str) (kc : Str) (rest : List Str) (f : Nat)
    (hrest : c.pos.rest = X ++ kc :: rest)
    (hX : ∀ x ∈ X, isKcyc x = false) (hkc : isKcyc kc = true) (hkne : kc ≠ [])
    (hpast : pastP env.fulltimes.size env.fullpos c.index (c.pos.no + X.length + 1) = .ok true) :
    Cu.nextTableTOUGH2.loop (f + 1) env c = .ok (none, { c with pos := ⟨c.pos.no + X.length + 1, rest⟩ }) := by
  unfold Cu.nextTableTOUGH2.loop
  have h1 := cu_readUntil_run (fun l => startsWith (strip l) (S "KCYC") && isIn (S "ITER") l) true env c kc _
    (by rw [hrest]; exact readUntilL_app _ true X kc _ _ hX hkc)
  rw [cu_bind_ok _ _ _ _ _ _ h1]
  simp only [hkne, if_false]
  rw [cu_bind_ok _ _ _ _ _ _ (cu_tell _ _)]
  rw [cu_bind_ok _ _ _ _ _ _ (cu_past _ _ _ true hpast)]
  simp only [if_true]
  rfl

/-- from the cursor to the reader: `next_table` as bound for the TOUGH2 family -/
theorem nextTable_of_loop (s : Rd) (r : Option String) (p : Pos)
    (hb : bound s.fam "next_table" = "next_table_TOUGH2")
    (h : Cu.nextTableTOUGH2.loop (s.pos.rest.length + 2) s ⟨s.pos, s.index⟩ = .ok (r, ⟨p, s.index⟩)) :
    nextTable s = .ok (r, { s with pos := p }) := by
  unfold nextTable liftC Cu.nextTable
  simp only [bind, ReaderT.bind, StateT.bind, read, readThe, MonadReaderOf.read, ReaderT.read, pure, StateT.pure, Except.pure, Except.bind, hb]
  unfold Cu.nextTableTOUGH2
  simp only [bind, ReaderT.bind, StateT.bind, get, getThe, MonadStateOf.get, liftM, monadLift,
    MonadLift.monadLift, StateT.get, pure, Except.pure, Except.bind, h]


/-! ### read_tables_TOUGH2 -/

/-- the action of read_tables_TOUGH2 on one table -/
def actT2 (tn : String) : M Unit := do
  if (← get).skipTables.contains tn then skipTable tn
  else if (← hasTable tn) then readTable tn
  else skipTable tn

theorem readTables_T2 (s : Rd) (hb : bound s.fam "read_tables" = "read_tables_TOUGH2") :
    readTables s = (do readHeader; tablesLoop actT2 false false (s.pos.rest.length + 2) "element" 0) s := by
  unfold readTables
  simp only [bind, StateT.bind, get, getThe, MonadStateOf.get, StateT.get, pure, Except.pure, Except.bind, hb]
  rfl

def atLine (l : Str) : Bool := startsWith (l.drop 1) (S "@@@@@")

theorem skipToL_app (R : List Str) (atl : Str) (after : List Str) (n : Nat)
    (hR : ∀ l ∈ R, atLine l = false) (ha : atLine atl = true) :
    skipToL [S "@@@@@"] 1 (R ++ atl :: after) n = (some (S "@@@@@"), ⟨n + R.length + 1, after⟩) := by
  induction R generalizing n with
  | nil =>
    unfold atLine at ha
    simp only [List.nil_append, skipToL, List.find?, ha, List.length_nil, Nat.add_zero]
  | cons a R' ih =>
    have h := hR a List.mem_cons_self
    unfold atLine at h
    simp only [List.cons_append, skipToL, List.find?, h]
    rw [ih (n + 1) (fun x hx => hR x (List.mem_cons_of_mem _ hx))]
    simp only [List.length_cons]
    congr 2; omega

theorem skipTableTOUGH2_absent (tn : String) (s : Rd) (R : List Str) (atl : Str) (after : List Str)
    (ht : s.tables.lookup tn = none) (hplus : (s.fam == .toughplus) = false)
    (hrest : s.pos.rest = R ++ atl :: after)
    (hR : ∀ l ∈ R, atLine l = false) (ha : atLine atl = true) :
    skipTableTOUGH2 tn s = .ok ((), { s with pos := ⟨s.pos.no + R.length + 1, after⟩ }) := by
  unfold skipTableTOUGH2 isPlus skipto1 liftC Cu.skipto1 Cu.skipto
  simp only [bind, ReaderT.bind, StateT.bind, get, getThe, MonadStateOf.get, liftM, monadLift,
    MonadLift.monadLift, StateT.get, pure, Except.pure, Except.bind, ht, hplus, set, StateT.set, StateT.pure, ReaderT.pure,
    Bool.false_and, Bool.false_eq_true, if_false, hrest]
  have := skipToL_app R atl after s.pos.no hR ha
  unfold S at this
  rw [this]


/-! ### the tables of one result block -/

inductive TKind where
  | read (t : Table) (header : List Str) (segs : List (Str × List Str))
  | skip (R : List Str) (atl : Str)

def TKind.lines : TKind → List Str
  | .read _ header segs => header ++ flat segs
  | .skip R atl => R ++ [atl]

structure TEntry where
  tn : String
  kind : TKind
  X : List Str := []
  kc : Str := []
  Bl : List Str := []

def upsT (t : Table) (segs : List (Str × List Str)) : List (Nat × List FVal) :=
  (segs.map (·.1)).filterMap (rowOfLineT t.rows t.keyPos t.cols.length t.numpos)

def stepTables (e : TEntry) (T : List (String × Table)) : List (String × Table) :=
  match e.kind with
  | .read t _ segs => putT e.tn { t with data := applyRows t.data (upsT t segs) } T
  | .skip _ _ => T

def EntryOk (sk : List String) (T : List (String × Table)) (e : TEntry) : Prop :=
  match e.kind with
  | .read t header segs =>
    sk.contains e.tn = false ∧ T.lookup e.tn = some t ∧ header.length = t.headerSkip ∧ segs.map (·.2.length) = t.skips ∧
    (∀ sg ∈ segs, (rowOfLineT t.rows t.keyPos t.cols.length t.numpos sg.1).isSome = true)
  | .skip R atl => T.lookup e.tn = none ∧ (∀ l ∈ R, atLine l = false) ∧ atLine atl = true

theorem EntryOk_congr (sk : List String) (T T' : List (String × Table)) (e : TEntry) (h : T'.lookup e.tn = T.lookup e.tn)
    (hok : EntryOk sk T e) : EntryOk sk T' e := by
  unfold EntryOk at *
  cases hk : e.kind with
  | read t header segs => rw [hk] at hok; simp only at hok ⊢; rw [h]; exact hok
  | skip R atl => rw [hk] at hok; simp only at hok ⊢; rw [h]; exact hok

theorem stepTables_lookup_other (e : TEntry) (T : List (String × Table)) (m : String) (hm : m ≠ e.tn) :
    (stepTables e T).lookup m = T.lookup m := by
  unfold stepTables
  cases e.kind with
  | read t header segs => exact putT_lookup_other e.tn m _ T hm
  | skip R atl => rfl

theorem pure_unit_run (s : Rd) : (pure () : M Unit) s = .ok ((), s) := rfl

theorem actT2_run (e : TEntry) (s : Rd) (after : List Str)
    (hrd : bound s.fam "read_table" = "read_table_TOUGH2") (hsk : bound s.fam "skip_table" = "skip_table_TOUGH2")
    (hplus : (s.fam == .toughplus) = false)
    (hok : EntryOk s.skipTables s.tables e) (hrest : s.pos.rest = e.kind.lines ++ after) :
    actT2 e.tn s = .ok ((), { s with pos := ⟨s.pos.no + e.kind.lines.length, after⟩, tables := stepTables e s.tables }) := by
  unfold EntryOk at hok
  unfold stepTables
  cases hk : e.kind with
  | read t header segs =>
    rw [hk] at hok hrest
    simp only [TKind.lines] at hok hrest ⊢
    obtain ⟨hc, ht, hh, hs, hrows⟩ := hok
    unfold actT2 hasTable readTable
    simp only [bind, StateT.bind, get, getThe, MonadStateOf.get, StateT.get, pure, Except.pure, Except.bind, hc, ht,
      Bool.false_eq_true, if_false, Option.isSome_some, if_true, hrd, StateT.pure]
    have hups : segs.map (fun sg => rowOfLineT t.rows t.keyPos t.cols.length t.numpos sg.1) = (upsT t segs).map some := by
      unfold upsT
      rw [← map_eq_map_some_filterMap _ (segs.map (·.1))]
      · rw [List.map_map]; rfl
      · intro x hx
        obtain ⟨sg, hsg, rfl⟩ := List.mem_map.mp hx
        exact hrows sg hsg
    rw [readTableTOUGH2_run e.tn t s header segs after _ ht (by rw [hrest, List.append_assoc]) hh hs hups]
    simp only [List.length_append]
  | skip R atl =>
    rw [hk] at hok hrest
    simp only [TKind.lines] at hok hrest ⊢
    obtain ⟨ht, hR, ha⟩ := hok
    have hskip := skipTableTOUGH2_absent e.tn s R atl after ht hplus (by rw [hrest]; simp) hR ha
    have hskT : skipTable e.tn s = .ok ((), { s with pos := ⟨s.pos.no + (R.length + 1), after⟩ }) := by
      unfold skipTable
      simp only [bind, StateT.bind, get, getThe, MonadStateOf.get, StateT.get, pure, Except.pure, Except.bind, hsk]
      exact hskip
    simp only [List.length_append, List.length_cons, List.length_nil, Nat.zero_add]
    unfold actT2 hasTable
    cases hc : s.skipTables.contains e.tn
    · simp only [bind, StateT.bind, get, getThe, MonadStateOf.get, StateT.get, pure, Except.pure, Except.bind, hc, ht,
        Option.isSome_none, Bool.false_eq_true, if_false, StateT.pure]
      exact hskT
    · simp only [bind, StateT.bind, get, getThe, MonadStateOf.get, StateT.get, pure, Except.pure, Except.bind, hc, if_true]
      exact hskT


/-- the lines of a result block from the first table's header line on; `E` is what follows the last table -/
def blockLines : List TEntry → List Str → List Str
  | [], E => E
  | [e], E => e.kind.lines ++ E
  | e :: e' :: more, E => e.kind.lines ++ (e.X ++ e.kc :: (e.Bl ++ blockLines (e' :: more) E))

/-- the line number behind the last table of the block -/
def endNo : Nat → List TEntry → Nat
  | no, [] => no
  | no, [e] => no + e.kind.lines.length
  | no, e :: e' :: more => endNo (no + e.kind.lines.length + e.X.length + 1 + e.Bl.length) (e' :: more)

def massFlow : Str := S "MASS FLOW RATES (KG/S) FROM DIFFUSION"

/-- between table `e` (whose lines end at line number `no`) and the next table `e'` -/
def LinkOk (nfull : Nat) (fullpos : Array Pos) (index : Int) (no : Nat) (e e' : TEntry) : Prop :=
  (∀ x ∈ e.X, isKcyc x = false) ∧ isKcyc e.kc = true ∧ e.kc ≠ [] ∧
  pastP nfull fullpos index (no + e.X.length + 1) = .ok false ∧
  (∀ x ∈ e.Bl, isBlank x = true) ∧ e'.kind.lines ≠ [] ∧ isBlank (e'.kind.lines.headD []) = false ∧
  strip (e'.kind.lines.headD []) ≠ massFlow ∧
  tableTypeT2P ((splitWs (strip (e'.kind.lines.headD []))).take 3) = .ok (some e'.tn)

def LinksOk (nfull : Nat) (fullpos : Array Pos) (index : Int) : Nat → List TEntry → Prop
  | no, e :: e' :: more =>
    LinkOk nfull fullpos index (no + e.kind.lines.length) e e' ∧
    LinksOk nfull fullpos index (no + e.kind.lines.length + e.X.length + 1 + e.Bl.length) (e' :: more)
  | _, _ => True

/-- behind the last table: lines `Xe` without a `KCYC` line, then either the end of the file or a `KCYC` line that
    already belongs to the next result block -/
def endLines (Xe : List Str) (tailE : Option (Str × List Str)) : List Str :=
  Xe ++ (match tailE with | none => [] | some (kc, rest) => kc :: rest)

def EndOk (nfull : Nat) (fullpos : Array Pos) (index : Int) (no : Nat) (Xe : List Str) (tailE : Option (Str × List Str)) : Prop :=
  (∀ x ∈ Xe, isKcyc x = false) ∧
  match tailE with
  | none => True
  | some (kc, _) => isKcyc kc = true ∧ kc ≠ [] ∧ pastP nfull fullpos index (no + Xe.length + 1) = .ok true

def endPos (no : Nat) (Xe : List Str) (tailE : Option (Str × List Str)) : Pos :=
  match tailE with
  | none => ⟨no + Xe.length, []⟩
  | some (_, rest) => ⟨no + Xe.length + 1, rest⟩

theorem nextTable_end (s : Rd) (Xe : List Str) (tailE : Option (Str × List Str))
    (hb : bound s.fam "next_table" = "next_table_TOUGH2")
    (hrest : s.pos.rest = endLines Xe tailE)
    (hend : EndOk s.fulltimes.size s.fullpos s.index s.pos.no Xe tailE) :
    nextTable s = .ok (none, { s with pos := endPos s.pos.no Xe tailE }) := by
  apply nextTable_of_loop s none _ hb
  unfold endLines at hrest
  unfold EndOk at hend
  unfold endPos
  cases tailE with
  | none =>
    simp only [List.append_nil] at hrest
    rw [cu_nextTableT2_eof s ⟨s.pos, s.index⟩ _ (by simp only; rw [hrest]; exact hend.1)]
    simp only [hrest]
  | some p =>
    obtain ⟨kc, rest⟩ := p
    simp only at hrest hend ⊢
    rw [cu_nextTableT2_past s ⟨s.pos, s.index⟩ Xe kc rest _ hrest hend.1 hend.2.1 hend.2.2.1 hend.2.2.2]

theorem nextTable_link (s : Rd) (e e' : TEntry) (rest : List Str)
    (hb : bound s.fam "next_table" = "next_table_TOUGH2") (hbt : bound s.fam "table_type" = "table_type_TOUGH2")
    (hrest : s.pos.rest = e.X ++ e.kc :: (e.Bl ++ (e'.kind.lines ++ rest)))
    (hl : LinkOk s.fulltimes.size s.fullpos s.index s.pos.no e e') :
    nextTable s = .ok (some e'.tn, { s with pos := ⟨s.pos.no + e.X.length + 1 + e.Bl.length, e'.kind.lines ++ rest⟩ }) := by
  apply nextTable_of_loop s _ _ hb
  obtain ⟨hX, hkc, hkne, hpast, hBl, hne, hhl, hmass, htt⟩ := hl
  have hsplit : e'.kind.lines ++ rest = e'.kind.lines.headD [] :: (e'.kind.lines.tail ++ rest) := by
    cases h : e'.kind.lines with
    | nil => exact absurd h hne
    | cons a r => simp
  rw [hsplit] at hrest ⊢
  exact cu_nextTableT2_some s ⟨s.pos, s.index⟩ e.X e.kc e.Bl _ _ e'.tn _ hbt hrest hX hkc hkne hpast hBl hhl hmass htt


/-- **the loop of read_tables_TOUGH2 over the tables of one result block** -/
theorem tablesLoop_block (e : TEntry) (more : List TEntry) (Xe : List Str) (tailE : Option (Str × List Str))
    (s : Rd) (fuel nelt : Nat) (hfuel : more.length < fuel)
    (hrd : bound s.fam "read_table" = "read_table_TOUGH2") (hsk : bound s.fam "skip_table" = "skip_table_TOUGH2")
    (hnt : bound s.fam "next_table" = "next_table_TOUGH2") (htt : bound s.fam "table_type" = "table_type_TOUGH2")
    (hplus : (s.fam == .toughplus) = false)
    (hnodup : ((e :: more).map (·.tn)).Nodup)
    (hok : ∀ x ∈ e :: more, EntryOk s.skipTables s.tables x)
    (hlinks : LinksOk s.fulltimes.size s.fullpos s.index s.pos.no (e :: more))
    (hend : EndOk s.fulltimes.size s.fullpos s.index (endNo s.pos.no (e :: more)) Xe tailE)
    (hrest : s.pos.rest = blockLines (e :: more) (endLines Xe tailE)) :
    tablesLoop actT2 false false fuel e.tn nelt s
      = .ok ((), { s with pos := endPos (endNo s.pos.no (e :: more)) Xe tailE,
                          tables := (e :: more).foldl (fun T x => stepTables x T) s.tables }) := by
  induction more generalizing e s fuel with
  | nil =>
    cases fuel with
    | zero => cases hfuel
    | succ f =>
      simp only [blockLines] at hrest
      have hact := actT2_run e s _ hrd hsk hplus (hok e List.mem_cons_self) hrest
      unfold tablesLoop
      simp only [Bool.false_eq_true, if_false]
      rw [bind_ok _ _ _ _ _ hact]
      rw [bind_ok _ _ _ _ _ (nextTable_end { s with pos := ⟨s.pos.no + e.kind.lines.length, endLines Xe tailE⟩, tables := stepTables e s.tables } Xe tailE hnt rfl hend)]
      rfl
  | cons e' more' ih =>
    cases fuel with
    | zero => cases hfuel
    | succ f =>
      simp only [blockLines] at hrest
      have hact := actT2_run e s _ hrd hsk hplus (hok e List.mem_cons_self) hrest
      unfold tablesLoop
      simp only [Bool.false_eq_true, if_false]
      rw [bind_ok _ _ _ _ _ hact]
      obtain ⟨rest', hrest'⟩ : ∃ rest', blockLines (e' :: more') (endLines Xe tailE) = e'.kind.lines ++ rest' := by
        cases more' with
        | nil => exact ⟨_, rfl⟩
        | cons e'' m => exact ⟨_, rfl⟩
      have hsplit : e.X ++ e.kc :: (e.Bl ++ blockLines (e' :: more') (endLines Xe tailE))
          = e.X ++ e.kc :: (e.Bl ++ (e'.kind.lines ++ rest')) := by rw [hrest']
      rw [bind_ok _ _ _ _ _ (nextTable_link { s with pos := ⟨s.pos.no + e.kind.lines.length, e.X ++ e.kc :: (e.Bl ++ blockLines (e' :: more') (endLines Xe tailE))⟩, tables := stepTables e s.tables } e e' _ hnt htt hsplit hlinks.1)]
      simp only [Bool.false_and, Bool.false_eq_true, if_false]
      have hne : ∀ x ∈ e' :: more', x.tn ≠ e.tn := by
        intro x hx hxe
        have := (List.nodup_cons.mp hnodup).1
        apply this
        exact List.mem_map.mpr ⟨x, hx, hxe⟩
      rw [ih e' { s with pos := ⟨s.pos.no + e.kind.lines.length + e.X.length + 1 + e.Bl.length, e'.kind.lines ++ rest'⟩, tables := stepTables e s.tables } f (by simp only [List.length_cons] at hfuel; omega) hrd hsk hnt htt hplus
        (List.nodup_cons.mp hnodup).2
        (fun x hx => EntryOk_congr _ s.tables _ x (stepTables_lookup_other e s.tables x.tn (hne x hx))
          (hok x (List.mem_cons_of_mem _ hx)))
        hlinks.2 hend hrest'.symm]
      rfl


/-! ### what the tables hold after the block -/

theorem foldl_lookup_other (L : List TEntry) (T : List (String × Table)) (m : String) (h : ∀ x ∈ L, x.tn ≠ m) :
    (L.foldl (fun T x => stepTables x T) T).lookup m = T.lookup m := by
  induction L generalizing T with
  | nil => rfl
  | cons x r ih =>
    simp only [List.foldl_cons]
    rw [ih _ (fun y hy => h y (List.mem_cons_of_mem _ hy))]
    exact stepTables_lookup_other x T m (fun e => h x List.mem_cons_self e.symm)

/-- a table that no entry of the block reads (skipped, or not in the block at all) keeps its contents -/
theorem foldl_lookup_not_read (L : List TEntry) (T : List (String × Table)) (m : String)
    (h : ∀ x ∈ L, x.tn = m → ∃ R atl, x.kind = .skip R atl) :
    (L.foldl (fun T x => stepTables x T) T).lookup m = T.lookup m := by
  induction L generalizing T with
  | nil => rfl
  | cons x r ih =>
    simp only [List.foldl_cons]
    rw [ih _ (fun y hy => h y (List.mem_cons_of_mem _ hy))]
    by_cases hx : x.tn = m
    · obtain ⟨R, atl, hk⟩ := h x List.mem_cons_self hx
      unfold stepTables; rw [hk]
    · exact stepTables_lookup_other x T m (fun e => hx e.symm)

/-- a table the block reads holds the values of its own region -/
theorem foldl_lookup_read (L : List TEntry) (T : List (String × Table)) (x : TEntry) (t : Table) (header : List Str)
    (segs : List (Str × List Str)) (hx : x ∈ L) (hk : x.kind = .read t header segs)
    (hnodup : (L.map (·.tn)).Nodup) (hT : (T.lookup x.tn).isSome = true) :
    (L.foldl (fun T x => stepTables x T) T).lookup x.tn = some { t with data := applyRows t.data (upsT t segs) } := by
  induction L generalizing T with
  | nil => cases hx
  | cons y r ih =>
    simp only [List.foldl_cons]
    simp only [List.map_cons, List.nodup_cons] at hnodup
    rcases List.mem_cons.mp hx with rfl | hxr
    · rw [foldl_lookup_other r _ x.tn (fun z hz e => hnodup.1 (List.mem_map.mpr ⟨z, hz, e⟩))]
      unfold stepTables; rw [hk]
      exact putT_lookup_self x.tn _ T hT
    · have hne : x.tn ≠ y.tn := fun e => hnodup.1 (List.mem_map.mpr ⟨x, hxr, e⟩)
      exact ih _ hxr hnodup.2 (by rw [stepTables_lookup_other y T x.tn hne]; exact hT)

end Proofs.Whole
