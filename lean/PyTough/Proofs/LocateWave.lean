import PyTough.Proofs.Locate
namespace Proofs.Locate
open Model.Locate

/-! ## F. `search_wave` never runs out of fuel -/

/-- the distinct elements of a list (only used to define the potential) -/
def dedup : List Nat → List Nat
  | [] => []
  | a :: t => if t.contains a then dedup t else a :: dedup t

theorem mem_dedup {l : List Nat} {n : Nat} : n ∈ dedup l ↔ n ∈ l := by
  induction l with
  | nil => simp [dedup]
  | cons a t ih =>
    unfold dedup
    split
    · rename_i h
      rw [ih]
      simp only [List.contains_eq_mem, decide_eq_true_eq] at h
      constructor
      · exact fun hn => List.mem_cons_of_mem _ hn
      · intro hn
        simp only [List.mem_cons] at hn
        rcases hn with rfl | hn
        · exact h
        · exact hn
    · simp only [List.mem_cons, ih]

theorem nodup_dedup (l : List Nat) : (dedup l).Nodup := by
  induction l with
  | nil => simp [dedup]
  | cons a t ih =>
    unfold dedup
    split
    · exact ih
    · rename_i h
      rw [List.nodup_cons]
      refine ⟨?_, ih⟩
      rw [mem_dedup]
      simpa using h

theorem length_dedup_le (l : List Nat) : (dedup l).length ≤ l.length := by
  induction l with
  | nil => simp [dedup]
  | cons a t ih =>
    unfold dedup
    split
    · simp only [List.length_cons]; omega
    · simp only [List.length_cons]; omega

/-- potential: elements still to do + columns of `all` not yet seen -/
def waveMu (all todo done : List Nat) : Nat :=
  todo.length + ((dedup all).filter fun n => !(done.contains n || todo.contains n)).length

theorem filter_remove_one {l : List Nat} (hn : l.Nodup) (q : Nat → Bool) (n : Nat) (hmem : n ∈ l) (hq : q n = true) :
    (l.filter fun m => q m && !(m == n)).length + 1 = (l.filter q).length := by
  induction l with
  | nil => cases hmem
  | cons a t ih =>
    rw [List.nodup_cons] at hn
    by_cases han : a = n
    · subst han
      have hnot : ∀ m ∈ t, (m == a) = false := by
        intro m hm
        have : m ≠ a := fun h => hn.1 (h ▸ hm)
        simpa using this
      have e : (t.filter fun m => q m && !(m == a)) = t.filter q := by
        apply List.filter_congr
        intro m hm
        simp [hnot m hm]
      simp [hq, e]
    · have hmem' : n ∈ t := by
        simp only [List.mem_cons] at hmem
        rcases hmem with h | h
        · exact absurd h.symm han
        · exact h
      have ih' := ih hn.2 hmem'
      have hane : (a == n) = false := by simpa using han
      by_cases hqa : q a = true
      · simp only [List.filter_cons, hqa, hane, Bool.not_false, Bool.and_self, if_true, List.length_cons]
        omega
      · simp only [Bool.not_eq_true] at hqa
        simp only [List.filter_cons, hqa, Bool.false_and, Bool.false_eq_true, if_false]
        exact ih'

theorem waveMu_append {all todo done : List Nat} {n : Nat} (hall : all.contains n = true)
    (hd : done.contains n = false) (ht : todo.contains n = false) :
    waveMu all (todo ++ [n]) done = waveMu all todo done := by
  unfold waveMu
  have hnd : (dedup all).Nodup := nodup_dedup _
  have hmem : n ∈ (dedup all) := by
    rw [mem_dedup]; simpa using hall
  have key := filter_remove_one hnd (fun m => !(done.contains m || todo.contains m)) n hmem (by rw [hd, ht]; rfl)
  have e : ((dedup all).filter fun m => !(done.contains m || (todo ++ [n]).contains m))
      = (dedup all).filter fun m => (!(done.contains m || todo.contains m)) && !(m == n) := by
    apply List.filter_congr
    intro m _
    simp only [List.contains_eq_mem, List.mem_append, List.mem_singleton, Bool.decide_or, Bool.not_or,
      Bool.and_assoc]
    by_cases h1 : m ∈ done <;> by_cases h2 : m ∈ todo <;> by_cases h3 : m = n <;> simp [h1, h2, h3]
  rw [e, List.length_append]
  simp only [List.length_singleton]
  omega

theorem waveMu_waveStep {g : Geo} {all : List Nat} {b : Rect} {done : List Nat} :
    ∀ (nb todo : List Nat), (∀ n ∈ nb, all.contains n = true) →
      waveMu all (waveStep g b done todo nb) done = waveMu all todo done := by
  intro nb
  induction nb with
  | nil => intro todo _; rfl
  | cons n t ih =>
    intro todo hall
    unfold waveStep
    simp only [List.foldl_cons]
    have hall' : ∀ m ∈ t, all.contains m = true := fun m hm => hall m (List.mem_cons_of_mem _ hm)
    split
    · rename_i hc
      simp only [Bool.and_eq_true, Bool.not_eq_true', Bool.or_eq_false_iff] at hc
      have := ih (todo ++ [n]) hall'
      unfold waveStep at this
      rw [this]
      exact waveMu_append (hall n List.mem_cons_self) hc.2.1 hc.2.2
    · have := ih todo hall'
      unfold waveStep at this
      exact this

theorem waveMu_pop (all todo done : List Nat) (elt : Nat) :
    waveMu all todo (done ++ [elt]) + 1 = waveMu all (elt :: todo) done := by
  unfold waveMu
  have e : ((dedup all).filter fun n => !((done ++ [elt]).contains n || todo.contains n))
      = (dedup all).filter fun n => !(done.contains n || (elt :: todo).contains n) := by
    apply List.filter_congr
    intro m _
    simp only [List.contains_eq_mem, List.mem_append, List.mem_cons, Bool.decide_or]
    by_cases h1 : m ∈ done <;> by_cases h2 : m ∈ todo <;> by_cases h3 : m = elt <;> simp [h1, h2, h3]
  rw [e, List.length_cons]; omega

/-- fuel beyond the potential is never used -/
theorem searchWaveLoop_fuel {g : Geo} {all : List Nat} {b : Rect} {p : Pt} :
    ∀ (f1 f2 : Nat) (todo done : List Nat), waveMu all todo done < f1 → waveMu all todo done < f2 →
      searchWaveLoop g all b p f1 todo done = searchWaveLoop g all b p f2 todo done := by
  intro f1
  induction f1 with
  | zero => intro f2 todo done h1; omega
  | succ n ih =>
    intro f2 todo done h1 h2
    cases f2 with
    | zero => omega
    | succ m =>
      cases todo with
      | nil => simp [searchWaveLoop]
      | cons elt t =>
        simp only [searchWaveLoop]
        split
        · rfl
        · have hstep := waveMu_waveStep (g := g) (b := b) (done := done ++ [elt])
            ((g.nbrs elt).filter fun n => all.contains n) t (by intro n hn; exact (List.mem_filter.mp hn).2)
          have hpop := waveMu_pop all t done elt
          apply ih
          · omega
          · omega

theorem waveMu_le (all todo : List Nat) : waveMu all todo [] < searchFuel all todo := by
  unfold waveMu searchFuel
  have h1 : ((dedup all).filter fun n => !(([] : List Nat).contains n || todo.contains n)).length ≤ (dedup all).length :=
    List.length_filter_le _ _
  have h2 : (dedup all).length ≤ all.length := length_dedup_le all
  omega

/-- `search_wave` with the fuel the model gives it behaves as with any larger fuel: the `none`
    of an exhausted loop is never returned. -/
theorem searchWave_fuel_enough (g : Geo) (all : List Nat) (leaf : QTree) (p : Pt) (extra : Nat) :
    searchWaveLoop g all leaf.bounds p (searchFuel all leaf.elements + extra) leaf.elements [] = searchWave g all leaf p := by
  unfold searchWave
  apply searchWaveLoop_fuel
  · have := waveMu_le all leaf.elements; omega
  · exact waveMu_le all leaf.elements

end Proofs.Locate
