import PyTough.Proofs.Locate
namespace Proofs.Locate
open Model.Locate

/-! ## F. `search_wave` never runs out of fuel -/

/-- the distinct elements of a list (only used to define the potential) -/
def dedup : List Nat → List Nat
  | [] => []
  | a :: t => if t.contains a then dedup t else a :: dedup t

theorem mem_dedup {l : List Nat} {n : Nat} : n ∈ dedup l ↔ n ∈ l := by
  induction l with
  | nil => simp [dedup]
  | cons a t ih =>
    unfold dedup
    split
    · rename_i h
      rw [ih]
      simp only [List.contains_eq_mem, decide_eq_true_eq] at h
      constructor
      · exact fun hn => List.mem_cons_of_mem _ hn
      · intro hn
        simp only [List.mem_cons] at hn
        rcases hn with rfl | hn
        · exact h
        · exact hn
    · simp only [List.mem_cons, ih]

theorem nodup_dedup (l : List Nat) : (dedup l).Nodup := by
  induction l with
  | nil => simp [dedup]
  | cons a t ih =>
    unfold dedup
    split
    · exact ih
    · rename_i h
      rw [List.nodup_cons]
      refine ⟨?_, ih⟩
      rw [mem_dedup]
      simpa using h

theorem length_dedup_le (l : List Nat) : (dedup l).length ≤ l.length := by
  induction l with
  | nil => simp [dedup]
  | cons a t ih =>
    unfold dedup
    split
    · simp only [List.length_cons]; omega
    · simp only [List.length_cons]; omega

/-- potential: elements still to do + columns of `all` not yet seen -/
def waveMu (all todo done : List Nat) : Nat :=
  todo.length + ((dedup all).filter fun n => !(done.contains n || todo.contains n)).length

theorem filter_remove_one {l : List Nat} (hn : l.Nodup) (q : Nat → Bool) (n : Nat) (hmem : n ∈ l) (hq : q n = true) :
    (l.filter fun m => q m && !(m == n)).length + 1 = (l.filter q).length := by
  induction l with
  | nil => cases hmem
  | cons a t ih =>
    rw [List.nodup_cons] at hn
    by_cases han : a = n
    · subst han
      have hnot : ∀ m ∈ t, (m == a) = false := by
        intro m hm
        have : m ≠ a := fun h => hn.1 (h ▸ hm)
        simpa using this
      have e : (t.filter fun m => q m && !(m == a)) = t.filter q := by
        apply List.filter_congr
        intro m hm
        simp [hnot m hm]
      simp [hq, e]
    · have hmem' : n ∈ t := by
        simp only [List.mem_cons] at hmem
        rcases hmem with h | h
        · exact absurd h.symm han
        · exact h
      have ih' := ih hn.2 hmem'
      have hane : (a == n) = false := by simpa using han
      by_cases hqa : q a = true
      · simp only [List.filter_cons, hqa, hane, Bool.not_false, Bool.and_self, if_true, List.length_cons]
        omega
      · simp only [Bool.not_eq_true] at hqa
        simp only [List.filter_cons, hqa, Bool.false_and, Bool.false_eq_true, if_false]
        exact ih'

theorem waveMu_append {all todo done : List Nat} {n : Nat} (hall : all.contains n = true)
    (hd : done.contains n = false) (ht : todo.contains n = false) :
    waveMu all (todo ++ [n]) done = waveMu all todo done := by
  unfold waveMu
  have hnd : (dedup all).Nodup := nodup_dedup _
  have hmem : n ∈ (dedup all) := by
    rw [mem_dedup]; simpa using hall
  have key := filter_remove_one hnd (fun m => !(done.contains m || todo.contains m)) n hmem (by rw [hd, ht]; rfl)
  have e : ((dedup all).filter fun m => !(done.contains m || (todo ++ [n]).contains m))
      = (dedup all).filter fun m => (!(done.contains m || todo.contains m)) && !(m == n) := by
    apply List.filter_congr
    intro m _
    simp only [List.contains_eq_mem, List.mem_append, List.mem_singleton, Bool.decide_or, Bool.not_or,
      Bool.and_assoc]
    by_cases h1 : m ∈ done <;> by_cases h2 : m ∈ todo <;> by_cases h3 : m = n <;> simp [h1, h2, h3]
  rw [e, List.length_append]
  simp only [List.length_singleton]
  omega

theorem waveMu_waveStep {g : Geo} {all : List Nat} {b : Rect} {done : List Nat} :
    ∀ (nb todo : List Nat), (∀ n ∈ nb, all.contains n = true) →
      waveMu all (waveStep g b done todo nb) done = waveMu all todo done := by
  intro nb
  induction nb with
  | nil => intro todo _; rfl
  | cons n t ih =>
    intro todo hall
    unfold waveStep
    simp only [List.foldl_cons]
    have hall' : ∀ m ∈ t, all.contains m = true := fun m hm => hall m (List.mem_cons_of_mem _ hm)
    split
    · rename_i hc
      simp only [Bool.and_eq_true, Bool.not_eq_true', Bool.or_eq_false_iff] at hc
      have := ih (todo ++ [n]) hall'
      unfold waveStep at this
      rw [this]
      exact waveMu_append (hall n List.mem_cons_self) hc.2.1 hc.2.2
    · have := ih todo hall'
      unfold waveStep at this
      exact this

theorem waveMu_pop (all todo done : List Nat) (elt : Nat) :
    waveMu all todo (done ++ [elt]) + 1 = waveMu all (elt :: todo) done := by
  unfold waveMu
  have e : ((dedup all).filter fun n => !((done ++ [elt]).contains n || todo.contains n))
      = (dedup all).filter fun n => !(done.contains n || (elt :: todo).contains n) := by
    apply List.filter_congr
    intro m _
    simp only [List.contains_eq_mem, List.mem_append, List.mem_cons, Bool.decide_or]
    by_cases h1 : m ∈ done <;> by_cases h2 : m ∈ todo <;> by_cases h3 : m = elt <;> simp [h1, h2, h3]
  rw [e, List.length_cons]; omega

/-- fuel beyond the potential is never used -/
theorem searchWaveLoop_fuel {g : Geo} {all : List Nat} {b : Rect} {p : Pt} :
    ∀ (f1 f2 : Nat) (todo done : List Nat), waveMu all todo done < f1 → waveMu all todo done < f2 →
      searchWaveLoop g all b p f1 todo done = searchWaveLoop g all b p f2 todo done := by
  intro f1
  induction f1 with
  | zero => intro f2 todo done h1; omega
  | succ n ih =>
    intro f2 todo done h1 h2
    cases f2 with
    | zero => omega
    | succ m =>
      cases todo with
      | nil => simp [searchWaveLoop]
      | cons elt t =>
        simp only [searchWaveLoop]
        split
        · rfl
        · have hstep := waveMu_waveStep (g := g) (b := b) (done := done ++ [elt])
            ((g.nbrs elt).filter fun n => all.contains n) t (by intro n hn; exact (List.mem_filter.mp hn).2)
          have hpop := waveMu_pop all t done elt
          apply ih
          · omega
          · omega

theorem waveMu_le (all todo : List Nat) : waveMu all todo [] < searchFuel all todo := by
  unfold waveMu searchFuel
  have h1 : ((dedup all).filter fun n => !(([] : List Nat).contains n || todo.contains n)).length ≤ (dedup all).length :=
    List.length_filter_le _ _
  have h2 : (dedup all).length ≤ all.length := length_dedup_le all
  omega

/-- `search_wave` with the fuel the model gives it behaves as with any larger fuel: the `none`
    of an exhausted loop is never returned. -/
theorem searchWave_fuel_enough (g : Geo) (all : List Nat) (leaf : QTree) (p : Pt) (extra : Nat) :
    searchWaveLoop g all leaf.bounds p (searchFuel all leaf.elements + extra) leaf.elements [] = searchWave g all leaf p := by
  unfold searchWave
  apply searchWaveLoop_fuel
  · have := waveMu_le all leaf.elements; omega
  · exact waveMu_le all leaf.elements

/-! ## G. `search_wave` is a complete breadth-first search of the admissible neighbour graph -/

/-- the neighbours `search_wave` is willing to visit from `x`: in `all_elements`, bounding box
    meeting the leaf rectangle -/
def admissible (g : Geo) (all : List Nat) (b : Rect) (x : Nat) : List Nat :=
  ((g.nbrs x).filter fun n => all.contains n).filter fun n => rectanglesIntersect (g.bbox n) b

/-- `x` reaches `c` through admissible steps without touching `done` -/
inductive AvoidReach (g : Geo) (all : List Nat) (b : Rect) (c : Nat) (done : List Nat) : Nat → Prop
  | base : c ∉ done → AvoidReach g all b c done c
  | step {x n : Nat} : x ∉ done → n ∈ admissible g all b x → AvoidReach g all b c done n → AvoidReach g all b c done x

theorem AvoidReach.not_done {g : Geo} {all : List Nat} {b : Rect} {c : Nat} {done : List Nat} {x : Nat}
    (h : AvoidReach g all b c done x) : x ∉ done := by
  cases h with
  | base h => exact h
  | step h _ _ => exact h

/-- moving `elt ≠ c` to `done`: either `x` still reaches `c`, or an admissible neighbour of `elt` does -/
theorem AvoidReach.push {g : Geo} {all : List Nat} {b : Rect} {c : Nat} {done : List Nat} {elt : Nat} (hne : c ≠ elt) {x : Nat}
    (h : AvoidReach g all b c done x) :
    AvoidReach g all b c (done ++ [elt]) x ∨ ∃ m ∈ admissible g all b elt, AvoidReach g all b c (done ++ [elt]) m := by
  induction h with
  | base hc =>
    left; apply AvoidReach.base
    simp only [List.mem_append, List.mem_singleton, not_or]
    exact ⟨hc, hne⟩
  | @step x n hx hn _ ih =>
    rcases ih with ih | ih
    · by_cases hxe : x = elt
      · right; subst hxe; exact ⟨n, hn, ih⟩
      · left
        apply AvoidReach.step _ hn ih
        simp only [List.mem_append, List.mem_singleton, not_or]
        exact ⟨hx, hxe⟩
    · right; exact ih

theorem subset_waveStep {g : Geo} {b : Rect} {done : List Nat} : ∀ (nb todo : List Nat) (x : Nat),
    x ∈ todo → x ∈ waveStep g b done todo nb := by
  intro nb
  induction nb with
  | nil => intro todo x h; exact h
  | cons n t ih =>
    intro todo x h
    unfold waveStep
    simp only [List.foldl_cons]
    split
    · have := ih (todo ++ [n]) x (List.mem_append_left _ h)
      unfold waveStep at this; exact this
    · have := ih todo x h
      unfold waveStep at this; exact this

theorem mem_waveStep {g : Geo} {b : Rect} {done : List Nat} : ∀ (nb todo : List Nat) (m : Nat),
    m ∈ nb → rectanglesIntersect (g.bbox m) b = true → m ∉ done → m ∈ waveStep g b done todo nb := by
  intro nb
  induction nb with
  | nil => intro todo m h; cases h
  | cons n t ih =>
    intro todo m hm hint hnd
    simp only [List.mem_cons] at hm
    unfold waveStep
    simp only [List.foldl_cons]
    rcases hm with rfl | hm
    · split
      · have := subset_waveStep (g := g) (b := b) (done := done) t (todo ++ [m]) m (by simp)
        unfold waveStep at this; exact this
      · rename_i hcond
        -- the condition failed although m meets the rectangle and is not done: m is already in todo
        have hin : m ∈ todo := by
          simp only [hint, Bool.true_and, Bool.not_eq_true', Bool.or_eq_false_iff, not_and,
            List.contains_eq_mem, decide_eq_false_iff_not] at hcond
          exact Classical.not_not.mp (hcond hnd)
        have := subset_waveStep (g := g) (b := b) (done := done) t todo m hin
        unfold waveStep at this; exact this
    · split
      · have := ih (todo ++ [n]) m hm hint hnd
        unfold waveStep at this; exact this
      · have := ih todo m hm hint hnd
        unfold waveStep at this; exact this

/-- with enough fuel, if some element of `todo` reaches `c` avoiding `done`, the loop returns `c` -/
theorem searchWaveLoop_complete {g : Geo} {all : List Nat} {b : Rect} {p : Pt} {c : Nat}
    (hu : UniqueAt g p) (hc : g.containsPoint c p = true) :
    ∀ (fuel : Nat) (todo done : List Nat), waveMu all todo done < fuel →
      (∃ t ∈ todo, AvoidReach g all b c done t) → searchWaveLoop g all b p fuel todo done = some c := by
  intro fuel
  induction fuel with
  | zero => intro todo done h; omega
  | succ n ih =>
    intro todo done hfuel ⟨t, ht, hreach⟩
    cases todo with
    | nil => cases ht
    | cons elt rest =>
      simp only [searchWaveLoop]
      split
      · rename_i he
        rw [hu elt c he hc]
      · rename_i he
        have hne : c ≠ elt := fun h => he (h ▸ hc)
        have hstep := waveMu_waveStep (g := g) (b := b) (done := done ++ [elt])
          ((g.nbrs elt).filter fun n => all.contains n) rest (by intro n hn; exact (List.mem_filter.mp hn).2)
        have hpop := waveMu_pop all rest done elt
        apply ih _ _ (by omega)
        rcases hreach.push hne with h | ⟨m, hm, h⟩
        · have htne : t ≠ elt := by
            intro hte
            have := h.not_done
            simp only [List.mem_append, List.mem_singleton, not_or] at this
            exact this.2 hte
          have : t ∈ rest := by
            simp only [List.mem_cons] at ht
            rcases ht with ht | ht
            · exact absurd ht htne
            · exact ht
          exact ⟨t, subset_waveStep _ _ _ this, h⟩
        · unfold admissible at hm
          rw [List.mem_filter] at hm
          exact ⟨m, mem_waveStep _ _ _ hm.1 hm.2 h.not_done, h⟩

/-- **completeness of the quadtree search, relative to the neighbour graph**: if the column that
    contains the point is reachable from an element of the point's leaf through neighbours that are in
    the tree and whose bounding boxes meet the leaf rectangle, `qtree.search` returns it. -/
theorem search_complete_of_reachable {g : Geo} {q : QT} {p : Pt} {c : Nat} {l : QTree}
    (hu : UniqueAt g p) (hc : g.containsPoint c p = true) (hl : q.root.leaf p = some l)
    (hr : ∃ e ∈ l.elements, AvoidReach g q.all l.bounds c [] e) : q.search g p = some c := by
  unfold QT.search
  rw [hl]
  unfold searchWave
  exact searchWaveLoop_complete hu hc _ _ _ (waveMu_le _ _) hr

/-- the same through `column_containing_point`, with any guess and any column subset -/
theorem guessSearch_complete_qtree {g : Geo} {q : QT} {p : Pt} {c : Nat} {l : QTree} {sc : List Nat} {gu : Option Nat}
    (hu : UniqueAt g p) (hc : g.containsPoint c p = true) (hl : q.root.leaf p = some l)
    (hr : ∃ e ∈ l.elements, AvoidReach g q.all l.bounds c [] e) : guessSearch g p sc gu (some q) = some c := by
  have hs := search_complete_of_reachable hu hc hl hr
  unfold guessSearch
  cases gu with
  | none => simp only [fullSearch, hs]
  | some gu =>
    simp only
    split
    · rename_i hg; rw [hu gu c hg hc]
    · split
      · rename_i c' hf; rw [hu c' c (firstContaining_sound hf) hc]
      · simp only [fullSearch, hs]

end Proofs.Locate
