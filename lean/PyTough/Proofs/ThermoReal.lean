/-
  The real-number instance of the carrier class of the thermodynamic routines, and the
  rewriting lemmas that turn the generated (carrier-generic) definitions of
  `Gen/Iapws.lean`, `Gen/Ifc67.lean` into ordinary real-number expressions.
-/
import Mathlib.Analysis.SpecialFunctions.Pow.Real
import PyTough.Model.Thermo

namespace Proofs.Thermo
open Model.Thermo

/-- the same expression trees, read over ℝ: literals are the exact rationals of the doubles,
    `sqrt`, `exp`, `**` are the real functions, comparisons are the real order -/
noncomputable instance instTFReal : ThermoField ℝ where
  add a b := a + b
  sub a b := a - b
  mul a b := a * b
  div a b := a / b
  neg a := -a
  sqrt := Real.sqrt
  exp := Real.exp
  pow a b := a ^ b
  lit _ n d := (n : ℝ) / (d : ℝ)
  ofInt i := (i : ℝ)
  le a b := decide (a ≤ b)
  lt a b := decide (a < b)
  bad := 0
  fma a b c := a * b + c

theorem tf_add (a b : ℝ) : @HAdd.hAdd ℝ ℝ ℝ (@instHAdd ℝ ThermoField.toAdd) a b = a + b := rfl
theorem tf_sub (a b : ℝ) : @HSub.hSub ℝ ℝ ℝ (@instHSub ℝ ThermoField.toSub) a b = a - b := rfl
theorem tf_mul (a b : ℝ) : @HMul.hMul ℝ ℝ ℝ (@instHMul ℝ ThermoField.toMul) a b = a * b := rfl
theorem tf_div (a b : ℝ) : @HDiv.hDiv ℝ ℝ ℝ (@instHDiv ℝ ThermoField.toDiv) a b = a / b := rfl
theorem tf_neg (a : ℝ) : @Neg.neg ℝ ThermoField.toNeg a = -a := rfl
theorem tf_sqrt (a : ℝ) : ThermoField.sqrt a = Real.sqrt a := rfl
theorem tf_exp (a : ℝ) : ThermoField.exp a = Real.exp a := rfl
theorem tf_pow (a b : ℝ) : ThermoField.pow a b = a ^ b := rfl
theorem tf_lit (b : UInt64) (n : Int) (d : Nat) : (ThermoField.lit b n d : ℝ) = (n : ℝ) / (d : ℝ) := rfl
theorem tf_ofInt (i : Int) : (ThermoField.ofInt i : ℝ) = (i : ℝ) := rfl
theorem tf_fma (a b c : ℝ) : ThermoField.fma a b c = a * b + c := rfl
theorem tf_bad : (ThermoField.bad : ℝ) = 0 := rfl
theorem tf_le (a b : ℝ) : (ThermoField.le a b = true) ↔ a ≤ b := by simp [ThermoField.le]
theorem tf_lt (a b : ℝ) : (ThermoField.lt a b = true) ↔ a < b := by simp [ThermoField.lt]
theorem tf_le' (a b : ℝ) : ThermoField.le a b = decide (a ≤ b) := rfl
theorem tf_lt' (a b : ℝ) : ThermoField.lt a b = decide (a < b) := rfl

/-- Python's `sum` is the sum -/
theorem pySum_eq (xs : List ℝ) : pySum xs = xs.sum := by
  unfold pySum
  have h : ∀ (l : List ℝ) (a : ℝ), List.foldl (fun x y => x + y) a l = a + l.sum := by
    intro l; induction l with
    | nil => intro a; simp
    | cons x l ih => intro a; simp [List.foldl, ih, add_assoc]
  have := h xs ((0 : Int) : ℝ)
  simpa [tf_ofInt, tf_add] using this

theorem pyMin_eq (a b : ℝ) : pyMin a b = min a b := by
  unfold pyMin
  rw [tf_lt']
  by_cases h : b < a
  · simp [h, min_eq_right (le_of_lt h)]
  · simp [h, min_eq_left (not_lt.mp h)]

theorem pyMax_eq (a b : ℝ) : pyMax a b = max a b := by
  unfold pyMax
  rw [tf_lt']
  by_cases h : a < b
  · simp [h, max_eq_right (le_of_lt h)]
  · simp [h, max_eq_left (not_lt.mp h)]

end Proofs.Thermo
