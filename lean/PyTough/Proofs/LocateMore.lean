/-
  More proofs for C12: the planar half of quadtree completeness on rectangular lattices.
  H. the leaf of a point in a constructor-built tree is non-empty and holds only elements whose
     centres lie in the leaf rectangle
  I. on a lattice of bounding boxes every cell between two cells that meet a rectangle meets it too,
     so `search_wave` can walk an L-shaped path from a leaf element to the containing column
-/
import PyTough.Proofs.Locate
import PyTough.Proofs.LocateWave

namespace Proofs.Locate
open Model.Locate

/-! ## H. the leaf of a point -/

/-- elements of the node are in `S` and have their centres in the node's rectangle; there is one -/
def GoodNode (g : Geo) (S : List Nat) (t : QTree) : Prop :=
  t.elements ≠ [] ∧ ∀ x ∈ t.elements, x ∈ S ∧ inRectangle (g.centre x) t.bounds = true

mutual
theorem leaf_good {g : Geo} {S : List Nat} (p : Pt) : ∀ (t l : QTree), QAll (NodeOK g) t → GoodNode g S t →
    t.leaf p = some l → GoodNode g S l
  | .node b e ch, l, hall, hg, h => by
    simp only [QTree.leaf] at h
    split at h
    · split at h
      · rename_i l' hl
        injection h with h; subst h
        simp only [QAll] at hall
        refine leafList_good p ch _ hall.2 ?_ hl
        intro c hc
        obtain ⟨h1, _, h3⟩ := hall.1.2.1 c hc
        refine ⟨h1, fun x hx => ⟨?_, (h3 x hx).2⟩⟩
        exact (hg.2 x (h3 x hx).1).1
      · injection h with h; subst h; exact hg
    · cases h
theorem leafList_good {g : Geo} {S : List Nat} (p : Pt) : ∀ (ts : List QTree) (l : QTree), QAllList (NodeOK g) ts →
    (∀ c ∈ ts, GoodNode g S c) → leafList p ts = some l → GoodNode g S l
  | [], l, _, _, h => by simp [leafList] at h
  | c :: cs, l, hall, hg, h => by
    simp only [leafList] at h
    simp only [QAllList] at hall
    split at h
    · rename_i l' hl
      injection h with h; subst h
      exact leaf_good p c _ hall.1 (hg c List.mem_cons_self) hl
    · exact leafList_good p cs l hall.2 (fun d hd => hg d (List.mem_cons_of_mem _ hd)) h
end

/-! ## I. lattices of bounding boxes -/

/-- the columns' bounding boxes form a full `nx × ny` lattice with grid lines `xs 0 ≤ … ≤ xs nx`,
    `ys 0 ≤ … ≤ ys ny`; column `i + nx·j` is cell `(i, j)`; each centre is in its cell; cells sharing
    a side are neighbours of each other.  (What `mulgrid().rectangular(...)` builds.) -/
structure Lattice (g : Geo) (nx ny : Nat) (xs ys : Nat → Rat) : Prop where
  ncols : g.ncols = nx * ny
  monoX : ∀ i, i < nx → xs i ≤ xs (i + 1)
  monoY : ∀ j, j < ny → ys j ≤ ys (j + 1)
  bbox : ∀ i j, i < nx → j < ny → g.bbox (i + nx * j) = ((xs i, ys j), (xs (i + 1), ys (j + 1)))
  centre : ∀ k, k < g.ncols → inRectangle (g.centre k) (g.bbox k) = true
  nbrE : ∀ i j, i + 1 < nx → j < ny →
    (i + 1 + nx * j) ∈ g.nbrs (i + nx * j) ∧ (i + nx * j) ∈ g.nbrs (i + 1 + nx * j)
  nbrN : ∀ i j, i < nx → j + 1 < ny →
    (i + nx * (j + 1)) ∈ g.nbrs (i + nx * j) ∧ (i + nx * j) ∈ g.nbrs (i + nx * (j + 1))

theorem mono_le {f : Nat → Rat} {n : Nat} (h : ∀ i, i < n → f i ≤ f (i + 1)) :
    ∀ (d a : Nat), a + d ≤ n → f a ≤ f (a + d) := by
  intro d
  induction d with
  | zero => intro a _; exact le_refl _
  | succ d ih =>
    intro a ha
    have h1 := ih a (by omega)
    have h2 := h (a + d) (by omega)
    exact le_trans h1 h2

theorem mono_le' {f : Nat → Rat} {n : Nat} (h : ∀ i, i < n → f i ≤ f (i + 1)) {a b : Nat} (hab : a ≤ b) (hb : b ≤ n) :
    f a ≤ f b := by
  have := mono_le h (b - a) a (by omega)
  rwa [show a + (b - a) = b by omega] at this

/-- one coordinate: `u` in cell `a` and in `[blo, bhi]`, `v` in cell `b` and in `[blo, bhi]`, `a ≤ k ≤ b`:
    cell `k` meets `[blo, bhi]` -/
theorem meets_between {f : Nat → Rat} {n : Nat} (h : ∀ i, i < n → f i ≤ f (i + 1)) {a k b : Nat} {u v blo bhi : Rat}
    (hak : a ≤ k) (hkb : k ≤ b) (hb : b < n) (hu1 : u ≤ f (a + 1)) (hu2 : blo ≤ u) (hv1 : f b ≤ v) (hv2 : v ≤ bhi) :
    f (k + 1) ≥ blo ∧ bhi ≥ f k := by
  have m1 : f (a + 1) ≤ f (k + 1) := mono_le' h (by omega) (by omega)
  have m2 : f k ≤ f b := mono_le' h hkb (by omega)
  exact ⟨le_trans hu2 (le_trans hu1 m1), le_trans m2 (le_trans hv1 hv2)⟩

/-- `k` between `a` and `b` in either order -/
def Btw (a k b : Nat) : Prop := (a ≤ k ∧ k ≤ b) ∨ (b ≤ k ∧ k ≤ a)

theorem btw_left (a b : Nat) : Btw a a b := by unfold Btw; omega
theorem btw_right (a b : Nat) : Btw a b b := by unfold Btw; omega

theorem meets_btw {f : Nat → Rat} {n : Nat} (h : ∀ i, i < n → f i ≤ f (i + 1)) {a k b : Nat} {u v blo bhi : Rat}
    (hk : Btw a k b) (ha : a < n) (hb : b < n)
    (hu0 : f a ≤ u) (hu1 : u ≤ f (a + 1)) (hu2 : blo ≤ u) (hu3 : u ≤ bhi)
    (hv0 : f b ≤ v) (hv1 : v ≤ f (b + 1)) (hv2 : blo ≤ v) (hv3 : v ≤ bhi) :
    f (k + 1) ≥ blo ∧ bhi ≥ f k := by
  rcases hk with ⟨h1, h2⟩ | ⟨h1, h2⟩
  · exact meets_between h h1 h2 hb hu1 hu2 hv0 hv3
  · exact meets_between h h1 h2 ha hv1 hv2 hu0 hu3

theorem inRectangle_iff {p : Pt} {r : Rect} :
    inRectangle p r = true ↔ (r.1.1 ≤ p.1 ∧ p.1 ≤ r.2.1) ∧ (r.1.2 ≤ p.2 ∧ p.2 ≤ r.2.2) := by
  unfold inRectangle
  simp only [Bool.and_eq_true, decide_eq_true_eq]

/-- a cell lying between (in both indices) two cells that each hold a point of `B` meets `B` -/
theorem cell_meets {g : Geo} {nx ny : Nat} {xs ys : Nat → Rat} (L : Lattice g nx ny xs ys) {B : Rect} {u v : Pt}
    {iu ju iv jv i j : Nat} (hiu : iu < nx) (hju : ju < ny) (hiv : iv < nx) (hjv : jv < ny)
    (hu : inRectangle u (g.bbox (iu + nx * ju)) = true) (huB : inRectangle u B = true)
    (hv : inRectangle v (g.bbox (iv + nx * jv)) = true) (hvB : inRectangle v B = true)
    (hi : Btw iu i iv) (hj : Btw ju j jv) :
    rectanglesIntersect (g.bbox (i + nx * j)) B = true := by
  have hi' : i < nx := by rcases hi with h | h <;> omega
  have hj' : j < ny := by rcases hj with h | h <;> omega
  rw [L.bbox i j hi' hj']
  rw [L.bbox iu ju hiu hju, inRectangle_iff] at hu
  rw [L.bbox iv jv hiv hjv, inRectangle_iff] at hv
  rw [inRectangle_iff] at huB hvB
  simp only at hu hv
  have X := meets_btw L.monoX hi hiu hiv hu.1.1 hu.1.2 huB.1.1 huB.1.2 hv.1.1 hv.1.2 hvB.1.1 hvB.1.2
  have Y := meets_btw L.monoY hj hju hjv hu.2.1 hu.2.2 huB.2.1 huB.2.2 hv.2.1 hv.2.2 hvB.2.1 hvB.2.2
  unfold rectanglesIntersect
  simp only [Bool.and_eq_true, decide_eq_true_eq]
  exact ⟨⟨X.1, X.2⟩, Y.1, Y.2⟩

/-! ### walking along a chain of admissible steps -/

theorem chain_up {g : Geo} {all : List Nat} {B : Rect} {c : Nat} (f : Nat → Nat) (lo hi : Nat)
    (hn : ∀ t, lo ≤ t → t < hi → f (t + 1) ∈ admissible g all B (f t)) :
    ∀ (d t : Nat), lo ≤ t → t + d = hi → AvoidReach g all B c [] (f hi) → AvoidReach g all B c [] (f t) := by
  intro d
  induction d with
  | zero => intro t _ ht h; rw [show t = hi by omega]; exact h
  | succ d ih =>
    intro t hlo ht h
    exact AvoidReach.step (by simp) (hn t hlo (by omega)) (ih (t + 1) (by omega) (by omega) h)

theorem chain_down {g : Geo} {all : List Nat} {B : Rect} {c : Nat} (f : Nat → Nat) (lo hi : Nat)
    (hn : ∀ t, lo ≤ t → t < hi → f t ∈ admissible g all B (f (t + 1))) :
    ∀ (d t : Nat), lo + d = t → t ≤ hi → AvoidReach g all B c [] (f lo) → AvoidReach g all B c [] (f t) := by
  intro d
  induction d with
  | zero => intro t ht _ h; rw [show t = lo by omega]; exact h
  | succ d ih =>
    intro t ht hle h
    have := ih (lo + d) rfl (by omega) h
    rw [show t = lo + d + 1 by omega]
    exact AvoidReach.step (by simp) (hn (lo + d) (by omega) (by omega)) this

theorem mem_admissible {g : Geo} {all : List Nat} {B : Rect} {x n : Nat}
    (h1 : n ∈ g.nbrs x) (h2 : n ∈ all) (h3 : rectanglesIntersect (g.bbox n) B = true) : n ∈ admissible g all B x := by
  unfold admissible
  rw [List.mem_filter, List.mem_filter]
  exact ⟨⟨h1, by simpa using h2⟩, h3⟩

theorem cell_lt {nx ny i j : Nat} (hi : i < nx) (hj : j < ny) : i + nx * j < nx * ny := by
  have : nx * j + nx ≤ nx * ny := by
    have := Nat.mul_le_mul_left nx (show j + 1 ≤ ny by omega)
    rwa [Nat.mul_add, Nat.mul_one] at this
  omega

/-- walking along row `j` from cell `(i0, j)` to cell `(i1, j)` when every cell in between meets `B` -/
theorem row_reach {g : Geo} {nx ny : Nat} {xs ys : Nat → Rat} (L : Lattice g nx ny xs ys) {all : List Nat} {B : Rect} {c : Nat}
    (hall : ∀ k, k < g.ncols → k ∈ all) {i0 i1 j : Nat} (h0 : i0 < nx) (h1 : i1 < nx) (hj : j < ny)
    (hm : ∀ i, Btw i0 i i1 → rectanglesIntersect (g.bbox (i + nx * j)) B = true)
    (h : AvoidReach g all B c [] (i1 + nx * j)) : AvoidReach g all B c [] (i0 + nx * j) := by
  have hin : ∀ i, i < nx → (i + nx * j) ∈ all := fun i hi => hall _ (by rw [L.ncols]; exact cell_lt hi hj)
  rcases Nat.le_total i0 i1 with hle | hle
  · refine chain_up (fun i => i + nx * j) i0 i1 ?_ (i1 - i0) i0 (Nat.le_refl _) (by omega) h
    intro t ht0 ht
    exact mem_admissible (L.nbrE t j (by omega) hj).1 (hin _ (by omega)) (hm _ (Or.inl ⟨by omega, by omega⟩))
  · refine chain_down (fun i => i + nx * j) i1 i0 ?_ (i0 - i1) i0 (by omega) (Nat.le_refl _) h
    intro t ht1 ht2
    exact mem_admissible (L.nbrE t j (by omega) hj).2 (hin _ (by omega)) (hm _ (Or.inr ⟨by omega, by omega⟩))

/-- walking along column `i` of the lattice from cell `(i, j0)` to cell `(i, j1)` -/
theorem col_reach {g : Geo} {nx ny : Nat} {xs ys : Nat → Rat} (L : Lattice g nx ny xs ys) {all : List Nat} {B : Rect} {c : Nat}
    (hall : ∀ k, k < g.ncols → k ∈ all) {i j0 j1 : Nat} (hi : i < nx) (h0 : j0 < ny) (h1 : j1 < ny)
    (hm : ∀ j, Btw j0 j j1 → rectanglesIntersect (g.bbox (i + nx * j)) B = true)
    (h : AvoidReach g all B c [] (i + nx * j1)) : AvoidReach g all B c [] (i + nx * j0) := by
  have hin : ∀ j, j < ny → (i + nx * j) ∈ all := fun j hj => hall _ (by rw [L.ncols]; exact cell_lt hi hj)
  rcases Nat.le_total j0 j1 with hle | hle
  · refine chain_up (fun j => i + nx * j) j0 j1 ?_ (j1 - j0) j0 (Nat.le_refl _) (by omega) h
    intro t ht0 ht
    exact mem_admissible (L.nbrN i t hi (by omega)).1 (hin _ (by omega)) (hm _ (Or.inl ⟨by omega, by omega⟩))
  · refine chain_down (fun j => i + nx * j) j1 j0 ?_ (j0 - j1) j0 (by omega) (Nat.le_refl _) h
    intro t ht1 ht2
    exact mem_admissible (L.nbrN i t hi (by omega)).2 (hin _ (by omega)) (hm _ (Or.inr ⟨by omega, by omega⟩))

theorem cell_of_lt {nx ny k : Nat} (h : k < nx * ny) : ∃ i j, i < nx ∧ j < ny ∧ k = i + nx * j := by
  have hnx : 0 < nx := by
    rcases Nat.eq_zero_or_pos nx with h0 | h0
    · subst h0; simp at h
    · exact h0
  refine ⟨k % nx, k / nx, Nat.mod_lt _ hnx, ?_, (Nat.mod_add_div k nx).symm⟩
  rw [Nat.div_lt_iff_lt_mul hnx, Nat.mul_comm]; exact h

/-- **the planar step on a lattice**: a leaf element whose centre is in the leaf rectangle `B` reaches
    the column containing a point of `B`, through neighbours whose bounding boxes meet `B`
    (along its row, then along the target's column) -/
theorem lattice_reach {g : Geo} {nx ny : Nat} {xs ys : Nat → Rat} (L : Lattice g nx ny xs ys) {all : List Nat} {B : Rect}
    (hall : ∀ k, k < g.ncols → k ∈ all) {e c : Nat} {p : Pt} (he : e < g.ncols)
    (heB : inRectangle (g.centre e) B = true) (hc : g.containsPoint c p = true) (hpB : inRectangle p B = true) :
    AvoidReach g all B c [] e := by
  have hclt := containsPoint_lt hc
  have hcen := L.centre e he
  have hnear : inRectangle p (g.bbox c) = true := containsPoint_near hc
  rw [L.ncols] at he hclt
  obtain ⟨i0, j0, hi0, hj0, rfl⟩ := cell_of_lt he
  obtain ⟨i1, j1, hi1, hj1, rfl⟩ := cell_of_lt hclt
  apply row_reach L hall hi0 hi1 hj0
  · intro i hi
    exact cell_meets L hi0 hj0 hi1 hj1 hcen heB hnear hpB hi (btw_left j0 j1)
  · apply col_reach L hall hi1 hj0 hj1
    · intro j hj
      exact cell_meets L hi0 hj0 hi1 hj1 hcen heB hnear hpB (btw_right i0 i1) hj
    · exact AvoidReach.base (by simp)

/-- the rectangle `bounds` covers the lattice -/
def Covers (bounds : Rect) (nx ny : Nat) (xs ys : Nat → Rat) : Prop :=
  bounds.1.1 ≤ xs 0 ∧ xs nx ≤ bounds.2.1 ∧ bounds.1.2 ≤ ys 0 ∧ ys ny ≤ bounds.2.2

theorem in_cover {g : Geo} {nx ny : Nat} {xs ys : Nat → Rat} (L : Lattice g nx ny xs ys) {bounds : Rect}
    (hcov : Covers bounds nx ny xs ys) {k : Nat} (hk : k < g.ncols) {u : Pt} (hu : inRectangle u (g.bbox k) = true) :
    inRectangle u bounds = true := by
  rw [L.ncols] at hk
  obtain ⟨i, j, hi, hj, rfl⟩ := cell_of_lt hk
  rw [L.bbox i j hi hj, inRectangle_iff] at hu
  simp only at hu
  obtain ⟨c1, c2, c3, c4⟩ := hcov
  have x0 : xs 0 ≤ xs i := mono_le' L.monoX (Nat.zero_le _) (by omega)
  have x1 : xs (i + 1) ≤ xs nx := mono_le' L.monoX (by omega) (Nat.le_refl _)
  have y0 : ys 0 ≤ ys j := mono_le' L.monoY (Nat.zero_le _) (by omega)
  have y1 : ys (j + 1) ≤ ys ny := mono_le' L.monoY (by omega) (Nat.le_refl _)
  rw [inRectangle_iff]
  exact ⟨⟨le_trans c1 (le_trans x0 hu.1.1), le_trans hu.1.2 (le_trans x1 c2)⟩,
         le_trans c3 (le_trans y0 hu.2.1), le_trans hu.2.2 (le_trans y1 c4)⟩

/-- on a lattice, with the quadtree the constructor builds over all columns and bounds covering the
    lattice, the containing column is reachable from every element of the point's leaf, and the leaf
    has an element -/
theorem lattice_leaf_reach {g : Geo} {nx ny : Nat} {xs ys : Nat → Rat} (L : Lattice g nx ny xs ys) {bounds : Rect} {q : QT}
    (hq : columnQuadtree g bounds (List.range g.ncols) = some q) (hcov : Covers bounds nx ny xs ys)
    {p : Pt} {c : Nat} (hc : g.containsPoint c p = true) :
    ∃ l, q.root.leaf p = some l ∧ l.elements ≠ [] ∧ ∀ e ∈ l.elements, AvoidReach g q.all l.bounds c [] e := by
  unfold columnQuadtree at hq
  cases hb : buildQ g quadFuel bounds (List.range g.ncols) with
  | none => simp [hb] at hq
  | some t =>
    simp only [hb, Option.some.injEq] at hq
    subst hq
    simp only
    obtain ⟨rb, re⟩ := buildQ_root _ _ _ _ hb
    have hQ := buildQ_all _ _ _ _ hb
    have hclt := containsPoint_lt hc
    have hpb : inRectangle p t.bounds = true := by
      rw [rb]; exact in_cover L hcov hclt (containsPoint_near hc)
    obtain ⟨l, hl⟩ := leaf_some p t hpb
    have hgood : GoodNode g (List.range g.ncols) t := by
      refine ⟨?_, ?_⟩
      · rw [re]; intro h0
        have : c ∈ List.range g.ncols := List.mem_range.mpr hclt
        rw [h0] at this; cases this
      · intro x hx
        rw [re] at hx
        refine ⟨hx, ?_⟩
        rw [rb]
        exact in_cover L hcov (List.mem_range.mp hx) (L.centre x (List.mem_range.mp hx))
    have hgl := leaf_good p t l hQ hgood hl
    refine ⟨l, hl, hgl.1, ?_⟩
    intro e he
    obtain ⟨h1, h2⟩ := hgl.2 e he
    exact lattice_reach L (fun k hk => List.mem_range.mpr hk) (List.mem_range.mp h1) h2 hc (leaf_bounds p t l hl)

/-! ## J. the bounding box of a rectangular column -/

theorem le_foldl_min (m : Rat) (xs : List Rat) : ∀ (x : Rat), m ≤ x → (∀ y ∈ xs, m ≤ y) → m ≤ xs.foldl min x := by
  induction xs with
  | nil => intro x hx _; exact hx
  | cons a t ih =>
    intro x hx h
    simp only [List.foldl_cons]
    exact ih (min x a) (le_min hx (h a List.mem_cons_self)) (fun y hy => h y (List.mem_cons_of_mem _ hy))

theorem foldl_max_le (m : Rat) (xs : List Rat) : ∀ (x : Rat), x ≤ m → (∀ y ∈ xs, y ≤ m) → xs.foldl max x ≤ m := by
  induction xs with
  | nil => intro x hx _; exact hx
  | cons a t ih =>
    intro x hx h
    simp only [List.foldl_cons]
    exact ih (max x a) (max_le hx (h a List.mem_cons_self)) (fun y hy => h y (List.mem_cons_of_mem _ hy))

/-- a polygon all of whose nodes lie in the rectangle `R` and that has `R`'s bottom-left and top-right
    corners among its nodes (an axis-aligned rectangle, nodes in any order) has bounding box `R` -/
theorem bounds_of_rectangle {poly : Poly} {R : Rect} (hin : ∀ q ∈ poly, inRectangle q R = true)
    (h1 : R.1 ∈ poly) (h2 : R.2 ∈ poly) : boundsOfPoints poly = R := by
  have b1 := bounds_contain h1
  have b2 := bounds_contain h2
  have hin' : ∀ q ∈ poly, (R.1.1 ≤ q.1 ∧ q.1 ≤ R.2.1) ∧ (R.1.2 ≤ q.2 ∧ q.2 ≤ R.2.2) :=
    fun q hq => inRectangle_iff.mp (hin q hq)
  cases poly with
  | nil => cases h1
  | cons p ps =>
    have hp := hin' p List.mem_cons_self
    have hps : ∀ q ∈ ps, (R.1.1 ≤ q.1 ∧ q.1 ≤ R.2.1) ∧ (R.1.2 ≤ q.2 ∧ q.2 ≤ R.2.2) :=
      fun q hq => hin' q (List.mem_cons_of_mem _ hq)
    simp only [boundsOfPoints, minList, maxList] at b1 b2 ⊢
    have e1 := le_foldl_min R.1.1 (ps.map (·.1)) p.1 hp.1.1 (by
      intro y hy; obtain ⟨q, hq, rfl⟩ := List.mem_map.mp hy; exact (hps q hq).1.1)
    have e2 := le_foldl_min R.1.2 (ps.map (·.2)) p.2 hp.2.1 (by
      intro y hy; obtain ⟨q, hq, rfl⟩ := List.mem_map.mp hy; exact (hps q hq).2.1)
    have e3 := foldl_max_le R.2.1 (ps.map (·.1)) p.1 hp.1.2 (by
      intro y hy; obtain ⟨q, hq, rfl⟩ := List.mem_map.mp hy; exact (hps q hq).1.2)
    have e4 := foldl_max_le R.2.2 (ps.map (·.2)) p.2 hp.2.2 (by
      intro y hy; obtain ⟨q, hq, rfl⟩ := List.mem_map.mp hy; exact (hps q hq).2.2)
    obtain ⟨⟨r11, r12⟩, r21, r22⟩ := R
    simp only at b1 b2 e1 e2 e3 e4 ⊢
    rw [le_antisymm b1.1 e1, le_antisymm b1.2.1 e2, le_antisymm e3 b2.2.2.1, le_antisymm e4 b2.2.2.2]

end Proofs.Locate
