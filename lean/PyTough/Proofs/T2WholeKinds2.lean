/-
  C01 proofs, layer 5d: more section kinds in the uniform shape `StepRT` (RPCAP, TIMES, SELEC, INCON, INDOM).
-/
import PyTough.Proofs.T2WholeKinds
namespace Proofs.T2
open Py Model Model.T2 Proofs Proofs.Incon
open Gen.Sections (Rec)

def canonRPCap (rp cp : RP) : RPCap :=
  ⟨some (canonRP (fieldAt mainTabs c!"relative_permeability" 0) (fieldAt mainTabs c!"relative_permeability" 2) rp),
   some (canonRP (fieldAt mainTabs c!"capillarity" 0) (fieldAt mainTabs c!"capillarity" 2) cp)⟩

theorem stepRT_RPCAP (d d0 : T2Data) (hxp : XpFree d0) (rp cp : RP) (hrp : d.rpcap = ⟨some rp, some cp⟩)
    (hl1 : rp.params.length ≤ 7) (hl2 : cp.params.length ≤ 7)
    (hw : ∃ lines, writeRPCap mainTabs ⟨some rp, some cp⟩ = .ok lines) :
    StepRT d c!"RPCAP" d0 { d0 with rpcap := canonRPCap rp cp } := by
  obtain ⟨lines, hw⟩ := hw
  have h1 := rp_shape mainTabs (Or.inl rfl) c!"relative_permeability" (by simp)
  have h2 := rp_shape mainTabs (Or.inl rfl) c!"capillarity" (by simp)
  obtain ⟨body, rfl, _⟩ := section_roundtrip_RPCAP h1.1 h2.1 h1.2 h2.2 rp cp hl1 hl2 hw []
  refine stepRT_plain body (by show writeRPCap mainTabs d.rpcap = _; rw [hrp]; exact hw) ?_ hxp
  intro line tail
  obtain ⟨body', hb', h⟩ := section_roundtrip_RPCAP h1.1 h2.1 h1.2 h2.2 rp cp hl1 hl2 hw tail
  cases hb'
  have hc : d0.extraPrecision.contains c!"RPCAP" = false := by rw [hxp]; rfl
  have hx : xpReadable c!"RPCAP" = true := by decide
  unfold readSection
  simp only [hx, hc, Bool.and_false, Bool.false_eq_true, if_false]
  simp (config := { decide := true }) only [readGridSection, bind, Except.bind, pure, Except.pure, if_true, if_false, h]
  rfl

theorem writeTimes_head {T : Tabs} {o : OutputTimes} {lines : List Str} (hw : writeTimes T o = .ok lines) (hne : lines ≠ []) :
    ∃ b, lines = nl c!"TIMES" :: b := by
  unfold writeTimes at hw
  split at hw
  · cases hw; exact absurd rfl hne
  · simp only [bind, Except.bind, pure, Except.pure] at hw
    repeat' split at hw
    all_goals first | (cases hw; done) | (cases hw; exact ⟨_, rfl⟩)

def canonTimes (o o0 : OutputTimes) (ts : List Val) : OutputTimes :=
  { d := absorb (recOf mainTabs c!"output_times1").names
           (canonVals (recOf mainTabs c!"output_times1") (lineVals (recOf mainTabs c!"output_times1") o.d)) o0.d,
    time := some (ts.map (canonV (fieldAt mainTabs c!"output_times2" 0))) }

theorem stepRT_TIMES (d d0 : T2Data) (hxp : XpFree d0) (ts : List Val) (htime : d.outputTimes.time = some ts)
    (hn : d.outputTimes.d.get c!"num_times_specified" = some (.int (Int.ofNat ts.length)))
    (hkeep : (canonTimes d.outputTimes d0.outputTimes ts).d.get c!"num_times_specified" = some (.int (Int.ofNat ts.length)))
    (hx : ∀ x ∈ ts, canonV (fieldAt mainTabs c!"output_times2" 0) x ≠ Val.none)
    (hw : ∃ lines, writeTimes mainTabs d.outputTimes = .ok lines) :
    StepRT d c!"TIMES" d0 { d0 with outputTimes := canonTimes d.outputTimes d0.outputTimes ts } := by
  obtain ⟨lines, hw⟩ := hw
  obtain ⟨r2, h2, hc, _⟩ := chunkOK_spec (main_chunks_ok (c!"output_times2", 8) (by decide))
  have key := fun rest => section_roundtrip_TIMES mainTabs main_times_rec.1 h2 main_times_rec.2 hc d.outputTimes d0.outputTimes ts htime hn hkeep hx hw rest
  obtain ⟨kwline, body, hl, _⟩ := key []
  obtain ⟨b, hb⟩ := writeTimes_head hw (by rw [hl]; simp)
  rw [hl] at hb
  cases hb
  subst hl
  refine stepRT_plain body hw ?_ hxp
  intro line tail
  obtain ⟨kwline', body', hb', h⟩ := key tail
  cases hb'
  have h1 : xpReadable c!"TIMES" = false := by decide
  unfold readSection
  simp only [h1, Bool.false_and, Bool.false_eq_true, if_false]
  simp (config := { decide := true }) only [h, if_true, if_false, bind, Except.bind, pure, Except.pure]
  rfl

def canonSelection (s : Selection) : Selection :=
  { integer := s.integer.map (canonV (fieldAt mainTabs c!"selec1" 0)) ++ List.replicate (16 - s.integer.length) Val.none,
    float := s.float.map (canonV (fieldAt mainTabs c!"selec2" 0)) ++
               List.replicate (((s.float.length + 8 - 1) / 8) * 8 - s.float.length) Val.none }

theorem stepRT_SELEC (d d0 : T2Data) (hxp : XpFree d0) (s : Selection) (hs : d.selection = some s)
    (hg : GoodSelection (fieldAt mainTabs c!"selec1" 0) s)
    (hw : ∃ lines, writeSelection mainTabs (some s) = .ok lines) :
    StepRT d c!"SELEC" d0 { d0 with selection := some (canonSelection s) } := by
  obtain ⟨lines, hw⟩ := hw
  have c1 := chunkRec_of mainTabs c!"selec1" 16 (main_chunks_ok _ (by decide))
  have c2 := chunkRec_of mainTabs c!"selec2" 8 (main_chunks_ok _ (by decide))
  obtain ⟨body, rfl, _⟩ := section_roundtrip_SELEC c1.1 c2.1 c1.2 c2.2 s hg hw []
  refine stepRT_plain body (by show writeSelection mainTabs d.selection = _; rw [hs]; exact hw) ?_ hxp
  intro line tail
  obtain ⟨body', hb', h⟩ := section_roundtrip_SELEC c1.1 c2.1 c1.2 c2.2 s hg hw tail
  cases hb'
  have h1 : xpReadable c!"SELEC" = false := by decide
  unfold readSection
  simp only [h1, Bool.false_and, Bool.false_eq_true, if_false]
  simp (config := { decide := true }) only [h, if_true, if_false, bind, Except.bind, pure, Except.pure]
  rfl

/-- the initial conditions `write_incons` writes: those of the object's blocks, in block order -/
def writtenIncons (d : T2Data) : List Incon := d.blocks.filterMap fun b => d.incon.find? (·.name == b.name)

def canonIncons (es d0 : List Incon) : List Incon :=
  (es.map (canonIncon (recOf mainTabs c!"incon2") (fieldAt mainTabs c!"incon1" 1) (fieldAt mainTabs c!"incon1" 2)
    (fieldAt mainTabs c!"incon1" 3))).foldl setIncon d0

theorem stepRT_INCON (d d0 : T2Data) (hxp : XpFree d0) (hne : d.incon ≠ [])
    (hn : ∀ e ∈ writtenIncons d, GoodName e.name) (hw : ∀ e ∈ writtenIncons d, ∃ ls, writeIncon mainTabs e = .ok ls) :
    StepRT d c!"INCON" d0 { d0 with incon := canonIncons (writtenIncons d) d0.incon } := by
  refine stepRT_plain (((writtenIncons d).map (fun b => match writeIncon mainTabs b with | .ok l => l | .error _ => [])).flatten ++ [nl []]) ?_ ?_ hxp
  · show writeIncons mainTabs d.blocks d.incon = _
    unfold writeIncons
    have hemp : d.incon.isEmpty = false := by cases hd : d.incon with | nil => exact absurd hd hne | cons _ _ => rfl
    have hm := mapM_lists _ _ hw
    unfold writtenIncons at hm
    simp only [hemp, Bool.false_eq_true, if_false, hm, bind, Except.bind, pure, Except.pure, List.cons_append, List.nil_append]
    rfl
  · intro line tail
    have h := section_roundtrip_INCON incon_shape.1 incon_shape.2.1 incon_shape.2.2 (writtenIncons d) hn hw d0.incon tail
    have h1 : xpReadable c!"INCON" = false := by decide
    unfold readSection
    simp only [h1, Bool.false_and, Bool.false_eq_true, if_false]
    simp (config := { decide := true }) only [if_true, if_false, bind, Except.bind, pure, Except.pure,
      List.append_assoc, List.cons_append, List.nil_append]
    erw [h]
    rfl

def canonIndom (d d0 : Indom) : Indom :=
  (d.map (fun e => (e.1, e.2.map (canonV (fieldAt mainTabs c!"indom2" 0))))).foldl setIndom d0

theorem stepRT_INDOM (d d0 : T2Data) (hxp : XpFree d0) (hne : d.indom ≠ [])
    (hg : ∀ e ∈ d.indom, GoodIndom (fieldAt mainTabs c!"indom2" 0) e)
    (hw : ∀ e ∈ d.indom, ∃ ls, writeIndomEntry mainTabs e = .ok ls) :
    StepRT d c!"INDOM" d0 { d0 with indom := canonIndom d.indom d0.indom } := by
  refine stepRT_plain ((d.indom.map (fun b => match writeIndomEntry mainTabs b with | .ok l => l | .error _ => [])).flatten ++ [nl []]) ?_ ?_ hxp
  · show writeIndom mainTabs d.indom = _
    unfold writeIndom
    have hemp : d.indom.isEmpty = false := by cases hd : d.indom with | nil => exact absurd hd hne | cons _ _ => rfl
    simp only [hemp, Bool.false_eq_true, if_false, mapM_lists _ _ hw, bind, Except.bind, pure, Except.pure, List.cons_append, List.nil_append]
    rfl
  · intro line tail
    have hc := chunkRec_of mainTabs c!"indom2" 4 (main_chunks_ok _ (by decide))
    have h := section_roundtrip_INDOM hc.1 hc.2 d.indom hg hw d0.indom tail
    have h1 : xpReadable c!"INDOM" = false := by decide
    unfold readSection
    simp only [h1, Bool.false_and, Bool.false_eq_true, if_false]
    simp (config := { decide := true }) only [if_true, if_false, bind, Except.bind, pure, Except.pure,
      List.append_assoc, List.cons_append, List.nil_append]
    erw [h]
    rfl

end Proofs.T2
