/-
  embed(): the result is consistent and the total volume is conserved.
-/
import PyTough.Proofs.GridAdd
import PyTough.Model.GridPhys
namespace Proofs.Grid
open Py Model Model.Grid Model.Grid.World

/-! ### sums of volumes -/

theorem foldl_add (l : List Rat) (a : Rat) : l.foldl (· + ·) a = a + l.foldl (· + ·) 0 := by
  induction l generalizing a with
  | nil => simp only [List.foldl_nil]; grind
  | cons x r ih => simp only [List.foldl_cons]; rw [ih (a + x), ih (0 + x)]; grind

theorem sumRat_cons (x : Rat) (l : List Rat) : sumRat (x :: l) = x + sumRat l := by
  unfold sumRat; simp only [List.foldl_cons]; rw [foldl_add]; grind

theorem sumRat_nil : sumRat [] = 0 := rfl

theorem sumRat_append (l1 l2 : List Rat) : sumRat (l1 ++ l2) = sumRat l1 + sumRat l2 := by
  induction l1 with
  | nil => simp only [List.nil_append, sumRat_nil]; grind
  | cons x r ih => simp only [List.cons_append, sumRat_cons, ih]; grind

theorem sumRat_perm {l1 l2 : List Rat} (h : l1.Perm l2) : sumRat l1 = sumRat l2 := by
  induction h with
  | nil => rfl
  | cons x _ ih => simp only [sumRat_cons, ih]
  | swap x y l => simp only [sumRat_cons]; grind
  | trans _ _ ih1 ih2 => exact ih1.trans ih2

/-- the sum of `f` over a duplicate-free list when `f` changes at one member -/
theorem sumRat_map_update (l : List Nat) (hn : l.Nodup) (f g : Nat → Rat) (b : Nat) (hb : b ∈ l)
    (hfg : ∀ x, x ≠ b → g x = f x) : sumRat (l.map g) = sumRat (l.map f) - f b + g b := by
  induction l with
  | nil => cases hb
  | cons a r ih =>
    have ⟨har, hr⟩ := List.nodup_cons.mp hn
    simp only [List.map_cons, sumRat_cons]
    rcases List.mem_cons.mp hb with e | hb'
    · subst e
      have : r.map g = r.map f := List.map_congr_left (fun x hx => hfg x (fun e => har (e ▸ hx)))
      rw [this]; grind
    · have hab : a ≠ b := fun e => har (e ▸ hb')
      rw [ih hr hb', hfg a hab]; grind

/-- overwriting the record of a connection object that the grid does not list -/
theorem setCon_unlisted_inv {w : World} (hI : Grid.Inv w) {c : Nat} (hc : c ∉ w.connectionlist) (v : Con) :
    Grid.Inv (w.setCon c v) := by
  have hcn : ∀ c' ∈ w.connectionlist, (w.setCon c v).cn c' = w.cn c' := by
    intro c' hc'
    rw [cn_setCon]
    have : c ≠ c' := fun e => hc (e ▸ hc')
    simp [this]
  refine Inv.mk' ?_ ?_ ?_ ?_ ?_
  · exact hI.rockInv.frame rfl rfl (Nat.le_refl _) (fun _ _ => rfl)
  · exact hI.blockInv.frame rfl rfl (Nat.le_refl _) (fun _ _ => rfl)
  · exact hI.conInv.frame rfl rfl (by simp) (fun c' h => ⟨(hI.c_ends c' h).1, (hI.c_ends c' h).2.1⟩) hcn (fun _ _ => rfl)
  · exact hI.rockLink.frame rfl (fun _ h => h) (fun _ _ => rfl)
  · exact hI.connLink.frame hI.conInv rfl rfl hcn (fun _ _ => rfl) (fun _ _ => rfl)

/-- **embed.**  Host grid = the world's current grid, `sub` a second consistent grid over the same
    heap (no common object; a host rock type whose name occurs in `sub` is unused — else known
    finding F2), `c` a new connection object whose first block is *named* like a host block `x0` and
    whose second block is named like a block `x1` of `sub` (the blocks themselves may be the grids'
    own objects or equal-named foreign ones: `embed` re-points the connection by name).  `embed`
    does not raise; whatever it returns, the current grid is consistent; and when it returns a
    grid, the total volume of that grid equals the total volume of the host grid before. -/
theorem embed_inv' {w : World} {sub : Grid} {c x0 x1 : Nat}
    (h1 : Grid.Inv w) (h2 : Grid.Inv (w.withGrid sub))
    (oR : ∀ x ∈ w.rocktypelist, x ∉ sub.rocktypelist) (oB : ∀ x ∈ w.blocklist, x ∉ sub.blocklist)
    (oC : ∀ x ∈ w.connectionlist, x ∉ sub.connectionlist)
    (nR : ∀ x ∈ w.rocktypelist, ∀ y ∈ sub.rocktypelist, w.rname x = w.rname y → ∀ b ∈ w.blocklist, (w.bk b).rock ≠ x)
    (hc : c < w.cons.length) (hc1 : c ∉ w.connectionlist) (hc2 : c ∉ sub.connectionlist)
    (hx0 : dget w.block (w.bname (w.cn c).b0) = some x0) (hx1 : dget sub.block (w.bname (w.cn c).b1) = some x1) :
    ∃ w' fl, embed w sub c = .ok (w', fl) ∧ Grid.Inv w' ∧
      (fl = true → totalVolume w' = totalVolume w) ∧ (fl = false → w' = w) := by
  unfold embed
  simp only []
  by_cases hvol : sumRat (sub.blocklist.map fun b => (w.bk b).volume) < (w.bk (w.cn c).b0).volume
  case neg => rw [if_neg hvol]; exact ⟨w, false, rfl, h1, (fun h => by cases h), fun _ => rfl⟩
  rw [if_pos hvol]
  by_cases hdup : ((w.blocklist.map w.bname).filter fun n => decide (n ∈ sub.blocklist.map w.bname)).isEmpty = true
  case neg => rw [if_neg hdup]; exact ⟨w, false, rfl, h1, (fun h => by cases h), fun _ => rfl⟩
  rw [if_pos hdup]
  have nB : ∀ x ∈ w.blocklist, ∀ y ∈ sub.blocklist, w.bname x ≠ w.bname y := by
    intro x hx y hy e
    rw [List.isEmpty_iff, List.filter_eq_nil_iff] at hdup
    have := hdup (w.bname x) (List.mem_map.mpr ⟨x, hx, rfl⟩)
    simp only [decide_eq_true_eq] at this
    exact this (List.mem_map.mpr ⟨y, hy, e.symm⟩)
  have hgrid : w.withGrid w.grid = w := rfl
  obtain ⟨w1, e1, hI1, fr, fb, fc, memB, ndB, memC⟩ :=
    addGrids_inv (w := w) (g1 := w.grid) (g2 := sub) (by rw [hgrid]; exact h1) h2 oR oB oC nB nR
  rw [e1]
  simp only []
  have f_bk : ∀ x, w1.bk x = w.bk x := by intro x; simp only [World.bk, fb]
  have f_bname : ∀ x, w1.bname x = w.bname x := by intro x; simp only [World.bname, f_bk]
  have f_cn : ∀ x, w1.cn x = w.cn x := by intro x; simp only [World.cn, fc]
  generalize hb0 : (w.cn c).b0 = host at *
  generalize hb1 : (w.cn c).b1 = sb at *
  have hx0' := h1.bd_sound _ _ hx0
  have hx1' : x1 ∈ sub.blocklist ∧ w.bname x1 = w.bname sb := h2.bd_sound _ _ hx1
  have hx0in : x0 ∈ w1.blocklist := (memB _).mpr (Or.inl hx0'.1)
  have hx1in : x1 ∈ w1.blocklist := (memB _).mpr (Or.inr hx1'.1)
  have hne : x0 ≠ x1 := fun e => oB x0 hx0'.1 (e ▸ hx1'.1)
  have d0 : dget w1.block (w1.bname (w1.cn c).b0) = some x0 := by
    rw [f_cn, hb0, f_bname, ← hx0'.2, ← f_bname]; exact hI1.bd_complete x0 hx0in
  have d1 : dget w1.block (w1.bname (w1.cn c).b1) = some x1 := by
    rw [f_cn, hb1, f_bname, ← hx1'.2, ← f_bname]; exact hI1.bd_complete x1 hx1in
  rw [d0, d1]
  simp only []
  have hc1' : c ∉ w1.connectionlist := by
    intro h; rcases (memC c).mp h with h | h
    · exact hc1 h
    · exact hc2 h
  have hclt : c < w1.cons.length := by rw [fc]; exact hc
  -- the connection re-pointed at the result's own blocks
  generalize hcv : ({ w1.cn c with b0 := x0, b1 := x1 } : Con) = cv
  have hcv0 : cv.b0 = x0 := by rw [← hcv]
  have hcv1 : cv.b1 = x1 := by rw [← hcv]
  have hI2 := setCon_unlisted_inv hI1 hc1' cv
  generalize hw2 : w1.setCon c cv = w2 at *
  have k_cn : w2.cn c = cv := by subst hw2; rw [cn_setCon]; simp [hclt]
  have k_bl : w2.blocklist = w1.blocklist := by subst hw2; rfl
  have k_cl : w2.connectionlist = w1.connectionlist := by subst hw2; rfl
  have k_bd : w2.block = w1.block := by subst hw2; rfl
  have k_blks : w2.blks = w1.blks := by subst hw2; rfl
  have k_bk : ∀ x, w2.bk x = w.bk x := by intro x; simp only [World.bk, k_blks, fb]
  have k_bname : ∀ x, w2.bname x = w.bname x := by intro x; simp only [World.bname, k_bk]
  have hne' : (w2.cn c).b0 ≠ (w2.cn c).b1 := by rw [k_cn, hcv0, hcv1]; exact hne
  have hI3 := addConnection_inv hI2 (c := c) (by subst hw2; simpa using hclt) (by rw [k_cl]; exact hc1')
    (by rw [k_cn, hcv0, k_bl]; exact hx0in) (by rw [k_cn, hcv1, k_bl]; exact hx1in) hne'
  obtain ⟨l, hl⟩ : ∃ l, (match dget w2.connection (w2.ckey c) with
         | some old => replaceFirst w2.connectionlist old c
         | none => some (w2.connectionlist ++ [c])) = some l := by
    cases hd : dget w2.connection (w2.ckey c) with
    | none => exact ⟨_, rfl⟩
    | some old =>
      have hold := hI2.cd_sound _ _ hd
      cases hr : replaceFirst w2.connectionlist old c with
      | none => exact absurd hold.1 (replaceFirst_none.mp hr)
      | some l => exact ⟨l, by simp only [hr]⟩
  rw [addConnection_ok hne' hl] at hI3 ⊢
  simp only [worldOf_ok] at hI3 ⊢
  generalize e3 : addConWorld w2 c l = w3 at *
  have g_bl : w3.blocklist = w1.blocklist := by subst e3; exact k_bl
  have g_bd : w3.block = w1.block := by subst e3; exact k_bd
  have g_vol : ∀ x, (w3.bk x).volume = (w.bk x).volume := by
    intro x; subst e3
    simp only [addConWorld, addConWorld', World.bk, getD_set, List.length_set]
    split
    · rename_i h; rw [← h.1]; simp only [k_blks, ← fb]
    · split
      · rename_i h; rw [← h.1]; simp only [k_blks, ← fb]
      · simp only [k_blks, fb]
  have g_bname : ∀ x, w3.bname x = w.bname x := by
    intro x; subst e3
    simp only [World.bname, addConWorld, addConWorld', World.bk, getD_set, List.length_set]
    split
    · rename_i h; rw [← h.1]; simp only [k_blks, fb]
    · split
      · rename_i h; rw [← h.1]; simp only [k_blks, fb]
      · simp only [k_blks, fb]
  have d3 : dget w3.block (w3.bname host) = some x0 := by
    rw [g_bd, g_bname, ← hx0'.2, ← f_bname]; exact hI1.bd_complete x0 hx0in
  rw [d3]
  simp only []
  refine ⟨_, true, rfl, setBlk_payload_inv hI3 x0 _ rfl rfl (fun h => hI3.b_rock x0 h), fun _ => ?_, (fun h => by cases h)⟩
  -- total volume
  have hlt : x0 < w3.blks.length := hI3.bl_lt x0 (g_bl ▸ hx0in)
  generalize hsv : sumRat (sub.blocklist.map fun b => (w.bk b).volume) = subvol at *
  have hperm : w1.blocklist.Perm (w.blocklist ++ sub.blocklist) := by
    refine (List.perm_ext_iff_of_nodup ndB ?_).mpr ?_
    · exact List.nodup_append.mpr ⟨h1.bl_nodup, h2.bl_nodup, fun a ha b hb e => oB a ha (e ▸ hb)⟩
    · intro y; rw [memB, List.mem_append]; rfl
  unfold totalVolume
  show sumRat ((w3.blocklist).map fun b => ((w3.setBlk x0 { w3.bk x0 with volume := (w3.bk x0).volume - subvol }).bk b).volume) = _
  rw [g_bl]
  rw [sumRat_map_update w1.blocklist ndB (fun b => (w.bk b).volume)
        (fun b => ((w3.setBlk x0 { w3.bk x0 with volume := (w3.bk x0).volume - subvol }).bk b).volume) x0 hx0in
        (by intro x hx; simp only [bk_setBlk, Ne.symm hx, false_and, if_false]; exact g_vol x)]
  simp only [bk_setBlk, hlt, and_self, if_true, g_vol]
  rw [sumRat_perm ((hperm.map fun b => (w.bk b).volume)), List.map_append, sumRat_append, hsv]
  grind

/-- the case where the connection's blocks are the grids' own objects -/
theorem embed_inv {w : World} {sub : Grid} {c : Nat}
    (h1 : Grid.Inv w) (h2 : Grid.Inv (w.withGrid sub))
    (oR : ∀ x ∈ w.rocktypelist, x ∉ sub.rocktypelist) (oB : ∀ x ∈ w.blocklist, x ∉ sub.blocklist)
    (oC : ∀ x ∈ w.connectionlist, x ∉ sub.connectionlist)
    (nR : ∀ x ∈ w.rocktypelist, ∀ y ∈ sub.rocktypelist, w.rname x = w.rname y → ∀ b ∈ w.blocklist, (w.bk b).rock ≠ x)
    (hc : c < w.cons.length) (hc1 : c ∉ w.connectionlist) (hc2 : c ∉ sub.connectionlist)
    (hhost : (w.cn c).b0 ∈ w.blocklist) (hsb : (w.cn c).b1 ∈ sub.blocklist) :
    ∃ w' fl, embed w sub c = .ok (w', fl) ∧ Grid.Inv w' ∧
      (fl = true → totalVolume w' = totalVolume w) ∧ (fl = false → w' = w) :=
  embed_inv' h1 h2 oR oB oC nR hc hc1 hc2 (h1.bd_complete _ hhost) (h2.bd_complete _ hsb)

end Proofs.Grid
