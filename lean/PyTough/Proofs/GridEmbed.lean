/-
  embed(): the result is consistent and the total volume is conserved.
-/
import PyTough.Proofs.GridAdd
import PyTough.Model.GridPhys
namespace Proofs.Grid
open Py Model Model.Grid Model.Grid.World

/-! ### sums of volumes -/

theorem foldl_add (l : List Rat) (a : Rat) : l.foldl (· + ·) a = a + l.foldl (· + ·) 0 := by
  induction l generalizing a with
  | nil => simp only [List.foldl_nil]; grind
  | cons x r ih => simp only [List.foldl_cons]; rw [ih (a + x), ih (0 + x)]; grind

theorem sumRat_cons (x : Rat) (l : List Rat) : sumRat (x :: l) = x + sumRat l := by
  unfold sumRat; simp only [List.foldl_cons]; rw [foldl_add]; grind

theorem sumRat_nil : sumRat [] = 0 := rfl

theorem sumRat_append (l1 l2 : List Rat) : sumRat (l1 ++ l2) = sumRat l1 + sumRat l2 := by
  induction l1 with
  | nil => simp only [List.nil_append, sumRat_nil]; grind
  | cons x r ih => simp only [List.cons_append, sumRat_cons, ih]; grind

theorem sumRat_perm {l1 l2 : List Rat} (h : l1.Perm l2) : sumRat l1 = sumRat l2 := by
  induction h with
  | nil => rfl
  | cons x _ ih => simp only [sumRat_cons, ih]
  | swap x y l => simp only [sumRat_cons]; grind
  | trans _ _ ih1 ih2 => exact ih1.trans ih2

/-- the sum of `f` over a duplicate-free list when `f` changes at one member -/
theorem sumRat_map_update (l : List Nat) (hn : l.Nodup) (f g : Nat → Rat) (b : Nat) (hb : b ∈ l)
    (hfg : ∀ x, x ≠ b → g x = f x) : sumRat (l.map g) = sumRat (l.map f) - f b + g b := by
  induction l with
  | nil => cases hb
  | cons a r ih =>
    have ⟨har, hr⟩ := List.nodup_cons.mp hn
    simp only [List.map_cons, sumRat_cons]
    rcases List.mem_cons.mp hb with e | hb'
    · subst e
      have : r.map g = r.map f := List.map_congr_left (fun x hx => hfg x (fun e => har (e ▸ hx)))
      rw [this]; grind
    · have hab : a ≠ b := fun e => har (e ▸ hb')
      rw [ih hr hb', hfg a hab]; grind

/-- **embed.**  Host grid = the world's current grid, `sub` a second consistent grid over the same
    heap (no common object, no common block name; a host rock type whose name occurs in `sub` is
    unused — else known finding F2), `c` a new connection object from a host block to a block of
    `sub`.  Whatever `embed` returns, the current grid is consistent; and when it returns a grid,
    the total volume of that grid equals the total volume of the host grid before. -/
theorem embed_inv {w : World} {sub : Grid} {c : Nat}
    (h1 : Grid.Inv w) (h2 : Grid.Inv (w.withGrid sub))
    (oR : ∀ x ∈ w.rocktypelist, x ∉ sub.rocktypelist) (oB : ∀ x ∈ w.blocklist, x ∉ sub.blocklist)
    (oC : ∀ x ∈ w.connectionlist, x ∉ sub.connectionlist)
    (nR : ∀ x ∈ w.rocktypelist, ∀ y ∈ sub.rocktypelist, w.rname x = w.rname y → ∀ b ∈ w.blocklist, (w.bk b).rock ≠ x)
    (hc : c < w.cons.length) (hc1 : c ∉ w.connectionlist) (hc2 : c ∉ sub.connectionlist)
    (hhost : (w.cn c).b0 ∈ w.blocklist) (hsb : (w.cn c).b1 ∈ sub.blocklist) :
    ∃ w' fl, embed w sub c = .ok (w', fl) ∧ Grid.Inv w' ∧
      (fl = true → totalVolume w' = totalVolume w) ∧ (fl = false → w' = w) := by
  unfold embed
  simp only []
  by_cases hvol : sumRat (sub.blocklist.map fun b => (w.bk b).volume) < (w.bk (w.cn c).b0).volume
  case neg => rw [if_neg hvol]; exact ⟨w, false, rfl, h1, (fun h => by cases h), fun _ => rfl⟩
  rw [if_pos hvol]
  by_cases hdup : ((w.blocklist.map w.bname).filter fun n => decide (n ∈ sub.blocklist.map w.bname)).isEmpty = true
  case neg => rw [if_neg hdup]; exact ⟨w, false, rfl, h1, (fun h => by cases h), fun _ => rfl⟩
  rw [if_pos hdup]
  have nB : ∀ x ∈ w.blocklist, ∀ y ∈ sub.blocklist, w.bname x ≠ w.bname y := by
    intro x hx y hy e
    rw [List.isEmpty_iff, List.filter_eq_nil_iff] at hdup
    have := hdup (w.bname x) (List.mem_map.mpr ⟨x, hx, rfl⟩)
    simp only [decide_eq_true_eq] at this
    exact this (List.mem_map.mpr ⟨y, hy, e.symm⟩)
  have hgrid : w.withGrid w.grid = w := rfl
  obtain ⟨w1, e1, hI1, fr, fb, fc, memB, ndB, memC⟩ :=
    addGrids_inv (w := w) (g1 := w.grid) (g2 := sub) (by rw [hgrid]; exact h1) h2 oR oB oC nB nR
  rw [e1]
  simp only []
  have f_bk : ∀ x, w1.bk x = w.bk x := by intro x; simp only [World.bk, fb]
  have f_bname : ∀ x, w1.bname x = w.bname x := by intro x; simp only [World.bname, f_bk]
  have f_cn : ∀ x, w1.cn x = w.cn x := by intro x; simp only [World.cn, fc]
  generalize hb0 : (w.cn c).b0 = host at *
  generalize hb1 : (w.cn c).b1 = sb at *
  have hhost1 : host ∈ w1.blocklist := (memB _).mpr (Or.inl hhost)
  have hsb1 : sb ∈ w1.blocklist := (memB _).mpr (Or.inr hsb)
  have hne : host ≠ sb := fun e => oB host hhost (e ▸ hsb)
  have d0 : dget w1.block (w1.bname (w1.cn c).b0) = some host := by
    rw [f_cn, hb0]; exact hI1.bd_complete host hhost1
  have d1 : dget w1.block (w1.bname (w1.cn c).b1) = some sb := by
    rw [f_cn, hb1]; exact hI1.bd_complete sb hsb1
  rw [d0, d1]
  simp only []
  -- re-pointing the connection at the result's blocks changes nothing
  have hsame : w1.setCon c { w1.cn c with b0 := host, b1 := sb } = w1 := by
    have : ({ w1.cn c with b0 := host, b1 := sb } : Con) = w1.cn c := by
      rw [f_cn]; cases hcn : w.cn c; simp only [hcn] at hb0 hb1; subst hb0; subst hb1; rfl
    rw [this]; unfold World.setCon World.cn; rw [set_getD_self]
  rw [hsame]
  have hc1' : c ∉ w1.connectionlist := by
    intro h; rcases (memC c).mp h with h | h
    · exact hc1 h
    · exact hc2 h
  have hI3 := addConnection_inv hI1 (c := c) (by rw [fc]; exact hc) hc1'
    (by rw [f_cn, hb0]; exact hhost1) (by rw [f_cn, hb1]; exact hsb1) (by rw [f_cn, hb0, hb1]; exact hne)
  have hne' : (w1.cn c).b0 ≠ (w1.cn c).b1 := by rw [f_cn, hb0, hb1]; exact hne
  obtain ⟨l, hl⟩ : ∃ l, (match dget w1.connection (w1.ckey c) with
         | some old => replaceFirst w1.connectionlist old c
         | none => some (w1.connectionlist ++ [c])) = some l := by
    cases hd : dget w1.connection (w1.ckey c) with
    | none => exact ⟨_, rfl⟩
    | some old =>
      have hold := hI1.cd_sound _ _ hd
      cases hr : replaceFirst w1.connectionlist old c with
      | none => exact absurd hold.1 (replaceFirst_none.mp hr)
      | some l => exact ⟨l, by simp only [hr]⟩
  rw [addConnection_ok hne' hl] at hI3 ⊢
  simp only [worldOf_ok] at hI3 ⊢
  generalize e3 : addConWorld w1 c l = w3 at *
  have g_bl : w3.blocklist = w1.blocklist := by subst e3; rfl
  have g_bd : w3.block = w1.block := by subst e3; rfl
  have g_vol : ∀ x, (w3.bk x).volume = (w.bk x).volume := by
    intro x; subst e3
    simp only [addConWorld, addConWorld', World.bk, getD_set, List.length_set]
    split
    · rename_i h; rw [← h.1]; simp only [← fb]
    · split
      · rename_i h; rw [← h.1]; simp only [← fb]
      · simp only [fb]
  have g_bname : ∀ x, w3.bname x = w1.bname x := by
    intro x; subst e3
    simp only [World.bname, addConWorld, addConWorld', World.bk, getD_set, List.length_set]
    split
    · rename_i h; rw [← h.1]
    · split
      · rename_i h; rw [← h.1]
      · rfl
  have d3 : dget w3.block (w3.bname host) = some host := by
    rw [g_bd, g_bname]; exact hI1.bd_complete host hhost1
  rw [d3]
  simp only []
  refine ⟨_, true, rfl, setBlk_payload_inv hI3 host _ rfl rfl (fun h => hI3.b_rock host h), fun _ => ?_, (fun h => by cases h)⟩
  -- total volume
  have hlt : host < w3.blks.length := hI3.bl_lt host (g_bl ▸ hhost1)
  generalize hsv : sumRat (sub.blocklist.map fun b => (w.bk b).volume) = subvol at *
  have hperm : w1.blocklist.Perm (w.blocklist ++ sub.blocklist) := by
    refine (List.perm_ext_iff_of_nodup ndB ?_).mpr ?_
    · exact List.nodup_append.mpr ⟨h1.bl_nodup, h2.bl_nodup, fun a ha b hb e => oB a ha (e ▸ hb)⟩
    · intro y; rw [memB, List.mem_append]; rfl
  unfold totalVolume
  show sumRat ((w3.blocklist).map fun b => ((w3.setBlk host { w3.bk host with volume := (w3.bk host).volume - subvol }).bk b).volume) = _
  rw [g_bl]
  rw [sumRat_map_update w1.blocklist ndB (fun b => (w.bk b).volume)
        (fun b => ((w3.setBlk host { w3.bk host with volume := (w3.bk host).volume - subvol }).bk b).volume) host hhost1
        (by intro x hx; simp only [bk_setBlk, Ne.symm hx, false_and, if_false]; exact g_vol x)]
  simp only [bk_setBlk, hlt, and_self, if_true, g_vol]
  rw [sumRat_perm ((hperm.map fun b => (w.bk b).volume)), List.map_append, sumRat_append, hsv]
  grind

end Proofs.Grid
