/-
  C01 proofs, layer 3f: relative-permeability / capillarity lines (RPCAP and the rock-type continuation lines),
  dictionary sections (LINEQ, SOLVR, MULTI) and ROCKS.
-/
import PyTough.Proofs.T2DataParam
set_option linter.unusedSimpArgs false
namespace Proofs.T2
open Py Model Model.T2 Proofs Proofs.Incon
open Gen.Sections (Rec)

/-! ### one relative-permeability / capillarity line: type, a skipped field, up to seven parameters -/

structure RPShape (r : Rec) (ft fx fp : FieldSpec) : Prop where
  fs : r.fs = ft :: fx :: List.replicate 7 fp
  typ : NumericTyp ft.typ
  skip : NumericTyp fx.typ
  par : NumericTyp fp.typ

/-- what such a line reads back as: the type and **all seven** parameter positions (absent ones `None`) -/
def canonRP (ft fp : FieldSpec) (p : RP) : RP :=
  { type := canonV ft p.type, params := p.params.map (canonV fp) ++ List.replicate (7 - p.params.length) Val.none }

theorem rp_line_roundtrip {r : Rec} {ft fx fp : FieldSpec} (hs : RPShape r ft fx fp) (p : RP) (hlen : p.params.length ≤ 7)
    {l : Str} (hw : writeRP r (some p) = .ok l) (pad : Str) (hpad : ∀ c ∈ pad, isStrWs c = true) :
    readRPLine .default r (l ++ pad) = .ok (canonRP ft fp p) := by
  unfold writeRP at hw
  simp only at hw
  have hvalid : ∀ f ∈ r.fs, ValidTyp f.typ := by
    rw [hs.fs]; intro f hf
    simp only [List.mem_cons, List.mem_replicate] at hf
    rcases hf with rfl | rfl | ⟨_, rfl⟩
    · exact NumericTyp.valid hs.typ
    · exact NumericTyp.valid hs.skip
    · exact NumericTyp.valid hs.par
  have hnum : ∀ f ∈ r.fs.drop ([p.type, Val.none] ++ p.params).length, NumericTyp f.typ := by
    intro f hf
    have := List.mem_of_mem_drop hf
    rw [hs.fs] at this
    simp only [List.mem_cons, List.mem_replicate] at this
    rcases this with rfl | rfl | ⟨_, rfl⟩
    · exact hs.typ
    · exact hs.skip
    · exact hs.par
  unfold readRPLine
  rw [readValues_written r _ hvalid hnum hw pad hpad, hs.fs]
  simp only [List.cons_append, List.nil_append, List.zip_cons_cons, List.map_cons, List.length_cons, List.drop_succ_cons,
    bind, Except.bind, pure, Except.pure, List.headD_cons, List.drop_zero, canonRP]
  rw [map_zip_replicate fp 7 _ hlen, List.drop_replicate, List.map_replicate]

/-! ### RPCAP -/

/-- **section_roundtrip_RPCAP**: both lines — the type and all seven parameters of the relative permeability and
    of the capillary pressure function — read back, each parameter to the digits of its field -/
theorem section_roundtrip_RPCAP {T : Tabs} {r1 r2 : Rec} {ft fx fp gt gx gp : FieldSpec}
    (hT1 : T.get c!"relative_permeability" = .ok r1) (hT2 : T.get c!"capillarity" = .ok r2)
    (hs1 : RPShape r1 ft fx fp) (hs2 : RPShape r2 gt gx gp) (rp cp : RP)
    (hl1 : rp.params.length ≤ 7) (hl2 : cp.params.length ≤ 7) {lines : List Str}
    (hw : writeRPCap T ⟨some rp, some cp⟩ = .ok lines) (rest : List Str) :
    ∃ body, lines = nl c!"RPCAP" :: body ∧
      readRPCap .default T (body ++ rest) = .ok (⟨some (canonRP ft fp rp), some (canonRP gt gp cp)⟩, rest) := by
  unfold writeRPCap at hw
  simp only [Option.isNone_some, Bool.false_eq_true, if_false, hT1, hT2, bind, Except.bind, pure, Except.pure] at hw
  cases h1 : writeRP r1 (some rp) with
  | error e => rw [h1] at hw; cases hw
  | ok l1 =>
    rw [h1] at hw
    cases h2 : writeRP r2 (some cp) with
    | error e => rw [h2] at hw; cases hw
    | ok l2 =>
      rw [h2] at hw
      cases hw
      refine ⟨[l1, l2], rfl, ?_⟩
      unfold readRPCap
      have e1 := rp_line_roundtrip hs1 rp hl1 h1 [] (by intro c hc; cases hc)
      have e2 := rp_line_roundtrip hs2 cp hl2 h2 [] (by intro c hc; cases hc)
      rw [List.append_nil] at e1 e2
      simp only [List.cons_append, List.nil_append, readline, hT1, hT2, bind, Except.bind, pure, Except.pure, e1, e2]

/-! ### dictionary sections: LINEQ, SOLVR, MULTI -/

/-- **section_roundtrip_dict** (LINEQ, SOLVR, and MULTI before its `eos` is stripped): a keyword line and one
    dictionary line; entries present come back under their names, absent ones stay absent -/
theorem section_roundtrip_dict {T : Tabs} {r : Rec} (kw rec : Str) (hT : T.get rec = .ok r) (hr : RecWF r)
    (d d0 : Dict) (hne : d ≠ []) {lines : List Str} (hw : writeDictSection T kw rec d = .ok lines) (rest : List Str) :
    ∃ body, lines = nl kw :: body ∧
      readDictSection .default T rec d0 (body ++ rest) = .ok (absorb r.names (canonVals r (lineVals r d)) d0, rest) := by
  have he : d.isEmpty = false := by cases d with | nil => exact absurd rfl hne | cons _ _ => rfl
  unfold writeDictSection at hw
  simp only [he, Bool.false_eq_true, if_false, hT, bind, Except.bind, pure, Except.pure] at hw
  cases hl : writeValueLine r d with
  | error e => rw [hl] at hw; cases hw
  | ok l =>
    rw [hl] at hw
    cases hw
    refine ⟨[l], rfl, ?_⟩
    unfold readDictSection
    have := valueLine_roundtrip hr d d0 hl [] (by intro c hc; cases hc)
    rw [List.append_nil] at this
    simp only [List.cons_append, List.nil_append, readline, hT, bind, Except.bind, pure, Except.pure, this]


/-! ### ROCKS -/

structure RockShape (r1 r11 r12 r13 : Rec) (fn fnad fd fpo fk1 fk2 fk3 fc fsh ft fx fp : FieldSpec) : Prop where
  fs1 : r1.fs = [fn, fnad, fd, fpo, fk1, fk2, fk3, fc, fsh]
  name : NameField fn
  num : ∀ f ∈ [fnad, fd, fpo, fk1, fk2, fk3, fc, fsh], NumericTyp f.typ
  wf11 : RecWF r11
  rp : RPShape r12 ft fx fp
  same : r13 = r12            -- the writer uses `rocks1.2` for both lines, the reader `rocks1.2` and `rocks1.3`

def rockLevel (rt : Rock) : Int := match rt.nad with | .int k => k | _ => 0

/-- what a rock type reads back as -/
def canonRock (r11 : Rec) (fd fpo fk1 fk2 fk3 fc fsh ft fp : FieldSpec) (rt : Rock) : Rock :=
  { name := rt.name, nad := rt.nad, density := canonV fd rt.density, porosity := canonV fpo rt.porosity,
    perm := [canonV fk1 (rt.perm.getD 0 .none), canonV fk2 (rt.perm.getD 1 .none), canonV fk3 (rt.perm.getD 2 .none)],
    conductivity := canonV fc rt.conductivity, specificHeat := canonV fsh rt.specificHeat,
    extra := if 1 ≤ rockLevel rt then absorb r11.names (canonVals r11 (lineVals r11 rt.extra)) defaultRockExtra else defaultRockExtra,
    rp := if 2 ≤ rockLevel rt then rt.rp.map (canonRP ft fp) else none,
    cp := if 2 ≤ rockLevel rt then rt.cp.map (canonRP ft fp) else none }

/-- a rock type the ROCKS writer and reader agree on: a visible five-character name, NAD absent or an integer that
    survives its field, three permeabilities, and (for NAD ≥ 2) both functions with at most seven parameters -/
structure GoodRock (fnad : FieldSpec) (rt : Rock) : Prop where
  name : ∃ nm, rt.name = .str nm ∧ nm.length = 5 ∧ '\n' ∉ nm ∧ isBlank nm = false
  nad : rt.nad = .none ∨ ∃ k : Int, rt.nad = .int k
  nadKeep : canonV fnad rt.nad = rt.nad
  perm : rt.perm.length = 3
  rp : 2 ≤ rockLevel rt → ∃ p, rt.rp = some p ∧ p.params.length ≤ 7
  cp : 2 ≤ rockLevel rt → ∃ p, rt.cp = some p ∧ p.params.length ≤ 7

theorem rock_header {r1 r11 r12 r13 : Rec} {fn fnad fd fpo fk1 fk2 fk3 fc fsh ft fx fp : FieldSpec}
    (hs : RockShape r1 r11 r12 r13 fn fnad fd fpo fk1 fk2 fk3 fc fsh ft fx fp) (rt : Rock) (hg : GoodRock fnad rt)
    {l : Str} (hw : writeValuesLine r1 ([rt.name, rt.nad, rt.density, rt.porosity] ++ rt.perm ++ [rt.conductivity, rt.specificHeat]) = .ok l) :
    isBlank (padstring l) = false ∧
      readValues .default r1 (padstring l) = .ok [rt.name, rt.nad, canonV fd rt.density, canonV fpo rt.porosity,
        canonV fk1 (rt.perm.getD 0 .none), canonV fk2 (rt.perm.getD 1 .none), canonV fk3 (rt.perm.getD 2 .none),
        canonV fc rt.conductivity, canonV fsh rt.specificHeat] := by
  obtain ⟨nm, hnm, hl5, hnl, hvis⟩ := hg.name
  obtain ⟨k1, k2, k3, hp⟩ : ∃ k1 k2 k3, rt.perm = [k1, k2, k3] := by
    have := hg.perm
    match hpm : rt.perm, this with
    | [a, b, c], _ => exact ⟨a, b, c, rfl⟩
  rw [hp, hnm] at hw
  have hw' : writeValuesLine r1 [.str nm, rt.nad, rt.density, rt.porosity, k1, k2, k3, rt.conductivity, rt.specificHeat] = .ok l := hw
  obtain ⟨tail, hl⟩ := leading_name_line hs.fs1 hs.name hl5 hnl hw'
  refine ⟨by rw [hl]; exact line_not_blank hvis, ?_⟩
  have hnumall := hs.num
  have hvalid : ∀ f ∈ r1.fs, ValidTyp f.typ := by
    rw [hs.fs1]; intro f hf
    simp only [List.mem_cons, List.not_mem_nil, or_false] at hf
    rcases hf with rfl | rfl | rfl | rfl | rfl | rfl | rfl | rfl | rfl
    · unfold ValidTyp; rw [hs.name.typ]; simp
    all_goals exact NumericTyp.valid (hnumall _ (by simp))
  have hnum : ∀ f ∈ r1.fs.drop [Val.str nm, rt.nad, rt.density, rt.porosity, k1, k2, k3, rt.conductivity, rt.specificHeat].length,
      NumericTyp f.typ := by
    rw [hs.fs1]; intro f hf; simp at hf
  have hrd := readValues_written r1 _ hvalid hnum hw' (List.replicate (80 - l.length) ' ') (spaces_ws _)
  rw [hs.fs1] at hrd
  simp only [List.zip_cons_cons, List.zip_nil_right, List.map_cons, List.map_nil, List.length_cons, List.length_nil,
    List.drop_succ_cons, List.drop_nil, List.append_nil, (name_field_write hs.name hl5 hnl).2, hg.nadKeep] at hrd
  rw [padstring_eq, hrd, hp, hnm]
  rfl

/-- one rock type (header line and its NAD continuation lines) read back -/
theorem rock_record {T : Tabs} {r1 r11 r12 r13 : Rec} {fn fnad fd fpo fk1 fk2 fk3 fc fsh ft fx fp : FieldSpec}
    (hT1 : T.get c!"rocks1" = .ok r1) (hT11 : T.get c!"rocks1.1" = .ok r11) (hT12 : T.get c!"rocks1.2" = .ok r12)
    (hT13 : T.get c!"rocks1.3" = .ok r13)
    (hs : RockShape r1 r11 r12 r13 fn fnad fd fpo fk1 fk2 fk3 fc fsh ft fx fp) (rt : Rock) (hg : GoodRock fnad rt)
    {ls : List Str} (hw : writeRock T rt = .ok ls) :
    ∃ l ex, ls = l :: ex ∧ isBlank (padstring l) = false ∧
      ∀ rest, readRock .default T (padstring l) (ex ++ rest) =
        .ok (canonRock r11 fd fpo fk1 fk2 fk3 fc fsh ft fp rt, ex.length) := by
  have h13 := hs.same
  rw [h13] at hT13
  unfold writeRock at hw
  simp only [hT1, hT11, hT12, bind, Except.bind, pure, Except.pure] at hw
  cases hl1 : writeValuesLine r1 ([rt.name, rt.nad, rt.density, rt.porosity] ++ rt.perm ++ [rt.conductivity, rt.specificHeat]) with
  | error e => rw [hl1] at hw; cases hw
  | ok l1 =>
    rw [hl1] at hw
    simp only at hw
    obtain ⟨hnb, hhead⟩ := rock_header hs rt hg hl1
    rcases hg.nad with hnone | ⟨k, hk⟩
    · -- NAD absent
      simp only [hnone, beq_self_eq_true, if_true] at hw
      cases hw
      refine ⟨l1, [], rfl, hnb, fun rest => ?_⟩
      unfold readRock
      have hlv : rockLevel rt = 0 := by unfold rockLevel; rw [hnone]
      simp only [hT1, hT11, hT12, hT13, bind, Except.bind, pure, Except.pure, hhead, hnone, beq_self_eq_true, if_true, Val.ge, canonRock, hlv]
      rfl
    · have hne : (rt.nad == Val.none) = false := by rw [hk]; rfl
      have hne' : (Val.int k == Val.none) = false := rfl
      have hlv : rockLevel rt = k := by unfold rockLevel; rw [hk]
      simp only [hne, Bool.false_eq_true, if_false, hk, Val.ge] at hw
      by_cases h1 : (1 : Int) ≤ k
      · simp only [h1, decide_true, Bool.not_true, Bool.false_eq_true, if_false] at hw
        cases hl2 : writeValueLine r11 rt.extra with
        | error e => rw [hl2] at hw; cases hw
        | ok l2 =>
          rw [hl2] at hw
          simp only at hw
          have hex := valueLine_roundtrip hs.wf11 rt.extra defaultRockExtra hl2 [] (by intro c hc; cases hc)
          rw [List.append_nil] at hex
          by_cases h2 : (2 : Int) ≤ k
          · simp only [h2, decide_true, Bool.not_true, Bool.false_eq_true, if_false] at hw
            obtain ⟨rp, hrp, hrpl⟩ := hg.rp (by rw [hlv]; exact h2)
            obtain ⟨cp, hcp, hcpl⟩ := hg.cp (by rw [hlv]; exact h2)
            rw [hrp, hcp] at hw
            cases hl3 : writeRP r12 (some rp) with
            | error e => rw [hl3] at hw; cases hw
            | ok l3 =>
              rw [hl3] at hw
              cases hl4 : writeRP r12 (some cp) with
              | error e => rw [hl4] at hw; cases hw
              | ok l4 =>
                rw [hl4] at hw
                cases hw
                refine ⟨l1, [l2, l3, l4], rfl, hnb, fun rest => ?_⟩
                unfold readRock
                have e3 := rp_line_roundtrip hs.rp rp hrpl hl3 [] (by intro c hc; cases hc)
                have e4 := rp_line_roundtrip hs.rp cp hcpl hl4 [] (by intro c hc; cases hc)
                rw [List.append_nil] at e3 e4
                simp only [hT1, hT11, hT12, hT13, bind, Except.bind, pure, Except.pure, hhead, hne, hne', Bool.false_eq_true, if_false, hk, Val.ge, h1, h2, decide_true, Bool.not_true,
                  List.cons_append, List.nil_append, readline, hex, List.drop_succ_cons, List.drop_zero, e3, e4,
                  canonRock, hlv, if_true, hrp, hcp, Option.map_some, List.length_cons, List.length_nil]
          · simp only [h2, decide_false, Bool.not_false, if_true] at hw
            cases hw
            refine ⟨l1, [l2], rfl, hnb, fun rest => ?_⟩
            unfold readRock
            simp only [hT1, hT11, hT12, hT13, bind, Except.bind, pure, Except.pure, hhead, hne, hne', Bool.false_eq_true, if_false, hk, Val.ge, h1, h2, decide_true, decide_false, Bool.not_true,
              Bool.not_false, if_true, List.cons_append, List.nil_append, readline, hex, canonRock, hlv,
              List.length_cons, List.length_nil]
      · simp only [h1, decide_false, Bool.not_false, if_true] at hw
        cases hw
        refine ⟨l1, [], rfl, hnb, fun rest => ?_⟩
        unfold readRock
        have h2 : ¬ (2 : Int) ≤ k := by omega
        simp only [hT1, hT11, hT12, hT13, bind, Except.bind, pure, Except.pure, hhead, hne, hne', Bool.false_eq_true, if_false, hk, Val.ge, h1, decide_false, Bool.not_false, if_true, canonRock, hlv, h2]
        rfl

/-- **section_roundtrip_ROCKS**: every rock type written by `write_rocktypes` — its nine-field line, for NAD ≥ 1
    the line of seven further attributes, and for NAD ≥ 2 the relative-permeability and capillarity lines with all
    **seven** parameters each — reads back one for one, in order; the closing blank line is consumed -/
theorem section_roundtrip_ROCKS {T : Tabs} {r1 r11 r12 r13 : Rec} {fn fnad fd fpo fk1 fk2 fk3 fc fsh ft fx fp : FieldSpec}
    (hT1 : T.get c!"rocks1" = .ok r1) (hT11 : T.get c!"rocks1.1" = .ok r11) (hT12 : T.get c!"rocks1.2" = .ok r12)
    (hT13 : T.get c!"rocks1.3" = .ok r13)
    (hs : RockShape r1 r11 r12 r13 fn fnad fd fpo fk1 fk2 fk3 fc fsh ft fx fp) (rs : List Rock)
    (hg : ∀ rt ∈ rs, GoodRock fnad rt) (hw : ∀ rt ∈ rs, ∃ ls, writeRock T rt = .ok ls) (rest : List Str) :
    readRocks .default T ((rs.map (fun rt => match writeRock T rt with | .ok ls => ls | .error _ => [])).flatten ++ nl [] :: rest) =
      .ok ((rs.map (canonRock r11 fd fpo fk1 fk2 fk3 fc fsh ft fp)).foldl addRock [], rest) := by
  unfold readRocks
  have hrt : ∀ rt ∈ rs, RecordRT padstring (fun _ => false) (readRock .default T)
      (fun rt => match writeRock T rt with | .ok ls => ls | .error _ => []) (canonRock r11 fd fpo fk1 fk2 fk3 fc fsh ft fp) rt := by
    intro rt hm
    obtain ⟨ls, hls⟩ := hw rt hm
    obtain ⟨l, ex, rfl, hnb, hrd⟩ := rock_record hT1 hT11 hT12 hT13 hs rt (hg rt hm) hls
    exact ⟨l, ex, by simp only [hls], hnb, rfl, fun rest' => hrd rest'⟩
  rw [untilBlank_roundtrip padstring (fun _ => false) _ _ _ rs hrt (nl []) (Or.inl (by decide)) rest]
  rfl

end Proofs.T2
