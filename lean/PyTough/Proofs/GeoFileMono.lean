/-
  C03 proofs, part 15: rounding to the file's decimals is monotone, hence a column surface can cross a
  layer boundary only by rounding *onto* it.
-/
import PyTough.Proofs.GeoFileNames
import Mathlib.Tactic.Linarith
import Mathlib.Tactic.Ring
import Mathlib.Tactic.FieldSimp
import Mathlib.Tactic.Positivity
namespace Proofs.GeoFile
open Py Model Model.GeoFile Proofs

/-- a tie: `N/D = k + 1/2` -/
theorem rhe_tie {N D k : Nat} (hD : 0 < D) (h : 2 * N = (2 * k + 1) * D) :
    roundHalfEven N D = if k % 2 = 0 then k else k + 1 := by
  have h' : 2 * N = 2 * (k * D) + D := by rw [h]; ring
  obtain ⟨E, hE⟩ : ∃ E, D = 2 * E := ⟨N - k * D, by omega⟩
  have hN : N = D * k + E := by rw [Nat.mul_comm D k]; omega
  have hEl : E < D := by omega
  have hq : N / D = k := by
    rw [hN, Nat.mul_add_div hD, Nat.div_eq_of_lt hEl]; rfl
  have hr : N % D = E := by
    rw [hN, Nat.mul_add_mod, Nat.mod_eq_of_lt hEl]
  unfold roundHalfEven
  simp only [hq, hr]
  rw [if_neg (by omega), if_neg (by omega)]

theorem rhe_mono {N D N' D' : Nat} (hD : 0 < D) (hD' : 0 < D') (h : N * D' ≤ N' * D) :
    roundHalfEven N D ≤ roundHalfEven N' D' := by
  obtain ⟨_, a⟩ := roundHalfEven_nearest N D hD
  obtain ⟨b, _⟩ := roundHalfEven_nearest N' D' hD'
  generalize hM : roundHalfEven N D = M at a
  generalize hM' : roundHalfEven N' D' = M' at b
  by_contra hlt
  have hlt' : M' + 1 ≤ M := by omega
  obtain ⟨A, rfl⟩ : ∃ A, M = A + 1 := ⟨M - 1, by omega⟩
  have hAM : M' ≤ A := by omega
  -- (2A+1) D ≤ 2N  and  2N' ≤ (2A+1) D'
  have a1 : (2 * A + 1) * D ≤ 2 * N := by nlinarith
  have b1 : 2 * N' ≤ (2 * M' + 1) * D' := by nlinarith
  have b2 : (2 * M' + 1) * D' ≤ (2 * A + 1) * D' := Nat.mul_le_mul_right _ (by omega)
  have c1 : (2 * A + 1) * D * D' ≤ 2 * N * D' := Nat.mul_le_mul_right _ a1
  have c2 : 2 * N * D' ≤ 2 * N' * D := by nlinarith
  have c3 : 2 * N' * D ≤ (2 * A + 1) * D' * D := Nat.mul_le_mul_right _ (Nat.le_trans b1 b2)
  have c4 : (2 * A + 1) * D' * D = (2 * A + 1) * D * D' := by ring
  have e1 : 2 * N * D' = (2 * A + 1) * D * D' := by omega
  have e2 : 2 * N' * D = (2 * A + 1) * D' * D := by omega
  have f1 : 2 * N = (2 * A + 1) * D := Nat.eq_of_mul_eq_mul_right hD' e1
  have f2 : 2 * N' = (2 * A + 1) * D' := Nat.eq_of_mul_eq_mul_right hD e2
  have t1 := rhe_tie hD f1
  have t2 := rhe_tie hD' f2
  rw [hM] at t1
  rw [hM'] at t2
  have hM'A : M' = A := by
    have : (2 * A + 1) * D' ≤ (2 * M' + 1) * D' := by omega
    have := Nat.le_of_mul_le_mul_right this hD'
    omega
  by_cases hp : A % 2 = 0
  · rw [if_pos hp] at t1; omega
  · rw [if_neg hp] at t2; omega

/-! ### values as signed fractions -/

def sgn (b : Bool) : Rat := if b then -1 else 1

theorem toRat_eq (y : Flt) : y.toRat = sgn y.isNeg * (y.absNum : Rat) / (y.den : Rat) := by
  cases y with
  | negZero => simp [Flt.toRat, Flt.isNeg, Flt.absNum, Flt.den, sgn]
  | q r =>
    simp only [Flt.toRat, Flt.isNeg, Flt.absNum, Flt.den, sgn]
    have hd : (r.den : Rat) ≠ 0 := by exact_mod_cast r.den_nz
    have hr : r = (r.num : Rat) / (r.den : Rat) := (Rat.num_div_den r).symm
    by_cases hn : r < 0
    · have hnum : r.num < 0 := (rat_neg_iff r).mp hn
      have : ((r.num.natAbs : Nat) : Rat) = -(r.num : Rat) := by
        have h0 : ((r.num.natAbs : Nat) : Int) = -r.num := Int.ofNat_natAbs_of_nonpos (le_of_lt hnum)
        rw [← Int.cast_natCast, h0, Int.cast_neg]
      simp only [hn, decide_true, if_true, this]
      rw [neg_mul, one_mul, neg_neg]
      exact hr
    · have hnum : 0 ≤ r.num := by
        rcases lt_or_ge r.num 0 with h | h
        · exact absurd ((rat_neg_iff r).mpr h) hn
        · exact h
      have : ((r.num.natAbs : Nat) : Rat) = (r.num : Rat) := by
        have h0 : ((r.num.natAbs : Nat) : Int) = r.num := Int.natAbs_of_nonneg hnum
        rw [← Int.cast_natCast, h0]
      simp only [hn, decide_false, Bool.false_eq_true, if_false, this, one_mul]
      exact hr

/-- the rounded digits -/
def mOf (p : Nat) (y : Flt) : Nat := roundHalfEven (y.absNum * 10 ^ p) y.den

theorem roundF_toRat (p : Nat) (hp : 0 < p) (y : Flt) :
    (roundF p y).toRat = sgn y.isNeg * (mOf p y : Rat) / ((10 ^ p : Nat) : Rat) := by
  unfold roundF ofDec mOf
  by_cases hm : roundHalfEven (y.absNum * 10 ^ p) y.den = 0
  · rw [if_pos hm, hm]
    cases y.isNeg <;> simp [Flt.toRat]
  · rw [if_neg hm]
    simp only [Flt.toRat, scale10_eq _ p hp, Rat.mkRat_eq_div, sgn]
    cases y.isNeg <;> simp

theorem mOf_mono_nonneg (p : Nat) {y1 y2 : Flt} (h1 : y1.isNeg = false) (h2 : y2.isNeg = false)
    (h : y1.toRat ≤ y2.toRat) : mOf p y1 ≤ mOf p y2 := by
  unfold mOf
  apply rhe_mono (Flt.den_pos y1) (Flt.den_pos y2)
  rw [toRat_eq y1, toRat_eq y2, h1, h2] at h
  simp only [sgn, Bool.false_eq_true, if_false, one_mul] at h
  have d1 : (0 : Rat) < (y1.den : Rat) := by exact_mod_cast Flt.den_pos y1
  have d2 : (0 : Rat) < (y2.den : Rat) := by exact_mod_cast Flt.den_pos y2
  rw [div_le_div_iff₀ d1 d2] at h
  have h' : y1.absNum * y2.den ≤ y2.absNum * y1.den := by exact_mod_cast h
  calc y1.absNum * 10 ^ p * y2.den = (y1.absNum * y2.den) * 10 ^ p := by ring
    _ ≤ (y2.absNum * y1.den) * 10 ^ p := Nat.mul_le_mul_right _ h'
    _ = y2.absNum * 10 ^ p * y1.den := by ring

theorem mOf_mono_neg (p : Nat) {y1 y2 : Flt} (h1 : y1.isNeg = true) (h2 : y2.isNeg = true)
    (h : y1.toRat ≤ y2.toRat) : mOf p y2 ≤ mOf p y1 := by
  unfold mOf
  apply rhe_mono (Flt.den_pos y2) (Flt.den_pos y1)
  rw [toRat_eq y1, toRat_eq y2, h1, h2] at h
  simp only [sgn, if_true, neg_mul, one_mul, neg_div, neg_le_neg_iff] at h
  have d1 : (0 : Rat) < (y1.den : Rat) := by exact_mod_cast Flt.den_pos y1
  have d2 : (0 : Rat) < (y2.den : Rat) := by exact_mod_cast Flt.den_pos y2
  rw [div_le_div_iff₀ d2 d1] at h
  have h' : y2.absNum * y1.den ≤ y1.absNum * y2.den := by exact_mod_cast h
  calc y2.absNum * 10 ^ p * y1.den = (y2.absNum * y1.den) * 10 ^ p := by ring
    _ ≤ (y1.absNum * y2.den) * 10 ^ p := Nat.mul_le_mul_right _ h'
    _ = y1.absNum * 10 ^ p * y2.den := by ring

theorem mOf_zero_of_absNum (p : Nat) {y : Flt} (h : y.absNum = 0) : mOf p y = 0 := by
  unfold mOf
  rw [h]
  simp [roundHalfEven]

/-- **rounding to `p` decimals is monotone** -/
theorem roundF_mono (p : Nat) (hp : 0 < p) {y1 y2 : Flt} (h : y1.toRat ≤ y2.toRat) :
    (roundF p y1).toRat ≤ (roundF p y2).toRat := by
  rw [roundF_toRat p hp, roundF_toRat p hp]
  have h10 : (0 : Rat) < ((10 ^ p : Nat) : Rat) := by exact_mod_cast pow10_pos p
  cases h1 : y1.isNeg <;> cases h2 : y2.isNeg
  · -- both non-negative
    have := mOf_mono_nonneg p h1 h2 h
    simp only [sgn, Bool.false_eq_true, if_false, one_mul]
    apply div_le_div_of_nonneg_right _ (le_of_lt h10)
    exact_mod_cast this
  · -- y1 ≥ 0, y2 ≤ 0: both round to zero
    have e1 := toRat_eq y1
    have e2 := toRat_eq y2
    rw [h1] at e1
    rw [h2] at e2
    simp only [sgn, Bool.false_eq_true, if_false, one_mul, if_true, neg_mul, neg_div] at e1 e2
    have d1 : (0 : Rat) < (y1.den : Rat) := by exact_mod_cast Flt.den_pos y1
    have d2 : (0 : Rat) < (y2.den : Rat) := by exact_mod_cast Flt.den_pos y2
    have n1 : (0 : Rat) ≤ (y1.absNum : Rat) / (y1.den : Rat) := by positivity
    have n2 : (0 : Rat) ≤ (y2.absNum : Rat) / (y2.den : Rat) := by positivity
    have z2 : (y2.absNum : Rat) / (y2.den : Rat) = 0 := by linarith
    have z1 : (y1.absNum : Rat) / (y1.den : Rat) = 0 := by linarith
    have a2 : y2.absNum = 0 := by
      rcases div_eq_zero_iff.mp z2 with h0 | h0
      · exact_mod_cast h0
      · exact absurd h0 (ne_of_gt d2)
    have a1 : y1.absNum = 0 := by
      rcases div_eq_zero_iff.mp z1 with h0 | h0
      · exact_mod_cast h0
      · exact absurd h0 (ne_of_gt d1)
    rw [mOf_zero_of_absNum p a1, mOf_zero_of_absNum p a2]
    simp
  · -- y1 ≤ 0 ≤ y2
    simp only [sgn, if_true, Bool.false_eq_true, if_false, one_mul, neg_mul, neg_div]
    have p1 : (0 : Rat) ≤ (mOf p y1 : Rat) / ((10 ^ p : Nat) : Rat) := by positivity
    have p2 : (0 : Rat) ≤ (mOf p y2 : Rat) / ((10 ^ p : Nat) : Rat) := by positivity
    linarith
  · -- both negative
    have := mOf_mono_neg p h1 h2 h
    simp only [sgn, if_true, neg_mul, one_mul, neg_div, neg_le_neg_iff]
    apply div_le_div_of_nonneg_right _ (le_of_lt h10)
    exact_mod_cast this

theorem div_toRat (x : Flt) (s : Rat) : (x.div s).toRat = x.toRat / s := by
  cases x <;> simp [Flt.div, Flt.toRat]

theorem mul_toRat (x : Flt) (s : Rat) : (x.mul s).toRat = x.toRat * s := by
  cases x <;> simp [Flt.mul, Flt.toRat]

/-- **the trip through the file is monotone**: coordinates keep their (weak) order -/
theorem canonC_mono (p : Nat) (hp : 0 < p) {s : Rat} (hs : 0 < s) {x y : Flt} (h : x.toRat ≤ y.toRat) :
    (canonC p s x).toRat ≤ (canonC p s y).toRat := by
  unfold canonC
  rw [mul_toRat, mul_toRat]
  apply mul_le_mul_of_nonneg_right _ (le_of_lt hs)
  apply roundF_mono p hp
  rw [div_toRat, div_toRat]
  exact div_le_div_of_nonneg_right h (le_of_lt hs)

end Proofs.GeoFile
