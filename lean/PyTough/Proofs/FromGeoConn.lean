/-
  Proofs for C04, part 3: what each loop body of add_connections builds (distances, areas,
  cosines), the volume formula for any underground layer, the untilted tilt vector.
-/
import PyTough.Proofs.FromGeoArith
import PyTough.Proofs.FromGeoNames
namespace Proofs.FromGeo
open Py Model.FromGeo

/-! ### volume formula for any underground layer -/

theorem block_volume_any (g : Geo) (lay : Layer) (col : Column) (hwf : LayersWF g)
    (hl : lay ∈ g.layers) (hb : lay.bottom < col.surface) :
    blockVolume g lay col = some (col.area * (blockTop g lay col - lay.bottom)) := by
  obtain ⟨h0, hchain, hnd⟩ := hwf
  cases hls : g.layers with
  | nil => rw [hls] at hl; cases hl
  | cons l1 rest =>
    rw [hls] at hl hchain
    simp only [Geo.layerlist, hls] at hnd
    simp only [chainOk, Bool.and_eq_true, decide_eq_true_eq] at hchain
    obtain ⟨⟨htop, _⟩, _⟩ := hchain
    have hn1 : l1.name ≠ g.layer0.name := by
      simp only [List.map_cons, List.nodup_cons, List.mem_cons, not_or] at hnd
      exact fun h => hnd.1.1 h.symm
    unfold blockTop
    rw [hls]
    rcases List.mem_cons.1 hl with rfl | hm
    · rw [blockVolume_first g lay rest col hls hn1 (by rw [htop, h0]) hb]
      simp only [List.head?_cons, true_or, if_true]
      congr 1; ring
    · simp only [List.map_cons, List.nodup_cons, List.mem_cons, List.mem_map, not_or, not_exists, not_and] at hnd
      have hn0 : lay.name ≠ g.layer0.name := fun h => hnd.1.2 lay hm h
      have hne : lay.name ≠ l1.name := fun h => hnd.2.1 lay hm h
      rw [blockVolume_lower g l1 rest lay col hls hn0 hne hb]
      have hne' : ¬ (some l1 = some lay) := by
        intro h; cases h; exact hne rfl
      simp only [List.head?_cons, hne', false_or]
      by_cases h1 : col.surface < lay.top
      · simp only [h1, if_true, min_eq_left (le_of_lt h1)]; congr 1; ring
      · simp only [h1, if_false, min_eq_right (not_lt.1 h1)]; congr 1; ring

/-! ### what `vertConn` and `horizConn` build -/

theorem vertConn_common (g : Geo) (m : BlockMap) (bs : List Block) (first : Bool) (above lay : Layer)
    (col : Column) (c : TConn) (h : vertConn g m bs first above lay col = .ok (some c)) :
    c.dirn = 3 ∧ c.area = .exact col.area ∧ c.dircos = .exact g.tilt.z := by
  unfold vertConn at h
  split at h
  · cases h
  · split at h
    · cases h
    · split at h
      · split at h
        · cases h
        · split at h
          · split at h
            · cases h
            · cases h; exact ⟨rfl, rfl, rfl⟩
          · split at h
            · split at h
              · cases h
              · split at h
                · cases h
                · cases h; exact ⟨rfl, rfl, rfl⟩
            · cases h
      · split at h
        · cases h
        · split at h
          · cases h
          · split at h
            · cases h
            · cases h; exact ⟨rfl, rfl, rfl⟩

/-- atmosphere connection: distance from the block centre to the surface, and the geometry's
    atmosphere connection distance -/
theorem vertConn_atmosphere (g : Geo) (m : BlockMap) (bs : List Block) (first : Bool) (above lay : Layer)
    (col : Column) (c : TConn) (h : vertConn g m bs first above lay col = .ok (some c))
    (hc : first = true ∨ col.surface ≤ lay.top) :
    ∃ blk cz, findBlock bs c.b0 = .ok blk ∧ centreZ blk = .ok cz ∧
      c.d0 = .exact (col.surface - cz) ∧ c.d1 = .exact g.atmConn := by
  unfold vertConn at h
  split at h
  · cases h
  · rename_i thisName _
    split at h
    · cases h
    · rename_i thisblk hfb
      have hname := findBlock_name hfb
      simp only [hc, if_true] at h
      split at h
      · cases h
      · rename_i cz hz
        split at h
        · split at h
          · cases h
          · cases h
            exact ⟨thisblk, cz, by simpa [hname] using hfb, hz, rfl, rfl⟩
        · split at h
          · split at h
            · cases h
            · split at h
              · cases h
              · cases h
                exact ⟨thisblk, cz, by simpa [hname] using hfb, hz, rfl, rfl⟩
          · cases h

/-- interior vertical connection: the two distances -/
theorem vertConn_interior (g : Geo) (m : BlockMap) (bs : List Block) (first : Bool) (above lay : Layer)
    (col : Column) (c : TConn) (h : vertConn g m bs first above lay col = .ok (some c))
    (hc : ¬ (first = true ∨ col.surface ≤ lay.top)) :
    ∃ lower upper zu, findBlock bs c.b0 = .ok lower ∧ findBlock bs c.b1 = .ok upper ∧ centreZ upper = .ok zu ∧
      c.d0 = .exact (lay.top - lay.centre) ∧ c.d1 = .exact (zu - above.bottom) := by
  unfold vertConn at h
  split at h
  · cases h
  · split at h
    · cases h
    · rename_i thisblk hfb
      have hname := findBlock_name hfb
      simp only [hc, if_false] at h
      split at h
      · cases h
      · split at h
        · cases h
        · rename_i ab hfa
          split at h
          · cases h
          · rename_i az hz
            cases h
            exact ⟨thisblk, ab, az, by simpa [hname] using hfb, by simpa [findBlock_name hfa] using hfa, hz, rfl, rfl⟩

theorem horizConn_facts (g : Geo) (m : BlockMap) (bs : List Block) (lay : Layer) (k : Conn) (c : TConn)
    (h : horizConn g m bs lay k = .ok c) :
    ∃ b0 b1 c0 c1 s0 s1, findBlock bs c.b0 = .ok b0 ∧ findBlock bs c.b1 = .ok b1 ∧
      b0.centre = some c0 ∧ b1.centre = some c1 ∧
      blockSurface g lay k.col0 = some s0 ∧ blockSurface g lay k.col1 = some s1 ∧
      c.dirn = permDirection g.rot (P3.sub c1 c0) ∧
      c.area = ⟨min (s0 - lay.bottom) (s1 - lay.bottom), P2.normSq (P2.sub k.n0 k.n1)⟩ ∧
      c.d0 = ⟨1, P2.normSq (P2.sub (lineProjection k.col0.centre k.n0 k.n1) k.col0.centre)⟩ ∧
      c.d1 = ⟨1, P2.normSq (P2.sub (lineProjection k.col1.centre k.n0 k.n1) k.col1.centre)⟩ ∧
      c.dircos = ⟨P3.dot (P3.sub c1 c0) g.tilt, 1 / P3.normSq (P3.sub c1 c0)⟩ := by
  unfold horizConn at h
  split at h
  · cases h
  · split at h
    · cases h
    · rename_i b0 hf0
      split at h
      · cases h
      · split at h
        · cases h
        · rename_i b1 hf1
          split at h
          · cases h
          · rename_i d0 d1 area hcp
            split at h
            · cases h
            · rename_i c1 hc1
              split at h
              · cases h
              · rename_i c0 hc0
                cases h
                unfold connectionParams at hcp
                split at hcp
                · rename_i s0 s1 hs0 hs1
                  cases hcp
                  have e0 : b0.centre = some c0 := by
                    unfold centre3 at hc0; split at hc0
                    · rename_i cc hcc; cases hc0; exact hcc
                    · cases hc0
                  have e1 : b1.centre = some c1 := by
                    unfold centre3 at hc1; split at hc1
                    · rename_i cc hcc; cases hc1; exact hcc
                    · cases hc1
                  exact ⟨b0, b1, c0, c1, s0, s1, by simpa [findBlock_name hf0] using hf0,
                    by simpa [findBlock_name hf1] using hf1, e0, e1, hs0, hs1, rfl, rfl, rfl, rfl, rfl⟩
                · cases hcp

/-! ### tilt -/

theorem tilt_untilted (gx gy : Option Rat) (hx : gx = none ∨ gx = some 0) (hy : gy = none ∨ gy = some 0) :
    tiltVector? gx gy = some ⟨0, 0, -1⟩ := by
  rcases hx with rfl | rfl <;> rcases hy with rfl | rfl <;> decide +kernel

end Proofs.FromGeo
