/-
  C01 proofs, layer 5: the record tables regenerated from /repo (`Gen/Sections.lean`) have the shapes the
  section theorems ask for.  Every statement here is decided by the kernel on the *current* tables, so a
  change of a record kind in t2data.py (a field moved, a type or a count changed) re-opens the theorems.
-/
import PyTough.Proofs.T2DataFile
namespace Proofs.T2
open Py Model Model.T2 Proofs Proofs.Incon
open Gen.Sections (Rec)

instance (c : Char) : Decidable (ValidTyp c) := by unfold ValidTyp; infer_instance
instance (c : Char) : Decidable (NumericTyp c) := by unfold NumericTyp; infer_instance

def e10_4 : FieldSpec := { raw := c!"10.4", width := 10, left := false, prec := some 4, typ := 'e' }
def e10_3 : FieldSpec := { raw := c!"10.3", width := 10, left := false, prec := some 3, typ := 'e' }
def e14_7 : FieldSpec := { raw := c!"14.7", width := 14, left := false, prec := some 7, typ := 'e' }
def e15_8 : FieldSpec := { raw := c!"15.8", width := 15, left := false, prec := some 8, typ := 'e' }
def e15_9 : FieldSpec := { raw := c!"15.9", width := 15, left := false, prec := some 9, typ := 'e' }
def e20_14 : FieldSpec := { raw := c!"20.14", width := 20, left := false, prec := some 14, typ := 'e' }
def e20_13 : FieldSpec := { raw := c!"20.13", width := 20, left := false, prec := some 13, typ := 'e' }
def f10_7 : FieldSpec := { raw := c!"10.7", width := 10, left := false, prec := some 7, typ := 'f' }
def f15_8 : FieldSpec := { raw := c!"15.8", width := 15, left := false, prec := some 8, typ := 'f' }
def d5 : FieldSpec := { raw := c!"5", width := 5, left := false, prec := none, typ := 'd' }
def s5 : FieldSpec := { raw := c!"5", width := 5, left := false, prec := none, typ := 's' }

/-- every chunked list of the main table: (record kind, values per line, the one field spec) -/
def mainChunks : List (Str × Nat × FieldSpec) :=
  [(c!"timestep", 8, e10_4), (c!"default_incons", 4, e20_14), (c!"output_times2", 8, e10_4),
   (c!"generation_times", 4, e14_7), (c!"generation_rates", 4, e14_7), (c!"generation_enthalpy", 4, e14_7),
   (c!"selec2", 8, e10_3), (c!"radii2", 8, e10_4), (c!"layer2", 8, e10_4), (c!"xyz3", 8, e10_4), (c!"part2", 8, e10_4),
   (c!"incon2", 4, e20_14), (c!"indom2", 4, e20_13), (c!"diffusion", 8, e10_3)]

def xpChunks : List (Str × Nat × FieldSpec) :=
  [(c!"generation_times", 4, e15_8), (c!"generation_rates", 4, e15_8), (c!"generation_enthalpy", 4, e15_8)]

def chunkOK (T : Tabs) (e : Str × Nat × FieldSpec) : Bool :=
  match T.get e.1 with
  | .ok r => decide (r.fs.length = e.2.1) && r.fs.all (· == e.2.2) && decide (NumericTyp e.2.2.typ) && decide (0 < e.2.1)
  | .error _ => false

theorem chunkOK_spec {T : Tabs} {e : Str × Nat × FieldSpec} (h : chunkOK T e = true) :
    ∃ r, T.get e.1 = .ok r ∧ ChunkRec r e.2.1 e.2.2 ∧ 0 < e.2.1 := by
  unfold chunkOK at h
  cases hg : T.get e.1 with
  | error err => rw [hg] at h; cases h
  | ok r =>
    rw [hg] at h
    simp only [Bool.and_eq_true, decide_eq_true_eq, List.all_eq_true, beq_iff_eq] at h
    exact ⟨r, rfl, ⟨h.1.1.1, h.1.1.2, h.1.2⟩, h.2⟩

/-- **all chunked records are uniform numeric records**, for the main and the extra-precision table -/
theorem main_chunks_ok : ∀ e ∈ mainChunks, chunkOK mainTabs e = true := by decide +kernel
theorem xp_chunks_ok : ∀ e ∈ xpChunks, chunkOK xpTabs e = true := by decide +kernel

def recWFb (r : Rec) : Bool := decide (r.names.length = r.fs.length) && r.fs.all (fun f => decide (ValidTyp f.typ))

theorem recWFb_spec {r : Rec} (h : recWFb r = true) : RecWF r := by
  unfold recWFb at h
  simp only [Bool.and_eq_true, decide_eq_true_eq, List.all_eq_true] at h
  exact ⟨h.1, h.2⟩

/-- **every record kind of both tables** has one name per field and only type letters the readers know -/
theorem all_records_wf :
    (∀ e ∈ Gen.Sections.mainTable, recWFb e.2 = true) ∧ (∀ e ∈ Gen.Sections.xpTable, recWFb e.2 = true) := by
  constructor <;> decide +kernel

theorem main_times :
    mainTabs.get c!"output_times1" = .ok ⟨[c!"num_times_specified", c!"num_times", c!"max_timestep", c!"time_increment"],
      [d5, d5, e10_4, e10_4]⟩ := by decide +kernel

def recOf (T : Tabs) (n : Str) : Rec := match T.get n with | .ok r => r | .error _ => ⟨[], []⟩

theorem main_incon_shape : ∃ r1 r2, mainTabs.get c!"incon1" = .ok r1 ∧ mainTabs.get c!"incon2" = .ok r2 ∧
    InconShape r1 r2 s5 d5 d5 e15_9 := by
  refine ⟨recOf mainTabs c!"incon1", recOf mainTabs c!"incon2", by decide +kernel, by decide +kernel,
    ⟨by decide +kernel, ⟨rfl, rfl, rfl⟩, by decide, by decide, by decide, by decide +kernel⟩⟩

theorem main_block_shape : ∃ r, mainTabs.get c!"blocks" = .ok r ∧
    BlockShape r s5 d5 d5 s5 e10_4 e10_4 e10_4 e10_3 e10_3 e10_3 := by
  refine ⟨recOf mainTabs c!"blocks", by decide +kernel,
    ⟨by decide +kernel, by decide +kernel, ⟨rfl, rfl, rfl⟩, ⟨rfl, rfl, rfl⟩, by decide +kernel⟩⟩

theorem xp_block_shape : ∃ r, xpTabs.get c!"blocks" = .ok r ∧
    BlockShape r s5 d5 d5 s5 e15_8 e15_8 e15_8 e15_8 e15_8 e15_8 := by
  refine ⟨recOf xpTabs c!"blocks", by decide +kernel,
    ⟨by decide +kernel, by decide +kernel, ⟨rfl, rfl, rfl⟩, ⟨rfl, rfl, rfl⟩, by decide +kernel⟩⟩

theorem main_conn_shape : ∃ r, mainTabs.get c!"connections" = .ok r ∧
    ConnShape r s5 s5 d5 d5 d5 d5 e10_4 e10_4 e10_4 f10_7 e10_3 := by
  refine ⟨recOf mainTabs c!"connections", by decide +kernel,
    ⟨by decide +kernel, ⟨rfl, rfl, rfl⟩, ⟨rfl, rfl, rfl⟩, by decide +kernel⟩⟩

theorem xp_conn_shape : ∃ r, xpTabs.get c!"connections" = .ok r ∧
    ConnShape r s5 s5 d5 d5 d5 d5 e15_8 e15_8 e15_8 f15_8 e15_8 := by
  refine ⟨recOf xpTabs c!"connections", by decide +kernel,
    ⟨by decide +kernel, ⟨rfl, rfl, rfl⟩, ⟨rfl, rfl, rfl⟩, by decide +kernel⟩⟩

/-! ### keyword → reader / writer dispatch as it is in /repo -/

/-- the method `read()` calls for a keyword, by name (the model's `readSection` branches) -/
def modelReader (kw : Str) : Str :=
  if kw == c!"SIMUL" then c!"read_simulator" else if kw == c!"ROCKS" then c!"read_rocktypes"
  else if kw == c!"PARAM" then c!"read_parameters" else if kw == c!"MOMOP" then c!"read_more_options"
  else if kw == c!"START" then c!"read_start" else if kw == c!"NOVER" then c!"read_noversion"
  else if kw == c!"RPCAP" then c!"read_rpcap" else if kw == c!"LINEQ" then c!"read_lineq"
  else if kw == c!"SOLVR" then c!"read_solver" else if kw == c!"MULTI" then c!"read_multi"
  else if kw == c!"TIMES" then c!"read_times" else if kw == c!"SELEC" then c!"read_selection"
  else if kw == c!"DIFFU" then c!"read_diffusion" else if kw == c!"ELEME" then c!"read_blocks"
  else if kw == c!"CONNE" then c!"read_connections" else if kw == c!"MESHM" then c!"read_meshmaker"
  else if kw == c!"GENER" then c!"read_generators" else if kw == c!"SHORT" then c!"read_short_output"
  else if kw == c!"FOFT" then c!"read_history_blocks" else if kw == c!"COFT" then c!"read_history_connections"
  else if kw == c!"GOFT" then c!"read_history_generators" else if kw == c!"INCON" then c!"read_incons"
  else if kw == c!"INDOM" then c!"read_indom" else []

/-- **the dispatch tables of /repo are the ones modelled**: `read_fn` maps each keyword to the reader the model
    uses, `write_fn` to the method of the same stem, the extra-precision skip functions belong to the five
    extra-precision sections, and both dictionaries are keyed by `t2data_sections` in order -/
theorem dispatch_as_modelled :
    Gen.Sections.readFn.map (·.1) = Gen.Sections.sections ∧ Gen.Sections.writeFn.map (·.1) = Gen.Sections.sections ∧
    (∀ e ∈ Gen.Sections.readFn, e.2 = modelReader e.1) ∧
    (∀ e ∈ Gen.Sections.writeFn, e.2 = c!"write_" ++ (modelReader e.1).drop 5) ∧
    Gen.Sections.skipFn.map (·.1) = Gen.Sections.xpSections ∧
    (∀ kw ∈ Gen.Sections.xpSections, kw ∈ Gen.Sections.sections) := by
  refine ⟨?_, ?_, ?_, ?_, ?_, ?_⟩ <;> decide +kernel

end Proofs.T2
