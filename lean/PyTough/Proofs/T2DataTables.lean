/-
  C01 proofs, layer 5: the record tables regenerated from /repo (`Gen/Sections.lean`) have the shapes the
  section theorems ask for.  Every statement here is decided by the kernel on the *current* tables, so a
  change of a record kind in t2data.py (a field moved, a type or a count changed) re-opens the theorems.
-/
import PyTough.Proofs.T2DataFile
import PyTough.Proofs.T2DataGener
import PyTough.Proofs.T2DataParam
import PyTough.Proofs.T2DataRocks
import PyTough.Proofs.T2DataParamSection
import PyTough.Proofs.T2DataShort
namespace Proofs.T2
open Py Model Model.T2 Proofs Proofs.Incon
open Gen.Sections (Rec)

instance (c : Char) : Decidable (ValidTyp c) := by unfold ValidTyp; infer_instance
instance (c : Char) : Decidable (NumericTyp c) := by unfold NumericTyp; infer_instance

def recOf (T : Tabs) (n : Str) : Rec := match T.get n with | .ok r => r | .error _ => ⟨[], []⟩

/-- field `i` of record kind `n` of table `T` *as it is in the generated table* (so that a change of a width or
    a precision in /repo changes the statement with it, not its truth) -/
def fieldAt (T : Tabs) (n : Str) (i : Nat) : FieldSpec :=
  (recOf T n).fs.getD i { raw := [], width := 0, left := false, prec := none, typ := 'x' }

/-- every chunked list of the main table: (record kind, values per line) -/
def mainChunks : List (Str × Nat) :=
  [(c!"timestep", 8), (c!"default_incons", 4), (c!"output_times2", 8),
   (c!"generation_times", 4), (c!"generation_rates", 4), (c!"generation_enthalpy", 4),
   (c!"selec2", 8), (c!"radii2", 8), (c!"layer2", 8), (c!"xyz3", 8), (c!"part2", 8),
   (c!"incon2", 4), (c!"indom2", 4), (c!"diffusion", 8), (c!"selec1", 16)]

def xpChunks : List (Str × Nat) :=
  [(c!"generation_times", 4), (c!"generation_rates", 4), (c!"generation_enthalpy", 4)]

def chunkOK (T : Tabs) (e : Str × Nat) : Bool :=
  match T.get e.1 with
  | .ok r => decide (r.fs.length = e.2) && r.fs.all (· == fieldAt T e.1 0) && decide (NumericTyp (fieldAt T e.1 0).typ) && decide (0 < e.2)
  | .error _ => false

theorem chunkOK_spec {T : Tabs} {e : Str × Nat} (h : chunkOK T e = true) :
    ∃ r, T.get e.1 = .ok r ∧ ChunkRec r e.2 (fieldAt T e.1 0) ∧ 0 < e.2 := by
  unfold chunkOK at h
  cases hg : T.get e.1 with
  | error err => rw [hg] at h; cases h
  | ok r =>
    rw [hg] at h
    simp only [Bool.and_eq_true, decide_eq_true_eq, List.all_eq_true, beq_iff_eq] at h
    exact ⟨r, rfl, ⟨h.1.1.1, h.1.1.2, h.1.2⟩, h.2⟩

/-- **all chunked records are uniform numeric records**, for the main and the extra-precision table -/
theorem main_chunks_ok : ∀ e ∈ mainChunks, chunkOK mainTabs e = true := by decide +kernel
theorem xp_chunks_ok : ∀ e ∈ xpChunks, chunkOK xpTabs e = true := by decide +kernel

def recWFb (r : Rec) : Bool := decide (r.names.length = r.fs.length) && r.fs.all (fun f => decide (ValidTyp f.typ))

theorem recWFb_spec {r : Rec} (h : recWFb r = true) : RecWF r := by
  unfold recWFb at h
  simp only [Bool.and_eq_true, decide_eq_true_eq, List.all_eq_true] at h
  exact ⟨h.1, h.2⟩

/-- **every record kind of both tables** has one name per field and only type letters the readers know -/
theorem all_records_wf :
    (∀ e ∈ Gen.Sections.mainTable, recWFb e.2 = true) ∧ (∀ e ∈ Gen.Sections.xpTable, recWFb e.2 = true) := by
  constructor <;> decide +kernel

theorem main_times_rec : mainTabs.get c!"output_times1" = .ok (recOf mainTabs c!"output_times1") ∧
    RecWF (recOf mainTabs c!"output_times1") :=
  ⟨by decide +kernel, recWFb_spec (by decide +kernel)⟩

theorem incon_shape : mainTabs.get c!"incon1" = .ok (recOf mainTabs c!"incon1") ∧
    mainTabs.get c!"incon2" = .ok (recOf mainTabs c!"incon2") ∧
    InconShape (recOf mainTabs c!"incon1") (recOf mainTabs c!"incon2") (fieldAt mainTabs c!"incon1" 0)
      (fieldAt mainTabs c!"incon1" 1) (fieldAt mainTabs c!"incon1" 2) (fieldAt mainTabs c!"incon1" 3) :=
  ⟨by decide +kernel, by decide +kernel,
   ⟨by decide +kernel, ⟨by decide +kernel, by decide +kernel, by decide +kernel⟩, by decide +kernel, by decide +kernel,
    by decide +kernel, by decide +kernel⟩⟩

theorem block_shape (T : Tabs) (hT : T = mainTabs ∨ T = xpTabs) :
    T.get c!"blocks" = .ok (recOf T c!"blocks") ∧
    BlockShape (recOf T c!"blocks") (fieldAt T c!"blocks" 0) (fieldAt T c!"blocks" 1) (fieldAt T c!"blocks" 2)
      (fieldAt T c!"blocks" 3) (fieldAt T c!"blocks" 4) (fieldAt T c!"blocks" 5) (fieldAt T c!"blocks" 6)
      (fieldAt T c!"blocks" 7) (fieldAt T c!"blocks" 8) (fieldAt T c!"blocks" 9) := by
  rcases hT with rfl | rfl <;>
  exact ⟨by decide +kernel, ⟨by decide +kernel, by decide +kernel, ⟨by decide +kernel, by decide +kernel, by decide +kernel⟩,
    ⟨by decide +kernel, by decide +kernel, by decide +kernel⟩, by decide +kernel⟩⟩

theorem conn_shape (T : Tabs) (hT : T = mainTabs ∨ T = xpTabs) :
    T.get c!"connections" = .ok (recOf T c!"connections") ∧
    ConnShape (recOf T c!"connections") (fieldAt T c!"connections" 0) (fieldAt T c!"connections" 1)
      (fieldAt T c!"connections" 2) (fieldAt T c!"connections" 3) (fieldAt T c!"connections" 4)
      (fieldAt T c!"connections" 5) (fieldAt T c!"connections" 6) (fieldAt T c!"connections" 7)
      (fieldAt T c!"connections" 8) (fieldAt T c!"connections" 9) (fieldAt T c!"connections" 10) := by
  rcases hT with rfl | rfl <;>
  exact ⟨by decide +kernel, ⟨by decide +kernel, ⟨by decide +kernel, by decide +kernel, by decide +kernel⟩,
    ⟨by decide +kernel, by decide +kernel, by decide +kernel⟩, by decide +kernel⟩⟩

theorem chunkRec_of (T : Tabs) (n : Str) (k : Nat) (h : chunkOK T (n, k) = true) :
    T.get n = .ok (recOf T n) ∧ ChunkRec (recOf T n) k (fieldAt T n 0) := by
  obtain ⟨r, hr, hc, _⟩ := chunkOK_spec h
  have : recOf T n = r := by unfold recOf; simp only at hr; rw [hr]
  rw [this]; exact ⟨hr, hc⟩

theorem gener_shape (T : Tabs) (hT : T = mainTabs ∨ T = xpTabs) :
    T.get c!"generator" = .ok (recOf T c!"generator") ∧
    T.get c!"generation_times" = .ok (recOf T c!"generation_times") ∧
    T.get c!"generation_rates" = .ok (recOf T c!"generation_rates") ∧
    T.get c!"generation_enthalpy" = .ok (recOf T c!"generation_enthalpy") ∧
    GenerShape (recOf T c!"generator") (recOf T c!"generation_times") (recOf T c!"generation_rates")
      (recOf T c!"generation_enthalpy") (fun i => fieldAt T c!"generator" i)
      (fieldAt T c!"generation_times" 0) (fieldAt T c!"generation_rates" 0) (fieldAt T c!"generation_enthalpy" 0) := by
  rcases hT with rfl | rfl
  · have t := chunkRec_of mainTabs c!"generation_times" 4 (main_chunks_ok _ (by decide))
    have r := chunkRec_of mainTabs c!"generation_rates" 4 (main_chunks_ok _ (by decide))
    have e := chunkRec_of mainTabs c!"generation_enthalpy" 4 (main_chunks_ok _ (by decide))
    exact ⟨by decide +kernel, t.1, r.1, e.1, ⟨by decide +kernel, by decide +kernel,
      ⟨by decide +kernel, by decide +kernel, by decide +kernel⟩, ⟨by decide +kernel, by decide +kernel, by decide +kernel⟩,
      by decide +kernel, by decide +kernel, by decide +kernel, t.2, r.2, e.2⟩⟩
  · have t := chunkRec_of xpTabs c!"generation_times" 4 (xp_chunks_ok _ (by decide))
    have r := chunkRec_of xpTabs c!"generation_rates" 4 (xp_chunks_ok _ (by decide))
    have e := chunkRec_of xpTabs c!"generation_enthalpy" 4 (xp_chunks_ok _ (by decide))
    exact ⟨by decide +kernel, t.1, r.1, e.1, ⟨by decide +kernel, by decide +kernel,
      ⟨by decide +kernel, by decide +kernel, by decide +kernel⟩, ⟨by decide +kernel, by decide +kernel, by decide +kernel⟩,
      by decide +kernel, by decide +kernel, by decide +kernel, t.2, r.2, e.2⟩⟩

theorem rp_shape (T : Tabs) (hT : T = mainTabs ∨ T = xpTabs) (n : Str)
    (hn : n = c!"relative_permeability" ∨ n = c!"capillarity" ∨ n = c!"rocks1.2" ∨ n = c!"rocks1.3") :
    T.get n = .ok (recOf T n) ∧ RPShape (recOf T n) (fieldAt T n 0) (fieldAt T n 1) (fieldAt T n 2) := by
  rcases hT with rfl | rfl <;> rcases hn with rfl | rfl | rfl | rfl <;>
    exact ⟨by decide +kernel, ⟨by decide +kernel, by decide +kernel, by decide +kernel, by decide +kernel⟩⟩

theorem rock_shape (T : Tabs) (hT : T = mainTabs ∨ T = xpTabs) :
    T.get c!"rocks1" = .ok (recOf T c!"rocks1") ∧ T.get c!"rocks1.1" = .ok (recOf T c!"rocks1.1") ∧
    T.get c!"rocks1.2" = .ok (recOf T c!"rocks1.2") ∧ T.get c!"rocks1.3" = .ok (recOf T c!"rocks1.3") ∧
    RockShape (recOf T c!"rocks1") (recOf T c!"rocks1.1") (recOf T c!"rocks1.2") (recOf T c!"rocks1.3")
      (fieldAt T c!"rocks1" 0) (fieldAt T c!"rocks1" 1) (fieldAt T c!"rocks1" 2) (fieldAt T c!"rocks1" 3)
      (fieldAt T c!"rocks1" 4) (fieldAt T c!"rocks1" 5) (fieldAt T c!"rocks1" 6) (fieldAt T c!"rocks1" 7)
      (fieldAt T c!"rocks1" 8) (fieldAt T c!"rocks1.2" 0) (fieldAt T c!"rocks1.2" 1) (fieldAt T c!"rocks1.2" 2) := by
  have h12 := rp_shape T hT c!"rocks1.2" (by simp)
  rcases hT with rfl | rfl <;>
    exact ⟨by decide +kernel, by decide +kernel, h12.1, by decide +kernel,
      ⟨by decide +kernel, ⟨by decide +kernel, by decide +kernel, by decide +kernel⟩, by decide +kernel,
       recWFb_spec (by decide +kernel), h12.2, by decide +kernel⟩⟩

/-- the record kinds of PARAM in the current main table, for either flavour -/
theorem param_recs (d : T2Data) :
    param1Rec mainTabs d = .ok (recOf mainTabs (if d.autough2 then c!"param1_autough2" else c!"param1")) ∧
    RecWF (recOf mainTabs (if d.autough2 then c!"param1_autough2" else c!"param1")) ∧
    mainTabs.get c!"param2" = .ok (recOf mainTabs c!"param2") ∧ RecWF (recOf mainTabs c!"param2") ∧
    mainTabs.get c!"param3" = .ok (recOf mainTabs c!"param3") ∧ RecWF (recOf mainTabs c!"param3") := by
  unfold param1Rec
  cases d.autough2 <;>
    exact ⟨by decide +kernel, recWFb_spec (by decide +kernel), by decide +kernel, recWFb_spec (by decide +kernel),
           by decide +kernel, recWFb_spec (by decide +kernel)⟩

theorem momop_shape : mainTabs.get c!"_more_option_str" = .ok (recOf mainTabs c!"_more_option_str") ∧
    (recOf mainTabs c!"_more_option_str").names = [c!"_more_option_str"] ∧
    (recOf mainTabs c!"_more_option_str").fs = [fieldAt mainTabs c!"_more_option_str" 0] ∧
    (fieldAt mainTabs c!"_more_option_str" 0).typ = 's' ∧ (fieldAt mainTabs c!"_more_option_str" 0).prec = none ∧
    (fieldAt mainTabs c!"_more_option_str" 0).width = 21 := by
  refine ⟨?_, ?_, ?_, ?_, ?_, ?_⟩ <;> decide +kernel

theorem short_shape : ShortShape mainTabs (recOf mainTabs c!"short") (fieldAt mainTabs c!"short" 0) (fieldAt mainTabs c!"short" 1) :=
  ⟨by decide +kernel, by decide +kernel, by decide +kernel, by decide +kernel, by decide +kernel, by decide +kernel⟩

theorem mesh_shapes : MeshShapes mainTabs
    (recOf mainTabs c!"radii1") (recOf mainTabs c!"radii2") (recOf mainTabs c!"equid") (recOf mainTabs c!"logar")
    (recOf mainTabs c!"layer1") (recOf mainTabs c!"layer2") (recOf mainTabs c!"xyz1") (recOf mainTabs c!"xyz2")
    (recOf mainTabs c!"xyz3") (recOf mainTabs c!"minc") (recOf mainTabs c!"part1") (recOf mainTabs c!"part2")
    (fieldAt mainTabs c!"radii1" 0) (fieldAt mainTabs c!"radii2" 0) (fieldAt mainTabs c!"layer1" 0) (fieldAt mainTabs c!"layer2" 0)
    (fieldAt mainTabs c!"xyz1" 0) (fieldAt mainTabs c!"xyz2" 0) (fieldAt mainTabs c!"xyz2" 1) (fieldAt mainTabs c!"xyz2" 2)
    (fieldAt mainTabs c!"xyz2" 3) (fieldAt mainTabs c!"xyz3" 0)
    (fieldAt mainTabs c!"minc" 0) (fieldAt mainTabs c!"minc" 1) (fieldAt mainTabs c!"minc" 2) (fieldAt mainTabs c!"minc" 3)
    (fieldAt mainTabs c!"part1" 0) (fieldAt mainTabs c!"part1" 1) (fieldAt mainTabs c!"part1" 2) (fieldAt mainTabs c!"part1" 3)
    (fieldAt mainTabs c!"part2" 0) := by
  have r2 := chunkRec_of mainTabs c!"radii2" 8 (main_chunks_ok _ (by decide))
  have l2 := chunkRec_of mainTabs c!"layer2" 8 (main_chunks_ok _ (by decide))
  have x3 := chunkRec_of mainTabs c!"xyz3" 8 (main_chunks_ok _ (by decide))
  have p2 := chunkRec_of mainTabs c!"part2" 8 (main_chunks_ok _ (by decide))
  exact
    { rz := ⟨by decide +kernel, r2.1, by decide +kernel, by decide +kernel, by decide +kernel, l2.1, by decide +kernel,
             by decide +kernel, r2.2, recWFb_spec (by decide +kernel), recWFb_spec (by decide +kernel), by decide +kernel,
             by decide +kernel, l2.2⟩,
      xyz := ⟨by decide +kernel, by decide +kernel, x3.1, by decide +kernel, by decide +kernel, by decide +kernel,
              by decide +kernel, ⟨by decide +kernel, by decide +kernel⟩, by decide +kernel, by decide +kernel,
              by decide +kernel, x3.2⟩,
      minc := ⟨by decide +kernel, by decide +kernel, p2.1, by decide +kernel, ⟨by decide +kernel, by decide +kernel⟩,
               ⟨by decide +kernel, by decide +kernel⟩, ⟨by decide +kernel, by decide +kernel⟩, by decide +kernel,
               by decide +kernel, by decide +kernel, by decide +kernel, by decide +kernel, by decide +kernel,
               by decide +kernel, by decide +kernel, ⟨by decide +kernel, by decide +kernel⟩, by decide +kernel, p2.2⟩ }

/-! ### keyword → reader / writer dispatch as it is in /repo -/

/-- the method `read()` calls for a keyword, by name (the model's `readSection` branches) -/
def modelReader (kw : Str) : Str :=
  if kw == c!"SIMUL" then c!"read_simulator" else if kw == c!"ROCKS" then c!"read_rocktypes"
  else if kw == c!"PARAM" then c!"read_parameters" else if kw == c!"MOMOP" then c!"read_more_options"
  else if kw == c!"START" then c!"read_start" else if kw == c!"NOVER" then c!"read_noversion"
  else if kw == c!"RPCAP" then c!"read_rpcap" else if kw == c!"LINEQ" then c!"read_lineq"
  else if kw == c!"SOLVR" then c!"read_solver" else if kw == c!"MULTI" then c!"read_multi"
  else if kw == c!"TIMES" then c!"read_times" else if kw == c!"SELEC" then c!"read_selection"
  else if kw == c!"DIFFU" then c!"read_diffusion" else if kw == c!"ELEME" then c!"read_blocks"
  else if kw == c!"CONNE" then c!"read_connections" else if kw == c!"MESHM" then c!"read_meshmaker"
  else if kw == c!"GENER" then c!"read_generators" else if kw == c!"SHORT" then c!"read_short_output"
  else if kw == c!"FOFT" then c!"read_history_blocks" else if kw == c!"COFT" then c!"read_history_connections"
  else if kw == c!"GOFT" then c!"read_history_generators" else if kw == c!"INCON" then c!"read_incons"
  else if kw == c!"INDOM" then c!"read_indom" else []

/-- **the dispatch tables of /repo are the ones modelled**: `read_fn` maps each keyword to the reader the model
    uses, `write_fn` to the method of the same stem, the extra-precision skip functions belong to the five
    extra-precision sections, and both dictionaries are keyed by `t2data_sections` in order -/
theorem dispatch_as_modelled :
    Gen.Sections.readFn.map (·.1) = Gen.Sections.sections ∧ Gen.Sections.writeFn.map (·.1) = Gen.Sections.sections ∧
    (∀ e ∈ Gen.Sections.readFn, e.2 = modelReader e.1) ∧
    (∀ e ∈ Gen.Sections.writeFn, e.2 = c!"write_" ++ (modelReader e.1).drop 5) ∧
    Gen.Sections.skipFn.map (·.1) = Gen.Sections.xpSections ∧
    (∀ kw ∈ Gen.Sections.xpSections, kw ∈ Gen.Sections.sections) := by
  refine ⟨?_, ?_, ?_, ?_, ?_, ?_⟩ <;> decide +kernel

end Proofs.T2
