/-
  Helper lemmas for the grid registry model: dictionaries, object lists, sets-as-lists,
  heap reads after writes.
-/
import PyTough.Model.GridInv
namespace Proofs.Grid
open Py Model.Grid Model.Grid.World

/-! ### dictionaries -/

section dict
variable {κ α : Type} [DecidableEq κ]

@[simp] theorem dget_nil (k : κ) : dget ([] : Dict κ α) k = none := rfl

theorem dget_dset (d : Dict κ α) (k k' : κ) (v : α) :
    dget (dset d k v) k' = if k = k' then some v else dget d k' := by
  induction d with
  | nil => simp [dset, dget]
  | cons p r ih =>
    obtain ⟨a, b⟩ := p
    by_cases h : a = k
    · subst h; simp only [dset, if_true, dget]; split <;> simp_all
    · simp only [dset, h, if_false, dget, ih]
      by_cases h2 : a = k'
      · subst h2; simp [Ne.symm h]
      · simp [h2]

@[simp] theorem dget_dset_self (d : Dict κ α) (k : κ) (v : α) : dget (dset d k v) k = some v := by
  simp [dget_dset]

theorem dget_dset_ne (d : Dict κ α) {k k' : κ} (v : α) (h : k ≠ k') : dget (dset d k v) k' = dget d k' := by
  simp [dget_dset, h]

theorem dget_ddel (d : Dict κ α) (k k' : κ) :
    dget (ddel d k) k' = if k = k' then none else dget d k' := by
  induction d with
  | nil => simp [ddel]
  | cons p r ih =>
    obtain ⟨a, b⟩ := p
    unfold ddel at ih ⊢
    by_cases h : a = k
    · subst h; simp only [List.filter, ne_eq, not_true_eq_false, decide_false, ih, dget]
      split <;> simp_all
    · simp only [List.filter, ne_eq, h, not_false_eq_true, decide_true, dget, ih]
      by_cases h2 : a = k'
      · subst h2; simp [Ne.symm h]
      · simp [h2]

@[simp] theorem dget_ddel_self (d : Dict κ α) (k : κ) : dget (ddel d k) k = none := by simp [dget_ddel]

theorem dget_ddel_ne (d : Dict κ α) {k k' : κ} (h : k ≠ k') : dget (ddel d k) k' = dget d k' := by
  simp [dget_ddel, h]

end dict

/-! ### lists of objects -/

theorem replaceFirst_none {l : List Nat} {x y : Nat} : replaceFirst l x y = none ↔ x ∉ l := by
  induction l with
  | nil => simp [replaceFirst]
  | cons a r ih =>
    by_cases h : a = x
    · subst h; simp [replaceFirst]
    · simp [replaceFirst, h, ih, Ne.symm h]

theorem replaceFirst_some_mem {l l' : List Nat} {x y : Nat} (h : replaceFirst l x y = some l') : x ∈ l := by
  refine Decidable.byContradiction fun hx => ?_
  rw [replaceFirst_none.mpr hx] at h; cases h

/-- members after `l[l.index(x)] = y` on a duplicate-free list -/
theorem mem_replaceFirst {l l' : List Nat} {x y : Nat} (hn : l.Nodup) (h : replaceFirst l x y = some l') (z : Nat) :
    z ∈ l' ↔ z = y ∨ (z ∈ l ∧ z ≠ x) := by
  induction l generalizing l' with
  | nil => simp [replaceFirst] at h
  | cons a r ih =>
    by_cases hax : a = x
    · subst hax
      simp only [replaceFirst, if_true, Option.some.injEq] at h
      subst h
      have : a ∉ r := (List.nodup_cons.mp hn).1
      simp only [List.mem_cons]
      constructor
      · rintro (h | h)
        · exact Or.inl h
        · exact Or.inr ⟨Or.inr h, fun e => this (e ▸ h)⟩
      · rintro (h | ⟨h | h, h2⟩)
        · exact Or.inl h
        · exact absurd h h2
        · exact Or.inr h
    · simp only [replaceFirst, hax, if_false, Option.map_eq_some_iff] at h
      obtain ⟨r', hr', rfl⟩ := h
      have ih' := ih (List.nodup_cons.mp hn).2 hr'
      simp only [List.mem_cons, ih']
      constructor
      · rintro (h | h | ⟨h, h2⟩)
        · exact Or.inr ⟨Or.inl h, h ▸ hax⟩
        · exact Or.inl h
        · exact Or.inr ⟨Or.inr h, h2⟩
      · rintro (h | ⟨h | h, h2⟩)
        · exact Or.inr (Or.inl h)
        · exact Or.inl h
        · exact Or.inr (Or.inr ⟨h, h2⟩)

theorem nodup_replaceFirst {l l' : List Nat} {x y : Nat} (hn : l.Nodup) (hy : y ∉ l)
    (h : replaceFirst l x y = some l') : l'.Nodup := by
  induction l generalizing l' with
  | nil => simp [replaceFirst] at h
  | cons a r ih =>
    have ⟨har, hr⟩ := List.nodup_cons.mp hn
    by_cases hax : a = x
    · subst hax
      simp only [replaceFirst, if_true, Option.some.injEq] at h
      subst h
      exact List.nodup_cons.mpr ⟨fun h => hy (List.mem_cons_of_mem _ h), hr⟩
    · simp only [replaceFirst, hax, if_false, Option.map_eq_some_iff] at h
      obtain ⟨r', hr', rfl⟩ := h
      have hy' : y ∉ r := fun h => hy (List.mem_cons_of_mem _ h)
      refine List.nodup_cons.mpr ⟨?_, ih hr hy' hr'⟩
      rw [mem_replaceFirst hr hr']
      rintro (h | ⟨h, _⟩)
      · exact hy (h ▸ List.mem_cons_self)
      · exact har h

/-! ### sets kept as lists -/

section sets
variable {α : Type} [DecidableEq α]

theorem mem_sadd (s : List α) (k k' : α) : k' ∈ sadd s k ↔ k' = k ∨ k' ∈ s := by
  unfold sadd; split
  · constructor
    · exact Or.inr
    · rintro (h | h); exact h ▸ ‹k ∈ s›; exact h
  · simp [or_comm]

theorem nodup_sadd {s : List α} (k : α) (h : s.Nodup) : (sadd s k).Nodup := by
  unfold sadd; split
  · exact h
  · rename_i hk
    exact List.nodup_append.mpr ⟨h, by simp, by simp; intro a ha e; exact hk (e ▸ ha)⟩

end sets

/-! ### heap reads -/

theorem getD_set {α} (l : List α) (i j : Nat) (v d : α) :
    (l.set i v).getD j d = if i = j ∧ i < l.length then v else l.getD j d := by
  simp only [List.getD_eq_getElem?_getD, List.getElem?_set]
  by_cases h : i = j
  · subst h
    by_cases h2 : i < l.length
    · simp [h2]
    · simp [h2]
  · simp [h]

theorem getD_append_one {α} (l : List α) (j : Nat) (v d : α) :
    (l ++ [v]).getD j d = if j < l.length then l.getD j d else if j = l.length then v else d := by
  simp only [List.getD_eq_getElem?_getD]
  by_cases h : j < l.length
  · simp [h, List.getElem?_append_left h]
  · simp only [h, if_false]
    rw [List.getElem?_append_right (by omega)]
    by_cases h2 : j = l.length
    · subst h2; simp
    · have : j - l.length ≠ 0 := by omega
      simp [h2]
      cases hj : j - l.length with
      | zero => omega
      | succ n => simp

end Proofs.Grid
