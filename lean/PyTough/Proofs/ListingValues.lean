/-
  Values read from the fields of a row: `read_table_line_TOUGH2` slices at the inferred boundaries and
  reads each slice with `fortran_float`; `read_table_line_AUTOUGH2` splits at whitespace.  Core Lean only.
-/
import PyTough.Model.Listing
import PyTough.Proofs.FortranReals
namespace Proofs.Values
open Py Model Model.Listing

/-! ### fortran_float ignores whitespace at the end of its argument (the line terminator of a last field) -/

theorem dropWhile_append_all {p : Char → Bool} (a b : Str) (ha : ∀ c ∈ a, p c = true) :
    (a ++ b).dropWhile p = b.dropWhile p := by
  induction a with
  | nil => rfl
  | cons x r ih =>
    simp only [List.cons_append, List.dropWhile_cons]
    rw [if_pos (ha x List.mem_cons_self)]
    exact ih (fun c hc => ha c (List.mem_cons_of_mem _ hc))

theorem dropWhile_all_nil {p : Char → Bool} (a : Str) (ha : ∀ c ∈ a, p c = true) : a.dropWhile p = [] := by
  have := dropWhile_append_all a [] ha
  simpa using this

theorem dropWhile_append_of_ne_nil {p : Char → Bool} (a b : Str) (h : a.dropWhile p ≠ []) :
    (a ++ b).dropWhile p = a.dropWhile p ++ b := by
  induction a with
  | nil => exact absurd rfl h
  | cons x r ih =>
    simp only [List.cons_append, List.dropWhile_cons] at h ⊢
    split
    · rename_i hx
      rw [if_pos hx] at h
      exact ih h
    · rfl

theorem rstripBy_append_all (p : Char → Bool) (a t : Str) (ht : ∀ c ∈ t, p c = true) :
    rstripBy p (a ++ t) = rstripBy p a := by
  unfold rstripBy
  rw [List.reverse_append, dropWhile_append_all _ _ (fun c hc => ht c (List.mem_reverse.mp hc))]

theorem stripBy_append_all (p : Char → Bool) (s t : Str) (ht : ∀ c ∈ t, p c = true) :
    stripBy p (s ++ t) = stripBy p s := by
  unfold stripBy lstripBy
  by_cases h : s.dropWhile p = []
  · -- s is all strippable: both sides are empty
    have hs : ∀ c ∈ s, p c = true := by
      intro c hc
      cases hp : p c with
      | true => rfl
      | false =>
        have : c ∈ s.dropWhile p := by
          have := Py.mem_stripBy_of_not (p := p) hc hp
          exact (Py.rstripBy_prefix p _).subset this
        rw [h] at this; cases this
    rw [dropWhile_append_all s t hs, dropWhile_all_nil t ht, h]
  · rw [dropWhile_append_of_ne_nil s t h, rstripBy_append_all p _ t ht]

theorem isStrWs_of_isNumWs {c : Char} (h : isNumWs c = true) : isStrWs c = true := by
  unfold isStrWs; simp [h]

theorem pyFloat_append_ws (s t : Str) (ht : ∀ c ∈ t, isNumWs c = true) : pyFloat (s ++ t) = pyFloat s := by
  unfold pyFloat
  rw [stripBy_append_all isNumWs s t ht]

theorem fortranFloat_append_ws (s t : Str) (ht : ∀ c ∈ t, isNumWs c = true) :
    fortranFloat (s ++ t) = fortranFloat s := by
  unfold fortranFloat
  rw [pyFloat_append_ws s t ht]
  have : strip (s ++ t) = strip s := stripBy_append_all isStrWs s t (fun c hc => isStrWs_of_isNumWs (ht c hc))
  rw [this]

/-! ### the value of a field -/

/-- `fortran_float(field)` as a total function (it never raises: C16) -/
def readField (s : Str) : FVal :=
  match fortranFloat s with
  | .ok o => fvalOf o
  | .error _ => zero

theorem readField_spec (s : Str) : (fvalOf <$> fortranFloat s) = .ok (readField s) := by
  obtain ⟨o, ho⟩ := Proofs.fortranFloat_total s
  unfold readField; rw [ho]; rfl

/-- a field whose non-blank characters are a Fortran rendering of a real reads as that real -/
theorem readField_real (r : Proofs.FReal) (hr : r.WF) (s : Str) (hs : s.filter (· != ' ') = r.render) :
    readField s = r.value := by
  unfold readField; rw [Proofs.fortranFloat_reads r hr s hs]; rfl

/-- a blank (or empty) field reads as 0.0 -/
theorem readField_blank (s : Str) (h : ∀ c ∈ s, isStrWs c = true) : readField s = zero := by
  unfold readField; rw [Proofs.fortranFloat_blank s h]; rfl

theorem readField_append_ws (s t : Str) (ht : ∀ c ∈ t, isNumWs c = true) : readField (s ++ t) = readField s := by
  unfold readField; rw [fortranFloat_append_ws s t ht]

/-! ### read_table_line_TOUGH2 -/

def natPos (b : Nat) : Option Int := some (Int.ofNat b)

theorem sliceBound_nat (n b : Nat) : sliceBound n (Int.ofNat b) = min b n := by
  unfold sliceBound
  have h0 : ¬ ((Int.ofNat b) < 0) := by simp
  simp only [h0, if_false]
  by_cases h : b > n
  · have : (Int.ofNat b) > (n : Int) := by simp; omega
    rw [if_pos this]; omega
  · have : ¬ (Int.ofNat b) > (n : Int) := by simp; omega
    rw [if_neg this]; simp; omega

theorem slice_min (s : Str) (a b : Nat) : slice s (min a s.length) (min b s.length) = slice s a b := by
  unfold slice
  by_cases ha : a ≤ s.length
  · rw [Nat.min_eq_left ha]
    by_cases hb : b ≤ s.length
    · rw [Nat.min_eq_left hb]
    · have hb' : s.length ≤ b := by omega
      rw [Nat.min_eq_right hb']
      rw [List.take_of_length_le (by simp), List.take_of_length_le (by simp; omega)]
  · have ha' : s.length ≤ a := by omega
    rw [Nat.min_eq_right ha', List.drop_of_length_le (Nat.le_refl _), List.drop_of_length_le ha']
    simp

theorem sliceO_nat (s : Str) (a b : Nat) : sliceO s (natPos a) (natPos b) = slice s a b := by
  unfold sliceO natPos
  simp only [sliceBound_nat, slice_min]

/-- the slices `read_table_line_TOUGH2` takes: between consecutive boundaries -/
def fieldTexts (row : Str) : List Nat → List Str
  | a :: b :: rest => slice row a b :: fieldTexts row (b :: rest)
  | _ => []

theorem fieldsOf_nat (row : Str) (bs : List Nat) : fieldsOf row (bs.map natPos) = fieldTexts row bs := by
  induction bs with
  | nil => rfl
  | cons a r ih =>
    cases r with
    | nil => rfl
    | cons b r' =>
      simp only [List.map_cons, fieldsOf, fieldTexts] at ih ⊢
      rw [sliceO_nat, ih]

theorem mapM_readField (l : List Str) :
    l.mapM (fun s => fvalOf <$> fortranFloat s) = .ok (l.map readField) := by
  induction l with
  | nil => rfl
  | cons x r ih =>
    rw [List.mapM_cons, readField_spec x, ih]; rfl

/-- `read_table_line_TOUGH2` never raises; it returns the value of each slice and pads with 0.0 up to the number
    of columns -/
theorem readTableLineTOUGH2_eq (row : Str) (ncols : Nat) (bs : List Nat) :
    readTableLineTOUGH2 row ncols (bs.map natPos)
      = .ok ((fieldTexts row bs).map readField ++ List.replicate (ncols - (bs.length - 1)) zero) := by
  unfold readTableLineTOUGH2
  rw [fieldsOf_nat, mapM_readField]
  simp [bind, Except.bind, pure, Except.pure]

theorem fieldTexts_get (row : Str) (bs : List Nat) (k a b : Nat) (ha : bs[k]? = some a) (hb : bs[k + 1]? = some b) :
    (fieldTexts row bs)[k]? = some (slice row a b) := by
  induction bs generalizing k with
  | nil => simp at ha
  | cons x r ih =>
    cases r with
    | nil => simp at hb
    | cons y r' =>
      cases k with
      | zero =>
        simp at ha hb; subst ha; subst hb; rfl
      | succ k' =>
        simp only [fieldTexts, List.getElem?_cons_succ] at ha hb ⊢
        exact ih k' ha hb

/-- a slice that starts at or beyond the end of the row is empty -/
theorem slice_beyond (row : Str) (a b : Nat) (h : row.length ≤ a) : slice row a b = [] := by
  unfold slice; rw [List.drop_of_length_le h]; simp

/-! ### read_table_line_AUTOUGH2: the whitespace split -/

theorem splitWs_go_ws (ws s : Str) (hws : ∀ c ∈ ws, isStrWs c = true) : splitWs.go (ws ++ s) [] = splitWs.go s [] := by
  induction ws with
  | nil => rfl
  | cons x r ih =>
    simp only [List.cons_append, splitWs.go]
    rw [if_pos (hws x List.mem_cons_self)]
    simp only [List.isEmpty_nil, if_true]
    exact ih (fun c hc => hws c (List.mem_cons_of_mem _ hc))

theorem splitWs_go_tok (tok s cur : Str) (ht : ∀ c ∈ tok, isStrWs c = false) :
    splitWs.go (tok ++ s) cur = splitWs.go s (tok.reverse ++ cur) := by
  induction tok generalizing cur with
  | nil => rfl
  | cons x r ih =>
    simp only [List.cons_append, splitWs.go]
    have hx : ¬ (isStrWs x = true) := by rw [ht x List.mem_cons_self]; simp
    rw [if_neg hx, ih (x :: cur) (fun c hc => ht c (List.mem_cons_of_mem _ hc))]
    simp

/-- tokens with the whitespace that follows each of them -/
def joinToks (toks : List (Str × Str)) : Str := toks.flatMap (fun p => p.1 ++ p.2)

/-- every token is non-empty and free of whitespace, every separator is whitespace, and every separator but the
    last is non-empty -/
def ToksOk : List (Str × Str) → Prop
  | [] => True
  | [p] => p.1 ≠ [] ∧ (∀ c ∈ p.1, isStrWs c = false) ∧ (∀ c ∈ p.2, isStrWs c = true)
  | p :: q :: r => p.1 ≠ [] ∧ (∀ c ∈ p.1, isStrWs c = false) ∧ (∀ c ∈ p.2, isStrWs c = true) ∧ p.2 ≠ [] ∧ ToksOk (q :: r)

theorem splitWs_go_toks (toks : List (Str × Str)) (h : ToksOk toks) : splitWs.go (joinToks toks) [] = toks.map (·.1) := by
  induction toks with
  | nil => rfl
  | cons p r ih =>
    cases r with
    | nil =>
      obtain ⟨h1, h2, h3⟩ := h
      simp only [joinToks, List.flatMap_cons, List.flatMap_nil, List.append_nil, List.map_cons, List.map_nil]
      rw [splitWs_go_tok p.1 p.2 [] h2]
      simp only [List.append_nil]
      -- the trailing whitespace ends the token
      cases hw : p.2 with
      | nil =>
        simp only [splitWs.go]
        have : p.1.reverse.isEmpty = false := by
          cases hp : p.1 with
          | nil => exact absurd hp h1
          | cons _ _ => simp
        rw [this]; simp
      | cons w ws =>
        have hw1 : isStrWs w = true := h3 w (by rw [hw]; exact List.mem_cons_self)
        simp only [splitWs.go]
        rw [if_pos hw1]
        have : p.1.reverse.isEmpty = false := by
          cases hp : p.1 with
          | nil => exact absurd hp h1
          | cons _ _ => simp
        rw [this]
        simp only [Bool.false_eq_true, if_false, List.reverse_reverse]
        have := splitWs_go_ws ws [] (fun c hc => h3 c (by rw [hw]; exact List.mem_cons_of_mem _ hc))
        simp only [List.append_nil] at this
        rw [this]; rfl
    | cons q r' =>
      obtain ⟨h1, h2, h3, h4, h5⟩ := h
      have ih' := ih h5
      simp only [joinToks, List.flatMap_cons, List.map_cons] at ih' ⊢
      rw [List.append_assoc, splitWs_go_tok p.1 _ [] h2]
      simp only [List.append_nil]
      cases hw : p.2 with
      | nil => exact absurd hw h4
      | cons w ws =>
        have hw1 : isStrWs w = true := h3 w (by rw [hw]; exact List.mem_cons_self)
        simp only [List.cons_append, splitWs.go]
        rw [if_pos hw1]
        have : p.1.reverse.isEmpty = false := by
          cases hp : p.1 with
          | nil => exact absurd hp h1
          | cons _ _ => simp
        rw [this]
        simp only [Bool.false_eq_true, if_false, List.reverse_reverse]
        rw [splitWs_go_ws ws _ (fun c hc => h3 c (by rw [hw]; exact List.mem_cons_of_mem _ hc)), ih']

/-- `s.strip().split()` is `s.split()` -/
theorem splitWs_go_trailing (s ws cur : Str) (hws : ∀ c ∈ ws, isStrWs c = true) :
    splitWs.go (s ++ ws) cur = splitWs.go s cur := by
  induction s generalizing cur with
  | nil =>
    simp only [List.nil_append]
    induction ws generalizing cur with
    | nil => rfl
    | cons x r ih =>
      simp only [splitWs.go]
      rw [if_pos (hws x List.mem_cons_self)]
      have hr := fun c (hc : c ∈ r) => hws c (List.mem_cons_of_mem _ hc)
      cases hcur : cur.isEmpty with
      | true =>
        simp only [if_true]
        have : cur = [] := List.isEmpty_iff.mp hcur
        subst this
        rw [ih hr]; rfl
      | false =>
        simp only [Bool.false_eq_true, if_false]
        rw [ih hr]; rfl
  | cons x r ih =>
    simp only [List.cons_append, splitWs.go]
    split
    · split <;> rw [ih]
    · rw [ih]

theorem mem_takeWhile_true {p : Char → Bool} {l : Str} {c : Char} (h : c ∈ l.takeWhile p) : p c = true := by
  induction l with
  | nil => simp at h
  | cons x r ih =>
    rw [List.takeWhile_cons] at h
    split at h
    · rename_i hx
      rcases List.mem_cons.mp h with rfl | h'
      · exact hx
      · exact ih h'
    · simp at h

theorem strip_decompose (s : Str) : ∃ a b, s = a ++ (strip s ++ b) ∧ (∀ c ∈ a, isStrWs c = true) ∧ (∀ c ∈ b, isStrWs c = true) := by
  refine ⟨s.takeWhile isStrWs, ((s.dropWhile isStrWs).reverse.takeWhile isStrWs).reverse, ?_, ?_, ?_⟩
  · have h1 : s = s.takeWhile isStrWs ++ s.dropWhile isStrWs := (List.takeWhile_append_dropWhile).symm
    have h2 : s.dropWhile isStrWs = strip s ++ ((s.dropWhile isStrWs).reverse.takeWhile isStrWs).reverse := by
      unfold strip stripBy rstripBy lstripBy
      have := List.takeWhile_append_dropWhile (p := isStrWs) (l := (s.dropWhile isStrWs).reverse)
      have h3 := congrArg List.reverse this
      simp only [List.reverse_append, List.reverse_reverse] at h3
      exact h3.symm
    rw [← h2]; exact h1
  · intro c hc; exact mem_takeWhile_true hc
  · intro c hc; exact mem_takeWhile_true (List.mem_reverse.mp hc)

theorem splitWs_strip (s : Str) : splitWs (strip s) = splitWs s := by
  obtain ⟨a, b, hs, ha, hb⟩ := strip_decompose s
  unfold splitWs
  conv => rhs; rw [hs]
  rw [splitWs_go_ws a _ ha, splitWs_go_trailing (strip s) b [] hb]

end Proofs.Values
