import PyTough.Proofs.FixedRound
namespace Proofs
open Py Model

/-! ### formatting does not depend on how the fraction is written -/

theorem roundHalfEven_scale (a b c : Nat) (hc : 0 < c) :
    roundHalfEven (a * c) (b * c) = roundHalfEven a b := by
  unfold roundHalfEven
  simp only
  rw [Nat.mul_div_mul_right _ _ hc, Nat.mul_mod_mul_right]
  have e1 : (2 * (a % b * c) < b * c) ↔ (2 * (a % b) < b) := by
    rw [← Nat.mul_assoc]; exact Nat.mul_lt_mul_right hc
  have e2 : (2 * (a % b * c) > b * c) ↔ (2 * (a % b) > b) := by
    rw [← Nat.mul_assoc]; exact Nat.mul_lt_mul_right hc
  simp only [e1, e2]

theorem log10Search_unique {n d k r r' : Nat}
    (h1 : k ≤ r ∧ d ≤ n * 10 ^ r ∧ ∀ j, k ≤ j → j < r → n * 10 ^ j < d)
    (h2 : k ≤ r' ∧ d ≤ n * 10 ^ r' ∧ ∀ j, k ≤ j → j < r' → n * 10 ^ j < d) : r = r' := by
  rcases Nat.lt_trichotomy r r' with h | h | h
  · have := h2.2.2 r h1.1 h; omega
  · exact h
  · have := h1.2.2 r' h2.1 h; omega

theorem log10Floor_scale (n d c : Nat) (hn : 0 < n) (hd : 0 < d) (hc : 0 < c) :
    log10Floor (n * c) (d * c) = log10Floor n d := by
  have hnc : 0 < n * c := Nat.mul_pos hn hc
  have hdc : 0 < d * c := Nat.mul_pos hd hc
  rcases log10Floor_spec n d hn hd with ⟨a, he, h1, h2⟩ | ⟨k, hk, he, h1, h2⟩
  · rcases log10Floor_spec (n * c) (d * c) hnc hdc with ⟨a', he', h1', h2'⟩ | ⟨k', hk', he', h1', h2'⟩
    · rw [he, he']
      -- 10^a d ≤ n < 10^(a+1) d and the same for a' after cancelling c
      have g1 : 10 ^ a' * d ≤ n := by
        have : 10 ^ a' * d * c ≤ n * c := by rw [Nat.mul_assoc]; exact h1'
        exact Nat.le_of_mul_le_mul_right this hc
      have g2 : n < 10 ^ (a' + 1) * d := by
        have : n * c < 10 ^ (a' + 1) * d * c := by rw [Nat.mul_assoc]; exact h2'
        exact Nat.lt_of_mul_lt_mul_right this
      have : a = a' := by
        rcases Nat.lt_trichotomy a a' with h | h | h
        · have : 10 ^ (a + 1) ≤ 10 ^ a' := Nat.pow_le_pow_right (by decide) h
          have := Nat.mul_le_mul_right d this
          omega
        · exact h
        · have : 10 ^ (a' + 1) ≤ 10 ^ a := Nat.pow_le_pow_right (by decide) h
          have := Nat.mul_le_mul_right d this
          omega
      rw [this]
    · -- n ≥ d but n c < d c: impossible
      exfalso
      have g : n * 10 ^ (k' - 1) < d := by
        have : n * 10 ^ (k' - 1) * c < d * c := by
          have e : n * c * 10 ^ (k' - 1) = n * 10 ^ (k' - 1) * c := by ac_rfl
          rw [← e]; exact h2'
        exact Nat.lt_of_mul_lt_mul_right this
      have : n ≤ n * 10 ^ (k' - 1) := Nat.le_mul_of_pos_right _ (pow10_pos _)
      have : 1 * d ≤ 10 ^ a * d := Nat.mul_le_mul_right d (pow10_pos a)
      omega
  · rcases log10Floor_spec (n * c) (d * c) hnc hdc with ⟨a', he', h1', h2'⟩ | ⟨k', hk', he', h1', h2'⟩
    · exfalso
      have g1 : 10 ^ a' * d ≤ n := by
        have : 10 ^ a' * d * c ≤ n * c := by rw [Nat.mul_assoc]; exact h1'
        exact Nat.le_of_mul_le_mul_right this hc
      have : n ≤ n * 10 ^ (k - 1) := Nat.le_mul_of_pos_right _ (pow10_pos _)
      have : 1 * d ≤ 10 ^ a' * d := Nat.mul_le_mul_right d (pow10_pos a')
      omega
    · rw [he, he']
      have g1 : d ≤ n * 10 ^ k' := by
        have : d * c ≤ n * 10 ^ k' * c := by
          have e : n * c * 10 ^ k' = n * 10 ^ k' * c := by ac_rfl
          rw [← e]; exact h1'
        exact Nat.le_of_mul_le_mul_right this hc
      have g2 : n * 10 ^ (k' - 1) < d := by
        have : n * 10 ^ (k' - 1) * c < d * c := by
          have e : n * c * 10 ^ (k' - 1) = n * 10 ^ (k' - 1) * c := by ac_rfl
          rw [← e]; exact h2'
        exact Nat.lt_of_mul_lt_mul_right this
      have : k = k' := by
        rcases Nat.lt_trichotomy k k' with h | h | h
        · have : n * 10 ^ k ≤ n * 10 ^ (k' - 1) := Nat.mul_le_mul_left n (Nat.pow_le_pow_right (by decide) (by omega))
          omega
        · exact h
        · have : n * 10 ^ k' ≤ n * 10 ^ (k - 1) := Nat.mul_le_mul_left n (Nat.pow_le_pow_right (by decide) (by omega))
          omega
      rw [this]

theorem eM0_scale (p n d c : Nat) (hn : 0 < n) (hd : 0 < d) (hc : 0 < c) :
    eM0 p (n * c) (d * c) = eM0 p n d := by
  unfold eM0
  simp only
  rw [log10Floor_scale n d c hn hd hc]
  split
  · have e : n * c * 10 ^ ((p : Int) - log10Floor n d).toNat = n * 10 ^ ((p : Int) - log10Floor n d).toNat * c := by ac_rfl
    rw [e, roundHalfEven_scale _ _ _ hc]
  · have e : d * c * 10 ^ (-((p : Int) - log10Floor n d)).toNat = d * 10 ^ (-((p : Int) - log10Floor n d)).toNat * c := by ac_rfl
    rw [e, roundHalfEven_scale _ _ _ hc]

/-- `%e` depends only on the value `n/d`, not on the representation of the fraction -/
theorem fmtEParts_scale (p n d c : Nat) (hd : 0 < d) (hc : 0 < c) :
    fmtEParts p (n * c) (d * c) = fmtEParts p n d := by
  by_cases hn : n = 0
  · subst hn; rw [Nat.zero_mul, fmtEParts_zero, fmtEParts_zero]
  · have hn' : 0 < n := by omega
    rw [fmtEParts_eq p (n * c) (d * c) (by have := Nat.mul_pos hn' hc; omega), fmtEParts_eq p n d hn,
      eM0_scale p n d c hn' hd hc, log10Floor_scale n d c hn' hd hc]


/-! ### a decimal that already has `p+1` significant digits is printed unchanged -/

theorem log10Floor_of_ge (n d a : Nat) (hd : 0 < d) (h1 : 10 ^ a * d ≤ n) (h2 : n < 10 ^ (a + 1) * d) :
    log10Floor n d = (a : Int) := by
  have hn : 0 < n := by
    have : 0 < 10 ^ a * d := Nat.mul_pos (pow10_pos a) hd
    omega
  rcases log10Floor_spec n d hn hd with ⟨a', he, g1, g2⟩ | ⟨k, hk, he, g1, g2⟩
  · rw [he]
    have : a' = a := by
      rcases Nat.lt_trichotomy a' a with h | h | h
      · have : 10 ^ (a' + 1) ≤ 10 ^ a := Nat.pow_le_pow_right (by decide) h
        have := Nat.mul_le_mul_right d this
        omega
      · exact h
      · have : 10 ^ (a + 1) ≤ 10 ^ a' := Nat.pow_le_pow_right (by decide) h
        have := Nat.mul_le_mul_right d this
        omega
    rw [this]
  · exfalso
    have : n ≤ n * 10 ^ (k - 1) := Nat.le_mul_of_pos_right _ (pow10_pos _)
    have : 1 * d ≤ 10 ^ a * d := Nat.mul_le_mul_right d (pow10_pos a)
    omega

theorem log10Floor_of_lt (n d k : Nat) (hn : 0 < n) (hd : 0 < d) (hk : 0 < k) (h1 : d ≤ n * 10 ^ k)
    (h2 : n * 10 ^ (k - 1) < d) : log10Floor n d = -(k : Int) := by
  rcases log10Floor_spec n d hn hd with ⟨a', he, g1, g2⟩ | ⟨k', hk', he, g1, g2⟩
  · exfalso
    have : n ≤ n * 10 ^ (k - 1) := Nat.le_mul_of_pos_right _ (pow10_pos _)
    have : 1 * d ≤ 10 ^ a' * d := Nat.mul_le_mul_right d (pow10_pos a')
    omega
  · rw [he]
    have : k' = k := by
      rcases Nat.lt_trichotomy k' k with h | h | h
      · have : n * 10 ^ k' ≤ n * 10 ^ (k - 1) := Nat.mul_le_mul_left n (Nat.pow_le_pow_right (by decide) (by omega))
        omega
      · exact h
      · have : n * 10 ^ k ≤ n * 10 ^ (k' - 1) := Nat.mul_le_mul_left n (Nat.pow_le_pow_right (by decide) (by omega))
        omega
    rw [this]

theorem roundHalfEven_exact (m b : Nat) (hb : 0 < b) : roundHalfEven (m * b) b = m := by
  unfold roundHalfEven
  simp only
  rw [Nat.mul_div_cancel _ hb, Nat.mul_mod_left]
  simp [hb]

/-- the numerator / denominator of the decimal `m·10^t` -/
def decNum (m : Nat) (t : Int) : Nat := if t ≥ 0 then m * 10 ^ t.toNat else m
def decDen (t : Int) : Nat := if t ≥ 0 then 1 else 10 ^ (-t).toNat

theorem decDen_pos (t : Int) : 0 < decDen t := by
  unfold decDen; split
  · decide
  · exact pow10_pos _

/-- **Reprinting is stable**: `'%.{p}e'` of a decimal that already has exactly `p+1` significant
    digits (`10^p ≤ m < 10^(p+1)`) prints the same digits and the same exponent -/
theorem fmtEParts_decimal (p m : Nat) (t : Int) (hlo : 10 ^ p ≤ m) (hhi : m < 10 ^ (p + 1)) :
    fmtEParts p (decNum m t) (decDen t) = (m, t + p) := by
  have hm : 0 < m := by have := pow10_pos p; omega
  unfold decNum decDen
  by_cases ht : t ≥ 0
  · rw [if_pos ht, if_pos ht]
    obtain ⟨k, rfl⟩ : ∃ k : Nat, t = k := ⟨t.toNat, by omega⟩
    simp only [Int.toNat_natCast]
    have hlog : log10Floor (m * 10 ^ k) 1 = ((p + k : Nat) : Int) := by
      apply log10Floor_of_ge _ _ _ (by decide)
      · rw [Nat.mul_one, Nat.pow_add]; exact Nat.mul_le_mul_right _ hlo
      · rw [Nat.mul_one, show p + k + 1 = (p + 1) + k by omega, Nat.pow_add]
        exact Nat.mul_lt_mul_of_pos_right hhi (pow10_pos k)
    have hne : m * 10 ^ k ≠ 0 := by have := Nat.mul_pos hm (pow10_pos k); omega
    rw [fmtEParts_eq _ _ _ hne]
    have hm0 : eM0 p (m * 10 ^ k) 1 = m := by
      unfold eM0
      simp only
      rw [hlog]
      by_cases hk : k = 0
      · subst hk
        have : ((p : Int) - ((p + 0 : Nat) : Int)) ≥ 0 := by omega
        rw [if_pos this]
        have e : ((p : Int) - ((p + 0 : Nat) : Int)).toNat = 0 := by omega
        rw [e]
        simpa using roundHalfEven_exact m 1 (by decide)
      · have : ¬ ((p : Int) - ((p + k : Nat) : Int)) ≥ 0 := by omega
        rw [if_neg this]
        have e : (-((p : Int) - ((p + k : Nat) : Int))).toNat = k := by omega
        rw [e, Nat.one_mul]
        exact roundHalfEven_exact m _ (pow10_pos k)
    rw [hm0, if_neg (by omega), hlog]
    congr 1
    omega
  · rw [if_neg ht, if_neg ht]
    obtain ⟨k, hk, rfl⟩ : ∃ k : Nat, 0 < k ∧ t = -(k : Int) := ⟨(-t).toNat, by omega, by omega⟩
    have e1 : (-(-(k : Int))).toNat = k := by omega
    rw [e1]
    have hne : m ≠ 0 := by omega
    rw [fmtEParts_eq _ _ _ hne]
    have hlog : log10Floor m (10 ^ k) = (p : Int) - k := by
      by_cases hkp : k ≤ p
      · have := log10Floor_of_ge m (10 ^ k) (p - k) (pow10_pos k)
          (by rw [← Nat.pow_add]; rw [show p - k + k = p by omega]; exact hlo)
          (by rw [← Nat.pow_add]; rw [show p - k + 1 + k = p + 1 by omega]; exact hhi)
        rw [this]; omega
      · have := log10Floor_of_lt m (10 ^ k) (k - p) hm (pow10_pos k) (by omega)
          (by
            have : 10 ^ k = 10 ^ p * 10 ^ (k - p) := by rw [← Nat.pow_add]; congr 1; omega
            rw [this]; exact Nat.mul_le_mul_right _ hlo)
          (by
            have : 10 ^ k = 10 ^ (p + 1) * 10 ^ (k - p - 1) := by rw [← Nat.pow_add]; congr 1; omega
            rw [this]; exact Nat.mul_lt_mul_of_pos_right hhi (pow10_pos _))
        rw [this]; omega
    have hm0 : eM0 p m (10 ^ k) = m := by
      unfold eM0
      simp only
      rw [hlog]
      have : ((p : Int) - ((p : Int) - (k : Int))) ≥ 0 := by omega
      rw [if_pos this]
      have e : ((p : Int) - ((p : Int) - (k : Int))).toNat = k := by omega
      rw [e]
      exact roundHalfEven_exact m _ (pow10_pos k)
    rw [hm0, if_neg (by omega), hlog]
    congr 1
    omega

end Proofs
