/-
  C10, clause "the block and connection name lists are what a fresh recomputation gives":
  every operation that ends with the two `setup_*` calls leaves them fresh.
-/
import PyTough.Model.GeoInv
namespace Proofs.Geo
open Model.Geo Model.Geo.Geo Py

theorem bind_ok {α β} {x : Except Exc α} {f : α → Except Exc β} {b : β}
    (h : (x >>= f) = .ok b) : ∃ a, x = .ok a ∧ f a = .ok b := by
  cases x with
  | error e => cases h
  | ok a => exact ⟨a, rfl, h⟩

theorem setupNames_fresh (g g' : Geo) (h : g.setupNames = .ok g') : g'.namesFresh = true := by
  unfold setupNames at h
  obtain ⟨g1, h1, h2⟩ := bind_ok h
  unfold setupBlockNames at h1
  obtain ⟨b, hb, h1'⟩ := bind_ok h1
  cases h1'
  unfold setupConnNames at h2
  obtain ⟨c, hc, h2'⟩ := bind_ok h2
  cases h2'
  simp only [namesFresh, blocksFresh, connsFresh, Bool.and_eq_true, beq_iff_eq]
  constructor
  · exact (rfl : _ = g.computeBlockNames).trans hb
  · exact (rfl : _ = Geo.computeConnNames _).trans hc

theorem renameColumn_fresh (g g' : Geo) (olds news : List Name) (h : g.renameColumn olds news = .ok g') :
    g'.namesFresh = true := by
  unfold renameColumn at h
  obtain ⟨g1, _, h2⟩ := bind_ok h
  exact setupNames_fresh _ _ h2

theorem renameLayer_fresh (g g' : Geo) (olds news : List Name) (h : g.renameLayer olds news = .ok g') :
    g'.namesFresh = true := by
  unfold renameLayer at h
  obtain ⟨g1, _, h2⟩ := bind_ok h
  exact setupNames_fresh _ _ h2

theorem copyLayersFrom_fresh (g g' : Geo) (ls : List Layer) (h : g.copyLayersFrom ls = .ok g') :
    g'.namesFresh = true := by
  unfold copyLayersFrom at h
  obtain ⟨g1, _, h2⟩ := bind_ok h
  exact setupNames_fresh _ _ h2

theorem snapColumnsToNearestLayers_fresh (g g' : Geo) (cols : List Nat)
    (h : g.snapColumnsToNearestLayers cols = .ok g') : g'.namesFresh = true := by
  unfold snapColumnsToNearestLayers at h
  obtain ⟨g1, _, h2⟩ := bind_ok h
  exact setupNames_fresh _ _ h2

theorem snapColumnsToLayers_fresh (g g' : Geo) (t : Rat) (ht : t > 0) (cols : List Nat)
    (h : g.snapColumnsToLayers t cols = .ok g') : g'.namesFresh = true := by
  unfold snapColumnsToLayers at h
  rw [if_pos ht] at h
  obtain ⟨g1, _, h2⟩ := bind_ok h
  exact setupNames_fresh _ _ h2

theorem refineLayers_fresh (g g' : Geo) (layers : List Name) (f : Nat) (h : g.refineLayers layers f = .ok g') :
    g'.namesFresh = true := by
  unfold refineLayers at h
  obtain ⟨st, _, h⟩ := bind_ok h
  obtain ⟨g1, atm⟩ := st
  simp only at h
  obtain ⟨g2, _, h⟩ := bind_ok h
  obtain ⟨g3, _, h⟩ := bind_ok h
  exact setupNames_fresh _ _ h

theorem decomposeColumns_fresh (g g' : Geo) (cols : List Nat) (h : g.decomposeColumns cols = .ok g') :
    g'.namesFresh = true := by
  unfold decomposeColumns at h
  obtain ⟨g1, _, h⟩ := bind_ok h
  obtain ⟨g2, _, h⟩ := bind_ok h
  exact setupNames_fresh _ _ h

theorem reduce_fresh (g g' : Geo) (cols : List Nat) (h : g.reduce cols = .ok g') : g'.namesFresh = true := by
  unfold reduce at h
  obtain ⟨g1, _, h⟩ := bind_ok h
  obtain ⟨g2, _, h⟩ := bind_ok h
  exact setupNames_fresh _ _ h

theorem splitColumn_fresh (g g' : Geo) (c n : Name) (h : g.splitColumn c n = .ok (g', true)) :
    g'.namesFresh = true := by
  unfold splitColumn at h
  obtain ⟨r, _, h⟩ := bind_ok h
  cases r with
  | none => simp [pure, Except.pure] at h
  | some g1 =>
    obtain ⟨g2, h2, h⟩ := bind_ok h
    simp only [pure, Except.pure, Except.ok.injEq, Prod.mk.injEq, and_true] at h
    subst h
    exact setupNames_fresh _ _ h2

theorem refineApply_fresh (p : RefPlan) (cols : List Nat) (b : Bisect) (edge : List Nat) (g' : Geo)
    (h : refineApply p cols b edge = .ok g') : g'.namesFresh = true := by
  unfold refineApply at h
  obtain ⟨x1, _, h⟩ := bind_ok h
  obtain ⟨x2, _, h⟩ := bind_ok h
  obtain ⟨x3, _, h⟩ := bind_ok h
  obtain ⟨x4, _, h⟩ := bind_ok h
  obtain ⟨x5, _, h⟩ := bind_ok h
  exact setupNames_fresh _ _ h

theorem refine_fresh (g g' : Geo) (cols : List Nat) (b : Bisect) (edge : List Nat)
    (h : g.refine cols b edge = .ok g')
    (hs : ∀ p, g.refinePlan (if cols.isEmpty then g.columnlist else cols) b edge = .ok p → p.supported = true) :
    g'.namesFresh = true := by
  unfold refine at h
  obtain ⟨p, hp, h⟩ := bind_ok h
  rw [if_pos (hs p hp)] at h
  exact refineApply_fresh _ _ _ _ _ h

end Proofs.Geo
