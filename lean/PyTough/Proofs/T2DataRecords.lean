/-
  C01 proofs, layer 1: one written record read back (on top of the C02/C13 record lemmas).
-/
import PyTough.Model.T2Data
import PyTough.Proofs.InconLines
namespace Proofs.T2
open Py Model Model.T2 Proofs Proofs.Incon

/-- the type letters `read_function` knows -/
def ValidTyp (c : Char) : Prop := c = 's' ∨ c = 'd' ∨ c = 'e' ∨ c = 'f' ∨ c = 'g' ∨ c = 'x'

theorem NumericTyp.valid {c : Char} (h : NumericTyp c) : ValidTyp c := by
  rcases h with h | h | h | h | h <;> simp [ValidTyp, h]

/-- the default conversion functions never raise (`value_error_none`) -/
theorem readField_default_total {typ : Char} (h : ValidTyp typ) (s : Str) :
    ∃ p, readField .default typ s = .ok p := by
  have hf : ∀ e, pyFloat s = .error e → e = .valueError := fun e he => pyFloat_error he
  have hi : ∀ e, pyInt s = .error e → e = .valueError := fun e he => pyInt_error he
  rcases h with rfl | rfl | rfl | rfl | rfl | rfl
  · exact ⟨_, rfl⟩
  · unfold readField
    cases hp : pyInt s with
    | ok i => simp
    | error e => rw [hi e hp]; simp
  all_goals
    first
    | (unfold readField
       cases hp : pyFloat s with
       | ok v => simp
       | error e => rw [hf e hp]; simp)
    | exact ⟨_, rfl⟩

theorem readable_default {f : FieldSpec} (h : ValidTyp f.typ) (v : Val) : Readable .default f v :=
  fun s _ => readField_default_total h s

/-- what a reader (default conversion functions) gets back from the columns that hold `v` -/
def canonV (f : FieldSpec) (v : Val) : Val := (reparse .default f v).toVal

theorem writeValuesLine_eq (r : Gen.Sections.Rec) (vals : List Val) :
    writeValuesLine r vals = Model.Incon.writeLine r.fs vals := by
  unfold writeValuesLine Model.Incon.writeLine nl
  rfl

/-- **one written record read back**: the values written (one per leading field) come back as their
    `canonV`, the remaining (numeric) fields of the record as `None`; whitespace after the newline
    (`padstring`) changes nothing -/
theorem readValues_written (r : Gen.Sections.Rec) (vals : List Val)
    (hvalid : ∀ f ∈ r.fs, ValidTyp f.typ)
    (hnum : ∀ f ∈ r.fs.drop vals.length, NumericTyp f.typ)
    {l : Str} (h : writeValuesLine r vals = .ok l) (pad : Str) (hpad : ∀ c ∈ pad, isStrWs c = true) :
    readValues .default r (l ++ pad) =
      .ok ((vals.zip r.fs).map (fun vf => canonV vf.2 vf.1) ++ (r.fs.drop vals.length).map (fun _ => Val.none)) := by
  rw [writeValuesLine_eq] at h
  have hread : ∀ vf ∈ vals.zip r.fs, Readable .default vf.2 vf.1 := by
    intro vf hvf
    exact readable_default (hvalid _ (List.of_mem_zip hvf).2) _
  unfold readValues
  rw [line_roundtrip .default r.fs vals hnum hread h pad hpad]
  show Except.ok (List.map PVal.toVal _) = _
  congr 1
  rw [List.map_append, List.map_map, List.map_map]
  rfl

/-- an absent value reads back as `None` from a numeric field -/
theorem canonV_none {f : FieldSpec} (h : NumericTyp f.typ) : canonV f .none = .none := by
  have := Proofs.roundtrip_absent .default (f := f) (v := .none) (Or.inl rfl)
  unfold canonV reparse
  rw [this.1]
  simp only
  rw [this.2 h]
  rfl

end Proofs.T2
