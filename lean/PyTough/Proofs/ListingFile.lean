/-
  Frame lemmas for the whole-file machine: what a history() call can change.  Core Lean only.
-/
import PyTough.Model.ListingHistory
namespace Proofs.File
open Py Model Model.Listing

/-- a lifted cursor computation changes nothing but the file position and the index -/
theorem liftC_frame {α : Type} (c : C α) (s s' : Rd) (a : α) (h : (liftC c).run s = .ok (a, s')) :
    ∃ cur : Cur, s' = { s with pos := cur.pos, index := cur.index } := by
  simp only [StateT.run, liftC] at h
  split at h
  · rename_i a' cur hc
    injection h with h; injection h with h1 h2
    exact ⟨cur, h2.symm⟩
  · cases h

/-- history() brackets its loop with `old_index = self.index … self._index = old_index` -/
theorem historyC_index (items : List Item) (short : Bool) (env : Rd) (c c' : Cur) (r : Option (List (Bool × List FVal)))
    (h : historyC items short env c = .ok (r, c')) : c'.index = c.index := by
  unfold historyC at h
  split at h
  · cases h
  · split at h
    · injection h with h; injection h with _ h2; rw [← h2]
    · split at h
      · cases h
      · injection h with h; injection h with _ h2; rw [← h2]

/-- **A history() call that returns leaves the reader showing what it showed before**: the same index, time, step and
    tables (and every other attribute); only the file position differs, and every later action seeks first. -/
theorem history_frame (items : List Item) (short : Bool) (s s' : Rd) (r : Option (List (Bool × List FVal)))
    (h : (history items short).run s = .ok (r, s')) : s' = { s with pos := s'.pos } := by
  simp only [StateT.run, history, liftC] at h
  split at h
  · rename_i a cur hc
    injection h with h; injection h with h1 h2
    have := historyC_index items short s ⟨s.pos, s.index⟩ cur a hc
    simp only at this
    rw [← h2, this]
  · cases h

end Proofs.File

namespace Proofs.File
open Py Model Model.Listing

/-! ### the row dictionary of setup_table_TOUGH2: one row per printed index, in index order -/

abbrev RowEntry := Int × Nat × Key

theorem insertSorted_perm (e : RowEntry) (l : List RowEntry) : (insertSorted e l).Perm (e :: l) := by
  induction l with
  | nil => exact List.Perm.refl _
  | cons x r ih =>
    unfold insertSorted
    split
    · exact List.Perm.refl _
    · exact (List.Perm.cons x ih).trans (List.Perm.swap e x r)

/-- `sorted(rowdict.keys())` loses and invents nothing -/
theorem sortByIndex_perm (d : List RowEntry) : (sortByIndex d).Perm d := by
  induction d with
  | nil => exact List.Perm.refl _
  | cons x r ih =>
    have : sortByIndex (x :: r) = insertSorted x (sortByIndex r) := rfl
    rw [this]
    exact (insertSorted_perm x _).trans (List.Perm.cons x ih)

def Ascending : List RowEntry → Prop
  | a :: b :: r => a.1 ≤ b.1 ∧ Ascending (b :: r)
  | _ => True

theorem insertSorted_ascending (e : RowEntry) (l : List RowEntry) (h : Ascending l) : Ascending (insertSorted e l) := by
  induction l with
  | nil => trivial
  | cons x r ih =>
    unfold insertSorted
    split
    · rename_i hle; exact ⟨hle, h⟩
    · rename_i hnle
      cases r with
      | nil => exact ⟨by omega, trivial⟩
      | cons y r' =>
        have ih' := ih h.2
        unfold insertSorted at ih' ⊢
        split
        · rename_i hey; exact ⟨by omega, hey, h.2⟩
        · rename_i hney
          rw [if_neg hney] at ih'
          exact ⟨h.1, ih'⟩

/-- the rows of a table are in ascending order of the printed index -/
theorem sortByIndex_ascending (d : List RowEntry) : Ascending (sortByIndex d) := by
  induction d with
  | nil => trivial
  | cons x r ih => exact insertSorted_ascending x _ ih

/-- `rowdict[index] = (count, keyval)`: a row printed again under the same index replaces the earlier one, every
    other index keeps its row, and no index is ever held twice -/
theorem dictSet_lookup_self (d : List RowEntry) (i : Int) (v : Nat × Key) : (dictSet d i v).lookup i = some v := by
  unfold dictSet
  split
  · rename_i h
    induction d with
    | nil => simp at h
    | cons x r ih =>
      simp only [List.map_cons]
      by_cases hx : x.1 = i
      · simp [hx, List.lookup]
      · have : r.any (fun e => decide (e.1 = i)) = true := by
          simp only [List.any_cons, Bool.or_eq_true, decide_eq_true_eq] at h
          rcases h with h | h
          · exact absurd h hx
          · simpa using h
        rw [if_neg hx]
        simp only [List.lookup]
        have hne : (i == x.1) = false := by simp; exact fun e => hx e.symm
        rw [hne]
        exact ih this
  · simp [List.lookup]

theorem lookup_map_replace (d : List RowEntry) (i j : Int) (v : Nat × Key) (hj : j ≠ i) :
    (d.map (fun e => if e.1 = i then (i, v) else e)).lookup j = d.lookup j := by
  induction d with
  | nil => rfl
  | cons x r ih =>
    simp only [List.map_cons]
    by_cases hx : x.1 = i
    · rw [if_pos hx]
      simp only [List.lookup]
      have h1 : (j == i) = false := by simp [hj]
      have h2 : (j == x.1) = false := by simp [hx, hj]
      rw [h1, h2]; exact ih
    · rw [if_neg hx]
      simp only [List.lookup]
      cases hjx : j == x.1
      · exact ih
      · rfl

theorem dictSet_lookup_other (d : List RowEntry) (i j : Int) (v : Nat × Key) (hj : j ≠ i) :
    (dictSet d i v).lookup j = d.lookup j := by
  unfold dictSet
  split
  · exact lookup_map_replace d i j v hj
  · simp only [List.lookup]
    have h1 : (j == i) = false := by simp [hj]
    rw [h1]

theorem dictSet_keys_nodup (d : List RowEntry) (i : Int) (v : Nat × Key) (h : (d.map (·.1)).Nodup) :
    ((dictSet d i v).map (·.1)).Nodup := by
  unfold dictSet
  split
  · have : (d.map (fun e => if e.1 = i then (i, v) else e)).map (·.1) = d.map (·.1) := by
      rw [List.map_map]
      apply List.map_congr_left
      intro e _
      simp only [Function.comp]
      split <;> simp_all
    rw [this]; exact h
  · rename_i hn
    simp only [List.map_cons, List.nodup_cons]
    refine ⟨?_, h⟩
    intro hm
    apply hn
    obtain ⟨e, he, hei⟩ := List.mem_map.mp hm
    exact List.any_eq_true.mpr ⟨e, he, by simpa using hei⟩

end Proofs.File

namespace Proofs.File
open Py Model Model.Listing

/-! ### the line loops spin only at end of file -/

/-- `skip_to_nonblank` does not return exactly when nothing but blank lines is left -/
theorem skipToNonblank_spins_iff (rest : List Str) (n : Nat) :
    skipToNonblankL rest n = none ↔ ∀ l ∈ rest, isBlank l = true := by
  induction rest generalizing n with
  | nil => simp [skipToNonblankL]
  | cons l r ih =>
    simp only [skipToNonblankL]
    split
    · rename_i hb
      rw [ih]
      constructor
      · intro h x hx
        rcases List.mem_cons.mp hx with rfl | hx'
        · exact hb
        · exact h x hx'
      · intro h x hx; exact h x (List.mem_cons_of_mem _ hx)
    · rename_i hb
      constructor
      · intro h; cases h
      · intro h; exact absurd (h l List.mem_cons_self) hb

/-- a `while not <condition on the line read>` loop that does not test for end of file does not return exactly when
    no remaining line (and not the empty string read at end of file) satisfies the condition -/
theorem readUntil_spins_iff (stop : Str → Bool) (eofStops : Bool) (rest : List Str) (n : Nat) :
    readUntilL stop eofStops rest n = none ↔ (eofStops = false ∧ stop [] = false ∧ ∀ l ∈ rest, stop l = false) := by
  induction rest generalizing n with
  | nil =>
    simp only [readUntilL]
    cases eofStops <;> cases stop [] <;> simp
  | cons l r ih =>
    simp only [readUntilL]
    split
    · rename_i hs
      constructor
      · intro h; cases h
      · intro h; have := h.2.2 l List.mem_cons_self; rw [hs] at this; cases this
    · rename_i hs
      rw [ih]
      constructor
      · intro ⟨h1, h2, h3⟩
        refine ⟨h1, h2, ?_⟩
        intro x hx
        rcases List.mem_cons.mp hx with rfl | hx'
        · cases h : stop x <;> simp_all
        · exact h3 x hx'
      · intro ⟨h1, h2, h3⟩
        exact ⟨h1, h2, fun x hx => h3 x (List.mem_cons_of_mem _ hx)⟩

/-- `skipto` always returns (it tests for end of file); it never moves backwards, and consumes at least one line
    unless none is left -/
theorem skipTo_no_ge (kws : List Str) (start : Nat) (rest : List Str) (n : Nat) :
    (skipToL kws start rest n).2.no ≥ n := by
  induction rest generalizing n with
  | nil => simp [skipToL]
  | cons l r ih =>
    simp only [skipToL]
    split
    · simp
    · have := ih (n + 1); omega

theorem skipTo_progress (kws : List Str) (start : Nat) (l : Str) (r : List Str) (n : Nat) :
    (skipToL kws start (l :: r) n).2.no > n := by
  simp only [skipToL]
  split
  · simp
  · have := skipTo_no_ge kws start r (n + 1); omega

end Proofs.File

namespace Proofs.File
open Py Model Model.Listing

/-! ### skipping a table leaves the file where reading it would -/

/-- reading the rows of a table consumes one line per entry of `skiplines` plus the skipped lines -/
theorem readRowsL_rest (kp : List Int) (nc : Nat) (np : List (Option Int)) (skips : List Nat) (rest : List Str) (t t' : Table)
    (rest' : List Str) (h : readRowsL kp nc np skips rest t = .ok (t', rest')) :
    rest' = rest.drop (skips.length + skips.sum) := by
  induction skips generalizing rest t with
  | nil => simp only [readRowsL] at h; injection h with h; injection h with _ h2; simp [← h2]
  | cons k more ih =>
    simp only [readRowsL] at h
    split at h
    · cases h
    · split at h
      · cases h
      · split at h
        · cases h
        · have := ih _ _ h
          rw [this, List.drop_drop, List.drop_drop]
          congr 1
          simp only [List.length_cons, List.sum_cons]; omega

/-- `skiplines(n)` on the cursor: `n` lines further (or at end of file) -/
theorem skiplines_pos (n : Nat) (env : Rd) (c : Cur) :
    ∃ c', Cu.skiplines n env c = .ok ((), c') ∧ c'.pos.rest = c.pos.rest.drop n ∧ c'.index = c.index := by
  induction n generalizing c with
  | zero => exact ⟨c, rfl, by simp, rfl⟩
  | succ k ih =>
    cases hr : c.pos.rest with
    | nil =>
      obtain ⟨c', h1, h2, h3⟩ := ih c
      refine ⟨c', ?_, ?_, h3⟩
      · simp only [Cu.skiplines, bind, ReaderT.bind, StateT.bind, Cu.readline, get, getThe, MonadStateOf.get, liftM, monadLift,
          MonadLift.monadLift, StateT.get, ReaderT.pure, StateT.pure, pure, Except.bind, Except.pure, hr]
        simpa using h1
      · rw [h2, hr]; simp
    | cons l r =>
      obtain ⟨c', h1, h2, h3⟩ := ih { c with pos := ⟨c.pos.no + 1, r⟩ }
      refine ⟨c', ?_, ?_, by simpa using h3⟩
      · simp only [Cu.skiplines, bind, ReaderT.bind, StateT.bind, Cu.readline, get, getThe, MonadStateOf.get, liftM, monadLift,
          MonadLift.monadLift, StateT.get, ReaderT.pure, StateT.pure, pure, Except.bind, Except.pure, hr, set, StateT.set]
        simpa using h1
      · rw [h2]; simp

end Proofs.File
