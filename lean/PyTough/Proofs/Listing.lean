/-
  Lemmas about the row layer and `listingtable` (Model/Listing.lean).  Core Lean only.
-/
import PyTough.Model.Listing
namespace Proofs.Listing
open Py Model Model.Listing

/-! ### `_col`: the last position of a column name -/

theorem colIdx_go_spec (c : Str) (l : List Str) (i : Nat) (acc : Option Nat) (k : Nat)
    (h : colIdx.go c l i acc = some k) :
    (acc = some k ∧ c ∉ l) ∨ (i ≤ k ∧ l[k - i]? = some c) := by
  induction l generalizing i acc with
  | nil => simp only [colIdx.go] at h; left; exact ⟨h, by simp⟩
  | cons x r ih =>
    simp only [colIdx.go] at h
    rcases ih (i + 1) _ h with ⟨h1, h2⟩ | ⟨h1, h2⟩
    · split at h1
      · rename_i hx
        injection h1 with h1; subst h1; subst hx
        right; exact ⟨Nat.le_refl _, by simp⟩
      · rename_i hx
        left; refine ⟨h1, ?_⟩
        intro hc
        rcases List.mem_cons.mp hc with rfl | hc'
        · exact hx rfl
        · exact h2 hc'
    · right
      refine ⟨by omega, ?_⟩
      have : k - i = (k - (i + 1)) + 1 := by omega
      rw [this]; simpa using h2

theorem colIdx_spec {cols : List Str} {c : Str} {k : Nat} (h : colIdx cols c = some k) : cols[k]? = some c := by
  unfold colIdx at h
  rcases colIdx_go_spec c cols 0 none k h with ⟨h1, _⟩ | ⟨_, h2⟩
  · cases h1
  · simpa using h2

/-! ### rows -/

theorem lastIdx_go_spec (rows : Array Key) (key : Key) (n i : Nat) (h : lastIdx.go rows key n = some i) :
    i < n ∧ rows[i]? = some key := by
  induction n with
  | zero => simp [lastIdx.go] at h
  | succ m ih =>
    simp only [lastIdx.go] at h
    split at h
    · rename_i hm
      injection h with h; subst h
      exact ⟨Nat.lt_succ_self _, by simpa using hm⟩
    · obtain ⟨h1, h2⟩ := ih h
      exact ⟨by omega, h2⟩

theorem lastIdx_spec {rows : Array Key} {key : Key} {i : Nat} (h : lastIdx rows key = some i) :
    i < rows.size ∧ rows[i]? = some key :=
  lastIdx_go_spec rows key rows.size i h

/-- the value a row dictionary holds under a column name -/
theorem rowView_get (t : Table) (i k : Nat) (c : Str) (rowv : Array FVal) (v : FVal) (rev : Bool)
    (hcol : colIdx t.cols c = some k) (hdata : t.data[i]? = some rowv) (hlen : rowv.size = t.cols.length)
    (hv : rowv[k]? = some v) :
    (t.rowView i rev).get c = some (if rev then negF v else v) := by
  have hk : t.cols[k]? = some c := colIdx_spec hcol
  unfold Table.rowView RowView.get
  simp only [hdata, Option.getD_some]
  cases rev with
  | false =>
    simp only [Bool.false_eq_true, if_false]
    have hfst : (t.cols.zip rowv.toList).map (·.1) = t.cols := List.map_fst_zip (by simp [hlen])
    rw [hfst, hcol]
    simp only
    have : (t.cols.zip rowv.toList)[k]? = some (c, v) := by
      rw [List.getElem?_zip_eq_some]; exact ⟨hk, by simpa using hv⟩
    rw [this]; rfl
  | true =>
    simp only [if_true]
    have hfst : (t.cols.zip (rowv.toList.map negF)).map (·.1) = t.cols := List.map_fst_zip (by simp [hlen])
    rw [hfst, hcol]
    simp only
    have : (t.cols.zip (rowv.toList.map negF))[k]? = some (c, negF v) := by
      rw [List.getElem?_zip_eq_some]
      refine ⟨hk, ?_⟩
      rw [List.getElem?_map]
      have : rowv.toList[k]? = some v := by simpa using hv
      rw [this]; rfl
    rw [this]; rfl

theorem rowView_key (t : Table) (i : Nat) (key : Key) (h : t.rows[i]? = some key) :
    (t.rowView i false).key = key ∧ (t.rowView i true).key = pyRevKey key := by
  unfold Table.rowView
  simp [h]

theorem getCol_get (t : Table) (i k : Nat) (c : Str) (rowv : Array FVal) (v : FVal)
    (hcol : colIdx t.cols c = some k) (hdata : t.data[i]? = some rowv) (hv : rowv[k]? = some v) :
    ∃ col, t.getCol c = some col ∧ col[i]? = some v := by
  unfold Table.getCol
  rw [hcol]
  refine ⟨_, rfl, ?_⟩
  rw [List.getElem?_map]
  have : t.data.toList[i]? = some rowv := by simpa using hdata
  rw [this]
  simp [hv]

end Proofs.Listing
