/-
  Lemmas about the navigation machine (Model/ListingNav.lean).  Core Lean only.
-/
import PyTough.Model.ListingNav
namespace Proofs.Nav
open Py Model.Nav

variable {V E W : Type}

/-- `load j` sets the index to `j` -/
def LoadSetsIndex (N : Nav V E) : Prop := ∀ j v v', N.load j v = .ok v' → N.idx v' = (j : Int)

/-- what re-reading result `j` shows does not depend on what was shown before -/
def Covers (N : Nav V E) (view : V → W) : Prop :=
  ∀ j v v', (N.load j v).map view = (N.load j v').map view

/-- the state is what loading some result `j < n` left behind -/
def Loaded (N : Nav V E) (s : V) : Prop := ∃ j u, j < N.n ∧ N.load j u = .ok s

theorem setIndex_ok {N : Nav V E} {i : Int} {v s : V} (h : setIndex N i v = .ok s) :
    -(N.n : Int) ≤ i ∧ i < N.n ∧ N.load (if i < 0 then i + (N.n : Int) else i).toNat v = .ok s := by
  unfold setIndex at h
  simp only at h
  split at h
  · cases h
  · rename_i hc
    refine ⟨by omega, by omega, h⟩

theorem setIndex_loaded {N : Nav V E} {i : Int} {v s : V} (h : setIndex N i v = .ok s) : Loaded N s := by
  obtain ⟨h1, h2, h3⟩ := setIndex_ok h
  refine ⟨_, v, ?_, h3⟩
  split <;> omega

theorem setIndex_idx {N : Nav V E} (hl : LoadSetsIndex N) {i : Int} {v s : V} (h : setIndex N i v = .ok s) :
    N.idx s = if i < 0 then i + (N.n : Int) else i := by
  obtain ⟨h1, h2, h3⟩ := setIndex_ok h
  rw [hl _ _ _ h3]
  split <;> omega

theorem map_ok_eq {α β ε : Type} {f : α → β} {x : Except ε α} {a : α} (h : x = .ok a) : x.map f = .ok (f a) := by
  subst h; rfl

theorem of_map_eq_ok {α β ε : Type} {f : α → β} {x : Except ε α} {b : β} (h : x.map f = .ok b) : ∃ a, x = .ok a ∧ f a = b := by
  cases x with
  | error e => cases h
  | ok a => exact ⟨a, rfl, by injection h⟩

/-- every action keeps a loaded state loaded -/
theorem apply_loaded {T : Type} (N : Nav V E) (lt : T → T → Bool) (dist : T → T → T) (times : List T) (steps : List Int)
    (op : Op T) (v s : V) (b : Bool) (hv : Loaded N v) (h : apply N lt dist times steps op v = .ok (b, s)) : Loaded N s := by
  have key : ∀ (x : Except E V), ((fun v' => (true, v')) <$> x) = .ok (b, s) → x = .ok s := by
    intro x hx
    cases x with
    | error e => cases hx
    | ok a => injection hx with hx; injection hx with _ h2; subst h2; rfl
  cases op with
  | first => exact setIndex_loaded (key _ h)
  | last => exact setIndex_loaded (key _ h)
  | index i => exact setIndex_loaded (key _ h)
  | next =>
    simp only [apply, next] at h
    split at h
    · exact setIndex_loaded (key _ h)
    · injection h with h; injection h with _ h2; subst h2; exact hv
  | prev =>
    simp only [apply, prev] at h
    split at h
    · exact setIndex_loaded (key _ h)
    · injection h with h; injection h with _ h2; subst h2; exact hv
  | time t =>
    simp only [apply, setNearest] at h
    split at h
    · exact setIndex_loaded (key _ h)
    · cases h
  | step st =>
    simp only [apply, setNearest] at h
    split at h
    · exact setIndex_loaded (key _ h)
    · cases h
  | history => simp only [apply] at h; injection h with h; injection h with _ h2; subst h2; exact hv

theorem run_loaded {T : Type} (N : Nav V E) (lt : T → T → Bool) (dist : T → T → T) (times : List T) (steps : List Int)
    (ops : List (Op T)) (v s : V) (hv : Loaded N v) (h : run N lt dist times steps ops v = .ok s) : Loaded N s := by
  induction ops generalizing v with
  | nil => simp only [run] at h; injection h with h; subst h; exact hv
  | cons op ops ih =>
    simp only [run] at h
    split at h
    · rename_i b v' hop
      exact ih v' (apply_loaded N lt dist times steps op v v' b hv hop) h
    · cases h

/-- a loaded state shows what a reader positioned directly at its index shows -/
theorem loaded_eq_fresh (N : Nav V E) (view : V → W) (hcov : Covers N view) (hl : LoadSetsIndex N)
    (s v0 : V) (hs : Loaded N s) :
    ∃ f, setIndex N (N.idx s) v0 = .ok f ∧ view f = view s ∧ N.idx f = N.idx s := by
  obtain ⟨j, u, hj, hu⟩ := hs
  have hidx : N.idx s = (j : Int) := hl _ _ _ hu
  have h1 : (N.load j v0).map view = .ok (view s) := by
    rw [hcov j v0 u]; exact map_ok_eq hu
  obtain ⟨f, hf, hvf⟩ := of_map_eq_ok h1
  refine ⟨f, ?_, hvf, ?_⟩
  · unfold setIndex
    simp only [hidx]
    have : ¬ ((j : Int) < -(N.n : Int) ∨ (j : Int) ≥ (N.n : Int)) := by omega
    rw [if_neg this]
    have : (if (j : Int) < 0 then (j : Int) + (N.n : Int) else (j : Int)).toNat = j := by
      split <;> omega
    rw [this]; exact hf
  · rw [hl _ _ _ hf, hidx]

/-! ### argmin -/

section argmin
variable {D : Type} (lt : D → D → Bool)

/-- a strict order in which incomparable elements behave alike (every linear order is one) -/
structure StrictWeak : Prop where
  irrefl : ∀ a, lt a a = false
  trans : ∀ a b c, lt a b = true → lt b c = true → lt a c = true
  negtrans : ∀ a b x, lt a b = true → lt a x = true ∨ lt x b = true

theorem argminFrom_spec (hlt : StrictWeak lt) (pre ds : List D) (best : D) (besti : Nat)
    (hb : besti < pre.length) (hbest : pre[besti]? = some best)
    (hmin : ∀ (k : Nat) (d : D), pre[k]? = some d → lt d best = false)
    (hfirst : ∀ (k : Nat) (d : D), k < besti → pre[k]? = some d → lt best d = true) :
    let j := argminFrom lt ds pre.length best besti
    ∃ dj, (pre ++ ds)[j]? = some dj ∧
      (∀ (k : Nat) (d : D), (pre ++ ds)[k]? = some d → lt d dj = false) ∧
      (∀ (k : Nat) (d : D), k < j → (pre ++ ds)[k]? = some d → lt dj d = true) := by
  induction ds generalizing pre best besti with
  | nil =>
    simp only [argminFrom, List.append_nil]
    exact ⟨best, hbest, hmin, hfirst⟩
  | cons d r ih =>
    simp only [argminFrom]
    have happ : pre ++ d :: r = (pre ++ [d]) ++ r := by simp
    have hlen : (pre ++ [d]).length = pre.length + 1 := by simp
    split
    · rename_i hd
      -- d becomes the best
      have := ih (pre ++ [d]) d pre.length (by simp) (by simp)
        (by
          intro k x hk
          rcases Nat.lt_or_ge k pre.length with hk' | hk'
          · rw [List.getElem?_append_left hk'] at hk
            have h1 := hmin k x hk
            cases hx : lt x d with
            | false => rfl
            | true => rw [hlt.trans x d best hx hd] at h1; cases h1
          · rw [List.getElem?_append_right hk'] at hk
            have : k - pre.length = 0 := by
              rcases Nat.eq_zero_or_pos (k - pre.length) with h0 | h0
              · exact h0
              · have : ([d] : List D)[k - pre.length]? = none := by
                  apply List.getElem?_eq_none; simp; omega
                rw [this] at hk; cases hk
            rw [this] at hk; simp at hk; subst hk
            exact hlt.irrefl _)
        (by
          intro k x hk hx
          rw [List.getElem?_append_left hk] at hx
          rcases Nat.lt_or_ge k besti with h1 | h1
          · exact hlt.trans _ _ _ hd (hfirst k x h1 hx)
          · have h2 := hmin k x hx
            rcases hlt.negtrans d best x hd with h | h
            · exact h
            · rw [h2] at h; cases h)
      rw [hlen] at this
      rw [happ]; exact this
    · rename_i hd
      have hd' : lt d best = false := by cases h : lt d best <;> simp_all
      have := ih (pre ++ [d]) best besti (by simp; omega)
        (by rw [List.getElem?_append_left hb]; exact hbest)
        (by
          intro k x hk
          rcases Nat.lt_or_ge k pre.length with hk' | hk'
          · rw [List.getElem?_append_left hk'] at hk; exact hmin k x hk
          · rw [List.getElem?_append_right hk'] at hk
            rcases Nat.eq_zero_or_pos (k - pre.length) with h0 | h0
            · rw [h0] at hk; simp at hk; subst hk; exact hd'
            · have : ([d] : List D)[k - pre.length]? = none := by
                apply List.getElem?_eq_none; simp; omega
              rw [this] at hk; cases hk)
        (by
          intro k x hk hx
          have : k < pre.length := by omega
          rw [List.getElem?_append_left this] at hx
          exact hfirst k x hk hx)
      rw [hlen] at this
      rw [happ]; exact this

/-- `argmin` returns the first position holding a minimum -/
theorem argmin_spec (hlt : StrictWeak lt) (ds : List D) (hne : ds ≠ []) :
    ∃ dj, ds[argmin lt ds]? = some dj ∧
      (∀ (k : Nat) (d : D), ds[k]? = some d → lt d dj = false) ∧
      (∀ (k : Nat) (d : D), k < argmin lt ds → ds[k]? = some d → lt dj d = true) := by
  cases ds with
  | nil => exact absurd rfl hne
  | cons d r =>
    have := argminFrom_spec lt hlt [d] r d 0 (by simp) (by simp)
      (by
        intro k x hk
        cases k with
        | zero => simp at hk; subst hk; exact hlt.irrefl _
        | succ k => simp at hk)
      (by intro k x hk; omega)
    simpa [argmin] using this

end argmin

/-! ### set_time / set_step select a nearest result -/

section nearest
variable {T : Type} (lt : T → T → Bool) (dist : T → T → T)

/-- the facts about the number type that the nearest-selection argument uses -/
structure NearestOrder : Prop where
  sw : StrictWeak lt
  low : ∀ v0 vk t, lt t v0 = true → lt vk v0 = false → lt (dist vk t) (dist v0 t) = false
  high : ∀ vl vk t, lt vl t = true → lt vl vk = false → lt (dist vk t) (dist vl t) = false

theorem getLast?_eq_getElem? (l : List T) : l.getLast? = l[l.length - 1]? := by
  cases l with
  | nil => rfl
  | cons a r => simp [List.getLast?_eq_getElem?]

theorem head?_eq_getElem? (l : List T) : l.head? = l[0]? := by cases l <;> rfl

/-- the index chosen by `set_time(t)` (normalised when it is -1) holds a value at minimal distance from `t`,
    for values in non-decreasing order -/
theorem nearestIndex_spec (ho : NearestOrder lt dist) (vals : List T) (t : T) (i : Int)
    (hsorted : vals.Pairwise (fun a b => lt b a = false))
    (h : nearestIndex lt dist vals t = some i) :
    ∃ vj, vals[(if i < 0 then i + (vals.length : Int) else i).toNat]? = some vj ∧ -(vals.length : Int) ≤ i ∧ i < vals.length ∧
      ∀ (k : Nat) (vk : T), vals[k]? = some vk → lt (dist vk t) (dist vj t) = false := by
  unfold nearestIndex at h
  split at h
  · rename_i v0 vl hhead hvl
    have h0 : vals[0]? = some v0 := by rw [← head?_eq_getElem?]; exact hhead
    have hl : vals[vals.length - 1]? = some vl := by rw [← getLast?_eq_getElem?]; exact hvl
    have hpos : 0 < vals.length := by
      rcases Nat.eq_zero_or_pos vals.length with h1 | h1
      · rw [List.getElem?_eq_none (by omega)] at h0; cases h0
      · exact h1
    have hget : ∀ (k : Nat) (vk : T), vals[k]? = some vk → ∃ hk : k < vals.length, vals[k] = vk := by
      intro k vk hk
      rcases Nat.lt_or_ge k vals.length with h1 | h1
      · refine ⟨h1, ?_⟩
        rw [List.getElem?_eq_getElem h1] at hk; injection hk
      · rw [List.getElem?_eq_none h1] at hk; cases hk
    obtain ⟨_, e0⟩ := hget 0 v0 h0
    obtain ⟨_, el⟩ := hget _ vl hl
    split at h
    · -- below the first value
      rename_i hlow
      injection h with h; subst h
      refine ⟨v0, by simpa using h0, by omega, by omega, ?_⟩
      intro k vk hk
      apply ho.low _ _ _ hlow
      obtain ⟨hk', ek⟩ := hget k vk hk
      cases k with
      | zero => rw [h0] at hk; injection hk with hk; subst hk; exact ho.sw.irrefl _
      | succ k =>
        have := List.pairwise_iff_getElem.mp hsorted 0 (k + 1) hpos hk' (by omega)
        rw [e0, ek] at this; exact this
    · split at h
      · -- above the last value
        rename_i hhigh
        injection h with h; subst h
        refine ⟨vl, ?_, by omega, by omega, ?_⟩
        · have : ((if (-1 : Int) < 0 then (-1 : Int) + (vals.length : Int) else -1)).toNat = vals.length - 1 := by
            simp; omega
          rw [this]; exact hl
        · intro k vk hk
          apply ho.high _ _ _ hhigh
          obtain ⟨hk', ek⟩ := hget k vk hk
          rcases Nat.lt_or_ge k (vals.length - 1) with h1 | h1
          · have := List.pairwise_iff_getElem.mp hsorted k (vals.length - 1) hk' (by omega) h1
            rw [ek, el] at this; exact this
          · have : k = vals.length - 1 := by omega
            subst this; rw [hl] at hk; injection hk with hk; subst hk; exact ho.sw.irrefl _
      · -- argmin of the distances
        injection h with h; subst h
        have hne : vals.map (fun v => dist v t) ≠ [] := by
          intro hc
          have : (vals.map (fun v => dist v t)).length = 0 := by rw [hc]; rfl
          rw [List.length_map] at this; omega
        obtain ⟨dj, hdj, hmin, _⟩ := argmin_spec lt ho.sw _ hne
        have hj : argmin lt (vals.map fun v => dist v t) < vals.length := by
          rcases Nat.lt_or_ge (argmin lt (vals.map fun v => dist v t)) vals.length with h1 | h1
          · exact h1
          · rw [List.getElem?_eq_none (by simpa using h1)] at hdj; cases hdj
        refine ⟨vals[argmin lt (vals.map fun v => dist v t)], ?_, by omega, by omega, ?_⟩
        · have : ((if ((argmin lt (vals.map fun v => dist v t) : Nat) : Int) < 0 then
                ((argmin lt (vals.map fun v => dist v t) : Nat) : Int) + (vals.length : Int)
              else ((argmin lt (vals.map fun v => dist v t) : Nat) : Int))).toNat
              = argmin lt (vals.map fun v => dist v t) := by split <;> omega
          rw [this]; exact List.getElem?_eq_getElem hj
        · intro k vk hk
          have hdj' : dj = dist (vals[argmin lt (vals.map fun v => dist v t)]) t := by
            rw [List.getElem?_map, List.getElem?_eq_getElem hj] at hdj; simp at hdj; exact hdj.symm
          rw [← hdj']
          apply hmin k
          rw [List.getElem?_map, hk]; rfl
  · cases h

end nearest

def distRat (a b : Rat) : Rat := if a < b then b - a else a - b

theorem nearestOrder_int : NearestOrder (fun (a b : Int) => decide (a < b)) distInt where
  sw := { irrefl := by intro a; simp, trans := by intro a b c; simp; omega, negtrans := by intro a b x; simp; omega }
  low := by
    intro v0 vk t h1 h2
    have h1' : t < v0 := of_decide_eq_true h1
    have h2' : ¬ vk < v0 := of_decide_eq_false h2
    apply decide_eq_false
    unfold distInt
    split <;> (try split) <;> omega
  high := by
    intro vl vk t h1 h2
    have h1' : vl < t := of_decide_eq_true h1
    have h2' : ¬ vl < vk := of_decide_eq_false h2
    apply decide_eq_false
    unfold distInt
    split <;> (try split) <;> omega

theorem nearestOrder_rat : NearestOrder (fun (a b : Rat) => decide (a < b)) distRat where
  sw := { irrefl := by intro a; simp, trans := by intro a b c; simp; grind, negtrans := by intro a b x; simp; grind }
  low := by intro v0 vk t; simp [distRat]; grind
  high := by intro vl vk t; simp [distRat]; grind

end Proofs.Nav
