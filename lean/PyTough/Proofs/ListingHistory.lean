/-
  Lemmas about the history model (Model/ListingHistory.lean).  Core Lean only.
-/
import PyTough.Model.ListingHistory
namespace Proofs.History
open Py Model Model.Listing

/-- line number `k` of a table whose lines (from its first results line on) are `L`; beyond the end of the
    file `readline()` returns `''` -/
def lineAt (L : List Str) (k : Nat) : Str := L[k]?.getD []

/-- the value history() must append for one selected entry: column `col` of line `li`, negated for a reversed key -/
def cellOf (readVals : Str → Except Exc (List FVal)) (colOf : Str → Option Nat) (L : List Str) (e : Sel) : Except Exc (Nat × FVal) :=
  match pickCell readVals colOf (lineAt L e.1.toNat) e.2.1 e.2.2.1 with
  | .error x => .error x
  | .ok v => .ok (e.2.2.2, v)

/-- selected line indices are non-negative and non-decreasing, starting at or after `from` -/
def Ascending : Int → List Sel → Prop
  | _, [] => True
  | lo, e :: r => lo ≤ e.1 ∧ Ascending e.1 r

theorem headD_drop (L : List Str) (k : Nat) : (L.drop k).headD [] = lineAt L k := by
  unfold lineAt
  cases h : L.drop k with
  | nil =>
    have : L.length ≤ k := List.drop_eq_nil_iff.mp h
    rw [List.getElem?_eq_none this]; rfl
  | cons a r =>
    have : L[k]? = some a := by
      have := List.getElem?_drop (xs := L) (i := k) (j := 0)
      rw [h] at this; simpa using this.symm
    rw [this]; rfl

theorem tail_drop (L : List Str) (k : Nat) : (L.drop k).tail = L.drop (k + 1) := by
  rw [List.tail_drop]

/-- **The sequential read of history() returns the selected lines.**
    Invariant: `line` is line `index` of the table and `rest` are the lines after it.  For entries in ascending
    order of line index the loop returns, entry by entry, the cell of that line (`cellOf`), and fails exactly
    when one of those cells cannot be read. -/
theorem scanSel_eq (readVals : Str → Except Exc (List FVal)) (colOf : Str → Option Nat) (L : List Str)
    (ts : List Sel) (index : Nat) (line : Str) (rest : List Str)
    (hline : line = lineAt L index) (hrest : rest = L.drop (index + 1))
    (hasc : Ascending index ts) :
    (scanSel readVals colOf ts index line rest).map (·.1) = ts.mapM (cellOf readVals colOf L) := by
  induction ts generalizing index line rest with
  | nil => rfl
  | cons e r ih =>
    obtain ⟨li, col, rev, si⟩ := e
    obtain ⟨hlo, hr⟩ := hasc
    simp only at hlo hr
    have hli : (li.toNat : Int) = li := by omega
    -- the line the loop looks at is line `li`
    have hstep : (if li > (index : Int) then
          (((rest.drop (li - (index : Int) - 1).toNat).headD [] : Str), (rest.drop (li - (index : Int) - 1).toNat).tail)
        else (line, rest)) = (lineAt L li.toNat, L.drop (li.toNat + 1)) := by
      split
      · rename_i hgt
        have e1 : (li - (index : Int) - 1).toNat + (index + 1) = li.toNat := by omega
        have e2 : (index + 1) + (li - (index : Int) - 1).toNat = li.toNat := by omega
        rw [hrest, List.drop_drop]
        first
          | rw [e1, headD_drop, tail_drop]
          | rw [e2, headD_drop, tail_drop]
      · rename_i hle
        have : li.toNat = index := by omega
        rw [this, hline, hrest]
    have ih' := ih li.toNat (lineAt L li.toNat) (L.drop (li.toNat + 1)) rfl rfl (by rw [hli]; exact hr)
    rw [hli] at ih'
    simp only [scanSel, List.mapM_cons, cellOf, hstep]
    cases hp : pickCell readVals colOf (lineAt L li.toNat) col rev with
    | error x => rfl
    | ok v =>
      simp only [bind, Except.bind, pure, Except.pure]
      rw [← ih']
      cases hs : scanSel readVals colOf r li (lineAt L li.toNat) (L.drop (li.toNat + 1)) with
      | error x => rfl
      | ok q => rfl

/-! ### `tselect.sort()` -/

theorem insertSel_perm (e : Sel) (l : List Sel) : (insertSel e l).Perm (e :: l) := by
  induction l with
  | nil => exact List.Perm.refl _
  | cons x r ih =>
    unfold insertSel
    split
    · exact List.Perm.refl _
    · exact (List.Perm.cons x ih).trans (List.Perm.swap e x r)

theorem sortSel_perm (l : List Sel) : (sortSel l).Perm l := by
  induction l with
  | nil => exact List.Perm.refl _
  | cons x r ih =>
    have : sortSel (x :: r) = insertSel x (sortSel r) := rfl
    rw [this]
    exact (insertSel_perm x _).trans (List.Perm.cons x ih)

theorem selLe_fst {a b : Sel} (h : selLe a b = true) : a.1 ≤ b.1 := by
  unfold selLe at h
  split at h
  · omega
  · split at h
    · cases h
    · omega

theorem selLe_total_fst {a b : Sel} (h : selLe a b = false) : b.1 ≤ a.1 := by
  unfold selLe at h
  split at h
  · cases h
  · omega

theorem ascending_mono {lo lo' : Int} {l : List Sel} (h : Ascending lo l) (hle : lo' ≤ lo) : Ascending lo' l := by
  cases l with
  | nil => trivial
  | cons e r => exact ⟨by have := h.1; omega, h.2⟩

theorem insertSel_ascending (e : Sel) (l : List Sel) (lo : Int) (hl : Ascending lo l) (he : lo ≤ e.1) :
    Ascending lo (insertSel e l) := by
  induction l generalizing lo with
  | nil => exact ⟨he, trivial⟩
  | cons x r ih =>
    unfold insertSel
    split
    · rename_i hle
      exact ⟨he, selLe_fst hle, hl.2⟩
    · rename_i hnle
      have hx : selLe e x = false := by cases h : selLe e x <;> simp_all
      exact ⟨hl.1, ih x.1 hl.2 (selLe_total_fst hx)⟩

theorem sortSel_ascending (l : List Sel) (lo : Int) (h : ∀ e ∈ l, lo ≤ e.1) : Ascending lo (sortSel l) := by
  induction l with
  | nil => trivial
  | cons x r ih =>
    have : sortSel (x :: r) = insertSel x (sortSel r) := rfl
    rw [this]
    exact insertSel_ascending x _ lo (ih (fun e he => h e (List.mem_cons_of_mem _ he))) (h x List.mem_cons_self)

end Proofs.History
