/-
  The executable `checkInv` (what the driver prints as `I=` for every explored state) is sound
  and complete for `Inv`.
-/
import PyTough.Proofs.GridFrame
namespace Proofs.Grid
open Py Model Model.Grid Model.Grid.World

theorem mem_of_dget {κ α : Type} [DecidableEq κ] {d : Dict κ α} {k : κ} {v : α} (h : dget d k = some v) : (k, v) ∈ d := by
  induction d with
  | nil => cases h
  | cons p r ih =>
    obtain ⟨a, b⟩ := p
    unfold dget at h
    split at h
    · rename_i e; cases h; subst e; exact List.mem_cons_self
    · exact List.mem_cons_of_mem _ (ih h)

theorem checkInv_iff (w : World) : checkInv w = true ↔ Grid.Inv w := by
  constructor
  · intro h
    simp only [checkInv, Bool.and_eq_true, List.all_eq_true, decide_eq_true_eq, Bool.or_eq_true, bne_iff_ne, ne_eq,
      beq_iff_eq, List.mem_map, List.mem_filter] at h
    obtain ⟨⟨⟨⟨⟨⟨⟨⟨⟨⟨⟨⟨⟨⟨⟨c1, c2⟩, c3⟩, c4⟩, c5⟩, c6⟩, c7⟩, c8⟩, c9⟩, c10⟩, c11⟩, c12⟩, c13⟩, c14⟩, c15⟩, c16⟩ := h
    refine ⟨c1, c2, c3, c4, ?_, c8, c5, ?_, c10, c11, c6, ?_, c13, ?_, c15, ?_⟩
    · intro n r hd
      rcases c7 (n, r) (mem_of_dget hd) with h' | h'
      · exact absurd hd h'
      · exact h'
    · intro n b hd
      rcases c9 (n, b) (mem_of_dget hd) with h' | h'
      · exact absurd hd h'
      · exact h'
    · intro k c hd
      rcases c12 (k, c) (mem_of_dget hd) with h' | h'
      · exact absurd hd h'
      · exact h'
    · intro c hc; have := c14 c hc; exact ⟨this.1.1, this.1.2, this.2⟩
    · intro b hb k
      have := c16 b hb
      constructor
      · intro hk
        obtain ⟨c, ⟨hc, hm⟩, e⟩ := this.1 k hk
        exact ⟨c, hc, e, hm⟩
      · rintro ⟨c, hc, e, hm⟩
        exact this.2 k ⟨c, ⟨hc, hm⟩, e⟩
  · intro h
    simp only [checkInv, Bool.and_eq_true, List.all_eq_true, decide_eq_true_eq, Bool.or_eq_true, bne_iff_ne, ne_eq,
      beq_iff_eq, List.mem_map, List.mem_filter]
    refine ⟨⟨⟨⟨⟨⟨⟨⟨⟨⟨⟨⟨⟨⟨⟨h.rl_lt, h.bl_lt⟩, h.cl_lt⟩, h.rl_nodup⟩, h.bl_nodup⟩, h.cl_nodup⟩, ?_⟩, h.rd_complete⟩, ?_⟩, h.bd_complete⟩, h.b_rock⟩, ?_⟩, h.cd_complete⟩, ?_⟩, h.conn_nodup⟩, ?_⟩
    · intro p _
      by_cases e : dget w.rocktype p.1 = some p.2
      · exact Or.inr (h.rd_sound _ _ e)
      · exact Or.inl e
    · intro p _
      by_cases e : dget w.block p.1 = some p.2
      · exact Or.inr (h.bd_sound _ _ e)
      · exact Or.inl e
    · intro p _
      by_cases e : dget w.connection p.1 = some p.2
      · exact Or.inr (h.cd_sound _ _ e)
      · exact Or.inl e
    · intro c hc; have := h.c_ends c hc; exact ⟨⟨this.1, this.2.1⟩, this.2.2⟩
    · intro b hb
      refine ⟨?_, ?_⟩
      · intro k hk
        obtain ⟨c, hc, e, hm⟩ := (h.conn_iff b hb k).mp hk
        exact ⟨c, ⟨hc, hm⟩, e⟩
      · rintro k ⟨c, ⟨hc, hm⟩, e⟩
        exact (h.conn_iff b hb _).mpr ⟨c, hc, e, hm⟩

end Proofs.Grid
