/-
  C01 proofs, layer 3i: MESHMAKER, part 1 — counted lists and RZ2D (RADII / EQUID / LOGAR / LAYER).
-/
import PyTough.Proofs.T2DataMore
set_option linter.unusedSimpArgs false
namespace Proofs.T2
open Py Model Model.T2 Proofs Proofs.Incon
open Gen.Sections (Rec)

/-! ### an integer survives its own I-field -/

theorem single_write {r : Rec} {f : FieldSpec} (hfs : r.fs = [f]) {v : Val} {l : Str}
    (h : writeValuesLine r [v] = .ok l) : ∃ s, writeField f v = .ok s := by
  rw [writeValuesLine_eq] at h
  obtain ⟨rec, hw, _⟩ := writeLine_ok h
  obtain ⟨strs, h1, _⟩ := (writeValues_ok_iff _ _ _).mp hw
  rw [hfs] at h1
  simp only [List.zip_cons_cons] at h1
  cases h1 with
  | cons hab _ => exact ⟨_, hab⟩

theorem int_field_keep {f : FieldSpec} (ht : f.typ = 'd') {i : Int} {s : Str} (h : writeField f (.int i) = .ok s) :
    canonV f (.int i) = .int i := by
  have := Props.C02.roundtrip_int .default ht i h
  unfold canonV reparse
  rw [h]; simp only; rw [ht, this]; rfl

theorem count_line {r : Rec} {f : FieldSpec} (hfs : r.fs = [f]) (ht : f.typ = 'd') (n : Nat) {l : Str}
    (h : writeValuesLine r [.int (Int.ofNat n)] = .ok l) :
    readValues .default r l = .ok [.int (Int.ofNat n)] := by
  obtain ⟨s, hs⟩ := single_write hfs h
  have hvalid : ∀ g ∈ r.fs, ValidTyp g.typ := by rw [hfs]; intro g hg; simp at hg; subst hg; unfold ValidTyp; rw [ht]; simp
  have hnum : ∀ g ∈ r.fs.drop [Val.int (Int.ofNat n)].length, NumericTyp g.typ := by rw [hfs]; intro g hg; simp at hg
  have := readValues_written r _ hvalid hnum h [] (by intro c hc; cases hc)
  rw [List.append_nil, hfs] at this
  simp only [List.zip_cons_cons, List.zip_nil_right, List.map_cons, List.map_nil, List.length_cons, List.length_nil,
    List.drop_succ_cons, List.drop_nil, List.append_nil, int_field_keep ht hs] at this
  exact this

theorem ceil8 (n : Nat) : (n + 8 - 1) / 8 = (n + 7) / 8 := by
  have : n + 8 - 1 = n + 7 := by omega
  rw [this]

/-- a counted list (`write_values([n]); lines of eight`) read back: the count line gives `n`, and the value lines
    give the values (each to the digits of its field) followed by the `None` padding of the last line -/
theorem counted_roundtrip {T : Tabs} {n1 n2 : Str} {r1 r2 : Rec} {fc f0 : FieldSpec}
    (h1 : T.get n1 = .ok r1) (h2 : T.get n2 = .ok r2) (hfs : r1.fs = [fc]) (hc : fc.typ = 'd') (hr2 : ChunkRec r2 8 f0)
    (xs : List Val) {ls : List Str} (hw : writeCounted T n1 n2 xs = .ok ls) :
    ∃ l1 cl, ls = l1 :: cl ∧ readValues .default r1 l1 = .ok [.int (Int.ofNat xs.length)] ∧
      ∀ rest, readChunks .default r2 ((xs.length + 8 - 1) / 8) (cl ++ rest) =
        .ok (xs.map (canonV f0) ++ List.replicate (((xs.length + 8 - 1) / 8) * 8 - xs.length) Val.none, rest) := by
  unfold writeCounted at hw
  simp only [h1, h2, bind, Except.bind, pure, Except.pure] at hw
  cases hl1 : writeValuesLine r1 [.int (Int.ofNat xs.length)] with
  | error e =>
    have : writeValuesLine r1 [Val.int ↑xs.length] = .error e := hl1
    rw [this] at hw; cases hw
  | ok l1 =>
    have hl1' : writeValuesLine r1 [Val.int ↑xs.length] = .ok l1 := hl1
    rw [hl1'] at hw
    simp only at hw
    rw [← ceil8] at hw
    cases hch : writeChunks r2 8 xs xs.length ((xs.length + 8 - 1) / 8) with
    | error e => rw [hch] at hw; cases hw
    | ok cl =>
      rw [hch] at hw
      cases hw
      exact ⟨l1, cl, rfl, count_line hfs hc xs.length hl1, fun rest => chunked_roundtrip hr2 (by decide) xs hch rest⟩

/-! ### RZ2D -/

structure RZShape (T : Tabs) (rr1 rr2 re rl rl1 rl2 : Rec) (fcr f0r fcl f0l : FieldSpec) : Prop where
  tr1 : T.get c!"radii1" = .ok rr1
  tr2 : T.get c!"radii2" = .ok rr2
  te : T.get c!"equid" = .ok re
  tl : T.get c!"logar" = .ok rl
  tl1 : T.get c!"layer1" = .ok rl1
  tl2 : T.get c!"layer2" = .ok rl2
  fr1 : rr1.fs = [fcr]
  cr1 : fcr.typ = 'd'
  cr2 : ChunkRec rr2 8 f0r
  we : RecWF re
  wl : RecWF rl
  fl1 : rl1.fs = [fcl]
  cl1 : fcl.typ = 'd'
  cl2 : ChunkRec rl2 8 f0l

/-- what a sub-section of RZ2D reads back as -/
def canonRZ (re rl : Rec) (f0r f0l : FieldSpec) : RZSub → RZSub
  | .radii xs => .radii (xs.map (canonV f0r))
  | .equid d => .equid (absorb re.names (canonVals re (lineVals re d)) [])
  | .logar d => .logar (absorb rl.names (canonVals rl (lineVals rl d)) [])
  | .layer xs => .layer (xs.map (canonV f0l))

/-- a sub-section before LAYER: radii that read back as values; EQUID / LOGAR with at least one entry that reads back -/
def GoodRZSub (re rl : Rec) (f0r : FieldSpec) : RZSub → Prop
  | .radii xs => ∀ x ∈ xs, canonV f0r x ≠ Val.none
  | .equid d => absorb re.names (canonVals re (lineVals re d)) [] ≠ []
  | .logar d => absorb rl.names (canonVals rl (lineVals rl d)) [] ≠ []
  | .layer _ => False

/-- an RZ2D section the writer and reader agree on: sub-sections RADII / EQUID / LOGAR and one closing LAYER -/
def GoodRZ (re rl : Rec) (f0r : FieldSpec) : List RZSub → Prop
  | [] => False
  | [.layer _] => True
  | s :: rest => GoodRZSub re rl f0r s ∧ GoodRZ re rl f0r rest

theorem keyword_of_nl (kw : Str) (h : kw.length = 5) (hs : strip kw = kw) : keywordOf (nl kw) = kw := by
  unfold keywordOf nl
  have := slice_prefix kw ['\n']
  rw [h] at this
  rw [this, hs]

theorem take_nat (vs : List Val) (n : Nat) :
    (if (Int.ofNat n) ≥ 0 then vs.take (Int.ofNat n).toNat else vs.take (vs.length - (Int.ofNat n).natAbs)) = vs.take n := by
  have : (Int.ofNat n) ≥ 0 := Int.natCast_nonneg n
  simp only [this, if_true]
  rfl

/-- the sub-sections of RZ2D read back (the lines after the `RZ2D` line) -/
theorem rz2d_subs {T : Tabs} {rr1 rr2 re rl rl1 rl2 : Rec} {fcr f0r fcl f0l : FieldSpec}
    (hs : RZShape T rr1 rr2 re rl rl1 rl2 fcr f0r fcl f0l) :
    ∀ (subs : List RZSub) (lss : List (List Str)), subs.mapM (writeRZSub T) = .ok lss → GoodRZ re rl f0r subs →
      ∀ (fuel : Nat), subs.length ≤ fuel → ∀ rest,
        readRZ2D .default T fuel (lss.flatten ++ rest) = .ok (subs.map (canonRZ re rl f0r f0l), rest) := by
  intro subs
  induction subs with
  | nil => intro lss _ hg; exact absurd hg (by simp [GoodRZ])
  | cons s subs ih =>
    intro lss hm hg fuel hf rest
    cases fuel with
    | zero => simp at hf
    | succ fuel =>
      simp only [List.mapM_cons, bind, Except.bind, pure, Except.pure] at hm
      cases hws : writeRZSub T s with
      | error e => rw [hws] at hm; cases hm
      | ok ls =>
        rw [hws] at hm
        cases hrest : subs.mapM (writeRZSub T) with
        | error e => rw [hrest] at hm; cases hm
        | ok lss' =>
          rw [hrest] at hm
          cases hm
          simp only [List.flatten_cons, List.append_assoc, List.map_cons]
          cases s with
          | layer xs =>
            -- LAYER closes the section: it must be the last sub-section
            have hlast : subs = [] := by
              cases subs with
              | nil => rfl
              | cons a as => simp only [GoodRZ, GoodRZSub] at hg; exact absurd hg.1 id
            subst hlast
            simp only [List.mapM_nil, pure, Except.pure] at hrest
            cases hrest
            unfold writeRZSub at hws
            simp only [bind, Except.bind, pure, Except.pure] at hws
            cases hwc : writeCounted T c!"layer1" c!"layer2" xs with
            | error e => rw [hwc] at hws; cases hws
            | ok cls =>
              rw [hwc] at hws
              cases hws
              obtain ⟨l1, cl, rfl, hcount, hch⟩ := counted_roundtrip hs.tl1 hs.tl2 hs.fl1 hs.cl1 hs.cl2 xs hwc
              simp only [List.cons_append, List.flatten_nil, List.nil_append, List.map_nil, readRZ2D, readline,
                keyword_of_nl c!"LAYER" rfl (by decide), hs.tl1, hs.tl2, bind, Except.bind, pure, Except.pure, hcount,
                List.head?_cons, countOf, ceilDiv_nat, hch rest]
              simp only [show (c!"LAYER" == c!"RADII") = false by decide, show (c!"LAYER" == c!"EQUID") = false by decide,
                show (c!"LAYER" == c!"LOGAR") = false by decide, show (c!"LAYER" == c!"LAYER") = true by decide,
                Bool.false_eq_true, if_false, if_true, take_nat]
              rw [List.take_append_of_le_length (by simp), List.take_of_length_le (by simp)]
              rfl
          | radii xs =>
            have hg' : GoodRZSub re rl f0r (.radii xs) ∧ GoodRZ re rl f0r subs := by
              cases subs with
              | nil => exact absurd hg (by simp [GoodRZ])
              | cons a as => exact hg
            unfold writeRZSub at hws
            simp only [bind, Except.bind, pure, Except.pure] at hws
            cases hwc : writeCounted T c!"radii1" c!"radii2" xs with
            | error e => rw [hwc] at hws; cases hws
            | ok cls =>
              rw [hwc] at hws
              cases hws
              obtain ⟨l1, cl, rfl, hcount, hch⟩ := counted_roundtrip hs.tr1 hs.tr2 hs.fr1 hs.cr1 hs.cr2 xs hwc
              have hih := ih lss' hrest hg'.2 fuel (by simpa using hf) rest
              simp only [List.cons_append, List.append_assoc, readRZ2D, readline, keyword_of_nl c!"RADII" rfl (by decide),
                hs.tr1, hs.tr2, bind, Except.bind, pure, Except.pure, hcount, List.head?_cons, countOf, ceilDiv_nat,
                hch (lss'.flatten ++ rest), hih]
              simp only [show (c!"RADII" == c!"RADII") = true by decide, if_true, canonRZ]
              rw [nonNone_append_nones, nonNone_id]
              intro v hv
              obtain ⟨x, hx, rfl⟩ := List.mem_map.mp hv
              exact hg'.1 x hx
          | equid d =>
            have hg' : GoodRZSub re rl f0r (.equid d) ∧ GoodRZ re rl f0r subs := by
              cases subs with
              | nil => exact absurd hg (by simp [GoodRZ])
              | cons a as => exact hg
            unfold writeRZSub at hws
            simp only [hs.te, bind, Except.bind, pure, Except.pure] at hws
            cases hl : writeValueLine re d with
            | error e => rw [hl] at hws; cases hws
            | ok l =>
              rw [hl] at hws
              cases hws
              have e := valueLine_roundtrip hs.we d [] hl [] (by intro c hc; cases hc)
              rw [List.append_nil] at e
              have hih := ih lss' hrest hg'.2 fuel (by simpa using hf) rest
              have hne : (absorb re.names (canonVals re (lineVals re d)) []).isEmpty = false := by
                cases h : absorb re.names (canonVals re (lineVals re d)) [] with
                | nil => exact absurd h hg'.1
                | cons _ _ => rfl
              simp only [List.cons_append, List.nil_append, readRZ2D, readline, keyword_of_nl c!"EQUID" rfl (by decide),
                hs.te, bind, Except.bind, pure, Except.pure, e, hih, hne]
              simp only [show (c!"EQUID" == c!"RADII") = false by decide, show (c!"EQUID" == c!"EQUID") = true by decide,
                Bool.false_eq_true, if_false, if_true, canonRZ]
          | logar d =>
            have hg' : GoodRZSub re rl f0r (.logar d) ∧ GoodRZ re rl f0r subs := by
              cases subs with
              | nil => exact absurd hg (by simp [GoodRZ])
              | cons a as => exact hg
            unfold writeRZSub at hws
            simp only [hs.tl, bind, Except.bind, pure, Except.pure] at hws
            cases hl : writeValueLine rl d with
            | error e => rw [hl] at hws; cases hws
            | ok l =>
              rw [hl] at hws
              cases hws
              have e := valueLine_roundtrip hs.wl d [] hl [] (by intro c hc; cases hc)
              rw [List.append_nil] at e
              have hih := ih lss' hrest hg'.2 fuel (by simpa using hf) rest
              have hne : (absorb rl.names (canonVals rl (lineVals rl d)) []).isEmpty = false := by
                cases h : absorb rl.names (canonVals rl (lineVals rl d)) [] with
                | nil => exact absurd h hg'.1
                | cons _ _ => rfl
              simp only [List.cons_append, List.nil_append, readRZ2D, readline, keyword_of_nl c!"LOGAR" rfl (by decide),
                hs.tl, bind, Except.bind, pure, Except.pure, e, hih, hne]
              simp only [show (c!"LOGAR" == c!"RADII") = false by decide, show (c!"LOGAR" == c!"EQUID") = false by decide,
                show (c!"LOGAR" == c!"LOGAR") = true by decide, Bool.false_eq_true, if_false, if_true, canonRZ]

end Proofs.T2
