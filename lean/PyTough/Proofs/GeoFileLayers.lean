/-
  C03 proofs, part 6: LAYERS and SURFA.
-/
import PyTough.Proofs.GeoFileColumns
namespace Proofs.GeoFile
open Py Model Model.GeoFile Proofs

/-! ### LAYERS -/

def layerItems (s : Rat) (l : GLayer) : List Item := [nameItem l.name, coordItem 2 s l.bottom, coordItem 2 s l.centre]

structure LayerOK (LL : Nat) (s : Rat) (l : GLayer) : Prop where
  name : NameShape LL l.name
  b : fitsC 2 s l.bottom = true
  c : fitsC 2 s l.centre = true

theorem layerItems_ok {LL : Nat} {s : Rat} {l : GLayer} (hLL : LL ≤ 3) (h : LayerOK LL s l) : ItemsOK (layerItems s l) :=
  itemsOK_cons (nameItem_ok hLL h.name) (itemsOK_cons (coordItem_ok h.b) (itemsOK_cons (coordItem_ok h.c) itemsOK_nil))

theorem layerLine_eq {LL : Nat} {s : Rat} {l : GLayer} (hLL : LL ≤ 3) (h : LayerOK LL s l) :
    layerLine SP s l = .ok (recText (layerItems s l) ++ ['\n']) :=
  lineOf_items (layerItems s l) (layerItems_ok hLL h)

theorem lookupLayer_none {ls : List GLayer} {name : Str} (h : name ∉ ls.map (·.name)) : lookupLayer ls name = none := by
  unfold lookupLayer
  rw [List.find?_eq_none]
  intro x hx
  simp only [decide_eq_true_eq]
  intro e
  exact h (List.mem_map.mpr ⟨x, hx, e⟩)

theorem ofFVal_coord (p : Nat) (x : Flt) :
    ofFVal (.fin x.isNeg (roundHalfEven (x.absNum * 10 ^ p) x.den) (-(p : Int))) = some (roundF p x) :=
  ofFVal_fin _ _ _

theorem fltOf_coord (p : Nat) (x : Flt) :
    fltOf (.flt (.fin x.isNeg (roundHalfEven (x.absNum * 10 ^ p) x.den) (-(p : Int)))) = .ok (roundF p x) :=
  fltOf_fin _ _ _

theorem layerStep_line {LL : Nat} {s : Rat} {l : GLayer} (hLL : LL ≤ 3) (h : LayerOK LL s l) (g : Geo)
    (hfresh : l.name ∉ g.layers.map (·.name)) (tail : Str) :
    layerStep SP LL s g (recText (layerItems s l) ++ tail)
      = .ok { g with layers := g.layers ++ [canonLayerAt s g.layers.getLast? l] } := by
  unfold layerStep
  have hp := parse_items .default (layerItems s l) (layerItems_ok hLL h) tail
  have : SP.layer = (layerItems s l).map (·.1) := rfl
  rw [this, hp]
  simp only [layerItems, coordItem, nameItem, List.map_cons, List.map_nil, strOf, fltOf_coord, ofFVal_coord, bind, Except.bind,
    pure, Except.pure, fixName_ljust hLL h.name, lookupLayer_none hfresh, Option.isNone_some, Option.isSome_none,
    Bool.false_eq_true, if_false]
  unfold canonLayerAt defaultCentre canonC
  by_cases ht : (roundF 2 (l.centre.div s)).truthy = true
  · simp only [ht, if_true]
  · simp only [ht, Bool.false_eq_true, if_false]

theorem getLast?_append_singleton {α : Type} (l : List α) (a : α) : (l ++ [a]).getLast? = some a := by
  simp

def layerTextLines (s : Rat) (ls : List GLayer) : List Str := ls.map fun l => recText (layerItems s l) ++ ['\n']

/-- the fold of the loop body -/
def layerAdd (s : Rat) (g : Geo) (l : GLayer) : Geo := { g with layers := g.layers ++ [canonLayerAt s g.layers.getLast? l] }

theorem foldl_layers (s : Rat) (ls : List GLayer) (g : Geo) :
    ls.foldl (layerAdd s) g = { g with layers := g.layers ++ canonLayersAux s g.layers.getLast? ls } := by
  induction ls generalizing g with
  | nil => simp [canonLayersAux]
  | cons l r ih =>
    rw [List.foldl_cons, ih]
    simp only [layerAdd, getLast?_append_singleton, canonLayersAux, List.append_assoc, List.singleton_append]

theorem canonLayersAux_names (s : Rat) : ∀ (ls : List GLayer) (above : Option GLayer),
    (canonLayersAux s above ls).map (·.name) = ls.map (·.name) := by
  intro ls
  induction ls with
  | nil => intro _; rfl
  | cons l r ih => intro above; simp only [canonLayersAux, List.map_cons, ih]; rfl

theorem canonLayersAux_length (s : Rat) : ∀ (ls : List GLayer) (above : Option GLayer),
    (canonLayersAux s above ls).length = ls.length := by
  intro ls above
  have := congrArg List.length (canonLayersAux_names s ls above)
  simpa using this

/-- what `set_default_surface` does to a column -/
def defaultize (ground : Flt) (nl : Int) (c : GColumn) : GColumn :=
  { c with surface := some ground, defaultSurface := true, numLayers := nl - 1 }

theorem layerTops_length (t : Flt) (ls : List GLayer) : (layerTops t ls).length = ls.length := by
  induction ls generalizing t with
  | nil => rfl
  | cons l r ih => simp [layerTops, ih]

theorem canonLayers_length (s : Rat) (ls : List GLayer) : (canonLayers s ls).length = ls.length := by
  unfold canonLayers
  cases h : canonLayersAux s none ls with
  | nil =>
    have := canonLayersAux_length s ls none
    rw [h] at this
    exact this
  | cons l0 r =>
    simp only [layerTops_length]
    rw [← h, canonLayersAux_length]

theorem readSection_layer {g : Geo} {L LL : Nat} {s : Rat} (env : Env g L LL s) (ls : List GLayer)
    (hg : g.layers = []) (hne : ls ≠ [])
    (hok : ∀ l ∈ ls, LayerOK LL s l) (hd : (ls.map (·.name)).Nodup) (tail : List Str) :
    ∃ ground, (canonLayers s ls).head? = some ground ∧
    readSection SP .layer g (layerTextLines s ls ++ ['\n'] :: tail)
      = .ok ({ g with layers := canonLayers s ls,
                      columns := g.columns.map (defaultize ground.bottom (canonLayers s ls).length) }, tail) := by
  cases hls : ls with
  | nil => exact absurd hls hne
  | cons l0 r =>
  rw [← hls]
  have haux : canonLayersAux s none ls = canonLayerAt s none l0 :: canonLayersAux s (some (canonLayerAt s none l0)) r := by
    rw [hls]; rfl
  have hcl : canonLayers s ls = layerTops (canonLayerAt s none l0).bottom (canonLayersAux s none ls) := by
    unfold canonLayers; rw [haux]
  refine ⟨{ canonLayerAt s none l0 with top := (canonLayerAt s none l0).bottom }, ?_, ?_⟩
  · rw [hcl, haux]; rfl
  unfold readSection
  simp only [env.cl, env.ll, env.sc, bind, Except.bind]
  have := simpleSection (layerStep SP LL s) (layerAdd s)
    (fun l => recText (layerItems s l)) ls g tail (by
      intro pre a post e
      have ha : LayerOK LL s a := hok a (by rw [e]; simp)
      refine ⟨nonblank_of_name ha.name _, fun extra => ?_⟩
      have hst : (pre.foldl (layerAdd s) g).layers.map (·.name) = pre.map (·.name) := by
        rw [foldl_layers, hg]
        simp only [List.nil_append, canonLayersAux_names]
      apply layerStep_line env.hLL ha
      rw [hst]
      rw [e, List.map_append, List.map_cons, List.nodup_append] at hd
      intro hc
      exact hd.2.2 _ hc _ (by simp) rfl)
  unfold layerTextLines
  rw [this, foldl_layers, hg]
  simp only [List.nil_append, List.getLast?_nil]
  unfold finishLayers
  simp only [haux]
  rw [hcl, haux]
  rfl

/-! ### SURFA -/

def surfItems (s : Rat) (name : Str) (z : Flt) : List Item := [nameItem name, coordItem 2 s z]

theorem surfaceStep_line {L : Nat} {s : Rat} {name : Str} {z : Flt} (hL : L ≤ 3) (hn : NameShape L name)
    (hz : fitsC 2 s z = true) (g : Geo) (hc : (lookupColumn g.columns name).isSome = true) (tail : Str) :
    surfaceStep SP L s g (recText (surfItems s name z) ++ tail) = .ok (setSurface g name (canonC 2 s z)) := by
  unfold surfaceStep
  have hok : ItemsOK (surfItems s name z) :=
    itemsOK_cons (nameItem_ok hL hn) (itemsOK_cons (coordItem_ok hz) itemsOK_nil)
  have hp := parse_items .default (surfItems s name z) hok tail
  have : SP.surface = (surfItems s name z).map (·.1) := rfl
  rw [this, hp]
  simp only [surfItems, coordItem, nameItem, List.map_cons, List.map_nil, strOf, fltOf_fin, bind, Except.bind,
    pure, Except.pure, fixName_ljust hL hn]
  cases hl : lookupColumn g.columns name with
  | none => rw [hl] at hc; cases hc
  | some c => rfl

theorem surfaceLine_eq {L : Nat} {s : Rat} {c : GColumn} {z : Flt} (hL : L ≤ 3) (hn : NameShape L c.name)
    (hs : c.surface = some z) (hz : fitsC 2 s z = true) :
    surfaceLine SP s c = .ok (recText (surfItems s c.name z) ++ ['\n']) := by
  unfold surfaceLine
  rw [hs]
  exact lineOf_items (surfItems s c.name z)
    (itemsOK_cons (nameItem_ok hL hn) (itemsOK_cons (coordItem_ok hz) itemsOK_nil))

/-- what `read_surface` does to the column named in a record -/
def surfUpd (layers : List GLayer) (z : Flt) (c : GColumn) : GColumn :=
  { c with surface := some z, defaultSurface := false, numLayers := columnNumLayers layers z }

def applySurf (layers : List GLayer) (items : List (Str × Flt)) (c : GColumn) : GColumn :=
  match items.lookup c.name with
  | some z => surfUpd layers z c
  | none => c

theorem setSurface_eq (g : Geo) (name : Str) (z : Flt) :
    setSurface g name z = { g with columns := g.columns.map fun c => if c.name = name then surfUpd g.layers z c else c } := rfl

theorem foldl_setSurface : ∀ (items : List (Str × Flt)) (g : Geo), (items.map (·.1)).Nodup →
    items.foldl (fun g nz => setSurface g nz.1 nz.2) g
      = { g with columns := g.columns.map (applySurf g.layers items) } := by
  intro items
  induction items with
  | nil =>
    intro g _
    have : g.columns.map (applySurf g.layers []) = g.columns := by
      have h2 : ∀ c ∈ g.columns, applySurf g.layers [] c = id c := fun c _ => rfl
      rw [List.map_congr_left h2, List.map_id]
    rw [List.foldl_nil, this]
  | cons nz r ih =>
    intro g hd
    rw [List.map_cons, List.nodup_cons] at hd
    rw [List.foldl_cons, ih _ hd.2, setSurface_eq]
    simp only [List.map_map]
    congr 1
    apply List.map_congr_left
    intro c _
    simp only [Function.comp, applySurf]
    by_cases hc : c.name = nz.1
    · rw [if_pos hc]
      have hl : List.lookup (surfUpd g.layers nz.2 c).name r = none := by
        rw [List.lookup_eq_none_iff]
        intro p hp
        have : (surfUpd g.layers nz.2 c).name = c.name := rfl
        rw [this, hc]
        simp only [bne_iff_ne, ne_eq]
        intro hpe
        exact hd.1 (List.mem_map.mpr ⟨p, hp, hpe.symm⟩)
      rw [hl]
      have : List.lookup c.name (nz :: r) = some nz.2 := by
        rw [List.lookup_cons]; simp [hc]
      rw [this]
    · rw [if_neg hc]
      have : List.lookup c.name (nz :: r) = List.lookup c.name r := by
        rw [List.lookup_cons]
        have : (c.name == nz.1) = false := by simpa using hc
        rw [this]
      rw [this]

def surfPairs (cs : List GColumn) : List (Str × Flt) :=
  cs.filterMap fun c => if c.defaultSurface then none else c.surface.map fun z => (c.name, z)

def canonPair (s : Rat) (nz : Str × Flt) : Str × Flt := (nz.1, canonC 2 s nz.2)

def surfTextLines (s : Rat) (cs : List GColumn) : List Str :=
  (surfPairs cs).map fun nz => recText (surfItems s nz.1 nz.2) ++ ['\n']

theorem lookupColumn_isSome {cs : List GColumn} {name : Str} (h : name ∈ cs.map (·.name)) :
    (lookupColumn cs name).isSome = true := by
  unfold lookupColumn
  rw [List.find?_isSome]
  obtain ⟨c, hc, he⟩ := List.mem_map.mp h
  exact ⟨c, hc, by simpa using he⟩

theorem mem_names_of_lookupColumn {cs : List GColumn} {name : Str} (h : (lookupColumn cs name).isSome = true) :
    name ∈ cs.map (·.name) := by
  unfold lookupColumn at h
  rw [List.find?_isSome] at h
  obtain ⟨c, hc, he⟩ := h
  exact List.mem_map.mpr ⟨c, hc, by simpa using he⟩

theorem setSurface_names (g : Geo) (name : Str) (z : Flt) :
    (setSurface g name z).columns.map (·.name) = g.columns.map (·.name) := by
  rw [setSurface_eq]
  simp only [List.map_map]
  apply List.map_congr_left
  intro c _
  simp only [Function.comp]
  split <;> rfl

theorem foldl_setSurface_names (s : Rat) (items : List (Str × Flt)) (g : Geo) :
    (items.foldl (fun g nz => setSurface g nz.1 (canonC 2 s nz.2)) g).columns.map (·.name) = g.columns.map (·.name) := by
  induction items generalizing g with
  | nil => rfl
  | cons a r ih => rw [List.foldl_cons, ih, setSurface_names]

theorem readSection_surfa {g : Geo} {L LL : Nat} {s : Rat} (env : Env g L LL s) (pairs : List (Str × Flt))
    (hok : ∀ nz ∈ pairs, NameShape L nz.1 ∧ fitsC 2 s nz.2 = true ∧ nz.1 ∈ g.columns.map (·.name))
    (hd : (pairs.map (·.1)).Nodup) (tail : List Str) :
    readSection SP .surfa g ((pairs.map fun nz => recText (surfItems s nz.1 nz.2) ++ ['\n']) ++ ['\n'] :: tail)
      = .ok ({ g with columns := g.columns.map (applySurf g.layers (pairs.map (canonPair s))) }, tail) := by
  unfold readSection
  simp only [env.cl, env.ll, env.sc, bind, Except.bind]
  have := simpleSection (surfaceStep SP L s) (fun g nz => setSurface g nz.1 (canonC 2 s nz.2))
    (fun nz => recText (surfItems s nz.1 nz.2)) pairs g tail (by
      intro pre a post e
      obtain ⟨h1, h2, h3⟩ := hok a (by rw [e]; simp)
      refine ⟨nonblank_of_name h1 _, fun extra => ?_⟩
      apply surfaceStep_line env.hL h1 h2
      apply lookupColumn_isSome
      rw [foldl_setSurface_names]; exact h3)
  rw [this]
  have e : pairs.foldl (fun g nz => setSurface g nz.1 (canonC 2 s nz.2)) g
      = (pairs.map (canonPair s)).foldl (fun g nz => setSurface g nz.1 nz.2) g := by
    rw [List.foldl_map]; rfl
  rw [e, foldl_setSurface]
  rw [List.map_map]
  exact hd

end Proofs.GeoFile
