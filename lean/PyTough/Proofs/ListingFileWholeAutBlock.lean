/-
  The loop of read_tables_AUTOUGH2 over the tables of one result block: for every table read_header_AUTOUGH2 (title
  line, the `OUTPUT DATA AFTER … TIME STEPS … SECONDS` line, one more line), then read_table_AUTOUGH2 or
  skip_table_AUTOUGH2, then next_table_AUTOUGH2 (one line: the keyword line of the next table).  Core Lean only.
-/
import PyTough.Proofs.ListingFileWholeT2
namespace Proofs.Whole
open Py Model Model.Listing Proofs.Listing

/-! ### read_header_AUTOUGH2 -/

/-- step and time that read_header_AUTOUGH2 takes from the line `… AFTER nnn TIME STEPS … ttt SECONDS`;
    `none` when the real code raises -/
def headerAVals (line : Str) : Option (Step × FVal) :=
  match fortranInt (sliceI line (findI line "AFTER".toList + 5) (findI line "TIME STEPS".toList)) with
  | .error _ => none
  | .ok step =>
    match fortranFloat (sliceI line (findI line "TIME STEPS".toList + 10) (findI line "SECONDS".toList)) with
    | .error _ => none
    | .ok time => some (fvalOfInt step, fvalOf time)

theorem readTitleA_run (s : Rd) (tl : Str) (r : List Str)
    (hti : bound s.fam "read_title" = "read_title_AUTOUGH2") (hrest : s.pos.rest = tl :: r) :
    readTitle s = .ok ((), { s with pos := ⟨s.pos.no + 1, r⟩, title := strip tl }) := by
  unfold readTitle
  simp only [bind, StateT.bind, get, getThe, MonadStateOf.get, StateT.get, Except.bind, pure, Except.pure, hti]
  rw [readline_cons s tl r hrest]
  rfl

theorem readHeaderAUTOUGH2_run (s : Rd) (tl hl l3 : Str) (r : List Str) (st : Step) (tm : FVal)
    (hti : bound s.fam "read_title" = "read_title_AUTOUGH2")
    (hrest : s.pos.rest = tl :: hl :: l3 :: r) (hv : headerAVals hl = some (st, tm)) :
    readHeaderAUTOUGH2 s = .ok ((), { s with pos := ⟨s.pos.no + 3, r⟩, title := strip tl, step := st, time := tm }) := by
  unfold readHeaderAUTOUGH2
  rw [bind_ok _ _ _ _ _ (readTitleA_run s tl _ hti hrest)]
  rw [bind_ok _ _ _ _ _ (readline_cons _ hl (l3 :: r) rfl)]
  unfold headerAVals at hv
  split at hv
  · cases hv
  · rename_i step hstep
    split at hv
    · cases hv
    · rename_i time htime
      injection hv with hv
      injection hv with h1 h2
      rw [hstep, bind_ok _ _ _ _ _ (liftE_ok _ _)]
      simp only
      rw [htime, bind_ok _ _ _ _ _ (liftE_ok _ _)]
      rw [bind_ok _ _ _ _ _ (modify_run _ _)]
      rw [bind_ok _ _ _ _ _ (readline_cons _ l3 r rfl)]
      simp only [pure, StateT.pure, Except.pure, h1, h2]

theorem readHeaderA_run (s : Rd) (tl hl l3 : Str) (r : List Str) (st : Step) (tm : FVal)
    (hhd : bound s.fam "read_header" = "read_header_AUTOUGH2")
    (hti : bound s.fam "read_title" = "read_title_AUTOUGH2")
    (hrest : s.pos.rest = tl :: hl :: l3 :: r) (hv : headerAVals hl = some (st, tm)) :
    readHeader s = .ok ((), { s with pos := ⟨s.pos.no + 3, r⟩, title := strip tl, step := st, time := tm }) := by
  unfold readHeader
  simp only [bind, StateT.bind, get, getThe, MonadStateOf.get, StateT.get, Except.bind, pure, Except.pure, hhd]
  exact readHeaderAUTOUGH2_run s tl hl l3 r st tm hti hrest hv

/-! ### next_table_AUTOUGH2 -/

theorem cu_readline_any (env : Rd) (c : Cur) :
    Cu.readline env c = .ok (c.pos.rest.headD [], { c with pos := ⟨c.pos.no + min 1 c.pos.rest.length, c.pos.rest.drop 1⟩ }) := by
  cases hr : c.pos.rest with
  | nil =>
    unfold Cu.readline
    simp only [bind, ReaderT.bind, StateT.bind, get, getThe, MonadStateOf.get, liftM, monadLift,
      MonadLift.monadLift, StateT.get, ReaderT.pure, StateT.pure, pure, Except.bind, Except.pure, hr]
    have : c = { c with pos := ⟨c.pos.no + min 1 ([] : List Str).length, ([] : List Str).drop 1⟩ } := by
      cases c with | mk pos _ => cases pos; simp_all
    rw [← this]; rfl
  | cons l r =>
    rw [cu_readline_cons env c l r hr]
    simp only [List.headD_cons, List.length_cons, List.drop_succ_cons, List.drop_zero]
    have : min 1 (r.length + 1) = 1 := by omega
    rw [this]

theorem nextTableA_run (s : Rd)
    (hnt : bound s.fam "next_table" = "next_table_AUTOUGH2") (htt : bound s.fam "table_type" = "table_type_AUTOUGH2") :
    nextTable s = .ok (tableTypeAUTOUGH2 (slice (s.pos.rest.headD []) 1 6),
      { s with pos := ⟨s.pos.no + min 1 s.pos.rest.length, s.pos.rest.drop 1⟩ }) := by
  unfold nextTable liftC Cu.nextTable
  simp only [bind, ReaderT.bind, StateT.bind, read, readThe, MonadReaderOf.read, ReaderT.read, pure, StateT.pure, Except.pure, Except.bind, hnt]
  unfold Cu.nextTableAUTOUGH2
  simp only [bind, ReaderT.bind, StateT.bind, Except.bind]
  rw [cu_readline_any]
  unfold Cu.tableType
  simp only [bind, ReaderT.bind, StateT.bind, read, readThe, MonadReaderOf.read, ReaderT.read, pure, StateT.pure, Except.pure, Except.bind, htt,
    List.headD_cons]
  rfl

/-! ### skip_table_AUTOUGH2 on arbitrary lines up to the terminator -/

theorem skipTableAUTOUGH2_gen (tn : String) (s : Rd) (A : List Str) (b : Str) (R : List Str) (term : Str) (tail : List Str)
    (hrest : s.pos.rest = A ++ b :: (R ++ term :: tail))
    (hA : ∀ l ∈ A, isBlank l = false) (hb : isBlank b = true)
    (hR : ∀ l ∈ b :: R, slice l 1 6 ≠ keyword5 tn) (hterm : slice term 1 6 = keyword5 tn) :
    skipTableAUTOUGH2 tn s = .ok ((),
      { s with pos := ⟨s.pos.no + (A.length + 1 + R.length + 1 + min 1 tail.length), tail.drop 1⟩ }) := by
  unfold skipTableAUTOUGH2
  rw [bind_ok _ _ _ _ _ (skipToBlank_run s)]
  rw [hrest, skipToBlankL_app A b _ _ hA hb]
  have hsplit : b :: (R ++ term :: tail) = (b :: R) ++ term :: tail := by simp
  rw [hsplit]
  rw [bind_ok _ _ _ _ _ (readUntil_run _ _ _ term _ (readUntilL_app _ false (b :: R) term tail _
    (fun x hx => by simpa using hR x hx)
    (by simpa using hterm)))]
  simp only
  rw [bind_ok _ _ _ _ _ (readline_any _)]
  simp only [pure, StateT.pure, Except.pure]
  congr 4
  simp only [List.length_cons]
  omega

/-! ### the tables of one AUTOUGH2 result block -/

inductive AKind where
  | read (t : Table) (A : List Str) (b : Str) (B : List Str) (b2 : Str) (Bl D : List Str) (term : Str)
  | skip (A : List Str) (b : Str) (R : List Str) (term : Str)

/-- the lines of the table from behind its header lines to its terminator line -/
def AKind.lines : AKind → List Str
  | .read _ A b B b2 Bl D term => A ++ b :: (B ++ b2 :: (Bl ++ (D ++ [term])))
  | .skip A b R term => A ++ b :: (R ++ [term])

/-- one table of a block: the three lines read_header_AUTOUGH2 reads (`tl` title, `hl` step/time line, `l3`), the
    table's lines, then — when another table follows — the line `x1` read behind the terminator and the line `kwl`
    next_table reads (the keyword line of the next table) -/
structure AEntry where
  tn : String
  tl : Str
  hl : Str
  l3 : Str
  kind : AKind
  x1 : Str := []
  kwl : Str := []

def upsA (t : Table) (D : List Str) : List (Nat × List FVal) :=
  enumRows 0 (D.filterMap (rowOfLineA t.cols.length (t.numpos.headD none)))

def stepTablesA (e : AEntry) (T : List (String × Table)) : List (String × Table) :=
  match e.kind with
  | .read t _ _ _ _ _ D _ => putT e.tn { t with data := applyRows t.data (upsA t D) } T
  | .skip _ _ _ _ => T

/-- the region conditions of `read_table_AUTOUGH2` (the same as `Props.C05.TableRegionA`) -/
def RegionAOk (tn : String) (t : Table) (A : List Str) (b : Str) (B : List Str) (b2 : Str) (Bl D : List Str) (term : Str) : Prop :=
  (∀ l ∈ A, isBlank l = false) ∧ isBlank b = true ∧ (∀ l ∈ B, isBlank l = false) ∧ isBlank b2 = true ∧
  (∀ l ∈ Bl, isBlank l = true) ∧ isBlank ((D ++ [term]).headD []) = false ∧
  (∀ d ∈ D, slice d 1 6 ≠ keyword5 tn) ∧ slice term 1 6 = keyword5 tn ∧
  (∀ d ∈ D, (rowOfLineA t.cols.length (t.numpos.headD none) d).isSome = true) ∧
  D.length ≤ t.rows.size ∧ t.data.size = t.rows.size

instance (tn : String) (t : Table) (A : List Str) (b : Str) (B : List Str) (b2 : Str) (Bl D : List Str) (term : Str) :
    Decidable (RegionAOk tn t A b B b2 Bl D term) := by
  unfold RegionAOk; infer_instance

/-- well-formedness of one entry for a reader with skip list `sk` and tables `T`: its header line parses; a table
    that is read is not in the skip list, has been set up, and its region is well formed; a skipped table is in the
    skip list and its lines reach the terminator -/
def EntryOkA (sk : List String) (T : List (String × Table)) (e : AEntry) : Prop :=
  (headerAVals e.hl).isSome = true ∧
  match e.kind with
  | .read t A b B b2 Bl D term =>
    sk.contains e.tn = false ∧ T.lookup e.tn = some t ∧ RegionAOk e.tn t A b B b2 Bl D term
  | .skip A b R term =>
    sk.contains e.tn = true ∧ (∀ l ∈ A, isBlank l = false) ∧ isBlank b = true ∧
    (∀ l ∈ b :: R, slice l 1 6 ≠ keyword5 e.tn) ∧ slice term 1 6 = keyword5 e.tn

theorem EntryOkA_congr (sk : List String) (T T' : List (String × Table)) (e : AEntry) (h : T'.lookup e.tn = T.lookup e.tn)
    (hok : EntryOkA sk T e) : EntryOkA sk T' e := by
  unfold EntryOkA at *
  refine ⟨hok.1, ?_⟩
  have h2 := hok.2
  cases hk : e.kind with
  | read t A b B b2 Bl D term => rw [hk] at h2; simp only at h2 ⊢; rw [h]; exact h2
  | skip A b R term => rw [hk] at h2; simp only at h2 ⊢; exact h2

theorem stepTablesA_lookup_other (e : AEntry) (T : List (String × Table)) (m : String) (hm : m ≠ e.tn) :
    (stepTablesA e T).lookup m = T.lookup m := by
  unfold stepTablesA
  cases e.kind with
  | read t A b B b2 Bl D term => exact putT_lookup_other e.tn m _ T hm
  | skip A b R term => rfl

/-- the action of read_tables_AUTOUGH2 on one table -/
def actA (tn : String) : M Unit := do
  if (← get).skipTables.contains tn then skipTable tn else readTable tn

theorem readTables_A (s : Rd) (hb : bound s.fam "read_tables" = "read_tables_AUTOUGH2") :
    readTables s = tablesLoop actA true false (s.pos.rest.length + 2) "element" 0 s := by
  unfold readTables
  simp only [bind, StateT.bind, get, getThe, MonadStateOf.get, StateT.get, pure, Except.pure, Except.bind, hb]
  rfl

theorem actA_run (e : AEntry) (s : Rd) (tail : List Str)
    (hrd : bound s.fam "read_table" = "read_table_AUTOUGH2") (hsk : bound s.fam "skip_table" = "skip_table_AUTOUGH2")
    (hok : EntryOkA s.skipTables s.tables e) (hrest : s.pos.rest = e.kind.lines ++ tail) :
    actA e.tn s = .ok ((), { s with pos := ⟨s.pos.no + (e.kind.lines.length + min 1 tail.length), tail.drop 1⟩,
                                     tables := stepTablesA e s.tables }) := by
  unfold EntryOkA at hok
  have hok := hok.2
  unfold stepTablesA
  cases hk : e.kind with
  | read t A b B b2 Bl D term =>
    rw [hk] at hok hrest
    simp only [AKind.lines] at hok hrest ⊢
    obtain ⟨hc, ht, hA, hb, hB, hb2, hBl, hfirst, hD, hterm, hrows, hsz, _⟩ := hok
    unfold actA readTable
    simp only [bind, StateT.bind, get, getThe, MonadStateOf.get, StateT.get, pure, Except.pure, Except.bind, hc,
      Bool.false_eq_true, if_false, hrd]
    rw [readTableAUTOUGH2_run e.tn t s A b B b2 Bl D term tail ht (by rw [hrest]; simp [autRegion]) hA hb hB hb2 hBl hfirst hD hterm hrows hsz]
    unfold upsA
    congr 4
    simp only [List.length_append, List.length_cons, List.length_nil]
    omega
  | skip A b R term =>
    rw [hk] at hok hrest
    simp only [AKind.lines] at hok hrest ⊢
    obtain ⟨hc, hA, hb, hR, hterm⟩ := hok
    unfold actA skipTable
    simp only [bind, StateT.bind, get, getThe, MonadStateOf.get, StateT.get, pure, Except.pure, Except.bind, hc, if_true, hsk]
    rw [skipTableAUTOUGH2_gen e.tn s A b R term tail (by rw [hrest]; simp) hA hb hR hterm]
    congr 4
    simp only [List.length_append, List.length_cons, List.length_nil]
    omega

/-- the lines of a result block from behind its `EEEEE` keyword line (where `fullpos` points); `E` is what follows the
    terminator line of the last table -/
def blockLinesA : List AEntry → List Str → List Str
  | [], E => E
  | [e], E => e.tl :: e.hl :: e.l3 :: (e.kind.lines ++ E)
  | e :: e' :: more, E => e.tl :: e.hl :: e.l3 :: (e.kind.lines ++ e.x1 :: e.kwl :: blockLinesA (e' :: more) E)

/-- the line number behind the terminator line of the last table -/
def endNoA : Nat → List AEntry → Nat
  | no, [] => no
  | no, [e] => no + 3 + e.kind.lines.length
  | no, e :: e' :: more => endNoA (no + 3 + e.kind.lines.length + 2) (e' :: more)

/-- the line next_table reads behind each table but the last is the keyword line of the table that follows -/
def LinksOkA : List AEntry → Prop
  | e :: e' :: more => tableTypeAUTOUGH2 (slice e.kwl 1 6) = some e'.tn ∧ LinksOkA (e' :: more)
  | _ => True

/-- behind the last table: the second line behind the terminator (the one next_table reads; `''` at end of file) is
    not a table keyword line -/
def EndOkA (E : List Str) : Prop := tableTypeAUTOUGH2 (slice ((E.drop 1).headD []) 1 6) = none

instance (E : List Str) : Decidable (EndOkA E) := by unfold EndOkA; infer_instance

def lastE : AEntry → List AEntry → AEntry
  | e, [] => e
  | _, e' :: more => lastE e' more

def hvA (e : AEntry) : Step × FVal := (headerAVals e.hl).getD (some 0, zero)

theorem headerAVals_hvA (e : AEntry) (h : (headerAVals e.hl).isSome = true) : headerAVals e.hl = some ((hvA e).1, (hvA e).2) := by
  unfold hvA
  cases hh : headerAVals e.hl with
  | none => rw [hh] at h; cases h
  | some v => rfl

theorem drop2_pos (a : Nat) (t : List Str) :
    (⟨a + min 1 t.length + min 1 (t.drop 1).length, (t.drop 1).drop 1⟩ : Pos) = ⟨a + min 2 t.length, t.drop 2⟩ := by
  congr 1
  · simp only [List.length_drop]; omega
  · simp

/-- one turn of the loop: header, table, next_table -/
theorem turnA_run (e : AEntry) (s : Rd) (tail : List Str)
    (hhd : bound s.fam "read_header" = "read_header_AUTOUGH2") (hti : bound s.fam "read_title" = "read_title_AUTOUGH2")
    (hrd : bound s.fam "read_table" = "read_table_AUTOUGH2") (hsk : bound s.fam "skip_table" = "skip_table_AUTOUGH2")
    (hnt : bound s.fam "next_table" = "next_table_AUTOUGH2") (htt : bound s.fam "table_type" = "table_type_AUTOUGH2")
    (hok : EntryOkA s.skipTables s.tables e)
    (hrest : s.pos.rest = e.tl :: e.hl :: e.l3 :: (e.kind.lines ++ tail)) :
    (readHeader >>= fun _ => actA e.tn >>= fun _ => nextTable) s
      = .ok (tableTypeAUTOUGH2 (slice ((tail.drop 1).headD []) 1 6),
          { s with pos := ⟨s.pos.no + 3 + e.kind.lines.length + min 2 tail.length, tail.drop 2⟩,
                   tables := stepTablesA e s.tables, title := strip e.tl, step := (hvA e).1, time := (hvA e).2 }) := by
  have hh := readHeaderA_run s e.tl e.hl e.l3 _ _ _ hhd hti hrest (headerAVals_hvA e hok.1)
  rw [bind_ok _ _ _ _ _ hh]
  have ha := actA_run e { s with pos := ⟨s.pos.no + 3, e.kind.lines ++ tail⟩, title := strip e.tl, step := (hvA e).1, time := (hvA e).2 }
    tail hrd hsk hok rfl
  rw [bind_ok _ _ _ _ _ ha]
  rw [nextTableA_run]
  · simp only
    have := drop2_pos (s.pos.no + 3 + e.kind.lines.length) tail
    simp only [Nat.add_assoc] at this ⊢
    rw [this]
  · exact hnt
  · exact htt

theorem bind_assoc3 {α β γ δ : Type} (a : M α) (b : M β) (c : M γ) (k : γ → M δ) (s : Rd) :
    (a >>= fun _ => b >>= fun _ => c >>= k) s = ((a >>= fun _ => b >>= fun _ => c) >>= k) s := by
  simp only [bind_assoc]

/-- **the loop of read_tables_AUTOUGH2 over the tables of one result block** -/
theorem tablesLoopA_block (e : AEntry) (more : List AEntry) (E : List Str) (s : Rd) (fuel nelt : Nat)
    (hfuel : more.length < fuel)
    (hhd : bound s.fam "read_header" = "read_header_AUTOUGH2") (hti : bound s.fam "read_title" = "read_title_AUTOUGH2")
    (hrd : bound s.fam "read_table" = "read_table_AUTOUGH2") (hsk : bound s.fam "skip_table" = "skip_table_AUTOUGH2")
    (hnt : bound s.fam "next_table" = "next_table_AUTOUGH2") (htt : bound s.fam "table_type" = "table_type_AUTOUGH2")
    (hnodup : ((e :: more).map (·.tn)).Nodup)
    (hok : ∀ x ∈ e :: more, EntryOkA s.skipTables s.tables x)
    (hlinks : LinksOkA (e :: more)) (hend : EndOkA E)
    (hrest : s.pos.rest = blockLinesA (e :: more) E) :
    tablesLoop actA true false fuel e.tn nelt s
      = .ok ((), { s with pos := ⟨endNoA s.pos.no (e :: more) + min 2 E.length, E.drop 2⟩,
                          tables := (e :: more).foldl (fun T x => stepTablesA x T) s.tables,
                          title := strip (lastE e more).tl, step := (hvA (lastE e more)).1, time := (hvA (lastE e more)).2 }) := by
  induction more generalizing e s fuel with
  | nil =>
    cases fuel with
    | zero => cases hfuel
    | succ f =>
      simp only [blockLinesA] at hrest
      have hturn := turnA_run e s E hhd hti hrd hsk hnt htt (hok e List.mem_cons_self) hrest
      unfold tablesLoop
      simp only [if_true]
      rw [bind_assoc3, bind_ok _ _ _ _ _ hturn]
      unfold EndOkA at hend
      rw [hend]
      rfl
  | cons e' more' ih =>
    cases fuel with
    | zero => cases hfuel
    | succ f =>
      simp only [blockLinesA] at hrest
      have hturn := turnA_run e s _ hhd hti hrd hsk hnt htt (hok e List.mem_cons_self) hrest
      unfold tablesLoop
      simp only [if_true]
      rw [bind_assoc3, bind_ok _ _ _ _ _ hturn]
      simp only [List.drop_succ_cons, List.drop_zero, List.headD_cons, hlinks.1, Bool.false_and, Bool.false_eq_true, if_false]
      have hne : ∀ x ∈ e' :: more', x.tn ≠ e.tn := by
        intro x hx hxe
        have := (List.nodup_cons.mp hnodup).1
        apply this
        exact List.mem_map.mpr ⟨x, hx, hxe⟩
      have hmin : min 2 (e.x1 :: e.kwl :: blockLinesA (e' :: more') E).length = 2 := by
        simp only [List.length_cons]; omega
      rw [hmin]
      rw [ih e' { s with pos := ⟨s.pos.no + 3 + e.kind.lines.length + 2, blockLinesA (e' :: more') E⟩,
                         tables := stepTablesA e s.tables, title := strip e.tl, step := (hvA e).1, time := (hvA e).2 }
        f (by simp only [List.length_cons] at hfuel; omega) hhd hti hrd hsk hnt htt
        (List.nodup_cons.mp hnodup).2
        (fun x hx => EntryOkA_congr _ s.tables _ x (stepTablesA_lookup_other e s.tables x.tn (hne x hx))
          (hok x (List.mem_cons_of_mem _ hx)))
        hlinks.2 rfl]
      rfl

/-! ### what the tables hold after the block -/

theorem foldlA_lookup_other (L : List AEntry) (T : List (String × Table)) (m : String) (h : ∀ x ∈ L, x.tn ≠ m) :
    (L.foldl (fun T x => stepTablesA x T) T).lookup m = T.lookup m := by
  induction L generalizing T with
  | nil => rfl
  | cons x r ih =>
    simp only [List.foldl_cons]
    rw [ih _ (fun y hy => h y (List.mem_cons_of_mem _ hy))]
    exact stepTablesA_lookup_other x T m (fun e => h x List.mem_cons_self e.symm)

/-- a table that no entry of the block reads (skipped, or not in the block at all) keeps its contents -/
theorem foldlA_lookup_not_read (L : List AEntry) (T : List (String × Table)) (m : String)
    (h : ∀ x ∈ L, x.tn = m → ∃ A b R term, x.kind = .skip A b R term) :
    (L.foldl (fun T x => stepTablesA x T) T).lookup m = T.lookup m := by
  induction L generalizing T with
  | nil => rfl
  | cons x r ih =>
    simp only [List.foldl_cons]
    rw [ih _ (fun y hy => h y (List.mem_cons_of_mem _ hy))]
    by_cases hx : x.tn = m
    · obtain ⟨A, b, R, term, hk⟩ := h x List.mem_cons_self hx
      unfold stepTablesA; rw [hk]
    · exact stepTablesA_lookup_other x T m (fun e => hx e.symm)

/-- a table the block reads holds the values of its own region -/
theorem foldlA_lookup_read (L : List AEntry) (T : List (String × Table)) (x : AEntry) (t : Table)
    (A : List Str) (b : Str) (B : List Str) (b2 : Str) (Bl D : List Str) (term : Str)
    (hx : x ∈ L) (hk : x.kind = .read t A b B b2 Bl D term)
    (hnodup : (L.map (·.tn)).Nodup) (hT : (T.lookup x.tn).isSome = true) :
    (L.foldl (fun T x => stepTablesA x T) T).lookup x.tn = some { t with data := applyRows t.data (upsA t D) } := by
  induction L generalizing T with
  | nil => cases hx
  | cons y r ih =>
    simp only [List.foldl_cons]
    simp only [List.map_cons, List.nodup_cons] at hnodup
    rcases List.mem_cons.mp hx with rfl | hxr
    · rw [foldlA_lookup_other r _ x.tn (fun z hz e => hnodup.1 (List.mem_map.mpr ⟨z, hz, e⟩))]
      unfold stepTablesA; rw [hk]
      exact putT_lookup_self x.tn _ T hT
    · have hne : x.tn ≠ y.tn := fun e => hnodup.1 (List.mem_map.mpr ⟨x, hxr, e⟩)
      exact ih _ hxr hnodup.2 (by rw [stepTablesA_lookup_other y T x.tn hne]; exact hT)

/-- row `j` of a table that was read holds the values of its `j`-th printed data line -/
theorem upsA_row (tn : String) (t : Table) (A : List Str) (b : Str) (B : List Str) (b2 : Str) (Bl D : List Str) (term : Str)
    (hreg : RegionAOk tn t A b B b2 Bl D term) (j : Nat) (d : Str) (hj : D[j]? = some d) :
    ∃ vals, readTableLineAUTOUGH2 d (t.numpos.headD none) = .ok vals ∧ vals.length = t.cols.length ∧
      (applyRows t.data (upsA t D))[j]? = some vals.toArray := by
  obtain ⟨_, _, _, _, _, _, _, _, hok, hsz, hdata⟩ := hreg
  let f : Str → Option (List FVal) := rowOfLineA t.cols.length (t.numpos.headD none)
  have hmap := map_eq_map_some_filterMap f D hok
  have hlen : (D.filterMap f).length = D.length := by
    have := congrArg List.length hmap; simpa using this.symm
  obtain ⟨vals, hv, hl, hf⟩ := rowOfLineA_some (hok d (List.mem_of_getElem? hj))
  refine ⟨vals, hv, hl, ?_⟩
  have hget : (D.filterMap f)[j]? = some vals := by
    have := congrArg (fun l => l[j]?) hmap
    simp only [List.getElem?_map, hj, Option.map_some] at this
    have hf' : f d = some vals := hf
    rw [hf'] at this
    cases h : (D.filterMap f)[j]? with
    | none => rw [h] at this; cases this
    | some v => rw [h] at this; simp only [Option.map_some, Option.some.injEq] at this; rw [this]
  have := applyRows_enum t.data 0 (D.filterMap f) j vals hget (by rw [hlen, hdata]; omega)
  have h0 : 0 + j = j := by omega
  rw [h0] at this
  exact this

theorem upsA_row_beyond (t : Table) (D : List Str) (i : Nat) (hi : D.length ≤ i) :
    (applyRows t.data (upsA t D))[i]? = t.data[i]? := by
  unfold upsA
  apply applyRows_enum_other
  right
  have : (D.filterMap (rowOfLineA t.cols.length (t.numpos.headD none))).length ≤ D.length := List.length_filterMap_le _ _
  omega

/-! ### set_index: from the recorded position of a result block through read_tables -/

theorem blockLinesA_length (L : List AEntry) (E : List Str) : L.length ≤ (blockLinesA L E).length := by
  induction L with
  | nil => simp
  | cons e r ih =>
    cases r with
    | nil => simp only [blockLinesA, List.length_cons, List.length_append, List.length_nil]; omega
    | cons e' m => simp only [blockLinesA, List.length_cons, List.length_append] at ih ⊢; omega

theorem setIndex_block_A (s : Rd) (i : Int) (jn : Nat) (p : Pos)
    (e : AEntry) (more : List AEntry) (E : List Str)
    (hj : (if i < 0 then i + (s.fullpos.size : Int) else i) = (jn : Int)) (hjn : jn < s.fullpos.size)
    (hp : s.fullpos[jn]! = p)
    (hel : e.tn = "element")
    (hrt : bound s.fam "read_tables" = "read_tables_AUTOUGH2")
    (hhd : bound s.fam "read_header" = "read_header_AUTOUGH2") (hti : bound s.fam "read_title" = "read_title_AUTOUGH2")
    (hrd : bound s.fam "read_table" = "read_table_AUTOUGH2") (hsk : bound s.fam "skip_table" = "skip_table_AUTOUGH2")
    (hnt : bound s.fam "next_table" = "next_table_AUTOUGH2") (htt : bound s.fam "table_type" = "table_type_AUTOUGH2")
    (hprest : p.rest = blockLinesA (e :: more) E)
    (hnodup : ((e :: more).map (·.tn)).Nodup)
    (hok : ∀ x ∈ e :: more, EntryOkA s.skipTables s.tables x)
    (hlinks : LinksOkA (e :: more)) (hend : EndOkA E) :
    setIndex i s
      = .ok ((), { s with pos := ⟨endNoA p.no (e :: more) + min 2 E.length, E.drop 2⟩,
                          index := if i < 0 then i + (s.fulltimes.size : Int) else i,
                          tables := (e :: more).foldl (fun T x => stepTablesA x T) s.tables,
                          title := strip (lastE e more).tl, step := (hvA (lastE e more)).1, time := (hvA (lastE e more)).2 }) := by
  rw [setIndex_seek s i jn p hj hjn hp]
  rw [readTables_A { s with pos := p, index := if i < 0 then i + (s.fulltimes.size : Int) else i } hrt]
  rw [← hel]
  have hlen := blockLinesA_length (e :: more) E
  rw [tablesLoopA_block e more E { s with pos := p, index := if i < 0 then i + (s.fulltimes.size : Int) else i } _ 0
    (by simp only [hprest]; simp only [List.length_cons] at hlen; omega) hhd hti hrd hsk hnt htt hnodup hok hlinks hend hprest]

theorem lastE_mem (e : AEntry) (more : List AEntry) : lastE e more ∈ e :: more := by
  induction more generalizing e with
  | nil => exact List.mem_cons_self
  | cons e' m ih => exact List.mem_cons_of_mem _ (ih e')

end Proofs.Whole
