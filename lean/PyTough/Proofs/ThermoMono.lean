/-
  Density rises with pressure at fixed temperature in region 2, on six boxes that reach from the ideal-gas
  limit up to 10 MPa: `ρ = p* / (R T γ_π)` with `γ_π = 1/π + γʳ_π`; the ideal-gas term `1/π` decreases
  faster than the residual sum can vary (explicit termwise bound on the generated table).
-/
import PyTough.Proofs.ThermoIapws
namespace Proofs.Iapws
open Gen.Iapws Model.Thermo Proofs.Thermo

theorem pow_diff_le (P : ℝ) : ∀ (k : ℕ) (a b : ℝ), 0 ≤ a → a ≤ b → b ≤ P →
    0 ≤ b ^ k - a ^ k ∧ b ^ k - a ^ k ≤ (k : ℝ) * P ^ (k - 1) * (b - a) := by
  intro k
  induction k with
  | zero => intro a b _ _ _; simp
  | succ k ih =>
    intro a b ha hab hbP
    obtain ⟨i1, i2⟩ := ih a b ha hab hbP
    have hb : 0 ≤ b := le_trans ha hab
    have hP : 0 ≤ P := le_trans hb hbP
    have e : b ^ (k + 1) - a ^ (k + 1) = b * (b ^ k - a ^ k) + (b - a) * a ^ k := by ring
    have hak : a ^ k ≤ P ^ k := pow_le_pow_left₀ ha (le_trans hab hbP) k
    have h1 : 0 ≤ b * (b ^ k - a ^ k) := mul_nonneg hb i1
    have h2 : 0 ≤ (b - a) * a ^ k := mul_nonneg (by linarith) (pow_nonneg ha k)
    have h3 : (b - a) * a ^ k ≤ (b - a) * P ^ k := mul_le_mul_of_nonneg_left hak (by linarith)
    have h4 : b * (b ^ k - a ^ k) ≤ (k : ℝ) * P ^ k * (b - a) := by
      rcases Nat.eq_zero_or_pos k with hk | hk
      · subst hk; simp
      · have hPk : P * P ^ (k - 1) = P ^ k := by rw [← pow_succ']; congr 1; omega
        calc b * (b ^ k - a ^ k) ≤ P * (b ^ k - a ^ k) := mul_le_mul_of_nonneg_right hbP i1
          _ ≤ P * ((k : ℝ) * P ^ (k - 1) * (b - a)) := mul_le_mul_of_nonneg_left i2 hP
          _ = (k : ℝ) * (P * P ^ (k - 1)) * (b - a) := by ring
          _ = (k : ℝ) * P ^ k * (b - a) := by rw [hPk]
    refine ⟨by rw [e]; linarith, ?_⟩
    rw [e]
    simp only [Nat.add_sub_cancel, Nat.cast_add, Nat.cast_one]
    nlinarith

/-- bound of `|∂/∂x` of the `x`-derivative sum`|` and of the sum itself, for `0 < x ≤ P`, `0 ≤ y ≤ Y` -/
noncomputable def resM2 (tbl : List (Int × Int × ℝ)) (P Y : ℝ) : ℝ :=
  (tbl.map fun r => |r.2.2| * (r.1 : ℝ) * ((((r.1 - 1).toNat : ℕ) : ℝ) * P ^ ((r.1 - 1).toNat - 1)) * Y ^ r.2.1.toNat).sum
noncomputable def resM1 (tbl : List (Int × Int × ℝ)) (P Y : ℝ) : ℝ :=
  (tbl.map fun r => |r.2.2| * (r.1 : ℝ) * P ^ (r.1 - 1).toNat * Y ^ r.2.1.toNat).sum

theorem row_bounds (r : Int × Int × ℝ) (hi : 1 ≤ r.1) (hj : 0 ≤ r.2.1) (x1 x2 y P Y : ℝ)
    (h1 : 0 < x1) (h12 : x1 ≤ x2) (h2 : x2 ≤ P) (y0 : 0 ≤ y) (yY : y ≤ Y) :
    |r.2.2 * ((r.1 : ℝ) * x2 ^ (r.1 - 1)) * y ^ r.2.1 - r.2.2 * ((r.1 : ℝ) * x1 ^ (r.1 - 1)) * y ^ r.2.1|
      ≤ |r.2.2| * (r.1 : ℝ) * ((((r.1 - 1).toNat : ℕ) : ℝ) * P ^ ((r.1 - 1).toNat - 1)) * Y ^ r.2.1.toNat * (x2 - x1) ∧
    |r.2.2 * ((r.1 : ℝ) * x2 ^ (r.1 - 1)) * y ^ r.2.1| ≤ |r.2.2| * (r.1 : ℝ) * P ^ (r.1 - 1).toNat * Y ^ r.2.1.toNat := by
  obtain ⟨i, j, n⟩ := r
  simp only at hi hj ⊢
  have ek : (i - 1 : ℤ) = ((i - 1).toNat : ℤ) := (Int.toNat_of_nonneg (by omega)).symm
  have em : (j : ℤ) = (j.toNat : ℤ) := (Int.toNat_of_nonneg hj).symm
  set k := (i - 1).toNat
  set m := j.toNat
  rw [ek, em, zpow_natCast, zpow_natCast, zpow_natCast]
  have hi0 : (0 : ℝ) ≤ (i : ℝ) := by exact_mod_cast (by omega : (0 : ℤ) ≤ i)
  obtain ⟨d0, d1⟩ := pow_diff_le P k x1 x2 (le_of_lt h1) h12 h2
  have ym : y ^ m ≤ Y ^ m := pow_le_pow_left₀ y0 yY m
  have ym0 : 0 ≤ y ^ m := pow_nonneg y0 m
  have x2k : x2 ^ k ≤ P ^ k := pow_le_pow_left₀ (le_trans (le_of_lt h1) h12) h2 k
  have x2k0 : 0 ≤ x2 ^ k := pow_nonneg (le_trans (le_of_lt h1) h12) k
  have hx : 0 ≤ x2 - x1 := by linarith
  have hP : 0 ≤ P := le_trans (le_trans (le_of_lt h1) h12) h2
  constructor
  · have e : n * ((i : ℝ) * x2 ^ k) * y ^ m - n * ((i : ℝ) * x1 ^ k) * y ^ m = n * ((i : ℝ) * (x2 ^ k - x1 ^ k) * y ^ m) := by ring
    rw [e, abs_mul, abs_of_nonneg (mul_nonneg (mul_nonneg hi0 d0) ym0)]
    have : (i : ℝ) * (x2 ^ k - x1 ^ k) * y ^ m ≤ (i : ℝ) * ((k : ℝ) * P ^ (k - 1) * (x2 - x1)) * Y ^ m :=
      mul_le_mul (mul_le_mul_of_nonneg_left d1 hi0) ym ym0
        (mul_nonneg hi0 (mul_nonneg (mul_nonneg (Nat.cast_nonneg k) (pow_nonneg hP _)) hx))
    calc |n| * ((i : ℝ) * (x2 ^ k - x1 ^ k) * y ^ m) ≤ |n| * ((i : ℝ) * ((k : ℝ) * P ^ (k - 1) * (x2 - x1)) * Y ^ m) :=
          mul_le_mul_of_nonneg_left this (abs_nonneg n)
      _ = |n| * (i : ℝ) * ((k : ℝ) * P ^ (k - 1)) * Y ^ m * (x2 - x1) := by ring
  · have e : n * ((i : ℝ) * x2 ^ k) * y ^ m = n * ((i : ℝ) * x2 ^ k * y ^ m) := by ring
    rw [e, abs_mul, abs_of_nonneg (mul_nonneg (mul_nonneg hi0 x2k0) ym0)]
    have : (i : ℝ) * x2 ^ k * y ^ m ≤ (i : ℝ) * P ^ k * Y ^ m :=
      mul_le_mul (mul_le_mul_of_nonneg_left x2k hi0) ym ym0 (mul_nonneg hi0 (pow_nonneg hP _))
    calc |n| * ((i : ℝ) * x2 ^ k * y ^ m) ≤ |n| * ((i : ℝ) * P ^ k * Y ^ m) := mul_le_mul_of_nonneg_left this (abs_nonneg n)
      _ = |n| * (i : ℝ) * P ^ k * Y ^ m := by ring

theorem dx_bounds (tbl : List (Int × Int × ℝ)) (hrows : ∀ r ∈ tbl, 1 ≤ r.1 ∧ 0 ≤ r.2.1) (x1 x2 y P Y : ℝ)
    (h1 : 0 < x1) (h12 : x1 ≤ x2) (h2 : x2 ≤ P) (y0 : 0 ≤ y) (yY : y ≤ Y) :
    |laurentDx tbl x2 y - laurentDx tbl x1 y| ≤ resM2 tbl P Y * (x2 - x1) ∧ |laurentDx tbl x2 y| ≤ resM1 tbl P Y := by
  unfold laurentDx resM2 resM1
  induction tbl with
  | nil => simp
  | cons r tbl ih =>
    obtain ⟨a, b⟩ := ih (fun q hq => hrows q (List.mem_cons_of_mem _ hq))
    obtain ⟨hi, hj⟩ := hrows r (by simp)
    obtain ⟨c, d⟩ := row_bounds r hi hj x1 x2 y P Y h1 h12 h2 y0 yY
    simp only [List.map_cons, List.sum_cons]
    constructor
    · have e : ∀ (u v s t : ℝ), u + s - (v + t) = (u - v) + (s - t) := by intros; ring
      rw [e, add_mul]
      exact le_trans (abs_add_le _ _) (add_le_add c a)
    · exact le_trans (abs_add_le _ _) (add_le_add d b)

theorem tbl2_rows : ∀ q ∈ List.zip ir2 jr2, 1 ≤ q.1 ∧ 0 ≤ q.2 := by decide

theorem rconst_pos : (0 : ℝ) < rconst := by unfold rconst; rw [tf_lit]; norm_num
theorem pstar2_pos : (0 : ℝ) < pstar2 := by unfold pstar2; rw [tf_lit]; norm_num

theorem r2_y_pos (t : ℝ) (ht0 : 0 ≤ t) (ht : t ≤ 800) : 0 < tau2 t - 1 / 2 := by
  have hT := tk_pos t ht0
  have hT2 := tk_le t 800 ht
  unfold tau2 tstar2
  rw [tf_lit]
  have h1 : (540 : ℝ) / (800 + 274) ≤ 540 / (t + tc_k) := div_le_div_of_nonneg_left (by norm_num) hT hT2
  norm_num at h1 ⊢
  linarith

/-- generic box: if the residual bounds are small against the ideal-gas term on `π ≤ P`, `0 ≤ τ − ½ ≤ Y`,
    the density returned by `supst` strictly increases with pressure -/
theorem supst_density_mono (t p1 p2 P Y : ℝ) (ht0 : 0 ≤ t) (ht : t ≤ 800) (h1 : 0 < p1) (h12 : p1 < p2) (hp : p2 ≤ 100000000)
    (hP : pi2 p2 ≤ P) (hY : tau2 t - 1 / 2 ≤ Y)
    (hM2 : resM2 tbl2 P Y * (P * P) < 1) (hM1 : resM1 tbl2 P Y * P < 1) :
    ∃ d1 u1 d2 u2, supst t p1 = Ret.pair d1 u1 ∧ supst t p2 = Ret.pair d2 u2 ∧ 0 < d1 ∧ d1 < d2 := by
  have e1 := supst_eq t p1 ht0 ht h1 (by linarith)
  have e2 := supst_eq t p2 ht0 ht (by linarith) hp
  have hps := pstar2_pos
  have x1 : 0 < pi2 p1 := by unfold pi2; exact div_pos h1 hps
  have x12 : pi2 p1 < pi2 p2 := by unfold pi2; exact div_lt_div_of_pos_right h12 hps
  have x2 : 0 < pi2 p2 := lt_trans x1 x12
  have hPpos : 0 < P := lt_of_lt_of_le x2 hP
  have y0 := r2_y_pos t ht0 ht
  have hrows : ∀ r ∈ tbl2, 1 ≤ r.1 ∧ 0 ≤ r.2.1 := fun r hr => tbl2_rows _ (mem_zip3_ints _ _ _ r hr)
  obtain ⟨lip, b2⟩ := dx_bounds tbl2 hrows (pi2 p1) (pi2 p2) (tau2 t - 1 / 2) P Y x1 (le_of_lt x12) hP (le_of_lt y0) hY
  set D1 := laurentDx tbl2 (pi2 p1) (tau2 t - 1 / 2)
  set D2 := laurentDx tbl2 (pi2 p2) (tau2 t - 1 / 2)
  set M2 := resM2 tbl2 P Y
  set M1 := resM1 tbl2 P Y
  have hM2' : M2 < 1 / (P * P) := by rw [lt_div_iff₀ (mul_pos hPpos hPpos)]; exact hM2
  have hM1' : M1 < 1 / P := by rw [lt_div_iff₀ hPpos]; exact hM1
  -- g2 > 0
  have inv2 : 1 / P ≤ 1 / pi2 p2 := one_div_le_one_div_of_le x2 hP
  have g2pos : 0 < 1 / pi2 p2 + D2 := by
    have := neg_abs_le D2
    linarith
  -- g1 > g2
  have hprod : pi2 p1 * pi2 p2 ≤ P * P := mul_le_mul (le_trans (le_of_lt x12) hP) hP (le_of_lt x2) (le_of_lt hPpos)
  have hinv : 1 / (P * P) ≤ 1 / (pi2 p1 * pi2 p2) := one_div_le_one_div_of_le (mul_pos x1 x2) hprod
  have ediff : 1 / pi2 p1 - 1 / pi2 p2 = (pi2 p2 - pi2 p1) * (1 / (pi2 p1 * pi2 p2)) := by
    field_simp
  have hd : 0 < pi2 p2 - pi2 p1 := by linarith
  have hgap : M2 * (pi2 p2 - pi2 p1) < 1 / pi2 p1 - 1 / pi2 p2 := by
    rw [ediff, mul_comm M2]
    exact mul_lt_mul_of_pos_left (lt_of_lt_of_le hM2' hinv) hd
  have g12 : 1 / pi2 p2 + D2 < 1 / pi2 p1 + D1 := by
    have := le_abs_self (D2 - D1)
    linarith
  -- densities
  have hRT : 0 < rconst * (t + tc_k) := mul_pos rconst_pos (tk_pos t ht0)
  refine ⟨_, _, _, _, e1, e2, ?_, ?_⟩
  · exact div_pos hps (mul_pos hRT (lt_trans g2pos g12))
  · apply div_lt_div_of_pos_left hps (mul_pos hRT g2pos)
    exact mul_lt_mul_of_pos_left g12 hRT

theorem r2_y_le (t tlo Y : ℝ) (ht0 : 0 ≤ tlo) (h : tlo ≤ t) (hY : 540 / (tlo + 27314 / 100) - 1 / 2 ≤ Y) : tau2 t - 1 / 2 ≤ Y := by
  have hk : (27314 / 100 : ℝ) < tc_k := by unfold tc_k; rw [tf_lit]; norm_num
  have h1 : (540 : ℝ) / (t + tc_k) ≤ 540 / (tlo + 27314 / 100) :=
    div_le_div_of_nonneg_left (by norm_num) (by linarith) (by linarith)
  unfold tau2 tstar2; rw [tf_lit]; norm_num at h1 ⊢; linarith

theorem r2_pi_le (p Pmax P : ℝ) (h : p ≤ Pmax) (hP : Pmax / 1000000 ≤ P) : pi2 p ≤ P := by
  unfold pi2 pstar2; rw [tf_lit]
  have : p / 1000000 ≤ Pmax / 1000000 := div_le_div_of_nonneg_right h (by norm_num)
  norm_num at this ⊢; linarith

theorem resM_box0 : resM2 tbl2 (10) (3667 / 10000) * ((10) * (10)) < 1 ∧ resM1 tbl2 (10) (3667 / 10000) * (10) < 1 := by
  unfold resM2 resM1 tbl2
  simp only [zip3, ir2, jr2, nr2, tf_lit, List.zip_cons_cons, List.zip_nil_right, List.map_cons, List.map_nil, List.sum_cons, List.sum_nil]
  norm_num [abs_div, abs_neg, Int.toNat]

theorem density_mono_box0 (t p1 p2 : ℝ) (hlo : 350 ≤ t) (ht : t ≤ 800) (h1 : 0 < p1) (h12 : p1 < p2) (hp : p2 ≤ 10000000) :
    ∃ d1 u1 d2 u2, supst t p1 = Ret.pair d1 u1 ∧ supst t p2 = Ret.pair d2 u2 ∧ 0 < d1 ∧ d1 < d2 :=
  supst_density_mono t p1 p2 (10) (3667 / 10000) (by linarith) ht h1 h12 (by linarith)
    (r2_pi_le p2 10000000 _ hp (by norm_num)) (r2_y_le t 350 _ (by norm_num) hlo (by norm_num)) resM_box0.1 resM_box0.2

theorem resM_box1 : resM2 tbl2 (5) (4423 / 10000) * ((5) * (5)) < 1 ∧ resM1 tbl2 (5) (4423 / 10000) * (5) < 1 := by
  unfold resM2 resM1 tbl2
  simp only [zip3, ir2, jr2, nr2, tf_lit, List.zip_cons_cons, List.zip_nil_right, List.map_cons, List.map_nil, List.sum_cons, List.sum_nil]
  norm_num [abs_div, abs_neg, Int.toNat]

theorem density_mono_box1 (t p1 p2 : ℝ) (hlo : 300 ≤ t) (ht : t ≤ 800) (h1 : 0 < p1) (h12 : p1 < p2) (hp : p2 ≤ 5000000) :
    ∃ d1 u1 d2 u2, supst t p1 = Ret.pair d1 u1 ∧ supst t p2 = Ret.pair d2 u2 ∧ 0 < d1 ∧ d1 < d2 :=
  supst_density_mono t p1 p2 (5) (4423 / 10000) (by linarith) ht h1 h12 (by linarith)
    (r2_pi_le p2 5000000 _ hp (by norm_num)) (r2_y_le t 300 _ (by norm_num) hlo (by norm_num)) resM_box1.1 resM_box1.2

theorem resM_box2 : resM2 tbl2 (3) (5323 / 10000) * ((3) * (3)) < 1 ∧ resM1 tbl2 (3) (5323 / 10000) * (3) < 1 := by
  unfold resM2 resM1 tbl2
  simp only [zip3, ir2, jr2, nr2, tf_lit, List.zip_cons_cons, List.zip_nil_right, List.map_cons, List.map_nil, List.sum_cons, List.sum_nil]
  norm_num [abs_div, abs_neg, Int.toNat]

theorem density_mono_box2 (t p1 p2 : ℝ) (hlo : 250 ≤ t) (ht : t ≤ 800) (h1 : 0 < p1) (h12 : p1 < p2) (hp : p2 ≤ 3000000) :
    ∃ d1 u1 d2 u2, supst t p1 = Ret.pair d1 u1 ∧ supst t p2 = Ret.pair d2 u2 ∧ 0 < d1 ∧ d1 < d2 :=
  supst_density_mono t p1 p2 (3) (5323 / 10000) (by linarith) ht h1 h12 (by linarith)
    (r2_pi_le p2 3000000 _ hp (by norm_num)) (r2_y_le t 250 _ (by norm_num) hlo (by norm_num)) resM_box2.1 resM_box2.2

theorem resM_box3 : resM2 tbl2 (3 / 2) (6414 / 10000) * ((3 / 2) * (3 / 2)) < 1 ∧ resM1 tbl2 (3 / 2) (6414 / 10000) * (3 / 2) < 1 := by
  unfold resM2 resM1 tbl2
  simp only [zip3, ir2, jr2, nr2, tf_lit, List.zip_cons_cons, List.zip_nil_right, List.map_cons, List.map_nil, List.sum_cons, List.sum_nil]
  norm_num [abs_div, abs_neg, Int.toNat]

theorem density_mono_box3 (t p1 p2 : ℝ) (hlo : 200 ≤ t) (ht : t ≤ 800) (h1 : 0 < p1) (h12 : p1 < p2) (hp : p2 ≤ 1500000) :
    ∃ d1 u1 d2 u2, supst t p1 = Ret.pair d1 u1 ∧ supst t p2 = Ret.pair d2 u2 ∧ 0 < d1 ∧ d1 < d2 :=
  supst_density_mono t p1 p2 (3 / 2) (6414 / 10000) (by linarith) ht h1 h12 (by linarith)
    (r2_pi_le p2 1500000 _ hp (by norm_num)) (r2_y_le t 200 _ (by norm_num) hlo (by norm_num)) resM_box3.1 resM_box3.2

theorem resM_box4 : resM2 tbl2 (1 / 10) (9472 / 10000) * ((1 / 10) * (1 / 10)) < 1 ∧ resM1 tbl2 (1 / 10) (9472 / 10000) * (1 / 10) < 1 := by
  unfold resM2 resM1 tbl2
  simp only [zip3, ir2, jr2, nr2, tf_lit, List.zip_cons_cons, List.zip_nil_right, List.map_cons, List.map_nil, List.sum_cons, List.sum_nil]
  norm_num [abs_div, abs_neg, Int.toNat]

theorem density_mono_box4 (t p1 p2 : ℝ) (hlo : 100 ≤ t) (ht : t ≤ 800) (h1 : 0 < p1) (h12 : p1 < p2) (hp : p2 ≤ 100000) :
    ∃ d1 u1 d2 u2, supst t p1 = Ret.pair d1 u1 ∧ supst t p2 = Ret.pair d2 u2 ∧ 0 < d1 ∧ d1 < d2 :=
  supst_density_mono t p1 p2 (1 / 10) (9472 / 10000) (by linarith) ht h1 h12 (by linarith)
    (r2_pi_le p2 100000 _ hp (by norm_num)) (r2_y_le t 100 _ (by norm_num) hlo (by norm_num)) resM_box4.1 resM_box4.2

theorem resM_box5 : resM2 tbl2 (6 / 10000) (14771 / 10000) * ((6 / 10000) * (6 / 10000)) < 1 ∧ resM1 tbl2 (6 / 10000) (14771 / 10000) * (6 / 10000) < 1 := by
  unfold resM2 resM1 tbl2
  simp only [zip3, ir2, jr2, nr2, tf_lit, List.zip_cons_cons, List.zip_nil_right, List.map_cons, List.map_nil, List.sum_cons, List.sum_nil]
  norm_num [abs_div, abs_neg, Int.toNat]

theorem density_mono_box5 (t p1 p2 : ℝ) (hlo : 0 ≤ t) (ht : t ≤ 800) (h1 : 0 < p1) (h12 : p1 < p2) (hp : p2 ≤ 600) :
    ∃ d1 u1 d2 u2, supst t p1 = Ret.pair d1 u1 ∧ supst t p2 = Ret.pair d2 u2 ∧ 0 < d1 ∧ d1 < d2 :=
  supst_density_mono t p1 p2 (6 / 10000) (14771 / 10000) (by linarith) ht h1 h12 (by linarith)
    (r2_pi_le p2 600 _ hp (by norm_num)) (r2_y_le t 0 _ (by norm_num) hlo (by norm_num)) resM_box5.1 resM_box5.2
end Proofs.Iapws
