/-
  C19: lemmas about column_mapping, layer_mapping and block_mapping.
-/
import PyTough.Proofs.MappingGeo
namespace Proofs.Mapping
open Py Model.Mapping

/-! ### argmin -/

theorem argminFirst_spec (xs : List Rat) (h : xs ≠ []) :
    ∃ i v, argminFirst xs = some i ∧ xs[i]? = some v ∧ ∀ x ∈ xs, v ≤ x := by
  induction xs with
  | nil => exact absurd rfl h
  | cons x xs ih =>
    cases xs with
    | nil =>
      refine ⟨0, x, by simp [argminFirst], by simp, ?_⟩
      intro y hy; simp at hy; subst hy; exact Rat.le_refl
    | cons y ys =>
      obtain ⟨i, v, h1, h2, h3⟩ := ih (by simp)
      have hgd : (y :: ys).getD i 0 = v := by
        simp [List.getD, h2]
      by_cases hle : x ≤ v
      · refine ⟨0, x, ?_, by simp, ?_⟩
        · simp only [argminFirst] at h1 ⊢
          rw [h1]; simp only; rw [hgd, if_pos hle]
        · intro z hz
          rcases List.mem_cons.mp hz with rfl | hz
          · exact Rat.le_refl
          · exact Rat.le_trans hle (h3 z hz)
      · refine ⟨i + 1, v, ?_, by simpa using h2, ?_⟩
        · simp only [argminFirst] at h1 ⊢
          rw [h1]; simp only; rw [hgd, if_neg hle]
        · intro z hz
          rcases List.mem_cons.mp hz with rfl | hz
          · have := Rat.le_total (a := z) (b := v)
            rcases this with h | h
            · exact absurd h hle
            · exact h
          · exact h3 z hz

/-- the executable stand-in meets the specification of the nearest-centre search -/
theorem nearestFirst_isNearest : IsNearest nearestFirst := by
  intro pts p hne
  have hne' : pts.map (fun x => sqDist x p) ≠ [] := by simpa using hne
  obtain ⟨i, v, h1, h2, h3⟩ := argminFirst_spec _ hne'
  unfold nearestFirst
  rw [h1]
  simp only [Option.getD_some]
  rw [List.getElem?_map] at h2
  cases hy : pts[i]? with
  | none => simp [hy] at h2
  | some y =>
    simp [hy] at h2
    refine ⟨y, rfl, ?_⟩
    intro x hx
    rw [h2]
    exact h3 _ (List.mem_map.mpr ⟨x, hx, rfl⟩)

/-! ### column_mapping -/

theorem colPair_spec (q : List (Rat × Rat) → Rat × Rat → Nat) (hq : IsNearest q) (self : Geo)
    (hne : self.cols ≠ []) (c : Col) :
    ∃ C, NearestCol self c.centre C ∧ colPair q self c = .ok (c.name, C.name) := by
  obtain ⟨y, hy, hmin⟩ := hq (self.cols.map Col.centre) c.centre (by simpa using hne)
  rw [List.getElem?_map] at hy
  unfold colPair
  cases hC : self.cols[q (self.cols.map Col.centre) c.centre]? with
  | none => simp [hC] at hy
  | some C =>
    simp [hC] at hy
    refine ⟨C, ⟨List.mem_of_getElem? hC, ?_⟩, rfl⟩
    intro X hX
    rw [hy]
    exact hmin _ (List.mem_map.mpr ⟨X, hX, rfl⟩)

theorem columnMapping_spec (q : List (Rat × Rat) → Rat × Rat → Nat) (hq : IsNearest q) (self geo : Geo)
    (hne : self.cols ≠ []) (hnd : nodupB (geo.cols.map (·.name)) = true) :
    ∃ cm, columnMapping q self geo = .ok cm ∧
      (∀ c ∈ geo.cols, ∃ C, NearestCol self c.centre C ∧ colPair q self c = .ok (c.name, C.name) ∧
          dget cm c.name = .ok C.name) ∧
      (self.atm = 0 → geo.atm = 0 → ∃ v, dget cm (atmColName geo.conv) = .ok v) := by
  obtain ⟨ps, hps⟩ := mapE_ok_of_each (colPair q self) geo.cols
    (fun c _ => by obtain ⟨C, _, h⟩ := colPair_spec q hq self hne c; exact ⟨_, h⟩)
  unfold columnMapping
  simp only [hps]
  refine ⟨_, rfl, ?_, ?_⟩
  · intro c hc
    obtain ⟨C, hC, hpair⟩ := colPair_spec q hq self hne c
    refine ⟨C, hC, hpair, ?_⟩
    apply dget_dictOf_append_fun
    · obtain ⟨b, hb, hf⟩ := mapE_mem_left hps c hc
      rw [hpair] at hf; cases hf
      exact ⟨_, hb, rfl⟩
    · intro p hp hk
      obtain ⟨c', hc', hf⟩ := mapE_mem_right hps p hp
      obtain ⟨C', _, hpair'⟩ := colPair_spec q hq self hne c'
      rw [hpair'] at hf; cases hf
      simp only at hk
      have : c' = c := nodupB_inj (fun (c : Col) => c.name) geo.cols hnd c' hc' c hc hk
      subst this
      rw [hpair] at hpair'
      have := (Prod.mk.inj (Except.ok.inj hpair')).2
      exact this.symm
  · intro h1 h2
    have hex : ∃ p ∈ ((if self.atm = 0 ∧ geo.atm = 0 then [(atmColName geo.conv, atmColName self.conv)] else []) ++ ps),
        p.1 = atmColName geo.conv := by
      rw [if_pos ⟨h1, h2⟩]
      exact ⟨(atmColName geo.conv, atmColName self.conv), by simp, rfl⟩
    obtain ⟨p, _, _, hp⟩ := dget_dictOf_mem _ _ hex
    exact ⟨_, hp⟩

/-! ### layer_mapping -/

theorem nearestLayer_spec (srest : List Lay) (hne : srest ≠ []) (l : Lay) :
    ∃ S, NearestLay srest l.centre S ∧ nearestLayer srest l = .ok S := by
  obtain ⟨i, v, h1, h2, h3⟩ := argminFirst_spec (srest.map (fun s => absQ (s.centre - l.centre))) (by simpa using hne)
  unfold nearestLayer
  rw [h1]
  simp only
  rw [List.getElem?_map] at h2
  cases hS : srest[i]? with
  | none => simp [hS] at h2
  | some S =>
    simp [hS] at h2
    refine ⟨S, ⟨List.mem_of_getElem? hS, ?_⟩, rfl⟩
    intro X hX
    rw [h2]
    exact h3 _ (List.mem_map.mpr ⟨X, hX, rfl⟩)

theorem layerMapping_spec (self geo : Geo) (g0 s0 : Lay) (grest srest : List Lay)
    (hg : geo.lays = g0 :: grest) (hs : self.lays = s0 :: srest) (hne : srest ≠ [])
    (hnd : nodupB (geo.lays.map (·.name)) = true) :
    ∃ lm, layerMapping self geo = .ok lm ∧ dget lm g0.name = .ok s0.name ∧
      ∀ l ∈ grest, ∃ S, NearestLay srest l.centre S ∧ dget lm l.name = .ok S.name := by
  have hpair : ∀ l, ∃ S, NearestLay srest l.centre S ∧ layPair srest l = .ok (l.name, S.name) := by
    intro l
    obtain ⟨S, hS, hn⟩ := nearestLayer_spec srest hne l
    exact ⟨S, hS, by simp [layPair, hn]⟩
  obtain ⟨ps, hps⟩ := mapE_ok_of_each (layPair srest) grest
    (fun l _ => by obtain ⟨S, _, h⟩ := hpair l; exact ⟨_, h⟩)
  rw [hg] at hnd
  obtain ⟨hnd', hne0⟩ := nodupB_tail (fun (l : Lay) => l.name) g0 grest hnd
  unfold layerMapping
  rw [hg, hs]
  simp only [hps]
  refine ⟨_, rfl, ?_, ?_⟩
  · apply dget_dictOf_fun
    · exact ⟨(g0.name, s0.name), by simp, rfl⟩
    · intro p hp hk
      rcases List.mem_cons.mp hp with rfl | hp
      · rfl
      · obtain ⟨l, hl, hf⟩ := mapE_mem_right hps p hp
        obtain ⟨S, _, hlp⟩ := hpair l
        rw [hlp] at hf; cases hf
        exact absurd hk (hne0 l hl)
  · intro l hl
    obtain ⟨S, hS, hlp⟩ := hpair l
    refine ⟨S, hS, ?_⟩
    apply dget_dictOf_fun
    · obtain ⟨b, hb, hf⟩ := mapE_mem_left hps l hl
      rw [hlp] at hf; cases hf
      exact ⟨(l.name, S.name), List.mem_cons_of_mem _ hb, rfl⟩
    · intro p hp hk
      rcases List.mem_cons.mp hp with rfl | hp
      · exact absurd hk.symm (hne0 l hl)
      · obtain ⟨l', hl', hf⟩ := mapE_mem_right hps p hp
        obtain ⟨S', _, hlp'⟩ := hpair l'
        rw [hlp'] at hf; cases hf
        simp only at hk
        have : l' = l := nodupB_inj (fun (l : Lay) => l.name) grest hnd' l' hl' l hl hk
        subst this
        rw [hlp] at hlp'
        exact ((Prod.mk.inj (Except.ok.inj hlp')).2).symm

/-! ### GeoInv, unpacked -/

structure SrcWF (g : Geo) : Prop where
  names : NamesWF g
  atm : g.atm ≤ 2
  colsNe : g.cols ≠ []
  lays : ∃ s0 s1 rest, g.lays = s0 :: s1 :: rest
  desc : bottomsDesc (g.lays.drop 1) = true
  numLayers : ∀ c ∈ g.cols, c.numLayers = layersBelow g c ∧ 1 ≤ c.numLayers
  dmplex : DmplexOK g

theorem srcWF_of (g : Geo) (h : srcOK g = true) : SrcWF g := by
  simp only [srcOK, Bool.and_eq_true, decide_eq_true_eq, Bool.not_eq_true', List.all_eq_true,
    beq_iff_eq, Bool.or_eq_true] at h
  obtain ⟨⟨⟨⟨⟨⟨h1, h2⟩, h3⟩, h4⟩, h5⟩, h6⟩, h7⟩ := h
  refine ⟨namesWF_of g h4, h1, ?_, ?_, h5, h6, ?_⟩
  · intro hc; simp [hc] at h2
  · match hl : g.lays with
    | [] => simp [hl] at h3
    | [_] => simp [hl] at h3
    | a :: b :: r => exact ⟨a, b, r, rfl⟩
  · intro hd c hc
    rcases h7 with h7 | h7
    · rw [hd] at h7; cases h7
    · exact h7 c hc

structure TgtWF (g : Geo) : Prop where
  names : NamesWF g
  atm : g.atm ≤ 2
  lays : ∃ g0 rest, g.lays = g0 :: rest
  inert : ∀ l ∈ g.lays, ∀ c ∈ atmColName g.conv :: g.cols.map (·.name), fixInert (rawName g.conv l.name c) = true
  dmplex : DmplexOK g

theorem tgtWF_of (g : Geo) (h : tgtOK g = true) : TgtWF g := by
  simp only [tgtOK, Bool.and_eq_true, decide_eq_true_eq, Bool.not_eq_true', List.all_eq_true,
    Bool.or_eq_true, beq_iff_eq] at h
  obtain ⟨⟨⟨⟨h1, h2⟩, h3⟩, h4⟩, h5⟩ := h
  refine ⟨namesWF_of g h3, h1, ?_, h4, ?_⟩
  · match hl : g.lays with
    | [] => simp [hl] at h2
    | a :: r => exact ⟨a, r, rfl⟩
  · intro hd c hc
    rcases h5 with h5 | h5
    · rw [hd] at h5; cases h5
    · exact h5 c hc

/-! ### one block of block_mapping -/

/-- an underground target block: the image is the block of the mapped column and of the
    mapped layer, or of the column's first layer below ground when the column's surface is
    at or below the mapped layer's bottom; that block exists in the source -/
theorem mapOne_under (self geo : Geo) (hs : SrcWF self) (ht : TgtWF geo) (cm lm : Dict Str)
    (g0 s0 : Lay) (grest srest : List Lay) (hg : geo.lays = g0 :: grest) (hsl : self.lays = s0 :: srest)
    (l : Lay) (c : Col) (hl : l ∈ grest) (hc : c ∈ geo.cols)
    (C : Col) (hC : C ∈ self.cols) (hcm : dget cm c.name = .ok C.name)
    (S : Lay) (hS : S ∈ srest) (hlm : dget lm l.name = .ok S.name) :
    ∃ L', (if C.surface ≤ S.bottom then self.firstBelow C = some L' else L' = S) ∧
      (L', C) ∈ self.underPairs ∧
      ∃ v, blockName self.conv L'.name C.name = .ok v ∧
        mapOne self geo cm lm (rawName geo.conv l.name c.name) = .ok v := by
  have hlg : l ∈ geo.lays := by rw [hg]; exact List.mem_cons_of_mem _ hl
  have hll := ht.names.layLen l hlg
  have hcl := ht.names.colLen c hc
  have hne : l.name ≠ g0.name := by
    have := ht.names.layNodup
    rw [hg] at this
    exact (nodupB_tail (fun (l : Lay) => l.name) g0 grest this).2 l hl
  have hSl : S ∈ self.lays := by rw [hsl]; exact List.mem_cons_of_mem _ hS
  have hdrop : self.lays.drop 1 = srest := by rw [hsl]; rfl
  have hok : ∀ L' ∈ srest, ∃ v, blockName self.conv L'.name C.name = .ok v := fun L' hL' =>
    blockName_ok _ _ _ (hs.names.layLen L' (by rw [hsl]; exact List.mem_cons_of_mem _ hL')) (hs.names.colLen C hC)
  unfold mapOne
  simp only [columnName_rawName geo.conv l.name c.name hll hcl, layerName_rawName geo.conv l.name c.name hll hcl,
    hcm, hlm, hg, if_neg hne, findCol_mem self hs.names C hC, findLay_mem self hs.names S hSl]
  by_cases hsurf : C.surface ≤ S.bottom
  · simp only [if_pos hsurf]
    obtain ⟨hnl, h1⟩ := hs.numLayers C hC
    have hdesc := hs.desc
    rw [hdrop] at hdesc
    obtain ⟨sl, e1, e2, e3, e4⟩ := surfaceLayer_spec self C s0 srest hsl hdesc
      (by rw [hnl]; unfold layersBelow; rw [hdrop]) h1
    obtain ⟨v, hv⟩ := hok sl e3
    refine ⟨sl, ?_, ?_, v, hv, ?_⟩
    · unfold Geo.firstBelow; rw [hdrop]; exact e2
    · rw [mem_underPairs, hdrop]; exact ⟨e3, hC, e4⟩
    · simp only [e1, hv]
  · simp only [if_neg hsurf]
    obtain ⟨v, hv⟩ := hok S hS
    refine ⟨S, rfl, ?_, v, hv, hv⟩
    rw [mem_underPairs, hdrop]
    exact ⟨hS, hC, Rat.not_le.mp hsurf⟩

/-- an atmosphere target block (layer 0 of the target over column name `colname`) -/
theorem mapOne_atm (self geo : Geo) (ht : TgtWF geo) (cm lm : Dict Str)
    (g0 s0 : Lay) (grest srest : List Lay) (hg : geo.lays = g0 :: grest) (hsl : self.lays = s0 :: srest)
    (colname : Str) (hlen : colname.length = colLen geo.conv)
    (sourcecol : Str) (hcm : dget cm colname = .ok sourcecol) (hlm : dget lm g0.name = .ok s0.name) :
    mapOne self geo cm lm (rawName geo.conv g0.name colname) =
      blockName self.conv s0.name (if self.atm = 0 then atmColName self.conv else sourcecol) := by
  have hll := ht.names.layLen g0 (by rw [hg]; simp)
  unfold mapOne
  simp only [columnName_rawName geo.conv g0.name colname hll hlen, layerName_rawName geo.conv g0.name colname hll hlen,
    hcm, hlm, hg, if_true, hsl]

/-! ### assembling block_mapping -/

theorem mem_zip_left {α β : Type} (l : List α) (bs : List β) (h : bs.length = l.length) (a : α) (ha : a ∈ l) :
    ∃ b, (a, b) ∈ l.zip bs := by
  induction l generalizing bs with
  | nil => cases ha
  | cons x xs ih =>
    cases bs with
    | nil => simp at h
    | cons b bs =>
      rcases List.mem_cons.mp ha with rfl | ha
      · exact ⟨b, by simp⟩
      · obtain ⟨b', hb'⟩ := ih bs (by simpa using h) ha
        exact ⟨b', by simp [hb']⟩

theorem blockMapping_assemble (q : List (Rat × Rat) → Rat × Rat → Nat) (self geo : Geo)
    (cm lm : Dict Str) (names : List Str)
    (hcm : columnMapping q self geo = .ok cm) (hlm : layerMapping self geo = .ok lm)
    (hn : geo.blockNameList = .ok names)
    (hall : ∀ d ∈ names, ∃ v, mapOne self geo cm lm d = .ok v) :
    ∃ m, blockMapping q self geo = .ok (m, cm) ∧
      ∀ d ∈ names, ∀ v, mapOne self geo cm lm d = .ok v → dget m d = .ok v := by
  obtain ⟨vals, hvals⟩ := mapE_ok_of_each (mapOne self geo cm lm) names hall
  unfold blockMapping
  simp only [hcm, hlm, hn, hvals]
  refine ⟨_, rfl, ?_⟩
  intro d hd v hv
  apply dget_dictOf_fun
  · obtain ⟨b, hb⟩ := mem_zip_left names vals (mapE_length hvals) d hd
    exact ⟨(d, b), hb, rfl⟩
  · intro p hp hk
    have := mapE_zip hvals p hp
    rw [hk, hv] at this
    exact (Except.ok.inj this).symm

end Proofs.Mapping
