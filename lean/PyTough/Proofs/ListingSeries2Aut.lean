/-
  history() against STEPPING for the AUTOUGH2 row loop, one table at one result time.

  `read_table_AUTOUGH2` stores the values of the j-th printed data line in row j (Proofs/ListingWholeAut.lean);
  history() reads line `j` (AUTOUGH2 tables have no `row_line`: the line index of a row IS its row index) with the same
  `read_table_line_AUTOUGH2`, picks one column and flips the sign for a reversed name.  Core Lean only.
-/
import PyTough.Model.ListingHistory
import PyTough.Proofs.ListingHistory
import PyTough.Proofs.ListingSeriesStep
import PyTough.Proofs.ListingWholeAut
namespace Proofs.Series2Aut
open Py Model Model.Listing Proofs.History Proofs.SeriesStep

theorem lineAt_append_left (D rest : List Str) (j : Nat) (d : Str) (h : D[j]? = some d) : lineAt (D ++ rest) j = d := by
  unfold lineAt
  have hj : j < D.length := (List.getElem?_eq_some_iff.mp h).1
  rw [List.getElem?_append_left hj, h]; rfl

/-- **The cell history() picks from the j-th data line is the cell the stepping reader shows in row j** (AUTOUGH2):
    `t'` is a table whose row `j` holds `read_table_line_AUTOUGH2(D[j])`, one value per column (what
    `read_table_AUTOUGH2` leaves: `Props.C05.table_read_AUTOUGH2`). -/
theorem cellOf_eq_steppingCell_A (cols : List Str) (t' : Table) (D rest : List Str) (start : Option Int)
    (hcols : t'.cols = cols)
    (hrows : ∀ (j : Nat) d, D[j]? = some d →
      ∃ vals, readTableLineAUTOUGH2 d start = .ok vals ∧ vals.length = cols.length ∧ t'.data[j]? = some vals.toArray)
    (e : Sel) (he : 0 ≤ e.1 ∧ e.1 < D.length) :
    cellOf (fun l => readTableLineAUTOUGH2 l start) (colIdx cols) (D ++ rest) e = steppingCell t' e.1.toNat e := by
  obtain ⟨li, col, rev, si⟩ := e
  simp only at he
  have hj : li.toNat < D.length := by omega
  have hd : D[li.toNat]? = some D[li.toNat] := List.getElem?_eq_getElem hj
  obtain ⟨vals, hv, hl, hdata⟩ := hrows _ _ hd
  have hview := rowView_get t' li.toNat rev vals col hdata (by rw [hcols]; exact hl)
  simp only [cellOf, steppingCell, lineAt_append_left D rest _ _ hd, hview, hcols]
  unfold pickCell
  simp only [hv]
  cases hc : colIdx cols col with
  | none => rfl
  | some vi =>
    have := colIdx_lt _ _ _ hc
    simp only
    rw [List.getElem?_eq_getElem (by omega)]
    rfl

/-- the whole one-pass read of one AUTOUGH2 table at one result time against the stepping reader's table -/
theorem scan_eq_stepping_A (cols : List Str) (t' : Table) (D : List Str) (term : Str) (tail : List Str) (start : Option Int)
    (hcols : t'.cols = cols)
    (hrows : ∀ (j : Nat) d, D[j]? = some d →
      ∃ vals, readTableLineAUTOUGH2 d start = .ok vals ∧ vals.length = cols.length ∧ t'.data[j]? = some vals.toArray)
    (ts : List Sel) (hsel : ∀ e ∈ ts, 0 ≤ e.1 ∧ e.1 < D.length) :
    (scanSel (fun l => readTableLineAUTOUGH2 l start) (colIdx cols) (sortSel ts) 0
        ((D ++ [term]).headD []) ((D ++ [term]).tail ++ tail)).map (·.1)
      = (sortSel ts).mapM (fun e => steppingCell t' e.1.toNat e) := by
  have hL : (D ++ [term]).headD [] :: ((D ++ [term]).tail ++ tail) = D ++ (term :: tail) := by cases D <;> simp
  have h1 := scanSel_eq (fun l => readTableLineAUTOUGH2 l start) (colIdx cols) (D ++ (term :: tail)) (sortSel ts) 0
    ((D ++ [term]).headD []) ((D ++ [term]).tail ++ tail)
    (by rw [← hL]; rfl) (by rw [← hL]; rfl) (sortSel_ascending ts 0 (fun e he => (hsel e he).1))
  refine h1.trans ?_
  apply mapM_congr_mem
  intro e he
  exact cellOf_eq_steppingCell_A cols t' D (term :: tail) start hcols hrows e (hsel e ((sortSel_perm ts).mem_iff.mp he))

/-! ### where history() starts reading: skip_to_results_line from the column header of the region -/

/-- `skip_to_results_line` walks over lines that are not results lines and stops at the first that is -/
theorem skipToResultsLineL_app (e : Int) (X : List Str) (l : Str) (r : List Str) (n k : Nat)
    (hX : ∀ x ∈ X, isResultsLine (strip x) e = false) (hl : isResultsLine (strip l) e = true) :
    skipToResultsLineL e (X ++ l :: r) n k = some (k + X.length, ⟨n + X.length, l :: r⟩) := by
  induction X generalizing n k with
  | nil => simp [skipToResultsLineL, hl]
  | cons a X' ih =>
    simp only [List.cons_append, skipToResultsLineL, hX a List.mem_cons_self, Bool.false_eq_true, if_false]
    rw [ih (n + 1) (k + 1) (fun x hx => hX x (List.mem_cons_of_mem _ hx))]
    simp only [List.length_cons]
    have e1 : k + 1 + X'.length = k + (X'.length + 1) := by omega
    have e2 : n + 1 + X'.length = n + (X'.length + 1) := by omega
    rw [e1, e2]

/-- `read_table_line` as bound for a reader whose `read_table_line` is `read_table_line_AUTOUGH2` -/
theorem readTableLineOf_A (fam : Fam) (t : Table)
    (hfam : (bound fam "read_table_line" == "read_table_line_AUTOUGH2") = true) :
    readTableLineOf fam t = fun l => readTableLineAUTOUGH2 l (t.numpos.headD none) := by
  funext l; simp only [readTableLineOf, hfam, if_true]

/-- from the column header of an AUTOUGH2 table region (where skip_to_table_AUTOUGH2 leaves the file: behind the first blank
    line of the region), `skip_to_results_line` stops at the first printed data line — provided no line of the header block
    looks like a results line and the first data line does -/
theorem skipToResultsLine_region_A (e : Int) (B : List Str) (b2 : Str) (Bl : List Str) (d : Str) (D' : List Str) (term : Str)
    (tail : List Str) (n : Nat)
    (hhead : ∀ x ∈ B ++ b2 :: Bl, isResultsLine (strip x) e = false) (hd : isResultsLine (strip d) e = true) :
    skipToResultsLineL e (B ++ b2 :: (Bl ++ (((d :: D') ++ [term]) ++ tail))) n 1
      = some (1 + (B.length + 1 + Bl.length), ⟨n + (B.length + 1 + Bl.length), ((d :: D') ++ [term]) ++ tail⟩) := by
  have hsplit : B ++ b2 :: (Bl ++ (((d :: D') ++ [term]) ++ tail)) = (B ++ b2 :: Bl) ++ d :: ((D' ++ [term]) ++ tail) := by simp
  rw [hsplit, skipToResultsLineL_app e (B ++ b2 :: Bl) d _ n 1 hhead hd]
  simp only [List.length_append, List.length_cons, List.cons_append]
  have e1 : B.length + (Bl.length + 1) = B.length + 1 + Bl.length := by omega
  rw [e1]

end Proofs.Series2Aut
