/-
  C01 proofs, layer 3k: MESHMAKER, part 3 — MINC and the MESHMAKER section as a whole.
-/
import PyTough.Proofs.T2DataMesh2
set_option linter.unusedSimpArgs false
namespace Proofs.T2
open Py Model Model.T2 Proofs Proofs.Incon
open Gen.Sections (Rec)

/-- `mapM` that succeeds: the results, entry by entry -/
theorem mapM_ok_map {α β : Type} (f : α → Except Exc β) (dflt : β) :
    ∀ (l : List α) (out : List β), l.mapM f = .ok out →
      out = l.map (fun a => match f a with | .ok x => x | .error _ => dflt) ∧ ∀ a ∈ l, ∃ x, f a = .ok x := by
  intro l
  induction l with
  | nil => intro out h; simp only [List.mapM_nil, pure, Except.pure] at h; cases h; exact ⟨rfl, by intro a ha; cases ha⟩
  | cons a as ih =>
    intro out h
    simp only [List.mapM_cons, bind, Except.bind, pure, Except.pure] at h
    cases h1 : f a with
    | error e => rw [h1] at h; cases h
    | ok x =>
      rw [h1] at h
      cases h2 : as.mapM f with
      | error e => rw [h2] at h; cases h
      | ok xs =>
        rw [h2] at h
        cases h
        obtain ⟨e1, e2⟩ := ih xs h2
        refine ⟨by simp only [List.map_cons, h1]; rw [e1], ?_⟩
        intro b hb
        rcases List.mem_cons.mp hb with rfl | hb'
        · exact ⟨x, h1⟩
        · exact e2 b hb'

/-! ### MINC -/

structure MincShape (T : Tabs) (rm r1 r2 : Rec) (fp fty fxx fdu fnc fnv fw fsp f2 : FieldSpec) : Prop where
  tm : T.get c!"minc" = .ok rm
  t1 : T.get c!"part1" = .ok r1
  t2 : T.get c!"part2" = .ok r2
  fsm : rm.fs = [fp, fty, fxx, fdu]
  sp : StrField fp
  sty : StrField fty
  sdu : StrField fdu
  xx : fxx.typ = 'x'
  wp : fp.width = 5
  wty : fty.width = 5
  wxx : fxx.width = 5
  wdu : fdu.width = 5
  fs1 : r1.fs = fnc :: fnv :: fw :: List.replicate 7 fsp
  nnc : NumericTyp fnc.typ
  nnv : fnv.typ = 'd'
  sw : StrField fw
  nsp : NumericTyp fsp.typ
  c2 : ChunkRec r2 8 f2

/-- a MINC block the writer and reader agree on: a five-character TYPE ending in a visible character, DUAL either
    blank or five characters ending in a visible one, WHERE of its field's width, at most seven spacings, and a
    volume count that survives its field -/
structure GoodMinc (fnv fw : FieldSpec) (m : Minc) : Prop where
  type : ∃ a b c d e, m.type = .str [a, b, c, d, e] ∧ isStrWs e = false ∧ '\n' ∉ [a, b, c, d]
  dual : m.dual = .str [' ', ' ', ' ', ' ', ' '] ∨
         ∃ a b c d e, m.dual = .str [a, b, c, d, e] ∧ isStrWs e = false ∧ '\n' ∉ [a, b, c, d]
  wh : ∃ w, m.where_ = .str w ∧ w.length = fw.width ∧ '\n' ∉ w
  spacing : m.spacing.length ≤ 7
  keepNv : canonV fnv (.int (Int.ofNat m.vol.length)) = .int (Int.ofNat m.vol.length)

def canonMinc (fnc fsp f2 : FieldSpec) (m : Minc) : Minc :=
  { type := m.type, dual := if m.dual = .str [' ', ' ', ' ', ' ', ' '] then .str [] else m.dual,
    numContinua := canonV fnc m.numContinua, where_ := m.where_,
    spacing := m.spacing.map (canonV fsp) ++ List.replicate (7 - m.spacing.length) Val.none,
    vol := m.vol.map (canonV f2) }

theorem x_field_write {f : FieldSpec} (hx : f.typ = 'x') (v : Val) : writeField f v = .ok (List.replicate f.width ' ') := by
  unfold writeField
  rw [if_neg (by rw [hx]; simp)]

theorem ws_not_nl {e : Char} (h : isStrWs e = false) : e ≠ '\n' := by
  intro h'; rw [h'] at h; exact absurd h (by decide)

/-- the PART line of MINC, as written -/
theorem minc_part_line {T : Tabs} {rm r1 r2 : Rec} {fp fty fxx fdu fnc fnv fw fsp f2 : FieldSpec}
    (hs : MincShape T rm r1 r2 fp fty fxx fdu fnc fnv fw fsp f2) (ty du : Str) (hty : ty.length = 5) (hdu : du.length = 5)
    (hnt : '\n' ∉ ty) (hnd : '\n' ∉ du) {l : Str}
    (h : writeValuesLine rm [.str c!"PART ", .str ty, .str [], .str du] = .ok l) :
    l = c!"PART " ++ ty ++ [' ', ' ', ' ', ' ', ' '] ++ du ++ ['\n'] := by
  rw [writeValuesLine_eq] at h
  obtain ⟨rec, hw, rfl⟩ := writeLine_ok h
  obtain ⟨strs, h1, rfl⟩ := (writeValues_ok_iff _ _ _).mp hw
  rw [hs.fsm] at h1
  simp only [List.zip_cons_cons, List.zip_nil_right] at h1
  cases h1 with
  | cons ha t1 =>
    cases t1 with
    | cons hb t2 =>
      cases t2 with
      | cons hc t3 =>
        cases t3 with
        | cons hd t4 =>
          cases t4
          simp only at ha hb hc hd
          rw [(str_field_write hs.sp (by rw [hs.wp]; rfl) (by decide)).1] at ha
          rw [(str_field_write hs.sty (by rw [hs.wty]; exact hty) hnt).1] at hb
          rw [x_field_write hs.xx, hs.wxx] at hc
          rw [(str_field_write hs.sdu (by rw [hs.wdu]; exact hdu) hnd).1] at hd
          cases ha; cases hb; cases hc; cases hd
          simp [List.flatten]

theorem minc_lineSpec {rm : Rec} {fp fty fxx fdu : FieldSpec} (hfs : rm.fs = [fp, fty, fxx, fdu]) (wp : fp.width = 5)
    (wty : fty.width = 5) (wxx : fxx.width = 5) (wdu : fdu.width = 5) (line : Str) :
    parseString .default rm.fs line =
      [readField .default fp.typ (slice line 0 5), readField .default fty.typ (slice line 5 10),
       readField .default fxx.typ (slice line 10 15), readField .default fdu.typ (slice line 15 20)].mapM id := by
  unfold parseString lineSpec
  rw [hfs]
  simp only [lineSpec.go, wp, wty, wxx, wdu, List.mapM_cons, List.mapM_nil, id, bind, Except.bind, pure, Except.pure]

/-- the PART line as `read_meshmaker_minc` sees it (stripped) parses to TYPE and DUAL (a blank DUAL as `''`) -/
theorem minc_header {T : Tabs} {rm r1 r2 : Rec} {fp fty fxx fdu fnc fnv fw fsp f2 : FieldSpec}
    (hs : MincShape T rm r1 r2 fp fty fxx fdu fnc fnv fw fsp f2) (m : Minc) (hg : GoodMinc fnv fw m) {l : Str}
    (h : writeValuesLine rm [.str c!"PART ", m.type, .str [], m.dual] = .ok l) :
    keywordOf (strip l) = c!"PART" ∧
    ∃ v0 v2, readValues .default rm (strip l) = .ok [v0, m.type, v2, (canonMinc fnc fsp f2 m).dual] := by
  obtain ⟨a, b, c, d, e, hty, he, hnl⟩ := hg.type
  have hen := ws_not_nl he
  have hnlty : '\n' ∉ [a, b, c, d, e] := by
    simp only [List.mem_cons, List.not_mem_nil, or_false, not_or] at hnl ⊢
    exact ⟨hnl.1, hnl.2.1, hnl.2.2.1, hnl.2.2.2, fun h => hen h.symm⟩
  rcases hg.dual with hdu | ⟨a', b', c', d', e', hdu, he', hnl'⟩
  · -- blank DUAL: the stripped line ends after TYPE
    rw [hty, hdu] at h
    have hl := minc_part_line hs [a, b, c, d, e] [' ', ' ', ' ', ' ', ' '] rfl rfl hnlty (by decide) h
    have hstrip : strip l = ['P', 'A', 'R', 'T', ' ', a, b, c, d, e] := by
      rw [hl]
      have hsp : isStrWs ' ' = true := by decide
      have hnlw : isStrWs '\n' = true := by decide
      have hP : isStrWs 'P' = false := by decide
      simp [strip, stripBy, rstripBy, lstripBy, List.dropWhile, he, hsp, hnlw, hP]
    rw [hstrip]
    refine ⟨by show strip (slice _ 0 5) = _; simp only [slice, List.drop_zero, List.take_succ_cons, List.take_zero, Nat.sub_zero]; decide, ?_⟩
    unfold readValues
    rw [minc_lineSpec hs.fsm hs.wp hs.wty hs.wxx hs.wdu]
    simp only [hs.sp.typ, hs.sty.typ, hs.xx, hs.sdu.typ]
    refine ⟨.str c!"PART ", .none, ?_⟩
    simp [slice, readField, rstripNewline, rstripBy, List.dropWhile, hen, bind, Except.bind, pure, Except.pure,
      PVal.toVal, canonMinc, hdu, hty]
  · have hen' := ws_not_nl he'
    have hnldu : '\n' ∉ [a', b', c', d', e'] := by
      simp only [List.mem_cons, List.not_mem_nil, or_false, not_or] at hnl' ⊢
      exact ⟨hnl'.1, hnl'.2.1, hnl'.2.2.1, hnl'.2.2.2, fun h => hen' h.symm⟩
    rw [hty, hdu] at h
    have hl := minc_part_line hs [a, b, c, d, e] [a', b', c', d', e'] rfl rfl hnlty hnldu h
    have hstrip : strip l = ['P', 'A', 'R', 'T', ' ', a, b, c, d, e, ' ', ' ', ' ', ' ', ' ', a', b', c', d', e'] := by
      rw [hl]
      have hsp : isStrWs ' ' = true := by decide
      have hnlw : isStrWs '\n' = true := by decide
      have hP : isStrWs 'P' = false := by decide
      simp [strip, stripBy, rstripBy, lstripBy, List.dropWhile, he', hsp, hnlw, hP]
    rw [hstrip]
    refine ⟨by show strip (slice _ 0 5) = _; simp only [slice, List.drop_zero, List.take_succ_cons, List.take_zero, Nat.sub_zero]; decide, ?_⟩
    unfold readValues
    rw [minc_lineSpec hs.fsm hs.wp hs.wty hs.wxx hs.wdu]
    simp only [hs.sp.typ, hs.sty.typ, hs.xx, hs.sdu.typ]
    refine ⟨.str c!"PART ", .none, ?_⟩
    have hne : ¬ (Val.str [a', b', c', d', e'] = Val.str [' ', ' ', ' ', ' ', ' ']) := by
      intro hh; injection hh with hh; simp at hh; rw [hh.2.2.2.2] at he'; exact absurd he' (by decide)
    simp [slice, readField, rstripNewline, rstripBy, List.dropWhile, hen, hen', bind, Except.bind, pure, Except.pure,
      PVal.toVal, canonMinc, hdu, hty, hne]


/-- **MINC read back**: the PART line (TYPE, DUAL), the line of continua / volume count / WHERE / spacings and the
    volume fractions in lines of eight -/
theorem minc_roundtrip {T : Tabs} {rm r1 r2 : Rec} {fp fty fxx fdu fnc fnv fw fsp f2 : FieldSpec}
    (hs : MincShape T rm r1 r2 fp fty fxx fdu fnc fnv fw fsp f2) (m : Minc) (hg : GoodMinc fnv fw m)
    {lines : List Str} (hw : writeMinc T m = .ok lines) (rest : List Str) :
    ∃ body, lines = nl c!"MINC" :: body ∧
      readMinc .default T (body ++ rest) = .ok (some (canonMinc fnc fsp f2 m), rest) := by
  obtain ⟨w, hwh, hwl, hwnl⟩ := hg.wh
  unfold writeMinc at hw
  simp only [hs.tm, hs.t1, hs.t2, bind, Except.bind, pure, Except.pure] at hw
  cases hl1 : writeValuesLine rm [.str c!"PART ", m.type, .str [], m.dual] with
  | error e => rw [hl1] at hw; cases hw
  | ok l1 =>
    rw [hl1] at hw
    simp only at hw
    cases hl2 : writeValuesLine r1 ([m.numContinua, .int (Int.ofNat m.vol.length), m.where_] ++ m.spacing) with
    | error e =>
      have : writeValuesLine r1 ([m.numContinua, Val.int ↑m.vol.length, m.where_] ++ m.spacing) = .error e := hl2
      rw [this] at hw; cases hw
    | ok l2 =>
      have hl2' : writeValuesLine r1 ([m.numContinua, Val.int ↑m.vol.length, m.where_] ++ m.spacing) = .ok l2 := hl2
      rw [hl2'] at hw
      simp only at hw
      rw [← ceil8] at hw
      cases hch : writeChunks r2 8 m.vol m.vol.length ((m.vol.length + 8 - 1) / 8) with
      | error e => rw [hch] at hw; cases hw
      | ok cl =>
        rw [hch] at hw
        cases hw
        refine ⟨l1 :: l2 :: cl, rfl, ?_⟩
        obtain ⟨hkw, v0, v2, hhead⟩ := minc_header (fnc := fnc) (fsp := fsp) (f2 := f2) hs m hg hl1
        -- the second line
        have hvalid : ∀ f ∈ r1.fs, ValidTyp f.typ := by
          rw [hs.fs1]; intro f hf
          simp only [List.mem_cons, List.mem_replicate] at hf
          rcases hf with rfl | rfl | rfl | ⟨_, rfl⟩
          · exact NumericTyp.valid hs.nnc
          · unfold ValidTyp; rw [hs.nnv]; simp
          · unfold ValidTyp; rw [hs.sw.typ]; simp
          · exact NumericTyp.valid hs.nsp
        have hnum : ∀ f ∈ r1.fs.drop ([m.numContinua, .int (Int.ofNat m.vol.length), m.where_] ++ m.spacing).length, NumericTyp f.typ := by
          rw [hs.fs1]; intro f hf
          simp only [List.cons_append, List.nil_append, List.length_cons, List.drop_succ_cons] at hf
          have := List.mem_of_mem_drop hf
          rw [(List.mem_replicate.mp this).2]; exact hs.nsp
        have hrd := readValues_written r1 _ hvalid hnum hl2 [] (by intro c hc; cases hc)
        rw [List.append_nil, hs.fs1, hwh] at hrd
        simp only [List.cons_append, List.nil_append, List.zip_cons_cons, List.map_cons, List.length_cons, List.drop_succ_cons,
          hg.keepNv, (str_field_write hs.sw hwl hwnl).2, map_zip_replicate fsp 7 _ hg.spacing, List.drop_replicate,
          List.map_replicate] at hrd
        unfold readMinc
        simp only [List.cons_append, readline, hkw, hs.tm, hs.t1, hs.t2, bind, Except.bind, pure, Except.pure, hhead, hrd,
          List.getD_cons_zero, List.getD_cons_succ, ceilDiv_nat, chunked_roundtrip hs.c2 (by decide) m.vol hch rest,
          take_nat, List.drop_succ_cons, List.drop_zero]
        simp only [show (c!"PART" == c!"PART") = true by decide, if_true]
        rw [List.take_append_of_le_length (by simp), List.take_of_length_le (by simp)]
        simp only [canonMinc, hwh]

/-! ### MESHMAKER as a whole -/

structure MeshShapes (T : Tabs) (rr1 rr2 re rl rl1 rl2 x1 x2 x3 rm p1 p2 : Rec)
    (fcr f0r fcl f0l fdeg ft fx fno fdel f3 fp fty fxx fdu fnc fnv fw fsp f2 : FieldSpec) : Prop where
  rz : RZShape T rr1 rr2 re rl rl1 rl2 fcr f0r fcl f0l
  xyz : XYZShape T x1 x2 x3 fdeg ft fx fno fdel f3
  minc : MincShape T rm p1 p2 fp fty fxx fdu fnc fnv fw fsp f2

/-- a MESHMAKER entry the writer and reader agree on -/
def GoodMesh (re rl : Rec) (f0r ft fno fdel fnv fw : FieldSpec) : MeshMaker → Prop
  | .rz2d subs => GoodRZ re rl f0r subs
  | .xyz _ subs => ∀ s ∈ subs, GoodXYZSub ft fno fdel s
  | .minc m => GoodMinc fnv fw m

def canonMesh (re rl : Rec) (f0r f0l fdeg fdel f3 fnc fsp f2 : FieldSpec) : MeshMaker → MeshMaker
  | .rz2d subs => .rz2d (subs.map (canonRZ re rl f0r f0l))
  | .xyz deg subs => .xyz (canonV fdeg deg) (subs.map (canonXYZSub fdel f3))
  | .minc m => .minc (canonMinc fnc fsp f2 m)

theorem writeRZSub_length {T : Tabs} {s : RZSub} {ls : List Str} (h : writeRZSub T s = .ok ls) : 1 ≤ ls.length := by
  unfold writeRZSub at h
  cases s <;> simp only [bind, Except.bind, pure, Except.pure] at h <;>
    (try split at h) <;> (try split at h) <;> (try cases h) <;> (try (simp only [List.length_cons]; omega))

theorem flatten_length_ge {lss : List (List Str)} (h : ∀ ls ∈ lss, 1 ≤ ls.length) : lss.length ≤ lss.flatten.length := by
  induction lss with
  | nil => simp
  | cons a as ih =>
    have := h a (by simp)
    have := ih (fun x hx => h x (List.mem_cons_of_mem _ hx))
    simp only [List.flatten_cons, List.length_append, List.length_cons]
    omega

/-- **section_roundtrip_MESHM**: the MESHMAKER section — any sequence of RZ2D (RADII / EQUID / LOGAR … LAYER), XYZ
    and MINC blocks — read back block by block, and the closing blank line is consumed -/
theorem section_roundtrip_MESHM {T : Tabs} {rr1 rr2 re rl rl1 rl2 x1 x2 x3 rm p1 p2 : Rec}
    {fcr f0r fcl f0l fdeg ft fx fno fdel f3 fp fty fxx fdu fnc fnv fw fsp f2 : FieldSpec}
    (hs : MeshShapes T rr1 rr2 re rl rl1 rl2 x1 x2 x3 rm p1 p2 fcr f0r fcl f0l fdeg ft fx fno fdel f3 fp fty fxx fdu fnc fnv fw fsp f2) :
    ∀ (mm : List MeshMaker) (lss : List (List Str)), mm.mapM (writeMeshEntry T) = .ok lss →
      (∀ m ∈ mm, GoodMesh re rl f0r ft fno fdel fnv fw m) →
      ∀ (fuel : Nat), mm.length < fuel → ∀ (acc : List MeshMaker) (rest : List Str),
        readMeshMaker .default T fuel acc (lss.flatten ++ nl [] :: rest) =
          .ok (acc ++ mm.map (canonMesh re rl f0r f0l fdeg fdel f3 fnc fsp f2), rest) := by
  intro mm
  induction mm with
  | nil =>
    intro lss h _ fuel hf acc rest
    simp only [List.mapM_nil, pure, Except.pure] at h
    cases h
    cases fuel with
    | zero => simp at hf
    | succ fuel => simp [readMeshMaker, isBlank_nl_nil]
  | cons m mm ih =>
    intro lss h hg fuel hf acc rest
    cases fuel with
    | zero => simp at hf
    | succ fuel =>
      simp only [List.mapM_cons, bind, Except.bind, pure, Except.pure] at h
      cases hm : writeMeshEntry T m with
      | error e => rw [hm] at h; cases h
      | ok ls =>
        rw [hm] at h
        cases hrest : mm.mapM (writeMeshEntry T) with
        | error e => rw [hrest] at h; cases h
        | ok lss' =>
          rw [hrest] at h
          cases h
          have hih := ih lss' hrest (fun x hx => hg x (List.mem_cons_of_mem _ hx)) fuel (by simpa using hf)
          have hgm := hg m (by simp)
          simp only [List.flatten_cons, List.append_assoc, List.map_cons]
          cases m with
          | rz2d subs =>
            unfold writeMeshEntry writeRZ2D at hm
            simp only [bind, Except.bind, pure, Except.pure] at hm
            cases hsub : subs.mapM (writeRZSub T) with
            | error e => rw [hsub] at hm; cases hm
            | ok sl =>
              rw [hsub] at hm
              cases hm
              have hlen : subs.length ≤ (sl.flatten ++ (lss'.flatten ++ nl [] :: rest)).length + 2 := by
                obtain ⟨hmap, hall⟩ := mapM_ok_map (writeRZSub T) [] subs sl hsub
                have h1 : sl.length = subs.length := by rw [hmap]; simp
                have h2 : ∀ ls ∈ sl, 1 ≤ ls.length := by
                  intro ls hls
                  rw [hmap] at hls
                  obtain ⟨s, hsm, rfl⟩ := List.mem_map.mp hls
                  obtain ⟨x, hx⟩ := hall s hsm
                  rw [hx]; exact writeRZSub_length hx
                have := flatten_length_ge h2
                simp only [List.length_append]; omega
              have hrz := rz2d_subs hs.rz subs sl hsub hgm _ hlen (lss'.flatten ++ nl [] :: rest)
              simp only [List.cons_append, List.append_assoc, readMeshMaker, show isBlank (nl c!"RZ2D") = false by decide,
                show keywordOf (nl c!"RZ2D") = c!"RZ2D" by decide, Bool.false_eq_true, if_false,
                show (c!"RZ2D" == c!"RZ2D") = true by decide, if_true, hrz, hih, canonMesh, List.append_assoc,
                List.cons_append, List.nil_append]
          | xyz deg subs =>
            unfold writeMeshEntry at hm
            obtain ⟨body, rfl, hrd⟩ := xyz_roundtrip hs.xyz deg subs hgm hm (lss'.flatten ++ nl [] :: rest)
            simp only [List.cons_append, List.append_assoc, readMeshMaker, show isBlank (nl c!"XYZ") = false by decide,
              show keywordOf (nl c!"XYZ") = c!"XYZ" by decide, Bool.false_eq_true, if_false,
              show (c!"XYZ" == c!"RZ2D") = false by decide, show (c!"XYZ" == c!"XYZ") = true by decide, if_true, hrd, hih,
              canonMesh, List.nil_append]
          | minc mc =>
            unfold writeMeshEntry at hm
            obtain ⟨body, rfl, hrd⟩ := minc_roundtrip hs.minc mc hgm hm (lss'.flatten ++ nl [] :: rest)
            simp only [List.cons_append, List.append_assoc, readMeshMaker, show isBlank (nl c!"MINC") = false by decide,
              show keywordOf (nl c!"MINC") = c!"MINC" by decide, Bool.false_eq_true, if_false,
              show (c!"MINC" == c!"RZ2D") = false by decide, show (c!"MINC" == c!"XYZ") = false by decide,
              show (c!"MINC" == c!"MINC") = true by decide, if_true, hrd, hih, canonMesh, List.nil_append]

end Proofs.T2
