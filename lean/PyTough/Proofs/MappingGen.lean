/-
  C19: t2data.transfer_generators_from onto an identical geometry preserves every generator.
-/
import PyTough.Proofs.MappingRock
namespace Proofs.Mapping
open Py Model.Mapping

theorem rat_div_self (a : Rat) (h : a ≠ 0) : a / a = 1 := by
  rw [Rat.div_def, Rat.mul_inv_cancel a h]

theorem map_mul_one (r : List Rat) : r.map (· * 1) = r := by
  induction r with
  | nil => rfl
  | cons a as ih => simp [Rat.mul_one]

theorem scaleGen_gx (gx : Option Rat) : scaleGx gx 1 = gx := by
  cases gx with
  | none => rfl
  | some x => simp [scaleGx, Rat.mul_one]

theorem scaleGen_one (sg : Gen) (h : ntimes sg ≤ 1 ∨ sg.rate.isSome = true) :
    scaleGen sg 1 = .ok (sg.gx, sg.rate) := by
  unfold scaleGen
  split
  · simp only [scaleGen_gx]
    split
    · rename_i hn
      rcases h with h | h
      · omega
      · cases hr : sg.rate with
        | none => rw [hr] at h; cases h
        | some r => simp only [map_mul_one]
    · rfl
  · rfl

theorem sumQ_single (a : Rat) : sumQ [a] = a := by
  simp [sumQ, Rat.zero_add]

theorem filter_key_singleton {α : Type} (f : α → Str) (xs : List α) (h : nodupB (xs.map f) = true)
    (x : α) (hx : x ∈ xs) : xs.filter (fun y => decide (f y = f x)) = [x] := by
  induction xs with
  | nil => cases hx
  | cons a as ih =>
    obtain ⟨h2, h1⟩ := nodupB_tail f a as h
    rcases List.mem_cons.mp hx with rfl | hx'
    · have : as.filter (fun y => decide (f y = f x)) = [] := by
        rw [List.filter_eq_nil_iff]
        intro y hy
        simpa using h1 y hy
      simp [this]
    · have hne : f a ≠ f x := fun e => h1 x hx' e.symm
      simp [hne, ih h2 hx']

theorem incols_all (cols : List Col) :
    ((cols.zip (cols.map (fun _ => true))).filter (·.2)).map (·.1) = cols := by
  induction cols with
  | nil => rfl
  | cons c cs ih => simp [ih]

/-- the setting of the identity clause, unpacked -/
structure GenSetting (g : Geo) (tgrid : List (Str × Rat)) (flags : List Bool) (m cm : Dict Str) : Prop where
  names : NamesWF g
  tnodup : nodupB (tgrid.map (·.1)) = true
  flags : flags = g.cols.map (fun _ => true)
  mne : m.isEmpty = false
  cmne : cm.isEmpty = false
  mid : ∀ b ∈ tgrid, dget m b.1 = .ok b.1
  cmid : ∀ c ∈ g.cols, dget cm c.name = .ok c.name

theorem genSetting_of (g : Geo) (tgrid : List (Str × Rat)) (flags : List Bool) (m cm : Dict Str)
    (h : genIdentitySetting g tgrid flags m cm = true) : GenSetting g tgrid flags m cm := by
  simp only [genIdentitySetting, Bool.and_eq_true, decide_eq_true_eq, Bool.not_eq_true', List.all_eq_true] at h
  obtain ⟨⟨⟨⟨⟨⟨h1, h2⟩, h3⟩, h4⟩, h5⟩, h6⟩, h7⟩ := h
  exact ⟨namesWF_of g h1, h2, h3, h4, h5, h6, h7⟩

/-- one well-placed generator is transferred to exactly itself -/
theorem transferOneGen_identity (g : Geo) (sgridVol : Dict Rat) (tgrid : List (Str × Rat))
    (top bottom : List Str) (m cm : Dict Str) (rename preserve : Bool) (idx : Nat) (sg : Gen)
    (hset : GenSetting g tgrid (g.cols.map (fun _ => true)) m cm)
    (hp : genPlaced g sgridVol tgrid top bottom sg = true) :
    transferOneGen g g sgridVol tgrid g.cols top bottom m cm rename preserve idx sg =
      .ok [⟨idx, sg.name, sg.block, sg.gx, sg.rate⟩] := by
  simp only [genPlaced, Bool.and_eq_true, Bool.or_eq_true, decide_eq_true_eq] at hp
  obtain ⟨⟨hrate, hname⟩, hplace⟩ := hp
  have hscale := scaleGen_one sg hrate
  unfold transferOneGen
  by_cases hcat : (top ++ bottom).contains (layerName g.conv sg.name) = true
  · rw [if_pos hcat] at hplace ⊢
    -- column generator
    cases hfc : g.findCol (columnName g.conv sg.block) with
    | error e => rw [hfc] at hplace; cases hplace
    | ok c =>
      rw [hfc] at hplace
      simp only [Bool.and_eq_true, decide_eq_true_eq] at hplace
      obtain ⟨harea, hlay⟩ := hplace
      have hcmem : c ∈ g.cols ∧ c.name = columnName g.conv sg.block := by
        unfold Geo.findCol at hfc
        split at hfc
        · rename_i c' hc'
          cases hfc
          exact ⟨List.mem_of_find?_eq_some hc', by simpa using List.find?_some hc'⟩
        · cases hfc
      obtain ⟨hcm, hcn⟩ := hcmem
      have hflag : mapE (colFlag cm (columnName g.conv sg.block)) g.cols =
          .ok (g.cols.map (fun c' => (c', decide (c'.name = columnName g.conv sg.block)))) := by
        apply mapE_ok_of_forall
        intro c' hc'
        unfold colFlag
        rw [hset.cmid c' hc']
      rw [hflag]
      have hmapped : ((g.cols.map (fun c' => (c', decide (c'.name = columnName g.conv sg.block)))).filter (·.2)).map (·.1) = [c] := by
        rw [List.filter_map, List.map_map]
        have : (List.filter ((fun x : Col × Bool => x.2) ∘ fun c' => (c', decide (c'.name = columnName g.conv sg.block))) g.cols)
            = g.cols.filter (fun y => decide (y.name = c.name)) := by
          apply List.filter_congr
          intro x _
          simp [hcn]
        rw [this, filter_key_singleton (fun (c : Col) => c.name) g.cols hset.names.colNodup c hcm]
        rfl
      simp only [hmapped]
      have harea' : (if preserve = true then (.ok (sumQ (List.map (fun x => x.area) [c])) : Except Exc Rat)
          else .ok c.area) = .ok c.area := by
        cases preserve
        · rfl
        · simp [sumQ_single]
      rw [harea']
      simp only
      -- the single mapped column
      cases hl : colGenLayer g top (layerName g.conv sg.name) c with
      | error e => rw [hl] at hlay; cases hlay
      | ok ln =>
        rw [hl] at hlay
        simp only [decide_eq_true_eq] at hlay
        have hone : colGenOne g g top bottom idx sg c.area c = .ok ⟨idx, sg.name, sg.block, sg.gx, sg.rate⟩ := by
          unfold colGenOne
          rw [if_neg harea, rat_div_self c.area harea, hscale]
          rw [hcn] at hlay
          simp only [colGenCategory, if_true, hcn, hname, hl, hlay]
        simp [mapE, hone]
  · rw [if_neg hcat] at hplace ⊢
    cases hv : dget sgridVol sg.block with
    | error e => rw [hv] at hplace; cases hplace
    | ok vol =>
      rw [hv] at hplace
      simp only [Bool.and_eq_true, decide_eq_true_eq, List.contains_eq_mem] at hplace
      obtain ⟨hvol, hmem⟩ := hplace
      simp only
      have hflag : mapE (blkFlag m sg.block) tgrid =
          .ok (tgrid.map (fun b => (b, decide (b.1 = sg.block)))) := by
        apply mapE_ok_of_forall
        intro b hb
        unfold blkFlag
        rw [hset.mid b hb]
      rw [hflag]
      have hmapped : ((tgrid.map (fun b => (b, decide (b.1 = sg.block)))).filter (·.2)).map (·.1) = [(sg.block, vol)] := by
        rw [List.filter_map, List.map_map]
        have : (List.filter ((fun x : (Str × Rat) × Bool => x.2) ∘ fun b => (b, decide (b.1 = sg.block))) tgrid)
            = tgrid.filter (fun y => decide (y.1 = (sg.block, vol).1)) := by
          apply List.filter_congr
          intro x _
          simp
        rw [this, filter_key_singleton (fun (b : Str × Rat) => b.1) tgrid hset.tnodup (sg.block, vol) hmem]
        rfl
      simp only [hmapped]
      have hvol' : (if preserve = true then sumQ (List.map (fun x => x.2) [(sg.block, vol)]) else vol) = vol := by
        cases preserve
        · rfl
        · simp [sumQ_single]
      rw [hvol']
      have hone : blkGenOne g g rename idx sg vol (sg.block, vol) = .ok ⟨idx, sg.name, sg.block, sg.gx, sg.rate⟩ := by
        unfold blkGenOne
        rw [if_neg hvol, rat_div_self vol hvol, hscale]
        cases rename
        · simp
        · simp only [if_true, hname]
      simp [mapE, hone]

/-- Onto an identical geometry (identity block and column mappings, every column inside the
    source, equal block volumes) every well-placed generator is reproduced item for item,
    with and without renaming, with and without preservation of totals. -/
theorem generators_identity (q : List (Rat × Rat) → Rat × Rat → Nat) (gens : List Gen) (g : Geo)
    (sgridVol : Dict Rat) (tgrid : List (Str × Rat)) (flags : List Bool) (top bottom : List Str)
    (m cm : Dict Str) (rename preserve : Bool)
    (hset : genIdentitySetting g tgrid flags m cm = true)
    (hgens : ∀ sg ∈ gens, genPlaced g sgridVol tgrid top bottom sg = true) :
    transferGenerators q gens g g sgridVol tgrid flags top bottom m cm rename preserve =
      .ok ((enumFrom 0 gens).map (fun p => ⟨p.1, p.2.name, p.2.block, p.2.gx, p.2.rate⟩)) := by
  have hs := genSetting_of g tgrid flags m cm hset
  have hf := hs.flags
  subst hf
  unfold transferGenerators effectiveMaps
  simp only [hs.mne, hs.cmne, Bool.or_self, Bool.false_eq_true, if_false, incols_all]
  have hall : ∀ n (l : List Gen), (∀ sg ∈ l, genPlaced g sgridVol tgrid top bottom sg = true) →
      mapE (genStep g g sgridVol tgrid g.cols top bottom m cm rename preserve) (enumFrom n l) =
        .ok ((enumFrom n l).map (fun p => [(⟨p.1, p.2.name, p.2.block, p.2.gx, p.2.rate⟩ : GenOut)])) := by
    intro n l hl
    apply mapE_ok_of_forall
    intro p hp
    unfold genStep
    apply transferOneGen_identity g sgridVol tgrid top bottom m cm rename preserve p.1 p.2 hs
    apply hl
    clear hl
    induction l generalizing n with
    | nil => cases hp
    | cons a as ih =>
      simp only [enumFrom, List.mem_cons] at hp
      rcases hp with rfl | hp
      · simp
      · exact List.mem_cons_of_mem _ (ih (n + 1) hp)
  rw [hall 0 gens hgens]
  simp only
  congr 1
  generalize enumFrom 0 gens = l
  induction l with
  | nil => rfl
  | cons a as ih => simp only [List.map_cons, List.flatten_cons, ih, List.singleton_append]

/-- hence the list of (gx, rate) — and with it every total — is unchanged -/
theorem generators_totals_identity (q : List (Rat × Rat) → Rat × Rat → Nat) (gens : List Gen) (g : Geo)
    (sgridVol : Dict Rat) (tgrid : List (Str × Rat)) (flags : List Bool) (top bottom : List Str)
    (m cm : Dict Str) (rename preserve : Bool)
    (hset : genIdentitySetting g tgrid flags m cm = true)
    (hgens : ∀ sg ∈ gens, genPlaced g sgridVol tgrid top bottom sg = true) :
    ∃ outs, transferGenerators q gens g g sgridVol tgrid flags top bottom m cm rename preserve = .ok outs ∧
      outs.map (fun o => (o.gx, o.rate)) = gens.map (fun sg => (sg.gx, sg.rate)) := by
  refine ⟨_, generators_identity q gens g sgridVol tgrid flags top bottom m cm rename preserve hset hgens, ?_⟩
  rw [List.map_map]
  clear hgens
  generalize 0 = n
  induction gens generalizing n with
  | nil => rfl
  | cons a as ih =>
    simp only [enumFrom, List.map_cons, Function.comp_apply, List.cons.injEq, true_and]
    exact ih (n + 1)

end Proofs.Mapping
