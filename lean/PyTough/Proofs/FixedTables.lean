import PyTough.Proofs.FixedRecord
import PyTough.Gen.Specs
namespace Proofs
open Py Model

/-- what the theorems need of one field specification -/
def fieldOK (f : FieldSpec) : Bool :=
  decide (0 < f.width) &&
  (if f.typ = 'e' ∨ f.typ = 'f' then
      (match f.prec with | some p => decide (p < f.width) | none => false) && f.raw.contains '.' && !f.left
   else (f.typ = 's' ∨ f.typ = 'd' ∨ f.typ = 'x') && f.prec.isNone && (!f.left || f.typ = 's'))

/-- one record kind of a generated table: the specs parse, the model's `line_spec` is the one
    the real `preprocess_specification` computed, every field is well formed, `spec_width` agrees -/
def sectionOK (t : Gen.Specs.Table) (sec : Gen.Specs.Section) : Bool :=
  match parseSpecs (sec.specs.map String.toList) with
  | .error _ => false
  | .ok fs =>
    decide (sec.names.length = sec.specs.length) &&
    decide ((lineSpec fs).map (fun sp => ((sp.1.1 : Int), (sp.1.2 : Int), sp.2)) = sec.lineSpec) &&
    fs.all fieldOK &&
    fs.all (fun f => (t.specWidth.map (fun kw => (kw.1.toList, kw.2))).lookup f.raw == some (f.width : Int))

def tableOK (t : Gen.Specs.Table) : Bool := t.sections.all (sectionOK t)

set_option maxRecDepth 100000 in
theorem all_tables_ok : Gen.Specs.tables.all tableOK = true := by decide +kernel


/-- field well-formedness as a proposition (what `fieldOK` decides) -/
structure FieldWF (f : FieldSpec) : Prop where
  width_pos : 0 < f.width
  typ_known : f.typ = 's' ∨ f.typ = 'd' ∨ f.typ = 'x' ∨ f.typ = 'e' ∨ f.typ = 'f'
  real_prec : f.typ = 'e' ∨ f.typ = 'f' → ∃ p, f.prec = some p ∧ p < f.width ∧ f.raw.contains '.' = true
  other_prec : f.typ = 's' ∨ f.typ = 'd' ∨ f.typ = 'x' → f.prec = none
  left_only_names : f.left = true → f.typ = 's'

theorem fieldWF_of_ok {f : FieldSpec} (h : fieldOK f = true) : FieldWF f := by
  unfold fieldOK at h
  simp only [Bool.and_eq_true, decide_eq_true_eq] at h
  obtain ⟨hw, h2⟩ := h
  by_cases hr : f.typ = 'e' ∨ f.typ = 'f'
  · rw [if_pos hr] at h2
    simp only [Bool.and_eq_true, Bool.not_eq_true'] at h2
    obtain ⟨⟨hp, hdot⟩, hleft⟩ := h2
    have hex : ∃ p, f.prec = some p ∧ p < f.width := by
      cases hpp : f.prec with
      | none => rw [hpp] at hp; cases hp
      | some p => rw [hpp] at hp; exact ⟨p, rfl, by simpa using hp⟩
    obtain ⟨p, hp1, hp2⟩ := hex
    refine ⟨hw, ?_, fun _ => ⟨p, hp1, hp2, hdot⟩, ?_, ?_⟩
    · rcases hr with h | h
      · exact Or.inr (Or.inr (Or.inr (Or.inl h)))
      · exact Or.inr (Or.inr (Or.inr (Or.inr h)))
    · intro h'
      rcases hr with h | h <;> rcases h' with h' | h' | h' <;> rw [h] at h' <;> exact absurd h' (by decide)
    · intro hl; rw [hl] at hleft; cases hleft
  · rw [if_neg hr] at h2
    simp only [Bool.and_eq_true, Bool.or_eq_true, Bool.not_eq_true', decide_eq_true_eq,
      Option.isNone_iff_eq_none] at h2
    obtain ⟨⟨ht, hp⟩, hleft⟩ := h2
    refine ⟨hw, ?_, fun h => absurd h hr, fun _ => hp, ?_⟩
    · rcases ht with h | h | h
      · exact Or.inl h
      · exact Or.inr (Or.inl h)
      · exact Or.inr (Or.inr (Or.inl h))
    · intro hl
      rcases hleft with h | h
      · rw [hl] at h; cases h
      · exact h

/-- lifting of the table-wide `decide` to every record kind of the four generated tables -/
theorem tables_wf : ∀ t ∈ Gen.Specs.tables, ∀ sec ∈ t.sections,
    ∃ fs, parseSpecs (sec.specs.map String.toList) = .ok fs ∧
      (lineSpec fs).map (fun sp => ((sp.1.1 : Int), (sp.1.2 : Int), sp.2)) = sec.lineSpec ∧
      sec.names.length = sec.specs.length ∧
      ∀ f ∈ fs, FieldWF f ∧
        (t.specWidth.map (fun kw => (kw.1.toList, kw.2))).lookup f.raw = some (f.width : Int) := by
  intro t ht sec hsec
  have h1 := List.all_eq_true.mp all_tables_ok t ht
  have h2 := List.all_eq_true.mp h1 sec hsec
  unfold sectionOK at h2
  cases hp : parseSpecs (sec.specs.map String.toList) with
  | error e => rw [hp] at h2; cases h2
  | ok fs =>
    rw [hp] at h2
    simp only [Bool.and_eq_true, decide_eq_true_eq, List.all_eq_true] at h2
    obtain ⟨⟨⟨ha, hb⟩, hc⟩, hd⟩ := h2
    exact ⟨fs, rfl, hb, ha, fun f hf => ⟨fieldWF_of_ok (hc f hf), by simpa using hd f hf⟩⟩


/-! ### a write fails only when no precision fits -/

theorem fitGo_error {f : FieldSpec} {v : Val} {e : Exc} : ∀ (fuel p : Nat), p < fuel →
    (∀ q, q ≤ p → ∃ t, fmtVal (atPrec f q) v = .ok t) → fitValue.go f v fuel p = .error e →
    e = .valueError ∧ ∀ q, q ≤ p → ∀ t, fmtVal (atPrec f q) v = .ok t → f.width < t.length := by
  intro fuel
  induction fuel with
  | zero => intro p hp; omega
  | succ fuel ih =>
    intro p hp hall h
    obtain ⟨t0, ht0⟩ := hall p (Nat.le_refl _)
    unfold fitValue.go at h
    have ht0' : fmtVal { f with left := false, prec := some p } v = .ok t0 := ht0
    rw [ht0'] at h
    simp only at h
    by_cases hfit : t0.length ≤ f.width
    · rw [if_pos hfit] at h; cases h
    · rw [if_neg hfit] at h
      by_cases hp0 : p = 0
      · rw [if_pos hp0] at h
        cases h
        refine ⟨rfl, fun q hq t ht => ?_⟩
        have : q = p := by omega
        subst this
        rw [ht0] at ht; cases ht; omega
      · rw [if_neg hp0] at h
        obtain ⟨h1, h2⟩ := ih (p - 1) (by omega) (fun q hq => hall q (by omega)) h
        refine ⟨h1, fun q hq t ht => ?_⟩
        by_cases e : q = p
        · subst e; rw [ht0] at ht; cases ht; omega
        · exact h2 q (by omega) t ht

/-- In a well-formed `%e` field a real is rejected only with `ValueError`, and only when it is
    too wide at *every* precision from the field's own down to 0. -/
theorem writeField_e_error {f : FieldSpec} (hwf : FieldWF f) (ht : f.typ = 'e') (r : Rat) {e : Exc}
    (h : writeField f (.real r) = .error e) :
    e = .valueError ∧ ∀ q, q ≤ f.prec.getD 6 → f.width <
      (pad false f.width (signChars (decide (r < 0)) ++ fmtEBody q r.num.natAbs r.den)).length := by
  obtain ⟨p, hp, hpw, hdot⟩ := hwf.real_prec (Or.inl ht)
  have hfull := fmtVal_e_real ht r
  have hall : ∀ q, fmtVal (atPrec f q) (.real r) =
      .ok (pad false f.width (signChars (decide (r < 0)) ++ fmtEBody q r.num.natAbs r.den)) := fun q =>
    fmtVal_e_real (f := atPrec f q) ht r
  have hleft : f.left = false := by
    cases hl : f.left with
    | false => rfl
    | true => have := hwf.left_only_names hl; rw [ht] at this; exact absurd this (by decide)
  unfold writeField at h
  rw [if_pos ⟨by simp, by rw [ht]; decide⟩, hfull] at h
  simp only at h
  split at h
  · rename_i hwide
    unfold fitValue at h
    rw [if_pos (by rw [hdot, ht]; decide), hp] at h
    cases p with
    | zero =>
      simp only at h
      cases h
      refine ⟨rfl, fun q hq => ?_⟩
      rw [hp] at hq hwide
      simp only [Option.getD_some, Nat.le_zero_eq] at hq hwide
      subst hq
      rw [hleft] at hwide
      exact hwide
    | succ p =>
      simp only at h
      obtain ⟨h1, h2⟩ := fitGo_error (p + 1) p (by omega) (fun q _ => ⟨_, hall q⟩) h
      refine ⟨h1, fun q hq => ?_⟩
      rw [hp] at hq hwide
      simp only [Option.getD_some] at hq hwide
      by_cases e : q = p + 1
      · subst e; rw [hleft] at hwide; exact hwide
      · exact h2 q (by omega) _ (hall q)
  · cases h

end Proofs
