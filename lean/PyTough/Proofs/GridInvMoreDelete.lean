/-
  C08, round 3: `delete_connection` / `delete_block` described exactly — which list entries,
  dictionary keys and connection records go, and that nothing else is touched.
-/
import PyTough.Proofs.GridInvMore
namespace Proofs.Grid
open Py Model Model.Grid Model.Grid.World

/-- a block record after `delete_connection`: only `connection_name` of the two ends changes -/
theorem bk_delConWorld (w : World) (k : CName) (c b0 b1 x : Nat) :
    (delConWorld w k c b0 b1).bk x = w.bk x ∨
    (delConWorld w k c b0 b1).bk x = { w.bk x with conn := (w.bk x).conn.erase k } := by
  simp only [delConWorld, World.bk, getD_set, List.length_set]
  split
  · rename_i h; rw [← h.1]; exact Or.inr rfl
  · split
    · rename_i h; rw [← h.1]; exact Or.inr rfl
    · exact Or.inl rfl

/-- exact effect of one `delete_connection(k)` on a consistent grid -/
theorem deleteConnection_exact {w : World} (hI : Grid.Inv w) (k : CName) :
    ∃ w', deleteConnection w k = .ok w' ∧ Grid.Inv w' ∧
      w'.cons = w.cons ∧ w'.rocks = w.rocks ∧ w'.rocktypelist = w.rocktypelist ∧ w'.rocktype = w.rocktype ∧
      w'.blocklist = w.blocklist ∧ w'.block = w.block ∧
      (∀ x, (w'.bk x).name = (w.bk x).name ∧ (w'.bk x).rock = (w.bk x).rock ∧ (w'.bk x).volume = (w.bk x).volume ∧
            (w'.bk x).centre = (w.bk x).centre) ∧
      w'.connectionlist = w.connectionlist.filter (fun c => decide (w.ckey c ≠ k)) ∧
      (∀ k', dget w'.connection k' = if k = k' then none else dget w.connection k') ∧
      (∀ x ∈ w.blocklist, ∀ k', k' ∈ (w'.bk x).conn ↔ k' ∈ (w.bk x).conn ∧ k' ≠ k) := by
  obtain ⟨w', h⟩ := deleteConnection_isOk hI k
  have hI' : Grid.Inv w' := by have := deleteConnection_inv hI k; rw [h] at this; exact this
  obtain ⟨p1, p2, p3, p4, p5, p6, p7⟩ := deleteConnection_props hI h
  refine ⟨w', h, hI', ?_, p3, p4, p5, p1, p2, ?_, ?_, ?_, ?_⟩
  · cases hd : dget w.connection k with
    | none => simp only [deleteConnection, hd, Except.ok.injEq] at h; subst h; rfl
    | some c => rw [deleteConnection_ok hI hd, Except.ok.injEq] at h; subst h; rfl
  · intro x
    cases hd : dget w.connection k with
    | none => simp only [deleteConnection, hd, Except.ok.injEq] at h; subst h; exact ⟨rfl, rfl, rfl, rfl⟩
    | some c =>
      rw [deleteConnection_ok hI hd, Except.ok.injEq] at h; subst h
      rcases bk_delConWorld w k c (w.cn c).b0 (w.cn c).b1 x with e | e <;> rw [e] <;> exact ⟨rfl, rfl, rfl, rfl⟩
  · cases hd : dget w.connection k with
    | none =>
      simp only [deleteConnection, hd, Except.ok.injEq] at h; subst h
      symm; apply List.filter_eq_self.mpr
      intro c hc
      have := hI.cd_complete c hc
      simp only [ne_eq, decide_eq_true_eq]
      intro e; rw [e, hd] at this; cases this
    | some c =>
      have hc := hI.cd_sound k c hd
      rw [deleteConnection_ok hI hd, Except.ok.injEq] at h; subst h
      show w.connectionlist.erase c = _
      rw [hI.cl_nodup.erase_eq_filter]
      apply List.filter_congr
      intro c' hc'
      by_cases e : c' = c
      · subst e; simp [hc.2]
      · have : w.ckey c' ≠ k := by
          intro e2; exact e (hI.conInv.key_inj hc' hc.1 (e2.trans hc.2.symm))
        simp [e, this]
  · intro k'
    cases hd : dget w.connection k with
    | none =>
      simp only [deleteConnection, hd, Except.ok.injEq] at h; subst h
      split
      · rename_i e; subst e; exact hd
      · rfl
    | some c =>
      rw [deleteConnection_ok hI hd, Except.ok.injEq] at h; subst h
      exact dget_ddel _ _ _
  · intro x hx k'
    constructor
    · intro hk'
      refine ⟨p6 x k' hk', ?_⟩
      intro e; subst e; exact p7 x hx hk'
    · rintro ⟨hk', hne⟩
      cases hd : dget w.connection k with
      | none => simp only [deleteConnection, hd, Except.ok.injEq] at h; subst h; exact hk'
      | some c =>
        rw [deleteConnection_ok hI hd, Except.ok.injEq] at h; subst h
        rcases bk_delConWorld w k c (w.cn c).b0 (w.cn c).b1 x with e | e <;> rw [e]
        · exact hk'
        · exact (List.mem_erase_of_ne hne).mpr hk'

/-- exact effect of the loop of `delete_block` over a list of connection names -/
theorem deleteConnections_exact {w : World} (hI : Grid.Inv w) (l : List CName) :
    ∃ w', deleteConnections w l = .ok w' ∧ Grid.Inv w' ∧
      w'.cons = w.cons ∧ w'.rocks = w.rocks ∧ w'.rocktypelist = w.rocktypelist ∧ w'.rocktype = w.rocktype ∧
      w'.blocklist = w.blocklist ∧ w'.block = w.block ∧
      (∀ x, (w'.bk x).name = (w.bk x).name ∧ (w'.bk x).rock = (w.bk x).rock ∧ (w'.bk x).volume = (w.bk x).volume ∧
            (w'.bk x).centre = (w.bk x).centre) ∧
      w'.connectionlist = w.connectionlist.filter (fun c => decide (w.ckey c ∉ l)) ∧
      (∀ k', dget w'.connection k' = if k' ∈ l then none else dget w.connection k') ∧
      (∀ x ∈ w.blocklist, ∀ k', k' ∈ (w'.bk x).conn ↔ k' ∈ (w.bk x).conn ∧ k' ∉ l) := by
  induction l generalizing w with
  | nil =>
    refine ⟨w, rfl, hI, rfl, rfl, rfl, rfl, rfl, rfl, fun _ => ⟨rfl, rfl, rfl, rfl⟩, ?_, ?_, ?_⟩
    · exact (List.filter_eq_self.mpr (by simp)).symm
    · simp
    · simp
  | cons k r ih =>
    obtain ⟨w1, h1, hI1, a1, a2, a3, a4, a5, a6, a7, a8, a9, a10⟩ := deleteConnection_exact hI k
    obtain ⟨w2, h2, hI2, b1, b2, b3, b4, b5, b6, b7, b8, b9, b10⟩ := ih hI1
    have hkey : ∀ c, w1.ckey c = w.ckey c := by
      intro c
      simp only [World.ckey, World.bname, World.cn, a1, (a7 _).1]
    refine ⟨w2, by simp only [deleteConnections, h1, h2], hI2, b1.trans a1, b2.trans a2, b3.trans a3, b4.trans a4,
            b5.trans a5, b6.trans a6, ?_, ?_, ?_, ?_⟩
    · intro x
      exact ⟨(b7 x).1.trans (a7 x).1, (b7 x).2.1.trans (a7 x).2.1, (b7 x).2.2.1.trans (a7 x).2.2.1,
             (b7 x).2.2.2.trans (a7 x).2.2.2⟩
    · rw [b8, a8, List.filter_filter]
      apply List.filter_congr
      intro c _
      rw [hkey c]
      by_cases e1 : w.ckey c = k
      · simp [e1]
      · by_cases e2 : w.ckey c ∈ r
        · simp [e1, e2]
        · simp [e1, e2]
    · intro k'
      rw [b9, a9]
      by_cases e1 : k = k'
      · subst e1; simp
      · by_cases e2 : k' ∈ r
        · simp [e2]
        · have : k' ≠ k := fun e => e1 e.symm
          simp [e1, e2, this]
    · intro x hx k'
      rw [b10 x (a5 ▸ hx) k', a10 x hx k']
      simp only [List.mem_cons, not_or]
      constructor
      · rintro ⟨⟨p, q⟩, s⟩; exact ⟨p, q, s⟩
      · rintro ⟨p, q, s⟩; exact ⟨⟨p, q⟩, s⟩

/-- for a listed connection: its key is in block `b`'s record iff it mentions `b` -/
theorem ckey_mem_conn_iff {w : World} (hI : Grid.Inv w) {b c : Nat} (hb : b ∈ w.blocklist) (hc : c ∈ w.connectionlist) :
    w.ckey c ∈ (w.bk b).conn ↔ ((w.cn c).b0 = b ∨ (w.cn c).b1 = b) := by
  rw [hI.conn_iff b hb]
  constructor
  · rintro ⟨c', hc', e, hm⟩
    have := hI.conInv.key_inj hc' hc e
    subst this; exact hm
  · intro hm; exact ⟨c, hc, rfl, hm⟩

/-- **`delete_block(nm)` deletes exactly the block and the connections that mention it.** -/
theorem deleteBlock_exact {w : World} (hI : Grid.Inv w) {nm : Name} {b : Nat} (hd : dget w.block nm = some b) :
    ∃ w', deleteBlock w nm = .ok w' ∧ Grid.Inv w' ∧
      w'.cons = w.cons ∧ w'.rocks = w.rocks ∧ w'.rocktypelist = w.rocktypelist ∧ w'.rocktype = w.rocktype ∧
      w'.blocklist = w.blocklist.erase b ∧
      (∀ n, dget w'.block n = if nm = n then none else dget w.block n) ∧
      (∀ x, (w'.bk x).name = (w.bk x).name ∧ (w'.bk x).rock = (w.bk x).rock ∧ (w'.bk x).volume = (w.bk x).volume ∧
            (w'.bk x).centre = (w.bk x).centre) ∧
      w'.connectionlist = w.connectionlist.filter (fun c => (w.cn c).b0 != b && (w.cn c).b1 != b) ∧
      (∀ k, dget w'.connection k = if k ∈ (w.bk b).conn then none else dget w.connection k) ∧
      (∀ x ∈ w.blocklist, ∀ k, k ∈ (w'.bk x).conn ↔ k ∈ (w.bk x).conn ∧ k ∉ (w.bk b).conn) := by
  have hb := hI.bd_sound _ _ hd
  obtain ⟨w1, h1, hI1, a1, a2, a3, a4, a5, a6, a7, a8, a9, a10⟩ := deleteConnections_exact hI (w.bk b).conn
  have hnil : (w1.bk b).conn = [] := by
    apply List.eq_nil_iff_forall_not_mem.mpr
    intro k hk
    exact ((a10 b hb.1 k).mp hk).2 ((a10 b hb.1 k).mp hk).1
  have hd1 : dget w1.block nm = some b := a6 ▸ hd
  have hb1 : b ∈ w1.blocklist := a5 ▸ hb.1
  have hI2 := removeBlock_inv hI1 hd1 hnil
  refine ⟨_, by simp only [deleteBlock, hd, h1, hb1, if_true], hI2, a1, a2, a3, a4, ?_, ?_, a7, ?_, a9, a10⟩
  · show w1.blocklist.erase b = _
    rw [a5]
  · intro n
    show dget (ddel w1.block nm) n = _
    rw [dget_ddel, a6]
  · show w1.connectionlist = _
    rw [a8]
    apply List.filter_congr
    intro c hc
    have := ckey_mem_conn_iff hI hb.1 hc
    by_cases e : w.ckey c ∈ (w.bk b).conn
    · rcases this.mp e with m | m <;> simp [e, m]
    · have hm : ¬ ((w.cn c).b0 = b ∨ (w.cn c).b1 = b) := fun m => e (this.mpr m)
      simp only [not_or] at hm
      simp [e, hm.1, hm.2]

end Proofs.Grid
