import PyTough.Model.Fixed
import PyTough.Proofs.StrLemmas
import PyTough.Proofs.FortranReals
namespace Proofs
open Py Model

/-! ### decimal digits of a natural number (`Nat.toDigits 10`) -/

theorem isDigit_of_charIsDigit {c : Char} (h : c.isDigit = true) : isDigit c = true := by
  simp only [Char.isDigit, Bool.and_eq_true, decide_eq_true_eq] at h
  simp only [isDigit, Bool.and_eq_true, decide_eq_true_eq]
  exact ⟨h.1, h.2⟩

theorem natDigits_isDigit (n : Nat) : ∀ c ∈ natDigits n, isDigit c = true := fun _ hc =>
  isDigit_of_charIsDigit (Nat.isDigit_of_mem_toDigits (by decide) (by decide) hc)

theorem natDigits_ne_nil (n : Nat) : natDigits n ≠ [] := Nat.toDigits_ne_nil

theorem digitsVal_eq (ds : Str) : digitsVal ds = Nat.ofDigitChars 10 ds 0 := rfl

theorem digitsVal_natDigits (n : Nat) : digitsVal (natDigits n) = n := by
  rw [digitsVal_eq]; exact Nat.ofDigitChars_ten_toDigits

theorem digitsVal_append (a b : Str) : digitsVal (a ++ b) = digitsVal a * 10 ^ b.length + digitsVal b := by
  rw [digitsVal_eq, digitsVal_eq, digitsVal_eq, Nat.ofDigitChars_append,
    Nat.ofDigitChars_eq_ofDigitChars_zero, Nat.mul_comm]

theorem digitsVal_zeros (k : Nat) : digitsVal (List.replicate k '0') = 0 := by
  rw [digitsVal_eq, Nat.ofDigitChars_replicate_zero]; simp

/-- number of decimal digits -/
theorem natDigits_length_le_iff {n k : Nat} (h : 0 < k) : (natDigits n).length ≤ k ↔ n < 10 ^ k :=
  Nat.length_toDigits_le_iff (by decide) h

theorem natDigits_length_pos (n : Nat) : 0 < (natDigits n).length := Nat.length_toDigits_pos

/-- `n` has exactly `k+1` digits iff `10^k ≤ n < 10^(k+1)` (for `n > 0` or `k = 0`) -/
theorem natDigits_length_eq {n k : Nat} (hlo : 10 ^ k ≤ n) (hhi : n < 10 ^ (k + 1)) :
    (natDigits n).length = k + 1 := by
  have h1 := (natDigits_length_le_iff (n := n) (k := k + 1) (by omega)).mpr hhi
  cases k with
  | zero => have := natDigits_length_pos n; omega
  | succ k =>
    have h2 : ¬ (natDigits n).length ≤ k + 1 := by
      rw [natDigits_length_le_iff (by omega)]; omega
    omega

theorem zfill_length (k m : Nat) : (zfill k m).length = max k (natDigits m).length := by
  simp only [zfill, List.length_append, List.length_replicate]; omega

theorem zfill_isDigit (k m : Nat) : ∀ c ∈ zfill k m, isDigit c = true := by
  intro c hc
  simp only [zfill, List.mem_append, List.mem_replicate] at hc
  rcases hc with ⟨_, rfl⟩ | h
  · decide
  · exact natDigits_isDigit m c h

theorem digitsVal_zfill (k m : Nat) : digitsVal (zfill k m) = m := by
  simp only [zfill]
  rw [digitsVal_append, digitsVal_zeros, digitsVal_natDigits]; simp

theorem zfill_ne_nil (k m : Nat) : zfill k m ≠ [] := by
  intro h
  have h1 := congrArg List.length h
  rw [zfill_length] at h1
  have h2 := natDigits_length_pos m
  simp only [List.length_nil] at h1; omega

theorem zfill_length_of_lt {k m : Nat} (hk : 0 < k) (h : m < 10 ^ k) : (zfill k m).length = k := by
  rw [zfill_length]
  have := (natDigits_length_le_iff (n := m) hk).mpr h
  omega

end Proofs
