import PyTough.Proofs.InconLines
import PyTough.Proofs.InconNames
namespace Proofs.Incon
open Py Model Model.Incon Model.Names Proofs

/-! ### readable values -/

def IsReal (v : Val) : Prop := ∃ r, v = .real r
def IsRealOrNone (v : Val) : Prop := v = .none ∨ ∃ r, v = .real r
def IsIntOrNone (v : Val) : Prop := v = .none ∨ ∃ i, v = .int i

theorem numeric_of_e {f : FieldSpec} (h : f.typ = 'e') : NumericTyp f.typ := Or.inr (Or.inl h)
theorem numeric_of_d {f : FieldSpec} (h : f.typ = 'd') : NumericTyp f.typ := Or.inl h

theorem readable_real (rf : ReadFn) {f : FieldSpec} (ht : f.typ = 'e') {v : Val} (hv : IsReal v) :
    Readable rf f v ∧ (∀ s, writeField f v = .ok s → reparse rf f v ≠ .none) := by
  obtain ⟨r, rfl⟩ := hv
  constructor
  · intro s hs
    obtain ⟨q, _, hq⟩ := roundtrip_e_real rf ht r hs
    rw [ht]; exact ⟨_, hq⟩
  · intro s hs
    obtain ⟨q, _, hq⟩ := roundtrip_e_real rf ht r hs
    unfold reparse
    rw [hs]; simp only; rw [ht, hq]; simp

theorem readable_none (rf : ReadFn) {f : FieldSpec} (ht : NumericTyp f.typ) :
    Readable rf f .none ∧ reparse rf f .none = .none := by
  obtain ⟨h1, h2⟩ := roundtrip_absent rf (f := f) (v := .none) (Or.inl rfl)
  have h3 := h2 ht
  constructor
  · intro s hs; rw [h1] at hs; cases hs; exact ⟨_, h3⟩
  · unfold reparse; rw [h1]; simp only; rw [h3]

theorem readable_realOrNone (rf : ReadFn) {f : FieldSpec} (ht : f.typ = 'e') {v : Val} (hv : IsRealOrNone v) :
    Readable rf f v := by
  rcases hv with rfl | hv
  · exact (readable_none rf (numeric_of_e ht)).1
  · exact (readable_real rf ht hv).1

theorem readable_intOrNone (rf : ReadFn) {f : FieldSpec} (ht : f.typ = 'd') {v : Val} (hv : IsIntOrNone v) :
    Readable rf f v := by
  rcases hv with rfl | ⟨i, rfl⟩
  · exact (readable_none rf (numeric_of_d ht)).1
  · intro s hs; rw [ht]; exact ⟨_, roundtrip_d_int rf ht i hs⟩

theorem readable_str (rf : ReadFn) {f : FieldSpec} (ht : f.typ = 's') (nm : Str) : Readable rf f (.str nm) := by
  intro s _; rw [ht]; exact ⟨_, read_name rf s⟩

/-- a five-character name without newline in a `5s` field is written as itself and read back as itself -/
theorem reparse_name (rf : ReadFn) {f : FieldSpec} (ht : f.typ = 's') (hp : f.prec = none) (hw : f.width = 5)
    {nm : Str} (hlen : nm.length = 5) (hnl : ∀ c, nm.getLast? = some c → c ≠ '\n') :
    writeField f (.str nm) = .ok nm ∧ reparse rf f (.str nm) = .str nm := by
  have hpad : pad f.left f.width nm = nm := by
    unfold pad ljust rjust; cases f.left <;> simp [hw, hlen]
  have hf : fmtVal f (.str nm) = .ok nm := by
    rw [fmtVal_s_str ht, hp]; simp only [strTrunc]; rw [hpad]
  have hwf : writeField f (.str nm) = .ok nm := by
    unfold writeField
    rw [if_pos ⟨by simp, by rw [ht]; decide⟩, hf]
    simp only
    rw [if_neg (by omega)]
  refine ⟨hwf, ?_⟩
  unfold reparse
  rw [hwf]; simp only
  rw [ht, read_name, rstripNewline_of_last hnl]


/-! ### the value lines of one block -/

theorem chunks4_spec {α : Type} : ∀ (fuel : Nat) (l : List α), l.length ≤ fuel →
    (chunks4 fuel l).flatten = l ∧ ∀ c ∈ chunks4 fuel l, c ≠ [] ∧ c.length ≤ 4 ∧ ∀ x ∈ c, x ∈ l := by
  intro fuel
  induction fuel with
  | zero =>
    intro l hl
    have : l = [] := List.eq_nil_of_length_eq_zero (by omega)
    subst this
    exact ⟨rfl, fun c hc => by simp [chunks4] at hc⟩
  | succ fuel ih =>
    intro l hl
    cases l with
    | nil => exact ⟨rfl, fun c hc => by simp [chunks4] at hc⟩
    | cons a r =>
      have hlen : ((a :: r).drop 4).length ≤ fuel := by
        rw [List.length_drop]; simp only [List.length_cons] at hl ⊢; omega
      obtain ⟨h1, h2⟩ := ih ((a :: r).drop 4) hlen
      simp only [chunks4]
      refine ⟨?_, ?_⟩
      · rw [List.flatten_cons, h1, List.take_append_drop]
      · intro c hc
        rcases List.mem_cons.mp hc with rfl | hc
        · refine ⟨by simp, by rw [List.length_take]; omega, fun x hx => List.mem_of_mem_take hx⟩
        · obtain ⟨h3, h4, h5⟩ := h2 c hc
          exact ⟨h3, h4, fun x hx => List.mem_of_mem_drop (h5 x hx)⟩

theorem chunks4_single {α : Type} (l : List α) (hne : l ≠ []) (h4 : l.length ≤ 4) :
    chunks4 l.length l = [l] := by
  cases l with
  | nil => exact absurd rfl hne
  | cons a r =>
    simp only [List.length_cons, chunks4]
    rw [List.take_of_length_le (by simpa using h4), List.drop_of_length_le (by simpa using h4)]
    cases r.length <;> rfl

theorem popNones_append_nones (a : List PVal) (k : Nat) (ha : ∀ x, a.getLast? = some x → x ≠ .none) :
    popNones (a ++ List.replicate k PVal.none) = a := by
  unfold popNones
  rw [List.reverse_append, List.reverse_replicate]
  have h1 : ∀ (k : Nat) (u : List PVal), (List.replicate k PVal.none ++ u).dropWhile (· == PVal.none) =
      u.dropWhile (· == PVal.none) := by
    intro k u
    induction k with
    | zero => rfl
    | succ k ih => rw [List.replicate_succ, List.cons_append, List.dropWhile_cons]; simp [ih]
  rw [h1]
  cases hr : a.reverse with
  | nil => rw [List.reverse_eq_nil_iff.mp hr]; rfl
  | cons x r =>
    have hx : a.getLast? = some x := by rw [← List.head?_reverse, hr]; rfl
    have := ha x hx
    rw [List.dropWhile_cons, if_neg (by simpa using this), ← hr, List.reverse_reverse]

/-- reading one written value line -/
theorem value_line (rf : ReadFn) {v : FieldSpec} (hv : v.typ = 'e') {c : List Val} (hne : c ≠ [])
    (h4 : c.length ≤ 4) (hreal : ∀ x ∈ c, IsReal x) {l : Str} (h : writeLine [v, v, v, v] c = .ok l) :
    ∃ vals, parseString rf [v, v, v, v] l = .ok vals ∧ popNones vals = c.map (reparse rf v) := by
  have hzip : ∀ vf ∈ c.zip [v, v, v, v], vf.2 = v ∧ vf.1 ∈ c := by
    intro vf hvf
    have h2 := (List.of_mem_zip hvf).2
    simp at h2
    exact ⟨h2, (List.of_mem_zip hvf).1⟩
  have hnum : ∀ f ∈ [v, v, v, v].drop c.length, NumericTyp f.typ := by
    intro f hf
    have := List.mem_of_mem_drop hf
    simp at this; rw [this]; exact numeric_of_e hv
  have hread : ∀ vf ∈ c.zip [v, v, v, v], Readable rf vf.2 vf.1 := by
    intro vf hvf
    obtain ⟨e1, e2⟩ := hzip vf hvf
    rw [e1]; exact (readable_real rf hv (hreal _ e2)).1
  have hp := line_roundtrip rf [v, v, v, v] c hnum hread h [] (by simp)
  rw [List.append_nil] at hp
  refine ⟨_, hp, ?_⟩
  have hmap : (c.zip [v, v, v, v]).map (fun vf => reparse rf vf.2 vf.1) = c.map (reparse rf v) := by
    have : ∀ (c : List Val) (fs : List FieldSpec), c.length ≤ fs.length → (∀ f ∈ fs, f = v) →
        (c.zip fs).map (fun vf => reparse rf vf.2 vf.1) = c.map (reparse rf v) := by
      intro c
      induction c with
      | nil => intro fs _ _; rfl
      | cons x xs ih =>
        intro fs hl hf
        cases fs with
        | nil => simp at hl
        | cons f fr =>
          simp only [List.zip_cons_cons, List.map_cons]
          rw [hf f (by simp), ih fr (by simpa using hl) (fun g hg => hf g (List.mem_cons_of_mem _ hg))]
    exact this c _ (by simpa using h4) (by simp)
  rw [hmap]
  have hrep : ([v, v, v, v].drop c.length).map (fun _ => PVal.none) = List.replicate (4 - c.length) PVal.none := by
    rw [List.map_const', List.length_drop]; rfl
  rw [hrep]
  apply popNones_append_nones
  intro x hx
  -- the last element is the reparse of a real written value
  have hmem : x ∈ c.map (reparse rf v) := List.mem_of_getLast? hx
  obtain ⟨y, hy, rfl⟩ := List.mem_map.mp hmem
  obtain ⟨rec, hw, _⟩ := writeLine_ok h
  obtain ⟨strs, h1, _⟩ := (writeValues_ok_iff _ _ _).mp hw
  -- y was written successfully
  have : ∃ s, writeField v y = .ok s := by
    have key : ∀ (l : List (Val × FieldSpec)) (strs : List Str),
        All2 (fun (vf : Val × FieldSpec) s => writeField vf.2 vf.1 = .ok s) l strs →
        ∀ vf ∈ l, ∃ s, writeField vf.2 vf.1 = .ok s := by
      intro l strs hall
      induction hall with
      | nil => intro vf hvf; cases hvf
      | cons hab _ ih =>
        intro vf hvf
        rcases List.mem_cons.mp hvf with rfl | h'
        · exact ⟨_, hab⟩
        · exact ih vf h'
    -- (y, v) ∈ c.zip [v,v,v,v]
    have hyz : ∃ vf ∈ c.zip [v, v, v, v], vf.1 = y := by
      have : ∀ (c : List Val) (fs : List FieldSpec), c.length ≤ fs.length → ∀ y ∈ c, ∃ vf ∈ c.zip fs, vf.1 = y := by
        intro c
        induction c with
        | nil => intro fs _ y hy; cases hy
        | cons x xs ih =>
          intro fs hl y hy
          cases fs with
          | nil => simp at hl
          | cons f fr =>
            rcases List.mem_cons.mp hy with rfl | h'
            · exact ⟨(y, f), by simp, rfl⟩
            · obtain ⟨vf, hvf, e⟩ := ih fr (by simpa using hl) y h'
              exact ⟨vf, by simp [hvf], e⟩
      exact this c _ (by simpa using h4) y hy
    obtain ⟨vf, hvf, e⟩ := hyz
    obtain ⟨s, hs⟩ := key _ _ h1 vf hvf
    rw [(hzip vf hvf).1, e] at hs
    exact ⟨s, hs⟩
  obtain ⟨s, hs⟩ := this
  exact (readable_real rf hv (hreal y hy)).2 s hs


theorem flatten_length_pos {α : Type} {cs : List (List α)} (hne : cs ≠ []) (h : ∀ c ∈ cs, c ≠ []) :
    0 < cs.flatten.length := by
  cases cs with
  | nil => exact absurd rfl hne
  | cons c r =>
    have := h c (by simp)
    cases c with
    | nil => exact absurd rfl this
    | cons x xs => simp

/-- the inner loop of `read` over the value lines that `write` produced for one block -/
theorem readVals_chunks (rf : ReadFn) (S : Specs) {v : FieldSpec} (hS : S.incon2 = [v, v, v, v])
    (hv : v.typ = 'e') (nvars : Option Nat) {cs : List (List Val)} {ls : List Str}
    (hall : All2 (fun c l => writeLine S.incon2 c = .ok l) cs ls) :
    cs ≠ [] → (∀ c ∈ cs, c ≠ [] ∧ c.length ≤ 4 ∧ ∀ x ∈ c, IsReal x) →
    ∀ (acc : List PVal) (rest : List Str) (fuel : Nat), ls.length ≤ fuel →
    (match nvars with | none => cs.length = 1 | some n => n = acc.length + cs.flatten.length) →
    readVals rf S nvars fuel (ls ++ rest) acc = .ok (acc ++ cs.flatten.map (reparse rf v), rest) := by
  induction hall with
  | nil => intro h; exact absurd rfl h
  | cons hcl t ih =>
    rename_i c l cs' ls'
    intro _ hcs acc rest fuel hfuel hn
    obtain ⟨hc1, hc2, hc3⟩ := hcs c (by simp)
    rw [hS] at hcl
    obtain ⟨vals, hp, hpop⟩ := value_line rf hv hc1 hc2 hc3 hcl
    cases fuel with
    | zero => simp at hfuel
    | succ fuel =>
      unfold readVals
      simp only [readline, List.cons_append, hS, hp, hpop, bind, Except.bind]
      cases nvars with
      | none =>
        simp only at hn ⊢
        have : cs' = [] := by
          cases cs' with
          | nil => rfl
          | cons _ _ => simp at hn
        subst this
        cases t
        simp [pure, Except.pure]
      | some n =>
        simp only at hn ⊢
        by_cases hcs' : cs' = []
        · subst hcs'
          cases t
          have : ¬ (acc ++ c.map (reparse rf v)).length < n := by
            rw [hn]; simp
          rw [if_neg this]
          simp [pure, Except.pure]
        · have hpos := flatten_length_pos hcs' (fun c' hc' => (hcs c' (List.mem_cons_of_mem _ hc')).1)
          have : (acc ++ c.map (reparse rf v)).length < n := by
            rw [hn]; simp only [List.length_append, List.length_map, List.flatten_cons]; omega
          rw [if_pos this]
          have := ih hcs' (fun c' hc' => hcs c' (List.mem_cons_of_mem _ hc')) (acc ++ c.map (reparse rf v)) rest fuel
            (by simpa using hfuel)
            (by simp only [hn, List.length_append, List.length_map, List.flatten_cons]; omega)
          rw [this]
          simp [List.append_assoc]


/-! ### one block -/

/-- the fields of the block record and of a value line -/
structure Layout where
  name : FieldSpec
  nseq : FieldSpec
  nadd : FieldSpec
  por : FieldSpec
  k1 : FieldSpec
  k2 : FieldSpec
  k3 : FieldSpec
  v : FieldSpec

/-- what the reader relies on in `t2incon_format_specification` (decided on the generated table) -/
structure LayoutOK (S : Specs) (L : Layout) : Prop where
  incon1 : S.incon1 = [L.name, L.nseq, L.nadd, L.por]
  incon1Tr : S.incon1Tr = [L.name, L.nseq, L.nadd, L.por, L.k1, L.k2, L.k3]
  incon2 : S.incon2 = [L.v, L.v, L.v, L.v]
  name_s : L.name.typ = 's'
  name_prec : L.name.prec = none
  name_w : L.name.width = 5
  nseq_d : L.nseq.typ = 'd'
  nadd_d : L.nadd.typ = 'd'
  por_e : L.por.typ = 'e'
  k1_e : L.k1.typ = 'e'
  k2_e : L.k2.typ = 'e'
  k3_e : L.k3.typ = 'e'
  v_e : L.v.typ = 'e'

/-- the blocks the property quantifies over -/
structure BlockWF (b : Block Val) : Prop where
  name5 : b.block.length = 5
  canonical : Canonical b.block
  valid : validBlockname (unfixBlockname b.block) = .ok true
  noplus : (unfixBlockname b.block).take 3 ≠ ['+', '+', '+']
  vars_ne : b.vars ≠ []
  vars_real : ∀ x ∈ b.vars, IsReal x
  por : IsRealOrNone b.porosity
  nseq : IsIntOrNone b.nseq
  nadd : IsIntOrNone b.nadd
  perm : ∀ k, b.permeability = some k → IsReal k.1 ∧ IsReal k.2.1 ∧ IsReal k.2.2

/-- is the permeability triple written (and hence read back)? -/
def permWritten (sim : Str) (b : Block Val) : Bool := decide (sim = TOUGHREACT) && b.permeability.isSome

/-- the block as it is read back -/
def canonBlock (rf : ReadFn) (L : Layout) (sim : Str) (b : Block Val) : Block PVal :=
  { block := b.block, vars := b.vars.map (reparse rf L.v), porosity := reparse rf L.por b.porosity,
    permeability := if sim = TOUGHREACT then
        b.permeability.map (fun k => (reparse rf L.k1 k.1, reparse rf L.k2 k.2.1, reparse rf L.k3 k.2.2))
      else none,
    nseq := reparse rf L.nseq b.nseq, nadd := reparse rf L.nadd b.nadd }

theorem unfix_length5 {n : Str} (h : n.length = 5) : (unfixBlockname n).length = 5 := by
  obtain ⟨a, b, c, d, e, rfl⟩ := Proofs.Names.len5 h
  rw [Proofs.Names.unfix5]; split <;> rfl

theorem valid_last_digit {n : Str} (h5 : n.length = 5) (hv : validBlockname n = .ok true) :
    ∃ a b c d e, n = [a, b, c, d, e] ∧ isDigit e = true := by
  obtain ⟨a, b, c, d, e, rfl⟩ := Proofs.Names.len5 h5
  refine ⟨a, b, c, d, e, rfl, ?_⟩
  unfold validBlockname at hv
  simp only [getIdx] at hv
  split at hv
  · simp only [List.getElem?_cons_succ, List.getElem?_cons_zero] at hv
    split at hv
    · have : Gen.Conventions.validFifth.contains e = true := by simpa using hv
      have hm : e ∈ Gen.Conventions.validFifth := by simpa using this
      revert hm
      simp only [Gen.Conventions.validFifth, List.mem_cons, List.not_mem_nil, or_false]
      rintro (rfl | rfl | rfl | rfl | rfl | rfl | rfl | rfl | rfl | rfl) <;> decide
    · cases hv
  · cases hv


/-- the values `write` puts in a block's first record -/
def hdrVals (sim : Str) (b : Block Val) : List Val :=
  match decide (sim = TOUGHREACT), b.permeability with
  | true, some (k1, k2, k3) => [.str (unfixBlockname b.block), b.nseq, b.nadd, b.porosity, k1, k2, k3]
  | _, _ => [.str (unfixBlockname b.block), b.nseq, b.nadd, b.porosity]

theorem writeBlock_eq {S : Specs} {L : Layout} (hL : LayoutOK S L) (sim : Str) (b : Block Val) :
    writeBlock S sim b = (do
      let l1 ← writeLine S.incon1Tr (hdrVals sim b)
      let ls ← (chunks4 b.vars.length b.vars).mapM (writeLine S.incon2)
      pure (l1 :: ls)) := by
  have hpre : S.incon1 = S.incon1Tr.take 4 := by rw [hL.incon1, hL.incon1Tr]; rfl
  unfold writeBlock hdrVals
  cases hd : decide (sim = TOUGHREACT) <;> cases hp : b.permeability with
  | none => simp only [hpre]; rw [writeLine_prefix (by simp)]
  | some k =>
    obtain ⟨k1, k2, k3⟩ := k
    first
      | (simp only [hpre]; rw [writeLine_prefix (by simp)])
      | rfl

/-- the first record of a block, padded by `padstring` and parsed with the TOUGHREACT layout -/
theorem header_line (rf : ReadFn) {S : Specs} {L : Layout} (hL : LayoutOK S L) (sim : Str) {b : Block Val}
    (hwf : BlockWF b) {l1 : Str} (h : writeLine S.incon1Tr (hdrVals sim b) = .ok l1) :
    parseString rf S.incon1Tr (padstring l1) =
      .ok [ .str (unfixBlockname b.block), reparse rf L.nseq b.nseq, reparse rf L.nadd b.nadd,
            reparse rf L.por b.porosity,
            (if permWritten sim b then (canonBlock rf L sim b).permeability.elim PVal.none (·.1) else PVal.none),
            (if permWritten sim b then (canonBlock rf L sim b).permeability.elim PVal.none (·.2.1) else PVal.none),
            (if permWritten sim b then (canonBlock rf L sim b).permeability.elim PVal.none (·.2.2) else PVal.none) ] := by
  have hpad : padstring l1 = l1 ++ List.replicate (80 - l1.length) ' ' := rfl
  have hws : ∀ c ∈ List.replicate (80 - l1.length) ' ', isStrWs c = true := by
    intro c hc; rw [(List.mem_replicate.mp hc).2]; decide
  obtain ⟨a, b', c', d', e', hn, he⟩ := valid_last_digit (unfix_length5 hwf.name5) hwf.valid
  have hnl : ∀ c, (unfixBlockname b.block).getLast? = some c → c ≠ '\n' := by
    intro c hc; rw [hn] at hc; simp at hc; subst hc
    intro e; rw [e] at he; revert he; decide
  have hname := reparse_name rf hL.name_s hL.name_prec hL.name_w (unfix_length5 hwf.name5) hnl
  have hrn := readable_str rf hL.name_s (unfixBlockname b.block)
  have hrs := readable_intOrNone rf hL.nseq_d hwf.nseq
  have hra := readable_intOrNone rf hL.nadd_d hwf.nadd
  have hrp := readable_realOrNone rf hL.por_e hwf.por
  rw [hpad]
  unfold hdrVals at h
  unfold permWritten canonBlock
  cases hd : decide (sim = TOUGHREACT) <;> cases hp : b.permeability with
  | none =>
    rw [hd, hp] at h
    simp only at h
    have := line_roundtrip rf S.incon1Tr _ (by
        rw [hL.incon1Tr]; intro f hf; simp at hf
        rcases hf with rfl | rfl | rfl
        · exact numeric_of_e hL.k1_e
        · exact numeric_of_e hL.k2_e
        · exact numeric_of_e hL.k3_e) (by
        rw [hL.incon1Tr]; intro vf hvf; simp at hvf
        rcases hvf with rfl | rfl | rfl | rfl
        · exact hrn
        · exact hrs
        · exact hra
        · exact hrp) h _ hws
    rw [this, hL.incon1Tr]
    simp [hname.2]
  | some k =>
    obtain ⟨k1, k2, k3⟩ := k
    rw [hd, hp] at h
    simp only at h
    first
      | (have := line_roundtrip rf S.incon1Tr _ (by
            rw [hL.incon1Tr]; intro f hf; simp at hf
            rcases hf with rfl | rfl | rfl
            · exact numeric_of_e hL.k1_e
            · exact numeric_of_e hL.k2_e
            · exact numeric_of_e hL.k3_e) (by
            rw [hL.incon1Tr]; intro vf hvf; simp at hvf
            rcases hvf with rfl | rfl | rfl | rfl
            · exact hrn
            · exact hrs
            · exact hra
            · exact hrp) h _ hws
         rw [this, hL.incon1Tr]
         simp [hname.2])
      | (obtain ⟨hk1, hk2, hk3⟩ := hwf.perm _ hp
         have hsim : sim = TOUGHREACT := by simpa using hd
         have := line_roundtrip rf S.incon1Tr _ (by rw [hL.incon1Tr]; intro f hf; simp at hf) (by
            rw [hL.incon1Tr]; intro vf hvf; simp at hvf
            rcases hvf with rfl | rfl | rfl | rfl | rfl | rfl | rfl
            · exact hrn
            · exact hrs
            · exact hra
            · exact hrp
            · exact (readable_real rf hL.k1_e hk1).1
            · exact (readable_real rf hL.k2_e hk2).1
            · exact (readable_real rf hL.k3_e hk3).1) h _ hws
         rw [this, hL.incon1Tr]
         simp [hname.2, hsim])


theorem header_prefix {S : Specs} {L : Layout} (hL : LayoutOK S L) (sim : Str) {b : Block Val}
    (hwf : BlockWF b) {l1 : Str} (h : writeLine S.incon1Tr (hdrVals sim b) = .ok l1) :
    ∃ tl, l1 = unfixBlockname b.block ++ tl := by
  obtain ⟨rec, hw, rfl⟩ := writeLine_ok h
  obtain ⟨a, b', c', d', e', hn, he⟩ := valid_last_digit (unfix_length5 hwf.name5) hwf.valid
  have hnl : ∀ c, (unfixBlockname b.block).getLast? = some c → c ≠ '\n' := by
    intro c hc; rw [hn] at hc; simp at hc; subst hc
    intro e; rw [e] at he; revert he; decide
  have hname := (reparse_name .fortran hL.name_s hL.name_prec hL.name_w (unfix_length5 hwf.name5) hnl).1
  have hv : ∃ vs, hdrVals sim b = [] ++ Val.str (unfixBlockname b.block) :: vs := by
    unfold hdrVals; split <;> exact ⟨_, rfl⟩
  obtain ⟨vs, hvs⟩ := hv
  have hfs : S.incon1Tr = [] ++ L.name :: [L.nseq, L.nadd, L.por, L.k1, L.k2, L.k3] := by rw [hL.incon1Tr]; rfl
  rw [hvs, hfs] at hw
  obtain ⟨s, hs1, _, hs3⟩ := written_field_columns hw rfl
  rw [hname] at hs1; cases hs1
  simp only [widthSum, List.map_nil, List.sum_nil, Nat.zero_add, hL.name_w, slice, List.drop_zero, Nat.sub_zero] at hs3
  refine ⟨rec.drop 5 ++ ['\n'], ?_⟩
  rw [← List.append_assoc]
  congr 1
  rw [← hs3, List.take_append_drop]

theorem addIncon_fresh {α : Type} (bs : List (Block α)) (b : Block α) (h : ∀ x ∈ bs, x.block ≠ b.block) :
    addIncon bs b = bs ++ [b] := by
  unfold addIncon
  have : bs.any (fun x => decide (x.block = b.block)) = false := by
    rw [List.any_eq_false]; intro x hx; simpa using h x hx
  rw [this]; rfl

/-- one iteration of the block loop of `read` consumes exactly the lines `write` produced for one block -/
theorem readBlocks_step (rf : ReadFn) {S : Specs} {L : Layout} (hL : LayoutOK S L) (nvars : Option Nat)
    (check : Bool) (xsim : Str) {b : Block Val} (hwf : BlockWF b)
    (hnv : match nvars with | none => b.vars.length ≤ 4 | some n => n = b.vars.length)
    {lines : List Str} (hw : writeBlock S xsim b = .ok lines) (sim : Str) (bs : List (Block PVal))
    (hfresh : ∀ x ∈ bs, x.block ≠ b.block) (rest : List Str) (fuel : Nat) :
    readBlocks rf S nvars check (fuel + 1) (lines ++ rest) sim bs =
      readBlocks rf S nvars check fuel rest (if permWritten xsim b then TOUGHREACT else sim)
        (bs ++ [canonBlock rf L xsim b]) := by
  rw [writeBlock_eq hL] at hw
  cases h1 : writeLine S.incon1Tr (hdrVals xsim b) with
  | error e => rw [h1] at hw; cases hw
  | ok l1 =>
    rw [h1] at hw
    cases hls : (chunks4 b.vars.length b.vars).mapM (writeLine S.incon2) with
    | error e => rw [hls] at hw; cases hw
    | ok ls =>
      rw [hls] at hw
      cases hw
      obtain ⟨tl, htl⟩ := header_prefix hL xsim hwf h1
      obtain ⟨a, b', c', d', e', hn, he⟩ := valid_last_digit (unfix_length5 hwf.name5) hwf.valid
      have hstrip : (strip l1).isEmpty = false := by
        apply strip_ne_nil (c := e')
        · rw [htl, hn]; simp
        · exact isDigit_elim he (P := fun c => isStrWs c = false) (by decide)
      have htake : l1.take 3 ≠ ['+', '+', '+'] := by
        rw [htl, List.take_append_of_le_length (by rw [unfix_length5 hwf.name5]; omega)]
        exact hwf.noplus
      have hpl := header_line rf hL xsim hwf h1
      have hvalid : (if check = true then validBlockname (unfixBlockname b.block) else Except.ok true) = .ok true := by
        cases check <;> simp [hwf.valid]
      have hfix := fix_unfix_canonical b.block hwf.canonical
      -- the value lines
      have hall := (mapM_ok_iff _ _ _).mp hls
      obtain ⟨hflat, hchunks⟩ := chunks4_spec b.vars.length b.vars (Nat.le_refl _)
      have hcsne : chunks4 b.vars.length b.vars ≠ [] := by
        intro e; rw [e] at hflat; exact hwf.vars_ne hflat.symm
      have hvals := readVals_chunks rf S hL.incon2 hL.v_e nvars hall hcsne
        (fun c hc => ⟨(hchunks c hc).1, (hchunks c hc).2.1, fun x hx => hwf.vars_real x ((hchunks c hc).2.2 x hx)⟩)
        [] rest ((ls ++ rest).length + 1) (by simp; omega)
        (by
          cases nvars with
          | none => simp only at hnv ⊢; rw [chunks4_single _ hwf.vars_ne hnv]; rfl
          | some n => simp only at hnv ⊢; rw [hflat, hnv]; simp)
      rw [hflat, List.nil_append] at hvals
      conv => lhs; unfold readBlocks
      simp only [readline, List.cons_append, hstrip, Bool.false_eq_true, if_false, if_neg htake, hpl, hvalid,
        hfix, hvals]
      by_cases hpw : permWritten xsim b = true
      · -- all three permeabilities were written and read back as numbers
        have hsim : xsim = TOUGHREACT := by
          unfold permWritten at hpw; simp only [Bool.and_eq_true, decide_eq_true_eq] at hpw; exact hpw.1
        subst hsim
        obtain ⟨k, hk⟩ : ∃ k, b.permeability = some k := by
          unfold permWritten at hpw; simp only [Bool.and_eq_true] at hpw
          exact Option.isSome_iff_exists.mp hpw.2
        obtain ⟨hk1, hk2, hk3⟩ := hwf.perm k hk
        -- each k was written (the header line was), so its reparse is not None
        have hwritten : ∀ (f : FieldSpec) (x : Val), (x, f) ∈ (hdrVals TOUGHREACT b).zip S.incon1Tr → ∃ s, writeField f x = .ok s := by
          intro f x hx
          obtain ⟨rec, hwv, _⟩ := writeLine_ok h1
          obtain ⟨strs, hs, _⟩ := (writeValues_ok_iff _ _ _).mp hwv
          have key : ∀ (l : List (Val × FieldSpec)) (strs : List Str),
              All2 (fun (vf : Val × FieldSpec) s => writeField vf.2 vf.1 = .ok s) l strs →
              ∀ vf ∈ l, ∃ s, writeField vf.2 vf.1 = .ok s := by
            intro l strs hall
            induction hall with
            | nil => intro vf hvf; cases hvf
            | cons hab _ ih =>
              intro vf hvf
              rcases List.mem_cons.mp hvf with rfl | h'
              · exact ⟨_, hab⟩
              · exact ih vf h'
          exact key _ _ hs (x, f) hx
        have hz : (hdrVals TOUGHREACT b).zip S.incon1Tr = [(.str (unfixBlockname b.block), L.name), (b.nseq, L.nseq),
            (b.nadd, L.nadd), (b.porosity, L.por), (k.1, L.k1), (k.2.1, L.k2), (k.2.2, L.k3)] := by
          unfold hdrVals; rw [hL.incon1Tr, hk]; rfl
        obtain ⟨s1, hs1⟩ := hwritten L.k1 k.1 (by rw [hz]; simp)
        obtain ⟨s2, hs2⟩ := hwritten L.k2 k.2.1 (by rw [hz]; simp)
        obtain ⟨s3, hs3⟩ := hwritten L.k3 k.2.2 (by rw [hz]; simp)
        have n1 := (readable_real rf hL.k1_e hk1).2 s1 hs1
        have n2 := (readable_real rf hL.k2_e hk2).2 s2 hs2
        have n3 := (readable_real rf hL.k3_e hk3).2 s3 hs3
        simp only [hpw, if_true, canonBlock, hk, Option.map_some, Option.elim_some, n1, n2, n3, or_self,
          if_false]
        rw [addIncon_fresh _ _ (by intro x hx; exact hfresh x hx)]
      · have hpw' : permWritten xsim b = false := by simpa using hpw
        simp only [hpw', Bool.false_eq_true, if_false, true_or, if_true]
        rw [addIncon_fresh _ _ (by intro x hx; exact hfresh x hx)]
        congr 3
        unfold canonBlock
        unfold permWritten at hpw'
        by_cases hs : xsim = TOUGHREACT
        · have : b.permeability = none := by
            cases hp : b.permeability with
            | none => rfl
            | some k => rw [hp] at hpw'; simp [hs] at hpw'
          simp [hs, this]
        · simp [hs]


/-! ### all blocks -/

/-- the simulator flavour after the block loop: TOUGHREACT as soon as one block carried permeabilities -/
def simAfter (xsim : Str) (sim : Str) (blocks : List (Block Val)) : Str :=
  blocks.foldl (fun s b => if permWritten xsim b then TOUGHREACT else s) sim

def NvarsOK (nvars : Option Nat) (b : Block Val) : Prop :=
  match nvars with
  | none => b.vars.length ≤ 4
  | some n => n = b.vars.length

theorem writeBlock_nonempty {S : Specs} {sim : Str} {b : Block Val} {lines : List Str}
    (h : writeBlock S sim b = .ok lines) : lines ≠ [] := by
  unfold writeBlock at h
  simp only [bind, Except.bind, pure, Except.pure] at h
  repeat' split at h
  all_goals first
    | (cases h; done)
    | (cases h; simp)

theorem readBlocks_body (rf : ReadFn) {S : Specs} {L : Layout} (hL : LayoutOK S L) (nvars : Option Nat)
    (check : Bool) (xsim : Str) : ∀ (blocks : List (Block Val)) (body : List (List Str)),
    (∀ b ∈ blocks, BlockWF b ∧ NvarsOK nvars b) → (blocks.map (·.block)).Nodup →
    blocks.mapM (writeBlock S xsim) = .ok body →
    ∀ (sim : Str) (bs : List (Block PVal)), (∀ x ∈ bs, ∀ b ∈ blocks, x.block ≠ b.block) →
    ∀ (rest : List Str) (fuel : Nat),
    readBlocks rf S nvars check (blocks.length + fuel) (body.flatten ++ rest) sim bs =
      readBlocks rf S nvars check fuel rest (simAfter xsim sim blocks)
        (bs ++ blocks.map (canonBlock rf L xsim)) := by
  intro blocks
  induction blocks with
  | nil =>
    intro body _ _ hm sim bs _ rest fuel
    rw [List.mapM_nil] at hm; cases hm
    simp [simAfter]
  | cons b bl ih =>
    intro body hwf hnd hm sim bs hfresh rest fuel
    rw [List.mapM_cons] at hm
    cases h1 : writeBlock S xsim b with
    | error e => rw [h1] at hm; cases hm
    | ok lines =>
      rw [h1] at hm
      cases h2 : bl.mapM (writeBlock S xsim) with
      | error e => rw [h2] at hm; cases hm
      | ok body' =>
        rw [h2] at hm
        cases hm
        obtain ⟨hb, hnvb⟩ := hwf b (by simp)
        have hnd' : (∀ x ∈ bl, ¬ x.block = b.block) ∧ (bl.map (·.block)).Nodup := by simpa using hnd
        have e1 : (lines :: body').flatten ++ rest = lines ++ (body'.flatten ++ rest) := by simp
        have e2 : (b :: bl).length + fuel = (bl.length + fuel) + 1 := by simp; omega
        rw [e1, e2, readBlocks_step rf hL nvars check xsim hb hnvb h1 sim bs
          (fun x hx => hfresh x hx b (by simp)) _ _]
        rw [ih body' (fun b' hb' => hwf b' (List.mem_cons_of_mem _ hb')) hnd'.2 h2 _ _ ?_ rest fuel]
        · simp [simAfter, List.append_assoc]
        · intro x hx b' hb'
          rcases List.mem_append.mp hx with h | h
          · exact hfresh x h b' (List.mem_cons_of_mem _ hb')
          · simp at h; subst h
            simp only [canonBlock]
            intro e
            exact hnd'.1 b' hb' e.symm

end Proofs.Incon
