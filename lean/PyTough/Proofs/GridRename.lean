/-
  Invariant preservation: rename_blocks.
-/
import PyTough.Proofs.GridReorder
namespace Proofs.Grid
open Py Model Model.Grid Model.Grid.World

/-! ### dictionaries rebuilt from a list -/

theorem dget_build_aux {κ : Type} [DecidableEq κ] (key : Nat → κ) (l : List Nat) (d0 : Dict κ Nat)
    (hinj : ∀ x ∈ l, ∀ y ∈ l, key x = key y → x = y) (k : κ) (x : Nat) :
    dget (l.foldl (fun d x => dset d (key x) x) d0) k = some x ↔
      (x ∈ l ∧ key x = k) ∨ (dget d0 k = some x ∧ ∀ y ∈ l, key y ≠ k) := by
  induction l generalizing d0 with
  | nil => simp
  | cons a r ih =>
    simp only [List.foldl_cons]
    rw [ih (dset d0 (key a) a) (fun x hx y hy => hinj x (List.mem_cons_of_mem _ hx) y (List.mem_cons_of_mem _ hy))]
    rw [dget_dset]
    constructor
    · rintro (⟨hx, e⟩ | ⟨hd, hall⟩)
      · exact Or.inl ⟨List.mem_cons_of_mem _ hx, e⟩
      · split at hd
        · rename_i hk; cases hd; exact Or.inl ⟨List.mem_cons_self, hk⟩
        · rename_i hk
          refine Or.inr ⟨hd, ?_⟩
          intro y hy
          rcases List.mem_cons.mp hy with rfl | hy
          · exact hk
          · exact hall y hy
    · rintro (⟨hx, e⟩ | ⟨hd, hall⟩)
      · rcases List.mem_cons.mp hx with rfl | hx
        · by_cases hr : ∃ y ∈ r, key y = k
          · obtain ⟨y, hy, ey⟩ := hr
            have : x = y := hinj x List.mem_cons_self y (List.mem_cons_of_mem _ hy) (e.trans ey.symm)
            subst this; exact Or.inl ⟨hy, e⟩
          · refine Or.inr ⟨by simp [e], ?_⟩
            intro y hy ey; exact hr ⟨y, hy, ey⟩
        · exact Or.inl ⟨hx, e⟩
      · refine Or.inr ⟨?_, fun y hy => hall y (List.mem_cons_of_mem _ hy)⟩
        have := hall a List.mem_cons_self
        simp [this, hd]

theorem dget_build {κ : Type} [DecidableEq κ] (key : Nat → κ) (l : List Nat)
    (hinj : ∀ x ∈ l, ∀ y ∈ l, key x = key y → x = y) (k : κ) (x : Nat) :
    dget (l.foldl (fun d x => dset d (key x) x) []) k = some x ↔ x ∈ l ∧ key x = k := by
  rw [dget_build_aux key l [] hinj]; simp

/-! ### the renaming loop -/

def mapKey (m : Dict Name Name) (k : CName) : CName := (mapName m k.1, mapName m k.2)

theorem mem_mapConn (m : Dict Name Name) (s : List CName) (k' : CName) :
    k' ∈ mapConn m s ↔ ∃ k ∈ s, mapKey m k = k' := by
  induction s with
  | nil => simp [mapConn]
  | cons a r ih =>
    simp only [mapConn, mem_sadd, ih, List.mem_cons]
    constructor
    · rintro (e | ⟨k, hk, e⟩)
      · exact ⟨a, Or.inl rfl, e.symm⟩
      · exact ⟨k, Or.inr hk, e⟩
    · rintro ⟨k, hk | hk, e⟩
      · subst hk; exact Or.inl e.symm
      · exact Or.inr ⟨k, hk, e⟩

theorem nodup_mapConn (m : Dict Name Name) (s : List CName) : (mapConn m s).Nodup := by
  induction s with
  | nil => exact List.nodup_nil
  | cons a r ih => exact nodup_sadd _ ih

/-- what the loop `for blk in self.blocklist` leaves in the heap -/
theorem renameLoop_spec (m : Dict Name Name) (w : World) (l : List Nat) (hn : l.Nodup) (hlt : ∀ b ∈ l, b < w.blks.length) :
    let w' := renameLoop m w l
    w'.rocks = w.rocks ∧ w'.cons = w.cons ∧ w'.rocktypelist = w.rocktypelist ∧ w'.rocktype = w.rocktype ∧
    w'.blocklist = w.blocklist ∧ w'.block = w.block ∧ w'.connectionlist = w.connectionlist ∧
    w'.connection = w.connection ∧ w'.blks.length = w.blks.length ∧
    ∀ x, w'.bk x = if x ∈ l then { w.bk x with name := mapName m (w.bk x).name, conn := mapConn m (w.bk x).conn } else w.bk x := by
  induction l generalizing w with
  | nil => simp [renameLoop]
  | cons b r ih =>
    have hb := hlt b List.mem_cons_self
    have ⟨hbr, hr⟩ := List.nodup_cons.mp hn
    simp only [renameLoop]
    generalize hw1 : w.setBlk b { w.bk b with name := mapName m (w.bk b).name, conn := mapConn m (w.bk b).conn } = w1
    have hlen : w1.blks.length = w.blks.length := by subst hw1; simp
    have := ih w1 hr (fun x hx => by rw [hlen]; exact hlt x (List.mem_cons_of_mem _ hx))
    obtain ⟨e1, e2, e3, e4, e5, e6, e7, e8, e9, e10⟩ := this
    have hbk1 : ∀ x, w1.bk x = if b = x then { w.bk b with name := mapName m (w.bk b).name, conn := mapConn m (w.bk b).conn } else w.bk x := by
      intro x; subst hw1; simp [bk_setBlk, hb]
    refine ⟨by rw [e1, ← hw1]; rfl, by rw [e2, ← hw1]; rfl, by rw [e3, ← hw1]; rfl, by rw [e4, ← hw1]; rfl,
            by rw [e5, ← hw1]; rfl, by rw [e6, ← hw1]; rfl, by rw [e7, ← hw1]; rfl, by rw [e8, ← hw1]; rfl,
            by rw [e9, hlen], ?_⟩
    intro x
    rw [e10 x, hbk1]
    by_cases hxb : b = x
    · subst hxb; simp [hbr]
    · simp [hxb, Ne.symm hxb]

theorem inj_of_nodup_map {α β : Type} (g : α → β) (l : List α) (h : (l.map g).Nodup) :
    ∀ x ∈ l, ∀ y ∈ l, g x = g y → x = y := by
  induction l with
  | nil => intro x hx; cases hx
  | cons a r ih =>
    simp only [List.map_cons, List.nodup_cons, List.mem_map, not_exists, not_and] at h
    intro x hx y hy e
    rcases List.mem_cons.mp hx with hxa | hx'
    · rcases List.mem_cons.mp hy with hya | hy'
      · rw [hxa, hya]
      · exact absurd (hxa ▸ e).symm (h.1 y hy')
    · rcases List.mem_cons.mp hy with hya | hy'
      · exact absurd (hya ▸ e) (h.1 x hx')
      · exact ih h.2 x hx' y hy' e

/-- the three statements of `rename_blocks` after `fix_block_mapping`, for a map under which the
    names of the grid's blocks stay distinct -/
theorem renameWorld_inv {w : World} (hI : Grid.Inv w) (m : Dict Name Name)
    (hnd : (w.blocklist.map fun b => mapName m (w.bname b)).Nodup) :
    Grid.Inv (rebuildConnection (rebuildBlock (renameLoop m w w.blocklist))) := by
  have hB := hI.blockInv
  have hC := hI.conInv
  obtain ⟨e1, e2, e3, e4, e5, e6, e7, e8, e9, e10⟩ := renameLoop_spec m w w.blocklist hB.bl_nodup hB.bl_lt
  generalize hw1 : renameLoop m w w.blocklist = w1 at *
  have hnm : ∀ x ∈ w.blocklist, w1.bname x = mapName m (w.bname x) := by
    intro x hx; simp only [World.bname, e10, hx, if_true]
  have hinj : ∀ x ∈ w.blocklist, ∀ y ∈ w.blocklist, w1.bname x = w1.bname y → x = y := by
    intro x hx y hy e
    rw [hnm x hx, hnm y hy] at e
    exact inj_of_nodup_map (fun b => mapName m (w.bname b)) _ hnd x hx y hy e
  have hcn : ∀ c, w1.cn c = w.cn c := by intro c; simp only [World.cn, e2]
  have hkey : ∀ c ∈ w.connectionlist, w1.ckey c = mapKey m (w.ckey c) := by
    intro c hc
    have ends := hC.c_ends c hc
    simp only [World.ckey, hcn, hnm _ ends.1, hnm _ ends.2.1, mapKey]
  have hkinj : ∀ x ∈ w.connectionlist, ∀ y ∈ w.connectionlist, w1.ckey x = w1.ckey y → x = y := by
    intro x hx y hy e
    have ex := hC.c_ends x hx
    have ey := hC.c_ends y hy
    simp only [World.ckey, hcn, Prod.mk.injEq] at e
    have h0 := hinj _ ex.1 _ ey.1 e.1
    have h1 := hinj _ ex.2.1 _ ey.2.1 e.2
    exact hC.key_inj hx hy (by simp only [World.ckey, h0, h1])
  -- the final world, field by field
  generalize hw3 : rebuildConnection (rebuildBlock w1) = w3
  have f_rocks : w3.rocks = w.rocks := by subst hw3; exact e1
  have f_blks : w3.blks = w1.blks := by subst hw3; rfl
  have f_cons : w3.cons = w.cons := by subst hw3; exact e2
  have f_rl : w3.rocktypelist = w.rocktypelist := by subst hw3; exact e3
  have f_rd : w3.rocktype = w.rocktype := by subst hw3; exact e4
  have f_bl : w3.blocklist = w.blocklist := by subst hw3; exact e5
  have f_cl : w3.connectionlist = w.connectionlist := by subst hw3; exact e7
  have f_bd : w3.block = w.blocklist.foldl (fun d b => dset d (w1.bname b) b) [] := by
    subst hw3; simp only [rebuildConnection, rebuildBlock, e5]
  have f_cd : w3.connection = w.connectionlist.foldl (fun d c => dset d (w1.ckey c) c) [] := by
    subst hw3; simp only [rebuildConnection, rebuildBlock, e7]; rfl
  have f_bk : ∀ x, w3.bk x = w1.bk x := by intro x; simp only [World.bk, f_blks]
  have f_bname : ∀ x, w3.bname x = w1.bname x := by intro x; simp only [World.bname, f_bk]
  have f_cn : ∀ c, w3.cn c = w.cn c := by intro c; simp only [World.cn, f_cons]
  have f_ckey : ∀ c, w3.ckey c = w1.ckey c := by intro c; simp only [World.ckey, f_bname, f_cn, hcn]
  refine Inv.mk' ?_ ⟨?_, ?_, ?_, ?_⟩ ⟨?_, ?_, ?_, ?_, ?_⟩ ?_ ⟨?_, ?_⟩
  · exact hI.rockInv.frame f_rl f_rd (by rw [f_rocks]; exact Nat.le_refl _) (fun x _ => by simp only [World.rname, World.rk, f_rocks])
  · intro x hx; rw [f_bl] at hx; rw [f_blks, e9]; exact hB.bl_lt x hx
  · rw [f_bl]; exact hB.bl_nodup
  · intro n x hx
    rw [f_bd, dget_build _ _ hinj] at hx
    rw [f_bl, f_bname]; exact hx
  · intro x hx
    rw [f_bl] at hx
    rw [f_bd, dget_build _ _ hinj, f_bname]; exact ⟨hx, rfl⟩
  · intro x hx; rw [f_cl] at hx; rw [f_cons]; exact hC.cl_lt x hx
  · rw [f_cl]; exact hC.cl_nodup
  · intro k x hx
    rw [f_cd, dget_build _ _ hkinj] at hx
    rw [f_cl, f_ckey]; exact hx
  · intro x hx
    rw [f_cl] at hx
    rw [f_cd, dget_build _ _ hkinj, f_ckey]; exact ⟨hx, rfl⟩
  · intro x hx
    rw [f_cl] at hx; rw [f_cn, f_bl]; exact hC.c_ends x hx
  · intro x hx
    rw [f_bl] at hx
    rw [f_bk, e10, f_rl]; simp only [hx, if_true]; exact hI.b_rock x hx
  · intro x hx
    rw [f_bl] at hx
    rw [f_bk, e10]; simp only [hx, if_true]; exact nodup_mapConn _ _
  · intro x hx k'
    rw [f_bl] at hx
    rw [f_bk, e10, f_cl]; simp only [hx, if_true, f_cn]
    rw [mem_mapConn]
    constructor
    · rintro ⟨k, hk, e⟩
      obtain ⟨c, hc, ec, hm⟩ := (hI.conn_iff x hx k).mp hk
      exact ⟨c, hc, by rw [f_ckey, hkey c hc, ec, e], hm⟩
    · rintro ⟨c, hc, ec, hm⟩
      refine ⟨w.ckey c, (hI.conn_iff x hx _).mpr ⟨c, hc, rfl, hm⟩, ?_⟩
      rw [← ec, f_ckey, hkey c hc]

/-- `rename_blocks(blockmap, fix_blocknames)` when the effective map keeps the names distinct -/
theorem renameBlocks_inv {w : World} (hI : Grid.Inv w) (m : Dict Name Name) (fix : Bool)
    (hpre : pre w (.renameBlocks m fix) = true) : Grid.Inv (worldOf (renameBlocks w m fix)) := by
  simp only [pre, effectiveMap] at hpre
  unfold renameBlocks
  cases fix with
  | false =>
    simp only [Bool.false_eq_true, if_false, decide_eq_true_eq] at hpre ⊢
    exact renameWorld_inv hI m hpre
  | true =>
    simp only [if_true] at hpre ⊢
    cases hf : fixBlockMapping m with
    | error e => simp only [worldOf_error]; exact hI
    | ok m1 =>
      simp only [hf, decide_eq_true_eq] at hpre
      simp only [worldOf_ok]
      exact renameWorld_inv hI m1 hpre

end Proofs.Grid
