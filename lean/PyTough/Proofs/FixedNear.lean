import PyTough.Proofs.FixedRound
namespace Proofs
open Py Model

/-! ### `%e` prints a nearest decimal -/

/-- `M` is a nearest integer to `N/D`:  `|N − M·D| ≤ D/2` -/
def Near (N D M : Nat) : Prop := 2 * N ≤ 2 * (M * D) + D ∧ 2 * (M * D) ≤ 2 * N + D

/-- `m·10^t` is within half a unit of the last place (`10^t`) of `n/d`, without division -/
def NearAt (n d m : Nat) (t : Int) : Prop :=
  if 0 ≤ t then Near n (d * 10 ^ t.toNat) m else Near (n * 10 ^ (-t).toNat) d m

theorem near_carry_num {N D m : Nat} (h : Near (N * 10) D (10 * m)) : Near N D m := by
  unfold Near at *
  have : 10 * m * D = 10 * (m * D) := Nat.mul_assoc _ _ _
  rw [this] at h
  omega

theorem near_carry_den {N D m : Nat} (h : Near N D (10 * m)) : Near N (D * 10) m := by
  unfold Near at *
  have e1 : 10 * m * D = 10 * (m * D) := Nat.mul_assoc _ _ _
  have e2 : m * (D * 10) = 10 * (m * D) := by rw [← Nat.mul_assoc, Nat.mul_comm]
  rw [e1] at h
  rw [e2]
  omega

theorem nearAt_carry {n d m : Nat} {t : Int} (h : NearAt n d (10 * m) t) : NearAt n d m (t + 1) := by
  unfold NearAt at *
  by_cases ht : 0 ≤ t
  · rw [if_pos ht] at h
    rw [if_pos (by omega)]
    have : (t + 1).toNat = t.toNat + 1 := by omega
    rw [this, Nat.pow_succ, ← Nat.mul_assoc]
    exact near_carry_den h
  · rw [if_neg ht] at h
    by_cases ht1 : t = -1
    · subst ht1
      simp only [Int.reduceNeg, Int.neg_neg, Int.toNat_one, Nat.pow_one] at h
      simp only [Int.reduceNeg, Int.add_left_neg, Int.le_refl, if_true, Int.toNat_zero, Nat.pow_zero, Nat.mul_one]
      exact near_carry_num h
    · rw [if_neg (by omega)]
      have : (-t).toNat = (-(t + 1)).toNat + 1 := by omega
      rw [this, Nat.pow_succ, ← Nat.mul_assoc] at h
      exact near_carry_num h

theorem eM0_near (p n d : Nat) (hd : 0 < d) : NearAt n d (eM0 p n d) (log10Floor n d - p) := by
  unfold eM0 NearAt
  simp only
  generalize log10Floor n d = e0
  by_cases hsh : (p : Int) - e0 ≥ 0
  · rw [if_pos hsh]
    have hn := roundHalfEven_nearest (n * 10 ^ ((p : Int) - e0).toNat) d hd
    by_cases ht : 0 ≤ e0 - (p : Int)
    · rw [if_pos ht]
      have e1 : ((p : Int) - e0).toNat = 0 := by omega
      have e2 : (e0 - (p : Int)).toNat = 0 := by omega
      rw [e1] at hn ⊢
      rw [e2]
      simpa [Near] using hn
    · rw [if_neg ht]
      have e1 : (-(e0 - (p : Int))).toNat = ((p : Int) - e0).toNat := by omega
      rw [e1]
      exact hn
  · rw [if_neg hsh, if_pos (by omega)]
    have e1 : (e0 - (p : Int)).toNat = (-((p : Int) - e0)).toNat := by omega
    rw [e1]
    exact roundHalfEven_nearest n _ (Nat.mul_pos hd (pow10_pos _))

/-- the pair printed by `'%.{p}e'` is a nearest `(p+1)`-digit decimal to `n/d` -/
theorem fmtEParts_near (p n d : Nat) (hn : 0 < n) (hd : 0 < d) :
    NearAt n d (fmtEParts p n d).1 ((fmtEParts p n d).2 - p) := by
  rw [fmtEParts_eq p n d (by omega)]
  have h0 := eM0_near p n d hd
  obtain ⟨_, h2⟩ := eM0_bounds p n d hn hd
  by_cases h : eM0 p n d ≥ 10 ^ (p + 1)
  · rw [if_pos h]
    have e : eM0 p n d = 10 ^ (p + 1) := by omega
    have e10 : eM0 p n d = 10 * (eM0 p n d / 10) := by
      rw [e, Nat.pow_succ, Nat.mul_div_cancel _ (by decide), Nat.mul_comm]
    rw [e10] at h0
    have := nearAt_carry h0
    simp only
    have e3 : log10Floor n d + 1 - (p : Int) = log10Floor n d - (p : Int) + 1 := by omega
    rw [e3]
    exact this
  · rw [if_neg h]; exact h0

end Proofs
