import PyTough.Model.Fixed
import PyTough.Proofs.FixedDigits
namespace Proofs
open Py Model

/-! ### rounding and the decimal exponent -/

theorem roundHalfEven_cases (N D : Nat) :
    roundHalfEven N D = N / D ∨ roundHalfEven N D = N / D + 1 := by
  unfold roundHalfEven
  simp only
  split
  · exact Or.inl rfl
  · split
    · exact Or.inr rfl
    · split
      · exact Or.inl rfl
      · exact Or.inr rfl

theorem roundHalfEven_bounds {N D L U : Nat} (hD : 0 < D) (hlo : L * D ≤ N) (hhi : N < U * D) :
    L ≤ roundHalfEven N D ∧ roundHalfEven N D ≤ U := by
  have h1 : L ≤ N / D := (Nat.le_div_iff_mul_le hD).mpr hlo
  have h2 : N / D < U := (Nat.div_lt_iff_lt_mul hD).mpr hhi
  rcases roundHalfEven_cases N D with h | h <;> rw [h] <;> omega

/-- the result is a nearest integer to `N/D`: `|N - r·D| ≤ D/2` -/
theorem roundHalfEven_nearest (N D : Nat) (hD : 0 < D) :
    2 * N ≤ 2 * (roundHalfEven N D * D) + D ∧ 2 * (roundHalfEven N D * D) ≤ 2 * N + D := by
  have hdm := Nat.div_add_mod N D
  have hm := Nat.mod_lt N hD
  have hq : D * (N / D) = N / D * D := Nat.mul_comm _ _
  unfold roundHalfEven
  simp only
  split
  · omega
  · split
    · rw [Nat.add_mul]; omega
    · split
      · omega
      · rw [Nat.add_mul]; omega

theorem log10Search_spec (n d : Nat) : ∀ (fuel k : Nat),
    (∃ j, k ≤ j ∧ j < k + fuel ∧ d ≤ n * 10 ^ j) →
    k ≤ log10Search n d fuel k ∧ d ≤ n * 10 ^ (log10Search n d fuel k) ∧
      ∀ j, k ≤ j → j < log10Search n d fuel k → n * 10 ^ j < d := by
  intro fuel
  induction fuel with
  | zero => intro k ⟨j, h1, h2, _⟩; omega
  | succ fuel ih =>
    intro k ⟨j, h1, h2, h3⟩
    unfold log10Search
    by_cases hk : n * 10 ^ k ≥ d
    · rw [if_pos hk]
      exact ⟨Nat.le_refl _, hk, fun j' a b => by omega⟩
    · rw [if_neg hk]
      have hjk : j ≠ k := by intro e; rw [e] at h3; exact hk h3
      obtain ⟨a, b, c⟩ := ih (k + 1) ⟨j, by omega, by omega, h3⟩
      refine ⟨by omega, b, fun j' h1' h2' => ?_⟩
      by_cases e : j' = k
      · rw [e]; omega
      · exact c j' (by omega) h2'

/-- what `log10Floor` computes: `10^e ≤ n/d < 10^(e+1)` written without division -/
theorem log10Floor_spec (n d : Nat) (hn : 0 < n) (hd : 0 < d) :
    (∃ a : Nat, log10Floor n d = (a : Int) ∧ 10 ^ a * d ≤ n ∧ n < 10 ^ (a + 1) * d) ∨
    (∃ k : Nat, 0 < k ∧ log10Floor n d = -(k : Int) ∧ d ≤ n * 10 ^ k ∧ n * 10 ^ (k - 1) < d) := by
  unfold log10Floor
  by_cases h : n ≥ d
  · left
    rw [if_pos h]
    have hq : 0 < n / d := Nat.div_pos h hd
    have hL := natDigits_length_pos (n / d)
    refine ⟨(natDigits (n / d)).length - 1, by omega, ?_, ?_⟩
    · -- 10^(L-1) ≤ n/d
      have : 10 ^ ((natDigits (n / d)).length - 1) ≤ n / d := by
        by_cases h1 : (natDigits (n / d)).length - 1 = 0
        · rw [h1]; exact hq
        · have hiff := natDigits_length_le_iff (n := n / d) (k := (natDigits (n / d)).length - 1) (by omega)
          have h2 : ¬ (natDigits (n / d)).length ≤ (natDigits (n / d)).length - 1 := by omega
          have h3 : ¬ n / d < 10 ^ ((natDigits (n / d)).length - 1) := fun h' => h2 (hiff.mpr h')
          omega
      exact (Nat.le_div_iff_mul_le hd).mp this
    · have h1 : (natDigits (n / d)).length - 1 + 1 = (natDigits (n / d)).length := by omega
      rw [h1]
      have := (natDigits_length_le_iff (n := n / d) (k := (natDigits (n / d)).length) hL).mp (Nat.le_refl _)
      exact (Nat.div_lt_iff_lt_mul hd).mp this
  · right
    rw [if_neg h]
    have hL := natDigits_length_pos d
    have hd10 : d < 10 ^ (natDigits d).length :=
      (natDigits_length_le_iff (n := d) hL).mp (Nat.le_refl _)
    have hex : ∃ j, 1 ≤ j ∧ j < 1 + ((natDigits d).length + 1) ∧ d ≤ n * 10 ^ j := by
      refine ⟨(natDigits d).length, hL, by omega, ?_⟩
      have : 1 * 10 ^ (natDigits d).length ≤ n * 10 ^ (natDigits d).length :=
        Nat.mul_le_mul_right _ hn
      omega
    obtain ⟨a, b, c⟩ := log10Search_spec n d _ 1 hex
    refine ⟨log10Search n d ((natDigits d).length + 1) 1, a, ?_, b, ?_⟩
    · rfl
    · by_cases e : log10Search n d ((natDigits d).length + 1) 1 = 1
      · rw [e]; simp; omega
      · exact c _ (by omega) (by omega)


/-- the rounded mantissa before the carry test -/
def eM0 (p n d : Nat) : Nat :=
  let e0 := log10Floor n d
  let sh : Int := p - e0
  if sh ≥ 0 then roundHalfEven (n * 10 ^ sh.toNat) d else roundHalfEven n (d * 10 ^ (-sh).toNat)

theorem fmtEParts_eq (p n d : Nat) (hn : n ≠ 0) :
    fmtEParts p n d = if eM0 p n d ≥ 10 ^ (p + 1) then (eM0 p n d / 10, log10Floor n d + 1)
      else (eM0 p n d, log10Floor n d) := by
  unfold fmtEParts eM0
  rw [if_neg hn]

theorem pow10_pos (k : Nat) : 0 < 10 ^ k := Nat.pow_pos (by decide)

theorem eM0_bounds (p n d : Nat) (hn : 0 < n) (hd : 0 < d) :
    10 ^ p ≤ eM0 p n d ∧ eM0 p n d ≤ 10 ^ (p + 1) := by
  unfold eM0
  simp only
  rcases log10Floor_spec n d hn hd with ⟨a, he, h1, h2⟩ | ⟨k, hk, he, h1, h2⟩
  · rw [he]
    by_cases hap : a ≤ p
    · have hsh : ((p : Int) - (a : Int)) ≥ 0 := by omega
      have ht : ((p : Int) - (a : Int)).toNat = p - a := by omega
      rw [if_pos hsh, ht]
      have e : 10 ^ p = 10 ^ a * 10 ^ (p - a) := by rw [← Nat.pow_add]; congr 1; omega
      have e' : 10 ^ (p + 1) = 10 ^ (a + 1) * 10 ^ (p - a) := by rw [← Nat.pow_add]; congr 1; omega
      apply roundHalfEven_bounds hd
      · calc 10 ^ p * d = (10 ^ a * d) * 10 ^ (p - a) := by rw [e]; ac_rfl
          _ ≤ n * 10 ^ (p - a) := Nat.mul_le_mul_right _ h1
      · calc n * 10 ^ (p - a) < (10 ^ (a + 1) * d) * 10 ^ (p - a) :=
              Nat.mul_lt_mul_of_pos_right h2 (pow10_pos _)
          _ = 10 ^ (p + 1) * d := by rw [e']; ac_rfl
    · have hsh : ¬ ((p : Int) - (a : Int)) ≥ 0 := by omega
      have ht : (-((p : Int) - (a : Int))).toNat = a - p := by omega
      rw [if_neg hsh, ht]
      have e : 10 ^ a = 10 ^ p * 10 ^ (a - p) := by rw [← Nat.pow_add]; congr 1; omega
      have e' : 10 ^ (a + 1) = 10 ^ (p + 1) * 10 ^ (a - p) := by rw [← Nat.pow_add]; congr 1; omega
      apply roundHalfEven_bounds (Nat.mul_pos hd (pow10_pos _))
      · calc 10 ^ p * (d * 10 ^ (a - p)) = 10 ^ a * d := by rw [e]; ac_rfl
          _ ≤ n := h1
      · calc n < 10 ^ (a + 1) * d := h2
          _ = 10 ^ (p + 1) * (d * 10 ^ (a - p)) := by rw [e']; ac_rfl
  · rw [he]
    have hsh : ((p : Int) - (-(k : Int))) ≥ 0 := by omega
    have ht : ((p : Int) - (-(k : Int))).toNat = p + k := by omega
    rw [if_pos hsh, ht]
    have e : 10 ^ (p + k) = 10 ^ k * 10 ^ p := by rw [← Nat.pow_add]; congr 1; omega
    have e' : 10 ^ (p + k) = 10 ^ (k - 1) * 10 ^ (p + 1) := by rw [← Nat.pow_add]; congr 1; omega
    apply roundHalfEven_bounds hd
    · calc 10 ^ p * d = d * 10 ^ p := Nat.mul_comm _ _
        _ ≤ (n * 10 ^ k) * 10 ^ p := Nat.mul_le_mul_right _ h1
        _ = n * 10 ^ (p + k) := by rw [e]; ac_rfl
    · calc n * 10 ^ (p + k) = (n * 10 ^ (k - 1)) * 10 ^ (p + 1) := by rw [e']; ac_rfl
        _ < d * 10 ^ (p + 1) := Nat.mul_lt_mul_of_pos_right h2 (pow10_pos _)
        _ = 10 ^ (p + 1) * d := Nat.mul_comm _ _

/-- the printed mantissa of a non-zero value has exactly `p+1` significant digits -/
theorem fmtEParts_normalised (p n d : Nat) (hn : 0 < n) (hd : 0 < d) :
    10 ^ p ≤ (fmtEParts p n d).1 ∧ (fmtEParts p n d).1 < 10 ^ (p + 1) := by
  rw [fmtEParts_eq p n d (by omega)]
  obtain ⟨h1, h2⟩ := eM0_bounds p n d hn hd
  by_cases h : eM0 p n d ≥ 10 ^ (p + 1)
  · rw [if_pos h]
    have e : eM0 p n d = 10 ^ (p + 1) := by omega
    simp only [e]
    have : 10 ^ (p + 1) / 10 = 10 ^ p := by rw [Nat.pow_succ]; exact Nat.mul_div_cancel _ (by decide)
    rw [this]
    exact ⟨Nat.le_refl _, Nat.pow_lt_pow_right (by decide) (by omega)⟩
  · rw [if_neg h]; exact ⟨h1, by omega⟩

theorem fmtEParts_zero (p d : Nat) : fmtEParts p 0 d = (0, 0) := by
  unfold fmtEParts; rw [if_pos rfl]

/-- mantissa bound for every value, zero included -/
theorem fmtEParts_lt (p n d : Nat) (hd : 0 < d) : (fmtEParts p n d).1 < 10 ^ (p + 1) := by
  by_cases hn : n = 0
  · rw [hn, fmtEParts_zero]; exact pow10_pos _
  · exact (fmtEParts_normalised p n d (by omega) hd).2

end Proofs
