import PyTough.Proofs.InconRoundtrip
import PyTough.Proofs.InconRewrite
namespace Proofs.Incon
open Py Model Model.Incon Model.Names Proofs

/-! ### the second generation -/

/-- a written value as it is handed back to `write` after having been read (exact decimal: A-float) -/
def back (rf : ReadFn) (f : FieldSpec) (v : Val) : Val := pvalToVal (reparse rf f v)

/-- writing the re-read value reproduces the text of the first write -/
def StableW (rf : ReadFn) (f : FieldSpec) (v : Val) : Prop :=
  ∀ s, writeField f v = .ok s → writeField f (back rf f v) = .ok s

/-- the first write of a real kept the field's own precision -/
def FullPrec (f : FieldSpec) (v : Val) : Prop :=
  ∀ r, v = .real r → ∃ s, fmtVal f (.real r) = .ok s ∧ s.length ≤ f.width

theorem stable_none (rf : ReadFn) {f : FieldSpec} (ht : NumericTyp f.typ) : StableW rf f .none := by
  intro s hs
  unfold back
  rw [(readable_none rf ht).2]
  exact hs

theorem stable_int (rf : ReadFn) {f : FieldSpec} (ht : f.typ = 'd') (i : Int) : StableW rf f (.int i) := by
  intro s hs
  unfold back
  rw [((integers_exact_aux rf ht).1 i s hs)]
  exact hs
where
  integers_exact_aux (rf : ReadFn) {f : FieldSpec} (ht : f.typ = 'd') :
      (∀ (i : Int) (s : Str), writeField f (.int i) = .ok s → reparse rf f (.int i) = .int i) ∧ True := by
    refine ⟨?_, trivial⟩
    intro i s h
    unfold reparse
    rw [h]; simp only; rw [ht, roundtrip_d_int rf ht i h]

theorem stable_real (rf : ReadFn) {f : FieldSpec} (ht : f.typ = 'e') {v : Val} (hv : IsReal v)
    (hfull : FullPrec f v) : StableW rf f v := by
  obtain ⟨r, rfl⟩ := hv
  obtain ⟨s0, h1, h2⟩ := hfull r rfl
  obtain ⟨hw, hb⟩ := rewrite_real_stable rf ht r h1 h2
  intro s hs
  rw [hw] at hs; cases hs
  exact hb

theorem stable_intOrNone (rf : ReadFn) {f : FieldSpec} (ht : f.typ = 'd') {v : Val} (hv : IsIntOrNone v) :
    StableW rf f v := by
  rcases hv with rfl | ⟨i, rfl⟩
  · exact stable_none rf (numeric_of_d ht)
  · exact stable_int rf ht i

theorem stable_realOrNone (rf : ReadFn) {f : FieldSpec} (ht : f.typ = 'e') {v : Val} (hv : IsRealOrNone v)
    (hfull : FullPrec f v) : StableW rf f v := by
  rcases hv with rfl | hv
  · exact stable_none rf (numeric_of_e ht)
  · exact stable_real rf ht hv hfull

/-- the values of one record, each handed back through its own field -/
def backVals (rf : ReadFn) (fs : List FieldSpec) (vals : List Val) : List Val :=
  (vals.zip fs).map (fun vf => back rf vf.2 vf.1)

theorem writeValues_back (rf : ReadFn) : ∀ (vals : List Val) (fs : List FieldSpec) (strs : List Str),
    (∀ vf ∈ vals.zip fs, StableW rf vf.2 vf.1) →
    All2 (fun (vf : Val × FieldSpec) s => writeField vf.2 vf.1 = .ok s) (vals.zip fs) strs →
    All2 (fun (vf : Val × FieldSpec) s => writeField vf.2 vf.1 = .ok s) ((backVals rf fs vals).zip fs) strs := by
  intro vals
  induction vals with
  | nil => intro fs strs _ h; simpa [backVals] using h
  | cons v vs ih =>
    intro fs strs hst h
    cases fs with
    | nil => simpa [backVals] using h
    | cons f fr =>
      simp only [List.zip_cons_cons] at h hst
      cases h with
      | cons hab t =>
        have h1 := hst (v, f) (by simp) _ hab
        have h2 := ih fr _ (fun vf hvf => hst vf (List.mem_cons_of_mem _ hvf)) t
        simp only [backVals, List.zip_cons_cons, List.map_cons]
        exact .cons h1 h2

theorem writeLine_back (rf : ReadFn) {fs : List FieldSpec} {vals : List Val} {l : Str}
    (hst : ∀ vf ∈ vals.zip fs, StableW rf vf.2 vf.1) (h : writeLine fs vals = .ok l) :
    writeLine fs (backVals rf fs vals) = .ok l := by
  obtain ⟨rec, hw, rfl⟩ := writeLine_ok h
  obtain ⟨strs, h1, rfl⟩ := (writeValues_ok_iff _ _ _).mp hw
  have h2 := writeValues_back rf vals fs strs hst h1
  have : writeValues fs (backVals rf fs vals) = .ok strs.flatten :=
    (writeValues_ok_iff _ _ _).mpr ⟨strs, h2, rfl⟩
  unfold writeLine
  rw [this]; rfl


/-! ### one block, second generation -/

structure BlockFull (L : Layout) (b : Block Val) : Prop where
  vars : ∀ x ∈ b.vars, FullPrec L.v x
  por : FullPrec L.por b.porosity
  perm : ∀ k, b.permeability = some k → FullPrec L.k1 k.1 ∧ FullPrec L.k2 k.2.1 ∧ FullPrec L.k3 k.2.2

/-- the block that `read` returned, handed back to `write` -/
def backBlock (rf : ReadFn) (L : Layout) (sim : Str) (b : Block Val) : Block Val :=
  (canonBlock rf L sim b).mapVals pvalToVal

theorem chunks4_map {α β : Type} (g : α → β) : ∀ (fuel : Nat) (l : List α),
    chunks4 fuel (l.map g) = (chunks4 fuel l).map (List.map g) := by
  intro fuel
  induction fuel with
  | zero => intro l; rfl
  | succ fuel ih =>
    intro l
    cases l with
    | nil => rfl
    | cons a r =>
      simp only [List.map_cons, chunks4]
      rw [← List.map_cons, ← List.map_drop, ih, ← List.map_take]

theorem map_back_eq_backVals (rf : ReadFn) (v : FieldSpec) : ∀ (c : List Val) (fs : List FieldSpec),
    c.length ≤ fs.length → (∀ f ∈ fs, f = v) → c.map (back rf v) = backVals rf fs c := by
  intro c
  induction c with
  | nil => intro fs _ _; rfl
  | cons x xs ih =>
    intro fs hl hf
    cases fs with
    | nil => simp at hl
    | cons f fr =>
      have := ih fr (by simpa using hl) (fun g hg => hf g (List.mem_cons_of_mem _ hg))
      simp only [List.map_cons, backVals, List.zip_cons_cons] at this ⊢
      rw [this, hf f (by simp)]

theorem mapM_ok_of_all2 {α β : Type} (f : α → Except Exc β) {l : List α} {out : List β}
    (h : All2 (fun a b => f a = .ok b) l out) : l.mapM f = .ok out := (mapM_ok_iff f l out).mpr h

theorem writeBlock_back (rf : ReadFn) {S : Specs} {L : Layout} (hL : LayoutOK S L) (sim : Str) {b : Block Val}
    (hwf : BlockWF b) (hfull : BlockFull L b) {lines : List Str} (hw : writeBlock S sim b = .ok lines) :
    writeBlock S sim (backBlock rf L sim b) = .ok lines := by
  rw [writeBlock_eq hL] at hw ⊢
  cases h1 : writeLine S.incon1Tr (hdrVals sim b) with
  | error e => rw [h1] at hw; cases hw
  | ok l1 =>
    rw [h1] at hw
    cases hls : (chunks4 b.vars.length b.vars).mapM (writeLine S.incon2) with
    | error e => rw [hls] at hw; cases hw
    | ok ls =>
      rw [hls] at hw
      cases hw
      -- the name comes back as itself
      obtain ⟨a, b', c', d', e', hn, he⟩ := valid_last_digit (unfix_length5 hwf.name5) hwf.valid
      have hnl : ∀ c, (unfixBlockname b.block).getLast? = some c → c ≠ '\n' := by
        intro c hc; rw [hn] at hc; simp at hc; subst hc
        intro e; rw [e] at he; revert he; decide
      have hname := (reparse_name rf hL.name_s hL.name_prec hL.name_w (unfix_length5 hwf.name5) hnl).2
      have hbackname : back rf L.name (.str (unfixBlockname b.block)) = .str (unfixBlockname b.block) := by
        unfold back; rw [hname]; rfl
      -- first record
      have hhdr : hdrVals sim (backBlock rf L sim b) = backVals rf S.incon1Tr (hdrVals sim b) := by
        unfold hdrVals backBlock canonBlock Block.mapVals backVals
        rw [hL.incon1Tr]
        cases hd : decide (sim = TOUGHREACT) <;> cases hp : b.permeability with
        | none => simp [back, hbackname, hname, pvalToVal]
        | some k =>
          obtain ⟨k1, k2, k3⟩ := k
          have hsim := hd
          simp only [decide_eq_true_eq, decide_eq_false_iff_not] at hsim
          simp [back, hname, pvalToVal, hsim]
      have hst1 : ∀ vf ∈ (hdrVals sim b).zip S.incon1Tr, StableW rf vf.2 vf.1 := by
        have hsn : StableW rf L.name (.str (unfixBlockname b.block)) := by
          intro s hs; rw [hbackname]; exact hs
        have hss := stable_intOrNone rf hL.nseq_d hwf.nseq
        have hsa := stable_intOrNone rf hL.nadd_d hwf.nadd
        have hsp := stable_realOrNone rf hL.por_e hwf.por hfull.por
        unfold hdrVals
        rw [hL.incon1Tr]
        cases hd : decide (sim = TOUGHREACT) <;> cases hp : b.permeability with
        | none =>
          intro vf hvf; simp at hvf
          rcases hvf with rfl | rfl | rfl | rfl
          · exact hsn
          · exact hss
          · exact hsa
          · exact hsp
        | some k =>
          obtain ⟨k1, k2, k3⟩ := k
          intro vf hvf; simp at hvf
          first
            | (rcases hvf with rfl | rfl | rfl | rfl
               · exact hsn
               · exact hss
               · exact hsa
               · exact hsp)
            | (obtain ⟨f1, f2, f3⟩ := hfull.perm _ hp
               obtain ⟨r1, r2, r3⟩ := hwf.perm _ hp
               rcases hvf with rfl | rfl | rfl | rfl | rfl | rfl | rfl
               · exact hsn
               · exact hss
               · exact hsa
               · exact hsp
               · exact stable_real rf hL.k1_e r1 f1
               · exact stable_real rf hL.k2_e r2 f2
               · exact stable_real rf hL.k3_e r3 f3)
      rw [hhdr, writeLine_back rf hst1 h1]
      -- value lines
      have hvars : (backBlock rf L sim b).vars = b.vars.map (back rf L.v) := by
        unfold backBlock canonBlock Block.mapVals back
        simp [List.map_map, Function.comp_def]
      have hlen : (backBlock rf L sim b).vars.length = b.vars.length := by rw [hvars, List.length_map]
      rw [hlen, hvars, chunks4_map]
      obtain ⟨_, hchunks⟩ := chunks4_spec b.vars.length b.vars (Nat.le_refl _)
      have hall := (mapM_ok_iff _ _ _).mp hls
      have hall' : All2 (fun c l => writeLine S.incon2 c = .ok l)
          ((chunks4 b.vars.length b.vars).map (List.map (back rf L.v))) ls := by
        have key : ∀ (cs : List (List Val)) (ls : List Str),
            (∀ c ∈ cs, c.length ≤ 4 ∧ ∀ x ∈ c, x ∈ b.vars) →
            All2 (fun c l => writeLine S.incon2 c = .ok l) cs ls →
            All2 (fun c l => writeLine S.incon2 c = .ok l) (cs.map (List.map (back rf L.v))) ls := by
          intro cs ls hcs hall
          induction hall with
          | nil => exact .nil
          | cons hab t ih =>
            rename_i c l cs' ls'
            refine .cons ?_ (ih (fun c' hc' => hcs c' (List.mem_cons_of_mem _ hc')))
            obtain ⟨hc4, hcm⟩ := hcs c (by simp)
            rw [hL.incon2] at hab ⊢
            rw [map_back_eq_backVals rf L.v c [L.v, L.v, L.v, L.v] (by simpa using hc4) (by simp)]
            apply writeLine_back rf _ hab
            intro vf hvf
            have h2 := (List.of_mem_zip hvf).2
            have h1 := (List.of_mem_zip hvf).1
            simp at h2
            rw [h2]
            exact stable_real rf hL.v_e (hwf.vars_real _ (hcm _ h1)) (hfull.vars _ (hcm _ h1))
        exact key _ _ (fun c hc => ⟨(hchunks c hc).2.1, (hchunks c hc).2.2⟩) hall
      rw [mapM_ok_of_all2 _ hall']
      rfl


/-! ### the whole file, second generation -/

/-- the object `read` returned, handed back to `write` (values as exact decimals) -/
def backIncon (rf : ReadFn) (L : Layout) (T U : TLayout) (x : Incon Val) (reset : Bool) : Incon Val :=
  (canonIncon rf L T U x reset).mapVals pvalToVal

/-- the fields of the long header -/
structure HeaderOK (S : Specs) (h0 h1 h2 h3 : FieldSpec) : Prop where
  shape : S.headerLong = [h0, h1, h2, h3]

/-- no value of `x` needed the width guard's reduced precision, and (when the long header is
    written) the header's 6-decimal time is the same for the in-memory and the re-read `sumtim` -/
structure AllFull (rf : ReadFn) (L : Layout) (T U : TLayout) (h3 : FieldSpec) (x : Incon Val) (reset : Bool) : Prop where
  blocks : ∀ b ∈ x.blocks, BlockFull L b
  timing : ∀ t, x.timing = some t → reset = false →
    FullPrec (if x.simulator = TOUGHREACT then U else T).tstart t.tstart ∧
    FullPrec (if x.simulator = TOUGHREACT then U else T).sumtim t.sumtim ∧
    (∀ s, writeField h3 t.sumtim = .ok s →
      writeField h3 (back rf (if x.simulator = TOUGHREACT then U else T).sumtim t.sumtim) = .ok s)

theorem body_back (rf : ReadFn) {S : Specs} {L : Layout} (hL : LayoutOK S L) (sim : Str) :
    ∀ (blocks : List (Block Val)) (body : List (List Str)),
    (∀ b ∈ blocks, BlockWF b ∧ BlockFull L b) → blocks.mapM (writeBlock S sim) = .ok body →
    (blocks.map (backBlock rf L sim)).mapM (writeBlock S sim) = .ok body := by
  intro blocks
  induction blocks with
  | nil => intro body _ h; exact h
  | cons b bl ih =>
    intro body hb hm
    rw [List.mapM_cons] at hm
    cases h1 : writeBlock S sim b with
    | error e => rw [h1] at hm; cases hm
    | ok lines =>
      rw [h1] at hm
      cases h2 : bl.mapM (writeBlock S sim) with
      | error e => rw [h2] at hm; cases hm
      | ok body' =>
        rw [h2] at hm
        cases hm
        rw [List.map_cons, List.mapM_cons, writeBlock_back rf hL sim (hb b (by simp)).1 (hb b (by simp)).2 h1,
          ih body' (fun b' hb' => hb b' (List.mem_cons_of_mem _ hb')) h2]
        rfl

theorem timing_back (rf : ReadFn) {fs : List FieldSpec} {T : TLayout} (hT : TimingOK fs T) {t : Timing Val}
    (hwf : TimingWF t) (hf1 : FullPrec T.tstart t.tstart) (hf2 : FullPrec T.sumtim t.sumtim) {l : Str}
    (h : writeLine fs [t.kcyc, t.iter, t.nm, t.tstart, t.sumtim] = .ok l) :
    writeLine fs [back rf T.kcyc t.kcyc, back rf T.iter t.iter, back rf T.nm t.nm, back rf T.tstart t.tstart,
      back rf T.sumtim t.sumtim] = .ok l := by
  have hb : backVals rf fs [t.kcyc, t.iter, t.nm, t.tstart, t.sumtim] =
      [back rf T.kcyc t.kcyc, back rf T.iter t.iter, back rf T.nm t.nm, back rf T.tstart t.tstart,
        back rf T.sumtim t.sumtim] := by
    rw [hT.shape]; rfl
  rw [← hb]
  apply writeLine_back rf _ h
  rw [hT.shape]
  intro vf hvf; simp at hvf
  rcases hvf with rfl | rfl | rfl | rfl | rfl
  · exact stable_intOrNone rf hT.kcyc_d hwf.kcyc
  · exact stable_intOrNone rf hT.iter_d hwf.iter
  · exact stable_intOrNone rf hT.nm_d hwf.nm
  · exact stable_realOrNone rf hT.tstart_e hwf.tstart hf1
  · exact stable_real rf hT.sumtim_e hwf.sumtim hf2


theorem backIncon_blocks (rf : ReadFn) (L : Layout) (T U : TLayout) (x : Incon Val) (reset : Bool) :
    (backIncon rf L T U x reset).blocks = x.blocks.map (backBlock rf L x.simulator) := by
  simp [backIncon, canonIncon, Incon.mapVals, backBlock, List.map_map, Function.comp_def]

/-- **Writing it again** (`_partial`): for a well-formed `x` none of whose values needed reduced
    precision (`AllFull`), the object that `read` returned for the file `write` produced — handed
    back to `write` with its values as exact decimals — is written as the very same lines. -/
theorem write_back (rf : ReadFn) {S : Specs} {L : Layout} {T U : TLayout} {h0 h1 h2 h3 : FieldSpec}
    (hL : LayoutOK S L) (hT : TimingOK S.timing T) (hU : TimingOK S.timingTr U) (hH : HeaderOK S h0 h1 h2 h3)
    (x : Incon Val) (nvars : Option Nat) (reset : Bool) (hwf : InconWF x nvars)
    (hfull : AllFull rf L T U h3 x reset) {file : List Str} (hw : write S x reset = .ok file) :
    write S (backIncon rf L T U x reset) reset = .ok file := by
  have hblocks := backIncon_blocks rf L T U x reset
  have hsim : (backIncon rf L T U x reset).simulator = x.simulator := rfl
  have hbody : ∀ body, x.blocks.mapM (writeBlock S x.simulator) = .ok body →
      (backIncon rf L T U x reset).blocks.mapM (writeBlock S x.simulator) = .ok body := by
    intro body hb
    rw [hblocks]
    exact body_back rf hL x.simulator x.blocks body
      (fun b hb' => ⟨(hwf.blocks b hb').1, hfull.blocks b hb'⟩) hb
  unfold write at hw ⊢
  simp only [bind, Except.bind, pure, Except.pure, hsim] at hw ⊢
  cases ht : x.timing with
  | none =>
    have ht' : (backIncon rf L T U x reset).timing = none := by
      simp [backIncon, canonIncon, Incon.mapVals, timingWritten, ht]
    rw [ht] at hw
    rw [ht']
    simp only [Option.isNone_none, Bool.true_or] at hw ⊢
    cases hh : writeLine S.headerShort [Val.str headerShortTitle] with
    | error e => rw [hh] at hw; cases hw
    | ok header =>
      rw [hh] at hw
      simp only at hw ⊢
      cases hb : x.blocks.mapM (writeBlock S x.simulator) with
      | error e => rw [hb] at hw; cases hw
      | ok body => rw [hb] at hw; rw [hbody body hb]; exact hw
  | some t =>
    rw [ht] at hw
    cases reset with
    | true =>
      have ht' : (backIncon rf L T U x true).timing = none := by
        simp [backIncon, canonIncon, Incon.mapVals, timingWritten, ht]
      rw [ht']
      simp only [Option.isNone_some, Option.isNone_none, Bool.or_true, Bool.true_or] at hw ⊢
      cases hh : writeLine S.headerShort [Val.str headerShortTitle] with
      | error e => rw [hh] at hw; cases hw
      | ok header =>
        rw [hh] at hw
        simp only at hw ⊢
        cases hb : x.blocks.mapM (writeBlock S x.simulator) with
        | error e => rw [hb] at hw; cases hw
        | ok body => rw [hb] at hw; rw [hbody body hb]; exact hw
    | false =>
      have htwf := hwf.timing t ht
      obtain ⟨hf1, hf2, hhdr⟩ := hfull.timing t ht rfl
      have ht' : (backIncon rf L T U x false).timing =
          some (Timing.mk
            (back rf (if x.simulator = TOUGHREACT then U else T).kcyc t.kcyc)
            (back rf (if x.simulator = TOUGHREACT then U else T).iter t.iter)
            (back rf (if x.simulator = TOUGHREACT then U else T).nm t.nm)
            (back rf (if x.simulator = TOUGHREACT then U else T).tstart t.tstart)
            (back rf (if x.simulator = TOUGHREACT then U else T).sumtim t.sumtim)) := by
        simp [backIncon, canonIncon, Incon.mapVals, timingWritten, ht, canonTiming, back]
      rw [ht']
      simp only [Option.isNone_some, Bool.or_false] at hw ⊢
      have hlen : (backIncon rf L T U x false).blocks.length = x.blocks.length := by
        rw [hblocks, List.length_map]
      rw [hlen]
      cases hh : writeLine S.headerLong [Val.str headerTitle, Val.int x.blocks.length, Val.str headerMiddle, t.sumtim] with
      | error e => rw [hh] at hw; cases hw
      | ok header =>
        rw [hh] at hw
        simp only at hw
        -- the header: only the time differs, and it is printed identically by hypothesis
        have hh' : writeLine S.headerLong [Val.str headerTitle, Val.int x.blocks.length, Val.str headerMiddle,
            back rf (if x.simulator = TOUGHREACT then U else T).sumtim t.sumtim] = .ok header := by
          obtain ⟨s, hs⟩ := written_each hh (t.sumtim, h3) (by rw [hH.shape]; simp)
          have e := hhdr s hs
          have e0 : writeField h3 (back rf (if x.simulator = TOUGHREACT then U else T).sumtim t.sumtim)
              = writeField h3 t.sumtim := by rw [e, hs]
          rw [← hh]
          unfold writeLine writeValues
          rw [hH.shape]
          simp only [List.zip_cons_cons, List.zip_nil_right, List.mapM_cons, List.mapM_nil, e0]
        rw [hh']
        simp only
        cases hb : x.blocks.mapM (writeBlock S x.simulator) with
        | error e => rw [hb] at hw; cases hw
        | ok body =>
          rw [hb] at hw
          rw [hbody body hb]
          simp only at hw ⊢
          cases hl : writeLine (if x.simulator = TOUGHREACT then S.timingTr else S.timing)
              [t.kcyc, t.iter, t.nm, t.tstart, t.sumtim] with
          | error e => rw [hl] at hw; cases hw
          | ok l =>
            rw [hl] at hw
            by_cases hs : x.simulator = TOUGHREACT
            · simp only [hs, if_true] at hl hf1 hf2 ⊢
              rw [timing_back rf hU htwf hf1 hf2 hl]
              simpa [hs] using hw
            · simp only [hs, if_false] at hl hf1 hf2 ⊢
              rw [timing_back rf hT htwf hf1 hf2 hl]
              simpa [hs] using hw

end Proofs.Incon
