/-
  C01 proofs, layer 5: composition of the per-section round trips into whole objects.

  `whole_loop`: the keyword loop of `read()` run on the text `write()` produced for a list of sections, when
  each section kind has a round trip of the uniform shape `StepRT` (its text is `keyword line :: body`; its
  reader, started on the body followed by *any continuation that begins with a keyword line*, returns the
  section's canonical update of the reader's state and leaves the continuation — or, for PARAM, hands the
  keyword line it read ahead back to the loop).  By induction over the section list.
  `whole_read_write`: the same through `T2Data.write` / `T2Data.read` (title line, sections, end keyword).
-/
import PyTough.Proofs.T2DataTables
namespace Proofs.T2
open Py Model Model.T2 Proofs
open Gen.Sections (Rec)

/-- the continuation of a section in a written file begins with a keyword line (the next section's, or ENDCY /
    ENDFI) -/
def KwStart (tail : List Str) : Prop :=
  ∃ l r, tail = l :: r ∧ isBlank (padstring l) = false ∧ paramStops.any (startsWith (padstring l)) = true

/-- `hdr` is a line that both the keyword loop (raw or padded) and PARAM's look-ahead take for the keyword line
    of the section `kw`: `nl kw` for most sections, `MESHMAKER` for MESHM, `SHORT` + frequency for SHORT -/
structure HdrOf (kw hdr : Str) : Prop where
  ne : hdr ≠ []
  raw : keywordOf hdr = kw
  padded : keywordOf (padstring hdr) = kw
  notBlank : isBlank (padstring hdr) = false
  stops : paramStops.any (startsWith (padstring hdr)) = true

/-- the reader's object has no extra-precision sections (no companion file was read) -/
def XpFree (d0 : T2Data) : Prop := d0.extraPrecision = []

/-- the uniform shape of a section round trip, as the keyword loop needs it: the section of `d` is written as
    its keyword line `hdr` (any line the loop takes for the keyword `kw`) and a body, and the reader started in state `d0` on the body followed by a continuation
    that begins with a keyword line returns `d1` and the continuation (possibly having read its first line ahead) -/
structure StepRT (d : T2Data) (kw : Str) (d0 d1 : T2Data) : Prop where
  writes : ∃ hdr body, writeSection mainTabs d kw = .ok (hdr :: body) ∧ HdrOf kw hdr ∧
    ∀ line, line = hdr ∨ line = padstring hdr → ∀ tail, KwStart tail → ∃ nxt rest',
      readSection .default none d0 kw line (body ++ tail) = .ok (d1, nxt, rest') ∧ Follows tail nxt rest'
  xp : d1.extraPrecision = []

/-- the reader's object after the sections `kws`, each applying its canonical update `step kw` and being
    recorded in `_sections` -/
def canonFrom (step : Str → T2Data → T2Data) : List Str → T2Data → T2Data
  | [], d0 => d0
  | kw :: kws, d0 => canonFrom step kws { step kw d0 with sections := (step kw d0).sections ++ [kw] }

/-- the side conditions of the sections `kws`, each stated on the reader's state when the section is met -/
def GoodFrom (step : Str → T2Data → T2Data) (Good : Str → T2Data → Prop) : List Str → T2Data → Prop
  | [], _ => True
  | kw :: kws, d0 => Good kw d0 ∧ GoodFrom step Good kws { step kw d0 with sections := (step kw d0).sections ++ [kw] }

theorem stops_facts : ∀ kw ∈ paramStops, keywordOf (nl kw) = kw ∧ keywordOf (padstring (nl kw)) = kw ∧
    isBlank (padstring (nl kw)) = false ∧ paramStops.any (startsWith (padstring (nl kw))) = true := by
  decide +kernel

theorem sections_not_end : ∀ kw ∈ allSections, (kw == c!"ENDCY" || kw == c!"ENDFI") = false := by
  decide +kernel

theorem mem_stops_of_section {kw : Str} (h : kw ∈ allSections) : kw ∈ paramStops := by
  unfold paramStops; exact List.mem_append_left _ h

theorem mem_stops_of_end {kw : Str} (h : IsEnd kw) : kw ∈ paramStops := by
  unfold paramStops
  rcases h with rfl | rfl <;> simp

/-- a continuation that begins with a keyword line ends PARAM's look-ahead: the line is handed back padded -/
theorem kwEnd_of_kwStart {tail : List Str} (h : KwStart tail) :
    ∃ l r, tail = l :: r ∧ KwEnd paramStops tail (some (padstring l)) r := by
  obtain ⟨l, r, rfl, h3, h4⟩ := h
  exact ⟨l, r, rfl, KwEnd.keyword l r h3 h4⟩

/-- the plain keyword line `nl kw` of a section or end keyword is a header line of `kw` -/
theorem hdrOf_nl {kw : Str} (h : kw ∈ paramStops) : HdrOf kw (nl kw) := by
  obtain ⟨h1, h2, h3, h4⟩ := stops_facts kw h
  exact ⟨by unfold nl; simp, h1, h2, h3, h4⟩

theorem kwStart_of_hdr {kw hdr : Str} (h : HdrOf kw hdr) (r : List Str) : KwStart (hdr :: r) :=
  ⟨hdr, r, rfl, h.notBlank, h.stops⟩

theorem mapM_cons_ok {α β : Type} (f : α → Except Exc β) (a : α) (as : List α) (out : List β)
    (h : (a :: as).mapM f = .ok out) : ∃ x xs, f a = .ok x ∧ as.mapM f = .ok xs ∧ out = x :: xs := by
  simp only [List.mapM_cons, bind, Except.bind, pure, Except.pure] at h
  cases h1 : f a with
  | error e => rw [h1] at h; cases h
  | ok x =>
    rw [h1] at h
    cases h2 : as.mapM f with
    | error e => rw [h2] at h; cases h
    | ok xs => rw [h2] at h; cases h; exact ⟨x, xs, rfl, rfl, rfl⟩

/-- **the keyword loop composes the section round trips**, by induction over the section list -/
theorem whole_loop (d : T2Data) (step : Str → T2Data → T2Data) (Good : Str → T2Data → Prop) (K : Str → Prop)
    (hK : ∀ kw, K kw → kw ∈ allSections)
    (hstep : ∀ kw d0, K kw → XpFree d0 → Good kw d0 → StepRT d kw d0 (step kw d0))
    (endkw : Str) (hend : IsEnd endkw) :
    ∀ (kws : List Str) (d0 : T2Data) (nxt : Option Str) (ls : List Str) (fuel : Nat) (texts : List (List Str)),
      (∀ kw ∈ kws, K kw) → XpFree d0 → GoodFrom step Good kws d0 →
      kws.mapM (writeSection mainTabs d) = .ok texts → Rep nxt ls (texts.flatten ++ [nl endkw]) → kws.length < fuel →
      readLoop .default none fuel d0 nxt ls = .ok { canonFrom step kws d0 with endKeyword := endkw } := by
  have hkwEnd : keywordOf (nl endkw) = endkw ∧ keywordOf (padstring (nl endkw)) = endkw := by
    rcases hend with rfl | rfl <;> exact ⟨by decide, by decide⟩
  have hendNe : nl endkw ≠ [] := by unfold nl; simp
  have hendTest : (endkw == c!"ENDCY" || endkw == c!"ENDFI") = true := by
    rcases hend with rfl | rfl <;> decide
  intro kws
  induction kws with
  | nil =>
    intro d0 nxt ls fuel texts _ _ _ hw hrep hf
    simp only [List.mapM_nil, pure, Except.pure] at hw
    cases hw
    cases fuel with
    | zero => simp at hf
    | succ fuel =>
      simp only [List.flatten_nil, List.nil_append] at hrep
      rcases hrep with ⟨rfl, rfl⟩ | ⟨l, r, hR, rfl, rfl⟩
      · rw [readLoop_none _ _ _ _ _ hendNe]
        simp only [loopBody, hkwEnd.1, hendTest, if_true, canonFrom]
      · cases hR
        rw [readLoop_some _ _ _ _ _ (padstring_ne_nil hendNe)]
        simp only [loopBody, hkwEnd.2, hendTest, if_true, canonFrom]
  | cons kw kws ih =>
    intro d0 nxt ls fuel texts hKs hxp hgood hw hrep hf
    obtain ⟨t, ts, hwt, hwts, rfl⟩ := mapM_cons_ok _ _ _ _ hw
    obtain ⟨hg0, hgrest⟩ := hgood
    have hKkw : K kw := hKs kw (by simp)
    have hrt := hstep kw d0 hKkw hxp hg0
    obtain ⟨hdr, body, hwb, hhdr, hreads⟩ := hrt.writes
    rw [hwt] at hwb
    cases hwb
    have hmem := hK kw hKkw
    have hk1 := hhdr.raw
    have hk2 := hhdr.padded
    have hnotend := sections_not_end kw hmem
    have hcontains : allSections.contains kw = true := by simpa using hmem
    have hxp1 : XpFree { step kw d0 with sections := (step kw d0).sections ++ [kw] } := hrt.xp
    -- the continuation begins with a keyword line
    have htail : KwStart (ts.flatten ++ [nl endkw]) := by
      cases kws with
      | nil =>
        simp only [List.mapM_nil, pure, Except.pure] at hwts
        cases hwts
        exact kwStart_of_hdr (hdrOf_nl (mem_stops_of_end hend)) []
      | cons kw2 kws2 =>
        obtain ⟨t2, ts2, hwt2, _, rfl⟩ := mapM_cons_ok _ _ _ _ hwts
        have hK2 : K kw2 := hKs kw2 (by simp)
        obtain ⟨hdr2, body2, hwb2, hhdr2, _⟩ := (hstep kw2 _ hK2 hxp1 hgrest.1).writes
        rw [hwt2] at hwb2
        cases hwb2
        have := kwStart_of_hdr hhdr2 (body2 ++ (ts2.flatten ++ [nl endkw]))
        simpa using this
    cases fuel with
    | zero => simp at hf
    | succ fuel =>
      have hlay : ((hdr :: body) :: ts).flatten ++ [nl endkw] = hdr :: (body ++ (ts.flatten ++ [nl endkw])) := by
        simp
      rw [hlay] at hrep
      have hne : hdr ≠ [] := hhdr.ne
      obtain ⟨line, hline, hkw, hloop⟩ : ∃ line, (line = hdr ∨ line = padstring hdr) ∧ keywordOf line = kw ∧
          readLoop .default none (fuel + 1) d0 nxt ls = loopBody .default none fuel d0 line (body ++ (ts.flatten ++ [nl endkw])) := by
        rcases hrep with ⟨rfl, rfl⟩ | ⟨l, r, hR, rfl, rfl⟩
        · exact ⟨hdr, Or.inl rfl, hk1, readLoop_none _ _ _ _ _ hne⟩
        · cases hR
          exact ⟨padstring hdr, Or.inr rfl, hk2, readLoop_some _ _ _ _ _ (padstring_ne_nil hne)⟩
      rw [hloop]
      obtain ⟨nxt', rest', hrd, hfol⟩ := hreads line hline _ htail
      simp only [loopBody, hkw, hnotend, hcontains, hrd, Bool.false_eq_true, if_false, if_true]
      exact ih _ nxt' rest' fuel ts (fun k hk => hKs k (List.mem_cons_of_mem _ hk)) hxp1 hgrest hwts hfol (by simpa using hf)

end Proofs.T2
