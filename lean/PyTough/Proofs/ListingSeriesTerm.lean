/-
  Property C06 ("the call always terminates") for history() on the AUTOUGH2 family: the only way the call can fail to
  return is that `skip_to_nonblank` or `skip_to_results_line` runs to the end of the file without meeting its stop
  condition.  Core Lean only.
-/
import PyTough.Model.ListingHistory
import PyTough.Proofs.ListingFile
namespace Proofs.SeriesTerm
open Py Model Model.Listing

/-- every way `m` (run on the reader `env`) can end in `LErr.diverges` implies `P` -/
def DivFrom (P : Prop) (env : Rd) {α : Type} (m : C α) : Prop := ∀ c, m env c = .error .diverges → P

/-- the `Except LErr` computation never ends in `LErr.diverges` -/
def NoDivE {α : Type} (x : Except LErr α) : Prop := x ≠ .error .diverges

section closure
variable {P : Prop} {env : Rd} {α β : Type}

theorem DivFrom.pure (a : α) : DivFrom P env (pure a : C α) := by
  intro c h; cases h

theorem DivFrom.bind {m : C α} {f : α → C β} (hm : DivFrom P env m) (hf : ∀ a, DivFrom P env (f a)) :
    DivFrom P env (m >>= f) := by
  intro c h
  simp only [Bind.bind, ReaderT.bind, StateT.bind, Except.bind] at h
  cases hmc : m env c with
  | error e => rw [hmc] at h; simp only at h; cases h; exact hm c hmc
  | ok p => rw [hmc] at h; exact hf p.1 p.2 h

theorem DivFrom.readBind {f : Rd → C β} (hf : DivFrom P env (f env)) : DivFrom P env (read >>= f) := by
  intro c h; exact hf c h

theorem DivFrom.get : DivFrom P env (get : C Cur) := by
  intro c h; cases h

theorem DivFrom.read : DivFrom P env (read : C Rd) := by
  intro c h; cases h

theorem DivFrom.set (s : Cur) : DivFrom P env (set s : C PUnit) := by
  intro c h; cases h

theorem DivFrom.modify (g : Cur → Cur) : DivFrom P env (modify g : C PUnit) := by
  intro c h; cases h

theorem DivFrom.raise (e : Exc) : DivFrom P env (Cu.raise e : C α) := by
  intro c h; cases h

theorem DivFrom.throwPy (e : Exc) : DivFrom P env (throw (LErr.py e) : C α) := by
  intro c h; cases h

theorem DivFrom.throwNamed (e : String) : DivFrom P env (throw (LErr.named e) : C α) := by
  intro c h; cases h

theorem DivFrom.liftE (x : Except Exc α) : DivFrom P env (Cu.liftE x : C α) := by
  intro c h
  cases x <;> cases h

end closure

/-- one structural step -/
macro "div_step" : tactic => `(tactic| with_reducible first
  | exact DivFrom.pure _
  | exact DivFrom.get
  | exact DivFrom.read
  | exact DivFrom.set _
  | exact DivFrom.modify _
  | exact DivFrom.raise _
  | exact DivFrom.throwPy _
  | exact DivFrom.throwNamed _
  | exact DivFrom.liftE _
  | assumption
  | (refine DivFrom.readBind ?_)
  | (refine DivFrom.bind ?_ ?_)
  | (intro _)
  | (dsimp only)
  | split)

/-- the witness: a cursor actually reached at which one of the two line loops spins -/
def SpinsAt (env : Rd) : Prop :=
  ∃ cur : Cur, Cu.skipToNonblank env cur = .error .diverges ∨ ∃ e : Int, Cu.skipToResultsLine e env cur = .error .diverges

section fns
variable {P : Prop} {env : Rd}

theorem readline_div : DivFrom P env Cu.readline := by
  unfold Cu.readline; repeat div_step

theorem seek_div (p : Pos) : DivFrom P env (Cu.seek p) := by
  unfold Cu.seek; repeat div_step

theorem seek0_div : DivFrom P env Cu.seek0 := by
  unfold Cu.seek0; repeat div_step

theorem skipto_div (kws : List Str) (start : Nat) : DivFrom P env (Cu.skipto kws start) := by
  unfold Cu.skipto; repeat div_step

theorem skipto1_div (kw : String) (start : Nat) : DivFrom P env (Cu.skipto1 kw start) := skipto_div _ _

theorem skipToBlank_div : DivFrom P env Cu.skipToBlank := by
  unfold Cu.skipToBlank; repeat div_step

theorem getTable_div (n : String) : DivFrom P env (Cu.getTable n) := by
  unfold Cu.getTable; repeat div_step

theorem tableExpectedFloats_div (n : String) (cols : List Str) : DivFrom P env (Cu.tableExpectedFloats n cols) := by
  unfold Cu.tableExpectedFloats; repeat div_step

theorem tableCharC_div (n : String) : DivFrom P env (tableCharC n) := by
  unfold tableCharC; repeat div_step

theorem neltUpTo_div (ft : List String) (l : String) : DivFrom P env (neltUpTo ft l) := by
  unfold neltUpTo; repeat div_step

theorem skipToNonblank_div : DivFrom (SpinsAt env) env Cu.skipToNonblank :=
  fun c h => ⟨c, .inl h⟩

theorem skipToResultsLine_div (e : Int) : DivFrom (SpinsAt env) env (Cu.skipToResultsLine e) :=
  fun c h => ⟨c, .inr ⟨e, h⟩⟩

theorem skipToTableAUTOUGH2_div (tn : String) : DivFrom (SpinsAt env) env (skipToTableAUTOUGH2 tn) := by
  have h1 := @tableCharC_div (SpinsAt env) env
  have h2 := @skipto_div (SpinsAt env) env
  have h3 := @skipto1_div (SpinsAt env) env
  have h4 := @skipToBlank_div (SpinsAt env) env
  have h5 := @skipToNonblank_div env
  unfold skipToTableAUTOUGH2
  repeat (first | div_step | exact h1 _ | exact h2 _ _ | exact h3 _ _)

theorem bound_skip_to_table : bound .autough2 "skip_to_table" = "skip_to_table_AUTOUGH2" := by decide

theorem skipToTable_div (hfam : env.fam = .autough2) (tn : String) (last : Option String) (nelt : Int) :
    DivFrom (SpinsAt env) env (skipToTable tn last nelt) := by
  unfold skipToTable
  refine DivFrom.readBind ?_
  rw [hfam, bound_skip_to_table]
  exact skipToTableAUTOUGH2_div tn

theorem historyTable_div (tn : String) (ts : List Sel) : DivFrom (SpinsAt env) env (historyTable tn ts) := by
  have h1 := @getTable_div (SpinsAt env) env
  have h2 := @tableExpectedFloats_div (SpinsAt env) env
  have h3 := @skipToResultsLine_div env
  have h4 := @readline_div (SpinsAt env) env
  unfold historyTable
  repeat (first | div_step | exact h1 _ | exact h2 _ _ | exact h3 _)

theorem tablesAt_div (hfam : env.fam = .autough2) (s0 : Rd) (ft : List String) (l : List (String × List Sel × List Sel))
    (isShort : Bool) (last : Option String) (nelt : Int) :
    DivFrom (SpinsAt env) env (historyBody.tablesAt s0 ft l isShort last nelt) := by
  induction l generalizing last nelt with
  | nil => unfold historyBody.tablesAt; exact DivFrom.pure _
  | cons x more ih =>
    obtain ⟨tname, ts, tshort⟩ := x
    have h1 := @neltUpTo_div (SpinsAt env) env
    have h2 := @skipToTable_div env hfam
    have h3 := @historyTable_div env
    unfold historyBody.tablesAt
    repeat (first | div_step | exact h1 _ _ | exact h2 _ _ _ | exact h3 _ _ | exact ih _ _)

theorem positions_div (hfam : env.fam = .autough2) (s0 : Rd) (tsel : List (String × List Sel × List Sel)) (short : Bool)
    (ft : List String) (l : List (Pos × Bool)) (ipos : Nat) :
    DivFrom (SpinsAt env) env (historyBody.positions s0 tsel short ft l ipos) := by
  induction l generalizing ipos with
  | nil => unfold historyBody.positions; exact DivFrom.pure _
  | cons x more ih =>
    obtain ⟨p, isShort⟩ := x
    have h1 := @seek_div (SpinsAt env) env
    have h2 := @tablesAt_div env hfam
    unfold historyBody.positions
    repeat (first | div_step | exact h1 _ | exact h2 _ _ _ _ _ _ | exact ih _)

theorem historyBody_div (hfam : env.fam = .autough2) (s0 : Rd) (tsel : List (String × List Sel × List Sel)) (short : Bool) :
    DivFrom (SpinsAt env) env (historyBody s0 tsel short) := by
  have h1 := @seek0_div (SpinsAt env) env
  have h2 := @positions_div env hfam
  unfold historyBody
  repeat (first | div_step | exact h2 _ _ _ _ _ _)

end fns

/-! ### `ordered_selection` raises Python exceptions only -/

section exc
variable {α β : Type}

theorem NoDivE.pure (a : α) : NoDivE (pure a : Except LErr α) := by
  intro h; cases h

theorem NoDivE.ok (a : α) : NoDivE (Except.ok a : Except LErr α) := by
  intro h; cases h

theorem NoDivE.throwPy (e : Exc) : NoDivE (throw (LErr.py e) : Except LErr α) := by
  intro h; cases h

theorem NoDivE.bind {m : Except LErr α} {f : α → Except LErr β} (hm : NoDivE m) (hf : ∀ a, NoDivE (f a)) :
    NoDivE (m >>= f) := by
  intro h
  cases m with
  | error e => exact hm (by cases e <;> first | rfl | cases h)
  | ok a => exact hf a h

end exc

macro "nodiv_step" : tactic => `(tactic| with_reducible first
  | exact NoDivE.pure _
  | exact NoDivE.ok _
  | exact NoDivE.throwPy _
  | assumption
  | (refine NoDivE.bind ?_ ?_)
  | (intro _)
  | (dsimp only)
  | split)

theorem tablenameFromSpec_nodiv (spec : Str) : NoDivE (tablenameFromSpec spec) := by
  unfold tablenameFromSpec; repeat nodiv_step

theorem convertItem_nodiv (s : Rd) (k : Nat) (it : Item) : NoDivE (convertItem s k it) := by
  have h1 := tablenameFromSpec_nodiv
  unfold convertItem
  repeat (first | nodiv_step | exact h1 _)

theorem conv_nodiv (s : Rd) (items : List Item) (k : Nat) : NoDivE (orderedSelection.conv s items k) := by
  induction items generalizing k with
  | nil => unfold orderedSelection.conv; exact NoDivE.pure _
  | cons it r ih =>
    have h1 := convertItem_nodiv
    unfold orderedSelection.conv
    repeat (first | nodiv_step | exact h1 _ _ _ | exact ih _)

theorem orderedSelection_nodiv (s : Rd) (items : List Item) : NoDivE (orderedSelection s items) := by
  have h1 := conv_nodiv
  unfold orderedSelection
  repeat (first | nodiv_step | exact h1 _ _ _)

/-! ### the whole call -/

/-- **C06, AUTOUGH2 family**: if `history()` does not return, then at some cursor actually reached `skip_to_nonblank` or
    `skip_to_results_line` spins -/
theorem history_diverges_reaches_spin (items : List Item) (short : Bool) (env : Rd) (c : Cur) (hfam : env.fam = .autough2)
    (h : historyC items short env c = .error .diverges) : SpinsAt env := by
  unfold historyC at h
  split at h
  · rename_i e he
    injection h with h; subst h
    exact absurd he (orderedSelection_nodiv env items)
  · split at h
    · cases h
    · split at h
      · rename_i e he
        injection h with h; subst h
        exact historyBody_div hfam env _ short c he
      · cases h

/-! ### what spinning means on the remaining lines -/

/-- `skip_to_results_line` does not return exactly when neither a remaining line nor the empty string read at end of
    file is a results line -/
theorem skipToResultsLineL_spins_iff (e : Int) (rest : List Str) (n k : Nat) :
    skipToResultsLineL e rest n k = none ↔ (isResultsLine [] e = false ∧ ∀ l ∈ rest, isResultsLine (strip l) e = false) := by
  induction rest generalizing n k with
  | nil =>
    simp only [skipToResultsLineL]
    cases isResultsLine [] e <;> simp
  | cons l r ih =>
    simp only [skipToResultsLineL]
    split
    · rename_i hs
      constructor
      · intro h; cases h
      · intro h; have := h.2 l List.mem_cons_self; rw [hs] at this; cases this
    · rename_i hs
      rw [ih]
      constructor
      · intro ⟨h1, h2⟩
        refine ⟨h1, ?_⟩
        intro x hx
        rcases List.mem_cons.mp hx with rfl | hx'
        · cases h : isResultsLine (strip x) e <;> simp_all
        · exact h2 x hx'
      · intro ⟨h1, h2⟩
        exact ⟨h1, fun x hx => h2 x (List.mem_cons_of_mem _ hx)⟩

theorem skipToNonblank_diverges_iff (env : Rd) (cur : Cur) :
    Cu.skipToNonblank env cur = .error .diverges ↔ ∀ l ∈ cur.pos.rest, isBlank l = true := by
  rw [← Proofs.File.skipToNonblank_spins_iff cur.pos.rest cur.pos.no]
  simp only [Cu.skipToNonblank, bind, ReaderT.bind, StateT.bind, get, getThe, MonadStateOf.get, liftM, monadLift,
    MonadLift.monadLift, StateT.get, Except.bind, Except.pure, pure]
  cases skipToNonblankL cur.pos.rest cur.pos.no with
  | none => constructor <;> intro _ <;> rfl
  | some p => constructor <;> intro h <;> cases h

theorem skipToResultsLine_diverges_iff (e : Int) (env : Rd) (cur : Cur) :
    Cu.skipToResultsLine e env cur = .error .diverges ↔
      (isResultsLine [] e = false ∧ ∀ l ∈ cur.pos.rest, isResultsLine (strip l) e = false) := by
  rw [← skipToResultsLineL_spins_iff e cur.pos.rest cur.pos.no 1]
  simp only [Cu.skipToResultsLine, bind, ReaderT.bind, StateT.bind, get, getThe, MonadStateOf.get, liftM, monadLift,
    MonadLift.monadLift, StateT.get, Except.bind, Except.pure, pure]
  cases skipToResultsLineL e cur.pos.rest cur.pos.no 1 with
  | none => constructor <;> intro _ <;> rfl
  | some p => constructor <;> intro h <;> cases h

/-- some line loop ran to the end of the file without meeting its stop condition -/
def SpinsAtEof : Prop :=
  ∃ rest : List Str, (∀ l ∈ rest, isBlank l = true) ∨
    (∃ e : Int, isResultsLine [] e = false ∧ ∀ l ∈ rest, isResultsLine (strip l) e = false)

theorem SpinsAt.toEof {env : Rd} (h : SpinsAt env) : SpinsAtEof := by
  obtain ⟨cur, h | ⟨e, h⟩⟩ := h
  · exact ⟨cur.pos.rest, .inl ((skipToNonblank_diverges_iff env cur).mp h)⟩
  · exact ⟨cur.pos.rest, .inr ⟨e, (skipToResultsLine_diverges_iff e env cur).mp h⟩⟩

/-- the lines left at the cursor where the call spins: all blank, or none of them a results line -/
theorem history_diverges_at_cursor (items : List Item) (short : Bool) (env : Rd) (c : Cur) (hfam : env.fam = .autough2)
    (h : historyC items short env c = .error .diverges) :
    ∃ cur : Cur, (∀ l ∈ cur.pos.rest, isBlank l = true) ∨
      (∃ e : Int, isResultsLine [] e = false ∧ ∀ l ∈ cur.pos.rest, isResultsLine (strip l) e = false) := by
  obtain ⟨cur, h | ⟨e, h⟩⟩ := history_diverges_reaches_spin items short env c hfam h
  · exact ⟨cur, .inl ((skipToNonblank_diverges_iff env cur).mp h)⟩
  · exact ⟨cur, .inr ⟨e, (skipToResultsLine_diverges_iff e env cur).mp h⟩⟩

theorem history_diverges_only_at_eof (items : List Item) (short : Bool) (env : Rd) (c : Cur) (hfam : env.fam = .autough2)
    (h : historyC items short env c = .error .diverges) : SpinsAtEof :=
  (history_diverges_reaches_spin items short env c hfam h).toEof

/-- positive form: where neither line loop can spin, the call returns or raises -/
theorem history_terminates_of_no_spin (items : List Item) (short : Bool) (env : Rd) (c : Cur) (hfam : env.fam = .autough2)
    (hno : ¬ SpinsAt env) : historyC items short env c ≠ .error .diverges :=
  fun h => hno (history_diverges_reaches_spin items short env c hfam h)

theorem history_terminates_of_no_spin_eof (items : List Item) (short : Bool) (env : Rd) (c : Cur) (hfam : env.fam = .autough2)
    (hno : ¬ SpinsAtEof) : historyC items short env c ≠ .error .diverges :=
  fun h => hno (history_diverges_only_at_eof items short env c hfam h)

/-! ### the run, step by step (exact) -/

theorem bind_diverges_iff {α β : Type} (m : C α) (f : α → C β) (env : Rd) (c : Cur) :
    (m >>= f) env c = .error .diverges ↔
      (m env c = .error .diverges ∨ ∃ a c', m env c = .ok (a, c') ∧ f a env c' = .error .diverges) := by
  simp only [Bind.bind, ReaderT.bind, StateT.bind, Except.bind]
  cases hmc : m env c with
  | error e =>
    constructor
    · intro h; exact .inl (by simpa using h)
    · intro h
      rcases h with h | ⟨a, c', h, _⟩
      · simpa using h
      · cases h
  | ok p =>
    constructor
    · intro h; exact .inr ⟨p.1, p.2, rfl, h⟩
    · intro h
      rcases h with h | ⟨a, c', h, h2⟩
      · cases h
      · injection h with h; subst h; exact h2

/-- `DivFrom False`: the computation never spins -/
theorem DivFrom.never {α : Type} {env : Rd} {m : C α} (h : DivFrom False env m) (c : Cur) : m env c ≠ .error .diverges :=
  fun hc => h c hc

theorem getTable_run (n : String) (env : Rd) (c : Cur) :
    Cu.getTable n env c = match env.tables.lookup n with
      | some t => .ok (t, c)
      | none => .error (.py .keyError) := by
  unfold Cu.getTable
  show (match env.tables.lookup n with | some t => (pure t : C Table) | none => Cu.raise .keyError) env c = _
  cases env.tables.lookup n <;> rfl

/-- the number of floats `skip_to_results_line` looks for in table `tn` -/
def expectedFloats (tn : String) (cols : List Str) : Int :=
  let n : Int := if tn = "generation" then 1 else cols.length
  if cols.head? = some ['I'] then n - 1 else n

theorem tableExpectedFloats_run (tn : String) (cols : List Str) (env : Rd) (c : Cur) :
    Cu.tableExpectedFloats tn cols env c = match cols with
      | [] => .error (.py .indexError)
      | _ :: _ => .ok (expectedFloats tn cols, c) := by
  unfold Cu.tableExpectedFloats expectedFloats
  cases cols with
  | nil => rfl
  | cons x r =>
    simp only [List.head?_cons, Option.some.injEq]
    rfl

/-- **one table at one result position, exactly**: reading the selected lines of table `tn` spins if and only if the
    table is known, has a column, and from the cursor on no line (nor the empty string at end of file) shows the number
    of floats expected -/
theorem historyTable_diverges_iff (tn : String) (ts : List Sel) (env : Rd) (c : Cur) :
    historyTable tn ts env c = .error .diverges ↔
      ∃ t, env.tables.lookup tn = some t ∧ t.cols ≠ [] ∧
        isResultsLine [] (expectedFloats tn t.cols) = false ∧
        ∀ l ∈ c.pos.rest, isResultsLine (strip l) (expectedFloats tn t.cols) = false := by
  unfold historyTable
  rw [bind_diverges_iff, getTable_run]
  cases hl : env.tables.lookup tn with
  | none =>
    constructor
    · intro h
      rcases h with h | ⟨a, c', h, _⟩ <;> cases h
    · intro ⟨t, ht, _⟩; cases ht
  | some t =>
    simp only []
    constructor
    · intro h
      rcases h with h | ⟨a, c', h, h2⟩
      · cases h
      · injection h with h; injection h with ha hc; subst ha; subst hc
        rw [bind_diverges_iff, tableExpectedFloats_run] at h2
        cases hcols : t.cols with
        | nil =>
          rw [hcols] at h2
          rcases h2 with h2 | ⟨_, _, h2, _⟩ <;> cases h2
        | cons x r =>
          rw [hcols] at h2
          rcases h2 with h2 | ⟨e, c', h2, h3⟩
          · cases h2
          · injection h2 with h2; injection h2 with he hc; subst he; subst hc
            rw [bind_diverges_iff] at h3
            rcases h3 with h3 | ⟨k, c2, _, h4⟩
            · refine ⟨t, rfl, by simp [hcols], ?_⟩
              rw [hcols]
              exact (skipToResultsLine_diverges_iff _ env c).mp h3
            · exfalso
              revert h4
              apply DivFrom.never
              repeat (first | div_step | exact readline_div)
    · intro ⟨t', ht, hne, hsp⟩
      injection ht with ht; subst ht
      refine .inr ⟨t, c, rfl, ?_⟩
      rw [bind_diverges_iff, tableExpectedFloats_run]
      cases hcols : t.cols with
      | nil => exact absurd hcols hne
      | cons x r =>
        refine .inr ⟨_, c, rfl, ?_⟩
        rw [bind_diverges_iff]
        refine .inl ?_
        rw [← hcols]
        exact (skipToResultsLine_diverges_iff _ env c).mpr hsp

/-! ### where the call spins: at a cursor the run has reached

  `Suf c cur`: `cur` is further down the same lines as `c` (its remaining lines are a tail of those of `c`), with the
  same index.  `DivR env m`: a run of `m` that returns has only moved down the lines, and a run that spins does so in
  `skip_to_nonblank` or `skip_to_results_line` at a cursor further down the lines it started on. -/

def Suf (c cur : Cur) : Prop := cur.index = c.index ∧ ∃ k : Nat, cur.pos.rest = c.pos.rest.drop k

theorem Suf.refl (c : Cur) : Suf c c := ⟨rfl, 0, by simp⟩

theorem Suf.trans {a b c : Cur} (h1 : Suf a b) (h2 : Suf b c) : Suf a c := by
  obtain ⟨i1, k1, r1⟩ := h1
  obtain ⟨i2, k2, r2⟩ := h2
  exact ⟨i2.trans i1, k1 + k2, by rw [r2, r1, List.drop_drop]⟩

/-- one of the two line loops spins at this cursor -/
def Spin (env : Rd) (cur : Cur) : Prop :=
  Cu.skipToNonblank env cur = .error .diverges ∨ ∃ e : Int, Cu.skipToResultsLine e env cur = .error .diverges

def DivRat (env : Rd) {α : Type} (m : C α) (c : Cur) : Prop :=
  (∀ a c', m env c = .ok (a, c') → Suf c c') ∧ (m env c = .error .diverges → ∃ cur, Suf c cur ∧ Spin env cur)

def DivR (env : Rd) {α : Type} (m : C α) : Prop := ∀ c, DivRat env m c

section closureR
variable {env : Rd} {α β : Type}

theorem DivR.pure (a : α) : DivR env (pure a : C α) := by
  intro c; constructor
  · intro a' c' h; injection h with h; injection h with _ h; subst h; exact Suf.refl _
  · intro h; cases h

theorem DivR.bind {m : C α} {f : α → C β} (hm : DivR env m) (hf : ∀ a, DivR env (f a)) : DivR env (m >>= f) := by
  intro c
  constructor
  · intro b c' h
    simp only [Bind.bind, ReaderT.bind, StateT.bind, Except.bind] at h
    cases hmc : m env c with
    | error e => rw [hmc] at h; cases h
    | ok p =>
      rw [hmc] at h
      exact ((hm c).1 p.1 p.2 hmc).trans ((hf p.1 p.2).1 b c' h)
  · intro h
    rcases (bind_diverges_iff m f env c).mp h with h | ⟨a, c1, h1, h2⟩
    · exact (hm c).2 h
    · obtain ⟨cur, hs, hsp⟩ := (hf a c1).2 h2
      exact ⟨cur, ((hm c).1 a c1 h1).trans hs, hsp⟩

theorem DivR.readBind {f : Rd → C β} (hf : DivR env (f env)) : DivR env (read >>= f) := hf

theorem DivR.getBind {f : Cur → C β} (hf : ∀ c, DivRat env (f c) c) : DivR env (get >>= f) := hf

theorem DivR.get : DivR env (get : C Cur) := by
  intro c; constructor
  · intro a' c' h; injection h with h; injection h with _ h; subst h; exact Suf.refl _
  · intro h; cases h

theorem DivR.read : DivR env (read : C Rd) := by
  intro c; constructor
  · intro a' c' h; injection h with h; injection h with _ h; subst h; exact Suf.refl _
  · intro h; cases h

theorem DivR.raise (e : Exc) : DivR env (Cu.raise e : C α) := by
  intro c; constructor
  · intro a' c' h; cases h
  · intro h; cases h

theorem DivR.throwPy (e : Exc) : DivR env (throw (LErr.py e) : C α) := DivR.raise e

theorem DivR.throwNamed (e : String) : DivR env (throw (LErr.named e) : C α) := by
  intro c; constructor
  · intro a' c' h; cases h
  · intro h; cases h

end closureR

macro "divr_step" : tactic => `(tactic| with_reducible first
  | exact DivR.pure _
  | exact DivR.get
  | exact DivR.read
  | exact DivR.raise _
  | exact DivR.throwPy _
  | exact DivR.throwNamed _
  | assumption
  | (refine DivR.readBind ?_)
  | (refine DivR.bind ?_ ?_)
  | (intro _)
  | (dsimp only)
  | split)

section primR
variable {env : Rd}

theorem skipToL_suffix (kws : List Str) (start : Nat) (rest : List Str) (n : Nat) :
    ∃ k, (skipToL kws start rest n).2.rest = rest.drop k := by
  induction rest generalizing n with
  | nil => exact ⟨0, rfl⟩
  | cons l r ih =>
    simp only [skipToL]
    split
    · exact ⟨1, rfl⟩
    · obtain ⟨k, hk⟩ := ih (n + 1); exact ⟨k + 1, by rw [hk]; rfl⟩

theorem skipToBlankL_suffix (rest : List Str) (n : Nat) : ∃ k, (skipToBlankL rest n).rest = rest.drop k := by
  induction rest generalizing n with
  | nil => exact ⟨0, rfl⟩
  | cons l r ih =>
    simp only [skipToBlankL]
    split
    · exact ⟨0, rfl⟩
    · obtain ⟨k, hk⟩ := ih (n + 1); exact ⟨k + 1, by rw [hk]; rfl⟩

theorem skipToNonblankL_suffix (rest : List Str) (n : Nat) (p : Pos) (h : skipToNonblankL rest n = some p) :
    ∃ k, p.rest = rest.drop k := by
  induction rest generalizing n with
  | nil => cases h
  | cons l r ih =>
    simp only [skipToNonblankL] at h
    split at h
    · obtain ⟨k, hk⟩ := ih (n + 1) h; exact ⟨k + 1, by rw [hk]; rfl⟩
    · injection h with h; subst h; exact ⟨0, rfl⟩

theorem skipToResultsLineL_suffix (e : Int) (rest : List Str) (n k0 : Nat) (r : Nat × Pos)
    (h : skipToResultsLineL e rest n k0 = some r) : ∃ k, r.2.rest = rest.drop k := by
  induction rest generalizing n k0 with
  | nil =>
    simp only [skipToResultsLineL] at h
    split at h
    · injection h with h; subst h; exact ⟨0, rfl⟩
    · cases h
  | cons l r' ih =>
    simp only [skipToResultsLineL] at h
    split at h
    · injection h with h; subst h; exact ⟨0, rfl⟩
    · obtain ⟨k, hk⟩ := ih (n + 1) (k0 + 1) h; exact ⟨k + 1, by rw [hk]; rfl⟩

theorem skipto_divR (kws : List Str) (start : Nat) : DivR env (Cu.skipto kws start) := by
  intro c
  have hrun : Cu.skipto kws start env c =
      .ok ((skipToL kws start c.pos.rest c.pos.no).1, { c with pos := (skipToL kws start c.pos.rest c.pos.no).2 }) := rfl
  constructor
  · intro a c' h
    rw [hrun] at h; injection h with h; injection h with _ h; subst h
    exact ⟨rfl, skipToL_suffix _ _ _ _⟩
  · intro h; rw [hrun] at h; cases h

theorem skipto1_divR (kw : String) (start : Nat) : DivR env (Cu.skipto1 kw start) := skipto_divR _ _

theorem skipToBlank_divR : DivR env Cu.skipToBlank := by
  intro c
  have hrun : Cu.skipToBlank env c = .ok ((), { c with pos := skipToBlankL c.pos.rest c.pos.no }) := rfl
  constructor
  · intro a c' h
    rw [hrun] at h; injection h with h; injection h with _ h; subst h
    exact ⟨rfl, skipToBlankL_suffix _ _⟩
  · intro h; rw [hrun] at h; cases h

theorem skipToNonblank_run (c : Cur) :
    Cu.skipToNonblank env c = match skipToNonblankL c.pos.rest c.pos.no with
      | none => .error .diverges
      | some p => .ok ((), { c with pos := p }) := by
  show (match skipToNonblankL c.pos.rest c.pos.no with
    | none => (throw LErr.diverges : C Unit) | some p => set { c with pos := p }) env c = _
  cases skipToNonblankL c.pos.rest c.pos.no <;> rfl

theorem skipToNonblank_divR : DivR env Cu.skipToNonblank := by
  intro c
  constructor
  · intro a c' h
    rw [skipToNonblank_run] at h
    cases hp : skipToNonblankL c.pos.rest c.pos.no with
    | none => rw [hp] at h; cases h
    | some p =>
      rw [hp] at h; injection h with h; injection h with _ h; subst h
      exact ⟨rfl, skipToNonblankL_suffix _ _ _ hp⟩
  · intro h; exact ⟨c, Suf.refl c, .inl h⟩

theorem skipToResultsLine_run (e : Int) (c : Cur) :
    Cu.skipToResultsLine e env c = match skipToResultsLineL e c.pos.rest c.pos.no 1 with
      | none => .error .diverges
      | some r => .ok (r.1, { c with pos := r.2 }) := by
  show (match skipToResultsLineL e c.pos.rest c.pos.no 1 with
    | none => (throw LErr.diverges : C Nat)
    | some (k, p) => (do set { c with pos := p }; return k : C Nat)) env c = _
  cases skipToResultsLineL e c.pos.rest c.pos.no 1 <;> rfl

theorem skipToResultsLine_divR (e : Int) : DivR env (Cu.skipToResultsLine e) := by
  intro c
  constructor
  · intro a c' h
    rw [skipToResultsLine_run] at h
    cases hp : skipToResultsLineL e c.pos.rest c.pos.no 1 with
    | none => rw [hp] at h; cases h
    | some r =>
      rw [hp] at h; injection h with h; injection h with _ h; subst h
      exact ⟨rfl, skipToResultsLineL_suffix _ _ _ _ _ hp⟩
  · intro h; exact ⟨c, Suf.refl c, .inr ⟨e, h⟩⟩

theorem readline_divR : DivR env Cu.readline := by
  intro c
  have hrun : Cu.readline env c = match c.pos.rest with
      | [] => .ok ([], c)
      | l :: r => .ok (l, { c with pos := ⟨c.pos.no + 1, r⟩ }) := by
    show (match c.pos.rest with
      | [] => (pure [] : C Str)
      | l :: r => (do set { c with pos := ⟨c.pos.no + 1, r⟩ }; return l : C Str)) env c = _
    cases c.pos.rest <;> rfl
  constructor
  · intro a c' h
    rw [hrun] at h
    cases hr : c.pos.rest with
    | nil => rw [hr] at h; injection h with h; injection h with _ h; subst h; exact Suf.refl _
    | cons l r =>
      rw [hr] at h; injection h with h; injection h with _ h; subst h
      exact ⟨rfl, 1, by simp [hr]⟩
  · intro h
    rw [hrun] at h
    cases hr : c.pos.rest <;> rw [hr] at h <;> cases h

theorem getTable_divR (n : String) : DivR env (Cu.getTable n) := by
  unfold Cu.getTable; repeat divr_step

theorem tableExpectedFloats_divR (n : String) (cols : List Str) : DivR env (Cu.tableExpectedFloats n cols) := by
  unfold Cu.tableExpectedFloats; repeat divr_step

theorem tableCharC_divR (n : String) : DivR env (tableCharC n) := by
  unfold tableCharC; repeat divr_step

theorem neltUpTo_divR (ft : List String) (l : String) : DivR env (neltUpTo ft l) := by
  unfold neltUpTo; repeat divr_step

theorem skipToTableAUTOUGH2_divR (tn : String) : DivR env (skipToTableAUTOUGH2 tn) := by
  have h1 := @tableCharC_divR env
  have h2 := @skipto_divR env
  have h3 := @skipto1_divR env
  have h4 := @skipToBlank_divR env
  have h5 := @skipToNonblank_divR env
  unfold skipToTableAUTOUGH2
  repeat (first | divr_step | exact h1 _ | exact h2 _ _ | exact h3 _ _)

theorem skipToTable_divR (hfam : env.fam = .autough2) (tn : String) (last : Option String) (nelt : Int) :
    DivR env (skipToTable tn last nelt) := by
  unfold skipToTable
  refine DivR.readBind ?_
  rw [hfam, bound_skip_to_table]
  exact skipToTableAUTOUGH2_divR tn

theorem scanSel_suffix (rv : Str → Except Exc (List FVal)) (co : Str → Option Nat) (ts : List Sel) (index : Int) (line : Str)
    (rest : List Str) (v : List (Nat × FVal) × List Str) (h : scanSel rv co ts index line rest = .ok v) :
    ∃ k, v.2 = rest.drop k := by
  induction ts generalizing index line rest v with
  | nil => simp only [scanSel] at h; injection h with h; subst h; exact ⟨0, rfl⟩
  | cons x ts ih =>
    obtain ⟨lineindex, col, rev, si⟩ := x
    simp only [scanSel] at h
    split at h
    · cases h
    · split at h
      · cases h
      · rename_i more rest' hrec
        injection h with h; subst h
        obtain ⟨k, hk⟩ := ih _ _ _ _ hrec
        simp only at hk ⊢
        split at hk
        · exact ⟨(lineindex - index - 1).toNat + 1 + k, by rw [hk, List.tail_drop, List.drop_drop]⟩
        · exact ⟨k, hk⟩

theorem DivRat.readBind {β : Type} {f : Rd → C β} {c : Cur} (hf : DivRat env (f env) c) : DivRat env (read >>= f) c := hf

theorem scanTail_divRat (x : Except Exc (List (Nat × FVal) × List Str)) (s : Cur)
    (hx : ∀ v, x = .ok v → ∃ k, v.2 = s.pos.rest.drop k) :
    DivRat env (Cu.liftE x >>= fun v =>
      (set ({ s with pos := ⟨s.pos.no + (s.pos.rest.length - v.2.length), v.2⟩ } : Cur) : C PUnit) >>= fun _ =>
        (pure v.1 : C (List (Nat × FVal)))) s := by
  cases x with
  | error e => constructor <;> intros <;> rename_i h <;> cases h
  | ok v =>
    constructor
    · intro a c' h
      injection h with h; injection h with _ h; subst h
      exact ⟨rfl, hx v rfl⟩
    · intro h; cases h

theorem historyTable_divR (tn : String) (ts : List Sel) : DivR env (historyTable tn ts) := by
  have h1 := @getTable_divR env
  have h2 := @tableExpectedFloats_divR env
  have h3 := @skipToResultsLine_divR env
  have h4 := @readline_divR env
  unfold historyTable
  refine DivR.bind (h1 _) ?_; intro t
  refine DivR.bind (h2 _ _) ?_; intro e
  refine DivR.bind (h3 _) ?_; intro _
  refine DivR.bind h4 ?_; intro line
  refine DivR.getBind ?_; intro s
  refine DivRat.readBind ?_
  exact scanTail_divRat _ s (fun v hv => scanSel_suffix _ _ _ _ _ _ v hv)

theorem tablesAt_divR (hfam : env.fam = .autough2) (s0 : Rd) (ft : List String) (l : List (String × List Sel × List Sel))
    (isShort : Bool) (last : Option String) (nelt : Int) :
    DivR env (historyBody.tablesAt s0 ft l isShort last nelt) := by
  induction l generalizing last nelt with
  | nil => unfold historyBody.tablesAt; exact DivR.pure _
  | cons x more ih =>
    obtain ⟨tname, ts, tshort⟩ := x
    have h1 := @neltUpTo_divR env
    have h2 := @skipToTable_divR env hfam
    have h3 := @historyTable_divR env
    unfold historyBody.tablesAt
    repeat (first | divr_step | exact h1 _ _ | exact h2 _ _ _ | exact h3 _ _ | exact ih _ _)

/-- the call spins while working on the `j`-th of the result positions `l` (numbered from `ipos`), at a cursor further
    down the lines of that position -/
def SpinsAtPos (env : Rd) (l : List (Pos × Bool)) (ipos : Nat) : Prop :=
  ∃ (j : Nat) (p : Pos) (b : Bool) (cur : Cur), l[j]? = some (p, b) ∧ cur.index = ((ipos + j : Nat) : Int) ∧
    (∃ k : Nat, cur.pos.rest = p.rest.drop k) ∧ Spin env cur

theorem positions_spin (hfam : env.fam = .autough2) (s0 : Rd) (tsel : List (String × List Sel × List Sel)) (short : Bool)
    (ft : List String) (l : List (Pos × Bool)) (ipos : Nat) (c : Cur)
    (h : historyBody.positions s0 tsel short ft l ipos env c = .error .diverges) : SpinsAtPos env l ipos := by
  induction l generalizing ipos c with
  | nil => unfold historyBody.positions at h; cases h
  | cons x more ih =>
    obtain ⟨p, isShort⟩ := x
    have hrec : ∀ (hits : List (Nat × FVal)) (c3 : Cur),
        (historyBody.positions s0 tsel short ft more (ipos + 1) >>= fun rest =>
          (pure (hits ++ rest) : C (List (Nat × FVal)))) env c3 = .error .diverges →
        SpinsAtPos env ((p, isShort) :: more) ipos := by
      intro hits c3 h
      rcases (bind_diverges_iff _ _ env c3).mp h with h | ⟨_, _, _, h⟩
      · obtain ⟨j, p', b, cur, hj, hi, hk, hsp⟩ := ih _ _ h
        refine ⟨j + 1, p', b, cur, by simpa using hj, ?_, hk, hsp⟩
        rw [hi]; congr 1; omega
      · cases h
    unfold historyBody.positions at h
    rcases (bind_diverges_iff _ _ env c).mp h with h | ⟨_, c1, h1, h⟩
    · cases h
    have hc1 : c1 = { c with pos := p } := by
      injection h1 with h1; injection h1 with _ h1; exact h1.symm
    rcases (bind_diverges_iff _ _ env c1).mp h with h | ⟨_, c2, h2, h⟩
    · cases h
    have hc2 : c2 = { c1 with index := ipos } := by
      injection h2 with h2; injection h2 with _ h2; exact h2.symm
    split at h
    · rcases (bind_diverges_iff _ _ env c2).mp h with h | ⟨hits, c3, h3, h⟩
      · obtain ⟨cur, ⟨hi, k, hk⟩, hsp⟩ := (tablesAt_divR hfam _ _ _ _ _ _ c2).2 h
        refine ⟨0, p, isShort, cur, rfl, ?_, ⟨k, ?_⟩, hsp⟩
        · rw [hi, hc2]; rfl
        · rw [hk, hc2, hc1]
      · exact hrec hits c3 h
    · rcases (bind_diverges_iff _ _ env c2).mp h with h | ⟨hits, c3, h3, h⟩
      · cases h
      · exact hrec hits c3 h

/-- **C06, AUTOUGH2 family, the cursor reached**: if `history()` does not return, then it is working on some result
    position `i` of the file (`allpos[i]`, with the index set to `i`) and, at a cursor further down the lines of that
    position, `skip_to_nonblank` or `skip_to_results_line` spins -/
theorem history_diverges_at_position (items : List Item) (short : Bool) (env : Rd) (c : Cur) (hfam : env.fam = .autough2)
    (h : historyC items short env c = .error .diverges) :
    ∃ (i : Nat) (p : Pos) (cur : Cur), env.allpos[i]? = some p ∧ i < env.short.size ∧ cur.index = (i : Int) ∧
      (∃ k : Nat, cur.pos.rest = p.rest.drop k) ∧ Spin env cur := by
  unfold historyC at h
  split at h
  · rename_i e he
    injection h with h; subst h
    exact absurd he (orderedSelection_nodiv env items)
  · split at h
    · cases h
    · split at h
      · rename_i tsel _ e he
        injection h with h; subst h
        unfold historyBody at he
        rcases (bind_diverges_iff _ _ env c).mp he with he | ⟨_, c1, _, he⟩
        · cases he
        rcases (bind_diverges_iff _ _ env c1).mp he with he | ⟨_, c2, _, he⟩
        · cases he
        obtain ⟨j, p, b, cur, hj, hi, hk, hsp⟩ := positions_spin hfam _ _ _ _ _ _ _ he
        rw [List.getElem?_zip_eq_some] at hj
        obtain ⟨hj1, hj2⟩ := hj
        refine ⟨j, p, cur, by simpa using hj1, ?_, by simpa using hi, hk, hsp⟩
        have := (List.getElem?_eq_some_iff.mp hj2).1
        simpa using this
      · cases h

end primR

end Proofs.SeriesTerm
