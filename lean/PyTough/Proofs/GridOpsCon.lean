/-
  Invariant preservation: add_connection.
-/
import PyTough.Proofs.GridOpsBlock
namespace Proofs.Grid
open Py Model Model.Grid Model.Grid.World

/-- the state after `add_connection(c)` with new connection list `l` -/
def addConWorld' (w : World) (c : Nat) (l : List Nat) (k : CName) (b0 b1 : Nat) : World :=
  { w with connectionlist := l, connection := dset w.connection k c,
           blks := (w.blks.set b0 { w.bk b0 with conn := sadd (w.bk b0).conn k }).set b1
                     { w.bk b1 with conn := sadd (w.bk b1).conn k } }

def addConWorld (w : World) (c : Nat) (l : List Nat) : World :=
  addConWorld' w c l (w.ckey c) (w.cn c).b0 (w.cn c).b1

theorem addConnection_ok {w : World} {c : Nat} (hne : (w.cn c).b0 ≠ (w.cn c).b1) {l : List Nat}
    (hl : (match dget w.connection (w.ckey c) with
           | some old => replaceFirst w.connectionlist old c
           | none => some (w.connectionlist ++ [c])) = some l) :
    addConnection w c = .ok (addConWorld w c l) := by
  unfold addConnection
  cases hd : dget w.connection (w.ckey c) with
  | none =>
    simp only [hd, Option.some.injEq] at hl; subst hl
    simp only [hd, World.connAdd, bk_setBlk, hne, false_and, if_false]
    simp only [World.setBlk, addConWorld, addConWorld', World.bk]
  | some old =>
    simp only [hd] at hl
    simp only [hd, hl, World.connAdd, bk_setBlk, hne, false_and, if_false]
    simp only [World.setBlk, addConWorld, addConWorld', World.bk]

theorem addConWorld_inv {w : World} (hI : Grid.Inv w) {c : Nat} (hc : c < w.cons.length)
    (h0 : (w.cn c).b0 ∈ w.blocklist) (h1 : (w.cn c).b1 ∈ w.blocklist) (hne : (w.cn c).b0 ≠ (w.cn c).b1)
    {l : List Nat} (hnd : l.Nodup)
    (hl : ∀ x, x ∈ l ↔ x = c ∨ (x ∈ w.connectionlist ∧ w.ckey x ≠ w.ckey c)) :
    Grid.Inv (addConWorld w c l) := by
  have hC := hI.conInv
  have hB := hI.blockInv
  have hlt0 := hI.bl_lt _ h0
  have hlt1 := hI.bl_lt _ h1
  generalize hk : w.ckey c = k at *
  generalize hb0 : (w.cn c).b0 = b0 at *
  generalize hb1 : (w.cn c).b1 = b1 at *
  have hW : addConWorld w c l = addConWorld' w c l k b0 b1 := by
    simp only [addConWorld, hk, hb0, hb1]
  rw [hW]
  generalize hw' : addConWorld' w c l k b0 b1 = w'
  unfold addConWorld' at hw'
  have hbk : ∀ x, w'.bk x = if x = b0 ∨ x = b1 then { w.bk x with conn := sadd (w.bk x).conn k } else w.bk x := by
    intro x; subst hw'
    simp only [World.bk, getD_set, List.length_set]
    by_cases e1 : b1 = x
    · subst e1; simp [hlt1]
    · by_cases e0 : b0 = x
      · subst e0; simp [e1, hlt0]
      · simp [e0, e1, Ne.symm e0, Ne.symm e1]
  have hnm : ∀ x, w'.bname x = w.bname x := by
    intro x; simp only [World.bname, hbk]; split <;> rfl
  have hcn : ∀ x, w'.cn x = w.cn x := by intro x; subst hw'; rfl
  have hkey : ∀ x, w'.ckey x = w.ckey x := by
    intro x; simp only [World.ckey, hnm, hcn]
  have hcl : w'.connectionlist = l := by subst hw'; rfl
  have hcd : w'.connection = dset w.connection k c := by subst hw'; rfl
  have hcons : w'.cons = w.cons := by subst hw'; rfl
  have hblist : w'.blocklist = w.blocklist := by subst hw'; rfl
  -- a listed connection with key `k` joins `b0` and `b1`
  have hsame : ∀ y ∈ w.connectionlist, w.ckey y = k → (w.cn y).b0 = b0 ∧ (w.cn y).b1 = b1 := by
    intro y hy e
    have ey := hI.c_ends y hy
    rw [← hk] at e
    simp only [World.ckey, Prod.mk.injEq, hb0, hb1] at e
    exact ⟨hB.name_inj ey.1 h0 e.1, hB.name_inj ey.2.1 h1 e.2⟩
  refine inv_of_con_change hI (by subst hw'; rfl) (by subst hw'; rfl) (by subst hw'; rfl) hblist (by subst hw'; rfl)
    (by subst hw'; simp) (fun x _ => hnm x) ?_ ⟨?_, ?_, ?_, ?_, ?_⟩ ⟨?_, ?_⟩
  · intro x _; rw [hbk]; split <;> rfl
  · intro x hx; rw [hcl] at hx; rw [hcons]
    rcases (hl x).mp hx with rfl | ⟨hx, _⟩
    · exact hc
    · exact hC.cl_lt x hx
  · rw [hcl]; exact hnd
  · intro k' x hx
    rw [hcd, dget_dset] at hx
    rw [hcl, hkey]
    split at hx
    · rename_i hkk; cases hx; exact ⟨(hl _).mpr (Or.inl rfl), hk.trans hkk⟩
    · rename_i hne'
      have := hC.cd_sound k' x hx
      exact ⟨(hl x).mpr (Or.inr ⟨this.1, by rw [this.2]; exact Ne.symm hne'⟩), this.2⟩
  · intro x hx
    rw [hcl] at hx
    rw [hcd, hkey, dget_dset]
    rcases (hl x).mp hx with rfl | ⟨hx, hne'⟩
    · simp [hk]
    · simp [Ne.symm hne', hC.cd_complete x hx]
  · intro x hx
    rw [hcl] at hx
    rw [hcn, hblist]
    rcases (hl x).mp hx with rfl | ⟨hx, _⟩
    · rw [hb0, hb1]; exact ⟨h0, h1, hne⟩
    · exact hC.c_ends x hx
  · intro x hx
    rw [hblist] at hx
    rw [hbk]; split
    · exact nodup_sadd _ (hI.conn_nodup x hx)
    · exact hI.conn_nodup x hx
  · intro x hx k'
    rw [hblist] at hx
    have hiff := hI.conn_iff x hx k'
    rw [hbk, hcl]
    simp only [hkey, hcn]
    split
    · rename_i hx01
      show k' ∈ sadd (w.bk x).conn k ↔ _
      rw [mem_sadd, hiff]
      constructor
      · rintro (e | ⟨y, hy, e, hm⟩)
        · refine ⟨c, (hl c).mpr (Or.inl rfl), by rw [hk, e], ?_⟩
          rw [hb0, hb1]; rcases hx01 with h | h <;> simp [h]
        · by_cases ek : w.ckey y = k
          · refine ⟨c, (hl c).mpr (Or.inl rfl), by rw [hk, ← ek, e], ?_⟩
            rw [hb0, hb1]; rcases hx01 with h | h <;> simp [h]
          · exact ⟨y, (hl y).mpr (Or.inr ⟨hy, ek⟩), e, hm⟩
      · rintro ⟨y, hy, e, hm⟩
        rcases (hl y).mp hy with rfl | ⟨hy', _⟩
        · exact Or.inl (e.symm.trans hk)
        · exact Or.inr ⟨y, hy', e, hm⟩
    · rename_i hx01
      rw [hiff]
      constructor
      · rintro ⟨y, hy, e, hm⟩
        refine ⟨y, (hl y).mpr (Or.inr ⟨hy, ?_⟩), e, hm⟩
        intro ek
        have := hsame y hy ek
        rw [this.1, this.2] at hm
        exact hx01 (by rcases hm with h | h <;> simp [h])
      · rintro ⟨y, hy, e, hm⟩
        rcases (hl y).mp hy with rfl | ⟨hy', _⟩
        · rw [hb0, hb1] at hm
          exact absurd (by rcases hm with h | h <;> simp [h]) hx01
        · exact ⟨y, hy', e, hm⟩

/-- `add_connection(c)` for a connection object `c` that is not yet listed and joins two different
    blocks of the grid (an existing connection under the same pair of names is replaced) -/
theorem addConnection_inv {w : World} (hI : Grid.Inv w) {c : Nat} (hc : c < w.cons.length) (hnew : c ∉ w.connectionlist)
    (h0 : (w.cn c).b0 ∈ w.blocklist) (h1 : (w.cn c).b1 ∈ w.blocklist) (hne : (w.cn c).b0 ≠ (w.cn c).b1) :
    Grid.Inv (worldOf (addConnection w c)) := by
  have hC := hI.conInv
  cases hd : dget w.connection (w.ckey c) with
  | none =>
    rw [addConnection_ok hne (l := w.connectionlist ++ [c]) (by simp only [hd]), worldOf_ok]
    refine addConWorld_inv hI hc h0 h1 hne ?_ ?_
    · simp [List.nodup_append, hC.cl_nodup]; intro a ha e; exact hnew (e ▸ ha)
    · intro x
      simp only [List.mem_append, List.mem_singleton]
      constructor
      · rintro (h | h)
        · refine Or.inr ⟨h, ?_⟩
          intro e; have := hC.cd_complete x h; rw [e, hd] at this; cases this
        · exact Or.inl h
      · rintro (h | ⟨h, _⟩)
        · exact Or.inr h
        · exact Or.inl h
  | some old =>
    have hold := hC.cd_sound _ _ hd
    cases hl : replaceFirst w.connectionlist old c with
    | none => exact absurd hold.1 (replaceFirst_none.mp hl)
    | some l =>
      rw [addConnection_ok hne (l := l) (by simp only [hd, hl]), worldOf_ok]
      have hmem := mem_replaceFirst hC.cl_nodup hl
      refine addConWorld_inv hI hc h0 h1 hne (nodup_replaceFirst hC.cl_nodup hnew hl) ?_
      intro x
      rw [hmem]
      constructor
      · rintro (h | ⟨h, hx⟩)
        · exact Or.inl h
        · refine Or.inr ⟨h, ?_⟩
          intro e; exact hx (hC.key_inj h hold.1 (e.trans hold.2.symm))
      · rintro (h | ⟨h, hx⟩)
        · exact Or.inl h
        · refine Or.inr ⟨h, ?_⟩
          intro e; subst e; exact hx hold.2

end Proofs.Grid
