/-
  Proofs for C18, composition steps: the spacings block_spacings returns on a grid whose axis walks
  are lines, find_surface giving back the generating surfaces (with C04's block data), snapping,
  and match_position placing the origin block.
-/
import PyTough.Proofs.RectGeo
namespace Proofs.RectGeo
open Py Model.FromGeo Model.RectGeo

/-! ### composition, step 1: the spacings `block_spacings` returns on a grid whose three axis
    walks are lines -/

/-- the three axis walks of `block_spacings` are lines: directions 1 and 2 from the origin block,
    direction 3 downwards from the topmost admissible block -/
structure AxisLines (T : TGrid) (ob : GBlock) (mv : Rat) (sx sy sz : List (GConn × GBlock)) (tb : GBlock) : Prop where
  okOb : volOk (some mv) ob = true
  okTb : volOk (some mv) tb = true
  lx : isLine T 1 (some mv) none none ob sx = true
  ly : isLine T 2 (some mv) none none ob sy = true
  top : topmostBlock T (some mv) = .ok tb
  lz : isLine T 3 (some mv) none none tb sz = true
  lenx : sx.length ≤ T.blocks.length
  leny : sy.length ≤ T.blocks.length
  lenz : sz.length ≤ T.blocks.length
  down : firstBelowLast (lineBlocks tb sz) = .ok false

theorem lineSizes_isEmpty (b : GBlock) (steps : List (GConn × GBlock)) :
    (lineSizes none b steps).isEmpty = steps.isEmpty := by
  cases steps with
  | nil => rfl
  | cons s r => obtain ⟨c, nb⟩ := s; rfl

/-- three-dimensional grid: the spacings are the doubled own distances along the three lines -/
theorem blockSpacings_3d (T : TGrid) (ob tb : GBlock) (mv : Rat) (sx sy sz : List (GConn × GBlock))
    (h : AxisLines T ob mv sx sy sz tb) (hx : sx ≠ []) (hy : sy ≠ []) (hz : sz ≠ []) :
    blockSpacings T ob mv = .ok (lineSizes none ob sx, lineSizes none ob sy, lineSizes none tb sz) := by
  unfold blockSpacings
  rw [track_line T 1 (some mv) ob sx h.lenx h.okOb h.lx, track_line T 2 (some mv) ob sy h.leny h.okOb h.ly, h.top]
  simp only
  rw [track_line T 3 (some mv) tb sz h.lenz h.okTb h.lz]
  simp only [h.down, Bool.false_eq_true, if_false, lineSizes_isEmpty]
  have ex : sx.isEmpty = false := by cases sx with | nil => exact absurd rfl hx | cons _ _ => rfl
  have ey : sy.isEmpty = false := by cases sy with | nil => exact absurd rfl hy | cons _ _ => rfl
  have ez : sz.isEmpty = false := by cases sz with | nil => exact absurd rfl hz | cons _ _ => rfl
  simp [ex, ey, ez]

/-- two-dimensional grid, a single block along direction 1: the missing spacing is the origin
    block's volume divided by its own sizes along directions 2 and 3 -/
theorem blockSpacings_2d_x (T : TGrid) (ob tb : GBlock) (mv : Rat) (sy sz : List (GConn × GBlock))
    (h : AxisLines T ob mv [] sy sz tb) (hy : sy ≠ []) (hz : sz ≠ []) (d : Rat)
    (hd : missingSpacing [] (lineSizes none ob sy) (lineSizes none tb sz) [2, 3] ob.volume = .ok d) :
    blockSpacings T ob mv = .ok ([d], lineSizes none ob sy, lineSizes none tb sz) := by
  unfold blockSpacings
  rw [track_line T 1 (some mv) ob [] h.lenx h.okOb h.lx, track_line T 2 (some mv) ob sy h.leny h.okOb h.ly, h.top]
  simp only
  rw [track_line T 3 (some mv) tb sz h.lenz h.okTb h.lz]
  simp only [h.down, Bool.false_eq_true, if_false, lineSizes_isEmpty]
  have ey : sy.isEmpty = false := by cases sy with | nil => exact absurd rfl hy | cons _ _ => rfl
  have ez : sz.isEmpty = false := by cases sz with | nil => exact absurd rfl hz | cons _ _ => rfl
  have e : ([1, 2, 3].filter (· ≠ 1)) = [2, 3] := by decide
  simp [ey, ez, lineSizes, e, hd]

/-- ... and a single block along direction 2 -/
theorem blockSpacings_2d_y (T : TGrid) (ob tb : GBlock) (mv : Rat) (sx sz : List (GConn × GBlock))
    (h : AxisLines T ob mv sx [] sz tb) (hx : sx ≠ []) (hz : sz ≠ []) (d : Rat)
    (hd : missingSpacing (lineSizes none ob sx) [] (lineSizes none tb sz) [1, 3] ob.volume = .ok d) :
    blockSpacings T ob mv = .ok (lineSizes none ob sx, [d], lineSizes none tb sz) := by
  unfold blockSpacings
  rw [track_line T 1 (some mv) ob sx h.lenx h.okOb h.lx, track_line T 2 (some mv) ob [] h.leny h.okOb h.ly, h.top]
  simp only
  rw [track_line T 3 (some mv) tb sz h.lenz h.okTb h.lz]
  simp only [h.down, Bool.false_eq_true, if_false, lineSizes_isEmpty]
  have ex : sx.isEmpty = false := by cases sx with | nil => exact absurd rfl hx | cons _ _ => rfl
  have ez : sz.isEmpty = false := by cases sz with | nil => exact absurd rfl hz | cons _ _ => rfl
  have e : ([1, 2, 3].filter (· ≠ 2)) = [1, 3] := by decide
  simp [ex, ez, lineSizes, e, hd]

/-- the sizes along a line are the widths `ws` when every block's own distance is half its width -/
def HalfWidths : Option GConn → GBlock → List (GConn × GBlock) → List Rat → Prop
  | none, _, [], ws => ws = []
  | some lc, b, [], ws => ∃ w, ws = [w] ∧ distAt lc b.name = w / 2
  | _, b, (c, nb) :: rest, ws => ∃ w ws', ws = w :: ws' ∧ distAt c b.name = w / 2 ∧ HalfWidths (some c) nb rest ws'

theorem lineSizes_of_halfWidths : ∀ (steps : List (GConn × GBlock)) (prev : Option GConn) (b : GBlock) (ws : List Rat),
    HalfWidths prev b steps ws → lineSizes prev b steps = ws := by
  intro steps
  induction steps with
  | nil =>
    intro prev b ws h
    cases prev with
    | none => simp only [HalfWidths] at h; subst h; rfl
    | some lc =>
      simp only [HalfWidths] at h
      obtain ⟨w, rfl, hd⟩ := h
      simp only [lineSizes, hd]; congr 1; ring
  | cons s rest ih =>
    intro prev b ws h
    obtain ⟨c, nb⟩ := s
    have h' : ∃ w ws', ws = w :: ws' ∧ distAt c b.name = w / 2 ∧ HalfWidths (some c) nb rest ws' := by
      cases prev <;> simpa [HalfWidths] using h
    obtain ⟨w, ws', rfl, hd, hr⟩ := h'
    have e : lineSizes prev b ((c, nb) :: rest) = 2 * distAt c b.name :: lineSizes (some c) nb rest := by
      cases prev <;> rfl
    rw [e, ih (some c) nb ws' hr, hd]
    congr 1; ring

end Proofs.RectGeo

namespace Proofs.RectGeo
open Py Model.FromGeo Model.RectGeo

/-! ### composition, step 2: `find_surface` gives back the surface the grid was generated from -/

/-- One column.  `G` is the generating geometry with column `colG` whose top block lies in layer
    `lay`; in the grid the column's blocks form a vertical line above the mapped bottom block `bb`,
    and the line's top block carries the centre and volume `fromgeo` gave it (C04:
    `block_centre(lay, colG)`, `block_volume(lay, colG)`).  `col1` is the reconstructed column, with
    the same area.  Then `find_surface` sets the reconstructed column's surface to `colG.surface`:
    for a surface inside the layer (any top-block thickness `lt` not below the block height) and
    for a surface above the top layer (`lt` the layer thickness, centre at the midpoint). -/
theorem column_surface_recovered (T : TGrid) (G g1 : Geo) (mp : BlockMap) (mv : Rat) (col1 colG : Column)
    (lay : Layer) (hwf : LayersWF G) (hl : lay ∈ G.layers) (harea : 0 < colG.area) (hsame : col1.area = colG.area)
    (bottomLayer : Layer) (gn : Str) (bb : GBlock) (steps : List (GConn × GBlock))
    (hbl : g1.layerlist.getLast? = some bottomLayer)
    (hgn : blockName g1.convention bottomLayer.name col1.name = .ok gn)
    (hmp : mp.lookup gn = some bb.name) (hfb : findB T bb.name = .ok bb)
    (hlen : steps.length ≤ T.blocks.length) (hok : volOk (some mv) bb = true)
    (hline : isLine T 3 (some mv) none none bb steps = true)
    (top : GBlock) (htop : (lineBlocks bb steps).getLast? = some top)
    (hcentre : top.centre = blockCentre G lay colG) (hvol : some top.volume = blockVolume G lay colG)
    (hvpos : top.volume > 0)
    (lt : Rat)
    (hlt : lastOr (lineSizes none bb steps) (top.volume / col1.area) = lt)
    (hcase :
      (lay.bottom < colG.surface ∧ colG.surface ≤ lay.top ∧ colG.surface - lay.bottom ≤ lt) ∨
      (G.layers.head? = some lay ∧ lay.top < colG.surface ∧
        lay.centre = (1 / 2 : Rat) * (lay.bottom + lay.top) ∧ lt = lay.top - lay.bottom)) :
    columnSurface T g1 mp mv col1 = .ok (some colG.surface) := by
  have key : ∃ c, top.centre = some c ∧ surfaceFormula c.z (top.volume / col1.area) lt = colG.surface := by
    rcases hcase with ⟨hb, ht, hle⟩ | ⟨hh, ht, hmid, hle⟩
    · obtain ⟨c, v, hc, hv, hs⟩ := surface_inside G lay colG hwf hl harea hb ht lt hle
      rw [hv] at hvol
      have : top.volume = v := Option.some.inj hvol
      exact ⟨c, by rw [hcentre, hc], by rw [this, hsame]; exact hs⟩
    · obtain ⟨c, v, hc, hv, hs⟩ := surface_above G lay colG hwf hh harea ht hmid
      rw [hv] at hvol
      have : top.volume = v := Option.some.inj hvol
      exact ⟨c, by rw [hcentre, hc], by rw [this, hsame, hle]; exact hs⟩
  obtain ⟨c, hc, hs⟩ := key
  rw [columnSurface_line T g1 mp mv col1 bottomLayer gn bb steps hbl hgn hmp hfb hlen hok hline top htop c hc hvpos, hlt, hs]

end Proofs.RectGeo

namespace Proofs.RectGeo
open Py Model.FromGeo Model.RectGeo

/-- the hypotheses of `column_surface_recovered` for one reconstructed column `col1` and the
    generating column `colG` -/
def ColumnRecovers (T : TGrid) (G g1 : Geo) (mp : BlockMap) (mv : Rat) (col1 colG : Column) : Prop :=
  ∃ (lay bottomLayer : Layer) (gn : Str) (bb top : GBlock) (steps : List (GConn × GBlock)) (lt : Rat),
    lay ∈ G.layers ∧ 0 < colG.area ∧ col1.area = colG.area ∧
    g1.layerlist.getLast? = some bottomLayer ∧
    blockName g1.convention bottomLayer.name col1.name = .ok gn ∧
    mp.lookup gn = some bb.name ∧ findB T bb.name = .ok bb ∧
    steps.length ≤ T.blocks.length ∧ volOk (some mv) bb = true ∧
    isLine T 3 (some mv) none none bb steps = true ∧
    (lineBlocks bb steps).getLast? = some top ∧
    top.centre = blockCentre G lay colG ∧ some top.volume = blockVolume G lay colG ∧ top.volume > 0 ∧
    lastOr (lineSizes none bb steps) (top.volume / col1.area) = lt ∧
    ((lay.bottom < colG.surface ∧ colG.surface ≤ lay.top ∧ colG.surface - lay.bottom ≤ lt) ∨
     (G.layers.head? = some lay ∧ lay.top < colG.surface ∧
       lay.centre = (1 / 2 : Rat) * (lay.bottom + lay.top) ∧ lt = lay.top - lay.bottom))

/-- `find_surface` over all columns: every reconstructed column gets the surface of the
    generating column it corresponds to -/
theorem findSurfaceCols_recovered (T : TGrid) (G g1 : Geo) (mp : BlockMap) (mv : Rat) (hwf : LayersWF G) :
    ∀ (cols1 colsG : List Column), List.Forall₂ (ColumnRecovers T G g1 mp mv) cols1 colsG →
      findSurfaceCols T g1 mp mv [] cols1 =
        .ok (List.zipWith (fun c1 cG => { c1 with surface := cG.surface }) cols1 colsG) := by
  intro cols1 colsG h
  induction h with
  | nil => rfl
  | @cons c1 cG r1 rG hd _ ih =>
    obtain ⟨lay, bl, gn, bb, top, steps, lt, h1, h2, h3, h4, h5, h6, h7, h8, h9, h10, h11, h12, h13, h14, h15, h16⟩ := hd
    have := column_surface_recovered T G g1 mp mv c1 cG lay hwf h1 h2 h3 bl gn bb steps h4 h5 h6 h7 h8 h9 h10 top h11 h12 h13 h14 lt h15 h16
    simp only [findSurfaceCols, this, ih, List.zipWith_cons_cons]

/-- snapping leaves a column alone when its surface block is at least `minThick` thick -/
theorem snapColumn_keeps (g : Geo) (minThick : Rat) (nl : Nat) (col : Column) (top : Layer)
    (htop : g.layerlist[g.layerlist.length - nl]? = some top) (hthick : minThick ≤ col.surface - top.bottom) :
    snapColumn g minThick nl col = .ok col := by
  unfold snapColumn
  simp only [htop]
  have : ¬ (col.surface - top.bottom < minThick) := not_lt.2 hthick
  simp [this]

/-! ### composition, step 3: position -/

theorem blockCentre_translate (g : Geo) (t : P3) (lay : Layer) (col : Column) :
    blockCentre (translateGeo t g) ⟨lay.name, lay.bottom + t.z, lay.centre + t.z, lay.top + t.z⟩
      { col with nodes := col.nodes.map (fun p => ⟨p.x + t.x, p.y + t.y⟩),
                 centre := ⟨col.centre.x + t.x, col.centre.y + t.y⟩, surface := col.surface + t.z } =
    (blockCentre g lay col).map (fun c => ⟨c.x + t.x, c.y + t.y, c.z + t.z⟩) := by
  unfold blockCentre translateGeo
  simp only
  by_cases hn : lay.name = g.layer0.name
  · simp only [hn, if_true]
    by_cases h1 : g.atmType = 1 <;> simp [h1]
  · simp only [hn, if_false]
    have e1 : (lay.bottom + t.z < col.surface + t.z) ↔ (lay.bottom < col.surface) := by constructor <;> intro h <;> linarith
    have e2 : (col.surface + t.z ≤ lay.top + t.z) ↔ (col.surface ≤ lay.top) := by constructor <;> intro h <;> linarith
    have e3 : (col.surface + t.z ≤ lay.bottom + t.z) ↔ (col.surface ≤ lay.bottom) := by constructor <;> intro h <;> linarith
    simp only [e1, e2, e3]
    by_cases c1 : lay.bottom < col.surface ∧ col.surface ≤ lay.top
    · simp only [c1, and_self, if_true, Option.map_some, Option.some.injEq, P3.mk.injEq, true_and]
      ring
    · simp only [c1, if_false]
      by_cases c2 : col.surface ≤ lay.bottom
      · simp [c2]
      · simp [c2]

end Proofs.RectGeo

namespace Proofs.RectGeo
open Py Model.FromGeo Model.RectGeo

/-- `match_position` puts the reconstructed geometry where the grid is: after it, the centre of the
    bottom-layer block of the first column — the reconstruction's origin block — is the centre of
    the grid's origin block `ob` (for any rotation `cs` it was given). -/
theorem matchPosition_places_origin (g : Geo) (ob : GBlock) (cs : P2) (g2 : Geo) (oc : P3)
    (hoc : ob.centre = some oc) (h : matchPosition g ob cs = .ok g2) :
    ∃ col lay, g2.columns.head? = some col ∧ g2.layerlist.getLast? = some lay ∧
      blockCentre g2 lay col = some oc := by
  unfold matchPosition at h
  simp only [hoc] at h
  split at h
  · rename_i col lay oc' hcol hlay hoc'
    cases hoc'
    split at h
    · rename_i origin horigin
      cases h
      refine ⟨{ col with nodes := col.nodes.map (fun p => ⟨p.x + (oc.x - origin.x), p.y + (oc.y - origin.y)⟩),
                         centre := ⟨col.centre.x + (oc.x - origin.x), col.centre.y + (oc.y - origin.y)⟩,
                         surface := col.surface + (oc.z - origin.z) },
              ⟨lay.name, lay.bottom + (oc.z - origin.z), lay.centre + (oc.z - origin.z), lay.top + (oc.z - origin.z)⟩, ?_, ?_, ?_⟩
      · simp only [translateGeo, List.head?_map, hcol, Option.map_some]
      · have : ∀ (t : P3) (gg : Geo), (translateGeo t gg).layerlist =
            gg.layerlist.map (fun l => ⟨l.name, l.bottom + t.z, l.centre + t.z, l.top + t.z⟩) := by
          intro t gg; rfl
        rw [this, List.getLast?_map, hlay]; rfl
      · have := blockCentre_translate { rotateGeo cs.x cs.y g with rot := cs } ⟨oc.x - origin.x, oc.y - origin.y, oc.z - origin.z⟩ lay col
        simp only at this
        rw [this, horigin]
        simp only [Option.map_some, Option.some.injEq]
        cases oc; cases origin
        simp only [P3.mk.injEq]
        refine ⟨by ring, by ring, by ring⟩
    · cases h
  · cases h
  · cases h
  · cases h

end Proofs.RectGeo
