/-
  C03 proofs, part 9: the whole file — `read (write g) = canonGeo g`.
-/
import PyTough.Proofs.GeoFileWF
namespace Proofs.GeoFile
open Py Model Model.GeoFile Proofs

/-! ### the lines `write` produces -/

def tailWells (g : Geo) (s : Rat) (fin : List Str) : List Str :=
  if g.wells.length > 0 then kwLine kwWells :: (wellTextLines s g.wells ++ ['\n'] :: fin) else fin

def tailSurf (g : Geo) (s : Rat) (fin : List Str) : List Str :=
  if g.columns.all (·.defaultSurface) then fin else kwLine kwSurfa :: (surfTextLines s g.columns ++ ['\n'] :: fin)

def bodyLines (g : Geo) (s : Rat) : List Str :=
  kwLine kwVertices :: (nodeLines s g.nodes ++ ['\n'] ::
  (kwLine kwGrid :: (columnsTextLines s g.columns ++ ['\n'] ::
  (kwLine kwConnections :: (connLines g.connections ++ ['\n'] ::
  (kwLine kwLayers :: (layerTextLines s g.layers ++ ['\n'] ::
  tailSurf g s (tailWells g s [['\n']]))))))))

def fileLines (g : Geo) (s : Rat) : List Str := (recText (hdrItems g.hdr) ++ ['\n']) :: bodyLines g s

theorem surf_lines_eq {L : Nat} {s : Rat} (hL : L ≤ 3) : ∀ (cs : List GColumn),
    (∀ c ∈ cs, NameShape L c.name) →
    (∀ c ∈ cs, c.defaultSurface = true ∨ ∃ z, c.surface = some z ∧ fitsC 2 s z = true) →
    (cs.filter fun c => !c.defaultSurface).mapM (surfaceLine SP s) = .ok (surfTextLines s cs) := by
  intro cs
  induction cs with
  | nil => intro _ _; rfl
  | cons c r ih =>
    intro hn hs
    have ihr := ih (fun x hx => hn x (List.mem_cons_of_mem _ hx)) (fun x hx => hs x (List.mem_cons_of_mem _ hx))
    rcases hs c (by simp) with hd | ⟨z, hz, hf⟩
    · have : (c :: r).filter (fun c => !c.defaultSurface) = r.filter (fun c => !c.defaultSurface) := by
        rw [List.filter_cons]; simp [hd]
      rw [this, ihr]
      simp [surfTextLines, surfPairs, hd]
    · by_cases hd : c.defaultSurface = true
      · have : (c :: r).filter (fun c => !c.defaultSurface) = r.filter (fun c => !c.defaultSurface) := by
          rw [List.filter_cons]; simp [hd]
        rw [this, ihr]
        simp [surfTextLines, surfPairs, hd]
      · have hd' : c.defaultSurface = false := by simpa using hd
        have : (c :: r).filter (fun c => !c.defaultSurface) = c :: r.filter (fun c => !c.defaultSurface) := by
          rw [List.filter_cons]; simp [hd']
        rw [this, List.mapM_cons, surfaceLine_eq hL (hn c (by simp)) hz hf, ihr]
        simp [surfTextLines, surfPairs, hd', hz, pure, Except.pure, bind, Except.bind]

theorem wells_lines_eq {s : Rat} : ∀ (ws : List GWell), (∀ w ∈ ws, WellOK s w) →
    ws.mapM (wellLines SP s) = .ok (ws.map fun w => w.pos.map fun p => recText (wellItems s w.name p) ++ ['\n']) := by
  intro ws h
  apply mapM_ok_map
  intro w hw
  unfold wellLines
  apply mapM_ok_map
  intro p hp
  exact wellLine_eq (h w hw).name ((h w hw).pos p hp)

theorem wellTextLines_eq (s : Rat) (ws : List GWell) :
    (ws.map fun w => w.pos.map fun p => recText (wellItems s w.name p) ++ ['\n']).flatten = wellTextLines s ws := by
  unfold wellTextLines wellPairs
  induction ws with
  | nil => rfl
  | cons w r ih =>
    simp only [List.map_cons, List.flatten_cons, List.flatMap_cons, List.map_append, ih, List.map_map]
    rfl

theorem writeLines_eq {g : Geo} {L LL : Nat} {s : Rat} (w : WFP g L LL s) : writeLines g = .ok (fileLines g s) := by
  unfold writeLines
  rw [specs_eq]
  simp only [bind, Except.bind, w.sc]
  rw [writeHeader_eq w.hdr]
  simp only
  have hn : writeNodes SP s g.nodes = .ok (kwLine kwVertices :: nodeLines s g.nodes ++ [['\n']]) := by
    unfold writeNodes
    rw [mapM_ok_map (nodeLine SP s) (fun n => recText (nodeItems s n) ++ ['\n']) g.nodes
      (fun n hn => nodeLine_eq w.hL (w.nodes n hn))]
    rfl
  have hc : writeColumns SP s g.columns = .ok (kwLine kwGrid :: columnsTextLines s g.columns ++ [['\n']]) := by
    unfold writeColumns
    rw [mapM_ok_map (columnLines SP s) (columnTextLines s) g.columns (fun c hc => columnLines_eq w.hL (w.cols c hc))]
    simp only [bind, Except.bind, pure, Except.pure, columnsTextLines, List.flatMap]
  have hk : writeConnections SP g.connections = .ok (kwLine kwConnections :: connLines g.connections ++ [['\n']]) := by
    unfold writeConnections
    rw [mapM_ok_map (connectionLine SP) (fun k => recText (connItems k) ++ ['\n']) g.connections (by
      intro k hk
      obtain ⟨h1, h2⟩ := w.conns k hk
      obtain ⟨c1, hc1, e1⟩ := List.mem_map.mp h1
      obtain ⟨c2, hc2, e2⟩ := List.mem_map.mp h2
      exact connectionLine_eq w.hL (e1 ▸ (w.cols c1 hc1).name) (e2 ▸ (w.cols c2 hc2).name))]
    rfl
  have hl : writeLayers SP s g.layers = .ok (kwLine kwLayers :: layerTextLines s g.layers ++ [['\n']]) := by
    unfold writeLayers
    rw [mapM_ok_map (layerLine SP s) (fun l => recText (layerItems s l) ++ ['\n']) g.layers
      (fun l hl => layerLine_eq w.hLL (w.layers l hl))]
    rfl
  have hs : writeSurface SP s g.columns = .ok (kwLine kwSurfa :: surfTextLines s g.columns ++ [['\n']]) := by
    unfold writeSurface
    rw [surf_lines_eq w.hL g.columns (fun c hc => (w.cols c hc).name) w.colSurf]
    rfl
  have hw : writeWells SP s g.wells = .ok (kwLine kwWells :: wellTextLines s g.wells ++ [['\n']]) := by
    unfold writeWells
    rw [wells_lines_eq g.wells w.wells]
    simp only [bind, Except.bind, pure, Except.pure, wellTextLines_eq]
  rw [hn, hc, hk, hl]
  simp only
  unfold fileLines bodyLines tailSurf tailWells
  by_cases hds : (g.columns.all fun c => c.defaultSurface) = true <;> by_cases hnw : g.wells.length > 0 <;>
    simp [hds, hnw, hs, hw, pure, Except.pure]

/-! ### every line ends in its only newline -/

def GoodLine (l : Str) : Prop := ∃ b, l = b ++ ['\n'] ∧ '\n' ∉ b

theorem goodLine_rec {items : List Item} (h : ItemsOK items) : GoodLine (recText items ++ ['\n']) :=
  ⟨_, rfl, recText_no_newline items h⟩

theorem goodLine_blank : GoodLine ['\n'] := ⟨[], rfl, by simp⟩

theorem goodLine_kw (kw : Str) (h : '\n' ∉ kw) : GoodLine (kwLine kw) := ⟨kw, rfl, h⟩

theorem fileLines_good {g : Geo} {L LL : Nat} {s : Rat} (w : WFP g L LL s) : ∀ l ∈ fileLines g s, GoodLine l := by
  have hnodes : ∀ l ∈ nodeLines s g.nodes, GoodLine l := by
    intro l hl
    obtain ⟨n, hn, rfl⟩ := List.mem_map.mp hl
    exact goodLine_rec (nodeItems_ok w.hL (w.nodes n hn))
  have hcols : ∀ l ∈ columnsTextLines s g.columns, GoodLine l := by
    intro l hl
    obtain ⟨c, hc, hlc⟩ := List.mem_flatMap.mp hl
    rcases List.mem_cons.mp hlc with rfl | hlc
    · exact goodLine_rec (columnItems_ok w.hL (w.cols c hc))
    · obtain ⟨nm, hnm, rfl⟩ := List.mem_map.mp hlc
      exact goodLine_rec (itemsOK_cons (nameItem_ok w.hL ((w.cols c hc).found nm hnm).1) itemsOK_nil)
  have colName : ∀ nm ∈ g.columns.map (·.name), NameShape L nm := by
    intro nm h
    obtain ⟨c, hc, e⟩ := List.mem_map.mp h
    exact e ▸ (w.cols c hc).name
  have hconns : ∀ l ∈ connLines g.connections, GoodLine l := by
    intro l hl
    obtain ⟨k, hk, rfl⟩ := List.mem_map.mp hl
    obtain ⟨h1, h2⟩ := w.conns k hk
    exact goodLine_rec (itemsOK_cons (nameItem_ok w.hL (colName _ h1)) (itemsOK_cons (nameItem_ok w.hL (colName _ h2)) itemsOK_nil))
  have hlayers : ∀ l ∈ layerTextLines s g.layers, GoodLine l := by
    intro l hl
    obtain ⟨x, hx, rfl⟩ := List.mem_map.mp hl
    exact goodLine_rec (layerItems_ok w.hLL (w.layers x hx))
  have hsurf : ∀ l ∈ surfTextLines s g.columns, GoodLine l := by
    intro l hl
    obtain ⟨nz, hnz, rfl⟩ := List.mem_map.mp hl
    unfold surfPairs at hnz
    obtain ⟨c, hc, hcz⟩ := List.mem_filterMap.mp hnz
    rcases w.colSurf c hc with hd | ⟨z, hz, hf⟩
    · simp [hd] at hcz
    · by_cases hd : c.defaultSurface = true
      · simp [hd] at hcz
      · simp only [hd, Bool.false_eq_true, if_false, hz, Option.map_some, Option.some.injEq] at hcz
        subst hcz
        exact goodLine_rec (itemsOK_cons (nameItem_ok w.hL (w.cols c hc).name) (itemsOK_cons (coordItem_ok hf) itemsOK_nil))
  have hwells : ∀ l ∈ wellTextLines s g.wells, GoodLine l := by
    intro l hl
    obtain ⟨np, hnp, rfl⟩ := List.mem_map.mp hl
    obtain ⟨x, hx, hn, hp⟩ := mem_wellPairs hnp
    exact goodLine_rec (wellItems_ok (by rw [hn]; exact (w.wells x hx).name) ((w.wells x hx).pos _ hp))
  intro l hl
  unfold fileLines bodyLines tailSurf tailWells at hl
  simp only [List.mem_cons, List.mem_append] at hl
  have kwv : GoodLine (kwLine kwVertices) := goodLine_kw _ (by decide)
  have kwg : GoodLine (kwLine kwGrid) := goodLine_kw _ (by decide)
  have kwc : GoodLine (kwLine kwConnections) := goodLine_kw _ (by decide)
  have kwl : GoodLine (kwLine kwLayers) := goodLine_kw _ (by decide)
  have kws : GoodLine (kwLine kwSurfa) := goodLine_kw _ (by decide)
  have kww : GoodLine (kwLine kwWells) := goodLine_kw _ (by decide)
  rcases hl with rfl | rfl | h | rfl | rfl | h | rfl | rfl | h | rfl | rfl | h | rfl | h
  · exact goodLine_rec (hdrItems_ok w.hdr)
  · exact kwv
  · exact hnodes l h
  · exact goodLine_blank
  · exact kwg
  · exact hcols l h
  · exact goodLine_blank
  · exact kwc
  · exact hconns l h
  · exact goodLine_blank
  · exact kwl
  · exact hlayers l h
  · exact goodLine_blank
  · -- the optional sections
    have hw : ∀ l ∈ (if g.wells.length > 0 then kwLine kwWells :: (wellTextLines s g.wells ++ [['\n'], ['\n']]) else [['\n']]), GoodLine l := by
      intro l hl
      split at hl
      · simp only [List.mem_cons, List.mem_append, List.not_mem_nil, or_false] at hl
        rcases hl with rfl | h | rfl | rfl
        · exact kww
        · exact hwells l h
        · exact goodLine_blank
        · exact goodLine_blank
      · simp only [List.mem_cons, List.not_mem_nil, or_false] at hl
        rw [hl]; exact goodLine_blank
    split at h
    · exact hw l (by simpa using h)
    · simp only [List.mem_cons, List.mem_append] at h
      rcases h with rfl | h | rfl | h
      · exact kws
      · exact hsurf l h
      · exact goodLine_blank
      · exact hw l (by simpa using h)

theorem pyLines_write {g : Geo} {L LL : Nat} {s : Rat} (w : WFP g L LL s) :
    ∃ t, write g = .ok t ∧ pyLines t = fileLines g s := by
  refine ⟨(fileLines g s).flatten, ?_, pyLines_flatten _ (fileLines_good w)⟩
  unfold write
  rw [writeLines_eq w]
  rfl

end Proofs.GeoFile
