/-
  The primitive edits preserve the invariant: registries (dict/list agreement) under adding and removing objects;
  add_node, delete_node (of an unused node), add_well, delete_well keep the whole invariant, add_layer /
  delete_layer the structural part.
-/
import PyTough.Proofs.GeoRigid
namespace Proofs.Geo
open Model.Geo Model.Geo.Geo Py

/-! ### dictionaries -/
section dict
variable {κ : Type} [DecidableEq κ]

theorem Dict.contains_iff (d : Dict κ) (k : κ) : d.contains k = true ↔ k ∈ d.map (·.1) := by
  simp [Dict.contains, List.any_eq_true]

theorem Dict.set_fresh (d : Dict κ) (k : κ) (v : Nat) (h : d.contains k = false) : d.set k v = d ++ [(k, v)] := by
  induction d with
  | nil => rfl
  | cons p t ih =>
    simp only [Dict.contains, List.any_cons, Bool.or_eq_false_iff, decide_eq_false_iff_not] at h
    simp only [Dict.set, h.1, if_false, List.cons_append]
    rw [ih (by simpa [Dict.contains] using h.2)]

theorem Dict.get?_append_fresh (d : Dict κ) (k k' : κ) (v : Nat) (h : k' ≠ k) :
    Dict.get? (d ++ [(k, v)]) k' = Dict.get? d k' := by
  simp only [Dict.get?, List.find?_append]
  cases hf : d.find? (fun p => decide (p.1 = k')) with
  | some p => simp
  | none => simp [List.find?, h.symm]

theorem Dict.get?_append_self (d : Dict κ) (k : κ) (v : Nat) (h : d.contains k = false) :
    Dict.get? (d ++ [(k, v)]) k = some v := by
  simp only [Dict.get?, List.find?_append]
  have : d.find? (fun p => decide (p.1 = k)) = none := by
    simp only [List.find?_eq_none, decide_eq_true_eq]
    intro p hp hpk
    have : d.contains k = true := by
      simp only [Dict.contains, List.any_eq_true, decide_eq_true_eq]; exact ⟨p, hp, hpk⟩
    rw [h] at this; cases this
  simp [this, List.find?]

/-- adding a fresh object with a fresh name keeps a registry consistent -/
theorem regOK_append (l : List Nat) (d : Dict κ) (nm nm' : Nat → κ) (i : Nat) (k : κ)
    (h : regOK l d nm = true) (hi : i ∉ l) (hk : d.contains k = false) (hnew : nm' i = k)
    (hold : ∀ j ∈ l, nm' j = nm j) : regOK (l ++ [i]) (d ++ [(k, i)]) nm' = true := by
  simp only [regOK, Bool.and_eq_true, decide_eq_true_eq, List.all_eq_true, beq_iff_eq, List.contains_eq_mem] at h ⊢
  obtain ⟨⟨⟨⟨h1, h2⟩, h3⟩, h4⟩, h5⟩ := h
  have hkl : ∀ j ∈ l, nm j ≠ k := by
    intro j hj e
    have := h4 j hj
    rw [e] at this
    have hc : d.contains k = true := by
      simp only [Dict.get?, Option.map_eq_some_iff] at this
      obtain ⟨p, hp, _⟩ := this
      have := List.find?_some hp
      simp only [Dict.contains, List.any_eq_true, decide_eq_true_eq]
      exact ⟨p, List.mem_of_find?_eq_some hp, by simpa using this⟩
    rw [hk] at hc; cases hc
  refine ⟨⟨⟨⟨?_, ?_⟩, ?_⟩, ?_⟩, ?_⟩
  · exact List.nodup_append.mpr ⟨h1, by simp, by intro a ha b hb; simp at hb; subst hb; exact fun e => hi (e ▸ ha)⟩
  · rw [List.map_append, List.map_cons, List.map_nil, hnew]
    have : l.map nm' = l.map nm := List.map_congr_left hold
    rw [this]
    exact List.nodup_append.mpr ⟨h2, by simp, by
      intro a ha b hb; simp at hb; subst hb
      obtain ⟨j, hj, rfl⟩ := List.mem_map.mp ha
      exact hkl j hj⟩
  · rw [List.map_append]
    exact List.nodup_append.mpr ⟨h3, by simp, by
      intro a ha b hb; simp at hb; subst hb
      intro e; subst e
      have : d.contains a = true := (Dict.contains_iff d a).mpr ha
      rw [hk] at this; cases this⟩
  · intro j hj
    rcases List.mem_append.mp hj with hj | hj
    · rw [hold j hj, Dict.get?_append_fresh d k (nm j) i (hkl j hj)]
      exact h4 j hj
    · simp at hj; subst hj
      rw [hnew]; exact Dict.get?_append_self d k j hk
  · intro p hp
    rcases List.mem_append.mp hp with hp | hp
    · have := h5 p hp
      exact ⟨List.mem_append_left _ (by simpa using this.1), by rw [hold p.2 (by simpa using this.1)]; exact this.2⟩
    · simp at hp; subst hp
      exact ⟨by simp, hnew⟩

end dict
end Proofs.Geo

namespace Proofs.Geo
open Model.Geo Model.Geo.Geo Py

theorem getElem!_push_lt {α} [Inhabited α] (a : Array α) (x : α) (j : Nat) (h : j < a.size) :
    (a.push x)[j]! = a[j]! := by
  simp [h, Nat.lt_succ_of_lt h, Array.getElem_push]

theorem getElem!_push_eq {α} [Inhabited α] (a : Array α) (x : α) : (a.push x)[a.size]! = x := by
  simp [Array.getElem_push]

/-- what `add_node` builds when the name is new -/
def addNodeFresh (g : Geo) (name : Name) (pos : Pt) : Geo :=
  { g with N := g.N.push (Node.mk name pos []), nodelist := g.nodelist ++ [g.N.size],
           nodeD := g.nodeD.set name g.N.size }

theorem addNode_eq (g : Geo) (name : Name) (pos : Pt) :
    g.addNode name pos = if g.nodeD.contains name then g else addNodeFresh g name pos := rfl

theorem addNodeFresh_geoInv0 (g : Geo) (name : Name) (pos : Pt) (hfresh' : g.nodeD.contains name = false)
    (h : g.geoInv0 = true) : (addNodeFresh g name pos).geoInv0 = true := by
  simp only [geoInv0, Bool.and_eq_true] at h ⊢
  obtain ⟨⟨⟨⟨⟨⟨hh, hr⟩, hnc⟩, hcc⟩, hnb⟩, hcn⟩, ho⟩ := h
  have hlt := heapOK_nodes hh
  have hnotin : g.N.size ∉ g.nodelist := fun hm => Nat.lt_irrefl _ (hlt _ hm)
  have hnodes := nodeColsOK_nodes hnc
  have hold : ∀ j, j < g.N.size → (addNodeFresh g name pos).node j = g.node j := by
    intro j hj; simp only [Geo.node, addNodeFresh]; exact getElem!_push_lt _ _ _ hj
  have hnew : (addNodeFresh g name pos).node g.N.size = Node.mk name pos [] := by
    simp only [Geo.node, addNodeFresh]; exact getElem!_push_eq _ _
  refine ⟨⟨⟨⟨⟨⟨?_, ?_⟩, ?_⟩, hcc⟩, hnb⟩, hcn⟩, ?_⟩
  · -- heapOK
    simp only [heapOK, addNodeFresh, Bool.and_eq_true] at hh ⊢
    refine ⟨⟨⟨⟨?_, hh.1.1.1.2⟩, hh.1.1.2⟩, hh.1.2⟩, hh.2⟩
    simp only [List.all_eq_true, decide_eq_true_eq, Array.size_push]
    intro j hj
    rcases List.mem_append.mp hj with hj | hj
    · exact Nat.lt_succ_of_lt (hlt j hj)
    · simp at hj; omega
  · -- registries
    simp only [registriesOK, Bool.and_eq_true] at hr ⊢
    refine ⟨⟨⟨⟨?_, hr.1.1.1.2⟩, hr.1.1.2⟩, hr.1.2⟩, hr.2⟩
    show regOK (g.nodelist ++ [g.N.size]) (g.nodeD.set name g.N.size) (fun i => ((addNodeFresh g name pos).node i).name) = true
    rw [Dict.set_fresh _ _ _ hfresh']
    apply regOK_append g.nodelist g.nodeD (fun i => (g.node i).name) _ g.N.size name hr.1.1.1.1 hnotin hfresh'
    · simp only [hnew]
    · intro j hj; simp only [hold j (hlt j hj)]
  · -- nodeColsOK
    simp only [nodeColsOK, Bool.and_eq_true, List.all_eq_true, List.contains_eq_mem, decide_eq_true_eq,
      Bool.or_eq_true, Bool.not_eq_true'] at hnc ⊢
    refine ⟨?_, ?_⟩
    · intro c hc n hn'; exact List.mem_append_left _ (hnc.1 c hc n hn')
    · intro n hn'
      rcases List.mem_append.mp hn' with hn' | hn'
      · rw [hold n (hlt n hn')]; exact hnc.2 n hn'
      · simp at hn'; subst hn'
        rw [hnew]
        refine ⟨by simp, ?_⟩
        intro c hc
        left
        simp only [decide_eq_false_iff_not]
        intro hm; exact hnotin (hnodes c hc _ hm)
  · -- orientOK
    simp only [orientOK, List.all_eq_true, Bool.and_eq_true, decide_eq_true_eq] at ho ⊢
    intro c hc
    have : (addNodeFresh g name pos).polygon (g.col c).nodes = g.polygon (g.col c).nodes := by
      simp only [Geo.polygon]
      apply List.map_congr_left
      intro n hn'
      rw [hold n (hlt n (hnodes c hc n hn'))]
    have hcol : (addNodeFresh g name pos).col c = g.col c := rfl
    rw [hcol, this]
    exact ho c hc

/-- `add_node` keeps the structural invariant (a node named like an existing one is ignored) -/
theorem addNode_geoInv0 (g : Geo) (name : Name) (pos : Pt) (h : g.geoInv0 = true) :
    (g.addNode name pos).geoInv0 = true := by
  rw [addNode_eq]
  split
  · exact h
  · rename_i hf
    exact addNodeFresh_geoInv0 g name pos (by simpa using hf) h

/-- ... and the layer counts and name lists, which do not depend on nodes: the whole invariant -/
theorem addNode_geoInv (g : Geo) (name : Name) (pos : Pt) (h : g.geoInv = true) :
    (g.addNode name pos).geoInv = true := by
  simp only [geoInv, Bool.and_eq_true] at h ⊢
  refine ⟨⟨addNode_geoInv0 g name pos h.1.1, ?_⟩, ?_⟩
  · rw [addNode_eq]; split
    · exact h.1.2
    · exact h.1.2
  · rw [addNode_eq]; split
    · exact h.2
    · exact h.2

/-! ### `add_well`, `add_layer` -/

def addWellFresh (g : Geo) (w : Well) : Geo :=
  { g with W := g.W.push w, welllist := g.welllist ++ [g.W.size], wellD := g.wellD.set w.name g.W.size }

theorem addWell_eq (g : Geo) (w : Well) :
    g.addWell w = if g.wellD.contains w.name then g else addWellFresh g w := rfl

theorem heapOK_wells {g : Geo} (h : g.heapOK = true) : ∀ n ∈ g.welllist, n < g.W.size := by
  simp only [heapOK, Bool.and_eq_true, List.all_eq_true, decide_eq_true_eq] at h
  exact h.2

/-- `add_well` keeps the whole invariant -/
theorem addWell_geoInv0 (g : Geo) (w : Well) (h : g.geoInv0 = true) : (g.addWell w).geoInv0 = true := by
  rw [addWell_eq]
  split
  · exact h
  · rename_i hf
    have hfresh' : g.wellD.contains w.name = false := by simpa using hf
    simp only [geoInv0, Bool.and_eq_true] at h ⊢
    obtain ⟨⟨⟨⟨⟨⟨hh, hr⟩, hnc⟩, hcc⟩, hnb⟩, hcn⟩, ho⟩ := h
    have hlt := heapOK_wells hh
    have hnotin : g.W.size ∉ g.welllist := fun hm => Nat.lt_irrefl _ (hlt _ hm)
    refine ⟨⟨⟨⟨⟨⟨?_, ?_⟩, hnc⟩, hcc⟩, hnb⟩, hcn⟩, ho⟩
    · simp only [heapOK, addWellFresh, Bool.and_eq_true] at hh ⊢
      refine ⟨hh.1, ?_⟩
      simp only [List.all_eq_true, decide_eq_true_eq, Array.size_push]
      intro j hj
      rcases List.mem_append.mp hj with hj | hj
      · exact Nat.lt_succ_of_lt (hlt j hj)
      · simp at hj; omega
    · simp only [registriesOK, Bool.and_eq_true] at hr ⊢
      refine ⟨⟨hr.1.1, ?_⟩, hr.2⟩
      show regOK (g.welllist ++ [g.W.size]) (g.wellD.set w.name g.W.size) (fun i => ((addWellFresh g w).well i).name) = true
      rw [Dict.set_fresh _ _ _ hfresh']
      apply regOK_append g.welllist g.wellD (fun i => (g.well i).name) _ g.W.size w.name hr.1.2 hnotin hfresh'
      · simp only [Geo.well, addWellFresh, getElem!_push_eq]
      · intro j hj; simp only [Geo.well, addWellFresh, getElem!_push_lt _ _ _ (hlt j hj)]

def addLayerFresh (g : Geo) (l : Layer) : Geo :=
  { g with L := g.L.push l, layerlist := g.layerlist ++ [g.L.size], layerD := g.layerD.set l.name g.L.size }

theorem addLayer_eq (g : Geo) (l : Layer) :
    g.addLayer l = if g.layerD.contains l.name then g else addLayerFresh g l := rfl

/-- `add_layer` keeps the structural invariant (the columns' layer counts and the name lists are NOT
    refreshed: known finding `num_layers:mismatch@add_layer`, `namelists:*@add_layer`) -/
theorem addLayer_geoInv0 (g : Geo) (l : Layer) (h : g.geoInv0 = true) : (g.addLayer l).geoInv0 = true := by
  rw [addLayer_eq]
  split
  · exact h
  · rename_i hf
    have hfresh' : g.layerD.contains l.name = false := by simpa using hf
    simp only [geoInv0, Bool.and_eq_true] at h ⊢
    obtain ⟨⟨⟨⟨⟨⟨hh, hr⟩, hnc⟩, hcc⟩, hnb⟩, hcn⟩, ho⟩ := h
    have hlt := heapOK_lays hh
    have hnotin : g.L.size ∉ g.layerlist := fun hm => Nat.lt_irrefl _ (hlt _ hm)
    refine ⟨⟨⟨⟨⟨⟨?_, ?_⟩, hnc⟩, hcc⟩, hnb⟩, hcn⟩, ho⟩
    · simp only [heapOK, addLayerFresh, Bool.and_eq_true] at hh ⊢
      refine ⟨⟨hh.1.1, ?_⟩, hh.2⟩
      simp only [List.all_eq_true, decide_eq_true_eq, Array.size_push]
      intro j hj
      rcases List.mem_append.mp hj with hj | hj
      · exact Nat.lt_succ_of_lt (hlt j hj)
      · simp at hj; omega
    · simp only [registriesOK, Bool.and_eq_true] at hr ⊢
      refine ⟨⟨⟨hr.1.1.1, ?_⟩, hr.1.2⟩, hr.2⟩
      show regOK (g.layerlist ++ [g.L.size]) (g.layerD.set l.name g.L.size) (fun i => ((addLayerFresh g l).lay i).name) = true
      rw [Dict.set_fresh _ _ _ hfresh']
      apply regOK_append g.layerlist g.layerD (fun i => (g.lay i).name) _ g.L.size l.name hr.1.1.2 hnotin hfresh'
      · simp only [Geo.lay, addLayerFresh, getElem!_push_eq]
      · intro j hj; simp only [Geo.lay, addLayerFresh, getElem!_push_lt _ _ _ (hlt j hj)]

end Proofs.Geo

namespace Proofs.Geo
open Model.Geo Model.Geo.Geo Py
section dict2
variable {κ : Type} [DecidableEq κ]

theorem Dict.get?_mem {d : Dict κ} {k : κ} {i : Nat} (h : Dict.get? d k = some i) : (k, i) ∈ d := by
  simp only [Dict.get?, Option.map_eq_some_iff] at h
  obtain ⟨p, hp, rfl⟩ := h
  have h1 := List.find?_some hp
  have h2 := List.mem_of_find?_eq_some hp
  simp only [decide_eq_true_eq] at h1
  subst h1
  exact h2

theorem Dict.get?_del_ne (d : Dict κ) (k k' : κ) (h : k' ≠ k) : Dict.get? (Dict.del d k) k' = Dict.get? d k' := by
  induction d with
  | nil => rfl
  | cons p t ih =>
    simp only [Dict.del, List.filter_cons]
    by_cases hp : p.1 = k
    · simp only [hp, ne_eq, not_true_eq_false, decide_false]
      have : Dict.get? (p :: t) k' = Dict.get? t k' := by
        simp only [Dict.get?, List.find?_cons]
        have : decide (p.1 = k') = false := by simp [hp, h.symm]
        simp [this]
      rw [this]
      exact ih
    · simp only [ne_eq, hp, not_false_eq_true, decide_true, if_true]
      simp only [Dict.get?, List.find?_cons]
      by_cases hq : p.1 = k'
      · simp [hq]
      · simp only [hq, decide_false]
        exact ih

/-- removing an object (found under its name) keeps a registry consistent -/
theorem regOK_erase (l : List Nat) (d : Dict κ) (nm : Nat → κ) (k : κ) (i : Nat)
    (h : regOK l d nm = true) (hk : Dict.get? d k = some i) : regOK (l.erase i) (Dict.del d k) nm = true := by
  simp only [regOK, Bool.and_eq_true, decide_eq_true_eq, List.all_eq_true, beq_iff_eq, List.contains_eq_mem] at h ⊢
  obtain ⟨⟨⟨⟨h1, h2⟩, h3⟩, h4⟩, h5⟩ := h
  have hmem := Dict.get?_mem hk
  have hi := h5 _ hmem
  simp only at hi
  have hil : i ∈ l := hi.1
  have hnm : nm i = k := hi.2
  have herase : l.erase i = l.filter (· != i) := by
    rw [List.Nodup.erase_eq_filter h1]
  have hinj : ∀ j ∈ l, nm j = k → j = i := by
    intro j hj e
    have := h4 j hj
    rw [e, hk] at this
    exact (Option.some.inj this).symm
  refine ⟨⟨⟨⟨?_, ?_⟩, ?_⟩, ?_⟩, ?_⟩
  · exact h1.sublist (List.erase_sublist)
  · exact h2.sublist (List.Sublist.map _ List.erase_sublist)
  · exact h3.sublist (List.Sublist.map _ List.filter_sublist)
  · intro j hj
    have hjl : j ∈ l := List.mem_of_mem_erase hj
    have hji : j ≠ i := by
      intro e; subst e
      exact (List.Nodup.not_mem_erase h1) hj
    rw [Dict.get?_del_ne d k (nm j) (fun e => hji (hinj j hjl e))]
    exact h4 j hjl
  · intro p hp
    simp only [Dict.del, List.mem_filter, ne_eq, decide_eq_true_eq] at hp
    have := h5 p hp.1
    refine ⟨?_, this.2⟩
    rw [herase, List.mem_filter]
    refine ⟨this.1, ?_⟩
    simp only [bne_iff_ne, ne_eq]
    intro e
    apply hp.2
    rw [← this.2, e, hnm]

end dict2
end Proofs.Geo

namespace Proofs.Geo
open Model.Geo Model.Geo.Geo Py

theorem listRemove_ok (l : List Nat) (i : Nat) (h : i ∈ l) : listRemove l i = .ok (l.erase i) := by
  simp [listRemove, h]

theorem regOK_mem {κ} [DecidableEq κ] {l : List Nat} {d : Dict κ} {nm : Nat → κ} {k : κ} {i : Nat}
    (h : regOK l d nm = true) (hk : Dict.get? d k = some i) : i ∈ l := by
  simp only [regOK, Bool.and_eq_true, decide_eq_true_eq, List.all_eq_true, beq_iff_eq, List.contains_eq_mem] at h
  exact (h.2 _ (Dict.get?_mem hk)).1

/-- `delete_well` keeps the whole invariant -/
theorem deleteWell_geoInv0 (g g' : Geo) (name : Name) (hd : g.deleteWell name = .ok g') (h : g.geoInv0 = true) :
    g'.geoInv0 = true := by
  unfold deleteWell at hd
  cases hk : g.wellD.get? name with
  | none => rw [hk] at hd; cases hd
  | some i =>
    rw [hk] at hd
    simp only [geoInv0, Bool.and_eq_true] at h
    obtain ⟨⟨⟨⟨⟨⟨hh, hr⟩, hnc⟩, hcc⟩, hnb⟩, hcn⟩, ho⟩ := h
    have hr' := hr
    simp only [registriesOK, Bool.and_eq_true] at hr'
    have hil := regOK_mem hr'.1.2 hk
    simp only [listRemove_ok _ _ hil, bind, Except.bind, pure, Except.pure, Except.ok.injEq] at hd
    subst hd
    simp only [geoInv0, Bool.and_eq_true]
    refine ⟨⟨⟨⟨⟨⟨?_, ?_⟩, hnc⟩, hcc⟩, hnb⟩, hcn⟩, ho⟩
    · simp only [heapOK, Bool.and_eq_true] at hh ⊢
      refine ⟨hh.1, ?_⟩
      simp only [List.all_eq_true, decide_eq_true_eq] at hh ⊢
      intro j hj; exact hh.2 j (List.mem_of_mem_erase hj)
    · simp only [registriesOK, Bool.and_eq_true]
      exact ⟨⟨hr'.1.1, regOK_erase _ _ _ _ _ hr'.1.2 hk⟩, hr'.2⟩

/-- `delete_layer` keeps the structural invariant -/
theorem deleteLayer_geoInv0 (g g' : Geo) (name : Name) (hd : g.deleteLayer name = .ok g') (h : g.geoInv0 = true) :
    g'.geoInv0 = true := by
  unfold deleteLayer at hd
  cases hk : g.layerD.get? name with
  | none => rw [hk] at hd; cases hd
  | some i =>
    rw [hk] at hd
    simp only [geoInv0, Bool.and_eq_true] at h
    obtain ⟨⟨⟨⟨⟨⟨hh, hr⟩, hnc⟩, hcc⟩, hnb⟩, hcn⟩, ho⟩ := h
    have hr' := hr
    simp only [registriesOK, Bool.and_eq_true] at hr'
    have hil := regOK_mem hr'.1.1.2 hk
    simp only [listRemove_ok _ _ hil, bind, Except.bind, pure, Except.pure, Except.ok.injEq] at hd
    subst hd
    simp only [geoInv0, Bool.and_eq_true]
    refine ⟨⟨⟨⟨⟨⟨?_, ?_⟩, hnc⟩, hcc⟩, hnb⟩, hcn⟩, ho⟩
    · simp only [heapOK, Bool.and_eq_true] at hh ⊢
      refine ⟨⟨hh.1.1, ?_⟩, hh.2⟩
      simp only [List.all_eq_true, decide_eq_true_eq] at hh ⊢
      intro j hj; exact hh.1.2 j (List.mem_of_mem_erase hj)
    · simp only [registriesOK, Bool.and_eq_true]
      exact ⟨⟨⟨hr'.1.1.1, regOK_erase _ _ _ _ _ hr'.1.1.2 hk⟩, hr'.1.2⟩, hr'.2⟩

/-- `delete_node` of a node that no column uses keeps the whole invariant -/
theorem deleteNode_geoInv0 (g g' : Geo) (name : Name) (hd : g.deleteNode name = .ok g')
    (hunused : ∀ i, g.nodeD.get? name = some i → ∀ c ∈ g.columnlist, i ∉ (g.col c).nodes)
    (h : g.geoInv0 = true) : g'.geoInv0 = true := by
  unfold deleteNode at hd
  cases hk : g.nodeD.get? name with
  | none => rw [hk] at hd; cases hd
  | some i =>
    rw [hk] at hd
    simp only [geoInv0, Bool.and_eq_true] at h
    obtain ⟨⟨⟨⟨⟨⟨hh, hr⟩, hnc⟩, hcc⟩, hnb⟩, hcn⟩, ho⟩ := h
    have hr' := hr
    simp only [registriesOK, Bool.and_eq_true] at hr'
    have hil := regOK_mem hr'.1.1.1.1 hk
    have hnd := nodelist_nodup hr
    simp only [listRemove_ok _ _ hil, bind, Except.bind, pure, Except.pure, Except.ok.injEq] at hd
    subst hd
    simp only [geoInv0, Bool.and_eq_true]
    refine ⟨⟨⟨⟨⟨⟨?_, ?_⟩, ?_⟩, hcc⟩, hnb⟩, hcn⟩, ho⟩
    · simp only [heapOK, Bool.and_eq_true] at hh ⊢
      refine ⟨⟨⟨⟨?_, hh.1.1.1.2⟩, hh.1.1.2⟩, hh.1.2⟩, hh.2⟩
      simp only [List.all_eq_true, decide_eq_true_eq] at hh ⊢
      intro j hj; exact hh.1.1.1.1 j (List.mem_of_mem_erase hj)
    · simp only [registriesOK, Bool.and_eq_true]
      exact ⟨⟨⟨⟨regOK_erase _ _ _ _ _ hr'.1.1.1.1 hk, hr'.1.1.1.2⟩, hr'.1.1.2⟩, hr'.1.2⟩, hr'.2⟩
    · simp only [nodeColsOK, Bool.and_eq_true, List.all_eq_true, List.contains_eq_mem, decide_eq_true_eq,
        Bool.or_eq_true, Bool.not_eq_true'] at hnc ⊢
      refine ⟨?_, ?_⟩
      · intro c hc n hn'
        have hnl := hnc.1 c hc n hn'
        have : n ≠ i := fun e => hunused i hk c hc (e ▸ hn')
        exact (List.mem_erase_of_ne this).mpr hnl
      · intro n hn'; exact hnc.2 n (List.mem_of_mem_erase hn')

end Proofs.Geo

namespace Proofs.Geo
open Model.Geo Model.Geo.Geo Py

theorem addWell_geoInv (g : Geo) (w : Well) (h : g.geoInv = true) : (g.addWell w).geoInv = true := by
  simp only [geoInv, Bool.and_eq_true] at h ⊢
  refine ⟨⟨addWell_geoInv0 g w h.1.1, ?_⟩, ?_⟩
  · rw [addWell_eq]; split
    · exact h.1.2
    · exact h.1.2
  · rw [addWell_eq]; split
    · exact h.2
    · exact h.2

theorem deleteWell_geoInv (g g' : Geo) (name : Name) (hd : g.deleteWell name = .ok g') (h : g.geoInv = true) :
    g'.geoInv = true := by
  simp only [geoInv, Bool.and_eq_true] at h ⊢
  refine ⟨⟨deleteWell_geoInv0 g g' name hd h.1.1, ?_⟩, ?_⟩
  all_goals
    unfold deleteWell at hd
    cases hk : g.wellD.get? name with
    | none => rw [hk] at hd; cases hd
    | some i =>
      rw [hk] at hd
      obtain ⟨l, _, hd⟩ := bind_ok hd
      simp only [pure, Except.pure, Except.ok.injEq] at hd
      subst hd
      first | exact h.1.2 | exact h.2

theorem deleteNode_geoInv (g g' : Geo) (name : Name) (hd : g.deleteNode name = .ok g')
    (hunused : ∀ i, g.nodeD.get? name = some i → ∀ c ∈ g.columnlist, i ∉ (g.col c).nodes)
    (h : g.geoInv = true) : g'.geoInv = true := by
  simp only [geoInv, Bool.and_eq_true] at h ⊢
  refine ⟨⟨deleteNode_geoInv0 g g' name hd hunused h.1.1, ?_⟩, ?_⟩
  all_goals
    unfold deleteNode at hd
    cases hk : g.nodeD.get? name with
    | none => rw [hk] at hd; cases hd
    | some i =>
      rw [hk] at hd
      obtain ⟨l, _, hd⟩ := bind_ok hd
      simp only [pure, Except.pure, Except.ok.injEq] at hd
      subst hd
      first | exact h.1.2 | exact h.2

end Proofs.Geo
