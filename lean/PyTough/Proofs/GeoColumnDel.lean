/-
  `delete_column` preserves the structural invariant.
-/
import PyTough.Proofs.GeoColumn
namespace Proofs.Geo
open Model.Geo Model.Geo.Geo Py

/-- what a successful `delete_connection` did -/
theorem deleteConnection_spec (g g' : Geo) (names : Name × Name) (hd : g.deleteConnection names = .ok g')
    (h : g.geoInv0 = true) :
    ∃ i, g.connD.get? names = some i ∧ i ∈ g.connlist ∧ g' = g.delConn names i ∧
      (g.con i).c0 ≠ (g.con i).c1 ∧ (g.con i).c0 < g.C.size ∧ (g.con i).c1 < g.C.size := by
  simp only [geoInv0, Bool.and_eq_true] at h
  obtain ⟨⟨⟨⟨⟨⟨hh, hr⟩, hnc⟩, hcc⟩, hnb⟩, hcn⟩, ho⟩ := h
  have hr' := hr
  simp only [registriesOK, Bool.and_eq_true] at hr'
  unfold deleteConnection at hd
  cases hk : g.connD.get? names with
  | none => rw [hk] at hd; cases hd
  | some i =>
    rw [hk] at hd
    simp only at hd
    have hil : i ∈ g.connlist := regOK_mem hr'.2 hk
    have hcc' := (colConsOK_iff g).mp hcc
    have h0 := heapOK_cols hh _ (hcc'.1 i hil).1
    have h1 := heapOK_cols hh _ (hcc'.1 i hil).2
    split at hd
    · cases hd
    · split at hd
      · cases hd
      · rename_i hc1
        split at hd
        · cases hd
        · simp only [Except.ok.injEq] at hd
          have hne : (g.con i).c0 ≠ (g.con i).c1 := by
            intro e
            rw [← e, updCol_col _ _ _ _ h0, if_pos rfl] at hc1
            simp [rmCon] at hc1
          exact ⟨i, rfl, hil, hd.symm, hne, h0, h1⟩

/-- the key under which a connection of a consistent geometry is stored finds it -/
theorem get?_conKey {g : Geo} (hr : g.registriesOK = true) (k : Nat) (hk : k ∈ g.connlist) :
    g.connD.get? (g.conKey k) = some k := by
  simp only [registriesOK, Bool.and_eq_true] at hr
  have := hr.2
  simp only [regOK, Bool.and_eq_true, decide_eq_true_eq, List.all_eq_true, beq_iff_eq, List.contains_eq_mem] at this
  exact this.1.2 k hk

end Proofs.Geo

namespace Proofs.Geo
open Model.Geo Model.Geo.Geo Py

/-- everything `delete_connection` leaves alone -/
structure ConnFrame (g g' : Geo) : Prop where
  columnlist : g'.columnlist = g.columnlist
  columnD : g'.columnD = g.columnD
  nodelist : g'.nodelist = g.nodelist
  nodeD : g'.nodeD = g.nodeD
  N : g'.N = g.N
  K : g'.K = g.K
  L : g'.L = g.L
  W : g'.W = g.W
  layerlist : g'.layerlist = g.layerlist
  layerD : g'.layerD = g.layerD
  welllist : g'.welllist = g.welllist
  wellD : g'.wellD = g.wellD
  Csize : g'.C.size = g.C.size
  colName : ∀ j, (g'.col j).name = (g.col j).name
  colNodes : ∀ j, (g'.col j).nodes = (g.col j).nodes

theorem ConnFrame.refl (g : Geo) : ConnFrame g g :=
  ⟨rfl, rfl, rfl, rfl, rfl, rfl, rfl, rfl, rfl, rfl, rfl, rfl, rfl, fun _ => rfl, fun _ => rfl⟩

theorem ConnFrame.trans {a b c : Geo} (h1 : ConnFrame a b) (h2 : ConnFrame b c) : ConnFrame a c where
  columnlist := h2.columnlist.trans h1.columnlist
  columnD := h2.columnD.trans h1.columnD
  nodelist := h2.nodelist.trans h1.nodelist
  nodeD := h2.nodeD.trans h1.nodeD
  N := h2.N.trans h1.N
  K := h2.K.trans h1.K
  L := h2.L.trans h1.L
  W := h2.W.trans h1.W
  layerlist := h2.layerlist.trans h1.layerlist
  layerD := h2.layerD.trans h1.layerD
  welllist := h2.welllist.trans h1.welllist
  wellD := h2.wellD.trans h1.wellD
  Csize := h2.Csize.trans h1.Csize
  colName := fun j => (h2.colName j).trans (h1.colName j)
  colNodes := fun j => (h2.colNodes j).trans (h1.colNodes j)

theorem delConn_frame (g : Geo) (names : Name × Name) (i : Nat)
    (h0 : (g.con i).c0 < g.C.size) (h1 : (g.con i).c1 < g.C.size) (hne : (g.con i).c0 ≠ (g.con i).c1) :
    ConnFrame g (g.delConn names i) := by
  have hcolF := delConn_col g names i h0 h1 hne
  refine ⟨rfl, rfl, rfl, rfl, rfl, rfl, rfl, rfl, rfl, rfl, rfl, rfl, ?_, ?_, ?_⟩
  · simp only [delConn]; split <;> simp
  · intro j; rw [hcolF]; split
    · rfl
    · split <;> rfl
  · intro j; rw [hcolF]; split
    · rfl
    · split <;> rfl

/-- deleting a duplicate-free list of connections of the geometry, one after the other (the loop at the head of
    `delete_column`) -/
theorem deleteConns_fold : ∀ (ks : List Nat) (g g1 : Geo),
    ks.foldlM (fun (g : Geo) k => g.deleteConnection (g.conKey k)) g = .ok g1 →
    g.geoInv0 = true → ks.Nodup → (∀ k ∈ ks, k ∈ g.connlist) →
    g1.geoInv0 = true ∧ ConnFrame g g1 ∧ (∀ k, k ∈ g1.connlist ↔ k ∈ g.connlist ∧ k ∉ ks)
  | [], g, g1, hf, h, _, _ => by
    simp only [List.foldlM_nil, pure, Except.pure, Except.ok.injEq] at hf
    subst hf
    exact ⟨h, ConnFrame.refl g, fun k => by simp⟩
  | k :: t, g, g1, hf, h, hnd, hin => by
    simp only [List.foldlM_cons] at hf
    obtain ⟨g2, h2, hf'⟩ := bind_ok hf
    obtain ⟨i, hget, hil, he, hne, h0, h1⟩ := deleteConnection_spec g g2 _ h2 h
    have hr : g.registriesOK = true := by
      simp only [geoInv0, Bool.and_eq_true] at h; exact h.1.1.1.1.1.2
    have hik : i = k := by
      have := get?_conKey hr k (hin k List.mem_cons_self)
      rw [this] at hget; exact (Option.some.inj hget).symm
    subst hik
    have hg2 := deleteConnection_geoInv0 g g2 _ h2 h
    have hfr := delConn_frame g (g.conKey i) i h0 h1 hne
    rw [← he] at hfr
    have hnd' := List.nodup_cons.mp hnd
    have hmem2 : ∀ k', k' ∈ g2.connlist ↔ k' ∈ g.connlist ∧ k' ≠ i := by
      intro k'
      rw [he]
      show k' ∈ g.connlist.erase i ↔ _
      rw [List.Nodup.mem_erase_iff (connlist_nodup hr)]; exact and_comm
    have ih := deleteConns_fold t g2 g1 (by
        have : (fun (g : Geo) k => g.deleteConnection (g.conKey k)) = fun (g : Geo) k => g.deleteConnection (g.conKey k) := rfl
        exact hf') hg2 hnd'.2
      (by intro k' hk'; exact (hmem2 k').mpr ⟨hin k' (List.mem_cons_of_mem _ hk'), fun e => hnd'.1 (e ▸ hk')⟩)
    refine ⟨ih.1, hfr.trans ih.2.1, ?_⟩
    intro k'
    rw [ih.2.2 k', hmem2 k']
    simp only [List.mem_cons, not_or]
    constructor
    · rintro ⟨⟨a, b⟩, c⟩; exact ⟨a, b, c⟩
    · rintro ⟨a, b, c⟩; exact ⟨⟨a, b⟩, c⟩

end Proofs.Geo

namespace Proofs.Geo
open Model.Geo Model.Geo.Geo Py

theorem updNode_node (g : Geo) (n : Nat) (f : Node → Node) (j : Nat) (h : n < g.N.size) :
    (g.updNode n f).node j = if n = j then f (g.node j) else g.node j := by
  simp only [Geo.node, updNode]; exact getElem!_modify _ _ _ _ h

/-- the loop `for node in col.node: node.column.remove(col)` of `delete_column` -/
theorem removeCols_fold (i : Nat) : ∀ (nodes : List Nat) (g g3 : Geo),
    nodes.foldlM (fun (g : Geo) n => do
      let s ← setRemove (g.node n).cols i
      pure (g.updNode n fun nd => { nd with cols := s })) g = .ok g3 →
    (∀ m ∈ nodes, m < g.N.size) →
    (∃ N', g3 = { g with N := N' } ∧ N'.size = g.N.size) ∧
    (∀ n, (g3.node n).name = (g.node n).name ∧ (g3.node n).pos = (g.node n).pos) ∧
    (∀ n y, y ∈ (g3.node n).cols ↔ y ∈ (g.node n).cols ∧ (y ≠ i ∨ n ∉ nodes))
  | [], g, g3, hf, _ => by
    simp only [List.foldlM_nil, pure, Except.pure, Except.ok.injEq] at hf
    subst hf
    exact ⟨⟨g.N, rfl, rfl⟩, fun _ => ⟨rfl, rfl⟩, fun n y => by simp⟩
  | m :: t, g, g3, hf, hb => by
    simp only [List.foldlM_cons] at hf
    obtain ⟨g2, h2, hf'⟩ := bind_ok hf
    obtain ⟨s, hs, h2'⟩ := bind_ok h2
    simp only [pure, Except.pure, Except.ok.injEq] at h2'
    subst h2'
    have hm : m < g.N.size := hb m List.mem_cons_self
    have hs' : s = (g.node m).cols.filter (· != i) := by
      unfold setRemove at hs
      split at hs
      · simp only [Except.ok.injEq] at hs; exact hs.symm
      · cases hs
    have ih := removeCols_fold i t _ g3 hf' (by
      intro x hx; simp only [updNode, Array.size_modify]; exact hb x (List.mem_cons_of_mem _ hx))
    obtain ⟨⟨N', hN', hsz⟩, hnp, hmem⟩ := ih
    refine ⟨⟨N', ?_, ?_⟩, ?_, ?_⟩
    · rw [hN']; rfl
    · rw [hsz]; simp [updNode]
    · intro n
      rw [(hnp n).1, (hnp n).2, updNode_node _ _ _ _ hm]
      split <;> exact ⟨rfl, rfl⟩
    · intro n y
      rw [hmem n y, updNode_node _ _ _ _ hm]
      by_cases e : m = n
      · subst e
        simp only [if_true, hs', List.mem_filter, bne_iff_ne, ne_eq, List.mem_cons, true_or, not_true_eq_false,
          or_false]
        constructor
        · rintro ⟨⟨a, b⟩, _⟩; exact ⟨a, b⟩
        · rintro ⟨a, b⟩; exact ⟨⟨a, b⟩, Or.inl b⟩
      · simp only [e, if_false, List.mem_cons]
        constructor
        · rintro ⟨a, b | b⟩
          · exact ⟨a, Or.inl b⟩
          · exact ⟨a, Or.inr (by rintro (h | h); exact e h.symm; exact b h)⟩
        · rintro ⟨a, b | b⟩
          · exact ⟨a, Or.inl b⟩
          · exact ⟨a, Or.inr (fun h => b (Or.inr h))⟩

end Proofs.Geo

namespace Proofs.Geo
open Model.Geo Model.Geo.Geo Py

theorem columnD_regOK {g : Geo} (h : g.registriesOK = true) :
    regOK g.columnlist g.columnD (fun i => (g.col i).name) = true := by
  simp only [registriesOK, Bool.and_eq_true] at h
  exact h.1.1.1.2

/-- `delete_column(colname)`: its connections go (with their back-references and neighbour entries), its nodes
    forget it, the dictionary and the list lose it: the structural invariant is kept -/
theorem deleteColumn_geoInv0 (g g' : Geo) (name : Name) (hd : g.deleteColumn name = .ok g')
    (h : g.geoInv0 = true) : g'.geoInv0 = true := by
  unfold deleteColumn at hd
  cases hk : g.columnD.get? name with
  | none => rw [hk] at hd; cases hd
  | some i =>
    rw [hk] at hd
    simp only at hd
    obtain ⟨g1, hf1, hd⟩ := bind_ok hd
    have hr0 : g.registriesOK = true := by
      simp only [geoInv0, Bool.and_eq_true] at h; exact h.1.1.1.1.1.2
    have hil : i ∈ g.columnlist := regOK_mem (columnD_regOK hr0) hk
    -- step 1: the connections of the column
    have hnd : (g.connlist.filter fun k => (g.con k).c0 = i || (g.con k).c1 = i).Nodup :=
      (connlist_nodup hr0).sublist List.filter_sublist
    obtain ⟨h1, hfr, hmem1⟩ := deleteConns_fold _ g g1 hf1 h hnd (fun k hk' => (List.mem_filter.mp hk').1)
    have hcon1 : ∀ k, g1.con k = g.con k := by intro k; simp only [Geo.con, hfr.K]
    have hnotouch : ∀ k ∈ g1.connlist, (g1.con k).c0 ≠ i ∧ (g1.con k).c1 ≠ i := by
      intro k hk'
      have := (hmem1 k).mp hk'
      rw [hcon1]
      have hnf : ¬((g.con k).c0 = i ∨ (g.con k).c1 = i) := by
        intro hor
        apply this.2
        exact List.mem_filter.mpr ⟨this.1, by simpa using hor⟩
      exact ⟨fun e => hnf (Or.inl e), fun e => hnf (Or.inr e)⟩
    simp only [geoInv0, Bool.and_eq_true] at h1
    obtain ⟨⟨⟨⟨⟨⟨hh, hr⟩, hnc⟩, hcc⟩, hnb⟩, hcn⟩, ho⟩ := h1
    have hil1 : i ∈ g1.columnlist := by rw [hfr.columnlist]; exact hil
    -- step 2: the neighbour loop has nothing left to do
    have hnb' := (nbrsOK_iff g1).mp hnb
    have hnbrs : (g1.col i).nbrs = [] := by
      apply List.eq_nil_iff_forall_not_mem.mpr
      intro d hdm
      obtain ⟨k, hk', hor⟩ := (joined_iff g1 i d).mp ((hnb' i hil1).1 d hdm)
      rcases hor with ⟨e, _⟩ | ⟨_, e⟩
      · exact (hnotouch k hk').1 e
      · exact (hnotouch k hk').2 e
    rw [hnbrs] at hd
    simp only [List.foldlM_nil, pure_bind] at hd
    -- step 3: the nodes forget the column
    obtain ⟨g3, hf3, hd⟩ := bind_ok hd
    have hnodesIn := nodeColsOK_nodes hnc
    have hnlt := heapOK_nodes hh
    obtain ⟨⟨N', hg3, hNsz⟩, hnp, hcols3⟩ := removeCols_fold i _ g1 g3 hf3
      (fun m hm => hnlt m (hnodesIn i hil1 m hm))
    -- step 4: dictionary and list
    have hil3 : i ∈ g3.columnlist := by rw [hg3]; exact hil1
    simp only [listRemove_ok _ _ hil3, bind, Except.bind, pure, Except.pure, Except.ok.injEq] at hd
    subst hd
    subst hg3
    have hclt := heapOK_cols hh
    have hcc' := (colConsOK_iff g1).mp hcc
    have hcnd := columnlist_nodup hr
    have hmemc : ∀ c, c ∈ g1.columnlist.erase i ↔ c ∈ g1.columnlist ∧ c ≠ i := by
      intro c; rw [List.Nodup.mem_erase_iff hcnd]; exact and_comm
    have hr' := hr
    simp only [registriesOK, Bool.and_eq_true] at hr'
    have hkey : name = (g1.col i).name := by
      have hk1 : g1.columnD.get? name = some i := by rw [hfr.columnD]; exact hk
      exact (regOK_key hr'.1.1.1.2 hk1).symm
    simp only [geoInv0, Bool.and_eq_true]
    refine ⟨⟨⟨⟨⟨⟨?_, ?_⟩, ?_⟩, ?_⟩, ?_⟩, ?_⟩, ?_⟩
    · -- heapOK
      simp only [heapOK, Bool.and_eq_true, List.all_eq_true, decide_eq_true_eq] at hh ⊢
      refine ⟨⟨⟨⟨?_, ?_⟩, hh.1.1.2⟩, hh.1.2⟩, hh.2⟩
      · intro n hn; show n < N'.size; rw [hNsz]; exact hh.1.1.1.1 n hn
      · intro c hc; exact hh.1.1.1.2 c ((hmemc c).mp hc).1
    · -- registries
      simp only [registriesOK, Bool.and_eq_true]
      refine ⟨⟨⟨⟨?_, ?_⟩, hr'.1.1.2⟩, hr'.1.2⟩, hr'.2⟩
      · apply regOK_congr g1.nodelist g1.nodeD (fun n => (g1.node n).name) _ _ hr'.1.1.1.1
        intro n _; exact (hnp n).1
      · have hk1 : g1.columnD.get? name = some i := by rw [hfr.columnD]; exact hk
        exact regOK_erase _ _ _ _ _ hr'.1.1.1.2 hk1
    · -- nodeColsOK
      simp only [nodeColsOK, Bool.and_eq_true, List.all_eq_true, List.contains_eq_mem, decide_eq_true_eq,
        Bool.or_eq_true, Bool.not_eq_true', decide_eq_false_iff_not] at hnc ⊢
      refine ⟨?_, ?_⟩
      · intro c hc n hn; exact hnc.1 c ((hmemc c).mp hc).1 n hn
      · intro n hn
        refine ⟨?_, ?_⟩
        · intro y hy
          have hy' := (hcols3 n y).mp hy
          have old := (hnc.2 n hn).1 y hy'.1
          refine ⟨(hmemc y).mpr ⟨old.1, ?_⟩, old.2⟩
          intro e; subst e
          rcases hy'.2 with h' | h'
          · exact h' rfl
          · exact h' old.2
        · intro c hc
          have hc' := (hmemc c).mp hc
          rcases (hnc.2 n hn).2 c hc'.1 with h' | h'
          · exact Or.inl h'
          · exact Or.inr ((hcols3 n c).mpr ⟨h', Or.inl hc'.2⟩)
    · -- colConsOK
      rw [colConsOK_iff]
      refine ⟨?_, ?_⟩
      · intro k hk'
        exact ⟨(hmemc _).mpr ⟨(hcc'.1 k hk').1, (hnotouch k hk').1⟩, (hmemc _).mpr ⟨(hcc'.1 k hk').2, (hnotouch k hk').2⟩⟩
      · intro c hc; exact hcc'.2 c ((hmemc c).mp hc).1
    · -- nbrsOK
      rw [nbrsOK_iff]
      intro c hc
      have hc' := (hmemc c).mp hc
      refine ⟨(hnb' c hc'.1).1, ?_⟩
      intro d hdm hj
      exact (hnb' c hc'.1).2 d ((hmemc d).mp hdm).1 hj
    · -- conNodesOK
      exact hcn
    · -- orientOK
      simp only [orientOK, List.all_eq_true, Bool.and_eq_true, decide_eq_true_eq] at ho ⊢
      intro c hc
      have hc' := (hmemc c).mp hc
      have hp : ({ g1 with N := N' } : Geo).polygon (g1.col c).nodes = g1.polygon (g1.col c).nodes := by
        simp only [Geo.polygon]
        apply List.map_congr_left
        intro n _
        exact (hnp n).2
      show 0 < shoelace2 (({ g1 with N := N' } : Geo).polygon (g1.col c).nodes) ∧ _
      rw [hp]; exact ho c hc'.1

end Proofs.Geo
