/-
  The table-reading loop of read_table_AUTOUGH2 (Model/ListingFile.lean) over the lines of one printed table:
  the loop runs until the line whose columns 1..5 are the table's keyword (`EEEEE`, `CCCCC`, `GGGGG`), stores the
  values of the k-th data line in row k, and one more line is read behind the terminator.  Core Lean only.
-/
import PyTough.Proofs.ListingWhole
namespace Proofs.Whole
open Py Model Model.Listing Proofs.Listing

/-- what one printed data line contributes: the values `read_table_line_AUTOUGH2` splits out of it, one per column;
    `none` when the real code would raise on this line (or numpy would broadcast a single value) -/
def rowOfLineA (nc : Nat) (start : Option Int) (d : Str) : Option (List FVal) :=
  match readTableLineAUTOUGH2 d start with
  | .ok vals => if vals.length = nc then some vals else none
  | .error _ => none

/-- rows `r, r+1, …` receive the values of consecutive data lines -/
def enumRows (r : Nat) : List (List FVal) → List (Nat × List FVal)
  | [] => []
  | v :: more => (r, v) :: enumRows (r + 1) more

theorem enumRows_ge (r : Nat) (vs : List (List FVal)) : ∀ u ∈ enumRows r vs, r ≤ u.1 ∧ u.1 < r + vs.length := by
  induction vs generalizing r with
  | nil => intro u hu; cases hu
  | cons v more ih =>
    intro u hu
    simp only [enumRows, List.mem_cons] at hu
    rcases hu with rfl | hu
    · simp
    · have := ih (r + 1) u hu
      simp only [List.length_cons]; omega

/-- row `r + j` holds the values of the `j`-th data line -/
theorem applyRows_enum (data : Array (Array FVal)) (r : Nat) (vs : List (List FVal)) (j : Nat) (v : List FVal)
    (hj : vs[j]? = some v) (hsz : r + vs.length ≤ data.size) :
    (applyRows data (enumRows r vs))[r + j]? = some v.toArray := by
  induction vs generalizing data r j with
  | nil => cases hj
  | cons v0 more ih =>
    cases j with
    | zero =>
      simp only [List.getElem?_cons_zero, Option.some.injEq] at hj
      subst hj
      simp only [enumRows, Nat.add_zero]
      have := applyRows_last data [] (enumRows (r + 1) more) r v0 (by simp only [List.length_cons] at hsz; omega)
        (fun u hu => by have := (enumRows_ge (r + 1) more u hu).1; omega)
      simpa using this
    | succ k =>
      simp only [List.getElem?_cons_succ] at hj
      simp only [enumRows, applyRows]
      have := ih (data.set! r v0.toArray) (r + 1) k hj (by
        simp only [Array.set!_eq_setIfInBounds, Array.size_setIfInBounds]
        simp only [List.length_cons] at hsz; omega)
      have e : r + (k + 1) = r + 1 + k := by omega
      rw [e]; exact this

/-- rows outside `r … r + n - 1` keep what they held -/
theorem applyRows_enum_other (data : Array (Array FVal)) (r : Nat) (vs : List (List FVal)) (i : Nat)
    (h : i < r ∨ r + vs.length ≤ i) : (applyRows data (enumRows r vs))[i]? = data[i]? := by
  apply applyRows_untouched
  intro u hu
  have := enumRows_ge r vs u hu
  omega

theorem liftE_ok {α : Type} (v : α) (s : Rd) : (liftE (.ok v) : M α) s = .ok (v, s) := rfl

/-- the lines a `readline()` loop sees: the line in hand and the lines still in the file -/
theorem readline_headD (s : Rd) (L tail : List Str) (hne : L ≠ []) (h : s.pos.rest = L ++ tail) :
    readline s = .ok (L.headD [], { s with pos := ⟨s.pos.no + 1, L.tail ++ tail⟩ }) := by
  cases L with
  | nil => exact absurd rfl hne
  | cons l r => exact readline_cons s l (r ++ tail) h

theorem rowOfLineA_some {nc : Nat} {start : Option Int} {d : Str} (h : (rowOfLineA nc start d).isSome = true) :
    ∃ vals, readTableLineAUTOUGH2 d start = .ok vals ∧ vals.length = nc ∧ rowOfLineA nc start d = some vals := by
  unfold rowOfLineA at h ⊢
  split at h
  · rename_i vals hv
    split at h
    · rename_i hl
      exact ⟨vals, hv, hl, by simp [hl]⟩
    · cases h
  · cases h

theorem setRowAt_ok (t : Table) (i : Nat) (vals : List FVal) (hi : i < t.rows.size) (hl : vals.length = t.cols.length) :
    t.setRowAt i vals = .ok { t with data := t.data.set! i vals.toArray } := by
  unfold Table.setRowAt
  simp only
  rw [if_neg (by omega), if_pos hl]

/-- **the row loop of read_table_AUTOUGH2**: from the first data line in hand to the terminator line -/
theorem autLoop_run (start : Option Int) (kw : Str) (D : List Str) (term : Str) (tail : List Str)
    (fuel : Nat) (row : Nat) (t : Table) (s : Rd)
    (hfuel : D.length < fuel)
    (hD : ∀ d ∈ D, slice d 1 6 ≠ kw) (hterm : slice term 1 6 = kw)
    (hrest : s.pos.rest = (D ++ [term]).tail ++ tail)
    (hok : ∀ d ∈ D, (rowOfLineA t.cols.length start d).isSome = true)
    (hsz : row + D.length ≤ t.rows.size) :
    readTableAUTOUGH2.loop start kw fuel ((D ++ [term]).headD []) row t s
      = .ok ({ t with data := applyRows t.data (enumRows row (D.filterMap (rowOfLineA t.cols.length start))) },
             { s with pos := ⟨s.pos.no + D.length, tail⟩ }) := by
  induction D generalizing fuel row t s with
  | nil =>
    cases fuel with
    | zero => cases hfuel
    | succ f =>
      simp only [List.nil_append, List.headD_cons, List.tail_cons] at hrest ⊢
      unfold readTableAUTOUGH2.loop
      have hc : (slice term 1 6 != kw) = false := by simp [hterm]
      simp only [hc]
      have hs : s = { s with pos := ⟨s.pos.no + 0, tail⟩ } := by
        cases s with | mk _ _ pos => cases pos; simp_all
      simp only [List.length_nil, List.filterMap_nil, enumRows, applyRows]
      rw [← hs]
      rfl
  | cons d D' ih =>
    cases fuel with
    | zero => cases hfuel
    | succ f =>
      simp only [List.cons_append, List.headD_cons, List.tail_cons] at hrest ⊢
      unfold readTableAUTOUGH2.loop
      have hc : (slice d 1 6 != kw) = true := by simpa using hD d List.mem_cons_self
      simp only [hc, if_true]
      obtain ⟨vals, hv, hl, hf⟩ := rowOfLineA_some (hok d List.mem_cons_self)
      have hset := setRowAt_ok t row vals (by simp only [List.length_cons] at hsz; omega) hl
      rw [hv, bind_ok _ _ _ _ _ (liftE_ok vals s)]
      rw [hset, bind_ok _ _ _ _ _ (liftE_ok _ s)]
      rw [bind_ok _ _ _ _ _ (readline_headD s (D' ++ [term]) tail (by simp) hrest)]
      rw [ih f (row + 1) { t with data := t.data.set! row vals.toArray }
        { s with pos := ⟨s.pos.no + 1, (D' ++ [term]).tail ++ tail⟩ } (by simp only [List.length_cons] at hfuel; omega)
        (fun x hx => hD x (List.mem_cons_of_mem _ hx)) rfl
        (fun x hx => hok x (List.mem_cons_of_mem _ hx))
        (by simp only [List.length_cons] at hsz; simpa using (by omega : row + 1 + D'.length ≤ t.rows.size))]
      simp only [List.filterMap_cons, hf, enumRows, applyRows, List.length_cons]
      have e : s.pos.no + 1 + D'.length = s.pos.no + (D'.length + 1) := by omega
      rw [e]

/-! ### the walk from the table's keyword line to its first data line -/

theorem skipToBlankL_app (A : List Str) (b : Str) (r : List Str) (n : Nat)
    (hA : ∀ l ∈ A, isBlank l = false) (hb : isBlank b = true) :
    skipToBlankL (A ++ b :: r) n = ⟨n + A.length, b :: r⟩ := by
  induction A generalizing n with
  | nil => simp [skipToBlankL, hb]
  | cons a A' ih =>
    simp only [List.cons_append, skipToBlankL, hA a List.mem_cons_self]
    rw [ih (n + 1) (fun l hl => hA l (List.mem_cons_of_mem _ hl))]
    simp only [List.length_cons, Bool.false_eq_true, if_false]
    congr 1; omega

theorem skipToNonblankL_app (Bl : List Str) (l : Str) (r : List Str) (n : Nat)
    (hB : ∀ x ∈ Bl, isBlank x = true) (hl : isBlank l = false) :
    skipToNonblankL (Bl ++ l :: r) n = some ⟨n + Bl.length, l :: r⟩ := by
  induction Bl generalizing n with
  | nil => simp [skipToNonblankL, hl]
  | cons a B' ih =>
    simp only [List.cons_append, skipToNonblankL, hB a List.mem_cons_self, if_true]
    rw [ih (n + 1) (fun x hx => hB x (List.mem_cons_of_mem _ hx))]
    simp only [List.length_cons]
    congr 2; omega

theorem skipToBlank_run (s : Rd) : skipToBlank s = .ok ((), { s with pos := skipToBlankL s.pos.rest s.pos.no }) := by
  unfold skipToBlank liftC Cu.skipToBlank
  rfl

theorem skipToNonblank_run (s : Rd) (p : Pos) (h : skipToNonblankL s.pos.rest s.pos.no = some p) :
    skipToNonblank s = .ok ((), { s with pos := p }) := by
  unfold skipToNonblank liftC Cu.skipToNonblank
  simp only [bind, ReaderT.bind, StateT.bind, get, getThe, MonadStateOf.get, liftM, monadLift,
    MonadLift.monadLift, StateT.get, Except.bind, h, set, StateT.set, pure, Except.pure]

/-- `readline()` anywhere: the next line (`''` at end of file, where the position stays) -/
theorem readline_any (s : Rd) :
    readline s = .ok (s.pos.rest.headD [], { s with pos := ⟨s.pos.no + min 1 s.pos.rest.length, s.pos.rest.drop 1⟩ }) := by
  cases hr : s.pos.rest with
  | nil =>
    rw [readline_nil s hr]
    have : s = { s with pos := ⟨s.pos.no + min 1 ([] : List Str).length, ([] : List Str).drop 1⟩ } := by
      cases s with | mk _ _ pos => cases pos; simp_all
    rw [← this]; rfl
  | cons l r =>
    rw [readline_cons s l r hr]
    simp only [List.headD_cons, List.length_cons, List.drop_succ_cons, List.drop_zero]
    have : min 1 (r.length + 1) = 1 := by omega
    rw [this]

/-- the lines of an AUTOUGH2 table region, from the line behind the table's keyword line: the rest of the title
    block `A` (non-blank), a blank line `b`, the column header block `B` (non-blank), blank lines `b2 :: Bl`, the
    data lines `D`, the terminator `term`, then `tail` -/
def autRegion (A : List Str) (b : Str) (B : List Str) (b2 : Str) (Bl D : List Str) (term : Str) (tail : List Str) : List Str :=
  A ++ b :: (B ++ b2 :: (Bl ++ ((D ++ [term]) ++ tail)))

/-- **read_table_AUTOUGH2 on the lines of a printed table.** -/
theorem readTableAUTOUGH2_run (tn : String) (t : Table) (s : Rd)
    (A : List Str) (b : Str) (B : List Str) (b2 : Str) (Bl D : List Str) (term : Str) (tail : List Str)
    (ht : s.tables.lookup tn = some t)
    (hrest : s.pos.rest = autRegion A b B b2 Bl D term tail)
    (hA : ∀ l ∈ A, isBlank l = false) (hb : isBlank b = true)
    (hB : ∀ l ∈ B, isBlank l = false) (hb2 : isBlank b2 = true) (hBl : ∀ l ∈ Bl, isBlank l = true)
    (hfirst : isBlank ((D ++ [term]).headD []) = false)
    (hD : ∀ d ∈ D, slice d 1 6 ≠ keyword5 tn) (hterm : slice term 1 6 = keyword5 tn)
    (hok : ∀ d ∈ D, (rowOfLineA t.cols.length (t.numpos.headD none) d).isSome = true)
    (hsz : D.length ≤ t.rows.size) :
    readTableAUTOUGH2 tn s = .ok ((),
      { s with pos := ⟨s.pos.no + (A.length + 1 + B.length + 1 + Bl.length + D.length + 1 + min 1 tail.length), tail.drop 1⟩,
               tables := putT tn { t with data := applyRows t.data (enumRows 0 (D.filterMap (rowOfLineA t.cols.length (t.numpos.headD none)))) } s.tables }) := by
  unfold readTableAUTOUGH2 autRegion at *
  rw [bind_ok _ _ _ _ _ (getTable_ok tn t s ht)]
  rw [bind_ok _ _ _ _ _ (skipToBlank_run s)]
  rw [hrest, skipToBlankL_app A b _ _ hA hb]
  rw [bind_ok _ _ _ _ _ (readline_cons _ b _ rfl)]
  rw [bind_ok _ _ _ _ _ (skipToBlank_run _)]
  simp only
  rw [skipToBlankL_app B b2 _ _ hB hb2]
  have hL : (D ++ [term]) ++ tail = (D ++ [term]).headD [] :: ((D ++ [term]).tail ++ tail) := by
    cases D <;> simp
  rw [hL]
  rw [bind_ok _ _ _ _ _ (skipToNonblank_run _ _ (skipToNonblankL_app (b2 :: Bl) _ _ _
    (fun x hx => by rcases List.mem_cons.mp hx with rfl | h; exact hb2; exact hBl x h) hfirst))]
  rw [bind_ok _ _ _ _ _ (readline_cons _ _ _ rfl)]
  simp only [bind, StateT.bind, get, getThe, MonadStateOf.get, StateT.get, Except.bind, pure, Except.pure]
  rw [autLoop_run (t.numpos.headD none) (keyword5 tn) D term tail _ 0 t _ (by simp; omega) hD hterm rfl hok (by omega)]
  simp only
  rw [putTable_present _ _ _ (by simp [ht])]
  simp only
  rw [readline_any]
  simp only [StateT.pure, pure, Except.pure]
  congr 4
  simp only [List.length_cons]
  omega

theorem readUntilL_app (stop : Str → Bool) (eof : Bool) (X : List Str) (term : Str) (tail : List Str) (n : Nat)
    (hX : ∀ x ∈ X, stop x = false) (ht : stop term = true) :
    readUntilL stop eof (X ++ term :: tail) n = some (term, ⟨n + X.length + 1, tail⟩) := by
  induction X generalizing n with
  | nil => simp [readUntilL, ht]
  | cons a X' ih =>
    simp only [List.cons_append, readUntilL, hX a List.mem_cons_self, Bool.false_eq_true, if_false]
    rw [ih (n + 1) (fun x hx => hX x (List.mem_cons_of_mem _ hx))]
    simp only [List.length_cons]
    congr 3; omega

theorem readUntil_run (stop : Str → Bool) (eof : Bool) (s : Rd) (l : Str) (p : Pos)
    (h : readUntilL stop eof s.pos.rest s.pos.no = some (l, p)) :
    readUntil stop eof s = .ok (l, { s with pos := p }) := by
  unfold readUntil liftC Cu.readUntil
  simp only [bind, ReaderT.bind, StateT.bind, get, getThe, MonadStateOf.get, liftM, monadLift,
    MonadLift.monadLift, StateT.get, Except.bind, h, set, StateT.set, pure, Except.pure, ReaderT.pure, StateT.pure]

/-- **skip_table_AUTOUGH2 on the lines of the same printed table**: it ends where reading the table ends, provided
    no line between the first blank line and the terminator carries the keyword in columns 1..5 -/
theorem skipTableAUTOUGH2_run (tn : String) (s : Rd)
    (A : List Str) (b : Str) (B : List Str) (b2 : Str) (Bl D : List Str) (term : Str) (tail : List Str)
    (hrest : s.pos.rest = autRegion A b B b2 Bl D term tail)
    (hA : ∀ l ∈ A, isBlank l = false) (hb : isBlank b = true)
    (hhead : ∀ l ∈ b :: (B ++ b2 :: Bl), slice l 1 6 ≠ keyword5 tn)
    (hD : ∀ d ∈ D, slice d 1 6 ≠ keyword5 tn) (hterm : slice term 1 6 = keyword5 tn) :
    skipTableAUTOUGH2 tn s = .ok ((),
      { s with pos := ⟨s.pos.no + (A.length + 1 + B.length + 1 + Bl.length + D.length + 1 + min 1 tail.length), tail.drop 1⟩ }) := by
  unfold skipTableAUTOUGH2 autRegion at *
  rw [bind_ok _ _ _ _ _ (skipToBlank_run s)]
  rw [hrest, skipToBlankL_app A b _ _ hA hb]
  have hsplit : b :: (B ++ b2 :: (Bl ++ ((D ++ [term]) ++ tail))) = (b :: (B ++ b2 :: Bl) ++ D) ++ term :: tail := by simp
  rw [hsplit]
  rw [bind_ok _ _ _ _ _ (readUntil_run _ _ _ term _ (readUntilL_app _ false (b :: (B ++ b2 :: Bl) ++ D) term tail _
    (fun x hx => by
      have : slice x 1 6 ≠ keyword5 tn := by
        rcases List.mem_append.mp hx with h | h
        · exact hhead x h
        · exact hD x h
      simpa using this)
    (by simpa using hterm)))]
  simp only
  rw [bind_ok _ _ _ _ _ (readline_any _)]
  simp only [pure, StateT.pure, Except.pure]
  congr 4
  simp only [List.length_cons, List.length_append]
  omega

end Proofs.Whole
