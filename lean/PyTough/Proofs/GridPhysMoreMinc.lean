/-
  C09, second round: what `minc` leaves alone and how much it adds (frame and counts).
-/
import PyTough.Proofs.GridMincAll
namespace Proofs.Grid
open Py Model Model.Grid Model.Grid.World

/-- the selected name designates a block that `minc` processes (0 < V < atmos_volume) -/
def mincProcessed (w : World) (args : MincArgs) (n : Name) : Bool :=
  match dget w.block n with
  | some b => decide (0 < (w.bk b).volume ∧ (w.bk b).volume < args.atmosVolume)
  | none => false

theorem mem_mincChain (args : MincArgs) (V : Rat) (l : List Rat) : ∀ (m0 last base : Nat) (con : Con),
    con ∈ mincChain args V m0 last base l → base ≤ con.b1 ∧ (con.b0 = last ∨ base ≤ con.b0) := by
  induction l with
  | nil => intro _ _ _ con h; cases h
  | cons x r ih =>
    intro m0 last base con h
    simp only [mincChain, List.mem_cons] at h
    rcases h with h | h
    · subst h; exact ⟨Nat.le_refl _, Or.inl rfl⟩
    · obtain ⟨h1, h2⟩ := ih _ _ _ con h
      refine ⟨by omega, Or.inr ?_⟩
      rcases h2 with h2 | h2 <;> omega

/-- what the loop over the selected names needs to know about the names still to come -/
def NamesOK (args : MincArgs) (D : Dict Name Nat) (w : World) (proc : Name → Bool) (names : List Name) : Prop :=
  ∀ n ∈ names, ∃ b, dget w.block n = some b ∧
    (proc n = true ↔ (0 < (w.bk b).volume ∧ (w.bk b).volume < args.atmosVolume)) ∧ ∃ i0, dget D n = some i0

theorem namesOK_step (args : MincArgs) (D : Dict Name Nat) {w w4 : World} (proc : Name → Bool) {n : Name} {r : List Name} {b : Nat}
    (hI : Grid.Inv w) (hI4 : Grid.Inv w4) (hnd : (n :: r).Nodup) (hok : NamesOK args D w proc (n :: r))
    (hdb : dget w.block n = some b) {ext : List Nat} (a2 : w4.blocklist = w.blocklist ++ ext)
    (a4 : ∀ x, x < w.blks.length → (w4.bk x).name = (w.bk x).name ∧ (x ≠ b → (w4.bk x).volume = (w.bk x).volume)) :
    NamesOK args D w4 proc r ∧ ∀ n' ∈ r, dget w4.block n' = dget w.block n' := by
  have ⟨hnr, _⟩ := List.nodup_cons.mp hnd
  have hb := hI.bd_sound _ _ hdb
  have key : ∀ n' ∈ r, ∃ b', dget w.block n' = some b' ∧ dget w4.block n' = some b' ∧ (w4.bk b').volume = (w.bk b').volume := by
    intro n' hn'
    obtain ⟨b', hd', _⟩ := hok n' (List.mem_cons_of_mem _ hn')
    have hb' := hI.bd_sound _ _ hd'
    have hlt := hI.bl_lt b' hb'.1
    have hin : b' ∈ w4.blocklist := by rw [a2]; exact List.mem_append_left _ hb'.1
    have hnm : w4.bname b' = n' := by
      show (w4.bk b').name = n'; rw [(a4 b' hlt).1]; exact hb'.2
    have hne : b' ≠ b := by
      intro e; subst e
      have := hb'.2; rw [hb.2] at this
      exact hnr (this ▸ hn')
    exact ⟨b', hd', by rw [← hnm]; exact hI4.bd_complete b' hin, (a4 b' hlt).2 hne⟩
  refine ⟨?_, ?_⟩
  · intro n' hn'
    obtain ⟨b', hd', hd4, hv⟩ := key n' hn'
    obtain ⟨b'', hd'', hp, hi0⟩ := hok n' (List.mem_cons_of_mem _ hn')
    rw [hd'] at hd''; cases hd''
    exact ⟨b', hd4, by rw [hv]; exact hp, hi0⟩
  · intro n' hn'
    obtain ⟨b', hd', hd4, _⟩ := key n' hn'
    rw [hd', hd4]

/-- the loop over the selected names: what it appends, and nothing else -/
theorem mincBlocks_frame (args : MincArgs) (vf : List Rat) (D : Dict Name Nat) (N0 : Nat) (proc : Name → Bool) (names : List Name) :
    ∀ (w : World) (iblk : Nat) (cols : List (List Nat)) (w' : World) (cols' : List (List Nat)),
    Grid.Inv w → N0 ≤ w.blks.length → names.Nodup → NamesOK args D w proc names →
    mincBlocks args vf D w names iblk cols = .ok (w', cols') →
    w'.blocklist = w.blocklist ++ List.range' w.blks.length ((names.filter proc).length * (vf.drop 1).length) ∧
    w'.blks.length = w.blks.length + (names.filter proc).length * (vf.drop 1).length ∧
    w'.connectionlist = w.connectionlist ++ List.range' w.cons.length ((names.filter proc).length * (vf.drop 1).length) ∧
    ∃ ext, w'.cons = w.cons ++ ext ∧ ext.length = (names.filter proc).length * (vf.drop 1).length ∧
      ∀ con ∈ ext, N0 ≤ con.b1 ∧ (N0 ≤ con.b0 ∨ ∃ n ∈ names, proc n = true ∧ dget w.block n = some con.b0) := by
  induction names with
  | nil =>
    intro w iblk cols w' cols' _ _ _ _ hok
    simp only [mincBlocks, Except.ok.injEq, Prod.mk.injEq] at hok
    obtain ⟨rfl, rfl⟩ := hok
    simp
  | cons n r ih =>
    intro w iblk cols w' cols' hI hN hnd hnames hok
    have ⟨_, hr⟩ := List.nodup_cons.mp hnd
    obtain ⟨b, hdb, hproc, i0, hD⟩ := hnames n List.mem_cons_self
    have hb := hI.bd_sound _ _ hdb
    rw [mincBlocks_cons, hdb] at hok
    simp only [] at hok
    by_cases hcond : 0 < (w.bk b).volume ∧ (w.bk b).volume < args.atmosVolume
    · rw [if_pos hcond, hD] at hok
      simp only [] at hok
      have hp : proc n = true := hproc.mpr hcond
      cases h1 : mincOne args vf w n b i0 iblk with
      | error e => rw [h1] at hok; cases hok
      | ok q =>
        obtain ⟨w4, iblk2, col⟩ := q
        rw [h1] at hok
        simp only [] at hok
        obtain ⟨a1, a2, a3, a4, _, _, a7, a8, _, _⟩ := mincOne_spec args vf hI n hb.1 i0 iblk h1
        obtain ⟨hnames4, hlook⟩ := namesOK_step args D proc hI a1 hnd hnames hdb a2 a4
        have hclen : w4.cons.length = w.cons.length + (vf.drop 1).length := by
          rw [a8]; simp [length_mincChain]
        obtain ⟨c1, c2, c3, ext, c4, c5, c6⟩ := ih w4 iblk2 (cols ++ [col]) w' cols' a1 (by rw [a3]; omega) hr hnames4 hok
        have hK : ((n :: r).filter proc).length * (vf.drop 1).length =
            (vf.drop 1).length + (r.filter proc).length * (vf.drop 1).length := by
          rw [List.filter_cons_of_pos hp, List.length_cons, Nat.succ_mul, Nat.add_comm]
        rw [hK]
        refine ⟨?_, ?_, ?_, mincChain args (w.bk b).volume 0 b w.blks.length (vf.drop 1) ++ ext, ?_, ?_, ?_⟩
        · rw [c1, a2, a3, List.append_assoc, List.range'_append_1]
        · rw [c2, a3]; omega
        · rw [c3, a7, hclen, List.append_assoc, List.range'_append_1]
        · rw [c4, a8, List.append_assoc]
        · rw [List.length_append, length_mincChain, c5]
        · intro con hcon
          rcases List.mem_append.mp hcon with h | h
          · obtain ⟨m1, m2⟩ := mem_mincChain _ _ _ _ _ _ con h
            refine ⟨by omega, ?_⟩
            rcases m2 with m2 | m2
            · exact Or.inr ⟨n, List.mem_cons_self, hp, by rw [m2]; exact hdb⟩
            · exact Or.inl (by omega)
          · obtain ⟨m1, m2⟩ := c6 con h
            refine ⟨m1, ?_⟩
            rcases m2 with m2 | ⟨n', hn', hp', hd'⟩
            · exact Or.inl m2
            · exact Or.inr ⟨n', List.mem_cons_of_mem _ hn', hp', by rw [← hlook n' hn']; exact hd'⟩
    · rw [if_neg hcond] at hok
      have hp : ¬ proc n = true := fun h => hcond (hproc.mp h)
      have hnames' : NamesOK args D w proc r := fun n' hn' => hnames n' (List.mem_cons_of_mem _ hn')
      obtain ⟨c1, c2, c3, ext, c4, c5, c6⟩ := ih w iblk _ w' cols' hI hN hr hnames' hok
      rw [List.filter_cons_of_neg hp]
      refine ⟨c1, c2, c3, ext, c4, c5, ?_⟩
      intro con hcon
      obtain ⟨m1, m2⟩ := c6 con hcon
      refine ⟨m1, ?_⟩
      rcases m2 with m2 | ⟨n', hn', hp', hd'⟩
      · exact Or.inl m2
      · exact Or.inr ⟨n', List.mem_cons_of_mem _ hn', hp', hd'⟩

/-- **minc as a whole: frame and counts** -/
theorem minc_frame {w : World} (hI : Grid.Inv w) (args : MincArgs) {w' : World} {cols : List (List Nat)}
    (hok : minc w args = .ok (w', cols))
    (hnd : (if args.blocks.isEmpty then w.blocklist.map w.bname else args.blocks).Nodup)
    (hall : ∀ n ∈ (if args.blocks.isEmpty then w.blocklist.map w.bname else args.blocks), (dget w.block n).isSome) :
    let sel := if args.blocks.isEmpty then w.blocklist.map w.bname else args.blocks
    let K := (sel.filter (mincProcessed w args)).length * (args.fracs.length - 1)
    w'.blocklist = w.blocklist ++ List.range' w.blks.length K ∧
    w'.blks.length = w.blks.length + K ∧
    w'.connectionlist = w.connectionlist ++ List.range' w.cons.length K ∧
    ∃ ext, w'.cons = w.cons ++ ext ∧ ext.length = K ∧
      ∀ con ∈ ext, w.blks.length ≤ con.b1 ∧
        (w.blks.length ≤ con.b0 ∨ ∃ n ∈ sel, mincProcessed w args n = true ∧ dget w.block n = some con.b0) := by
  intro sel K
  unfold minc at hok
  by_cases h1 : args.fracs.length < 2
  · rw [if_pos h1] at hok; cases hok
  rw [if_neg h1] at hok
  simp only [] at hok
  by_cases h2 : sel.isEmpty = true
  · rw [if_pos h2] at hok; cases hok
  rw [if_neg h2] at hok
  have hnames : NamesOK args (blockIndexDict w) w (mincProcessed w args) sel := by
    intro n hn
    obtain ⟨b, hb⟩ := Option.isSome_iff_exists.mp (hall n hn)
    have hb' := hI.bd_sound _ _ hb
    obtain ⟨i, hi, hget⟩ := List.getElem_of_mem hb'.1
    have hpos : w.blocklist[i]? = some b := by rw [List.getElem?_eq_getElem hi, hget]
    refine ⟨b, hb, ?_, i, by rw [← hb'.2]; exact blockIndexDict_spec hI hpos⟩
    simp only [mincProcessed, hb, decide_eq_true_eq]
  have hlen : ((normFracs args.fracs).drop 1).length = args.fracs.length - 1 := by
    simp [normFracs]
  have := mincBlocks_frame args (normFracs args.fracs) (blockIndexDict w) w.blks.length (mincProcessed w args) sel
    w _ [] w' cols hI (Nat.le_refl _) hnd hnames hok
  rw [hlen] at this
  exact this

end Proofs.Grid
