/-
  Isothermal compressibility of region 1 in the conventional (derivative) form: the density `rho1 t p` that `cowat` returns is
  differentiable in `p` with positive derivative wherever the termwise bounds of `Proofs/IapwsMonoR1.lean` are negative:
  `∂ρ/∂p = −R T γ_ππ / (R T γ_π)²`, `γ_ππ = Σ nᵢ Iᵢ (Iᵢ−1) x^(Iᵢ−2) y^Jᵢ ≤ sumU2 < 0`, `γ_π ≥ −sumU1 > 0`.
-/
import PyTough.Proofs.IapwsMonoR1BoxA
import PyTough.Proofs.IapwsMonoR1BoxB
import PyTough.Proofs.IapwsMonoR1BoxC
namespace Proofs.Iapws
open Gen.Iapws Model.Thermo Proofs.Thermo

noncomputable def laurentDxx (tbl : List (Int × Int × ℝ)) (x y : ℝ) : ℝ :=
  (tbl.map fun r => r.2.2 * ((r.1 : ℝ) * (((r.1 - 1 : ℤ) : ℝ) * x ^ (r.1 - 1 - 1))) * y ^ r.2.1).sum

theorem laurentDx_hasDerivAt_x (tbl : List (Int × Int × ℝ)) (x y : ℝ) (hx : x ≠ 0) :
    HasDerivAt (fun x' => laurentDx tbl x' y) (laurentDxx tbl x y) x := by
  unfold laurentDx laurentDxx
  induction tbl with
  | nil => simpa using hasDerivAt_const x (0 : ℝ)
  | cons r tbl ih =>
    simp only [List.map_cons, List.sum_cons]
    exact ((((hasDerivAt_zpow (r.1 - 1) x (Or.inl hx)).const_mul (r.1 : ℝ)).const_mul r.2.2).mul_const (y ^ r.2.1)).add ih

theorem rowDxx_upper (r : Int × Int × ℝ) (hi : 0 ≤ r.1) (xl xh yl yh x y : ℝ)
    (hxl : 0 < xl) (h1 : xl ≤ x) (h2 : x ≤ xh) (hyl : 0 < yl) (y1 : yl ≤ y) (y2 : y ≤ yh) :
    r.2.2 * ((r.1 : ℝ) * (((r.1 - 1 : ℤ) : ℝ) * x ^ (r.1 - 1 - 1))) * y ^ r.2.1 ≤ rowU2 r xl xh yl yh := by
  obtain ⟨i, j, n⟩ := r
  simp only at hi ⊢
  unfold rowU2
  simp only
  obtain ⟨ym0, ym1, ym2⟩ := y_bounds j yl yh y hyl y1 y2
  have hx : 0 < x := lt_of_lt_of_le hxl h1
  rcases eq_or_lt_of_le hi with h0 | hpos
  · subst h0; simp
  · rcases eq_or_lt_of_le (show (1 : ℤ) ≤ i by omega) with h1' | h2'
    · subst h1'; simp
    · have ek : (i - 1 : ℤ) = ((i - 1).toNat : ℤ) := (Int.toNat_of_nonneg (by omega)).symm
      have ek2 : (i - 1 - 1 : ℤ) = (((i - 1).toNat - 1 : ℕ) : ℤ) := by
        have : 1 ≤ (i - 1).toNat := by omega
        omega
      set k := (i - 1).toNat
      rw [ek2, zpow_natCast]
      have ekr : (((i - 1 : ℤ)) : ℝ) = (k : ℝ) := by rw [ek]; simp
      rw [ekr]
      have hi0 : (0 : ℝ) ≤ (i : ℝ) := by exact_mod_cast hi
      have hk0 : (0 : ℝ) ≤ (k : ℝ) := Nat.cast_nonneg k
      have yj0 : 0 ≤ y ^ j := le_trans ym0 ym1
      have hxh : 0 ≤ xh := le_trans (le_of_lt hx) h2
      have p1 : xl ^ (k - 1) ≤ x ^ (k - 1) := pow_le_pow_left₀ (le_of_lt hxl) h1 _
      have p2 : x ^ (k - 1) ≤ xh ^ (k - 1) := pow_le_pow_left₀ (le_of_lt hx) h2 _
      have e : n * ((i : ℝ) * ((k : ℝ) * x ^ (k - 1))) * y ^ j = n * ((i : ℝ) * ((k : ℝ) * x ^ (k - 1)) * y ^ j) := by ring
      rw [e]
      have lo : (i : ℝ) * ((k : ℝ) * xl ^ (k - 1)) * yMin j yl yh ≤ (i : ℝ) * ((k : ℝ) * x ^ (k - 1)) * y ^ j :=
        mul_le_mul (mul_le_mul_of_nonneg_left (mul_le_mul_of_nonneg_left p1 hk0) hi0) ym1 ym0
          (mul_nonneg hi0 (mul_nonneg hk0 (pow_nonneg (le_of_lt hx) _)))
      have hi' : (i : ℝ) * ((k : ℝ) * x ^ (k - 1)) * y ^ j ≤ (i : ℝ) * ((k : ℝ) * xh ^ (k - 1)) * yMax j yl yh :=
        mul_le_mul (mul_le_mul_of_nonneg_left (mul_le_mul_of_nonneg_left p2 hk0) hi0) ym2 yj0
          (mul_nonneg hi0 (mul_nonneg hk0 (pow_nonneg hxh _)))
      exact signed_le n _ _ _ lo hi'

theorem dxx_upper (tbl : List (Int × Int × ℝ)) (hrows : ∀ r ∈ tbl, 0 ≤ r.1) (xl xh yl yh x y : ℝ)
    (hxl : 0 < xl) (h1 : xl ≤ x) (h2 : x ≤ xh) (hyl : 0 < yl) (y1 : yl ≤ y) (y2 : y ≤ yh) :
    laurentDxx tbl x y ≤ sumU2 tbl xl xh yl yh := by
  unfold laurentDxx sumU2
  induction tbl with
  | nil => simp
  | cons r tbl ih =>
    have a := ih (fun q hq => hrows q (List.mem_cons_of_mem _ hq))
    have c := rowDxx_upper r (hrows r (by simp)) xl xh yl yh x y hxl h1 h2 hyl y1 y2
    simp only [List.map_cons, List.sum_cons]
    exact add_le_add c a

/-- the density `cowat` returns at `(t, p)`: `p* / (R T γ_π)` -/
noncomputable def rho1 (t p : ℝ) : ℝ := pstar1 / (rconst * (t + tc_k) * gpi1 t p)

theorem cowat_rho1 (t p : ℝ) (ht0 : 0 ≤ t) (ht : t ≤ 350) (hp : p ≤ 100000000) : ∃ u, cowat t p = Ret.pair (rho1 t p) u :=
  ⟨_, cowat_eq t p ht0 ht hp⟩

theorem rho1_deriv_pos (t p xl xh yl yh : ℝ) (ht0 : 0 ≤ t)
    (hxl : 0 < xl) (hx1 : xl ≤ c71 - pi1 p) (hx2 : c71 - pi1 p ≤ xh)
    (hyl : 0 < yl) (hy1 : yl ≤ tau1 t - c1222) (hy2 : tau1 t - c1222 ≤ yh)
    (hU2 : sumU2 tbl1 xl xh yl yh < 0) (hU1 : sumU1 tbl1 xl xh yl yh < 0) :
    0 < rho1 t p ∧ ∃ ρ', HasDerivAt (fun p' => rho1 t p') ρ' p ∧ 0 < ρ' := by
  have hps := pstar1_pos
  have hrows : ∀ r ∈ tbl1, 0 ≤ r.1 := fun r hr => tbl1_rows _ (mem_zip3_ints _ _ _ r hr)
  have hx0 : c71 - pi1 p ≠ 0 := ne_of_gt (lt_of_lt_of_le hxl hx1)
  obtain ⟨_, b⟩ := dx_upper tbl1 hrows xl xh yl yh (c71 - pi1 p) (c71 - pi1 p) (tau1 t - c1222) hxl hx1 (le_refl _) hx2 hyl hy1 hy2
  have c := dxx_upper tbl1 hrows xl xh yl yh (c71 - pi1 p) (tau1 t - c1222) hxl hx1 hx2 hyl hy1 hy2
  have hRT : 0 < rconst * (t + tc_k) := mul_pos rconst_pos (tk_pos t ht0)
  have hg : 0 < gpi1 t p := by unfold gpi1; linarith
  set D := laurentDxx tbl1 (c71 - pi1 p) (tau1 t - c1222) with hD
  have hDneg : D < 0 := lt_of_le_of_lt c hU2
  have h1 := laurentDx_hasDerivAt_x tbl1 (c71 - pi1 p) (tau1 t - c1222) hx0
  have h2 : HasDerivAt (fun p' : ℝ => c71 - pi1 p') (-(1 / pstar1)) p := by
    unfold pi1
    have := ((hasDerivAt_id p).div_const (pstar1 : ℝ)).const_sub c71
    simpa using this
  have h3 := (h1.comp p h2).neg
  have h4 : HasDerivAt (fun p' => gpi1 t p') (-(D * -(1 / pstar1))) p := h3
  have h5 := h4.const_mul (rconst * (t + tc_k))
  have hne : rconst * (t + tc_k) * gpi1 t p ≠ 0 := ne_of_gt (mul_pos hRT hg)
  have h6 := (hasDerivAt_const p (pstar1 : ℝ)).div h5 hne
  refine ⟨div_pos hps (mul_pos hRT hg), _, h6, ?_⟩
  apply div_pos _ (pow_pos (mul_pos hRT hg) 2)
  have e : (0 : ℝ) * (rconst * (t + tc_k) * gpi1 t p) - pstar1 * (rconst * (t + tc_k) * -(D * -(1 / pstar1)))
      = rconst * (t + tc_k) * (-D) := by field_simp; ring
  rw [e]
  exact mul_pos hRT (by linarith)

theorem rho1_deriv_pos_box (tlo thi plo phi xl xh yl yh : ℝ) (t p : ℝ)
    (htlo : 0 ≤ tlo) (hthi : thi ≤ 350) (hphi : phi ≤ 100000000)
    (hxl : 0 < xl) (hx1 : xl ≤ 70999 / 10000 - phi / 16530000) (hx2 : 71001 / 10000 - plo / 16530000 ≤ xh)
    (hyl : 0 < yl) (hy1 : yl ≤ 1386 / (thi + 27316 / 100) - 12221 / 10000)
    (hy2 : 1386 / (tlo + 27314 / 100) - 12219 / 10000 ≤ yh)
    (hU2 : sumU2 tbl1 xl xh yl yh < 0) (hU1 : sumU1 tbl1 xl xh yl yh < 0)
    (ht1 : tlo ≤ t) (ht2 : t ≤ thi) (hp1 : plo ≤ p) (hp2 : p ≤ phi) :
    0 < rho1 t p ∧ ∃ ρ', HasDerivAt (fun p' => rho1 t p') ρ' p ∧ 0 < ρ' := by
  have ht0 : 0 ≤ t := le_trans htlo ht1
  exact rho1_deriv_pos t p xl xh yl yh ht0 hxl (r1_x_ge p phi xl hp2 hx1) (r1_x_le p plo xh hp1 hx2)
    hyl (r1_y_ge t thi yl ht0 ht2 hy1) (r1_y_le t tlo yh htlo ht1 hy2) hU2 hU1

theorem kappa_box0 (t p : ℝ) (ht1 : 0 ≤ t) (ht2 : t ≤ 225) (hp1 : 0 ≤ p) (hp2 : p ≤ 100000000) :
    0 < rho1 t p ∧ ∃ ρ', HasDerivAt (fun p' => rho1 t p') ρ' p ∧ 0 < ρ' :=
  rho1_deriv_pos_box 0 225 0 100000000 (5251 / 5000) (71001 / 10000) (15601 / 10000) (1541 / 400) t p
    (by norm_num) (by norm_num) (by norm_num) (by norm_num) (by norm_num) (by norm_num) (by norm_num) (by norm_num) (by norm_num)
    sumU_r1_box0.1 sumU_r1_box0.2 ht1 ht2 hp1 hp2

theorem kappa_box1 (t p : ℝ) (ht1 : 200 ≤ t) (ht2 : t ≤ 230) (hp1 : 0 ≤ p) (hp2 : p ≤ 100000000) :
    0 < rho1 t p ∧ ∃ ρ', HasDerivAt (fun p' => rho1 t p') ρ' p ∧ 0 < ρ' :=
  rho1_deriv_pos_box 200 230 0 100000000 (5251 / 5000) (71001 / 10000) (3831 / 2500) (683 / 400) t p
    (by norm_num) (by norm_num) (by norm_num) (by norm_num) (by norm_num) (by norm_num) (by norm_num) (by norm_num) (by norm_num)
    sumU_r1_box1.1 sumU_r1_box1.2 ht1 ht2 hp1 hp2

theorem kappa_box2 (t p : ℝ) (ht1 : 230 ≤ t) (ht2 : t ≤ 240) (hp1 : 4000000 ≤ p) (hp2 : p ≤ 100000000) :
    0 < rho1 t p ∧ ∃ ρ', HasDerivAt (fun p' => rho1 t p') ρ' p ∧ 0 < ρ' :=
  rho1_deriv_pos_box 230 240 4000000 100000000 (5251 / 5000) (34291 / 5000) (3697 / 2500) (15329 / 10000) t p
    (by norm_num) (by norm_num) (by norm_num) (by norm_num) (by norm_num) (by norm_num) (by norm_num) (by norm_num) (by norm_num)
    sumU_r1_box2.1 sumU_r1_box2.2 ht1 ht2 hp1 hp2

theorem kappa_box3 (t p : ℝ) (ht1 : 240 ≤ t) (ht2 : t ≤ 250) (hp1 : 9500000 ≤ p) (hp2 : p ≤ 100000000) :
    0 < rho1 t p ∧ ∃ ρ', HasDerivAt (fun p' => rho1 t p') ρ' p ∧ 0 < ρ' :=
  rho1_deriv_pos_box 240 250 9500000 100000000 (5251 / 5000) (32627 / 5000) (14271 / 10000) (1849 / 1250) t p
    (by norm_num) (by norm_num) (by norm_num) (by norm_num) (by norm_num) (by norm_num) (by norm_num) (by norm_num) (by norm_num)
    sumU_r1_box3.1 sumU_r1_box3.2 ht1 ht2 hp1 hp2

theorem kappa_box4 (t p : ℝ) (ht1 : 250 ≤ t) (ht2 : t ≤ 260) (hp1 : 14500000 ≤ p) (hp2 : p ≤ 100000000) :
    0 < rho1 t p ∧ ∃ ρ', HasDerivAt (fun p' => rho1 t p') ρ' p ∧ 0 < ρ' :=
  rho1_deriv_pos_box 250 260 14500000 100000000 (5251 / 5000) (6223 / 1000) (6887 / 5000) (571 / 400) t p
    (by norm_num) (by norm_num) (by norm_num) (by norm_num) (by norm_num) (by norm_num) (by norm_num) (by norm_num) (by norm_num)
    sumU_r1_box4.1 sumU_r1_box4.2 ht1 ht2 hp1 hp2

theorem kappa_box5 (t p : ℝ) (ht1 : 260 ≤ t) (ht2 : t ≤ 270) (hp1 : 19000000 ≤ p) (hp2 : p ≤ 100000000) :
    0 < rho1 t p ∧ ∃ ρ', HasDerivAt (fun p' => rho1 t p') ρ' p ∧ 0 < ρ' :=
  rho1_deriv_pos_box 260 270 19000000 100000000 (5251 / 5000) (59507 / 10000) (831 / 625) (6889 / 5000) t p
    (by norm_num) (by norm_num) (by norm_num) (by norm_num) (by norm_num) (by norm_num) (by norm_num) (by norm_num) (by norm_num)
    sumU_r1_box5.1 sumU_r1_box5.2 ht1 ht2 hp1 hp2

theorem kappa_box6 (t p : ℝ) (ht1 : 270 ≤ t) (ht2 : t ≤ 280) (hp1 : 23500000 ≤ p) (hp2 : p ≤ 100000000) :
    0 < rho1 t p ∧ ∃ ρ', HasDerivAt (fun p' => rho1 t p') ρ' p ∧ 0 < ρ' :=
  rho1_deriv_pos_box 270 280 23500000 100000000 (5251 / 5000) (11357 / 2000) (2567 / 2000) (133 / 100) t p
    (by norm_num) (by norm_num) (by norm_num) (by norm_num) (by norm_num) (by norm_num) (by norm_num) (by norm_num) (by norm_num)
    sumU_r1_box6.1 sumU_r1_box6.2 ht1 ht2 hp1 hp2

theorem kappa_box7 (t p : ℝ) (ht1 : 280 ≤ t) (ht2 : t ≤ 290) (hp1 : 28000000 ≤ p) (hp2 : p ≤ 100000000) :
    0 < rho1 t p ∧ ∃ ρ', HasDerivAt (fun p' => rho1 t p') ρ' p ∧ 0 < ρ' :=
  rho1_deriv_pos_box 280 290 28000000 100000000 (5251 / 5000) (54063 / 10000) (1239 / 1000) (6419 / 5000) t p
    (by norm_num) (by norm_num) (by norm_num) (by norm_num) (by norm_num) (by norm_num) (by norm_num) (by norm_num) (by norm_num)
    sumU_r1_box7.1 sumU_r1_box7.2 ht1 ht2 hp1 hp2

theorem kappa_box8 (t p : ℝ) (ht1 : 290 ≤ t) (ht2 : t ≤ 300) (hp1 : 32000000 ≤ p) (hp2 : p ≤ 100000000) :
    0 < rho1 t p ∧ ∃ ρ', HasDerivAt (fun p' => rho1 t p') ρ' p ∧ 0 < ρ' :=
  rho1_deriv_pos_box 290 300 32000000 100000000 (5251 / 5000) (51643 / 10000) (299 / 250) (12393 / 10000) t p
    (by norm_num) (by norm_num) (by norm_num) (by norm_num) (by norm_num) (by norm_num) (by norm_num) (by norm_num) (by norm_num)
    sumU_r1_box8.1 sumU_r1_box8.2 ht1 ht2 hp1 hp2

theorem kappa_box9 (t p : ℝ) (ht1 : 300 ≤ t) (ht2 : t ≤ 310) (hp1 : 36000000 ≤ p) (hp2 : p ≤ 100000000) :
    0 < rho1 t p ∧ ∃ ρ', HasDerivAt (fun p' => rho1 t p') ρ' p ∧ 0 < ρ' :=
  rho1_deriv_pos_box 300 310 36000000 100000000 (5251 / 5000) (49223 / 10000) (5773 / 5000) (2991 / 2500) t p
    (by norm_num) (by norm_num) (by norm_num) (by norm_num) (by norm_num) (by norm_num) (by norm_num) (by norm_num) (by norm_num)
    sumU_r1_box9.1 sumU_r1_box9.2 ht1 ht2 hp1 hp2

theorem kappa_box10 (t p : ℝ) (ht1 : 310 ≤ t) (ht2 : t ≤ 320) (hp1 : 40000000 ≤ p) (hp2 : p ≤ 100000000) :
    0 < rho1 t p ∧ ∃ ρ', HasDerivAt (fun p' => rho1 t p') ρ' p ∧ 0 < ρ' :=
  rho1_deriv_pos_box 310 320 40000000 100000000 (5251 / 5000) (46803 / 10000) (2229 / 2000) (11549 / 10000) t p
    (by norm_num) (by norm_num) (by norm_num) (by norm_num) (by norm_num) (by norm_num) (by norm_num) (by norm_num) (by norm_num)
    sumU_r1_box10.1 sumU_r1_box10.2 ht1 ht2 hp1 hp2

theorem kappa_box11 (t p : ℝ) (ht1 : 320 ≤ t) (ht2 : t ≤ 330) (hp1 : 43500000 ≤ p) (hp2 : p ≤ 100000000) :
    0 < rho1 t p ∧ ∃ ρ', HasDerivAt (fun p' => rho1 t p') ρ' p ∧ 0 < ρ' :=
  rho1_deriv_pos_box 320 330 43500000 100000000 (5251 / 5000) (22343 / 5000) (10757 / 10000) (11149 / 10000) t p
    (by norm_num) (by norm_num) (by norm_num) (by norm_num) (by norm_num) (by norm_num) (by norm_num) (by norm_num) (by norm_num)
    sumU_r1_box11.1 sumU_r1_box11.2 ht1 ht2 hp1 hp2

theorem kappa_box12 (t p : ℝ) (ht1 : 330 ≤ t) (ht2 : t ≤ 340) (hp1 : 46500000 ≤ p) (hp2 : p ≤ 100000000) :
    0 < rho1 t p ∧ ∃ ρ', HasDerivAt (fun p' => rho1 t p') ρ' p ∧ 0 < ρ' :=
  rho1_deriv_pos_box 330 340 46500000 100000000 (5251 / 5000) (42871 / 10000) (10383 / 10000) (10761 / 10000) t p
    (by norm_num) (by norm_num) (by norm_num) (by norm_num) (by norm_num) (by norm_num) (by norm_num) (by norm_num) (by norm_num)
    sumU_r1_box12.1 sumU_r1_box12.2 ht1 ht2 hp1 hp2

theorem kappa_box13 (t p : ℝ) (ht1 : 340 ≤ t) (ht2 : t ≤ 350) (hp1 : 50000000 ≤ p) (hp2 : p ≤ 100000000) :
    0 < rho1 t p ∧ ∃ ρ', HasDerivAt (fun p' => rho1 t p') ρ' p ∧ 0 < ρ' :=
  rho1_deriv_pos_box 340 350 50000000 100000000 (5251 / 5000) (40753 / 10000) (501 / 500) (5193 / 5000) t p
    (by norm_num) (by norm_num) (by norm_num) (by norm_num) (by norm_num) (by norm_num) (by norm_num) (by norm_num) (by norm_num)
    sumU_r1_box13.1 sumU_r1_box13.2 ht1 ht2 hp1 hp2

end Proofs.Iapws
