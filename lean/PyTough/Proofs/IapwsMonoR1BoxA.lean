/-
  Region 1 density monotonicity, boxes (part A): the termwise bounds `sumU2`, `sumU1` of `Proofs/IapwsMonoR1.lean` evaluated on the
  generated table `tbl1` by `norm_num`, one `(x, y)` box per `(t, p)` box (corners rounded outwards to 1e-4).
-/
import PyTough.Proofs.IapwsMonoR1
namespace Proofs.Iapws
open Gen.Iapws Model.Thermo Proofs.Thermo

theorem sumU_r1_box0 : sumU2 tbl1 (5251 / 5000) (71001 / 10000) (15601 / 10000) (1541 / 400) < 0 ∧ sumU1 tbl1 (5251 / 5000) (71001 / 10000) (15601 / 10000) (1541 / 400) < 0 := by
  unfold sumU2 sumU1 rowU2 rowU1 yMax yMin tbl1
  simp only [zip3, ir1, jr1, nr1, tf_lit, List.zip_cons_cons, List.zip_nil_right, List.map_cons, List.map_nil, List.sum_cons, List.sum_nil]
  norm_num [Int.toNat]

/-- `0 ≤ t ≤ 225` degC, `0` Pa `≤ p1 < p2 ≤ 100 MPa` -/
theorem cowat_mono_box0 (t p1 p2 : ℝ) (ht1 : 0 ≤ t) (ht2 : t ≤ 225) (hp1 : 0 ≤ p1) (h12 : p1 < p2) (hp2 : p2 ≤ 100000000) :
    ∃ d1 u1 d2 u2, cowat t p1 = Ret.pair d1 u1 ∧ cowat t p2 = Ret.pair d2 u2 ∧ 0 < d1 ∧ d1 < d2 :=
  cowat_density_mono_box 0 225 0 100000000 (5251 / 5000) (71001 / 10000) (15601 / 10000) (1541 / 400) t p1 p2
    (by norm_num) (by norm_num) (by norm_num) (by norm_num) (by norm_num) (by norm_num) (by norm_num) (by norm_num) (by norm_num)
    sumU_r1_box0.1 sumU_r1_box0.2 ht1 ht2 hp1 h12 hp2

theorem sumU_r1_box3 : sumU2 tbl1 (5251 / 5000) (32627 / 5000) (14271 / 10000) (1849 / 1250) < 0 ∧ sumU1 tbl1 (5251 / 5000) (32627 / 5000) (14271 / 10000) (1849 / 1250) < 0 := by
  unfold sumU2 sumU1 rowU2 rowU1 yMax yMin tbl1
  simp only [zip3, ir1, jr1, nr1, tf_lit, List.zip_cons_cons, List.zip_nil_right, List.map_cons, List.map_nil, List.sum_cons, List.sum_nil]
  norm_num [Int.toNat]

/-- `240 ≤ t ≤ 250` degC, `9500000` Pa `≤ p1 < p2 ≤ 100 MPa` -/
theorem cowat_mono_box3 (t p1 p2 : ℝ) (ht1 : 240 ≤ t) (ht2 : t ≤ 250) (hp1 : 9500000 ≤ p1) (h12 : p1 < p2) (hp2 : p2 ≤ 100000000) :
    ∃ d1 u1 d2 u2, cowat t p1 = Ret.pair d1 u1 ∧ cowat t p2 = Ret.pair d2 u2 ∧ 0 < d1 ∧ d1 < d2 :=
  cowat_density_mono_box 240 250 9500000 100000000 (5251 / 5000) (32627 / 5000) (14271 / 10000) (1849 / 1250) t p1 p2
    (by norm_num) (by norm_num) (by norm_num) (by norm_num) (by norm_num) (by norm_num) (by norm_num) (by norm_num) (by norm_num)
    sumU_r1_box3.1 sumU_r1_box3.2 ht1 ht2 hp1 h12 hp2

theorem sumU_r1_box6 : sumU2 tbl1 (5251 / 5000) (11357 / 2000) (2567 / 2000) (133 / 100) < 0 ∧ sumU1 tbl1 (5251 / 5000) (11357 / 2000) (2567 / 2000) (133 / 100) < 0 := by
  unfold sumU2 sumU1 rowU2 rowU1 yMax yMin tbl1
  simp only [zip3, ir1, jr1, nr1, tf_lit, List.zip_cons_cons, List.zip_nil_right, List.map_cons, List.map_nil, List.sum_cons, List.sum_nil]
  norm_num [Int.toNat]

/-- `270 ≤ t ≤ 280` degC, `23500000` Pa `≤ p1 < p2 ≤ 100 MPa` -/
theorem cowat_mono_box6 (t p1 p2 : ℝ) (ht1 : 270 ≤ t) (ht2 : t ≤ 280) (hp1 : 23500000 ≤ p1) (h12 : p1 < p2) (hp2 : p2 ≤ 100000000) :
    ∃ d1 u1 d2 u2, cowat t p1 = Ret.pair d1 u1 ∧ cowat t p2 = Ret.pair d2 u2 ∧ 0 < d1 ∧ d1 < d2 :=
  cowat_density_mono_box 270 280 23500000 100000000 (5251 / 5000) (11357 / 2000) (2567 / 2000) (133 / 100) t p1 p2
    (by norm_num) (by norm_num) (by norm_num) (by norm_num) (by norm_num) (by norm_num) (by norm_num) (by norm_num) (by norm_num)
    sumU_r1_box6.1 sumU_r1_box6.2 ht1 ht2 hp1 h12 hp2

theorem sumU_r1_box9 : sumU2 tbl1 (5251 / 5000) (49223 / 10000) (5773 / 5000) (2991 / 2500) < 0 ∧ sumU1 tbl1 (5251 / 5000) (49223 / 10000) (5773 / 5000) (2991 / 2500) < 0 := by
  unfold sumU2 sumU1 rowU2 rowU1 yMax yMin tbl1
  simp only [zip3, ir1, jr1, nr1, tf_lit, List.zip_cons_cons, List.zip_nil_right, List.map_cons, List.map_nil, List.sum_cons, List.sum_nil]
  norm_num [Int.toNat]

/-- `300 ≤ t ≤ 310` degC, `36000000` Pa `≤ p1 < p2 ≤ 100 MPa` -/
theorem cowat_mono_box9 (t p1 p2 : ℝ) (ht1 : 300 ≤ t) (ht2 : t ≤ 310) (hp1 : 36000000 ≤ p1) (h12 : p1 < p2) (hp2 : p2 ≤ 100000000) :
    ∃ d1 u1 d2 u2, cowat t p1 = Ret.pair d1 u1 ∧ cowat t p2 = Ret.pair d2 u2 ∧ 0 < d1 ∧ d1 < d2 :=
  cowat_density_mono_box 300 310 36000000 100000000 (5251 / 5000) (49223 / 10000) (5773 / 5000) (2991 / 2500) t p1 p2
    (by norm_num) (by norm_num) (by norm_num) (by norm_num) (by norm_num) (by norm_num) (by norm_num) (by norm_num) (by norm_num)
    sumU_r1_box9.1 sumU_r1_box9.2 ht1 ht2 hp1 h12 hp2

theorem sumU_r1_box12 : sumU2 tbl1 (5251 / 5000) (42871 / 10000) (10383 / 10000) (10761 / 10000) < 0 ∧ sumU1 tbl1 (5251 / 5000) (42871 / 10000) (10383 / 10000) (10761 / 10000) < 0 := by
  unfold sumU2 sumU1 rowU2 rowU1 yMax yMin tbl1
  simp only [zip3, ir1, jr1, nr1, tf_lit, List.zip_cons_cons, List.zip_nil_right, List.map_cons, List.map_nil, List.sum_cons, List.sum_nil]
  norm_num [Int.toNat]

/-- `330 ≤ t ≤ 340` degC, `46500000` Pa `≤ p1 < p2 ≤ 100 MPa` -/
theorem cowat_mono_box12 (t p1 p2 : ℝ) (ht1 : 330 ≤ t) (ht2 : t ≤ 340) (hp1 : 46500000 ≤ p1) (h12 : p1 < p2) (hp2 : p2 ≤ 100000000) :
    ∃ d1 u1 d2 u2, cowat t p1 = Ret.pair d1 u1 ∧ cowat t p2 = Ret.pair d2 u2 ∧ 0 < d1 ∧ d1 < d2 :=
  cowat_density_mono_box 330 340 46500000 100000000 (5251 / 5000) (42871 / 10000) (10383 / 10000) (10761 / 10000) t p1 p2
    (by norm_num) (by norm_num) (by norm_num) (by norm_num) (by norm_num) (by norm_num) (by norm_num) (by norm_num) (by norm_num)
    sumU_r1_box12.1 sumU_r1_box12.2 ht1 ht2 hp1 h12 hp2

end Proofs.Iapws
