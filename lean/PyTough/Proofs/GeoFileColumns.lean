/-
  C03 proofs, part 5: GRID (columns with their node lists).
-/
import PyTough.Proofs.GeoFileSections
namespace Proofs.GeoFile
open Py Model Model.GeoFile Proofs

def intItem (w : Nat) (i : Int) : Item :=
  (fD w, .int i, pad false w (signChars (decide (i < 0)) ++ natDigits i.natAbs), .int i)

def noneItem (f : FieldSpec) : Item := (f, .none, List.replicate f.width ' ', .none)

theorem intItem_ok {w : Nat} {i : Int} (h : fitsB (fD w) (.int i) = true) :
    FieldRT (intItem w i).1 (intItem w i).2.1 (intItem w i).2.2.1 (intItem w i).2.2.2 := fieldRT_d w i h

theorem noneItem_ok (f : FieldSpec) (ht : f.typ = 'd' ∨ f.typ = 'e' ∨ f.typ = 'f') :
    FieldRT (noneItem f).1 (noneItem f).2.1 (noneItem f).2.2.1 (noneItem f).2.2.2 := fieldRT_none f ht

/-- a natural number below `10^w` fits a `%wd` field -/
theorem fits_nat (w : Nat) (hw : 0 < w) (n : Nat) (h : n < 10 ^ w) : fitsB (fD w) (.int (n : Int)) = true := by
  unfold fitsB
  rw [fmtVal_d_int (f := fD w) rfl]
  simp only [decide_eq_true_eq, pad_length]
  have : (signChars (decide ((n : Int) < 0)) ++ natDigits (n : Int).natAbs).length ≤ w := by
    have hneg : decide ((n : Int) < 0) = false := by simp
    rw [hneg]
    simp only [signChars, Bool.false_eq_true, if_false, List.nil_append, Int.natAbs_natCast]
    exact (natDigits_length_le_iff hw).mpr h
  simp only [fD]
  omega

/-- the centre fields of a column record -/
def centreItems (s : Rat) (c : GColumn) : List Item :=
  if c.centreSpecified != 0 then
    match c.centre with
    | .at x y => [coordItem 2 s x, coordItem 2 s y]
    | _ => []
  else [noneItem (fF 2), noneItem (fF 2)]

def columnItems (s : Rat) (c : GColumn) : List Item :=
  [nameItem c.name, intItem 1 c.centreSpecified, intItem 2 c.nodes.length] ++ centreItems s c

/-- the column before the LAYERS / SURFA sections touch it -/
def preColumn (s : Rat) (nodes' : List GNode) (c : GColumn) : GColumn :=
  { name := c.name, nodes := c.nodes, centreSpecified := c.centreSpecified,
    centre := (if c.centreSpecified != 0 then
        match c.centre with
        | .at x y => .at (canonC 2 s x) (canonC 2 s y)
        | o => o
      else centroidCentre nodes' c.nodes),
    surface := none, defaultSurface := true, numLayers := 0 }

structure ColOK (L : Nat) (s : Rat) (nodes' : List GNode) (c : GColumn) : Prop where
  name : NameShape L c.name
  nn : c.nodes.length ≤ 99
  found : ∀ nm ∈ c.nodes, NameShape L nm ∧ ∃ nd, lookupNode nodes' nm = some nd
  centre : c.centreSpecified = 0 ∨ (c.centreSpecified = 1 ∧ ∃ x y, c.centre = .at x y ∧ fitsC 2 s x = true ∧ fitsC 2 s y = true)
  orient : 0 ≤ polygonArea (nodePositions nodes' c.nodes)

theorem centreItems_ok {L : Nat} {s : Rat} {nodes' : List GNode} {c : GColumn} (h : ColOK L s nodes' c) :
    ItemsOK (centreItems s c) := by
  unfold centreItems
  rcases h.centre with h0 | ⟨h1, x, y, hc, hx, hy⟩
  · rw [h0]
    exact itemsOK_cons (noneItem_ok _ (Or.inr (Or.inr rfl))) (itemsOK_cons (noneItem_ok _ (Or.inr (Or.inr rfl))) itemsOK_nil)
  · rw [h1, hc]
    exact itemsOK_cons (coordItem_ok hx) (itemsOK_cons (coordItem_ok hy) itemsOK_nil)

theorem columnItems_ok {L : Nat} {s : Rat} {nodes' : List GNode} {c : GColumn} (hL : L ≤ 3) (h : ColOK L s nodes' c) :
    ItemsOK (columnItems s c) := by
  unfold columnItems
  intro it hit
  rcases List.mem_append.mp hit with hit | hit
  · simp only [List.mem_cons, List.not_mem_nil, or_false] at hit
    rcases hit with rfl | rfl | rfl
    · exact nameItem_ok hL h.name
    · apply intItem_ok
      rcases h.centre with h0 | ⟨h1, _⟩
      · rw [h0]; decide
      · rw [h1]; decide
    · apply intItem_ok
      exact fits_nat 2 (by decide) _ (by have := h.nn; omega)
  · exact centreItems_ok h it hit

theorem columnItems_fields {L : Nat} {s : Rat} {nodes' : List GNode} {c : GColumn} (h : ColOK L s nodes' c) :
    (columnItems s c).map (·.1) = SP.column := by
  unfold columnItems centreItems
  rcases h.centre with h0 | ⟨h1, x, y, hc, _, _⟩
  · rw [h0]; rfl
  · rw [h1, hc]; rfl

def colNodeLine (nm : Str) : Str := recText [nameItem nm] ++ ['\n']

def columnTextLines (s : Rat) (c : GColumn) : List Str :=
  (recText (columnItems s c) ++ ['\n']) :: c.nodes.map colNodeLine

theorem mapM_ok_map {α β : Type} (f : α → Except Exc β) (g : α → β) (l : List α) (h : ∀ a ∈ l, f a = .ok (g a)) :
    l.mapM f = .ok (l.map g) := by
  induction l with
  | nil => rfl
  | cons a r ih =>
    rw [List.mapM_cons, h a (by simp), ih (fun x hx => h x (List.mem_cons_of_mem _ hx))]
    rfl

theorem columnLines_eq {L : Nat} {s : Rat} {nodes' : List GNode} {c : GColumn} (hL : L ≤ 3) (h : ColOK L s nodes' c) :
    columnLines SP s c = .ok (columnTextLines s c) := by
  unfold columnLines
  have hline := lineOf_items (columnItems s c) (columnItems_ok hL h)
  rw [columnItems_fields h] at hline
  have hvals : (columnItems s c).map (·.2.1) =
      [.str (ljust c.name 3), .int c.centreSpecified, .int c.nodes.length] ++ (centreItems s c).map (·.2.1) := by
    simp [columnItems, nameItem, intItem]
  rw [hvals] at hline
  have hnodes : c.nodes.mapM (fun n => lineOf SP.columnNode [.str (ljust n 3)]) = .ok (c.nodes.map colNodeLine) := by
    apply mapM_ok_map
    intro nm hnm
    exact lineOf_items [nameItem nm] (itemsOK_cons (nameItem_ok hL (h.found nm hnm).1) itemsOK_nil)
  rcases h.centre with h0 | ⟨h1, x, y, hc, _, _⟩
  · have : (centreItems s c).map (·.2.1) = [.none, .none] := by unfold centreItems; rw [h0]; rfl
    rw [this] at hline
    simp only [h0, bne_self_eq_false, Bool.false_eq_true, if_false, bind, Except.bind, pure, Except.pure]
    rw [h0] at hline
    rw [hline, hnodes]
    rfl
  · have : (centreItems s c).map (·.2.1) = [(x.div s).toVal, (y.div s).toVal] := by
      unfold centreItems; rw [h1, hc]; rfl
    rw [this] at hline
    have hb : ((1 : Int) != 0) = true := by decide
    simp only [h1, hb, if_true, hc, bind, Except.bind, pure, Except.pure]
    rw [h1] at hline
    rw [hline, hnodes]
    rfl

/-! ### reading the node list of a column -/

theorem readColumnNodes_run {L : Nat} (hL : L ≤ 3) (g : Geo) : ∀ (names : List Str) (tail : List Str),
    (∀ nm ∈ names, NameShape L nm ∧ ∃ nd, lookupNode g.nodes nm = some nd) →
    readColumnNodes SP L g names.length (names.map colNodeLine ++ tail)
      = .ok (names.filterMap (lookupNode g.nodes), tail) := by
  intro names
  induction names with
  | nil => intro tail _; rfl
  | cons nm r ih =>
    intro tail h
    obtain ⟨hs, nd, hnd⟩ := h nm (by simp)
    simp only [List.length_cons, List.map_cons, List.cons_append, readColumnNodes, readline_cons]
    have hp := parse_items .default [nameItem nm] (itemsOK_cons (nameItem_ok hL hs) itemsOK_nil) ['\n']
    have e : SP.columnNode = [nameItem nm].map (·.1) := rfl
    rw [show colNodeLine nm = recText [nameItem nm] ++ ['\n'] from rfl, e, hp]
    simp only [nameItem, List.map_cons, List.map_nil, strOf, bind, Except.bind, fixName_ljust hL hs, hnd]
    rw [ih tail (fun x hx => h x (List.mem_cons_of_mem _ hx))]
    simp [hnd, pure, Except.pure]

/-! ### the column object -/

theorem lookupNode_name {ns : List GNode} {nm : Str} {nd : GNode} (h : lookupNode ns nm = some nd) : nd.name = nm := by
  unfold lookupNode at h
  have := List.find?_some h
  simpa using this

theorem filterMap_lookup_names {ns : List GNode} : ∀ (names : List Str),
    (∀ nm ∈ names, ∃ nd, lookupNode ns nm = some nd) →
    (names.filterMap (lookupNode ns)).map (·.name) = names := by
  intro names
  induction names with
  | nil => intro _; rfl
  | cons nm r ih =>
    intro h
    obtain ⟨nd, hnd⟩ := h nm (by simp)
    rw [List.filterMap_cons, hnd]
    simp only [List.map_cons, lookupNode_name hnd]
    rw [ih (fun x hx => h x (List.mem_cons_of_mem _ hx))]

theorem mkColumn_eq {L : Nat} {s : Rat} {nodes' : List GNode} {c : GColumn} (h : ColOK L s nodes' c) :
    mkColumn c.name (c.nodes.filterMap (lookupNode nodes'))
      (if c.centreSpecified != 0 then
        match c.centre with
        | .at x y => some (canonC 2 s x, canonC 2 s y)
        | _ => none
       else none) = preColumn s nodes' c := by
  have hnames := filterMap_lookup_names (ns := nodes') c.nodes (fun nm hnm => (h.found nm hnm).2)
  have hpoly : (c.nodes.filterMap (lookupNode nodes')).map (fun n => (n.x.toRat, n.y.toRat)) = nodePositions nodes' c.nodes := rfl
  have hor : ¬ polygonArea (nodePositions nodes' c.nodes) < 0 := Rat.not_lt.mpr h.orient
  have hempty : (c.nodes.filterMap (lookupNode nodes')).isEmpty = c.nodes.isEmpty := by
    have := congrArg List.length hnames
    rw [List.length_map] at this
    cases hn : c.nodes with
    | nil => simp
    | cons a b =>
      rw [hn] at this
      cases hf : (a :: b).filterMap (lookupNode nodes') with
      | nil => rw [hf] at this; simp at this
      | cons _ _ => rfl
  unfold mkColumn preColumn
  simp only [hpoly, hnames, if_neg hor]
  rcases h.centre with h0 | ⟨h1, x, y, hc, _, _⟩
  · simp only [h0, bne_self_eq_false, Bool.false_eq_true, if_false, hempty, centroidCentre]
  · have hb : ((1 : Int) != 0) = true := by decide
    simp only [h1, hb, if_true, hc]

/-! ### the loop of `read_columns` -/

theorem lookupColumn_none {cs : List GColumn} {name : Str} (h : name ∉ cs.map (·.name)) : lookupColumn cs name = none := by
  unfold lookupColumn
  rw [List.find?_eq_none]
  intro x hx
  simp only [decide_eq_true_eq]
  intro e
  exact h (List.mem_map.mpr ⟨x, hx, e⟩)

theorem addColumn_nodes (g : Geo) (c : GColumn) : (addColumn g c).nodes = g.nodes := by
  unfold addColumn; split <;> rfl

theorem foldl_addColumn (cs : List GColumn) (g : Geo) (hd : (g.columns.map (·.name) ++ cs.map (·.name)).Nodup) :
    cs.foldl addColumn g = { g with columns := g.columns ++ cs } := by
  induction cs generalizing g with
  | nil => simp
  | cons c r ih =>
    have hn : c.name ∉ g.columns.map (·.name) := by
      intro hc
      rw [List.nodup_append] at hd
      exact hd.2.2 _ hc _ (by simp) rfl
    have h1 : addColumn g c = { g with columns := g.columns ++ [c] } := by
      unfold addColumn
      rw [lookupColumn_none hn]; rfl
    rw [List.foldl_cons, h1, ih]
    · simp
    · simpa [List.append_assoc] using hd

theorem readColumnsLoop_blank (L : Nat) (s : Rat) (fuel : Nat) (g : Geo) (line : Str) (ls : List Str)
    (h : isBlank line = true) : readColumnsLoop SP L s (fuel + 1) g line ls = .ok (g, ls) := by
  simp [readColumnsLoop, h]

/-- one turn of the loop on the record of column `c` -/
theorem readColumnsLoop_step {L : Nat} {s : Rat} (hL : L ≤ 3) (g : Geo) (c : GColumn) (h : ColOK L s g.nodes c)
    (fuel : Nat) (extra : Str) (rest : List Str) :
    readColumnsLoop SP L s (fuel + 1) g (recText (columnItems s c) ++ '\n' :: extra) (c.nodes.map colNodeLine ++ rest)
      = readColumnsLoop SP L s fuel (addColumn g (preColumn s g.nodes c)) (readline rest).1 (readline rest).2 := by
  obtain ⟨ch, hch, hws⟩ := nonblank_of_name h.name ([intItem 1 c.centreSpecified, intItem 2 c.nodes.length] ++ centreItems s c)
  have hnb : isBlank (recText (columnItems s c) ++ '\n' :: extra) = false :=
    isBlank_false_of_mem (c := ch) (List.mem_append_left _ hch) hws
  rw [readColumnsLoop]
  simp only [hnb, Bool.false_eq_true, if_false]
  have hp := parse_items .default (columnItems s c) (columnItems_ok hL h) ('\n' :: extra)
  rw [columnItems_fields h] at hp
  rw [hp]
  have hnodes := readColumnNodes_run hL g c.nodes rest (fun nm hnm => h.found nm hnm)
  have hmk := mkColumn_eq h
  rcases h.centre with h0 | ⟨h1, x, y, hc, _, _⟩
  · have hv : (columnItems s c).map (·.2.2.2) = [.str (ljust c.name 3), .int 0, .int c.nodes.length, .none, .none] := by
      simp [columnItems, centreItems, h0, nameItem, intItem, noneItem]
    rw [hv]
    simp only [h0, bne_self_eq_false, Bool.false_eq_true, if_false] at hmk
    simp only [strOf, truthyInt, bne_self_eq_false, Bool.false_eq_true, if_false, intOf, bind, Except.bind, pure, Except.pure,
      Int.toNat_natCast, hnodes, fixName_ljust hL h.name, hmk]
  · have hv : (columnItems s c).map (·.2.2.2) = [.str (ljust c.name 3), .int 1, .int c.nodes.length,
        (coordItem 2 s x).2.2.2, (coordItem 2 s y).2.2.2] := by
      simp [columnItems, centreItems, h1, hc, nameItem, intItem]
    rw [hv]
    have hb : ((1 : Int) != 0) = true := by decide
    simp only [h1, hb, if_true, hc] at hmk
    simp only [strOf, truthyInt, hb, if_true, coordItem, fltOf_fin, intOf, bind, Except.bind, pure, Except.pure,
      Int.toNat_natCast, hnodes, fixName_ljust hL h.name]
    rw [← hmk]
    rfl

def columnsTextLines (s : Rat) (cs : List GColumn) : List Str := cs.flatMap (columnTextLines s)

theorem readColumnsLoop_run {L : Nat} {s : Rat} (hL : L ≤ 3) : ∀ (r : List GColumn) (g : Geo) (c0 : GColumn)
    (extra : Str) (fuel : Nat) (tail : List Str),
    r.length + 2 ≤ fuel → (∀ c ∈ c0 :: r, ColOK L s g.nodes c) →
    readColumnsLoop SP L s fuel g (recText (columnItems s c0) ++ '\n' :: extra)
        (c0.nodes.map colNodeLine ++ (columnsTextLines s r ++ ['\n'] :: tail))
      = .ok ((c0 :: r).foldl (fun g c => addColumn g (preColumn s g.nodes c)) g, tail) := by
  intro r
  induction r with
  | nil =>
    intro g c0 extra fuel tail hf hok
    obtain ⟨f', rfl⟩ : ∃ f', fuel = f' + 2 := ⟨fuel - 2, by simp at hf; omega⟩
    rw [readColumnsLoop_step hL g c0 (hok c0 (by simp))]
    simp only [columnsTextLines, List.flatMap_nil, List.nil_append, readline_cons, List.foldl_cons, List.foldl_nil]
    exact readColumnsLoop_blank L s f' _ _ _ isBlank_newline
  | cons c1 r ih =>
    intro g c0 extra fuel tail hf hok
    obtain ⟨f', rfl⟩ : ∃ f', fuel = f' + 1 := ⟨fuel - 1, by simp at hf; omega⟩
    rw [readColumnsLoop_step hL g c0 (hok c0 (by simp))]
    have e : columnsTextLines s (c1 :: r) ++ ['\n'] :: tail
        = (recText (columnItems s c1) ++ ['\n']) :: (c1.nodes.map colNodeLine ++ (columnsTextLines s r ++ ['\n'] :: tail)) := by
      simp [columnsTextLines, columnTextLines]
    rw [e, readline_cons]
    simp only
    rw [show recText (columnItems s c1) ++ ['\n'] = recText (columnItems s c1) ++ '\n' :: [] from rfl]
    rw [ih (addColumn g (preColumn s g.nodes c0)) c1 [] f' tail (by simp at hf ⊢; omega)
      (by
        intro c hc
        rw [addColumn_nodes]
        exact hok c (List.mem_cons_of_mem _ hc))]
    simp only [List.foldl_cons, addColumn_nodes]

theorem foldl_preColumn (s : Rat) (cs : List GColumn) (g : Geo) :
    cs.foldl (fun g c => addColumn g (preColumn s g.nodes c)) g = (cs.map (preColumn s g.nodes)).foldl addColumn g := by
  induction cs generalizing g with
  | nil => rfl
  | cons c r ih =>
    rw [List.foldl_cons, ih, addColumn_nodes]
    rfl

theorem length_columnsTextLines (s : Rat) (cs : List GColumn) : cs.length ≤ (columnsTextLines s cs).length := by
  induction cs with
  | nil => simp [columnsTextLines]
  | cons c r ih =>
    simp only [columnsTextLines, List.flatMap_cons, List.length_append, columnTextLines, List.length_cons] at ih ⊢
    omega

theorem readSection_grid {g : Geo} {L LL : Nat} {s : Rat} (env : Env g L LL s) (cs : List GColumn)
    (hok : ∀ c ∈ cs, ColOK L s g.nodes c) (hd : (g.columns.map (·.name) ++ cs.map (·.name)).Nodup) (tail : List Str) :
    readSection SP .grid g (columnsTextLines s cs ++ ['\n'] :: tail)
      = .ok ({ g with columns := g.columns ++ cs.map (preColumn s g.nodes) }, tail) := by
  unfold readSection
  simp only [env.cl, env.ll, env.sc, bind, Except.bind]
  cases cs with
  | nil =>
    simp only [columnsTextLines, List.flatMap_nil, List.nil_append, readline_cons, List.map_nil, List.append_nil]
    exact readColumnsLoop_blank L s _ _ _ _ isBlank_padded_newline
  | cons c0 r =>
    have e : columnsTextLines s (c0 :: r) ++ ['\n'] :: tail
        = (recText (columnItems s c0) ++ ['\n']) :: (c0.nodes.map colNodeLine ++ (columnsTextLines s r ++ ['\n'] :: tail)) := by
      simp [columnsTextLines, columnTextLines]
    rw [e, readline_cons]
    simp only
    obtain ⟨extra, he⟩ := padstring_line (recText (columnItems s c0))
    rw [he, readColumnsLoop_run env.hL r g c0 extra _ tail _ hok, foldl_preColumn, foldl_addColumn]
    · have hn : ((c0 :: r).map (preColumn s g.nodes)).map (·.name) = (c0 :: r).map (·.name) := by
        simp [preColumn]
      rw [hn]; exact hd
    · have := length_columnsTextLines s r
      simp only [List.length_append, List.length_map, List.length_cons]
      omega

end Proofs.GeoFile
