/-
  C19: the main statements about block_mapping (totality, nearest-ness, existence).
-/
import PyTough.Proofs.MappingBlock
namespace Proofs.Mapping
open Py Model.Mapping

/-- everything `block_mapping` needs from the two mappings, for given geometries -/
structure MapsOK (q : List (Rat × Rat) → Rat × Rat → Nat) (s t : Geo) (cm lm : Dict Str)
    (g0 s0 : Lay) (grest srest : List Lay) : Prop where
  hg : t.lays = g0 :: grest
  hs : s.lays = s0 :: srest
  hcm : columnMapping q s t = .ok cm
  hlm : layerMapping s t = .ok lm
  cols : ∀ c ∈ t.cols, ∃ C, NearestCol s c.centre C ∧ dget cm c.name = .ok C.name
  atmKey : s.atm = 0 → t.atm = 0 → ∃ v, dget cm (atmColName t.conv) = .ok v
  lay0 : dget lm g0.name = .ok s0.name
  lays : ∀ l ∈ grest, ∃ S, NearestLay srest l.centre S ∧ dget lm l.name = .ok S.name

theorem mapsOK_exists (q : List (Rat × Rat) → Rat × Rat → Nat) (hq : IsNearest q) (s t : Geo)
    (hs : SrcWF s) (ht : TgtWF t) :
    ∃ cm lm g0 s0 grest srest, MapsOK q s t cm lm g0 s0 grest srest ∧ srest = s.lays.drop 1 ∧ grest = t.lays.drop 1 := by
  obtain ⟨g0, grest, hg⟩ := ht.lays
  obtain ⟨s0, s1, rest, hsl⟩ := hs.lays
  obtain ⟨cm, hcm, hcols, hatm⟩ := columnMapping_spec q hq s t hs.colsNe ht.names.colNodup
  obtain ⟨lm, hlm, hl0, hlays⟩ := layerMapping_spec s t g0 s0 grest (s1 :: rest) hg hsl (by simp) ht.names.layNodup
  refine ⟨cm, lm, g0, s0, grest, s1 :: rest, ⟨hg, hsl, hcm, hlm, ?_, hatm, hl0, hlays⟩, by rw [hsl]; rfl, by rw [hg]; rfl⟩
  intro c hc
  obtain ⟨C, hC, _, hd⟩ := hcols c hc
  exact ⟨C, hC, hd⟩

/-- the image of an underground target block -/
theorem under_image (q : List (Rat × Rat) → Rat × Rat → Nat) (s t : Geo) (hs : SrcWF s) (ht : TgtWF t)
    (cm lm : Dict Str) (g0 s0 : Lay) (grest srest : List Lay) (hm : MapsOK q s t cm lm g0 s0 grest srest)
    (l : Lay) (c : Col) (hp : (l, c) ∈ t.underPairs) :
    ∃ C S L' v, NearestCol s c.centre C ∧ NearestLay srest l.centre S ∧
      (if C.surface ≤ S.bottom then s.firstBelow C = some L' else L' = S) ∧
      (L', C) ∈ s.underPairs ∧ blockName s.conv L'.name C.name = .ok v ∧
      mapOne s t cm lm (rawName t.conv l.name c.name) = .ok v := by
  obtain ⟨hl, hc, _⟩ := (mem_underPairs t l c).mp hp
  have hl' : l ∈ grest := by rw [hm.hg] at hl; exact hl
  obtain ⟨C, hC, hdc⟩ := hm.cols c hc
  obtain ⟨S, hS, hdl⟩ := hm.lays l hl'
  obtain ⟨L', h1, h2, v, h3, h4⟩ := mapOne_under s t hs ht cm lm g0 s0 grest srest hm.hg hm.hs l c hl' hc C hC.1 hdc S hS.1 hdl
  exact ⟨C, S, L', v, hC, hS, h1, h2, h3, h4⟩

/-- names of the target's underground blocks are the raw concatenations -/
theorem tgt_under_name (t : Geo) (ht : TgtWF t) (l : Lay) (c : Col) (hp : (l, c) ∈ t.underPairs) :
    blockName t.conv l.name c.name = .ok (rawName t.conv l.name c.name) := by
  obtain ⟨hl, hc, _⟩ := (mem_underPairs t l c).mp hp
  apply blockName_inert
  exact ht.inert l (mem_drop_one _ _ hl) c.name (List.mem_cons_of_mem _ (List.mem_map.mpr ⟨c, hc, rfl⟩))

theorem tgt_atm_name (t : Geo) (ht : TgtWF t) (g0 : Lay) (grest : List Lay) (hg : t.lays = g0 :: grest)
    (cn : Str) (hcn : cn ∈ atmColName t.conv :: t.cols.map (·.name)) :
    blockName t.conv g0.name cn = .ok (rawName t.conv g0.name cn) := by
  apply blockName_inert
  exact ht.inert g0 (by rw [hg]; simp) cn hcn

/-- The master statement: under GeoInv for both geometries and outside the two excluded
    atmosphere combinations, `block_mapping` returns, and the returned dict has, for every
    target block, the image described by the property. -/
theorem blockMapping_main (q : List (Rat × Rat) → Rat × Rat → Nat) (hq : IsNearest q) (s t : Geo)
    (hs : SrcWF s) (ht : TgtWF t) (ha : atmOK s t = true) :
    ∃ m cm an un san sun g0 s0,
      blockMapping q s t = .ok (m, cm) ∧
      t.atmNames = .ok an ∧ t.underNames = .ok un ∧ t.blockNameList = .ok (an ++ un) ∧
      s.atmNames = .ok san ∧ s.underNames = .ok sun ∧ s.blockNameList = .ok (san ++ sun) ∧
      t.lays.head? = some g0 ∧ s.lays.head? = some s0 ∧
      (∀ c ∈ t.cols, ∃ C, NearestCol s c.centre C ∧ dget cm c.name = .ok C.name) ∧
      (∀ l c, (l, c) ∈ t.underPairs →
        ∃ C S L' v, NearestCol s c.centre C ∧ NearestLay (s.lays.drop 1) l.centre S ∧
          (if C.surface ≤ S.bottom then s.firstBelow C = some L' else L' = S) ∧
          (L', C) ∈ s.underPairs ∧ blockName s.conv L'.name C.name = .ok v ∧
          rawName t.conv l.name c.name ∈ un ∧ v ∈ sun ∧
          dget m (rawName t.conv l.name c.name) = .ok v) ∧
      (t.atm = 0 → s.atm = 0 ∧ ∃ v, an = [rawName t.conv g0.name (atmColName t.conv)] ∧ san = [v] ∧
          dget m (rawName t.conv g0.name (atmColName t.conv)) = .ok v) ∧
      (t.atm = 1 → ∀ c ∈ t.cols, ∃ C v, NearestCol s c.centre C ∧
          rawName t.conv g0.name c.name ∈ an ∧
          blockName s.conv s0.name (if s.atm = 0 then atmColName s.conv else C.name) = .ok v ∧
          dget m (rawName t.conv g0.name c.name) = .ok v) := by
  obtain ⟨cm, lm, g0, s0, grest, srest, hm, hsr, hgr⟩ := mapsOK_exists q hq s t hs ht
  obtain ⟨an, han, han0, han1, han2⟩ := atmNames_spec t ht.names g0 grest hm.hg
  obtain ⟨un, hun, hunm⟩ := underNames_spec t ht.names ht.dmplex
  obtain ⟨san, hsan, hsan0, hsan1, hsan2⟩ := atmNames_spec s hs.names s0 srest hm.hs
  obtain ⟨sun, hsun, hsunm⟩ := underNames_spec s hs.names hs.dmplex
  have hnames := blockNameList_eq t g0 grest hm.hg an un han hun
  have hsnames := blockNameList_eq s s0 srest hm.hs san sun hsan hsun
  have hs0len : s0.name.length = layLen s.conv := hs.names.layLen s0 (by rw [hm.hs]; simp)
  have hatm : t.atm = 0 → s.atm = 0 := by
    intro h0
    simp only [atmOK, h0, beq_self_eq_true, Bool.true_and, Bool.not_eq_true', bne_eq_false_iff_eq] at ha
    exact ha
  -- every target block has an image
  have hall : ∀ d ∈ an ++ un, ∃ v, mapOne s t cm lm d = .ok v := by
    intro d hd
    rcases List.mem_append.mp hd with hd | hd
    · by_cases h0 : t.atm = 0
      · obtain ⟨n, hn, hane⟩ := han0 h0
        rw [hane] at hd
        simp only [List.mem_singleton] at hd
        subst hd
        rw [tgt_atm_name t ht g0 grest hm.hg _ (by simp)] at hn
        cases hn
        obtain ⟨sc, hsc⟩ := hm.atmKey (hatm h0) h0
        rw [mapOne_atm s t ht cm lm g0 s0 grest srest hm.hg hm.hs _ (atmColName_length _) sc hsc hm.lay0]
        rw [if_pos (hatm h0)]
        exact blockName_ok _ _ _ hs0len (atmColName_length _)
      · by_cases h1 : t.atm = 1
        · obtain ⟨c, hc, hn⟩ := (han1 h1 d).mp hd
          rw [tgt_atm_name t ht g0 grest hm.hg _ (List.mem_cons_of_mem _ (List.mem_map.mpr ⟨c, hc, rfl⟩))] at hn
          cases hn
          obtain ⟨C, hC, hdc⟩ := hm.cols c hc
          rw [mapOne_atm s t ht cm lm g0 s0 grest srest hm.hg hm.hs _ (ht.names.colLen c hc) C.name hdc hm.lay0]
          apply blockName_ok _ _ _ hs0len
          split
          · exact atmColName_length _
          · exact hs.names.colLen C hC.1
        · rw [han2 h0 h1] at hd; cases hd
    · obtain ⟨p, hp, hn⟩ := (hunm d).mp hd
      rw [tgt_under_name t ht p.1 p.2 hp] at hn
      cases hn
      obtain ⟨C, S, L', v, _, _, _, _, _, hv⟩ := under_image q s t hs ht cm lm g0 s0 grest srest hm p.1 p.2 hp
      exact ⟨v, hv⟩
  obtain ⟨m, hbm, hget⟩ := blockMapping_assemble q s t cm lm (an ++ un) hm.hcm hm.hlm hnames hall
  refine ⟨m, cm, an, un, san, sun, g0, s0, hbm, han, hun, hnames, hsan, hsun, hsnames,
    by rw [hm.hg]; rfl, by rw [hm.hs]; rfl, hm.cols, ?_, ?_, ?_⟩
  · intro l c hp
    obtain ⟨C, S, L', v, h1, h2, h3, h4, h5, h6⟩ := under_image q s t hs ht cm lm g0 s0 grest srest hm l c hp
    have hin : rawName t.conv l.name c.name ∈ un := (hunm _).mpr ⟨(l, c), hp, tgt_under_name t ht l c hp⟩
    refine ⟨C, S, L', v, h1, by rw [← hsr]; exact h2, h3, h4, h5, hin, (hsunm v).mpr ⟨(L', C), h4, h5⟩, ?_⟩
    exact hget _ (List.mem_append_right _ hin) v h6
  · intro h0
    obtain ⟨n, hn, hane⟩ := han0 h0
    rw [tgt_atm_name t ht g0 grest hm.hg _ (by simp)] at hn
    cases hn
    obtain ⟨v, hv, hsane⟩ := hsan0 (hatm h0)
    obtain ⟨sc, hsc⟩ := hm.atmKey (hatm h0) h0
    refine ⟨hatm h0, v, hane, hsane, ?_⟩
    apply hget _ (by rw [hane]; simp) v
    rw [mapOne_atm s t ht cm lm g0 s0 grest srest hm.hg hm.hs _ (atmColName_length _) sc hsc hm.lay0, if_pos (hatm h0)]
    exact hv
  · intro h1 c hc
    obtain ⟨C, hC, hdc⟩ := hm.cols c hc
    have hnm := tgt_atm_name t ht g0 grest hm.hg c.name (List.mem_cons_of_mem _ (List.mem_map.mpr ⟨c, hc, rfl⟩))
    have hin : rawName t.conv g0.name c.name ∈ an := (han1 h1 _).mpr ⟨c, hc, hnm⟩
    have hmo := mapOne_atm s t ht cm lm g0 s0 grest srest hm.hg hm.hs _ (ht.names.colLen c hc) C.name hdc hm.lay0
    obtain ⟨v, hv⟩ : ∃ v, blockName s.conv s0.name (if s.atm = 0 then atmColName s.conv else C.name) = .ok v := by
      apply blockName_ok _ _ _ hs0len
      split
      · exact atmColName_length _
      · exact hs.names.colLen C hC.1
    refine ⟨C, v, hC, hin, hv, ?_⟩
    apply hget _ (List.mem_append_left _ hin) v
    rw [hmo, hv]

end Proofs.Mapping
