/-
  C19 (more): the tie rule of `numpy.argmin` (first minimum), `layer_mapping` as an argmin
  characterisation, and a concrete linear-scan nearest-neighbour function `nearestIdx`
  meeting `IsNearest`.
-/
import PyTough.Proofs.MappingProps
namespace Model.Mapping

/-- linear scan: `best` is the index of the best point so far, `bd` its squared distance;
    a later point replaces it only when STRICTLY nearer (so the first minimum wins) -/
def scanNearest (p : Rat × Rat) : List (Rat × Rat) → Nat → Nat → Rat → Nat
  | [], _, best, _ => best
  | x :: xs, i, best, bd =>
    if sqDist x p < bd then scanNearest p xs (i + 1) i (sqDist x p)
    else scanNearest p xs (i + 1) best bd

/-- a concrete nearest-neighbour search: one left-to-right pass over the squared distances
    (exact rationals); index 0 for an empty point set -/
def nearestIdx (pts : List (Rat × Rat)) (p : Rat × Rat) : Nat :=
  match pts with
  | [] => 0
  | x :: xs => scanNearest p xs 1 0 (sqDist x p)

end Model.Mapping

namespace Proofs.Mapping
open Py Model.Mapping

/-! ### argmin: the first minimum -/

/-- `numpy.argmin` returns the FIRST index of the minimum: everything before it is strictly larger -/
theorem argminFirst_first (xs : List Rat) (i : Nat) (h : argminFirst xs = some i) :
    ∃ v, xs[i]? = some v ∧ (∀ x ∈ xs, v ≤ x) ∧ ∀ j w, j < i → xs[j]? = some w → v < w := by
  induction xs generalizing i with
  | nil => simp [argminFirst] at h
  | cons x xs ih =>
    cases hr : argminFirst xs with
    | none =>
      cases xs with
      | nil =>
        simp only [argminFirst] at h
        cases h
        refine ⟨x, by simp, ?_, ?_⟩
        · intro y hy; simp at hy; subst hy; exact Rat.le_refl
        · intro j w hj; omega
      | cons y ys =>
        obtain ⟨k, _, hk, _, _⟩ := argminFirst_spec (y :: ys) (by simp)
        rw [hk] at hr; cases hr
    | some k =>
      obtain ⟨v, h2, h3, h4⟩ := ih k hr
      have hgd : xs.getD k 0 = v := by simp [List.getD, h2]
      simp only [argminFirst, hr, hgd] at h
      by_cases hle : x ≤ v
      · rw [if_pos hle] at h; cases h
        refine ⟨x, by simp, ?_, ?_⟩
        · intro z hz
          rcases List.mem_cons.mp hz with rfl | hz
          · exact Rat.le_refl
          · exact Rat.le_trans hle (h3 z hz)
        · intro j w hj; omega
      · rw [if_neg hle] at h; cases h
        have hlt : v < x := Rat.not_le.mp hle
        refine ⟨v, by simpa using h2, ?_, ?_⟩
        · intro z hz
          rcases List.mem_cons.mp hz with rfl | hz
          · exact Rat.le_of_lt hlt
          · exact h3 z hz
        · intro j w hj hw
          cases j with
          | zero => simp at hw; subst hw; exact hlt
          | succ j => exact h4 j w (by omega) (by simpa using hw)

/-! ### layer_mapping: nearest centre, first among ties -/

/-- `S` at index `i` of `srest` is the FIRST layer of `srest` whose centre is nearest to `z` -/
def FirstNearestLay (srest : List Lay) (z : Rat) (i : Nat) (S : Lay) : Prop :=
  srest[i]? = some S ∧ (∀ X ∈ srest, absQ (S.centre - z) ≤ absQ (X.centre - z)) ∧
    ∀ j X, j < i → srest[j]? = some X → absQ (S.centre - z) < absQ (X.centre - z)

theorem nearestLayer_first (srest : List Lay) (hne : srest ≠ []) (l : Lay) :
    ∃ i S, FirstNearestLay srest l.centre i S ∧ nearestLayer srest l = .ok S := by
  obtain ⟨i, _, h1, _, _⟩ := argminFirst_spec (srest.map (fun s => absQ (s.centre - l.centre))) (by simpa using hne)
  obtain ⟨v, h2, h3, h4⟩ := argminFirst_first _ i h1
  unfold nearestLayer
  rw [h1]
  simp only
  rw [List.getElem?_map] at h2
  cases hS : srest[i]? with
  | none => simp [hS] at h2
  | some S =>
    simp [hS] at h2
    refine ⟨i, S, ⟨hS, ?_, ?_⟩, rfl⟩
    · intro X hX
      rw [h2]
      exact h3 _ (List.mem_map.mpr ⟨X, hX, rfl⟩)
    · intro j X hj hX
      rw [h2]
      exact h4 j _ hj (by rw [List.getElem?_map, hX]; rfl)

/-- `layer_mapping`, for ARBITRARY layer structures (no ordering of centres or bottoms assumed):
    the atmosphere layer goes to the atmosphere layer; every other target layer goes to the
    first source layer (below the atmosphere layer) of minimal |Δcentre|. -/
theorem layerMapping_first (self geo : Geo) (g0 s0 : Lay) (grest srest : List Lay)
    (hg : geo.lays = g0 :: grest) (hs : self.lays = s0 :: srest) (hne : srest ≠ [])
    (hnd : nodupB (geo.lays.map (·.name)) = true) :
    ∃ lm, layerMapping self geo = .ok lm ∧ dget lm g0.name = .ok s0.name ∧
      ∀ l ∈ grest, ∃ i S, FirstNearestLay srest l.centre i S ∧ dget lm l.name = .ok S.name := by
  obtain ⟨lm, hlm, h0, hrest⟩ := layerMapping_spec self geo g0 s0 grest srest hg hs hne hnd
  refine ⟨lm, hlm, h0, ?_⟩
  intro l hl
  obtain ⟨i, S, hF, hn⟩ := nearestLayer_first srest hne l
  refine ⟨i, S, hF, ?_⟩
  -- the value stored is the name of `nearestLayer srest l`
  have hpair : layPair srest l = .ok (l.name, S.name) := by simp [layPair, hn]
  unfold layerMapping at hlm
  rw [hg, hs] at hlm
  simp only at hlm
  cases hps : mapE (layPair srest) grest with
  | error e => rw [hps] at hlm; cases hlm
  | ok ps =>
    rw [hps] at hlm
    cases hlm
    rw [hg] at hnd
    obtain ⟨hnd', hne0⟩ := nodupB_tail (fun (l : Lay) => l.name) g0 grest hnd
    apply dget_dictOf_fun
    · obtain ⟨b, hb, hf⟩ := mapE_mem_left hps l hl
      rw [hpair] at hf; cases hf
      exact ⟨(l.name, S.name), List.mem_cons_of_mem _ hb, rfl⟩
    · intro p hp hk
      rcases List.mem_cons.mp hp with rfl | hp
      · exact absurd hk.symm (hne0 l hl)
      · obtain ⟨l', hl', hf⟩ := mapE_mem_right hps p hp
        have hk' : l'.name = l.name := by
          unfold layPair at hf
          split at hf
          · cases hf; exact hk
          · cases hf
        have : l' = l := nodupB_inj (fun (l : Lay) => l.name) grest hnd' l' hl' l hl hk'
        subst this
        rw [hpair] at hf
        cases hf; rfl

/-! ### the linear scan -/

theorem scanNearest_spec (p : Rat × Rat) (xs pre : List (Rat × Rat)) (best : Nat) (bd : Rat) (y : Rat × Rat)
    (hb : pre[best]? = some y) (hbd : sqDist y p = bd)
    (hmin : ∀ x ∈ pre, bd ≤ sqDist x p)
    (hfirst : ∀ j w, j < best → pre[j]? = some w → bd < sqDist w p) :
    ∃ y', (pre ++ xs)[scanNearest p xs pre.length best bd]? = some y' ∧
      (∀ x ∈ pre ++ xs, sqDist y' p ≤ sqDist x p) ∧
      ∀ j w, j < scanNearest p xs pre.length best bd → (pre ++ xs)[j]? = some w → sqDist y' p < sqDist w p := by
  induction xs generalizing pre best bd y with
  | nil =>
    simp only [scanNearest, List.append_nil]
    exact ⟨y, hb, fun x hx => hbd ▸ hmin x hx, fun j w hj hw => hbd ▸ hfirst j w hj hw⟩
  | cons x xs ih =>
    have hlen : (pre ++ [x]).length = pre.length + 1 := by simp
    have happ : pre ++ x :: xs = (pre ++ [x]) ++ xs := by simp
    have hbl : best < pre.length := by
      rcases Nat.lt_or_ge best pre.length with h | h
      · exact h
      · rw [List.getElem?_eq_none h] at hb; cases hb
    simp only [scanNearest]
    by_cases hlt : sqDist x p < bd
    · rw [if_pos hlt, happ, ← hlen]
      apply ih (pre ++ [x]) pre.length (sqDist x p) x
      · simp
      · rfl
      · intro z hz
        rcases List.mem_append.mp hz with hz | hz
        · exact Rat.le_trans (Rat.le_of_lt hlt) (hmin z hz)
        · simp at hz; subst hz; exact Rat.le_refl
      · intro j w hj hw
        rw [List.getElem?_append_left hj] at hw
        have := hmin w (List.mem_of_getElem? hw)
        grind
    · rw [if_neg hlt, happ, ← hlen]
      apply ih (pre ++ [x]) best bd y
      · rw [List.getElem?_append_left hbl]; exact hb
      · exact hbd
      · intro z hz
        rcases List.mem_append.mp hz with hz | hz
        · exact hmin z hz
        · simp at hz; subst hz; exact Rat.not_lt.mp hlt
      · intro j w hj hw
        rw [List.getElem?_append_left (by omega)] at hw
        exact hfirst j w hj hw

/-- `nearestIdx` returns the index of a point at minimal squared distance, and the first such -/
theorem nearestIdx_first (pts : List (Rat × Rat)) (p : Rat × Rat) (hne : pts ≠ []) :
    ∃ y, pts[nearestIdx pts p]? = some y ∧ (∀ x ∈ pts, sqDist y p ≤ sqDist x p) ∧
      ∀ j w, j < nearestIdx pts p → pts[j]? = some w → sqDist y p < sqDist w p := by
  cases pts with
  | nil => exact absurd rfl hne
  | cons x xs =>
    have := scanNearest_spec p xs [x] 0 (sqDist x p) x (by simp) rfl
      (by intro z hz; simp at hz; subst hz; exact Rat.le_refl)
      (by intro j w hj; omega)
    simpa [nearestIdx] using this

theorem nearestIdx_isNearest : IsNearest nearestIdx := by
  intro pts p hne
  obtain ⟨y, h1, h2, _⟩ := nearestIdx_first pts p hne
  exact ⟨y, h1, h2⟩

end Proofs.Mapping
