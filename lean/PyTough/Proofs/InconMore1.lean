/-
  C13, more proofs (1): which VALUES are written at the field's own precision.

  `FullPrec f (.real r)` (hypothesis of the fixpoint theorem) says "the text `'%w.pe' % r` fits the
  field".  Here it is characterised exactly by the length of that text (`eTextLen`), hence by the
  sign of `r` and the number of digits of its printed exponent, and a sufficient condition is given
  purely on the value (`InDecades a b r`: `r = 0` or `10^-a ≤ |r| < 10^b`).
-/
import PyTough.Proofs.InconFixpoint
namespace Proofs.Incon
open Py Model Model.Incon Model.Names Proofs

/-- the decimal exponent that `'%.{p}e' % r` prints -/
def printedExp (p : Nat) (r : Rat) : Int := (fmtEParts p r.num.natAbs r.den).2

/-- number of characters of `'%.{p}e' % r`: sign, mantissa (`d` or `d.ddd`), `e±`, exponent digits (≥ 2) -/
def eTextLen (p : Nat) (r : Rat) : Nat :=
  (if r < 0 then 1 else 0) + (if p = 0 then 1 else p + 2) + 2 + max 2 (natDigits (printedExp p r).natAbs).length

/-- **exact class**: a real is written at the field's own precision iff its `%e` text is no longer
    than the field -/
theorem fullPrec_real_iff {f : FieldSpec} (ht : f.typ = 'e') (r : Rat) :
    FullPrec f (.real r) ↔ eTextLen (f.prec.getD 6) r ≤ f.width := by
  have hlen : (signChars (decide (r < 0)) ++ fmtEBody (f.prec.getD 6) r.num.natAbs r.den).length =
      eTextLen (f.prec.getD 6) r := by
    rw [List.length_append, fmtEBody_length _ _ _ r.den_pos]
    unfold eTextLen printedExp signChars
    by_cases h : r < 0 <;> simp [h] <;> omega
  unfold FullPrec
  constructor
  · intro h
    obtain ⟨s, hs, hl⟩ := h r rfl
    rw [fmtVal_e_real ht] at hs
    cases hs
    rw [pad_length, hlen] at hl
    omega
  · intro h r' hr'
    cases hr'
    refine ⟨_, fmtVal_e_real ht r, ?_⟩
    rw [pad_length, hlen]
    omega

theorem fullPrec_of_not_real {f : FieldSpec} {v : Val} (h : ∀ r, v ≠ .real r) : FullPrec f v :=
  fun r hr => absurd hr (h r)

/-- the exponent has at most `k` digits iff it is below `10^k` in absolute value -/
theorem expDigits_le_iff (p : Nat) (r : Rat) {k : Nat} (hk : 2 ≤ k) :
    max 2 (natDigits (printedExp p r).natAbs).length ≤ k ↔ (printedExp p r).natAbs < 10 ^ k := by
  rw [← natDigits_length_le_iff (by omega)]
  omega

/-! ### a condition on the value -/

/-- `r = 0`, or `10^-a ≤ |r| < 10^b` (written without division) -/
def InDecades (a b : Nat) (r : Rat) : Prop :=
  r.num.natAbs = 0 ∨ (r.den ≤ r.num.natAbs * 10 ^ a ∧ r.num.natAbs < 10 ^ b * r.den)

instance (a b : Nat) (r : Rat) : Decidable (InDecades a b r) := by unfold InDecades; exact inferInstance

theorem pow10_lt_of_lt {a b : Nat} (h : 10 ^ a < 10 ^ b) : a < b := by
  by_cases hab : a < b
  · exact hab
  · have : 10 ^ b ≤ 10 ^ a := Nat.pow_le_pow_right (by decide) (by omega)
    omega

theorem log10Floor_bounds (n d a b : Nat) (hn : 0 < n) (hd : 0 < d) (h1 : d ≤ n * 10 ^ a) (h2 : n < 10 ^ b * d) :
    -(a : Int) ≤ log10Floor n d ∧ log10Floor n d < (b : Int) := by
  rcases log10Floor_spec n d hn hd with ⟨a', he, l1, l2⟩ | ⟨k, hk, he, l1, l2⟩
  · rw [he]
    refine ⟨by omega, ?_⟩
    have : 10 ^ a' * d < 10 ^ b * d := by omega
    have := pow10_lt_of_lt (Nat.lt_of_mul_lt_mul_right this)
    omega
  · rw [he]
    refine ⟨?_, by omega⟩
    have : n * 10 ^ (k - 1) < n * 10 ^ a := by omega
    have := pow10_lt_of_lt (Nat.lt_of_mul_lt_mul_left this)
    omega

/-- the printed exponent of a value in `[10^-a, 10^b)` lies in `[-a, b]` (`b` itself only through the
    rounding carry `9.99…e(b-1) → 1.00…e b`) -/
theorem printedExp_bounds (p a b : Nat) (r : Rat) (h : InDecades a b r) :
    -(a : Int) ≤ printedExp p r ∧ printedExp p r ≤ (b : Int) := by
  unfold printedExp
  rcases h with h0 | ⟨h1, h2⟩
  · rw [h0, fmtEParts_zero]; simp
  · have hn : 0 < r.num.natAbs := by
      rcases Nat.eq_zero_or_pos r.num.natAbs with h0 | h0
      · rw [h0, Nat.zero_mul] at h1; have := r.den_pos; omega
      · exact h0
    obtain ⟨l1, l2⟩ := log10Floor_bounds _ _ a b hn r.den_pos h1 h2
    rw [fmtEParts_eq _ _ _ (by omega)]
    split <;> simp only <;> omega

theorem printedExp_natAbs_lt (p a b k : Nat) (r : Rat) (h : InDecades a b r) (ha : a < 10 ^ k) (hb : b < 10 ^ k) :
    (printedExp p r).natAbs < 10 ^ k := by
  obtain ⟨h1, h2⟩ := printedExp_bounds p a b r h
  omega

/-- **sufficient class on the value**: in an `e` field with `p ≥ 1` decimals,
    a non-negative value with `10^-a ≤ r < 10^b`, `a, b < 10^k`, fits when `p + 4 + k ≤ width`;
    a negative one needs one more column -/
theorem fullPrec_of_inDecades {f : FieldSpec} (ht : f.typ = 'e') (r : Rat) (a b k : Nat) (hk : 2 ≤ k)
    (h : InDecades a b r) (ha : a < 10 ^ k) (hb : b < 10 ^ k) (hp : f.prec.getD 6 ≠ 0)
    (hw : (if r < 0 then 1 else 0) + f.prec.getD 6 + 4 + k ≤ f.width) : FullPrec f (.real r) := by
  rw [fullPrec_real_iff ht]
  have h1 := (expDigits_le_iff (f.prec.getD 6) r hk).mpr (printedExp_natAbs_lt _ a b k r h ha hb)
  unfold eTextLen
  rw [if_neg hp]
  omega

/-! ### the two field shapes of the incon table: `w = p + 7` (20.13e) and `w = p + 6` (15.9e, 12.6e) -/

/-- in a field one column wider than sign-less two-digit-exponent text (`20.13e`): every non-negative
    value with an exponent of at most 3 digits and every negative one with a 2-digit exponent -/
theorem eTextLen_le_p7 (p : Nat) (hp : p ≠ 0) (r : Rat) :
    eTextLen p r ≤ p + 7 ↔
      ((0 ≤ r ∧ (printedExp p r).natAbs < 1000) ∨ (r < 0 ∧ (printedExp p r).natAbs < 100)) := by
  have h3 := expDigits_le_iff p r (k := 3) (by omega)
  have h2 := expDigits_le_iff p r (k := 2) (by omega)
  unfold eTextLen
  rw [if_neg hp]
  by_cases h : r < 0
  · have hn : ¬ (0 ≤ r) := Rat.not_le.mpr h
    simp only [h, if_true, hn, false_and, true_and, false_or]
    rw [← h2]; omega
  · have hn : 0 ≤ r := Rat.not_lt.mp h
    simp only [h, if_false, hn, false_and, true_and, or_false]
    rw [← h3]; omega

/-- in a field exactly as wide as the sign-less two-digit-exponent text (`15.9e`, `12.6e`): exactly
    the non-negative values with a 2-digit exponent -/
theorem eTextLen_le_p6 (p : Nat) (hp : p ≠ 0) (r : Rat) :
    eTextLen p r ≤ p + 6 ↔ (0 ≤ r ∧ (printedExp p r).natAbs < 100) := by
  have h2 := expDigits_le_iff p r (k := 2) (by omega)
  unfold eTextLen
  rw [if_neg hp]
  by_cases h : r < 0
  · have hn : ¬ (0 ≤ r) := Rat.not_le.mpr h
    simp only [h, if_true, hn, false_and, iff_false]
    omega
  · have hn : 0 ≤ r := Rat.not_lt.mp h
    simp only [h, if_false, hn, true_and]
    rw [← h2]; omega

theorem fullPrec_iff_forall (f : FieldSpec) (v : Val) : FullPrec f v ↔ ∀ r, v = .real r → FullPrec f (.real r) := by
  constructor
  · intro h r hr; rw [← hr]; exact h
  · intro h r hr; exact h r hr r rfl

/-- a `(p+7).p e` field (`20.13e`), any value -/
theorem fullPrec_p7_iff {f : FieldSpec} (ht : f.typ = 'e') {p : Nat} (hp : f.prec.getD 6 = p) (hp0 : p ≠ 0)
    (hw : f.width = p + 7) (v : Val) :
    FullPrec f v ↔ ∀ r, v = .real r →
      ((0 ≤ r ∧ (printedExp p r).natAbs < 1000) ∨ (r < 0 ∧ (printedExp p r).natAbs < 100)) := by
  rw [fullPrec_iff_forall]
  constructor
  · intro h r hr
    have := (fullPrec_real_iff ht r).mp (h r hr)
    rw [hp, hw] at this
    exact (eTextLen_le_p7 p hp0 r).mp this
  · intro h r hr
    rw [fullPrec_real_iff ht, hp, hw]
    exact (eTextLen_le_p7 p hp0 r).mpr (h r hr)

/-- a `(p+6).p e` field (`15.9e`), any value -/
theorem fullPrec_p6_iff {f : FieldSpec} (ht : f.typ = 'e') {p : Nat} (hp : f.prec.getD 6 = p) (hp0 : p ≠ 0)
    (hw : f.width = p + 6) (v : Val) :
    FullPrec f v ↔ ∀ r, v = .real r → (0 ≤ r ∧ (printedExp p r).natAbs < 100) := by
  rw [fullPrec_iff_forall]
  constructor
  · intro h r hr
    have := (fullPrec_real_iff ht r).mp (h r hr)
    rw [hp, hw] at this
    exact (eTextLen_le_p6 p hp0 r).mp this
  · intro h r hr
    rw [fullPrec_real_iff ht, hp, hw]
    exact (eTextLen_le_p6 p hp0 r).mpr (h r hr)

end Proofs.Incon
