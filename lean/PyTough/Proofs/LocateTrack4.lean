/-
  Proofs about the model of column_track (continued): the track of the reversed line; soundness of
  the decidable hypothesis checkers of Model/Track.lean.
-/
import PyTough.Proofs.LocateTrack3

namespace Proofs.Track
open Model.Locate Model.Track Proofs.Locate

/-! ## 5. the track of the reversed line -/

/-- the same entry seen from the other end of the line -/
def flipSeg (s : Seg) : Seg := ⟨s.col, s.pout, s.pin, 1 - s.sout, 1 - s.sin⟩

theorem flipSeg_flipSeg (s : Seg) : flipSeg (flipSeg s) = s := by
  cases s
  simp only [flipSeg, Seg.mk.injEq, true_and]
  constructor <;> ring

def nearOf (c1 c2 : Cross) : Cross := if c1.t ≤ c2.t then c1 else c2
def farOf (c1 c2 : Cross) : Cross := if c1.t ≤ c2.t then c2 else c1

/-- the entry of a column with nearer crossing `n` and farther crossing `f` -/
def segOf (ci : Nat) (a b : Pt) (n f : Cross) (isS isE : Bool) : Seg :=
  if isS then ⟨ci, a, f.pt, 0, f.t⟩ else if isE then ⟨ci, n.pt, b, n.t, 1⟩ else ⟨ci, n.pt, f.pt, n.t, f.t⟩

theorem colSeg_nil {g : Geo} {a b : Pt} {ci : Nat} (h : crossings (g.poly ci) a b = []) (isS isE : Bool) :
    colSeg g a b ci isS isE = .ok none := by
  unfold colSeg linePolygonIntersectionsT
  rw [h]

/-- the value of a column's entry when it is crossed at exactly two points far enough apart -/
theorem colSeg_value {g : Geo} {a b : Pt} {ci : Nat} {c1 c2 : Cross}
    (hcs : crossings (g.poly ci) a b = [c1, c2]) (h10 : 0 ≤ c1.t) (h11 : c1.t ≤ 1) (h20 : 0 ≤ c2.t) (h21 : c2.t ≤ 1)
    (hS : 0 < maxSideSq (g.poly ci))
    (hlong : maxSideSq (g.poly ci) / 1000000 < (c2.t - c1.t) * (c2.t - c1.t) * distSq a b)
    (isS isE : Bool) {r : Option Seg} (h : colSeg g a b ci isS isE = .ok r) :
    r = some (segOf ci a b (nearOf c1 c2) (farOf c1 c2) isS isE) := by
  have hL : 0 ≤ distSq a b := distSq_nonneg a b
  unfold colSeg at h
  cases hl : linePolygonIntersectionsT (g.poly ci) a b with
  | unstable w => rw [hl] at h; cases h
  | ok pts =>
    rw [hl] at h
    have hpts := lpiT_two hcs h10 h20 hS hlong hl
    obtain ⟨hnf, hn0, hf1, hnle, hd⟩ : pts = [nearOf c1 c2, farOf c1 c2] ∧ 0 ≤ (nearOf c1 c2).t ∧ (farOf c1 c2).t ≤ 1 ∧
        (nearOf c1 c2).t ≤ (farOf c1 c2).t ∧
        ((farOf c1 c2).t - (nearOf c1 c2).t) * ((farOf c1 c2).t - (nearOf c1 c2).t) = (c2.t - c1.t) * (c2.t - c1.t) := by
      unfold nearOf farOf
      by_cases hle : c1.t ≤ c2.t
      · rw [if_pos hle] at hpts; rw [if_pos hle, if_pos hle]; exact ⟨hpts, h10, h21, hle, rfl⟩
      · rw [if_neg hle] at hpts; rw [if_neg hle, if_neg hle]; exact ⟨hpts, h20, h11, (not_le.mp hle).le, by ring⟩
    generalize nearOf c1 c2 = n at hnf hn0 hnle hd ⊢
    generalize farOf c1 c2 = f at hnf hf1 hnle hd ⊢
    subst hnf
    simp only [List.getLast?_cons_cons, List.getLast?_singleton, Option.getD_some] at h
    have hf0 : 0 ≤ f.t := le_trans hn0 hnle
    have an : n.t.abs = n.t := Rat.abs_of_nonneg hn0
    have af : f.t.abs = f.t := Rat.abs_of_nonneg hf0
    have a0 : (0 : Rat).abs = 0 := Rat.abs_of_nonneg (le_refl 0)
    have a1 : (1 : Rat).abs = 1 := Rat.abs_of_nonneg (by decide +kernel)
    have key : ∀ (ti tu : Rat), (f.t - n.t) * (f.t - n.t) ≤ (tu.abs - ti.abs) * (tu.abs - ti.abs) →
        maxSideSq (g.poly ci) / 1000000 < (tu.abs - ti.abs) * (tu.abs - ti.abs) * distSq a b := by
      intro ti tu hge
      have : (f.t - n.t) * (f.t - n.t) * distSq a b ≤ (tu.abs - ti.abs) * (tu.abs - ti.abs) * distSq a b :=
        mul_le_mul_of_nonneg_right hge hL
      rw [hd] at this; linarith
    unfold segOf
    cases isS with
    | true =>
      simp only [if_true] at h ⊢
      cases hle : longEnough (g.poly ci) (distSq a b) 0 f.t with
      | unstable w => rw [hle] at h; cases h
      | ok r' =>
        have := longEnough_true hle (key 0 f.t (by rw [a0, af]; nlinarith))
        subst this
        rw [hle] at h
        injection h with h; exact h.symm
    | false =>
      cases isE with
      | true =>
        simp only [Bool.false_eq_true, if_false, if_true] at h ⊢
        cases hle : longEnough (g.poly ci) (distSq a b) n.t 1 with
        | unstable w => rw [hle] at h; cases h
        | ok r' =>
          have := longEnough_true hle (key n.t 1 (by rw [a1, an]; nlinarith))
          subst this
          rw [hle] at h
          injection h with h; exact h.symm
      | false =>
        simp only [Bool.false_eq_true, if_false] at h ⊢
        cases hle : longEnough (g.poly ci) (distSq a b) n.t f.t with
        | unstable w => rw [hle] at h; cases h
        | ok r' =>
          have := longEnough_true hle (key n.t f.t (by rw [an, af]))
          subst this
          rw [hle] at h
          injection h with h; exact h.symm

theorem distSq_comm (a b : Pt) : distSq a b = distSq b a := by unfold distSq; ring

theorem segOf_flip (ci : Nat) (a b : Pt) (n f : Cross) (isS isE : Bool) (h : ¬ (isS = true ∧ isE = true)) :
    segOf ci b a (Cross.rev f) (Cross.rev n) isE isS = flipSeg (segOf ci a b n f isS isE) := by
  unfold segOf flipSeg Cross.rev
  cases isS <;> cases isE <;> simp at h ⊢


/-- `col == start_col` at the time column `ci` is processed, when at most one column contains the
    line's start point -/
theorem flag_eq {g : Geo} {p : Pt} {ci : Nat} {o : Option Nat} (hu : UniqueAt g p)
    (hinv : ∀ c, o = some c → g.containsPoint c p = true) :
    ((if o.isNone && g.containsPoint ci p then some ci else o) == some ci) = g.containsPoint ci p ∧
    ∀ c, (if o.isNone && g.containsPoint ci p then some ci else o) = some c → g.containsPoint c p = true := by
  cases hcp : g.containsPoint ci p with
  | true =>
    cases o with
    | none => simp [hcp]
    | some c =>
      have := hu c ci (hinv c rfl) hcp
      subst this
      simp [hcp]
  | false =>
    cases o with
    | none => simp
    | some c =>
      have hc := hinv c rfl
      have : c ≠ ci := fun h => by subst h; rw [hcp] at hc; cases hc
      simp only [Option.isNone_some, Bool.false_and, Bool.false_eq_true, if_false]
      exact ⟨by simpa using this, fun c' hc' => hinv c' hc'⟩

/-- which entries the loop appends, when the line does not lie within one column and its end points
    are each in at most one column -/
theorem trackLoop_mem_iff {g : Geo} {a b : Pt}
    (hnb : ∀ c, ¬ (g.containsPoint c a = true ∧ g.containsPoint c b = true))
    (hua : UniqueAt g a) (hub : UniqueAt g b) :
    ∀ (cis : List Nat) (st st' : TState),
      (∀ c, st.startCol = some c → g.containsPoint c a = true) → (∀ c, st.endCol = some c → g.containsPoint c b = true) →
      trackLoop g a b cis st = .ok st' →
      (∀ s, s ∈ st'.track ↔ s ∈ st.track ∨ ∃ ci ∈ cis, lineIntersectsRectangle (g.bbox ci) a b = some true ∧
          colSeg g a b ci (g.containsPoint ci a) (g.containsPoint ci b) = .ok (some s)) ∧
      (∀ ci ∈ cis, lineIntersectsRectangle (g.bbox ci) a b = some true →
          ∃ r, colSeg g a b ci (g.containsPoint ci a) (g.containsPoint ci b) = .ok r) := by
  intro cis
  induction cis with
  | nil =>
    intro st st' _ _ h
    simp only [trackLoop] at h; injection h with h; subst h
    exact ⟨fun s => ⟨fun hs => Or.inl hs, fun hs => hs.elim id (fun ⟨ci, hci, _⟩ => nomatch hci)⟩, fun ci hci => nomatch hci⟩
  | cons cj rest ih =>
    intro st st' hs he h
    simp only [trackLoop] at h
    cases hl : lineIntersectsRectangle (g.bbox cj) a b with
    | none => rw [hl] at h; cases h
    | some v =>
      rw [hl] at h
      cases v with
      | false =>
        simp only at h
        obtain ⟨i1, i2⟩ := ih st st' hs he h
        constructor
        · intro s
          rw [i1 s]
          constructor
          · rintro (h1 | ⟨ci, hci, h2⟩)
            · exact Or.inl h1
            · exact Or.inr ⟨ci, List.mem_cons_of_mem _ hci, h2⟩
          · rintro (h1 | ⟨ci, hci, h2, h3⟩)
            · exact Or.inl h1
            · simp only [List.mem_cons] at hci
              rcases hci with rfl | hci
              · rw [hl] at h2; cases h2
              · exact Or.inr ⟨ci, hci, h2, h3⟩
        · intro ci hci hlir
          simp only [List.mem_cons] at hci
          rcases hci with rfl | hci
          · rw [hl] at hlir; cases hlir
          · exact i2 ci hci hlir
      | true =>
        simp only at h
        -- the state after the two conditional updates
        have hst1s : (if st.startCol.isNone && g.containsPoint cj a then { st with startCol := some cj } else st).startCol
            = if st.startCol.isNone && g.containsPoint cj a then some cj else st.startCol := by split <;> rfl
        have hst1e : (if st.startCol.isNone && g.containsPoint cj a then { st with startCol := some cj } else st).endCol = st.endCol := by
          split <;> rfl
        have hst1t : (if st.startCol.isNone && g.containsPoint cj a then { st with startCol := some cj } else st).track = st.track := by
          split <;> rfl
        generalize (if st.startCol.isNone && g.containsPoint cj a then { st with startCol := some cj } else st) = st1 at h hst1s hst1e hst1t
        have hst2s : (if st1.endCol.isNone && g.containsPoint cj b then { st1 with endCol := some cj } else st1).startCol = st1.startCol := by
          split <;> rfl
        have hst2e : (if st1.endCol.isNone && g.containsPoint cj b then { st1 with endCol := some cj } else st1).endCol
            = if st1.endCol.isNone && g.containsPoint cj b then some cj else st1.endCol := by split <;> rfl
        have hst2t : (if st1.endCol.isNone && g.containsPoint cj b then { st1 with endCol := some cj } else st1).track = st1.track := by
          split <;> rfl
        generalize (if st1.endCol.isNone && g.containsPoint cj b then { st1 with endCol := some cj } else st1) = st2 at h hst2s hst2e hst2t
        have fs := flag_eq (ci := cj) hua hs
        have fe := flag_eq (ci := cj) hub he
        have hS : (st2.startCol == some cj) = g.containsPoint cj a := by rw [hst2s, hst1s]; exact fs.1
        have hE : (st2.endCol == some cj) = g.containsPoint cj b := by rw [hst2e, hst1e]; exact fe.1
        have hs2 : ∀ c, st2.startCol = some c → g.containsPoint c a = true := by rw [hst2s, hst1s]; exact fs.2
        have he2 : ∀ c, st2.endCol = some c → g.containsPoint c b = true := by rw [hst2e, hst1e]; exact fe.2
        have ht2 : st2.track = st.track := hst2t.trans hst1t
        rw [hS, hE] at h
        split at h
        · rename_i hbr
          simp only [Bool.and_eq_true] at hbr
          exact absurd hbr (hnb cj)
        · cases hseg : colSeg g a b cj (g.containsPoint cj a) (g.containsPoint cj b) with
          | unstable w => rw [hseg] at h; cases h
          | ok r =>
            rw [hseg] at h
            cases r with
            | none =>
              simp only at h
              obtain ⟨i1, i2⟩ := ih st2 st' hs2 he2 h
              constructor
              · intro s
                rw [i1 s, ht2]
                constructor
                · rintro (h1 | ⟨ci, hci, h2⟩)
                  · exact Or.inl h1
                  · exact Or.inr ⟨ci, List.mem_cons_of_mem _ hci, h2⟩
                · rintro (h1 | ⟨ci, hci, h2, h3⟩)
                  · exact Or.inl h1
                  · simp only [List.mem_cons] at hci
                    rcases hci with rfl | hci
                    · rw [hseg] at h3; cases h3
                    · exact Or.inr ⟨ci, hci, h2, h3⟩
              · intro ci hci hlir
                simp only [List.mem_cons] at hci
                rcases hci with rfl | hci
                · exact ⟨none, hseg⟩
                · exact i2 ci hci hlir
            | some s0 =>
              simp only at h
              obtain ⟨i1, i2⟩ := ih { st2 with track := st2.track ++ [s0] } st' hs2 he2 h
              constructor
              · intro s
                rw [i1 s]
                simp only [ht2, List.mem_append, List.mem_singleton]
                constructor
                · rintro ((h1 | rfl) | ⟨ci, hci, h2⟩)
                  · exact Or.inl h1
                  · exact Or.inr ⟨cj, List.mem_cons_self, hl, hseg⟩
                  · exact Or.inr ⟨ci, List.mem_cons_of_mem _ hci, h2⟩
                · rintro (h1 | ⟨ci, hci, h2, h3⟩)
                  · exact Or.inl (Or.inl h1)
                  · simp only [List.mem_cons] at hci
                    rcases hci with rfl | hci
                    · rw [hseg] at h3; injection h3 with h3; injection h3 with h3
                      exact Or.inl (Or.inr h3.symm)
                    · exact Or.inr ⟨ci, hci, h2, h3⟩
              · intro ci hci hlir
                simp only [List.mem_cons] at hci
                rcases hci with rfl | hci
                · exact ⟨some s0, hseg⟩
                · exact i2 ci hci hlir

theorem lpiT_one {poly : Poly} {a b : Pt} {c : Cross} {pts : List Cross} (hcs : crossings poly a b = [c])
    (h : linePolygonIntersectionsT poly a b = .ok pts) : pts = [c] := by
  unfold linePolygonIntersectionsT at h
  rw [hcs] at h
  simp only [roundAll] at h
  split at h
  · cases h
  · rename_i uniq hu
    injection h with h; subst h
    split at hu
    · rename_i k _
      injection hu with hu; subst hu
      simp [insertUnique]
    · cases hu

theorem longEnough_congr {poly : Poly} {L2 L2' ti tu ti' tu' : Rat} (hL : L2 = L2')
    (h : (tu.abs - ti.abs) * (tu.abs - ti.abs) = (tu'.abs - ti'.abs) * (tu'.abs - ti'.abs)) :
    longEnough poly L2 ti tu = longEnough poly L2' ti' tu' := by
  unfold longEnough
  simp only [h, hL]

/-- a column with a single crossing (the start or end column, or a column touched at one point)
    gives the same entry, flipped, for the reversed line -/
theorem colSeg_one_reverse {g : Geo} {a b : Pt} {ci : Nat} {c : Cross} (hcs : crossings (g.poly ci) a b = [c])
    (h0 : 0 ≤ c.t) (h1 : c.t ≤ 1) (isS isE : Bool) (hse : ¬ (isS = true ∧ isE = true)) {r r' : Option Seg}
    (h : colSeg g a b ci isS isE = .ok r) (h' : colSeg g b a ci isE isS = .ok r') : r' = r.map flipSeg := by
  have hcs' : crossings (g.poly ci) b a = [Cross.rev c] := by rw [crossings_reverse, hcs]; rfl
  have ac : c.t.abs = c.t := Rat.abs_of_nonneg h0
  have ac' : (1 - c.t).abs = 1 - c.t := Rat.abs_of_nonneg (by linarith)
  have a0 : (0 : Rat).abs = 0 := Rat.abs_of_nonneg (le_refl 0)
  have a1 : (1 : Rat).abs = 1 := Rat.abs_of_nonneg (by decide +kernel)
  unfold colSeg at h h'
  cases hl : linePolygonIntersectionsT (g.poly ci) a b with
  | unstable w => rw [hl] at h; cases h
  | ok pts =>
    cases hl' : linePolygonIntersectionsT (g.poly ci) b a with
    | unstable w => rw [hl'] at h'; cases h'
    | ok pts' =>
      rw [hl] at h; rw [hl'] at h'
      have e := lpiT_one hcs hl
      have e' := lpiT_one hcs' hl'
      subst e; subst e'
      simp only [List.getLast?_singleton, Option.getD_some] at h h'
      cases isS with
      | true =>
        cases isE with
        | true => exact absurd ⟨rfl, rfl⟩ hse
        | false =>
          simp only [if_true, Bool.false_eq_true, if_false] at h h'
          have hc := longEnough_congr (poly := g.poly ci) (distSq_comm b a)
            (show ((1 : Rat).abs - (Cross.rev c).t.abs) * ((1 : Rat).abs - (Cross.rev c).t.abs) = (c.t.abs - (0 : Rat).abs) * (c.t.abs - (0 : Rat).abs) by
              simp only [Cross.rev, a0, a1, ac, ac']; ring)
          rw [hc] at h'
          cases hle : longEnough (g.poly ci) (distSq a b) 0 c.t with
          | unstable w => rw [hle] at h; cases h
          | ok v =>
            rw [hle] at h h'
            cases v with
            | true =>
              injection h with h; injection h' with h'; subst h; subst h'
              simp [flipSeg, Cross.rev]
            | false =>
              injection h with h; injection h' with h'; subst h; subst h'; rfl
      | false =>
        cases isE with
        | true =>
          simp only [if_true, Bool.false_eq_true, if_false] at h h'
          have hc := longEnough_congr (poly := g.poly ci) (distSq_comm b a)
            (show ((Cross.rev c).t.abs - (0 : Rat).abs) * ((Cross.rev c).t.abs - (0 : Rat).abs) = ((1 : Rat).abs - c.t.abs) * ((1 : Rat).abs - c.t.abs) by
              simp only [Cross.rev, a0, a1, ac, ac']; ring)
          rw [hc] at h'
          cases hle : longEnough (g.poly ci) (distSq a b) c.t 1 with
          | unstable w => rw [hle] at h; cases h
          | ok v =>
            rw [hle] at h h'
            cases v with
            | true =>
              injection h with h; injection h' with h'; subst h; subst h'
              simp [flipSeg, Cross.rev]
            | false =>
              injection h with h; injection h' with h'; subst h; subst h'; rfl
        | false =>
          simp only [Bool.false_eq_true, if_false] at h h'
          have hc := longEnough_congr (poly := g.poly ci) (distSq_comm b a)
            (show ((Cross.rev c).t.abs - (Cross.rev c).t.abs) * ((Cross.rev c).t.abs - (Cross.rev c).t.abs) = (c.t.abs - c.t.abs) * (c.t.abs - c.t.abs) by
              ring)
          rw [hc] at h'
          cases hle : longEnough (g.poly ci) (distSq a b) c.t c.t with
          | unstable w => rw [hle] at h; cases h
          | ok v =>
            rw [hle] at h h'
            cases v with
            | true =>
              injection h with h; injection h' with h'; subst h; subst h'
              simp [flipSeg, Cross.rev]
            | false =>
              injection h with h; injection h' with h'; subst h; subst h'; rfl

theorem CrossedLong_rev {g : Geo} {a b : Pt} {ci : Nat} (h : CrossedLong g a b ci) : CrossedLong g b a ci := by
  obtain ⟨c1, c2, hcs, h10, h11, h20, h21, hlong⟩ := h.two
  refine ⟨⟨Cross.rev c1, Cross.rev c2, by rw [crossings_reverse, hcs]; rfl, ?_, ?_, ?_, ?_, ?_⟩, h.side⟩
  all_goals simp only [Cross.rev]
  · linarith
  · linarith
  · linarith
  · linarith
  · rw [← distSq_comm a b]
    have e : (1 - c2.t - (1 - c1.t)) * (1 - c2.t - (1 - c1.t)) = (c2.t - c1.t) * (c2.t - c1.t) := by ring
    rw [e]; exact hlong

/-- the hypotheses of the direction-independence theorem (all decidable; evaluated by the driver on
    every explored line) -/
structure RevHyp (g : Geo) (a b : Pt) : Prop where
  notInOne : ∀ c, ¬ (g.containsPoint c a = true ∧ g.containsPoint c b = true)
  uniqueA : UniqueAt g a
  uniqueB : UniqueAt g b
  boxSym : ∀ ci, ci < g.ncols → lineIntersectsRectangle (g.bbox ci) a b = lineIntersectsRectangle (g.bbox ci) b a
  clean : ∀ ci, ci < g.ncols → lineIntersectsRectangle (g.bbox ci) a b = some true →
    crossings (g.poly ci) a b = [] ∨ CrossedLong g a b ci ∨
    ∃ c, crossings (g.poly ci) a b = [c] ∧ 0 ≤ c.t ∧ c.t ≤ 1

theorem RevHyp.symm {g : Geo} {a b : Pt} (h : RevHyp g a b) : RevHyp g b a where
  notInOne := fun c hc => h.notInOne c ⟨hc.2, hc.1⟩
  uniqueA := h.uniqueB
  uniqueB := h.uniqueA
  boxSym := fun ci hci => (h.boxSym ci hci).symm
  clean := fun ci hci hl => by
    rcases h.clean ci hci (by rw [h.boxSym ci hci]; exact hl) with hn | hc | ⟨c, hc, h0, h1⟩
    · left; rw [crossings_reverse, hn]; rfl
    · right; left; exact CrossedLong_rev hc
    · right; right
      exact ⟨Cross.rev c, by rw [crossings_reverse, hc]; rfl, by simp only [Cross.rev]; linarith, by simp only [Cross.rev]; linarith⟩

theorem track_reverse_imp {g : Geo} {a b : Pt} {T T' : List Seg} (hyp : RevHyp g a b)
    (h : columnTrack g a b = .ok T) (h' : columnTrack g b a = .ok T') :
    ∀ s ∈ T, flipSeg s ∈ T' := by
  obtain ⟨st, hst, hmem⟩ := columnTrack_mem h
  obtain ⟨st', hst', hmem'⟩ := columnTrack_mem h'
  have m := trackLoop_mem_iff hyp.notInOne hyp.uniqueA hyp.uniqueB (List.range g.ncols) {} st
    (fun c hc => nomatch hc) (fun c hc => nomatch hc) hst
  have hyp' := hyp.symm
  have m' := trackLoop_mem_iff hyp'.notInOne hyp'.uniqueA hyp'.uniqueB (List.range g.ncols) {} st'
    (fun c hc => nomatch hc) (fun c hc => nomatch hc) hst'
  intro s hs
  rcases (m.1 s).mp ((hmem s).mp hs) with hnil | ⟨ci, hci, hlir, hseg⟩
  · cases hnil
  · have hlt : ci < g.ncols := List.mem_range.mp hci
    have hlir' : lineIntersectsRectangle (g.bbox ci) b a = some true := by rw [← hyp.boxSym ci hlt]; exact hlir
    rcases hyp.clean ci hlt hlir with hn | hc | ⟨c, hc1, hc0, hc1'⟩
    · rw [colSeg_nil hn] at hseg; cases hseg
    · obtain ⟨c1, c2, hcs, h10, h11, h20, h21, hlong⟩ := hc.two
      have hv := colSeg_value hcs h10 h11 h20 h21 hc.side hlong _ _ hseg
      injection hv with hv
      -- the reversed run
      obtain ⟨r', hr'⟩ := m'.2 ci hci hlir'
      have hcs' : crossings (g.poly ci) b a = [Cross.rev c1, Cross.rev c2] := by rw [crossings_reverse, hcs]; rfl
      have hlong' : maxSideSq (g.poly ci) / 1000000 <
          ((Cross.rev c2).t - (Cross.rev c1).t) * ((Cross.rev c2).t - (Cross.rev c1).t) * distSq b a := by
        simp only [Cross.rev]
        rw [← distSq_comm a b]
        have e : (1 - c2.t - (1 - c1.t)) * (1 - c2.t - (1 - c1.t)) = (c2.t - c1.t) * (c2.t - c1.t) := by ring
        rw [e]; exact hlong
      have hv' := colSeg_value hcs' (by simp only [Cross.rev]; linarith) (by simp only [Cross.rev]; linarith)
        (by simp only [Cross.rev]; linarith) (by simp only [Cross.rev]; linarith) hc.side hlong' _ _ hr'
      -- the two crossings are at different parameters
      have hne : c1.t ≠ c2.t := by
        intro heq
        rw [heq, sub_self, zero_mul, zero_mul] at hlong
        have := hc.side
        linarith
      have hnear : nearOf (Cross.rev c1) (Cross.rev c2) = Cross.rev (farOf c1 c2) ∧
          farOf (Cross.rev c1) (Cross.rev c2) = Cross.rev (nearOf c1 c2) := by
        by_cases hle : c1.t ≤ c2.t
        · have hlt' : c1.t < c2.t := lt_of_le_of_ne hle hne
          have : ¬ (1 - c1.t ≤ 1 - c2.t) := by intro hh; linarith
          simp [nearOf, farOf, Cross.rev, hle, this]
        · have : 1 - c1.t ≤ 1 - c2.t := by linarith [not_le.mp hle]
          simp [nearOf, farOf, Cross.rev, hle, this]
      rw [hnear.1, hnear.2, segOf_flip ci a b _ _ _ _ (by
        intro hb; exact hyp.notInOne ci hb)] at hv'
      rw [hv', ← hv] at hr'
      exact (hmem' _).mpr ((m'.1 _).mpr (Or.inr ⟨ci, hci, hlir', hr'⟩))
    · obtain ⟨r', hr'⟩ := m'.2 ci hci hlir'
      have := colSeg_one_reverse hc1 hc0 hc1' _ _ (fun hb => hyp.notInOne ci hb) hseg hr'
      rw [this] at hr'
      exact (hmem' _).mpr ((m'.1 _).mpr (Or.inr ⟨ci, hci, hlir', hr'⟩))

/-- **(4c) direction independence**: under `RevHyp`, the track of the reversed line consists of the
    same columns with the same entry/exit points exchanged (as sets of entries) -/
theorem track_reverse {g : Geo} {a b : Pt} {T T' : List Seg} (hyp : RevHyp g a b)
    (h : columnTrack g a b = .ok T) (h' : columnTrack g b a = .ok T') :
    ∀ s, s ∈ T ↔ flipSeg s ∈ T' := by
  intro s
  constructor
  · exact track_reverse_imp hyp h h' s
  · intro hs
    have := track_reverse_imp hyp.symm h' h _ hs
    rw [flipSeg_flipSeg] at this
    exact this

/-! ## 6. the decidable checkers imply the hypotheses -/

theorem crossedLongB_sound {g : Geo} {a b : Pt} {ci : Nat} (h : crossedLongB g a b ci = true) : CrossedLong g a b ci := by
  unfold crossedLongB at h
  split at h
  · rename_i c1 c2 hcs
    simp only [Bool.and_eq_true, decide_eq_true_eq] at h
    obtain ⟨⟨⟨⟨⟨h1, h2⟩, h3⟩, h4⟩, h5⟩, h6⟩ := h
    exact ⟨⟨c1, c2, hcs, h1, h2, h3, h4, h5⟩, h6⟩
  · cases h

theorem uniqueAtB_sound {g : Geo} {p : Pt} (h : uniqueAtB g p = true) : UniqueAt g p := by
  unfold uniqueAtB at h
  simp only [decide_eq_true_eq] at h
  intro c1 c2 h1 h2
  have m1 : c1 ∈ (List.range g.ncols).filter fun c => g.containsPoint c p :=
    List.mem_filter.mpr ⟨List.mem_range.mpr (containsPoint_lt h1), h1⟩
  have m2 : c2 ∈ (List.range g.ncols).filter fun c => g.containsPoint c p :=
    List.mem_filter.mpr ⟨List.mem_range.mpr (containsPoint_lt h2), h2⟩
  generalize (List.range g.ncols).filter (fun c => g.containsPoint c p) = l at h m1 m2
  match l, h, m1, m2 with
  | [x], _, m1, m2 =>
    simp only [List.mem_singleton] at m1 m2
    rw [m1, m2]
  | x :: y :: t, h, _, _ => simp only [List.length_cons] at h; omega

theorem notInOneB_sound {g : Geo} {a b : Pt} (h : notInOneB g a b = true) :
    ∀ c, ¬ (g.containsPoint c a = true ∧ g.containsPoint c b = true) := by
  unfold notInOneB at h
  rw [List.all_eq_true] at h
  intro c ⟨h1, h2⟩
  have := h c (List.mem_range.mpr (containsPoint_lt h1))
  simp [h1, h2] at this

theorem revHypB_sound {g : Geo} {a b : Pt} (h : revHypB g a b = true) : RevHyp g a b := by
  unfold revHypB at h
  simp only [Bool.and_eq_true] at h
  obtain ⟨⟨⟨⟨h1, h2⟩, h3⟩, h4⟩, h5⟩ := h
  refine ⟨notInOneB_sound h1, uniqueAtB_sound h2, uniqueAtB_sound h3, ?_, ?_⟩
  · intro ci hci
    unfold boxSymB at h4
    rw [List.all_eq_true] at h4
    have := h4 ci (List.mem_range.mpr hci)
    simpa using this
  · intro ci hci hl
    unfold cleanB at h5
    rw [List.all_eq_true] at h5
    have := h5 ci (List.mem_range.mpr hci)
    simp only [hl, beq_self_eq_true, Bool.not_true, Bool.false_or, Bool.or_eq_true, List.isEmpty_iff] at this
    rcases this with (h | h) | h
    · exact Or.inl h
    · exact Or.inr (Or.inl (crossedLongB_sound h))
    · right; right
      unfold oneCrossB at h
      split at h
      · rename_i c hc
        simp only [Bool.and_eq_true, decide_eq_true_eq] at h
        exact ⟨c, hc, h.1, h.2⟩
      · cases h

theorem orderedB_sound : ∀ (l : List Seg) (lo : Rat), orderedB lo l = true → Ordered lo l := by
  intro l
  induction l with
  | nil => intro lo h; simpa [orderedB, Ordered] using h
  | cons s r ih =>
    intro lo h
    simp only [orderedB, Bool.and_eq_true, decide_eq_true_eq] at h
    exact ⟨h.1.1, h.1.2, ih _ h.2⟩

/-- (for computing examples) when the loop's list is already sorted, `column_track` returns it -/
theorem columnTrack_of_sorted {g : Geo} {a b : Pt} {st : TState}
    (h : trackLoop g a b (List.range g.ncols) {} = .ok st) (ht : sortTie st.track = false)
    (hs : st.track.Pairwise fun s s' => decide (s.tin ≤ s'.tin) = true) : columnTrack g a b = .ok st.track := by
  unfold columnTrack
  rw [h]
  simp only [ht, Bool.false_eq_true, if_false]
  rw [List.mergeSort_of_pairwise hs]

end Proofs.Track
