/-
  `refine_layers`: the thickness list it hands to `add_layers` has the same total as the old layer stack.
-/
import PyTough.Model.Geo
import PyTough.Proofs.Refine
namespace Proofs.Refine
open Model.Geo Model.Geo.Geo

theorem sumRat_replicate (n : Nat) (x : Rat) : sumRat (List.replicate n x) = n * x := by
  induction n with
  | zero => simp [sumRat]
  | succ k ih => simp only [List.replicate_succ, sumRat_cons, ih]; push_cast; grind

/-- the pieces of a refined layer add up to the layer -/
theorem refined_piece_sum (t : Rat) (f : Nat) (hf : f ≠ 0) : sumRat (List.replicate f (t / f)) = t := by
  rw [sumRat_replicate]
  have : (f : Rat) ≠ 0 := by exact_mod_cast hf
  grind

/-- `refine_layers` leaves the total thickness of the layer stack unchanged, for every selection and factor ≥ 1 -/
theorem refinedThicknesses_sum (ts : List (Rat × Bool)) (f : Nat) (hf : f ≠ 0) :
    sumRat (refinedThicknesses ts f) = sumRat (ts.map (·.1)) := by
  induction ts with
  | nil => rfl
  | cons p t ih =>
    simp only [refinedThicknesses, List.flatMap_cons, List.map_cons, sumRat_append, sumRat_cons] at ih ⊢
    rw [ih]
    split
    · rw [refined_piece_sum _ _ hf]
    · simp only [sumRat_cons, sumRat_nil]; grind

end Proofs.Refine
