/-
  Interval enclosures for the branch conditions of `sat_tsat_inverse`: a generic lemma (`Piece.branch`) turns closed
  numeric conditions on one piece `a ≤ ϑ ≤ b` (checked by `norm_num`) into the branch conditions for every `ϑ` of the
  piece.  The pieces themselves are in ThermoSatCover1..4.lean (generated once by an adaptive subdivision with exact
  rational arithmetic; every number in them is re-checked by Lean).
-/
import PyTough.Proofs.ThermoSat
namespace Proofs.Iapws
open Gen.Iapws Model.Thermo Proofs.Thermo

theorem bilinear_ge (x y x1 x2 y1 y2 L : ℝ) (hx1 : x1 ≤ x) (hx2 : x ≤ x2) (hy1 : y1 ≤ y) (hy2 : y ≤ y2)
    (c11 : L ≤ x1 * y1) (c12 : L ≤ x1 * y2) (c21 : L ≤ x2 * y1) (c22 : L ≤ x2 * y2) : L ≤ x * y := by
  rcases le_total 0 y with hy | hy
  · have h1 : x1 * y ≤ x * y := mul_le_mul_of_nonneg_right hx1 hy
    rcases le_total 0 x1 with h | h
    · have : x1 * y1 ≤ x1 * y := mul_le_mul_of_nonneg_left hy1 h
      linarith
    · have : x1 * y2 ≤ x1 * y := mul_le_mul_of_nonpos_left hy2 h
      linarith
  · have h1 : x2 * y ≤ x * y := mul_le_mul_of_nonpos_right hx2 hy
    rcases le_total 0 x2 with h | h
    · have : x2 * y1 ≤ x2 * y := mul_le_mul_of_nonneg_left hy1 h
      linarith
    · have : x2 * y2 ≤ x2 * y := mul_le_mul_of_nonpos_left hy2 h
      linarith

/-- the branch conditions of `sat_tsat_inverse` at one `ϑ` -/
def Branch (ϑ : ℝ) : Prop :=
  0 ≤ satDisc ϑ ∧ satDen ϑ ≠ 0 ∧ 0 ≤ satBeta ϑ ∧
  0 ≤ 2 * tsE (satBeta ϑ * satBeta ϑ) (satBeta ϑ) * ϑ + tsF (satBeta ϑ * satBeta ϑ) (satBeta ϑ) ∧
  tsE (satBeta ϑ * satBeta ϑ) (satBeta ϑ) * ϑ + tsF (satBeta ϑ * satBeta ϑ) (satBeta ϑ) ≠ 0 ∧
  pmin ≤ pstar4 * (satBeta ϑ * satBeta ϑ) * (satBeta ϑ * satBeta ϑ) ∧
  pstar4 * (satBeta ϑ * satBeta ϑ) * (satBeta ϑ * satBeta ϑ) ≤ pcritical

/-- interval data for one piece `a ≤ ϑ ≤ b` -/
structure Piece where
  (a b Alo Ahi Blo Bhi Clo Chi ACmax ACmin slo shi βlo βhi Mg Mh : ℝ)

/-- closed numeric conditions on a piece (checked by `norm_num`) that imply `Branch ϑ` for all `ϑ ∈ [a, b]` -/
def Piece.ok (P : Piece) : Prop :=
  162 ≤ P.a ∧ P.a ≤ P.b ∧
  P.Alo ≤ satA P.a ∧ satA P.b ≤ P.Ahi ∧
  P.Clo ≤ satC P.a ∧ satC P.b ≤ P.Chi ∧ 0 < P.Clo ∧
  ((P.Blo ≤ nr4_2 * (P.b * P.b) + nr4_3 * P.a + nr4_4 ∧ nr4_2 * (P.a * P.a) + nr4_3 * P.b + nr4_4 ≤ P.Bhi) ∨
    (353 ≤ P.a ∧ P.Blo ≤ satB P.b ∧ satB P.a ≤ P.Bhi)) ∧ P.Bhi < 0 ∧
  P.Ahi * P.Chi ≤ P.ACmax ∧ P.Ahi * P.Clo ≤ P.ACmax ∧ P.ACmin ≤ P.Alo * P.Chi ∧ P.ACmin ≤ P.Alo * P.Clo ∧
  0 ≤ P.slo ∧ P.slo * P.slo ≤ P.Bhi * P.Bhi - 4 * P.ACmax ∧ P.Blo * P.Blo - 4 * P.ACmin ≤ P.shi * P.shi ∧ 0 ≤ P.shi ∧
  0 < P.βlo ∧ P.βlo * (-P.Blo + P.shi) ≤ 2 * P.Clo ∧ 2 * P.Chi ≤ P.βhi * (-P.Bhi + P.slo) ∧
  P.Mg ≤ (2 * P.b * nr4_2 + nr4_3) * P.βlo ∧ P.Mg ≤ (2 * P.b * nr4_2 + nr4_3) * P.βhi ∧
  P.Mg ≤ (2 * P.a * nr4_2 + nr4_3) * P.βlo ∧ P.Mg ≤ (2 * P.a * nr4_2 + nr4_3) * P.βhi ∧
  0 ≤ (2 * P.a + nr4_0) * (P.βlo * P.βlo) + P.Mg + (2 * P.a * nr4_5 + nr4_6) ∧
  P.Mh ≤ (P.b * nr4_2 + nr4_3) * P.βlo ∧ P.Mh ≤ (P.b * nr4_2 + nr4_3) * P.βhi ∧
  P.Mh ≤ (P.a * nr4_2 + nr4_3) * P.βlo ∧ P.Mh ≤ (P.a * nr4_2 + nr4_3) * P.βhi ∧
  0 < (P.a + nr4_0) * (P.βlo * P.βlo) + P.Mh + (P.a * nr4_5 + nr4_6) ∧
  pmin ≤ pstar4 * (P.βlo * P.βlo) * (P.βlo * P.βlo) ∧ pstar4 * (P.βhi * P.βhi) * (P.βhi * P.βhi) ≤ pcritical

theorem nr4_signs : (0 : ℝ) < nr4_0 ∧ (nr4_2 : ℝ) < 0 ∧ (0 : ℝ) < nr4_3 ∧ (0 : ℝ) < nr4_5 ∧ (0 : ℝ) ≤ 2 * nr4_5 * 162 + nr4_6 := by
  unfold nr4_0 nr4_2 nr4_3 nr4_5 nr4_6; simp only [tf_lit]; norm_num

theorem satA_mono (a ϑ : ℝ) (a0 : 0 ≤ a) (h : a ≤ ϑ) : satA a ≤ satA ϑ := by
  have n0 := nr4_signs.1
  have e : satA ϑ - satA a = (ϑ - a) * (ϑ + a + nr4_0) := by unfold satA; ring
  have : 0 ≤ (ϑ - a) * (ϑ + a + nr4_0) := mul_nonneg (by linarith) (by linarith)
  linarith

theorem satC_mono (a ϑ : ℝ) (a0 : 162 ≤ a) (h : a ≤ ϑ) : satC a ≤ satC ϑ := by
  obtain ⟨_, _, _, n5, n56⟩ := nr4_signs
  have e : satC ϑ - satC a = (ϑ - a) * (nr4_5 * (ϑ + a) + nr4_6) := by unfold satC; ring
  have h324 : 324 ≤ ϑ + a := by linarith
  have h1 := mul_le_mul_of_nonneg_left h324 (le_of_lt n5)
  have : 0 ≤ nr4_5 * (ϑ + a) + nr4_6 := by linarith
  have : 0 ≤ (ϑ - a) * (nr4_5 * (ϑ + a) + nr4_6) := mul_nonneg (by linarith) this
  linarith

theorem satB_anti (a ϑ : ℝ) (a0 : 353 ≤ a) (h : a ≤ ϑ) : satB ϑ ≤ satB a := by
  have hn : (nr4_2 : ℝ) * 706 + nr4_3 ≤ 0 := by unfold nr4_2 nr4_3; simp only [tf_lit]; norm_num
  have n2 := nr4_signs.2.1
  have e : satB ϑ - satB a = (ϑ - a) * (nr4_2 * (ϑ + a) + nr4_3) := by unfold satB; ring
  have h706 : 706 ≤ ϑ + a := by linarith
  have h1 := mul_le_mul_of_nonpos_left h706 (le_of_lt n2)
  have : nr4_2 * (ϑ + a) + nr4_3 ≤ 0 := by linarith
  have : (ϑ - a) * (nr4_2 * (ϑ + a) + nr4_3) ≤ 0 := mul_nonpos_of_nonneg_of_nonpos (by linarith) this
  linarith

theorem satB_bounds (a b ϑ : ℝ) (a0 : 0 ≤ a) (ha : a ≤ ϑ) (hb : ϑ ≤ b) :
    nr4_2 * (b * b) + nr4_3 * a + nr4_4 ≤ satB ϑ ∧ satB ϑ ≤ nr4_2 * (a * a) + nr4_3 * b + nr4_4 := by
  obtain ⟨_, n2, n3, _, _⟩ := nr4_signs
  have sq1 : a * a ≤ ϑ * ϑ := mul_self_le_mul_self a0 ha
  have sq2 : ϑ * ϑ ≤ b * b := mul_self_le_mul_self (by linarith) hb
  have h1 := mul_le_mul_of_nonpos_left sq1 (le_of_lt n2)
  have h2 := mul_le_mul_of_nonpos_left sq2 (le_of_lt n2)
  have h3 := mul_le_mul_of_nonneg_left ha (le_of_lt n3)
  have h4 := mul_le_mul_of_nonneg_left hb (le_of_lt n3)
  unfold satB
  constructor <;> linarith

theorem prod_bounds (A C Alo Ahi Clo Chi ACmin ACmax : ℝ) (eA1 : Alo ≤ A) (eA2 : A ≤ Ahi) (eC1 : Clo ≤ C) (eC2 : C ≤ Chi)
    (hC : 0 < C) (ac1 : Ahi * Chi ≤ ACmax) (ac2 : Ahi * Clo ≤ ACmax) (ac3 : ACmin ≤ Alo * Chi) (ac4 : ACmin ≤ Alo * Clo) :
    ACmin ≤ A * C ∧ A * C ≤ ACmax := by
  constructor
  · have h1 : Alo * C ≤ A * C := mul_le_mul_of_nonneg_right eA1 (le_of_lt hC)
    rcases le_total 0 Alo with h | h
    · have : Alo * Clo ≤ Alo * C := mul_le_mul_of_nonneg_left eC1 h
      linarith
    · have : Alo * Chi ≤ Alo * C := mul_le_mul_of_nonpos_left eC2 h
      linarith
  · have h1 : A * C ≤ Ahi * C := mul_le_mul_of_nonneg_right eA2 (le_of_lt hC)
    rcases le_total 0 Ahi with h | h
    · have : Ahi * C ≤ Ahi * Chi := mul_le_mul_of_nonneg_left eC2 h
      linarith
    · have : Ahi * C ≤ Ahi * Clo := mul_le_mul_of_nonpos_left eC1 h
      linarith

theorem neg_sq_bounds (B Blo Bhi : ℝ) (h1 : Blo ≤ B) (h2 : B ≤ Bhi) (h0 : Bhi < 0) : Bhi * Bhi ≤ B * B ∧ B * B ≤ Blo * Blo := by
  constructor
  · have : 0 ≤ (Bhi - B) * (-(Bhi + B)) := mul_nonneg (by linarith) (by linarith)
    nlinarith
  · have : 0 ≤ (B - Blo) * (-(B + Blo)) := mul_nonneg (by linarith) (by linarith)
    nlinarith

/-- enclosure of `β = satBeta ϑ` on a piece, and the sign facts -/
theorem Piece.beta (P : Piece) (h : P.ok) (ϑ : ℝ) (ha : P.a ≤ ϑ) (hb : ϑ ≤ P.b) :
    0 ≤ satDisc ϑ ∧ 0 < satDen ϑ ∧ P.βlo ≤ satBeta ϑ ∧ satBeta ϑ ≤ P.βhi := by
  obtain ⟨a162, _, hAlo, hAhi, hClo, hChi, hC0, hBB, hB0, ac1, ac2, ac3, ac4, s0, s1, s2, s3, b0, b1, b2, _⟩ := h
  have a0 : 0 ≤ P.a := by linarith
  have eA1 : P.Alo ≤ satA ϑ := le_trans hAlo (satA_mono _ _ a0 ha)
  have eA2 : satA ϑ ≤ P.Ahi := le_trans (satA_mono _ _ (by linarith) hb) hAhi
  have eC1 : P.Clo ≤ satC ϑ := le_trans hClo (satC_mono _ _ a162 ha)
  have eC2 : satC ϑ ≤ P.Chi := le_trans (satC_mono _ _ (by linarith) hb) hChi
  have eB : P.Blo ≤ satB ϑ ∧ satB ϑ ≤ P.Bhi := by
    rcases hBB with ⟨hBlo, hBhi⟩ | ⟨a353, hBlo, hBhi⟩
    · obtain ⟨eB1', eB2'⟩ := satB_bounds P.a P.b ϑ a0 ha hb
      exact ⟨le_trans hBlo eB1', le_trans eB2' hBhi⟩
    · exact ⟨le_trans hBlo (satB_anti ϑ P.b (by linarith) hb), le_trans (satB_anti P.a ϑ a353 ha) hBhi⟩
  obtain ⟨eB1, eB2⟩ := eB
  have hCpos : 0 < satC ϑ := by linarith
  obtain ⟨eAC1, eAC2⟩ := prod_bounds _ _ _ _ _ _ _ _ eA1 eA2 eC1 eC2 hCpos ac1 ac2 ac3 ac4
  obtain ⟨eBB1, eBB2⟩ := neg_sq_bounds _ _ _ eB1 eB2 hB0
  clear hAlo hAhi hClo hChi ac1 ac2 ac3 ac4 eA1 eA2
  -- the discriminant and its square root
  have eD1 : P.slo * P.slo ≤ satDisc ϑ := by unfold satDisc; linarith
  have eD2 : satDisc ϑ ≤ P.shi * P.shi := by unfold satDisc; linarith
  have hD0 : 0 ≤ satDisc ϑ := le_trans (mul_self_nonneg _) eD1
  have eS1 : P.slo ≤ Real.sqrt (satDisc ϑ) := Real.le_sqrt_of_sq_le (by rw [sq]; exact eD1)
  have eS2 : Real.sqrt (satDisc ϑ) ≤ P.shi := by
    rw [Real.sqrt_le_left s3, sq]; exact eD2
  have den1 : -P.Bhi + P.slo ≤ satDen ϑ := by unfold satDen; linarith
  have den2 : satDen ϑ ≤ -P.Blo + P.shi := by unfold satDen; linarith
  have denpos : 0 < satDen ϑ := by linarith
  -- β
  have bhi0 : 0 < P.βhi := by
    by_contra hc
    have hc' : P.βhi ≤ 0 := not_lt.mp hc
    have : P.βhi * (-P.Bhi + P.slo) ≤ 0 := mul_nonpos_of_nonpos_of_nonneg hc' (by linarith)
    linarith
  have eb1 : P.βlo ≤ satBeta ϑ := by
    unfold satBeta; rw [le_div_iff₀ denpos]
    have : P.βlo * satDen ϑ ≤ P.βlo * (-P.Blo + P.shi) := mul_le_mul_of_nonneg_left den2 (le_of_lt b0)
    linarith
  have eb2 : satBeta ϑ ≤ P.βhi := by
    unfold satBeta; rw [div_le_iff₀ denpos]
    have : P.βhi * (-P.Bhi + P.slo) ≤ P.βhi * satDen ϑ := mul_le_mul_of_nonneg_left den1 (le_of_lt bhi0)
    linarith
  exact ⟨hD0, denpos, eb1, eb2⟩

theorem Piece.branch (P : Piece) (h : P.ok) (ϑ : ℝ) (ha : P.a ≤ ϑ) (hb : ϑ ≤ P.b) : Branch ϑ := by
  obtain ⟨hD0, denpos, eb1, eb2⟩ := P.beta h ϑ ha hb
  obtain ⟨a162, _, _, _, _, _, _, _, _, _, _, _, _, _, _, _, _, b0, _, _,
    g1, g2, g3, g4, g5, m1, m2, m3, m4, m5, p1, p2⟩ := h
  obtain ⟨n0, n2, n3, n5, n56⟩ := nr4_signs
  have hpp := pstar4_pos
  have a0 : 0 ≤ P.a := by linarith
  set β := satBeta ϑ with hβ
  have βpos : 0 < β := by linarith
  have ebb1 : P.βlo * P.βlo ≤ β * β := mul_self_le_mul_self (le_of_lt b0) eb1
  have ebb2 : β * β ≤ P.βhi * P.βhi := mul_self_le_mul_self (le_of_lt βpos) eb2
  -- G = 2 E ϑ + F
  have eG : 2 * tsE (β * β) β * ϑ + tsF (β * β) β
      = (2 * ϑ + nr4_0) * (β * β) + (2 * ϑ * nr4_2 + nr4_3) * β + (2 * ϑ * nr4_5 + nr4_6) := by
    unfold tsE tsF; ring
  have eH : tsE (β * β) β * ϑ + tsF (β * β) β
      = (ϑ + nr4_0) * (β * β) + (ϑ * nr4_2 + nr4_3) * β + (ϑ * nr4_5 + nr4_6) := by
    unfold tsE tsF; ring
  have x1 : P.b * nr4_2 ≤ ϑ * nr4_2 := mul_le_mul_of_nonpos_right hb (le_of_lt n2)
  have x2 : ϑ * nr4_2 ≤ P.a * nr4_2 := mul_le_mul_of_nonpos_right ha (le_of_lt n2)
  have gm : P.Mg ≤ (2 * ϑ * nr4_2 + nr4_3) * β :=
    bilinear_ge _ _ (2 * P.b * nr4_2 + nr4_3) (2 * P.a * nr4_2 + nr4_3) P.βlo P.βhi _ (by linarith) (by linarith) eb1 eb2 g1 g2 g3 g4
  have hm : P.Mh ≤ (ϑ * nr4_2 + nr4_3) * β :=
    bilinear_ge _ _ (P.b * nr4_2 + nr4_3) (P.a * nr4_2 + nr4_3) P.βlo P.βhi _ (by linarith) (by linarith) eb1 eb2 m1 m2 m3 m4
  have x3 : P.a * nr4_5 ≤ ϑ * nr4_5 := mul_le_mul_of_nonneg_right ha (le_of_lt n5)
  have g_first : (2 * P.a + nr4_0) * (P.βlo * P.βlo) ≤ (2 * ϑ + nr4_0) * (β * β) :=
    mul_le_mul (by linarith) ebb1 (mul_self_nonneg _) (by linarith)
  have h_first : (P.a + nr4_0) * (P.βlo * P.βlo) ≤ (ϑ + nr4_0) * (β * β) :=
    mul_le_mul (by linarith) ebb1 (mul_self_nonneg _) (by linarith)
  have g_last : 2 * P.a * nr4_5 + nr4_6 ≤ 2 * ϑ * nr4_5 + nr4_6 := by linarith
  have h_last : P.a * nr4_5 + nr4_6 ≤ ϑ * nr4_5 + nr4_6 := by linarith
  have e4lo : (P.βlo * P.βlo) * (P.βlo * P.βlo) ≤ (β * β) * (β * β) := mul_self_le_mul_self (mul_self_nonneg _) ebb1
  have e4hi : (β * β) * (β * β) ≤ (P.βhi * P.βhi) * (P.βhi * P.βhi) := mul_self_le_mul_self (mul_self_nonneg _) ebb2
  refine ⟨hD0, ne_of_gt denpos, le_of_lt βpos, ?_, ?_, ?_, ?_⟩
  · rw [eG]; linarith
  · rw [eH]; apply ne_of_gt; linarith
  · have := mul_le_mul_of_nonneg_left e4lo (le_of_lt hpp)
    calc pmin ≤ pstar4 * (P.βlo * P.βlo) * (P.βlo * P.βlo) := p1
      _ = pstar4 * ((P.βlo * P.βlo) * (P.βlo * P.βlo)) := by ring
      _ ≤ pstar4 * ((β * β) * (β * β)) := this
      _ = pstar4 * (β * β) * (β * β) := by ring
  · have := mul_le_mul_of_nonneg_left e4hi (le_of_lt hpp)
    calc pstar4 * (β * β) * (β * β) = pstar4 * ((β * β) * (β * β)) := by ring
      _ ≤ pstar4 * ((P.βhi * P.βhi) * (P.βhi * P.βhi)) := this
      _ = pstar4 * (P.βhi * P.βhi) * (P.βhi * P.βhi) := by ring
      _ ≤ pcritical := p2

theorem thetaOf_mono (T1 T2 : ℝ) (h : T1 ≤ T2) (h2 : T2 < nr4_9) : thetaOf T1 ≤ thetaOf T2 := by
  have hn := nr4_8_neg
  have w2 : T2 - nr4_9 < 0 := by linarith
  have w1 : T1 - nr4_9 < 0 := by linarith
  have hw1 : T1 - nr4_9 ≠ 0 := ne_of_lt w1
  have hw2 : T2 - nr4_9 ≠ 0 := ne_of_lt w2
  have e : nr4_8 / (T1 - nr4_9) - nr4_8 / (T2 - nr4_9) = nr4_8 * (T2 - T1) / ((T1 - nr4_9) * (T2 - nr4_9)) := by
    rw [div_sub_div _ _ hw1 hw2]; congr 1; ring
  have : nr4_8 * (T2 - T1) / ((T1 - nr4_9) * (T2 - nr4_9)) ≤ 0 :=
    div_nonpos_of_nonpos_of_nonneg (mul_nonpos_of_nonpos_of_nonneg (le_of_lt hn) (by linarith))
      (le_of_lt (mul_pos_of_neg_of_neg w1 w2))
  unfold thetaOf; linarith

theorem Piece.branchT (P : Piece) (h : P.ok) (Ta Tb : ℝ) (hb : Tb < nr4_9) (ea : P.a ≤ thetaOf Ta) (eb : thetaOf Tb ≤ P.b)
    (T : ℝ) (h1 : Ta ≤ T) (h2 : T ≤ Tb) : Branch (thetaOf T) :=
  P.branch h _ (le_trans ea (thetaOf_mono _ _ h1 (lt_of_le_of_lt h2 hb))) (le_trans (thetaOf_mono _ _ h2 hb) eb)
end Proofs.Iapws
