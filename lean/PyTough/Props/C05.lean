/-
  C05 — listing tables hold exactly the numbers printed in the listing file.

  Models: Model/Listing.lean (row layer: start_of_values, key_positions, parse_table_line, read_table_line_*,
  listingtable) and Model/ListingFile.lean (the whole reader, all simulators).  On every run the harness
  compares the whole-file model with the real t2listing, table by table and cell by cell (bit-equal doubles), on
  the 37 shipped files and on value-perturbed copies; an independent tokenizer of the printed rows is the oracle.
  The theorems state the clauses of the property for the row layer, on which everything else rests.
-/
import PyTough.Model.Listing
import PyTough.Proofs.Listing

namespace Props.C05
open Py Model Model.Listing Proofs.Listing

/-! ### the row-index, row-name and column-name ways of addressing a cell agree -/

/-- For a table cell (row `i` with key `key`, column `c` at position `k`, value `v`; `i` is the row its name
    addresses, i.e. the name is not repeated later): `table[i][c]`, `table[key][c]` and `table[c][i]` all give `v`,
    and both row forms announce `key`. -/
theorem addressing_agrees (t : Table) (i k : Nat) (c : Str) (key : Key) (rowv : Array FVal) (v : FVal)
    (hrow : t.rows[i]? = some key) (hname : lastIdx t.rows key = some i)
    (hcol : colIdx t.cols c = some k)
    (hdata : t.data[i]? = some rowv) (hlen : rowv.size = t.cols.length) (hv : rowv[k]? = some v) :
    (∃ rv, t.getByIndex i = .ok rv ∧ rv.key = key ∧ rv.get c = some v) ∧
    (∃ rv, t.getByName key = some rv ∧ rv.key = key ∧ rv.get c = some v) ∧
    (∃ col, t.getCol c = some col ∧ col[i]? = some v) := by
  have hi : i < t.rows.size := (lastIdx_spec hname).1
  refine ⟨⟨t.rowView i false, ?_, (rowView_key t i key hrow).1, ?_⟩, ⟨t.rowView i false, ?_, (rowView_key t i key hrow).1, ?_⟩,
    getCol_get t i k c rowv v hcol hdata hv⟩
  · unfold Table.getByIndex
    have h1 : ¬ ((i : Int) < 0) := by omega
    have h2 : ¬ ((i : Int) < 0 ∨ (i : Int) ≥ (t.rows.size : Int)) := by omega
    simp only [h1, if_false]
    simp [hi]
  · simpa using rowView_get t i k c rowv v false hcol hdata hlen hv
  · unfold Table.getByName; rw [hname]
  · simpa using rowView_get t i k c rowv v false hcol hdata hlen hv

/-- A connection named in reverse order (the name itself is not a row, its reverse is): the row comes back with the
    names reversed and every value negated. -/
theorem reversed_key_row (t : Table) (i k : Nat) (c : Str) (key rkey : Key) (rowv : Array FVal) (v : FVal)
    (hallow : t.allowRev = true) (hlen1 : pyLenKey key > 1)
    (hnot : lastIdx t.rows key = none) (hrev : lastIdx t.rows (pyRevKey key) = some i)
    (hrow : t.rows[i]? = some rkey)
    (hcol : colIdx t.cols c = some k)
    (hdata : t.data[i]? = some rowv) (hlen : rowv.size = t.cols.length) (hv : rowv[k]? = some v) :
    ∃ rv, t.getByName key = some rv ∧ rv.key = pyRevKey rkey ∧ rv.get c = some (negF v) := by
  refine ⟨t.rowView i true, ?_, (rowView_key t i rkey hrow).2, ?_⟩
  · unfold Table.getByName
    rw [hnot]
    have : (decide (pyLenKey key > 1) && t.allowRev) = true := by simp [hlen1, hallow]
    simp only [this, if_true, hrev]
  · simpa using rowView_get t i k c rowv v true hcol hdata hlen hv

-- a two-row connection table
private def exT : Table :=
  { mkTable [['F'], ['G']] #[[['a'], ['b']], [['b'], ['c']]] 2 true with
    data := #[#[.fin false 1 0, .fin false 2 0], #[.fin false 3 0, .fin true 4 0]] }
example : exT.getByIndex 1 = .ok ⟨[['b'], ['c']], [(['F'], .fin false 3 0), (['G'], .fin true 4 0)]⟩ := by decide
example : exT.getByName [['b'], ['c']] = some ⟨[['b'], ['c']], [(['F'], .fin false 3 0), (['G'], .fin true 4 0)]⟩ := by decide
example : exT.getByName [['c'], ['b']] = some ⟨[['c'], ['b']], [(['F'], .fin true 3 0), (['G'], .fin false 4 0)]⟩ := by decide
example : exT.getCol ['G'] = some [.fin false 2 0, .fin true 4 0] := by decide
example : lastIdx exT.rows [['b'], ['c']] = some 1 ∧ colIdx exT.cols ['G'] = some 1 := by decide

end Props.C05
